import Mathlib.Data.List.Induction
import LasioProofs.Props.C11
import LasioProofs.Props.C11File
/-
Helper lemmas for C13File (duplicates and blanks survive a write -> read round trip at FILE level).

Part A.  The reader model's session names (`Rd.sessionNames`, a closed form) are the session names `SectionItems.append`
         hands out one item after the other (`C11.rebuild` of the `Section` model): `rebuild_eq_numbered` (closed form of a
         section built by appends), `sessionGo_getElem?` (closed form of the reader), `sessionNames_eq_rebuild`.
Part B.  Header-line grammar for an EMPTY name (`C04_main_all` needs `name ≠ []`): `firstSome_nameDefault_blank`,
         `parse_layout_blank`, `parse_layout_param_blank`, `ConfB`, `C04_blank_all`.
Part C.  Writer side: `BlankConf`, `readLine_formatItem_blank`, `ItemOK`, `section_read_back` (`C03_section` + blanks),
         `file_read_back` (`C03_file` + blanks), `Cy.FileConfB`, `Cy.read_written_B`.
Part D.  `namesOf` (session names as a function of the originals), `BuiltByAppends`, the sections of the re-read header
         (`writtenOf`, `rereadItems`, `itemsOf`), `useful_nocolon`.
-/
namespace Lasio.SF
open Lasio Lasio.C11

/-! ## Part A: reader = SectionItems -/

/-- the `HeaderItem` / `CurveItem` the reader builds for a parsed line (`HeaderItem(mnemonic, unit, value, descr)`:
the session mnemonic starts as the useful one) -/
def toItem (r : Rd.RItem) : Item := mkItem r.orig r.unit r.value r.descr

/-- the `SectionItems` object `read` builds for one item section: the parsed items appended in file order -/
def sectionOfRead (tr : Bool) (l : List Rd.RItem) : Section := rebuild ⟨[], tr⟩ (l.map toItem)

/-! ### `countGroup` only looks at the original mnemonics, through `ckey` -/

theorem countGroup_append (tr : Bool) (t : Str) (l1 l2 : List Item) :
    countGroup tr t (l1 ++ l2) = countGroup tr t l1 + countGroup tr t l2 := by
  simp [countGroup]

theorem countGroup_origs (tr : Bool) (t : Str) (l1 l2 : List Item) (h : l1.map (·.orig) = l2.map (·.orig)) :
    countGroup tr t l1 = countGroup tr t l2 := by
  have e : ∀ l : List Item, countGroup tr t l =
      ((l.map (·.orig)).filter (fun o => cmpStr tr (useful o) t)).length := by
    intro l
    simp [countGroup, List.filter_map, Function.comp_def]
  rw [e, e, h]

theorem cmpStr_congr_key (tr : Bool) (x a b : Str) (h : ckey tr a = ckey tr b) : cmpStr tr x a = cmpStr tr x b := by
  rw [cmpStr_eq_ckey, cmpStr_eq_ckey, h]

theorem countGroup_congr (tr : Bool) (t t' : Str) (l : List Item) (h : ckey tr t = ckey tr t') :
    countGroup tr t l = countGroup tr t' l := by
  unfold countGroup
  congr 2
  funext it
  exact cmpStr_congr_key tr _ t t' h

theorem cmpStr_symm (tr : Bool) (a b : Str) : cmpStr tr a b = cmpStr tr b a := Cy.cmpStr_comm tr a b

/-! ### the closed form of a section built by appends -/

/-- what the item at position `i` of `l` looks like after all of `l` has been appended to an empty section: numbered with
its 1-based rank in its group when the group has more than one member, untouched otherwise -/
def numAt (tr : Bool) (l : List Item) (i : Nat) (it : Item) : Item :=
  if countGroup tr (useful it.orig) l > 1 then withSuffix it (countGroup tr (useful it.orig) (l.take i) + 1) else it

def numbered (tr : Bool) (l : List Item) : List Item := l.mapIdx (numAt tr l)

theorem numAt_pos (tr : Bool) (l : List Item) (i : Nat) (it : Item) (h : countGroup tr (useful it.orig) l > 1) :
    numAt tr l i it = withSuffix it (countGroup tr (useful it.orig) (l.take i) + 1) := by
  unfold numAt; rw [if_pos h]

theorem numAt_neg (tr : Bool) (l : List Item) (i : Nat) (it : Item) (h : ¬ countGroup tr (useful it.orig) l > 1) :
    numAt tr l i it = it := by
  unfold numAt; rw [if_neg h]

theorem numAt_orig (tr : Bool) (l : List Item) (i : Nat) (it : Item) : (numAt tr l i it).orig = it.orig := by
  unfold numAt; split <;> rfl

theorem numbered_origs (tr : Bool) (l : List Item) : (numbered tr l).map (·.orig) = l.map (·.orig) := by
  apply List.ext_getElem?
  intro i
  simp only [numbered, List.getElem?_map, List.getElem?_mapIdx]
  cases l[i]? <;> simp [numAt_orig]

theorem numbered_length (tr : Bool) (l : List Item) : (numbered tr l).length = l.length := by
  simp [numbered]

theorem withSuffix_numAt (tr : Bool) (l : List Item) (i : Nat) (it : Item) (k : Nat) :
    withSuffix (numAt tr l i it) k = withSuffix it k := by
  unfold numAt; split <;> rfl

theorem take_origs (l1 l2 : List Item) (h : l1.map (·.orig) = l2.map (·.orig)) (i : Nat) :
    (l1.take i).map (·.orig) = (l2.take i).map (·.orig) := by
  rw [List.map_take, List.map_take, h]

/-- one `append` on the closed form -/
theorem assign_numbered (tr : Bool) (l : List Item) (a : Item) :
    ((⟨numbered tr l ++ [a], tr⟩ : Section).assignSuffixes (useful a.orig)) = ⟨numbered tr (l ++ [a]), tr⟩ := by
  have hor : (numbered tr l ++ [a]).map (·.orig) = (l ++ [a]).map (·.orig) := by
    simp [numbered_origs]
  have hcnt : ∀ t, countGroup tr t (numbered tr l ++ [a]) = countGroup tr t (l ++ [a]) :=
    fun t => countGroup_origs tr t _ _ hor
  have hself : cmpStr tr (useful a.orig) (useful a.orig) = true := cmpStr_refl _ _
  -- an item of `l` outside the group of `a` is not affected by the new item
  have hout : ∀ (i : Nat) (x : Item), i < l.length → cmpStr tr (useful x.orig) (useful a.orig) = false →
      numAt tr (l ++ [a]) i x = numAt tr l i x := by
    intro i x hi hx
    have h0 : countGroup tr (useful x.orig) [a] = 0 := by
      have : cmpStr tr (useful a.orig) (useful x.orig) = false := by rw [cmpStr_symm]; exact hx
      simp [countGroup, this]
    unfold numAt
    rw [countGroup_append, h0, List.take_append_of_le_length (by omega)]
    rfl
  -- an item of `l` inside the group of `a`
  have hin : ∀ (x : Item), cmpStr tr (useful x.orig) (useful a.orig) = true →
      ∀ l', countGroup tr (useful x.orig) l' = countGroup tr (useful a.orig) l' := by
    intro x hx l'
    exact countGroup_congr tr _ _ l' ((cmpStr_true_iff _ _ _).mp hx)
  unfold Section.assignSuffixes
  simp only [hcnt]
  split
  · rename_i hgt
    congr 1
    apply List.ext_getElem?
    intro i
    rw [renumber_getElem?]
    simp only [numbered, List.getElem?_mapIdx]
    by_cases hi : i < l.length
    · have h1 : (List.mapIdx (numAt tr l) l ++ [a])[i]? = some (numAt tr l i l[i]) := by
        rw [List.getElem?_append_left (by simpa using hi)]
        simp [hi]
      have h2 : (l ++ [a])[i]? = some l[i] := by
        rw [List.getElem?_append_left hi]; simp [hi]
      rw [h1, h2]
      simp only [Option.map_some, Option.some.injEq]
      cases hg : cmpStr tr (useful l[i].orig) (useful a.orig) with
      | true =>
        have hg' : inGroup tr (useful a.orig) (numAt tr l i l[i]) = true := by
          simp [inGroup, numAt_orig, hg]
        rw [if_pos hg', withSuffix_numAt]
        have hc := hcnt (useful a.orig)
        have e1 : countGroup tr (useful a.orig) (List.take i (List.mapIdx (numAt tr l) l ++ [a])) =
            countGroup tr (useful a.orig) (List.take i (l ++ [a])) :=
          countGroup_origs tr _ _ _ (take_origs _ _ hor i)
        rw [numAt_pos _ _ _ _ (by rw [hin _ hg]; exact hgt), hin _ hg, e1]
        simp
      | false =>
        have hg' : ¬ inGroup tr (useful a.orig) (numAt tr l i l[i]) = true := by
          simp [inGroup, numAt_orig, hg]
        rw [if_neg hg', hout i _ hi hg]
    · by_cases hi2 : i = l.length
      · subst hi2
        have h1 : (List.mapIdx (numAt tr l) l ++ [a])[l.length]? = some a := by
          rw [List.getElem?_append_right (by simp)]
          simp
        have h2 : (l ++ [a])[l.length]? = some a := by
          rw [List.getElem?_append_right (by simp)]
          simp
        rw [h1, h2]
        simp only [Option.map_some, Option.some.injEq]
        have hg' : inGroup tr (useful a.orig) a = true := hself
        rw [if_pos hg']
        have e1 : countGroup tr (useful a.orig) (List.take l.length (List.mapIdx (numAt tr l) l ++ [a])) =
            countGroup tr (useful a.orig) (List.take l.length (l ++ [a])) :=
          countGroup_origs tr _ _ _ (take_origs _ _ hor _)
        rw [numAt_pos _ _ _ _ hgt, e1]
        simp
      · have h1 : (List.mapIdx (numAt tr l) l ++ [a])[i]? = none := by
          apply List.getElem?_eq_none; simp; omega
        have h2 : (l ++ [a])[i]? = none := by
          apply List.getElem?_eq_none; simp; omega
        rw [h1, h2]; rfl
  · rename_i hle
    congr 1
    apply List.ext_getElem?
    intro i
    simp only [numbered, List.getElem?_mapIdx]
    by_cases hi : i < l.length
    · have h1 : (List.mapIdx (numAt tr l) l ++ [a])[i]? = some (numAt tr l i l[i]) := by
        rw [List.getElem?_append_left (by simpa using hi)]
        simp [hi]
      have h2 : (l ++ [a])[i]? = some l[i] := by
        rw [List.getElem?_append_left hi]; simp [hi]
      rw [h1, h2]
      simp only [Option.map_some, Option.some.injEq]
      cases hg : cmpStr tr (useful l[i].orig) (useful a.orig) with
      | true =>
        exfalso
        apply hle
        rw [countGroup_append]
        have := countGroup_pos_of_mem tr (useful a.orig) l l[i] (List.getElem_mem hi) hg
        have h1 : countGroup tr (useful a.orig) [a] = 1 := by simp [countGroup, hself]
        omega
      | false => rw [hout i _ hi hg]
    · by_cases hi2 : i = l.length
      · subst hi2
        have h1 : (List.mapIdx (numAt tr l) l ++ [a])[l.length]? = some a := by
          rw [List.getElem?_append_right (by simp)]
          simp
        have h2 : (l ++ [a])[l.length]? = some a := by
          rw [List.getElem?_append_right (by simp)]
          simp
        rw [h1, h2]
        simp only [Option.map_some, Option.some.injEq]
        rw [numAt_neg _ _ _ _ hle]
      · have h1 : (List.mapIdx (numAt tr l) l ++ [a])[i]? = none := by
          apply List.getElem?_eq_none; simp; omega
        have h2 : (l ++ [a])[i]? = none := by
          apply List.getElem?_eq_none; simp; omega
        rw [h1, h2]; rfl

theorem rebuild_snoc (s : Section) (l : List Item) (a : Item) : rebuild s (l ++ [a]) = (rebuild s l).append a := by
  simp [rebuild, List.foldl_append]

/-- **closed form of a section built by appends** (no hypothesis on the items: an item that is never renumbered keeps
the session name it came with) -/
theorem rebuild_eq_numbered (tr : Bool) (l : List Item) : rebuild ⟨[], tr⟩ l = ⟨numbered tr l, tr⟩ := by
  induction l using List.reverseRecOn with
  | nil => rfl
  | append_singleton l a ih =>
    rw [rebuild_snoc, ih]
    exact assign_numbered tr l a

/-! ### the reader's closed form -/

/-- number of strings of `l` that compare equal to `u` -/
def cnt (tr : Bool) (u : Str) (l : List Str) : Nat := (l.filter (fun v => Rd.mcmp tr v u)).length

theorem cnt_append (tr : Bool) (u : Str) (l1 l2 : List Str) : cnt tr u (l1 ++ l2) = cnt tr u l1 + cnt tr u l2 := by
  simp [cnt]

theorem mcmp_refl (tr : Bool) (u : Str) : Rd.mcmp tr u u = true := cmpStr_refl tr u

theorem sessionGo_getElem? (tr : Bool) (before after : List Str) (j : Nat) :
    (Rd.sessionGo tr before after)[j]? = (after[j]?).map fun u =>
      if cnt tr u (before ++ after) > 1 then u ++ ':' :: natToStr (cnt tr u (before ++ after.take j) + 1) else u := by
  induction after generalizing before j with
  | nil => simp [Rd.sessionGo]
  | cons u a' ih =>
    cases j with
    | zero =>
      simp only [Rd.sessionGo, List.getElem?_cons_zero, Option.map_some, List.take_zero, List.append_nil,
        Option.some.injEq]
      have e : cnt tr u (before ++ u :: a') = (before.filter fun v => Rd.mcmp tr v u).length + 1 +
          (a'.filter fun v => Rd.mcmp tr v u).length := by
        simp [cnt, mcmp_refl]; omega
      rw [e]
      rfl
    | succ j =>
      simp only [Rd.sessionGo, List.getElem?_cons_succ, List.take_succ_cons]
      rw [ih (before ++ [u]) j]
      simp

theorem cnt_map_U (tr : Bool) (t : Str) (L : List Rd.RItem) :
    cnt tr t (L.map fun r => Rd.usefulMn r.orig) = countGroup tr t (L.map toItem) := by
  simp only [cnt, countGroup, List.filter_map, List.length_map]
  congr 2
  funext r
  simp [toItem, mkItem, Cy.useful_eq, Cy.cmpStr_eq]

/-- **Reader = SectionItems.**  The session mnemonics the reader model computes for the items of a section are the
session mnemonics of the `SectionItems` object obtained by appending the parsed items, in file order, to an empty
section — for every list of read items and both settings of `mnemonic_transforms`. -/
theorem sessionNames_eq_rebuild (tr : Bool) (l : List Rd.RItem) :
    Rd.sessionNames tr l = (rebuild ⟨[], tr⟩ (l.map toItem)).keys := by
  rw [rebuild_eq_numbered]
  apply List.ext_getElem?
  intro i
  simp only [Rd.sessionNames, Section.keys, numbered, sessionGo_getElem?, List.getElem?_map, List.getElem?_mapIdx,
    List.nil_append]
  cases hl : l[i]? with
  | none => rfl
  | some r =>
    simp only [Option.map_some, Option.some.injEq]
    rw [← List.map_take, cnt_map_U, cnt_map_U]
    unfold numAt
    have e : useful (toItem r).orig = Rd.usefulMn r.orig := by simp [toItem, mkItem, Cy.useful_eq]
    rw [e, List.map_take]
    split
    · simp [withSuffix, e]
    · simp [toItem, mkItem, Cy.useful_eq]

theorem sectionOfRead_keys (tr : Bool) (l : List Rd.RItem) : (sectionOfRead tr l).keys = Rd.sessionNames tr l :=
  (sessionNames_eq_rebuild tr l).symm

theorem sectionOfRead_eq (tr : Bool) (l : List Rd.RItem) : sectionOfRead tr l = ⟨numbered tr (l.map toItem), tr⟩ :=
  rebuild_eq_numbered tr _

theorem sectionOfRead_tr (tr : Bool) (l : List Rd.RItem) : (sectionOfRead tr l).tr = tr := by
  rw [sectionOfRead_eq]

theorem sectionOfRead_origs (tr : Bool) (l : List Rd.RItem) : (sectionOfRead tr l).origs = l.map (·.orig) := by
  rw [sectionOfRead_eq]
  simp only [Section.origs, numbered_origs, List.map_map]
  rfl

end Lasio.SF

/-! ## Part B: the line written for a BLANK mnemonic

`C03_item` / `C04_main_all` require a non-empty mnemonic (`Conf.name_ne`, `TextConf.mnem_ne`).  The line written for an
item whose original mnemonic is the empty string is `<left padding>.unit  value : descr`; after `strip` it starts with the
period.  `name_re = \.?(?P<name>[^.]*)\.` first skips that period and looks for ANOTHER one: a period in the unit or before the
delimiter colon is found and ends a (wrong, non-empty) name — the known finding `blank-mnemonic-period`; a period after the
delimiter colon is found too, but then no colon is left for the value fragment, the match fails, and the regex falls back to the
alternative without skipping: the EMPTY name.  The lemmas below are the `A = []` versions of `matchPattern_default_ok`,
`parse_layout_ok`, `parse_layout_param_ok`, `C04_main`, `C04_main_parameter`. -/
namespace Lasio

theorem splitFirst_sound (ch : Char) (s a r : Str) (h : splitFirst ch s = some (a, r)) :
    s = a ++ ch :: r ∧ ∀ c ∈ a, c ≠ ch := by
  induction s generalizing a with
  | nil => simp [splitFirst] at h
  | cons c s ih =>
    by_cases hc : c = ch
    · subst hc
      simp [splitFirst] at h
      obtain ⟨rfl, rfl⟩ := h
      simp
    · have e : splitFirst ch (c :: s) = (splitFirst ch s).map (fun ar => (c :: ar.1, ar.2)) := by
        simp only [splitFirst, List.dropWhile_cons, List.takeWhile_cons, bne_iff_ne, ne_eq, hc, not_false_eq_true,
          ↓reduceIte]
        cases s.dropWhile (· != ch) <;> rfl
      rw [e] at h
      cases hs : splitFirst ch s with
      | none => rw [hs] at h; cases h
      | some ar =>
        obtain ⟨a', r'⟩ := ar
        rw [hs] at h
        simp only [Option.map_some, Option.some.injEq, Prod.mk.injEq] at h
        obtain ⟨rfl, rfl⟩ := h
        obtain ⟨h1, h2⟩ := ih a' hs
        refine ⟨by rw [h1]; simp, ?_⟩
        intro x hx
        rcases List.mem_cons.mp hx with rfl | hx
        · exact hc
        · exact h2 x hx

/-- the name fragment on `. P : D` (`P` period-free): the alternative "skip the leading period" ends at a period of `D` (if any);
when the continuation fails on every such alternative, the search arrives at the EMPTY name -/
theorem firstSome_nameDefault_blank {β} (P D : Str) (g : Option Str × Str → Option β)
    (hP : ∀ c ∈ P, c ≠ '.')
    (hfail : ∀ n D1 D2, D = D1 ++ '.' :: D2 → g (n, D2) = none) :
    firstSome (nameDefault ('.' :: (P ++ ':' :: D))) g = g (some [], P ++ ':' :: D) := by
  have h2 : splitFirst '.' ('.' :: (P ++ ':' :: D)) = some ([], P ++ ':' :: D) := by
    simpa using splitFirst_append '.' [] (P ++ ':' :: D) (by simp)
  cases hsf : splitFirst '.' (P ++ ':' :: D) with
  | none =>
    have : nameDefault ('.' :: (P ++ ':' :: D)) = [(some [], P ++ ':' :: D)] := by
      simp [nameDefault, dotStarts, hsf, h2]
    rw [this, firstSome_singleton]
  | some ar =>
    obtain ⟨a, r'⟩ := ar
    have : nameDefault ('.' :: (P ++ ':' :: D)) = [(some a, r'), (some [], P ++ ':' :: D)] := by
      simp [nameDefault, dotStarts, hsf, h2]
    rw [this]
    obtain ⟨hs1, hs2⟩ := splitFirst_sound '.' _ a r' hsf
    have hD : ∃ D1, D = D1 ++ '.' :: r' := by
      rcases List.append_eq_append_iff.mp hs1 with ⟨a', ha, hr⟩ | ⟨c', hPc, hr⟩
      · cases a' with
        | nil => simp at hr
        | cons x a'' =>
          simp only [List.cons_append, List.cons.injEq] at hr
          exact ⟨a'', hr.2⟩
      · cases c' with
        | nil => simp at hr
        | cons x c'' =>
          simp only [List.cons_append, List.cons.injEq] at hr
          exfalso
          exact hP '.' (by rw [hPc, ← hr.1]; simp) rfl
    obtain ⟨D1, hD1⟩ := hD
    rw [firstSome_cons_none _ _ g (hfail _ D1 r' hD1), firstSome_singleton]

/-- what is asked of the text after the delimiter colon on a line with an empty name: no period, or no colon -/
def TailOK (D : Str) : Prop := (∀ c ∈ D, c ≠ '.') ∨ (∀ c ∈ D, c ≠ ':')

theorem tail_decomp_nocolon (D D1 D2 : Str) (hD : TailOK D) (h : D = D1 ++ '.' :: D2) : ∀ c ∈ D2, c ≠ ':' := by
  rcases hD with hd | hc
  · exact absurd rfl (hd '.' (by rw [h]; simp))
  · intro c hc2
    exact hc c (by rw [h]; simp [hc2])

theorem matchPattern_default_blank (cap V D : Str)
    (hnd : ∀ c ∈ cap ++ V, c ≠ '.') (hDt : TailOK D)
    (hcap : UnitCap cap (V ++ ':' :: D))
    (hV : ∀ c, V.head? = some c → isPySpace c = true)
    (hD : ∀ c ∈ D, c ≠ ':') :
    matchPattern ⟨.dflt, .dflt, .greedyColon, .rest⟩ ('.' :: (cap ++ V ++ ':' :: D)) =
      some (postProcess (some []) (some cap) (some V) (some D)) := by
  rw [matchPattern_default_eq, firstSome_nameDefault_blank (cap ++ V) D _ hnd]
  · dsimp only
    rw [List.append_assoc]
    rw [← List.append_assoc]
    apply unitDefault_stage_colon cap V D _ _ hcap hV
    · intro _ u d1 r hd
      apply contGreedy_nocolon
      intro c hc
      exact hD c (by rw [hd]; simp [hc])
    · exact contGreedy_ok _ _ _ _ hD
  · intro n D1 D2 hd
    dsimp only
    apply firstSome_all_none
    intro ⟨u, r⟩ hur
    obtain ⟨X, hX⟩ := unitDefault_mem D2 u r hur
    apply contGreedy_nocolon
    intro c hc
    exact tail_decomp_nocolon D D1 D2 hDt hd c (by rw [hX]; simp [hc])

theorem findDotDot_blank (R : Str) (hR : ∀ c ∈ R, c ≠ '.') : findDotDot ('.' :: R) = none := by
  rw [findDotDot_cons, findDotDot_nodot R hR]
  have : R.head? ≠ some '.' := head?_ne_of_forall hR
  simp [this]

theorem parse_default_blank (sec : SecName) (hsec : sec ≠ .parameter) (cap V D : Str)
    (hnd : ∀ c ∈ cap ++ V, c ≠ '.') (hDt : TailOK D)
    (hcap : UnitCap cap (V ++ ':' :: D))
    (hV : ∀ c, V.head? = some c → isPySpace c = true)
    (hD : ∀ c ∈ D, c ≠ ':') :
    parseHeaderLine sec ('.' :: (cap ++ V ++ ':' :: D)) =
      some (postProcess (some []) (some cap) (some V) (some D)) := by
  have hcfg : configurePatterns ('.' :: (cap ++ V ++ ':' :: D)) sec =
      [⟨.dflt, .dflt, .greedyColon, .rest⟩] := by
    apply configurePatterns_default _ _ hsec
    · simp
    · simp
    · intro _ dd dc hdd hdc
      have hline : '.' :: (cap ++ V ++ ':' :: D) = ('.' :: (cap ++ V)) ++ ':' :: D := by simp
      rw [hline] at hdd hdc
      rw [rfindColon_last _ _ hD] at hdc
      have := findDotDot_after_colon _ D (findDotDot_blank _ hnd) dd hdd
      have hdc' : ('.' :: (cap ++ V)).length = dc := by simpa using hdc
      omega
  unfold parseHeaderLine
  rw [hcfg, firstSome_singleton]
  exact matchPattern_default_blank cap V D hnd hDt hcap hV hD

theorem strip_nil' : strip ([] : Str) = [] := rfl

/-- round trip on `. unit V : D` (empty name, no further period before the delimiter colon) outside ~Parameter -/
theorem parse_layout_blank (sec : SecName) (hsec : sec ≠ .parameter) (unit V D : Str)
    (hnd : ∀ c ∈ unit ++ V, c ≠ '.')
    (hu : ∀ c ∈ unit, isPySpace c = false)
    (hV : ∀ c, V.head? = some c → isPySpace c = true)
    (hdig : unit ≠ [] → (∀ c ∈ unit, isAsciiDigit c = true) →
      ∀ b1 V', V = b1 :: V' → ∀ c, V'.head? = some c → isPySpace c = true)
    (hD : ∀ c ∈ D, c ≠ ':') :
    parseHeaderLine sec ('.' :: (unit ++ V ++ ':' :: D)) = some ⟨[], unit, strip V, strip D⟩ := by
  obtain ⟨cap, V', happ, hcap, hs1, hs2, hV', _, _⟩ := unitCap_layout unit V D hu hV hdig
  have hulast : unit.getLast? ≠ some '.' :=
    getLast?_ne_of_forall (fun c hc => hnd c (by simp [hc]))
  have hline : '.' :: (unit ++ V ++ ':' :: D) = '.' :: (cap ++ V' ++ ':' :: D) := by
    rw [happ]
  rw [hline, parse_default_blank sec hsec cap V' D (by rw [happ]; exact hnd) (Or.inr hD) hcap hV' hD,
    postProcess_eq [] cap V' D unit V hs1 hs2 hulast, strip_nil']

theorem matchPattern_time_blank (cap V D : Str)
    (hnd : ∀ c ∈ cap ++ V, c ≠ '.') (hDt : TailOK D)
    (hcap : UnitCap cap (V ++ ':' :: D))
    (hV : ∀ c, V.head? = some c → isPySpace c = true)
    (hVt : timeLikeB V = true)
    (hD : V = [] → ∀ c ∈ D, c ≠ ':')
    (hsep : sepOk (('.' :: (cap ++ V)).reverse) D = true) :
    matchPattern ⟨.dflt, .dflt, .time, .rest⟩ ('.' :: (cap ++ V ++ ':' :: D)) =
      some (postProcess (some []) (some cap) (some V) (some D)) := by
  rw [matchPattern_time_eq, firstSome_nameDefault_blank (cap ++ V) D _ hnd]
  · dsimp only
    apply unitDefault_stage_colon cap V D _ _ hcap hV
    · intro hVnil u d1 r hd
      apply contTime_nocolon
      intro c hc
      exact hD hVnil c (by rw [hd]; simp [hc])
    · apply contTime_ok _ ('.' :: cap) V D _ _ (by simp) hVt
      simpa using hsep
  · intro n D1 D2 hd
    dsimp only
    apply firstSome_all_none
    intro ⟨u, r⟩ hur
    obtain ⟨X, hX⟩ := unitDefault_mem D2 u r hur
    apply contTime_nocolon
    intro c hc
    exact tail_decomp_nocolon D D1 D2 hDt hd c (by rw [hX]; simp [hc])

theorem matchPattern_time_none_blank (cap V D : Str)
    (hnd : ∀ c ∈ cap ++ V, c ≠ '.') (hDt : TailOK D)
    (P : Str) (hline : '.' :: (cap ++ V ++ ':' :: D) = P ++ ':' :: D) (hP : timeLikeB P = true) (hD : ∀ c ∈ D, c ≠ ':')
    (hsep : sepOk P.reverse D = false) :
    matchPattern ⟨.dflt, .dflt, .time, .rest⟩ ('.' :: (cap ++ V ++ ':' :: D)) = none := by
  rw [matchPattern_time_eq, firstSome_nameDefault_blank (cap ++ V) D _ hnd]
  · dsimp only
    apply firstSome_all_none
    intro ⟨u, r⟩ hur
    obtain ⟨X, hX⟩ := unitDefault_mem (cap ++ V ++ ':' :: D) u r hur
    exact contTime_unique_fail _ P D ('.' :: X) r _ _ hline hP hD hsep (by rw [hX]; simp)
  · intro n D1 D2 hd
    dsimp only
    apply firstSome_all_none
    intro ⟨u, r⟩ hur
    obtain ⟨X, hX⟩ := unitDefault_mem D2 u r hur
    apply contTime_nocolon
    intro c hc
    exact tail_decomp_nocolon D D1 D2 hDt hd c (by rw [hX]; simp [hc])

/-- round trip on `. unit V : D` (empty name, no further period before the delimiter colon, `D` without period or without
colon) in ~Parameter -/
theorem parse_layout_param_blank (unit V D : Str)
    (hnd : ∀ c ∈ unit ++ V, c ≠ '.') (hDt : TailOK D)
    (hu : ∀ c ∈ unit, isPySpace c = false)
    (hV : ∀ c, V.head? = some c → isPySpace c = true)
    (hVt : timeLikeB V = true)
    (hdig : unit ≠ [] → (∀ c ∈ unit, isAsciiDigit c = true) →
      ∀ b1 V', V = b1 :: V' → ∀ c, V'.head? = some c → isPySpace c = true)
    (hD1 : (∃ c ∈ D, c = ':') → V ≠ [])
    (hD2 : (∃ c ∈ D, c = ':') → unit ≠ [] → (∀ c ∈ unit, isAsciiDigit c = true) → 2 ≤ V.length)
    (hsep : ((∃ c ∈ D, c = ':') ∨ (∃ c ∈ unit, c = ':')) →
      sepOk (('.' :: (unit ++ V)).reverse) D = true) :
    parseHeaderLine .parameter ('.' :: (unit ++ V ++ ':' :: D)) = some ⟨[], unit, strip V, strip D⟩ := by
  obtain ⟨cap, V', happ, hcap, hs1, hs2, hV', hsub, hnil⟩ := unitCap_layout unit V D hu hV hdig
  have hulast : unit.getLast? ≠ some '.' :=
    getLast?_ne_of_forall (fun c hc => hnd c (by simp [hc]))
  have hnd' : ∀ c ∈ cap ++ V', c ≠ '.' := by rw [happ]; exact hnd
  have hline : '.' :: (unit ++ V ++ ':' :: D) = '.' :: (cap ++ V' ++ ':' :: D) := by
    rw [happ]
  have hcfg := configurePatterns_parameter ('.' :: (cap ++ V' ++ ':' :: D)) (by simp)
    (by simp)
  have hpost := postProcess_eq [] cap V' D unit V hs1 hs2 hulast
  rw [strip_nil'] at hpost
  have hV't : timeLikeB V' = true := by
    rcases hsub with rfl | ⟨b1, rfl⟩
    · exact hVt
    · exact timeLikeB_tail b1 V' hVt
  rw [hline]
  unfold parseHeaderLine
  rw [hcfg]
  cases hs : sepOk (('.' :: (unit ++ V)).reverse) D with
  | true =>
    apply firstSome_head
    rw [← hpost]
    apply matchPattern_time_blank cap V' D hnd' hDt hcap hV' hV't
    · intro hV'nil c hc heq
      obtain ⟨hlen, hd⟩ := hnil hV'nil
      have hex : ∃ c ∈ D, c = ':' := ⟨c, hc, heq⟩
      have hVne := hD1 hex
      obtain ⟨hune, hdg⟩ := hd hVne
      have := hD2 hex hune hdg
      omega
    · rw [happ]; exact hs
  | false =>
    have hDc : ∀ c ∈ D, c ≠ ':' := by
      intro c hc heq
      rw [hsep (Or.inl ⟨c, hc, heq⟩)] at hs; exact absurd hs (by simp)
    have huc : ∀ c ∈ unit, c ≠ ':' := by
      intro c hc heq
      rw [hsep (Or.inr ⟨c, hc, heq⟩)] at hs; exact absurd hs (by simp)
    have hP : timeLikeB ('.' :: (unit ++ V)) = true := by
      have : '.' :: (unit ++ V) = ('.' :: unit) ++ V := by simp
      rw [this]
      apply timeLikeB_append_left _ _ _ hVt
      intro c hc
      rcases List.mem_cons.mp hc with rfl | h
      · decide
      · exact huc c h
    have hnone := matchPattern_time_none_blank cap V' D hnd' hDt ('.' :: (unit ++ V))
      (by rw [happ]; simp) hP hDc hs
    rw [firstSome_cons_none _ _ (fun p => matchPattern p _) hnone, firstSome_singleton, ← hpost]
    exact matchPattern_default_blank cap V' D hnd' hDt hcap hV' hDc

/-- conformant field contents of a line with an EMPTY name: `Conf` with the name conditions replaced by
"no period in unit, value and description" (`unit_nodd`, `unit_first`, `unit_last`, `value_nodd` of `Conf` follow) -/
structure ConfB (sec : SecName) (f : Fields) : Prop where
  name_nil : f.name = []
  unit_nosp : ∀ c ∈ f.unit, isPySpace c = false
  unit_nodot : ∀ c ∈ f.unit, c ≠ '.'
  value_strip : strip f.value = f.value
  value_nodot : ∀ c ∈ f.value, c ≠ '.'
  value_nocolon : (∀ c ∈ f.value, c ≠ ':') ∨ (sec = .parameter ∧ TimeLike f.value)
  descr_strip : strip f.descr = f.descr
  /-- a period in the description is harmless when the description has no colon (the name alternative that ends at that
  period finds no delimiter colon after it) -/
  descr_tail : (∀ c ∈ f.descr, c ≠ '.') ∨ (∀ c ∈ f.descr, c ≠ ':')
  descr_nocolon : sec ≠ .parameter → ∀ c ∈ f.descr, c ≠ ':'

theorem nodot_layout_blank (f : Fields) (p2 p3 : Str) (b2 : Blank p2) (b3 : Blank p3)
    (hu : ∀ c ∈ f.unit, c ≠ '.') (hv : ∀ c ∈ f.value, c ≠ '.') :
    ∀ c ∈ f.unit ++ (p2 ++ f.value ++ p3), c ≠ '.' := by
  have nd : ∀ {p : Str}, Blank p → ∀ c ∈ p, c ≠ '.' := fun h c hc => IsBlank.ne_dot (h c hc)
  intro c hc
  rcases List.mem_append.mp hc with h | h
  · exact hu c h
  · exact forall_mem_append3 _ _ _ (nd b2) hv (nd b3) c h

theorem tailOK_pad (d p4 p5 : Str) (b4 : Blank p4) (b5 : Blank p5)
    (h : (∀ c ∈ d, c ≠ '.') ∨ (∀ c ∈ d, c ≠ ':')) : TailOK (p4 ++ d ++ p5) := by
  rcases h with h | h
  · exact Or.inl (forall_mem_append3 _ _ _ (fun c hc => IsBlank.ne_dot (b4 c hc)) h (fun c hc => IsBlank.ne_dot (b5 c hc)))
  · exact Or.inr (forall_mem_append3 _ _ _ (fun c hc => IsBlank.ne_colon (b4 c hc)) h
      (fun c hc => IsBlank.ne_colon (b5 c hc)))

/-- **C04 for an empty name, sections other than ~Parameter**: the laid-out line `.unit p2 value p3 : p4 descr p5` parses
back to the fields -/
theorem C04_blank (sec : SecName) (hsec : sec ≠ .parameter) (f : Fields) (p2 p3 p4 p5 : Str)
    (hc : ConfB sec f) (hp : PadOK sec f [] [] p2 p3 p4 p5) :
    parseHeaderLine sec (layout f [] [] p2 p3 p4 p5) = some f := by
  obtain ⟨_, _, b2, b3, b4, b5⟩ := hp.blanks
  have sp : ∀ {p : Str}, Blank p → ∀ c ∈ p, isPySpace c = true :=
    fun h c hc => IsBlank.space (h c hc)
  have nc : ∀ {p : Str}, Blank p → ∀ c ∈ p, c ≠ ':' := fun h c hc => IsBlank.ne_colon (h c hc)
  have hline : layout f [] [] p2 p3 p4 p5 =
      '.' :: (f.unit ++ (p2 ++ f.value ++ p3) ++ ':' :: (p4 ++ f.descr ++ p5)) := by
    simp [layout, hc.name_nil]
  have key := parse_layout_blank sec hsec f.unit (p2 ++ f.value ++ p3) (p4 ++ f.descr ++ p5)
    (nodot_layout_blank f p2 p3 b2 b3 hc.unit_nodot hc.value_nodot)
    hc.unit_nosp
    (head?_pad (fun c => isPySpace c = true) _ _ _ (sp b2) (sp b3) hp.value_sep)
    (fun hne hd => second_pad (fun c => isPySpace c = true) _ _ _ (sp b2) (sp b3)
      (hp.digit_unit hne hd))
    (forall_mem_append3 _ _ _ (nc b4) (hc.descr_nocolon hsec) (nc b5))
  rw [hline, key, strip_pad _ _ _ (sp b2) (sp b3), strip_pad _ _ _ (sp b4) (sp b5), hc.value_strip,
    hc.descr_strip, ← hc.name_nil]

/-- **C04 for an empty name, ~Parameter** -/
theorem C04_blank_parameter (f : Fields) (p2 p3 p4 p5 : Str)
    (hc : ConfB .parameter f) (hp : PadOK .parameter f [] [] p2 p3 p4 p5) :
    parseHeaderLine .parameter (layout f [] [] p2 p3 p4 p5) = some f := by
  obtain ⟨_, _, b2, b3, b4, b5⟩ := hp.blanks
  have sp : ∀ {p : Str}, Blank p → ∀ c ∈ p, isPySpace c = true :=
    fun h c hc => IsBlank.space (h c hc)
  have nc : ∀ {p : Str}, Blank p → ∀ c ∈ p, c ≠ ':' := fun h c hc => IsBlank.ne_colon (h c hc)
  have hline : layout f [] [] p2 p3 p4 p5 =
      '.' :: (f.unit ++ (p2 ++ f.value ++ p3) ++ ':' :: (p4 ++ f.descr ++ p5)) := by
    simp [layout, hc.name_nil]
  have hdc : (∃ c ∈ p4 ++ f.descr ++ p5, c = ':') → ∃ c ∈ f.descr, c = ':' := by
    intro ⟨c, hcm, hce⟩
    rcases List.mem_append.mp hcm with h | h
    · rcases List.mem_append.mp h with h | h
      · exact absurd hce (nc b4 c h)
      · exact ⟨c, h, hce⟩
    · exact absurd hce (nc b5 c h)
  have key := parse_layout_param_blank f.unit (p2 ++ f.value ++ p3) (p4 ++ f.descr ++ p5)
    (nodot_layout_blank f p2 p3 b2 b3 hc.unit_nodot hc.value_nodot)
    (tailOK_pad f.descr p4 p5 b4 b5 hc.descr_tail)
    hc.unit_nosp
    (head?_pad (fun c => isPySpace c = true) _ _ _ (sp b2) (sp b3) hp.value_sep)
    (by
      rcases hc.value_nocolon with h | ⟨_, h⟩
      · exact timeLikeB_of_nocolon _ (forall_mem_append3 _ _ _ (nc b2) h (nc b3))
      · exact timeLikeB_append_right _ _
          (timeLikeB_append_left _ _ (nc b2) (timeLikeB_of_split _ h)) (nc b3))
    (fun hne hd => second_pad (fun c => isPySpace c = true) _ _ _ (sp b2) (sp b3)
      (hp.digit_unit hne hd))
    (by
      intro hex
      have := (hp.param_descr_colon rfl (hdc hex)).1
      simp [this])
    (by
      intro hex hne hd
      have := hp.param_digit_unit rfl hne hd (hdc hex)
      simp only [List.length_append]; omega)
    (by
      rintro (hex | hex)
      · obtain ⟨h3, h4⟩ := hp.param_descr_colon rfl (hdc hex)
        have := sepOk_blank_pads ('.' :: (f.unit ++ p2 ++ f.value)) p3 p4
          (f.descr ++ p5) h3 h4 b3 b4
        simpa [List.append_assoc] using this
      · have := hp.param_unit_colon rfl hex
        simpa [List.append_assoc, hc.name_nil] using this)
  rw [hline, key, strip_pad _ _ _ (sp b2) (sp b3), strip_pad _ _ _ (sp b4) (sp b5), hc.value_strip,
    hc.descr_strip, ← hc.name_nil]

theorem C04_blank_all (sec : SecName) (f : Fields) (p2 p3 p4 p5 : Str)
    (hc : ConfB sec f) (hp : PadOK sec f [] [] p2 p3 p4 p5) :
    parseHeaderLine sec (layout f [] [] p2 p3 p4 p5) = some f := by
  by_cases hsec : sec = .parameter
  · subst hsec; exact C04_blank_parameter f p2 p3 p4 p5 hc hp
  · exact C04_blank sec hsec f p2 p3 p4 p5 hc hp

end Lasio

/-! ## Part C: the writer's line, section and header for items with an EMPTY original mnemonic -/
namespace Lasio.Wr

/-- the field conditions on an item whose ORIGINAL mnemonic is the empty string (session mnemonic `UNKNOWN`), written in the
order `o` (`value:descr` everywhere in 2.0; `descr:value` in a 1.2 ~Well / ~Version section): those of `TextConf` on unit, value and
description, and NO PERIOD in the unit and in the field that is written BEFORE the delimiter colon (`rhsOf o it`: the value in
2.0).  The line is `.unit value : descr`; a second period before the colon is taken for the end of the name
(`C13_counterexample_blank_period`); one after the colon is harmless. -/
structure BlankConf (o : Order) (it : WItem) : Prop where
  mnem_nil : it.orig = []
  unit_nosp : ∀ c ∈ it.unit, isPySpace c = false
  unit_nodot : ∀ c ∈ it.unit, c ≠ '.'
  unit_notnum : it.unit = [] ∨ ¬ allDigits it.unit
  unit_nobr : isBracketed it.unit = false
  value_strip : strip it.value.text = it.value.text
  value_nocolon : ∀ c ∈ it.value.text, c ≠ ':'
  descr_strip : strip it.descr = it.descr
  descr_nocolon : ∀ c ∈ it.descr, c ≠ ':'
  rhs_nodot : ∀ c ∈ rhsOf o it, c ≠ '.'

theorem confB_of_blank (kind : SecName) (o : Order) (it : WItem) (h : BlankConf o it) : ConfB kind (lineFields o it) := by
  cases o with
  | valueDescr =>
    exact ⟨h.mnem_nil, h.unit_nosp, h.unit_nodot, h.value_strip, h.rhs_nodot, Or.inl h.value_nocolon,
      h.descr_strip, Or.inr h.descr_nocolon, fun _ => h.descr_nocolon⟩
  | descrValue =>
    exact ⟨h.mnem_nil, h.unit_nosp, h.unit_nodot, h.descr_strip, h.rhs_nodot, Or.inl h.descr_nocolon,
      h.value_strip, Or.inr h.value_nocolon, fun _ => h.value_nocolon⟩

/-- parsing the stripped line of an item with an empty mnemonic gives the item back -/
theorem readItem_layout_blank (v : String) (kind : SecName) (c : MCase) (o : Order) (it : WItem) (p2 p4 : Str)
    (hkind : kind ≠ .other) (hw : orderOf v (secKey kind) it.orig = .ok o)
    (hb : BlankConf o it) (b2 : Blank p2) (b4 : Blank p4)
    (hsep : rhsOf o it ≠ [] → p2 ≠ []) (h4 : lastOf o it ≠ [] → p4 ≠ []) :
    readItem v kind c (layout (lineFields o it) [] [] p2 [' '] p4 []) = some (expected c it) := by
  have hconf := confB_of_blank kind o it hb
  have hp := C04_blank_all kind (lineFields o it) p2 [' '] p4 [] hconf
    (padOK_writer kind (lineFields o it) [] p2 p4 blank_nil b2 b4 hsep hb.unit_notnum h4)
  have hsb : stripBrackets it.unit = it.unit := stripBrackets_id _ hb.unit_nosp hb.unit_nobr
  unfold readItem
  rw [versionPresent_of_orderOf hw, hp]
  simp only [Bool.not_true, Bool.false_eq_true, if_false, lineFields, hsb]
  cases kind with
  | other => exact absurd rfl hkind
  | curves =>
    have := orderOf_fixed v "Curves" (Or.inl rfl) _ _ hw
    subst this
    rfl
  | parameter =>
    have := orderOf_fixed v "Parameter" (Or.inr rfl) _ _ hw
    subst this
    rfl
  | version =>
    simp only [readerOrderOf_eq v .version (by decide), orderOf_caseMap, hw]
    cases o <;> rfl
  | well =>
    simp only [readerOrderOf_eq v .well (by decide), orderOf_caseMap, hw]
    cases o <;> rfl

theorem space_replicate (n : Nat) : ∀ c ∈ List.replicate n ' ', isPySpace c = true := by
  intro c hc
  rw [List.eq_of_mem_replicate hc]
  decide

/-- the line of an item with an empty mnemonic as the reader sees it: it starts with the period -/
theorem strip_formatItem_blank (o : Order) (W : Widths) (it : WItem) (hnil : it.orig = [])
    (hl : strip (lastOf o it) = lastOf o it) :
    strip (formatItem o W it) = layout (lineFields o it) [] []
      (List.replicate (W.middle - it.unit.length - (rhsOf o it).length) ' ') [' ']
      (if lastOf o it = [] then [] else [' ']) [] := by
  have hdot : isPySpace '.' = false := by decide
  by_cases hlast : lastOf o it = []
  · simp only [hlast, if_true]
    have e : formatItem o W it =
        List.replicate W.left ' ' ++ layout (lineFields o it) [] []
          (List.replicate (W.middle - it.unit.length - (rhsOf o it).length) ' ') [' '] [] [] ++ [' '] := by
      simp [formatItem, layout, lineFields, ljust, hlast, hnil]
    rw [e, strip_pad _ _ _ (space_replicate _) (by simp; decide)]
    apply strip_eq_self
    · intro ch hch
      simp only [layout, lineFields, hnil, List.nil_append, List.head?_cons, Option.some.injEq] at hch
      subst hch; exact hdot
    · intro ch hch
      have : (layout (lineFields o it) [] []
          (List.replicate (W.middle - it.unit.length - (rhsOf o it).length) ' ') [' '] [] []).getLast? =
          some ':' := by
        rw [show layout (lineFields o it) [] []
            (List.replicate (W.middle - it.unit.length - (rhsOf o it).length) ' ') [' '] [] [] =
            ('.' :: (it.unit ++
              List.replicate (W.middle - it.unit.length - (rhsOf o it).length) ' ' ++ rhsOf o it ++ [' '])) ++ [':']
            by simp [layout, lineFields, hlast, hnil]]
        exact List.getLast?_concat
      rw [this] at hch
      cases hch
      decide
  · simp only [hlast, if_false]
    have e : formatItem o W it =
        List.replicate W.left ' ' ++ layout (lineFields o it) [] []
          (List.replicate (W.middle - it.unit.length - (rhsOf o it).length) ' ') [' '] [' '] [] ++ [] := by
      simp [formatItem, layout, lineFields, ljust, hnil]
    rw [e, strip_pad _ _ _ (space_replicate _) (by simp)]
    apply strip_eq_self
    · intro ch hch
      simp only [layout, lineFields, hnil, List.nil_append, List.head?_cons, Option.some.injEq] at hch
      subst hch; exact hdot
    · intro ch hch
      have : (layout (lineFields o it) [] []
          (List.replicate (W.middle - it.unit.length - (rhsOf o it).length) ' ') [' '] [' '] []).getLast? =
          (lastOf o it).getLast? := by
        rw [show layout (lineFields o it) [] []
            (List.replicate (W.middle - it.unit.length - (rhsOf o it).length) ' ') [' '] [' '] [] =
            ('.' :: (it.unit ++
              List.replicate (W.middle - it.unit.length - (rhsOf o it).length) ' ' ++ rhsOf o it ++
              [' ', ':', ' '])) ++ lastOf o it
            by simp [layout, lineFields, hnil]]
        exact getLast?_append_ne _ _ hlast
      rw [this] at hch
      exact last_nospace_of_strip hl ch hch

theorem lastOf_strip_blank (o : Order) (it : WItem) (hb : BlankConf o it) : strip (lastOf o it) = lastOf o it := by
  cases o
  · exact hb.descr_strip
  · exact hb.value_strip

/-- one iteration of the reader's loop on the line written for an item with an empty mnemonic -/
theorem readLine_formatItem_blank (v : String) (kind : SecName) (c : MCase) (o : Order) (W : Widths) (it : WItem)
    (hkind : kind ≠ .other) (hw : orderOf v (secKey kind) it.orig = .ok o) (hb : BlankConf o it)
    (hpad : rhsOf o it ≠ [] → 1 ≤ W.middle - it.unit.length - (rhsOf o it).length) :
    readLine v kind c (formatItem o W it) = .item (expected c it) := by
  have hr := readItem_layout_blank v kind c o it
    (List.replicate (W.middle - it.unit.length - (rhsOf o it).length) ' ')
    (if lastOf o it = [] then [] else [' ']) hkind hw hb
    (blank_replicate _) (by split; exact blank_nil; exact blank_one)
    (by
      intro h1 h2
      have := hpad h1
      have hl := congrArg List.length h2
      simp at hl
      omega)
    (by intro h; simp [h])
  have hhead : ∃ tl, layout (lineFields o it) [] []
      (List.replicate (W.middle - it.unit.length - (rhsOf o it).length) ' ') [' ']
      (if lastOf o it = [] then [] else [' ']) [] = '.' :: tl :=
    ⟨_, by simp [layout, lineFields, hb.mnem_nil]; rfl⟩
  obtain ⟨tl, htl⟩ := hhead
  unfold readLine
  rw [strip_formatItem_blank o W it hb.mnem_nil (lastOf_strip_blank o it hb)]
  rw [htl] at hr ⊢
  have h1 : ('.' == '#') = false := by decide
  have h2 : ('.' == '~') = false := by decide
  simp [h1, h2, hr]

/-- what `C03_file` asks of an item (`TextConf` + first character neither '#' nor '~'), OR an empty original mnemonic on a
line without a further period before the delimiter colon (`o` is the order in which version `v` writes the item) -/
def ItemOK (v : String) (kind : SecName) (it : WItem) : Prop :=
  (TextConf kind it ∧ it.orig.head? ≠ some '#' ∧ it.orig.head? ≠ some '~') ∨
  ∃ o, orderOf v (secKey kind) it.orig = .ok o ∧ BlankConf o it

/-- **Section round trip, blank mnemonics included** (`C03_section` extended to `ItemOK`) -/
theorem section_read_back (v : String) (kind : SecName) (c : MCase) (items : List WItem) (lines : List Str)
    (hkind : kind ≠ .other)
    (hw : writeSection v (secKey kind) items = .ok lines)
    (hok : ∀ it ∈ items, ItemOK v kind it) :
    readSection v kind c lines = some (items.map (expected c)) := by
  unfold writeSection at hw
  rcases hso : sectionOrders v (secKey kind) with _ | tbl
  · simp [hso] at hw
  · simp only [hso] at hw
    split at hw
    · rename_i hall
      simp only [Except.ok.injEq] at hw
      subst hw
      generalize hord : (fun m => match orderOf v (secKey kind) m with
        | .ok o => o | .error _ => Order.valueDescr) = ord
      have hokk : ∀ it ∈ items, orderOf v (secKey kind) it.orig = .ok (ord it.orig) := by
        intro it hit
        have := List.all_eq_true.mp hall it hit
        subst hord
        rcases h : orderOf v (secKey kind) it.orig with e | o
        · simp [h] at this
        · simp [h]
      unfold sectionLines
      have gen : ∀ l : List WItem, (∀ it ∈ l, it ∈ items) →
          readSection v kind c (l.map fun it => formatItem (ord it.orig) (sectionWidths ord items) it) =
            some (l.map (expected c)) := by
        intro l
        induction l with
        | nil => intro _; rfl
        | cons it l ih =>
          intro hl
          have hit : it ∈ items := hl it (by simp)
          have hwo := hokk it hit
          have hline : readLine v kind c (formatItem (ord it.orig) (sectionWidths ord items) it) =
              .item (expected c it) := by
            rcases hok it hit with ⟨hconf, hmark⟩ | ⟨o', ho', hb⟩
            · have ho : ord it.orig = .descrValue → kind ≠ .curves := by
                intro h1 h2
                subst h2
                rw [h1] at hwo
                exact absurd (orderOf_fixed v "Curves" (Or.inl rfl) _ _ hwo) (by decide)
              exact readLine_formatItem v kind c (ord it.orig) (sectionWidths ord items) it hkind hwo
                (C03_conf_of_text kind _ it hconf ho) hconf.unit_notnum
                hconf.unit_nobr (fun _ => (C03_pad_ge_one ord items it hit).1) hmark
            · have : o' = ord it.orig := by rw [ho'] at hwo; exact Except.ok.inj hwo
              subst this
              exact readLine_formatItem_blank v kind c (ord it.orig) (sectionWidths ord items) it hkind hwo hb
                (fun _ => (C03_pad_ge_one ord items it hit).1)
          simp only [List.map_cons, readSection, hline, ih (fun x hx => hl x (by simp [hx])), Option.map_some]
      exact gen items (fun _ h => h)
    · simp at hw

end Lasio.Wr

namespace Lasio.RH
open Lasio Lasio.Wr

/-- the line of an item with an empty mnemonic is not taken for a section title: it starts with blanks and a period -/
theorem isTitle_formatItem_blank (o : Wr.Order) (W : Wr.Widths) (it : Wr.WItem) (h : it.orig = []) :
    Rd.isTitle (Wr.formatItem o W it) = false := by
  have e : ∃ rest, Wr.formatItem o W it = List.replicate W.left ' ' ++ '.' :: rest :=
    ⟨_, by simp [Wr.formatItem, ljust, h]; rfl⟩
  obtain ⟨rest, hrest⟩ := e
  rw [Rd.isTitle_eq, hrest, Rd.strip_split _ '.' rest (Wr.space_replicate _) (by decide)]
  rfl

theorem writeSection_notitle_ok (v s : String) (kind : SecName) (items : List Wr.WItem) (lines : List Str)
    (h : Wr.writeSection v s items = .ok lines) (hi : ∀ it ∈ items, Wr.ItemOK v kind it) :
    ∀ l ∈ lines, Rd.isTitle l = false := by
  intro l hl
  obtain ⟨it, hit, o, W, rfl⟩ := writeSection_lines v s items lines h l hl
  rcases hi it hit with ⟨hc, hm⟩ | ⟨_, _, hb⟩
  · exact isTitle_formatItem o W it hc.mnem_ne hc.mnem_strip hm.2
  · exact isTitle_formatItem_blank o W it hb.mnem_nil

end Lasio.RH

namespace Lasio.Wr

/-- **File-level round trip (header), blank mnemonics included** — `C03_file` with `TextConf` + `hmark` weakened to
`ItemOK` on the items that are written. -/
theorem file_read_back (o : Rd.ReadOpts) (version : String) (wrap : Option Bool) (w : Nat) (las las' : WLas)
    (lines : List Str) (h : headerLines version wrap w las = .ok (lines, las'))
    (hov : ∀ it ∈ RH.versionCopy version wrap las, ItemOK version .version it)
    (how : ∀ it ∈ standardizeItems las.well, ItemOK version .well it)
    (hoc : ∀ it ∈ las.curves, ItemOK version .curves it)
    (hop : ∀ it ∈ standardizeItems las.params, ItemOK version .parameter it)
    (hvers : VersOK o version (RH.versionCopy version wrap las))
    (ho : OtherOK las.other) :
    ∃ st, Rd.processSections o lines (Rd.findSections lines) Rd.RState.init = .ok st ∧
      st.sections =
        [(Rd.kVersion, some (.items ((RH.versionCopy version wrap las).map (rdExpected o)))),
         (Rd.kWell, some (.items ((standardizeItems las.well).map (rdExpected o)))),
         (Rd.kCurves, some (.items (las.curves.map (rdExpected o)))),
         (Rd.kParameter, some (.items ((standardizeItems las.params).map (rdExpected o)))),
         (Rd.kOther, some (.text (joinWith ['\n'] ((splitlines las.other).map strip))))] ∧
      st.steer.vers = some version.toList ∧
      ((∀ it ∈ RH.versionCopy version wrap las, upper it.orig ≠ "DLM".toList) →
        ∃ steer, Rd.readLines o lines = .ok
          ⟨[(Rd.kVersion, .items ((RH.versionCopy version wrap las).map (rdExpected o))),
            (Rd.kWell, .items ((standardizeItems las.well).map (rdExpected o))),
            (Rd.kCurves, .items (las.curves.map (rdExpected o))),
            (Rd.kParameter, .items ((standardizeItems las.params).map (rdExpected o))),
            (Rd.kOther, .text (joinWith ['\n'] ((splitlines las.other).map strip)))], steer, []⟩ ∧
          steer.vers = some version.toList) := by
  unfold headerLines at h
  cases hs : headerSections version wrap las with
  | error e => rw [hs] at h; cases h
  | ok r =>
    obtain ⟨secs, l2⟩ := r
    rw [hs] at h
    simp only [Except.ok.injEq, Prod.mk.injEq] at h
    obtain ⟨h1, h2⟩ := h
    subst h2
    obtain ⟨hver, lv, lw, lc, lp, wv, ww, wc, wp, rfl, _⟩ := RH.headerSections_ok version wrap las l2 secs hs
    have rv := section_read_back version .version (RH.cvtCase o.mnemonicCase) _ lv (by decide) wv hov
    rw [← RH.readSection_version_prov version hver] at rv
    have rw' := section_read_back version .well (RH.cvtCase o.mnemonicCase) _ lw (by decide) ww how
    have rc := section_read_back version .curves (RH.cvtCase o.mnemonicCase) _ lc (by decide) wc hoc
    have rp := section_read_back version .parameter (RH.cvtCase o.mnemonicCase) _ lp (by decide) wp hop
    have nv := RH.writeSection_notitle_ok _ _ .version _ _ wv hov
    have nw := RH.writeSection_notitle_ok _ _ .well _ _ ww how
    have nc := RH.writeSection_notitle_ok _ _ .curves _ _ wc hoc
    have np := RH.writeSection_notitle_ok _ _ .parameter _ _ wp hop
    have no : ∀ b ∈ splitlines las.other, Rd.isTitle b = false := by
      intro b hb
      rw [Rd.isTitle_eq, RH.startsTilde_false_iff]
      exact ho b hb
    obtain ⟨x, hx, hxv⟩ := hvers
    have hlv : (Rd.lookupItem (o.mnemonicCase != .preserve)
        (((RH.versionCopy version wrap las).map (expected (RH.cvtCase o.mnemonicCase))).map RH.toRd)
        "VERS".toList).map (·.value) = some version.toList := by
      rw [RH.lookup_written _ _ _ (Rd.steerKey_nocolon _ _ (by simp [Rd.steerKeys])), hx]
      simp [Rd.uniq, RH.toRd, expected, hxv]
    have key := RH.readLines_written o version w lv lw lc lp (splitlines las.other) _ _ _ _ version.toList
      (RH.sectionOrders_some version hver) nv nw nc np no rv rw' rc rp hlv (RH.classifyVer_written version hver)
      lines h1.symm
    have hmm : ∀ items : List WItem, (items.map (expected (RH.cvtCase o.mnemonicCase))).map RH.toRd =
        items.map (rdExpected o) := by
      intro items; rw [List.map_map]; rfl
    simp only [hmm] at key
    obtain ⟨⟨st, hst, hsec, hvv⟩, hrl⟩ := key
    refine ⟨st, hst, hsec, hvv, ?_⟩
    intro hdlm
    apply hrl
    intro d hd
    exfalso
    rw [← hmm, RH.lookup_written _ _ _ (Rd.steerKey_nocolon _ _ (by simp [Rd.steerKeys]))] at hd
    have : (RH.versionCopy version wrap las).filter (fun it => Rd.mcmp (o.mnemonicCase != .preserve)
        (Rd.usefulMn (caseMap (RH.cvtCase o.mnemonicCase) it.orig)) "DLM".toList) = [] := by
      apply List.filter_eq_nil_iff.mpr
      intro it hit
      rw [RH.mcmp_dlm_false o it.orig (hdlm it hit)]
      simp
    rw [this] at hd
    simp [Rd.uniq] at hd

end Lasio.Wr

namespace Lasio.Cy
open Lasio Lasio.Wr

/-- the hypotheses of `file_read_back` (+ no DLM item in ~Version, needed for `readLines`): `FileConf` with blank
mnemonics allowed -/
structure FileConfB (o : Rd.ReadOpts) (version : String) (wrap : Option Bool) (las : WLas) : Prop where
  hov : ∀ it ∈ RH.versionCopy version wrap las, ItemOK version .version it
  how : ∀ it ∈ standardizeItems las.well, ItemOK version .well it
  hoc : ∀ it ∈ las.curves, ItemOK version .curves it
  hop : ∀ it ∈ standardizeItems las.params, ItemOK version .parameter it
  hvers : VersOK o version (RH.versionCopy version wrap las)
  ho : OtherOK las.other
  hdlm : ∀ it ∈ RH.versionCopy version wrap las, upper it.orig ≠ "DLM".toList

theorem FileConf.toB {o : Rd.ReadOpts} {version : String} {wrap : Option Bool} {las : WLas}
    (hc : FileConf o version wrap las) : FileConfB o version wrap las where
  hov := fun it hit => Or.inl ⟨hc.hcv it hit, hc.hmv it hit⟩
  how := fun it hit => Or.inl ⟨hc.hcw it hit,
    standardizeItems_orig las.well (fun o => o.head? ≠ some '#' ∧ o.head? ≠ some '~') hc.hmw it hit⟩
  hoc := fun it hit => Or.inl ⟨hc.hcc it hit, hc.hmc it hit⟩
  hop := fun it hit => Or.inl ⟨hc.hcp it hit,
    standardizeItems_orig las.params (fun o => o.head? ≠ some '#' ∧ o.head? ≠ some '~') hc.hmp it hit⟩
  hvers := hc.hvers
  ho := hc.ho
  hdlm := hc.hdlm

/-- `file_read_back` in terms of `firstRead` -/
theorem read_written_B (o : Rd.ReadOpts) (version : String) (wrap : Option Bool) (w : Nat) (las las' : WLas)
    (lines : List Str) (h : headerLines version wrap w las = .ok (lines, las')) (hc : FileConfB o version wrap las) :
    ∃ steer, Rd.readLines o lines = .ok ⟨firstRead o version wrap las, steer, []⟩ ∧ steer.vers = some version.toList := by
  obtain ⟨_, _, _, _, hr⟩ := file_read_back o version wrap w las las' lines h hc.hov hc.how hc.hoc hc.hop hc.hvers hc.ho
  exact hr hc.hdlm

end Lasio.Cy

/-! ## Part D: session names as a function of the original mnemonics; the sections of the re-read header -/
namespace Lasio.SF
open Lasio Lasio.Wr Lasio.Cy Lasio.C11

/-- a fresh item with the given original mnemonic -/
def freshItem (o : Str) : Item := mkItem o [] [] []

/-- **the session names a section has when it is built by appending items with these original mnemonics, in this order, to an
empty section** (a function of the originals and of `mnemonic_transforms` only) -/
def namesOf (tr : Bool) (origs : List Str) : List Str := (rebuild ⟨[], tr⟩ (origs.map freshItem)).keys

/-- appending fresh items: the keys depend on the original mnemonics only -/
theorem rebuild_keys_eq_namesOf (tr : Bool) (l : List Item) (hfresh : ∀ it ∈ l, it.session = useful it.orig) :
    (rebuild ⟨[], tr⟩ l).keys = namesOf tr (l.map (·.orig)) := by
  unfold namesOf
  refine (C11_suffix_stable tr l ((l.map (·.orig)).map freshItem) hfresh ?_ ?_).1
  · intro it hit
    obtain ⟨o, _, rfl⟩ := List.mem_map.mp hit
    rfl
  · simp [List.map_map, Function.comp_def, freshItem, mkItem]

theorem sessionNames_eq_namesOf (tr : Bool) (R : List Rd.RItem) :
    Rd.sessionNames tr R = namesOf tr (R.map (·.orig)) := by
  rw [sessionNames_eq_rebuild, rebuild_keys_eq_namesOf]
  · simp [List.map_map, Function.comp_def, toItem, mkItem]
  · intro it hit
    obtain ⟨r, _, rfl⟩ := List.mem_map.mp hit
    rfl

/-- the section's session names are those of a section built by appends from its own original mnemonics -/
def BuiltByAppends (tr : Bool) (W : List WItem) : Prop := W.map (·.session) = namesOf tr (W.map (·.orig))

theorem zipWith_map_right {α β γ δ} (f : α → β → γ) (g : γ → δ) (k : β → δ) (hfg : ∀ a b, g (f a b) = k b) :
    ∀ (as : List α) (bs : List β), as.length = bs.length → (List.zipWith f as bs).map g = bs.map k := by
  intro as
  induction as with
  | nil => intro bs hl; cases bs with
    | nil => rfl
    | cons b bs => simp at hl
  | cons a as ih =>
    intro bs hl
    cases bs with
    | nil => simp at hl
    | cons b bs =>
      simp only [List.zipWith_cons_cons, List.map_cons, hfg, List.cons.injEq, true_and]
      exact ih bs (by simpa using hl)

theorem zipWith_map_left {α β γ δ} (f : α → β → γ) (g : γ → δ) (k : α → δ) (hfg : ∀ a b, g (f a b) = k a) :
    ∀ (as : List α) (bs : List β), as.length = bs.length → (List.zipWith f as bs).map g = as.map k := by
  intro as
  induction as with
  | nil => intro bs _; rfl
  | cons a as ih =>
    intro bs hl
    cases bs with
    | nil => simp at hl
    | cons b bs =>
      simp only [List.zipWith_cons_cons, List.map_cons, hfg, List.cons.injEq, true_and]
      exact ih bs (by simpa using hl)

/-- the `SectionItems` object `read` builds (`Cy.itemsOfRead`): its original mnemonics are the ones read, its session
mnemonics the reader model's -/
theorem itemsOfRead_origs (rv : Str → WVal) (tr : Bool) (R : List Rd.RItem) :
    (itemsOfRead rv tr R).map (·.orig) = R.map (·.orig) :=
  zipWith_map_right (mkRead rv) (·.orig) (·.orig) (fun _ _ => rfl) _ _ (sessionNames_length tr R)

theorem itemsOfRead_sessions (rv : Str → WVal) (tr : Bool) (R : List Rd.RItem) :
    (itemsOfRead rv tr R).map (·.session) = Rd.sessionNames tr R := by
  have := zipWith_map_left (mkRead rv) (·.session) id (fun _ _ => rfl) _ _ (sessionNames_length tr R)
  rw [List.map_id] at this
  exact this

/-- every section `read` builds is built by appends from its own originals -/
theorem builtByAppends_read (rv : Str → WVal) (tr : Bool) (R : List Rd.RItem) :
    BuiltByAppends tr (itemsOfRead rv tr R) := by
  unfold BuiltByAppends
  rw [itemsOfRead_sessions, itemsOfRead_origs, sessionNames_eq_namesOf]

/-- the items `write` formats in each of the four item sections -/
def writtenOf (version : String) (wrap : Option Bool) (las : WLas) : SecName → List WItem
  | .version => RH.versionCopy version wrap las
  | .well => standardizeItems las.well
  | .curves => las.curves
  | .parameter => standardizeItems las.params
  | .other => []

/-- the items of a LASFile's section -/
def itemsOf (las : WLas) : SecName → List WItem
  | .version => las.version
  | .well => las.well
  | .curves => las.curves
  | .parameter => las.params
  | .other => []

/-- the items the reader stores for a section of the written header -/
def rereadItems (o : Rd.ReadOpts) (version : String) (wrap : Option Bool) (las : WLas) (kind : SecName) : List Rd.RItem :=
  secItems (RH.keyOf kind) (firstRead o version wrap las)

theorem rereadItems_eq (o : Rd.ReadOpts) (version : String) (wrap : Option Bool) (las : WLas) (kind : SecName)
    (hk : kind ≠ .other) :
    rereadItems o version wrap las kind = (writtenOf version wrap las kind).map (rdExpected o) := by
  cases kind with
  | other => exact absurd rfl hk
  | version => rfl
  | well => rfl
  | curves => rfl
  | parameter => rfl

theorem itemsOf_lasOfRead (rv : Str → WVal) (o : Rd.ReadOpts) (version : String) (wrap : Option Bool) (las : WLas)
    (kind : SecName) (hk : kind ≠ .other) :
    itemsOf (lasOfRead rv o (firstRead o version wrap las)) kind =
      itemsOfRead rv (o.mnemonicCase != .preserve) (rereadItems o version wrap las kind) := by
  cases kind with
  | other => exact absurd rfl hk
  | version => rfl
  | well => rfl
  | curves => rfl
  | parameter => rfl

theorem standardizeItems_origs (l : List WItem) : (standardizeItems l).map (·.orig) = l.map (·.orig) := by
  simp [standardizeItems, List.map_map, Function.comp_def]

theorem standardizeItems_sessions (l : List WItem) : (standardizeItems l).map (·.session) = l.map (·.session) := by
  simp [standardizeItems, List.map_map, Function.comp_def]

/-- outside ~Version the written items carry the original and session mnemonics of the object's own items -/
theorem writtenOf_names (version : String) (wrap : Option Bool) (las : WLas) (kind : SecName) (hk : kind ≠ .version) :
    (writtenOf version wrap las kind).map (·.orig) = (itemsOf las kind).map (·.orig) ∧
    (writtenOf version wrap las kind).map (·.session) = (itemsOf las kind).map (·.session) := by
  cases kind with
  | version => exact absurd rfl hk
  | well => exact ⟨standardizeItems_origs _, standardizeItems_sessions _⟩
  | curves => exact ⟨rfl, rfl⟩
  | parameter => exact ⟨standardizeItems_origs _, standardizeItems_sessions _⟩
  | other => exact ⟨rfl, rfl⟩

theorem fileConfB_items {o : Rd.ReadOpts} {version : String} {wrap : Option Bool} {las : WLas}
    (hc : FileConfB o version wrap las) (kind : SecName) :
    ∀ it ∈ writtenOf version wrap las kind, ItemOK version kind it := by
  cases kind with
  | version => exact hc.hov
  | well => exact hc.how
  | curves => exact hc.hoc
  | parameter => exact hc.hop
  | other => intro it hit; cases hit

theorem upper_unknown : upper "UNKNOWN".toList = "UNKNOWN".toList := by decide

/-- a conformant or blank original mnemonic, read back under any case map, has a colon-free useful form -/
theorem useful_nocolon (tr : Bool) (c : MCase) (v : String) (kind : SecName) (it : WItem) (h : ItemOK v kind it) :
    ':' ∉ ckey tr (useful (caseMap c it.orig)) := by
  rcases h with ⟨hc, _⟩ | ⟨_, _, hb⟩
  · have hne := caseMap_ne_nil c it.orig hc.mnem_ne
    have hs := caseMap_strip c it.orig hc.mnem_strip
    have hu : useful (caseMap c it.orig) = caseMap c it.orig := by
      unfold useful
      rw [hs]
      simp [hne]
    rw [hu]
    have h1 : ∀ ch ∈ caseMap c it.orig, ch ≠ ':' :=
      caseMap_chars c it.orig ':' notLetter_marks.2.1 (fun x hx => (hc.mnem_chars x hx).2)
    cases tr
    · intro hm; exact h1 ':' hm rfl
    · intro hm
      have h2 : ∀ ch ∈ caseMap .upper (caseMap c it.orig), ch ≠ ':' :=
        caseMap_chars .upper _ ':' notLetter_marks.2.1 h1
      exact h2 ':' hm rfl
  · rw [hb.mnem_nil]
    have : caseMap c ([] : Str) = [] := by cases c <;> rfl
    rw [this]
    cases tr <;> decide

end Lasio.SF
