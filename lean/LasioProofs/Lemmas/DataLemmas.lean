import LasioModel.Data
/-
Helper lemmas for the data-section model (`LasioModel/Data.lean`), used by Props/C02, C06, C07.
Part 1: `applyNull`, reshape/transpose, column lengths, `assignCurves`.
Part 2: strings — trimming, the `re.sub` scanner, the splitters on "quiet" rows (used by C02).
-/
namespace Lasio.Dt

/-! ## applyNull -/

/-- cell `i` of column `j` when that column is a float column -/
def floatCell (cols : List Column) (j i : Nat) : Option Str :=
  match cols[j]? with
  | some (.floats cells) => cells[i]?
  | _ => none

theorem applyNullFrom_getElem? (u : Bool) (null : Option Str) (cols : List Column) (k j : Nat) :
    (applyNullFrom u null k cols)[j]? = (cols[j]?).map (applyNullCol u null (k + j)) := by
  induction cols generalizing k j with
  | nil => simp [applyNullFrom]
  | cons c cs ih =>
    cases j with
    | zero => simp [applyNullFrom]
    | succ j =>
      simp only [applyNullFrom, List.getElem?_cons_succ]
      rw [ih]
      congr 2
      omega

/-- the column at curve index `j` after `applyNull` is `applyNullCol … j` of the column at index `j` before -/
theorem applyNull_getElem? (u : Bool) (null : Option Str) (cols : List Column) (j : Nat) :
    (applyNull u null cols)[j]? = (cols[j]?).map (applyNullCol u null j) := by
  unfold applyNull
  rw [applyNullFrom_getElem?]
  simp

theorem applyNullCol_none (null : Option Str) (j : Nat) (c : Column) : applyNullCol false null j c = c := by
  unfold applyNullCol
  split <;> simp

theorem applyNullCol_zero (u : Bool) (null : Option Str) (c : Column) : applyNullCol u null 0 c = c := by
  unfold applyNullCol
  split <;> simp

theorem applyNullCol_text (u : Bool) (null : Option Str) (j : Nat) (cells : List Str) :
    applyNullCol u null j (.text cells) = .text cells := by
  unfold applyNullCol
  split <;> simp_all

theorem applyNullCol_nonnumeric (u : Bool) (j : Nat) (c : Column) : applyNullCol u none j c = c := by
  unfold applyNullCol
  split <;> simp_all

theorem applyNullCol_floats (nv : Str) (j : Nat) (hj : j ≠ 0) (cells : List Str) :
    applyNullCol true (some nv) j (.floats cells) = .floats (nullCells nv cells) := by
  simp [applyNullCol, hj]

theorem nullCells_getElem? (nv : Str) (cells : List Str) (i : Nat) :
    (nullCells nv cells)[i]? = (cells[i]?).map (fun v => if feq v nv then nanTxt else v) := by
  simp [nullCells]

/-- NaN is never `==` anything -/
theorem feq_nan (b : Str) : feq nanTxt b = false := by simp [feq]

theorem applyNullCol_length (u : Bool) (null : Option Str) (j : Nat) (c : Column) :
    (applyNullCol u null j c).length = c.length := by
  unfold applyNullCol
  split
  · split <;> simp [Column.length, nullCells]
  · rfl

theorem applyNullFrom_length (u : Bool) (null : Option Str) (cols : List Column) (k : Nat) :
    (applyNullFrom u null k cols).length = cols.length := by
  induction cols generalizing k with
  | nil => rfl
  | cons c cs ih => simp [applyNullFrom, ih]

theorem applyNull_length (u : Bool) (null : Option Str) (cols : List Column) :
    (applyNull u null cols).length = cols.length := applyNullFrom_length u null cols 0

/-- every column of the result has the length of the column it came from -/
theorem applyNull_mem_length (u : Bool) (null : Option Str) (cols : List Column) (L : Nat)
    (h : ∀ c ∈ cols, c.length = L) : ∀ c ∈ applyNull u null cols, c.length = L := by
  intro c hc
  obtain ⟨j, hj, rfl⟩ := List.getElem_of_mem hc
  have h1 := applyNull_getElem? u null cols j
  rw [List.getElem?_eq_getElem hj] at h1
  have hj' : j < cols.length := by rw [applyNull_length] at hj; exact hj
  rw [List.getElem?_eq_getElem hj'] at h1
  simp only [Option.map_some, Option.some.injEq] at h1
  rw [h1, applyNullCol_length]
  exact h _ (List.getElem_mem hj')

theorem curveLength_applyNull (u : Bool) (null : Option Str) (cols : List Column) :
    curveLength (applyNull u null cols) = curveLength cols := by
  cases cols with
  | nil => rfl
  | cons c cs => simp [applyNull, applyNullFrom, curveLength, applyNullCol_length]

/-! ## reshape / transpose -/

theorem chunk_nil {α} (c fuel : Nat) : chunk c fuel ([] : List α) = [] := by
  cases fuel <;> simp [chunk]

/-- chunking the concatenation of rows of length `c` back into rows gives the rows -/
theorem chunk_flatten {α} (c : Nat) (hc : 0 < c) (rows : List (List α)) (h : ∀ r ∈ rows, r.length = c)
    (fuel : Nat) (hf : rows.length ≤ fuel) : chunk c fuel rows.flatten = rows := by
  induction rows generalizing fuel with
  | nil => simp [chunk_nil]
  | cons r rs ih =>
    cases fuel with
    | zero => simp at hf
    | succ f =>
      have hr : r.length = c := h r (by simp)
      have hne : r ≠ [] := by intro e; rw [e] at hr; simp at hr; omega
      simp only [List.flatten_cons, chunk]
      have : (r ++ rs.flatten).isEmpty = false := by
        cases r with
        | nil => exact absurd rfl hne
        | cons a t => rfl
      rw [this]
      simp only [Bool.false_eq_true, ↓reduceIte]
      rw [List.take_left' hr, List.drop_left' hr]
      rw [ih (fun r' hr' => h r' (by simp [hr'])) f (by simp at hf; omega)]

theorem length_flatten_ge {α} (c : Nat) (hc : 0 < c) (rows : List (List α)) (h : ∀ r ∈ rows, r.length = c) :
    rows.length ≤ rows.flatten.length := by
  induction rows with
  | nil => simp
  | cons r rs ih =>
    have hr : r.length = c := h r (by simp)
    have := ih (fun r' hr' => h r' (by simp [hr']))
    simp only [List.flatten_cons, List.length_cons, List.length_append]
    omega

theorem length_flatten_eq {α} (c : Nat) (rows : List (List α)) (h : ∀ r ∈ rows, r.length = c) :
    rows.flatten.length = rows.length * c := by
  induction rows with
  | nil => simp
  | cons r rs ih =>
    have hr : r.length = c := h r (by simp)
    have := ih (fun r' hr' => h r' (by simp [hr']))
    simp only [List.flatten_cons, List.length_cons, List.length_append, this, hr]
    rw [Nat.add_mul]; omega

/-- `np.reshape(flat, (-1, c))` of the row-major flattening of an r × c matrix is the matrix -/
theorem reshape_flatten {α} (c : Nat) (hc : 0 < c) (rows : List (List α)) (h : ∀ r ∈ rows, r.length = c) :
    reshape c rows.flatten = rows :=
  chunk_flatten c hc rows h _ (length_flatten_ge c hc rows h)

/-- every row of a chunking has at most... exactly `c` cells when the length is divisible by `c` -/
theorem chunk_rows_length {α} (c : Nat) (fuel : Nat) (l : List α) (hd : l.length % c = 0) :
    ∀ r ∈ chunk c fuel l, r.length = c := by
  induction fuel generalizing l with
  | zero => simp [chunk]
  | succ f ih =>
    intro r hr
    simp only [chunk] at hr
    split at hr
    · simp at hr
    · rename_i hne
      have hl : c ≤ l.length := by
        cases l with
        | nil => simp at hne
        | cons a t =>
          have : 0 < (a :: t).length := by simp
          rcases Nat.lt_or_ge (a :: t).length c with hlt | hge
          · rw [Nat.mod_eq_of_lt hlt] at hd; omega
          · exact hge
      simp only [List.mem_cons] at hr
      rcases hr with rfl | hr
      · simp [List.length_take, Nat.min_eq_left hl]
      · apply ih (l.drop c) _ r hr
        rw [List.length_drop]
        have := Nat.sub_mod_eq_zero_of_mod_eq (m := l.length) (n := c) (k := c) (by simp [hd])
        simpa using this

theorem columnOf_length (rows : List (List Str)) (j : Nat) : (columnOf rows j).length = rows.length := by
  simp [columnOf]

theorem mem_columnsOf_length (c : Nat) (rows : List (List Str)) : ∀ col ∈ columnsOf c rows, col.length = rows.length := by
  intro col h
  simp only [columnsOf, List.mem_map] at h
  obtain ⟨j, _, rfl⟩ := h
  exact columnOf_length rows j

theorem columnsOf_length (c : Nat) (rows : List (List Str)) : (columnsOf c rows).length = c := by
  simp [columnsOf]

/-! ## typed columns -/

theorem floatCells_length (ft : FloatTable) (toks vs : List Str) (h : floatCells ft toks = some vs) :
    vs.length = toks.length := by
  induction toks generalizing vs with
  | nil => simp [floatCells] at h; subst h; rfl
  | cons t ts ih =>
    simp only [floatCells] at h
    split at h
    · rename_i v vs' _ h2
      simp at h; subst h
      simp [ih vs' h2]
    · simp at h

theorem typedColumn_length (ft : FloatTable) (toks : List Str) : (typedColumn ft toks).length = toks.length := by
  unfold typedColumn
  split
  · rename_i vs h; simp [Column.length, floatCells_length ft toks vs h]
  · rfl

/-- when every token converts, the cells are the converted tokens -/
theorem floatCells_of_all (ft : FloatTable) (toks : List Str) (h : ∀ t ∈ toks, (toFloat ft t).isSome) :
    ∃ vs, floatCells ft toks = some vs := by
  induction toks with
  | nil => exact ⟨[], rfl⟩
  | cons t ts ih =>
    obtain ⟨vs, hvs⟩ := ih (fun t' ht' => h t' (by simp [ht']))
    have ht := h t (by simp)
    cases hv : toFloat ft t with
    | none => simp [hv] at ht
    | some v => exact ⟨v :: vs, by simp [floatCells, hv, hvs]⟩

/-- a token that does not convert makes `floatCells` fail -/
theorem floatCells_none_of_mem (ft : FloatTable) (toks : List Str) (t : Str) (ht : t ∈ toks) (hn : toFloat ft t = none) :
    floatCells ft toks = none := by
  induction toks with
  | nil => simp at ht
  | cons a ts ih =>
    simp only [List.mem_cons] at ht
    simp only [floatCells]
    rcases ht with rfl | ht
    · simp [hn]
    · rw [ih ht]; split <;> simp_all

/-- `genfromtxt`'s all-float result is the typed columns, when it succeeds -/
theorem allFloatCols_eq (ft : FloatTable) (cols : List (List Str)) (out : List Column) (h : allFloatCols ft cols = some out) :
    out = cols.map (typedColumn ft) := by
  induction cols generalizing out with
  | nil => simp [allFloatCols] at h; subst h; rfl
  | cons col cs ih =>
    simp only [allFloatCols] at h
    split at h
    · rename_i vs r h1 h2
      simp at h; subst h
      simp [typedColumn, h1, ih r h2]
    · simp at h

theorem allFloatCols_of_all (ft : FloatTable) (cols : List (List Str)) (h : ∀ col ∈ cols, ∀ t ∈ col, (toFloat ft t).isSome) :
    allFloatCols ft cols = some (cols.map (typedColumn ft)) := by
  induction cols with
  | nil => rfl
  | cons col cs ih =>
    obtain ⟨vs, hvs⟩ := floatCells_of_all ft col (h col (by simp))
    have := ih (fun c hc => h c (by simp [hc]))
    simp [allFloatCols, hvs, this, typedColumn]

theorem allFloatCols_none_of_mem (ft : FloatTable) (cols : List (List Str)) (col : List Str) (t : Str)
    (hc : col ∈ cols) (ht : t ∈ col) (hn : toFloat ft t = none) : allFloatCols ft cols = none := by
  induction cols with
  | nil => simp at hc
  | cons a cs ih =>
    simp only [List.mem_cons] at hc
    simp only [allFloatCols]
    rcases hc with rfl | hc
    · rw [floatCells_none_of_mem ft col t ht hn]
    · rw [ih hc]; split <;> simp_all

/-! ## assignCurves -/

theorem assignFrom_length (d k : Nat) (cols : List Column) : (assignFrom d k cols).length = cols.length := by
  induction cols generalizing k with
  | nil => rfl
  | cons c cs ih => simp [assignFrom, ih]

theorem assignFrom_getElem? (d k j : Nat) (cols : List Column) :
    (assignFrom d k cols)[j]? = (cols[j]?).map fun c => ((if k + j < d then Slot.declared (k + j) else Slot.extra), c) := by
  induction cols generalizing k j with
  | nil => simp [assignFrom]
  | cons c cs ih =>
    cases j with
    | zero => simp [assignFrom]
    | succ j =>
      simp only [assignFrom, List.getElem?_cons_succ]
      rw [ih]
      have : k + 1 + j = k + (j + 1) := by omega
      rw [this]

theorem assignFrom_snd (d k : Nat) (cols : List Column) : (assignFrom d k cols).map Prod.snd = cols := by
  induction cols generalizing k with
  | nil => rfl
  | cons c cs ih => simp [assignFrom, ih]

/-! ## Part 2: strings -/

def AllWs (s : Str) : Prop := ∀ c ∈ s, isPySpace c = true

/-- empty, or starting with a whitespace character -/
def WsHead (s : Str) : Prop := s = [] ∨ ∃ w r, s = w :: r ∧ isPySpace w = true

theorem wsHead_of_allWs_append (a b : Str) (ha : AllWs a) (hne : a ≠ []) : WsHead (a ++ b) := by
  cases a with
  | nil => exact absurd rfl hne
  | cons w r => exact Or.inr ⟨w, r ++ b, rfl, ha w (by simp)⟩

theorem wsHead_allWs (a : Str) (ha : AllWs a) : WsHead a := by
  cases a with
  | nil => exact Or.inl rfl
  | cons w r => exact Or.inr ⟨w, r, rfl, ha w (by simp)⟩

/-! ### character classes -/

theorem ws_not_digit (c : Char) (h : isPySpace c = true) : isUDigit c = false := by
  unfold isPySpace at h
  unfold isUDigit
  simp only [Bool.or_eq_true, Bool.and_eq_true, decide_eq_true_eq, beq_iff_eq] at h
  simp only [Bool.or_eq_false_iff, Bool.and_eq_false_iff, decide_eq_false_iff_not]
  omega

theorem ws_ne (c d : Char) (h : isPySpace c = true) (hd : isPySpace d = false) : c ≠ d := by
  intro e; subst e; simp [h] at hd

theorem ws_beq (c d : Char) (h : isPySpace c = true) (hd : isPySpace d = false) : (c == d) = false := by
  simp [ws_ne c d h hd]

/-! ### takeWhile / dropWhile over an append that stops -/

theorem takeWhile_append_stop (p : Char → Bool) (a b : Str) (ha : ∀ x ∈ a, p x = true)
    (hb : b = [] ∨ ∃ w r, b = w :: r ∧ p w = false) : (a ++ b).takeWhile p = a := by
  induction a with
  | nil =>
    rcases hb with rfl | ⟨w, r, rfl, hw⟩
    · rfl
    · simp [hw]
  | cons x a ih =>
    have hx := ha x (by simp)
    simp only [List.cons_append, List.takeWhile, hx]
    rw [ih (fun y hy => ha y (by simp [hy]))]

theorem dropWhile_append_stop (p : Char → Bool) (a b : Str) (c : Char) (hc : p c = false) :
    (a ++ c :: b).dropWhile p = a.dropWhile p ++ c :: b := by
  induction a with
  | nil => simp [List.dropWhile, hc]
  | cons x a ih =>
    simp only [List.cons_append, List.dropWhile]
    cases p x <;> simp [ih]

theorem dropWhile_all (p : Char → Bool) (a : Str) (ha : ∀ x ∈ a, p x = true) : a.dropWhile p = [] := by
  induction a with
  | nil => rfl
  | cons x a ih => simp [List.dropWhile, ha x (by simp), ih (fun y hy => ha y (by simp [hy]))]

/-! ### trimming -/

def trimR (p : Char → Bool) (s : Str) : Str := (s.reverse.dropWhile p).reverse
def trimBoth (p : Char → Bool) (s : Str) : Str := trimR p (s.dropWhile p)

theorem strip_eq_trimBoth (s : Str) : strip s = trimBoth isPySpace s := rfl
theorem stripChar_eq_trimBoth (ch : Char) (s : Str) : stripChar ch s = trimBoth (· == ch) s := rfl

theorem trimR_append_stop (p : Char → Bool) (a b : Str) (c : Char) (hc : p c = false) :
    trimR p (a ++ c :: b) = a ++ c :: trimR p b := by
  unfold trimR
  rw [List.reverse_append, List.reverse_cons, List.append_assoc]
  simp only [List.singleton_append]
  rw [dropWhile_append_stop p b.reverse a.reverse c hc]
  simp

theorem trimR_all (p : Char → Bool) (a : Str) (ha : ∀ x ∈ a, p x = true) : trimR p a = [] := by
  unfold trimR
  rw [dropWhile_all p a.reverse (fun x hx => ha x (by simpa using hx))]
  rfl

theorem mem_trimR (p : Char → Bool) (s : Str) (x : Char) (h : x ∈ trimR p s) : x ∈ s := by
  unfold trimR at h
  have := (List.dropWhile_suffix p (l := s.reverse)).subset (by simpa using h)
  simpa using this

theorem mem_trimBoth (p : Char → Bool) (s : Str) (x : Char) (h : x ∈ trimBoth p s) : x ∈ s :=
  (List.dropWhile_suffix p).subset (mem_trimR p _ x h)

theorem allWs_dropWhile (p : Char → Bool) (s : Str) (h : AllWs s) : AllWs (s.dropWhile p) :=
  fun c hc => h c ((List.dropWhile_suffix p).subset hc)

theorem allWs_trimR (p : Char → Bool) (s : Str) (h : AllWs s) : AllWs (trimR p s) :=
  fun c hc => h c (mem_trimR p s c hc)

/-- a string with a non-blank first and a non-blank last character -/
structure Solid (m : Str) : Prop where
  head : ∃ h tl, m = h :: tl ∧ isPySpace h = false
  last : ∃ ini z, m = ini ++ [z] ∧ isPySpace z = false

/-- trimming a class of blanks around a solid string leaves blanks around it -/
theorem trimBoth_sandwich (p : Char → Bool) (hp : ∀ x, p x = true → isPySpace x = true) (pre m post : Str)
    (hpre : AllWs pre) (hpost : AllWs post) (hm : Solid m) :
    ∃ pre' post', AllWs pre' ∧ AllWs post' ∧ trimBoth p (pre ++ (m ++ post)) = pre' ++ (m ++ post') := by
  obtain ⟨h, tl, hm1, hh⟩ := hm.head
  obtain ⟨ini, z, hm2, hz⟩ := hm.last
  have ph : p h = false := by
    cases hph : p h with
    | false => rfl
    | true => rw [hp h hph] at hh; simp at hh
  have pz : p z = false := by
    cases hpz : p z with
    | false => rfl
    | true => rw [hp z hpz] at hz; simp at hz
  refine ⟨pre.dropWhile p, trimR p post, allWs_dropWhile p pre hpre, allWs_trimR p post hpost, ?_⟩
  unfold trimBoth
  have e1 : (pre ++ (m ++ post)).dropWhile p = pre.dropWhile p ++ (m ++ post) := by
    rw [hm1]; simp only [List.cons_append]
    exact dropWhile_append_stop p pre (tl ++ post) h ph
  rw [e1]
  have e2 : pre.dropWhile p ++ (m ++ post) = (pre.dropWhile p ++ ini) ++ z :: post := by
    rw [hm2]; simp
  rw [e2, trimR_append_stop p _ post z pz]
  rw [hm2]; simp

/-- `strip` of blanks ++ solid ++ blanks is the solid part -/
theorem strip_sandwich (pre m post : Str) (hpre : AllWs pre) (hpost : AllWs post) (hm : Solid m) :
    strip (pre ++ (m ++ post)) = m := by
  obtain ⟨h, tl, hm1, hh⟩ := hm.head
  obtain ⟨ini, z, hm2, hz⟩ := hm.last
  rw [strip_eq_trimBoth]
  unfold trimBoth
  have e1 : (pre ++ (m ++ post)).dropWhile isPySpace = m ++ post := by
    rw [hm1]; simp only [List.cons_append]
    rw [dropWhile_append_stop isPySpace pre (tl ++ post) h hh, dropWhile_all isPySpace pre hpre]
    rfl
  rw [e1]
  have e2 : m ++ post = ini ++ z :: post := by rw [hm2]; simp
  rw [e2, trimR_append_stop isPySpace ini post z hz, trimR_all isPySpace post hpost, hm2]

theorem nl_is_ws (x : Char) (h : (x == '\n') = true) : isPySpace x = true := by
  simp only [beq_iff_eq] at h; subst h; decide

/-- `line.strip("\n").strip()` of blanks ++ solid ++ blanks -/
theorem cleanLine_sandwich (pre m post : Str) (hpre : AllWs pre) (hpost : AllWs post) (hm : Solid m) :
    cleanLine (pre ++ (m ++ post)) = m := by
  unfold cleanLine
  rw [stripChar_eq_trimBoth]
  obtain ⟨pre', post', h1, h2, h3⟩ := trimBoth_sandwich (· == '\n') nl_is_ws pre m post hpre hpost hm
  rw [h3]
  exact strip_sandwich pre' m post' h1 h2 hm

/-- a blank line cleans to the empty string -/
theorem cleanLine_blank (ln : Str) (h : AllWs ln) : cleanLine ln = [] := by
  unfold cleanLine
  rw [stripChar_eq_trimBoth, strip_eq_trimBoth]
  have h1 : AllWs (trimBoth (· == '\n') ln) := fun c hc => h c (mem_trimBoth _ ln c hc)
  unfold trimBoth at *
  rw [dropWhile_all isPySpace _ h1]
  rfl

/-- a comment line cleans to a string starting with `#` -/
theorem cleanLine_comment (pre rest : Str) (hpre : AllWs pre) :
    ∃ r, cleanLine (pre ++ '#' :: rest) = '#' :: r := by
  unfold cleanLine
  rw [stripChar_eq_trimBoth, strip_eq_trimBoth]
  have hn : ('#' == '\n') = false := by decide
  have hw : isPySpace '#' = false := by decide
  have e1 : trimBoth (· == '\n') (pre ++ '#' :: rest) =
      pre.dropWhile (· == '\n') ++ '#' :: trimR (· == '\n') rest := by
    unfold trimBoth
    rw [dropWhile_append_stop (· == '\n') pre rest '#' hn, trimR_append_stop (· == '\n') _ rest '#' hn]
  rw [e1]
  refine ⟨trimR isPySpace (trimR (· == '\n') rest), ?_⟩
  unfold trimBoth
  rw [dropWhile_append_stop isPySpace _ _ '#' hw,
    dropWhile_all isPySpace _ (allWs_dropWhile _ pre hpre)]
  simp only [List.nil_append]
  exact trimR_append_stop isPySpace [] _ '#' hw



/-! ### the `re.sub` scanner finds nothing -/

/-- the pattern matches at no position of `l` -/
def NoMatch (m : Str → Option (Str × Nat)) (l : Str) : Prop := ∀ s, s <:+ l → m s = none

theorem reSub_id (m : Str → Option (Str × Nat)) (l : Str) (h : NoMatch m l) : reSub m 0 l = l := by
  induction l with
  | nil => rfl
  | cons c cs ih =>
    have h0 : m (c :: cs) = none := h _ List.suffix_rfl
    simp only [reSub, h0]
    rw [ih (fun s hs => h s (hs.trans (List.suffix_cons c cs)))]

/-- the verdict of the matcher does not look beyond the first blank -/
def Local (m : Str → Option (Str × Nat)) : Prop := ∀ x tail, WsHead tail → m (x ++ tail) = m x

theorem noMatch_nil (m : Str → Option (Str × Nat)) (h : m [] = none) : NoMatch m [] := by
  intro s hs
  have : s = [] := by simpa using hs
  rw [this, h]

theorem noMatch_append (m : Str → Option (Str × Nat)) (hl : Local m) (t tail : Str) (ht : NoMatch m t)
    (htail : NoMatch m tail) (hw : WsHead tail) : NoMatch m (t ++ tail) := by
  induction t with
  | nil => simpa using htail
  | cons c cs ih =>
    intro s hs
    rw [List.cons_append, List.suffix_cons_iff] at hs
    rcases hs with rfl | hs
    · rw [← List.cons_append, hl (c :: cs) tail hw]
      exact ht _ List.suffix_rfl
    · exact ih (fun s' hs' => ht s' (hs'.trans (List.suffix_cons c cs))) s hs

theorem noMatch_ws_cons (m : Str → Option (Str × Nat)) (hws : ∀ w r, isPySpace w = true → m (w :: r) = none)
    (w : Char) (r : Str) (hw : isPySpace w = true) (hr : NoMatch m r) : NoMatch m (w :: r) := by
  intro s hs
  rw [List.suffix_cons_iff] at hs
  rcases hs with rfl | hs
  · exact hws w r hw
  · exact hr s hs

theorem noMatch_allWs_append (m : Str → Option (Str × Nat)) (hws : ∀ w r, isPySpace w = true → m (w :: r) = none)
    (a r : Str) (ha : AllWs a) (hr : NoMatch m r) : NoMatch m (a ++ r) := by
  induction a with
  | nil => simpa using hr
  | cons w a ih =>
    exact noMatch_ws_cons m hws w (a ++ r) (ha w (by simp)) (ih (fun c hc => ha c (by simp [hc])))

/-! ### the three matchers are local and never start on a blank -/

theorem mComma_ws (w : Char) (r : Str) (hw : isPySpace w = true) : mComma (w :: r) = none := by
  have := ws_not_digit w hw
  match r with
  | [] => rfl
  | [_] => rfl
  | _ :: _ :: _ => simp [mComma, this]

theorem mHyphen_ws (w : Char) (r : Str) (hw : isPySpace w = true) : mHyphen (w :: r) = none := by
  have := ws_not_digit w hw
  match r with
  | [] => rfl
  | [_] => rfl
  | _ :: _ :: _ => simp [mHyphen, this]

theorem mComma_local : Local mComma := by
  intro x tail hw
  match x with
  | [] =>
    rcases hw with rfl | ⟨w, r, rfl, hw⟩
    · rfl
    · simpa [mComma] using mComma_ws w r hw
  | [a] =>
    rcases hw with rfl | ⟨w, r, rfl, hw⟩
    · rfl
    · have : (w == ',') = false := ws_beq w ',' hw (by decide)
      match r with
      | [] => rfl
      | _ :: _ => simp [mComma, this]
  | [a, p] =>
    rcases hw with rfl | ⟨w, r, rfl, hw⟩
    · rfl
    · simp [mComma, ws_not_digit w hw]
  | _ :: _ :: _ :: _ => rfl

theorem mHyphen_local : Local mHyphen := by
  intro x tail hw
  match x with
  | [] =>
    rcases hw with rfl | ⟨w, r, rfl, hw⟩
    · rfl
    · simpa [mHyphen] using mHyphen_ws w r hw
  | [a] =>
    rcases hw with rfl | ⟨w, r, rfl, hw⟩
    · rfl
    · have : (w == '-') = false := ws_beq w '-' hw (by decide)
      match r with
      | [] => rfl
      | _ :: _ => simp [mHyphen, this]
  | [a, p] =>
    rcases hw with rfl | ⟨w, r, rfl, hw⟩
    · rfl
    · simp [mHyphen, ws_not_digit w hw]
  | _ :: _ :: _ :: _ => rfl

theorem digitsThenDot_wsHead (tail : Str) (hw : WsHead tail) : digitsThenDot tail = none := by
  rcases hw with rfl | ⟨w, r, rfl, hw⟩
  · rfl
  · simp [digitsThenDot, ws_beq w '.' hw (by decide), ws_not_digit w hw]

theorem digitsThenDot_local (x tail : Str) (hw : WsHead tail) :
    digitsThenDot (x ++ tail) = (digitsThenDot x).map (fun nr => (nr.1, nr.2 ++ tail)) := by
  induction x with
  | nil => simp [digitsThenDot_wsHead tail hw, digitsThenDot]
  | cons c cs ih =>
    simp only [List.cons_append, digitsThenDot]
    split
    · rfl
    · split
      · rw [ih]; cases digitsThenDot cs <;> simp
      · rfl

theorem takeWhile_digit_local (x tail : Str) (hw : WsHead tail) :
    (x ++ tail).takeWhile isUDigit = x.takeWhile isUDigit := by
  induction x with
  | nil =>
    rcases hw with rfl | ⟨w, r, rfl, hw⟩
    · rfl
    · simp [ws_not_digit w hw]
  | cons c cs ih =>
    simp only [List.cons_append, List.takeWhile]
    cases isUDigit c <;> simp [ih]

theorem dotTail_local (neg : Nat) (x tail : Str) (hw : WsHead tail) : dotTail neg (x ++ tail) = dotTail neg x := by
  unfold dotTail
  rw [digitsThenDot_local _ tail hw]
  cases h1 : digitsThenDot x with
  | none => rfl
  | some nr =>
    simp only [Option.map_some]
    rw [digitsThenDot_local _ tail hw]
    cases h2 : digitsThenDot nr.2 with
    | none => rfl
    | some nr2 =>
      simp only [Option.map_some]
      rw [takeWhile_digit_local _ tail hw]

theorem mDotAlt1_local (x tail : Str) (hw : WsHead tail) : mDotAlt1 (x ++ tail) = mDotAlt1 x := by
  cases x with
  | nil =>
    rcases hw with rfl | ⟨w, r, rfl, hw'⟩
    · rfl
    · simp only [List.nil_append, mDotAlt1, ws_beq w '-' hw' (by decide), Bool.false_eq_true, ↓reduceIte]
      unfold dotTail
      rw [digitsThenDot_wsHead (w :: r) (Or.inr ⟨w, r, rfl, hw'⟩)]
  | cons c cs =>
    simp only [List.cons_append, mDotAlt1]
    split
    · exact dotTail_local 1 cs tail hw
    · exact dotTail_local 0 (c :: cs) tail hw

theorem mDotAlt2_local (x tail : Str) (hw : WsHead tail) : mDotAlt2 (x ++ tail) = mDotAlt2 x := by
  match x with
  | c1 :: c2 :: c3 :: p :: d :: rest =>
    simp only [List.cons_append, mDotAlt2, takeWhile_digit_local rest tail hw]
  | [] =>
    rcases hw with rfl | ⟨w, r, rfl, hw⟩
    · rfl
    · have : (w == 'N') = false := ws_beq w 'N' hw (by decide)
      match r with
      | [] | [_] | [_, _] | [_, _, _] => rfl
      | _ :: _ :: _ :: _ :: _ => simp [mDotAlt2, this]
  | [c1] =>
    rcases hw with rfl | ⟨w, r, rfl, hw⟩
    · rfl
    · have : (w == 'a') = false := ws_beq w 'a' hw (by decide)
      match r with
      | [] | [_] | [_, _] => rfl
      | _ :: _ :: _ :: _ => simp [mDotAlt2, this]
  | [c1, c2] =>
    rcases hw with rfl | ⟨w, r, rfl, hw⟩
    · rfl
    · have : (w == 'N') = false := ws_beq w 'N' hw (by decide)
      match r with
      | [] | [_] => rfl
      | _ :: _ :: _ => simp [mDotAlt2, this]
  | [c1, c2, c3] =>
    rcases hw with rfl | ⟨w, r, rfl, hw⟩
    · rfl
    · have h1 : (w == '.') = false := ws_beq w '.' hw (by decide)
      have h2 : (w == '-') = false := ws_beq w '-' hw (by decide)
      match r with
      | [] => rfl
      | _ :: _ => simp [mDotAlt2, h1, h2]
  | [c1, c2, c3, p] =>
    rcases hw with rfl | ⟨w, r, rfl, hw⟩
    · rfl
    · simp [mDotAlt2, ws_not_digit w hw]

theorem mDot_local : Local mDot := by
  intro x tail hw
  unfold mDot
  rw [mDotAlt1_local x tail hw, mDotAlt2_local x tail hw]

theorem mDot_ws (w : Char) (r : Str) (hw : isPySpace w = true) : mDot (w :: r) = none := by
  have h := mDot_local [] (w :: r) (Or.inr ⟨w, r, rfl, hw⟩)
  simp only [List.nil_append] at h
  rw [h]; rfl



/-! ### the `findall` scanner on blank-separated tokens -/

theorem scanTok_skip (m : Str → Option (Str × Nat)) (a b : Str) : scanTok m a.length (a ++ b) = scanTok m 0 b := by
  induction a with
  | nil => rfl
  | cons x a ih => simpa [scanTok] using ih

theorem scanTok_allWs (m : Str → Option (Str × Nat)) (hws : ∀ w r, isPySpace w = true → m (w :: r) = none)
    (a r : Str) (ha : AllWs a) : scanTok m 0 (a ++ r) = scanTok m 0 r := by
  induction a with
  | nil => rfl
  | cons w a ih =>
    simp only [List.cons_append, scanTok, hws w (a ++ r) (ha w (by simp))]
    exact ih (fun c hc => ha c (by simp [hc]))

/-- characters a data token is made of: no blank, no quote, no `#`, no ctrl-Z -/
def tokChar (c : Char) : Bool := !isPySpace c && c != '"' && c != '\'' && c != '#' && c != ctrlZ

/-- the matcher takes a whole token when a blank (or the end) follows -/
def TakesToken (m : Str → Option (Str × Nat)) : Prop :=
  ∀ c t tail, (∀ x ∈ c :: t, tokChar x = true) → WsHead tail → m (c :: t ++ tail) = some (c :: t, t.length)

theorem tokChar_parts (c : Char) (h : tokChar c = true) :
    isPySpace c = false ∧ (c == '"') = false ∧ (c == '\'') = false ∧ (c == '#') = false ∧ (c == ctrlZ) = false := by
  unfold tokChar at h
  simp only [Bool.and_eq_true, Bool.not_eq_true', bne_iff_ne, ne_eq] at h
  simp [h]

theorem ws_not_quote (w : Char) (hw : isPySpace w = true) : (w == '"') = false ∧ (w == '\'') = false :=
  ⟨ws_beq w '"' hw (by decide), ws_beq w '\'' hw (by decide)⟩

theorem mSplit_ws (w : Char) (r : Str) (hw : isPySpace w = true) : mSplit isPySpace (w :: r) = none := by
  simp [mSplit, ws_not_quote w hw, hw]

theorem mWord_ws (w : Char) (r : Str) (hw : isPySpace w = true) : mWord (w :: r) = none := by
  simp [mWord, hw]

theorem mSplit_takes : TakesToken (mSplit isPySpace) := by
  intro c t tail hc hw
  obtain ⟨h1, h2, h3, _, _⟩ := tokChar_parts c (hc c (by simp))
  simp only [List.cons_append, mSplit, h2, h3, Bool.or_self, Bool.false_eq_true, ↓reduceIte, h1]
  have : (t ++ tail).takeWhile (fun x => !(isPySpace x || x == '"' || x == '\'')) = t := by
    apply takeWhile_append_stop
    · intro x hx
      obtain ⟨a1, a2, a3, _, _⟩ := tokChar_parts x (hc x (by simp [hx]))
      simp [a1, a2, a3]
    · rcases hw with rfl | ⟨w, r, rfl, hw⟩
      · exact Or.inl rfl
      · exact Or.inr ⟨w, r, rfl, by simp [hw]⟩
  rw [this]

theorem mWord_takes : TakesToken mWord := by
  intro c t tail hc hw
  obtain ⟨h1, _, _, _, _⟩ := tokChar_parts c (hc c (by simp))
  simp only [List.cons_append, mWord, h1, Bool.false_eq_true, ↓reduceIte]
  have : (t ++ tail).takeWhile (fun x => !isPySpace x) = t := by
    apply takeWhile_append_stop
    · intro x hx
      obtain ⟨a1, _, _, _, _⟩ := tokChar_parts x (hc x (by simp [hx]))
      simp [a1]
    · rcases hw with rfl | ⟨w, r, rfl, hw⟩
      · exact Or.inl rfl
      · exact Or.inr ⟨w, r, rfl, by simp [hw]⟩
  rw [this]

/-! ### quiet tokens and rows -/

/-- A token on which no read substitution fires and that contains no blank, quote, `#` or ctrl-Z.
Every plain decimal number is one (`quietTok_of_simple`); so are most words. -/
structure QuietTok (t : Str) : Prop where
  ne : t ≠ []
  chars : ∀ c ∈ t, tokChar c = true
  comma : NoMatch mComma t
  hyphen : NoMatch mHyphen t
  dot : NoMatch mDot t

/-- `Core toks s`: `s` is the tokens `toks` (at least one) separated by non-empty runs of blanks -/
inductive Core : List Str → Str → Prop
  | one {t : Str} : QuietTok t → Core [t] t
  | cons {t sep rest : Str} {ts : List Str} :
      QuietTok t → sep ≠ [] → AllWs sep → Core ts rest → Core (t :: ts) (t ++ (sep ++ rest))

theorem quietTok_solid (t : Str) (h : QuietTok t) : Solid t := by
  constructor
  · cases t with
    | nil => exact absurd rfl h.ne
    | cons c cs => exact ⟨c, cs, rfl, (tokChar_parts c (h.chars c (by simp))).1⟩
  · have := List.eq_nil_or_concat t
    rcases this with e | ⟨ini, z, e⟩
    · exact absurd e h.ne
    · exact ⟨ini, z, by simpa using e, (tokChar_parts z (h.chars z (by simp [e]))).1⟩

theorem core_solid {toks : List Str} {s : Str} (h : Core toks s) : Solid s := by
  induction h with
  | one ht => exact quietTok_solid _ ht
  | @cons t sep rest ts ht _ _ _ ih =>
    constructor
    · obtain ⟨c, cs, e, hc⟩ := (quietTok_solid _ ht).head
      exact ⟨c, cs ++ (sep ++ rest), by rw [e]; rfl, hc⟩
    · obtain ⟨ini, z, e, hz⟩ := ih.last
      exact ⟨t ++ (sep ++ ini), z, by rw [e]; simp, hz⟩

theorem core_head_tok {toks : List Str} {s : Str} (h : Core toks s) : ∃ c cs, s = c :: cs ∧ tokChar c = true := by
  cases h with
  | one ht =>
    cases s with
    | nil => exact absurd rfl ht.ne
    | cons c cs => exact ⟨c, cs, rfl, ht.chars c (by simp)⟩
  | @cons t sep rest ts ht _ _ _ =>
    cases t with
    | nil => exact absurd rfl ht.ne
    | cons c cs => exact ⟨c, cs ++ _, rfl, ht.chars c (by simp)⟩

theorem ws_ne_hash (w : Char) (hw : isPySpace w = true) : (w == '#') = false := ws_beq w '#' hw (by decide)
theorem ws_ne_ctrlZ (w : Char) (hw : isPySpace w = true) : (w == ctrlZ) = false := ws_beq w ctrlZ hw (by decide)

/-- no `#` and no ctrl-Z anywhere in a row -/
theorem core_chars {toks : List Str} {s : Str} (h : Core toks s) : ∀ c ∈ s, (c == '#') = false ∧ (c == ctrlZ) = false := by
  induction h with
  | one ht => intro c hc; have := tokChar_parts c (ht.chars c hc); exact ⟨this.2.2.2.1, this.2.2.2.2⟩
  | cons ht _ hsep _ ih =>
    intro c hc
    simp only [List.mem_append] at hc
    rcases hc with hc | hc | hc
    · have := tokChar_parts c (ht.chars c hc); exact ⟨this.2.2.2.1, this.2.2.2.2⟩
    · exact ⟨ws_ne_hash c (hsep c hc), ws_ne_ctrlZ c (hsep c hc)⟩
    · exact ih c hc

theorem core_noMatch (m : Str → Option (Str × Nat)) (hl : Local m) (hws : ∀ w r, isPySpace w = true → m (w :: r) = none)
    (hq : ∀ t, QuietTok t → NoMatch m t) {toks : List Str} {s : Str} (h : Core toks s) : NoMatch m s := by
  induction h with
  | one ht => exact hq _ ht
  | cons ht hne hsep _ ih =>
    apply noMatch_append m hl _ _ (hq _ ht)
    · exact noMatch_allWs_append m hws _ _ hsep ih
    · exact wsHead_of_allWs_append _ _ hsep hne

/-- the read substitutions are the identity on a row of quiet tokens, whichever of them are active -/
theorem applySubs_core (sb : Subs) {toks : List Str} {s : Str} (h : Core toks s) : applySubs sb s = s := by
  have h1 : subCommaDecimal s = s :=
    reSub_id _ _ (core_noMatch mComma mComma_local mComma_ws (fun _ ht => ht.comma) h)
  have h2 : subRunOnHyphen s = s :=
    reSub_id _ _ (core_noMatch mHyphen mHyphen_local mHyphen_ws (fun _ ht => ht.hyphen) h)
  have h3 : subRunOnDot s = s :=
    reSub_id _ _ (core_noMatch mDot mDot_local mDot_ws (fun _ ht => ht.dot) h)
  unfold applySubs
  cases sb with
  | mk c hy d => cases c <;> cases hy <;> cases d <;> simp [h1, h2, h3]

/-- scanning a row (followed by blanks) gives its tokens -/
theorem scanTok_core (m : Str → Option (Str × Nat)) (hws : ∀ w r, isPySpace w = true → m (w :: r) = none)
    (htk : TakesToken m) {toks : List Str} {s : Str} (h : Core toks s) (post : Str) (hpost : AllWs post) :
    scanTok m 0 (s ++ post) = toks := by
  induction h with
  | @one t ht =>
    cases t with
    | nil => exact absurd rfl ht.ne
    | cons c cs =>
      have hm := htk c cs post ht.chars (wsHead_allWs post hpost)
      simp only [List.cons_append] at hm ⊢
      simp only [scanTok, hm]
      rw [scanTok_skip m cs post]
      have := scanTok_allWs m hws post [] hpost
      simp only [List.append_nil] at this
      rw [this]; rfl
  | @cons t sep rest ts ht hne hsep _ ih =>
    cases t with
    | nil => exact absurd rfl ht.ne
    | cons c cs =>
      have hm := htk c cs (sep ++ (rest ++ post)) ht.chars (wsHead_of_allWs_append _ _ hsep hne)
      have e : (c :: cs ++ (sep ++ rest)) ++ post = c :: (cs ++ (sep ++ (rest ++ post))) := by simp
      rw [e]
      simp only [List.cons_append] at hm
      simp only [scanTok, hm]
      rw [scanTok_skip m cs _, scanTok_allWs m hws sep _ hsep, ih]

theorem filter_ctrlZ_core {toks : List Str} {s : Str} (h : Core toks s) : s.filter (· != ctrlZ) = s := by
  rw [List.filter_eq_self]
  intro c hc
  have := (core_chars h c hc).2
  simpa using this

/-! ### lines of the body -/

/-- a data line: optional blanks, the tokens `toks` separated by blanks, optional blanks (the line end `\n` / `\r\n` included) -/
def RowLine (toks : List Str) (ln : Str) : Prop :=
  ∃ pre core post, AllWs pre ∧ AllWs post ∧ Core toks core ∧ ln = pre ++ (core ++ post)

/-- a blank line or a `#` comment line -/
def SkipLine (ln : Str) : Prop := AllWs ln ∨ ∃ pre rest, AllWs pre ∧ ln = pre ++ '#' :: rest

theorem isComment_cons (c : Char) (cs : Str) : isComment (c :: cs) = ('#' == c) := by
  simp [isComment, startsWith, List.isPrefixOf]

theorem takeWhile_all (p : Char → Bool) (l : Str) (h : ∀ x ∈ l, p x = true) : l.takeWhile p = l := by
  induction l with
  | nil => rfl
  | cons x l ih => simp [List.takeWhile, h x (by simp), ih (fun y hy => h y (by simp [hy]))]

theorem core_not_comment {toks : List Str} {s : Str} (h : Core toks s) : isComment s = false := by
  obtain ⟨c, cs, rfl, hc⟩ := core_head_tok h
  have h1 := (tokChar_parts c hc).2.2.2.1
  have hne : c ≠ '#' := by simpa using h1
  rw [isComment_cons, beq_eq_false_iff_ne]
  exact fun e => hne e.symm

theorem core_ne_nil {toks : List Str} {s : Str} (h : Core toks s) : s.isEmpty = false := by
  obtain ⟨c, cs, rfl, _⟩ := core_head_tok h
  rfl

theorem rowLine_clean {toks : List Str} {ln : Str} (h : RowLine toks ln) : ∃ core, Core toks core ∧ cleanLine ln = core := by
  obtain ⟨pre, core, post, hpre, hpost, hcore, rfl⟩ := h
  exact ⟨core, hcore, cleanLine_sandwich pre core post hpre hpost (core_solid hcore)⟩

theorem splitWs_core {toks : List Str} {s : Str} (h : Core toks s) : splitWs s = toks := by
  have := scanTok_core (mSplit isPySpace) mSplit_ws mSplit_takes h [] (by intro c hc; simp at hc)
  simpa [splitWs] using this

/-- the normal engine's items of a data line are its tokens, whichever substitutions are active -/
theorem lineTokens_row (sb : Subs) {toks : List Str} {ln : Str} (h : RowLine toks ln) :
    lineTokens sb .space ln = toks := by
  obtain ⟨core, hcore, hcl⟩ := rowLine_clean h
  unfold lineTokens
  simp only [hcl, core_not_comment hcore, applySubs_core sb hcore, filter_ctrlZ_core hcore, core_ne_nil hcore,
    Bool.false_eq_true, ↓reduceIte, splitLine, splitWs_core hcore]

/-- the sniffer samples a data line and counts its tokens, whichever substitutions are active -/
theorem sampleLine_row {toks : List Str} {ln : Str} (h : RowLine toks ln) :
    ∃ l, sampleLine ln = some l ∧ ∀ sb, (splitLine .space (applySubs sb l)).length = toks.length := by
  obtain ⟨core, hcore, hcl⟩ := rowLine_clean h
  refine ⟨core, ?_, ?_⟩
  · unfold sampleLine
    simp [hcl, core_not_comment hcore, core_ne_nil hcore]
  · intro sb
    rw [applySubs_core sb hcore]
    simp [splitLine, splitWs_core hcore]

theorem allWs_no_hash (s : Str) (h : AllWs s) : ∀ c ∈ s, (c != '#') = true := by
  intro c hc
  simp [bne, ws_ne_hash c (h c hc)]

/-- `genfromtxt`'s tokens of a data line are its tokens -/
theorem npTokens_row {toks : List Str} {ln : Str} (h : RowLine toks ln) : npTokens ln = toks := by
  obtain ⟨pre, core, post, hpre, hpost, hcore, rfl⟩ := h
  unfold npTokens
  have : (pre ++ (core ++ post)).takeWhile (· != '#') = pre ++ (core ++ post) := by
    apply takeWhile_all
    intro c hc
    simp only [List.mem_append] at hc
    rcases hc with hc | hc | hc
    · exact allWs_no_hash pre hpre c hc
    · simp [bne, (core_chars hcore c hc).1]
    · exact allWs_no_hash post hpost c hc
  rw [this]
  unfold pySplit
  rw [scanTok_allWs mWord mWord_ws pre _ hpre]
  exact scanTok_core mWord mWord_ws mWord_takes hcore post hpost

theorem lineTokens_skip (sb : Subs) (dlm : Dlm) {ln : Str} (h : SkipLine ln) : lineTokens sb dlm ln = [] := by
  unfold lineTokens
  rcases h with h | ⟨pre, rest, hpre, rfl⟩
  · rw [cleanLine_blank ln h]
    have : applySubs sb [] = [] := by
      unfold applySubs subCommaDecimal subRunOnHyphen subRunOnDot
      cases sb with
      | mk c hy d => cases c <;> cases hy <;> cases d <;> rfl
    simp [isComment, startsWith, this]
  · obtain ⟨r, hr⟩ := cleanLine_comment pre rest hpre
    simp [hr, isComment, startsWith]

theorem sampleLine_skip {ln : Str} (h : SkipLine ln) : sampleLine ln = none := by
  unfold sampleLine
  rcases h with h | ⟨pre, rest, hpre, rfl⟩
  · simp [cleanLine_blank ln h]
  · obtain ⟨r, hr⟩ := cleanLine_comment pre rest hpre
    simp [hr, isComment, startsWith]

theorem npTokens_skip {ln : Str} (h : SkipLine ln) : npTokens ln = [] := by
  unfold npTokens pySplit
  rcases h with h | ⟨pre, rest, hpre, rfl⟩
  · have : ln.takeWhile (· != '#') = ln := by
      exact takeWhile_all _ ln (allWs_no_hash ln h)
    rw [this]
    have := scanTok_allWs mWord mWord_ws ln [] h
    simp only [List.append_nil] at this
    rw [this]; rfl
  · have : (pre ++ '#' :: rest).takeWhile (· != '#') = pre := by
      apply takeWhile_append_stop _ _ _ (allWs_no_hash pre hpre)
      exact Or.inr ⟨'#', rest, rfl, by decide⟩
    rw [this]
    have := scanTok_allWs mWord mWord_ws pre [] hpre
    simp only [List.append_nil] at this
    rw [this]; rfl

/-! ### plain decimal tokens are quiet -/

def plainChar (c : Char) : Bool := isDigit c || c == '+' || c == '-' || c == '.' || c == 'e' || c == 'E'

/-- no digit immediately before a `-` -/
def noDigitHyphen : Str → Bool
  | a :: b :: rest => !(isUDigit a && b == '-') && noDigitHyphen (b :: rest)
  | _ => true

/-- Characters `0-9 + - . e E` only, not empty, at most one `.`, no digit immediately before a `-`.
Every plain decimal number `[+-]?(\d+\.?\d*|\.\d+)([eE][+-]?\d+)?` satisfies this: its only `-` signs stand first or after `e`/`E`. -/
def simplePlain (t : Str) : Bool :=
  !t.isEmpty && t.all plainChar && decide (t.count '.' ≤ 1) && noDigitHyphen t

theorem isDigit_toNat (c : Char) (h : isDigit c = true) : 48 ≤ c.toNat ∧ c.toNat ≤ 57 := by
  unfold isDigit at h
  simp only [Bool.and_eq_true, decide_eq_true_eq] at h
  obtain ⟨h1, h2⟩ := h
  rw [Char.le_def] at h1 h2
  have a1 : (48 : Nat) ≤ c.val.toNat := by simpa using UInt32.le_iff_toNat_le.mp h1
  have a2 : c.val.toNat ≤ 57 := by simpa using UInt32.le_iff_toNat_le.mp h2
  exact ⟨a1, a2⟩

theorem toNat_tokChar (c : Char) (h1 : 33 ≤ c.toNat) (h2 : c.toNat ≤ 126) (h3 : c.toNat ≠ 34) (h4 : c.toNat ≠ 39)
    (h5 : c.toNat ≠ 35) : tokChar c = true := by
  have e : ∀ d : Char, c = d → c.toNat = d.toNat := fun d h => by rw [h]
  unfold tokChar isPySpace
  simp only [Bool.and_eq_true, Bool.not_eq_true', bne_iff_ne, ne_eq, Bool.or_eq_false_iff, Bool.and_eq_false_iff,
    decide_eq_false_iff_not, beq_eq_false_iff_ne]
  refine ⟨⟨⟨⟨?_, ?_⟩, ?_⟩, ?_⟩, ?_⟩
  · omega
  · intro h; have := e _ h; simp at this; omega
  · intro h; have := e _ h; simp at this; omega
  · intro h; have := e _ h; simp at this; omega
  · intro h; have := e _ h; simp [ctrlZ] at this; omega

theorem plainChar_tokChar (c : Char) (h : plainChar c = true) : tokChar c = true := by
  unfold plainChar at h
  simp only [Bool.or_eq_true, beq_iff_eq] at h
  rcases h with ((((h | rfl) | rfl) | rfl) | rfl) | rfl
  · obtain ⟨a, b⟩ := isDigit_toNat c h
    exact toNat_tokChar c (by omega) (by omega) (by omega) (by omega) (by omega)
  all_goals decide

theorem plainChar_ne (c d : Char) (h : plainChar c = true) (hd : plainChar d = false) : (c == d) = false := by
  rw [beq_eq_false_iff_ne]; intro e; subst e; simp [h] at hd

theorem mem_of_suffix {s t : Str} (h : s <:+ t) {c : Char} (hc : c ∈ s) : c ∈ t := h.subset hc

theorem noMatch_comma_simple (t : Str) (h : ∀ c ∈ t, plainChar c = true) : NoMatch mComma t := by
  intro s hs
  match s, hs with
  | [], _ => rfl
  | [_], _ => rfl
  | [_, _], _ => rfl
  | a :: p :: b :: r, hs =>
    have hp : plainChar p = true := h p (mem_of_suffix hs (by simp))
    simp [mComma, plainChar_ne p ',' hp (by decide)]

theorem noDigitHyphen_suffix (t s : Str) (h : noDigitHyphen t = true) (hs : s <:+ t) : noDigitHyphen s = true := by
  induction t with
  | nil => have : s = [] := by simpa using hs
           subst this; rfl
  | cons c cs ih =>
    rw [List.suffix_cons_iff] at hs
    rcases hs with rfl | hs
    · exact h
    · apply ih _ hs
      cases cs with
      | nil => rfl
      | cons b r => simp only [noDigitHyphen, Bool.and_eq_true] at h; exact h.2

theorem noMatch_hyphen_simple (t : Str) (h : noDigitHyphen t = true) : NoMatch mHyphen t := by
  intro s hs
  have := noDigitHyphen_suffix t s h hs
  match s, this with
  | [], _ => rfl
  | [_], _ => rfl
  | [_, _], _ => rfl
  | a :: p :: b :: r, hn =>
    simp only [noDigitHyphen, Bool.and_eq_true, Bool.not_eq_true', Bool.and_eq_false_iff] at hn
    rcases hn.1 with ha | hp
    · simp [mHyphen, ha]
    · simp [mHyphen, hp]

theorem digitsThenDot_count (s : Str) (n : Nat) (r : Str) (h : digitsThenDot s = some (n, r)) :
    s.count '.' = r.count '.' + 1 := by
  induction s generalizing n with
  | nil => simp [digitsThenDot] at h
  | cons c cs ih =>
    simp only [digitsThenDot] at h
    split at h
    · rename_i hc
      simp only [beq_iff_eq] at hc
      simp only [Option.some.injEq, Prod.mk.injEq] at h
      obtain ⟨_, rfl⟩ := h
      subst hc
      simp
    · rename_i hc
      split at h
      · cases hd : digitsThenDot cs with
        | none => simp [hd] at h
        | some nr =>
          simp only [hd, Option.map_some, Option.some.injEq, Prod.mk.injEq] at h
          obtain ⟨_, rfl⟩ := h
          have := ih nr.1 (by rw [hd])
          have hne : c ≠ '.' := by simpa using hc
          rw [List.count_cons_of_ne hne]
          exact this
      · simp at h

theorem dotTail_count (neg : Nat) (s : Str) (n : Nat) (h : dotTail neg s = some n) : 2 ≤ s.count '.' := by
  unfold dotTail at h
  split at h
  · rename_i d1 s3 h1
    split at h
    · rename_i d2 s5 h2
      have a := digitsThenDot_count s d1 s3 h1
      have b := digitsThenDot_count s3 d2 s5 h2
      omega
    · simp at h
  · simp at h

theorem mDotAlt1_count (s : Str) (n : Nat) (h : mDotAlt1 s = some n) : 2 ≤ s.count '.' := by
  cases s with
  | nil => simp [mDotAlt1] at h
  | cons c cs =>
    simp only [mDotAlt1] at h
    split at h
    · have := dotTail_count 1 cs n h
      have : cs.count '.' ≤ (c :: cs).count '.' := by
        rw [List.count_cons]; omega
      omega
    · exact dotTail_count 0 (c :: cs) n h

theorem noMatch_dot_simple (t : Str) (h : ∀ c ∈ t, plainChar c = true) (hd : t.count '.' ≤ 1) : NoMatch mDot t := by
  intro s hs
  unfold mDot
  cases h1 : mDotAlt1 s with
  | some n =>
    have := mDotAlt1_count s n h1
    have := hs.sublist.count_le '.'
    omega
  | none =>
    simp only
    have : mDotAlt2 s = none := by
      match s, hs with
      | [], _ | [_], _ | [_, _], _ | [_, _, _], _ | [_, _, _, _], _ => rfl
      | c1 :: c2 :: c3 :: p :: d :: rest, hs =>
        have hp : plainChar c1 = true := h c1 (mem_of_suffix hs (by simp))
        simp [mDotAlt2, plainChar_ne c1 'N' hp (by decide)]
    rw [this]

/-- every plain decimal token is a quiet token -/
theorem quietTok_of_simple (t : Str) (h : simplePlain t = true) : QuietTok t := by
  unfold simplePlain at h
  simp only [Bool.and_eq_true, Bool.not_eq_true', List.all_eq_true, decide_eq_true_eq] at h
  obtain ⟨⟨⟨h1, h2⟩, h3⟩, h4⟩ := h
  exact {
    ne := by intro e; subst e; simp at h1
    chars := fun c hc => plainChar_tokChar c (h2 c hc)
    comma := noMatch_comma_simple t h2
    hyphen := noMatch_hyphen_simple t h4
    dot := noMatch_dot_simple t h2 h3 }

/-! ## Part 3: the r × c matrix, plain data sections (domain of C02) -/

/-- the r × c matrix as typed columns: column j holds the j-th entry of every row -/
def matrixColumns (ft : FloatTable) (c : Nat) (rows : List (List Str)) : List Column :=
  (List.range c).map fun j => typedColumn ft (rows.map fun r => r.getD j [])

theorem matrixColumns_eq (ft : FloatTable) (c : Nat) (rows : List (List Str)) :
    matrixColumns ft c rows = (columnsOf c rows).map (typedColumn ft) := by
  simp [matrixColumns, columnsOf, columnOf]

/-- Normal engine, `n_columns = c`, flat token sequence = the row-major flattening of an r × c matrix (r ≥ 1, c ≥ 1):
the result is the c columns of the matrix, column j = the j-th entries of the rows. -/
theorem normalEngineLines_matrix (ft : FloatTable) (sb : Subs) (dlm : Dlm) (body : List Str) (rows : List (List Str)) (c : Nat)
    (hc : 0 < c) (hr : rows ≠ []) (hrows : ∀ r ∈ rows, r.length = c)
    (htoks : normalTokens sb dlm body = rows.flatten) :
    normalEngineLines ft sb dlm c body = .ok (matrixColumns ft c rows) := by
  unfold normalEngineLines
  simp only [htoks]
  have hlen := length_flatten_eq c rows hrows
  have hne : rows.flatten.isEmpty = false := by
    cases rows with
    | nil => exact absurd rfl hr
    | cons r rs =>
      have : r.length = c := hrows r (by simp)
      cases r with
      | nil => simp at this; omega
      | cons a t => rfl
  simp only [hne, Bool.false_eq_true, ↓reduceIte, hc, hlen, Nat.mul_mod_left, bne_self_eq_false]
  rw [reshape_flatten c hc rows hrows, matrixColumns_eq]

/-! ### the domain -/

/-- `Body c body rows`: the body lines are blank lines, comment lines and data lines of `c` quiet tokens; `rows` are the token
rows of the data lines in order -/
inductive Body (c : Nat) : List Str → List (List Str) → Prop
  | nil : Body c [] []
  | skip {ln : Str} {ls : List Str} {rows : List (List Str)} : SkipLine ln → Body c ls rows → Body c (ln :: ls) rows
  | row {ln : Str} {toks : List Str} {ls : List Str} {rows : List (List Str)} :
      RowLine toks ln → toks.length = c → Body c ls rows → Body c (ln :: ls) (toks :: rows)

structure PlainData (ft : FloatTable) (body after : List Str) (c : Nat) (rows : List (List Str)) : Prop where
  body : Body c body rows
  cpos : 0 < c
  rne : rows ≠ []
  /-- end of file, or a next line whose first token is not a number (a `~` title line) -/
  next : after = [] ∨ ∃ ln rest t ts, after = ln :: rest ∧ npTokens ln = t :: ts ∧ toFloat ft t = none

/-- every token is a number for `float()` -/
def Numeric (ft : FloatTable) (rows : List (List Str)) : Prop := ∀ r ∈ rows, ∀ t ∈ r, (toFloat ft t).isSome

/-! ### facts about bodies -/

theorem body_rows_len {c : Nat} {body : List Str} {rows : List (List Str)} (h : Body c body rows) :
    ∀ r ∈ rows, r.length = c := by
  induction h with
  | nil => simp
  | skip _ _ ih => exact ih
  | row _ hl _ ih => intro r hr; simp only [List.mem_cons] at hr; rcases hr with rfl | hr; exact hl; exact ih r hr

theorem body_length {c : Nat} {body : List Str} {rows : List (List Str)} (h : Body c body rows) :
    rows.length ≤ body.length := by
  induction h with
  | nil => simp
  | skip _ _ ih => simp; omega
  | row _ _ _ ih => simp; omega

theorem body_ne {c : Nat} {body : List Str} {rows : List (List Str)} (h : Body c body rows) (hr : rows ≠ []) : body ≠ [] := by
  intro e; subst e
  have := body_length h
  cases rows with
  | nil => exact hr rfl
  | cons r rs => simp at this

/-- the flat token sequence of the normal engine is the row-major flattening of the matrix -/
theorem body_normalTokens (sb : Subs) {c : Nat} {body : List Str} {rows : List (List Str)} (h : Body c body rows) :
    normalTokens sb .space body = rows.flatten := by
  induction h with
  | nil => rfl
  | skip hs _ ih =>
    simp only [normalTokens, List.flatMap_cons, lineTokens_skip sb .space hs, List.nil_append]
    exact ih
  | row hr _ _ ih =>
    simp only [normalTokens, List.flatMap_cons, lineTokens_row sb hr, List.flatten_cons]
    rw [← ih]; rfl

/-- the sniffer's sample: one entry per data line, each counting `c` items whatever substitutions are active -/
theorem body_sample {c : Nat} {body : List Str} {rows : List (List Str)} (h : Body c body rows) :
    (body.filterMap sampleLine).length = rows.length ∧
    ∀ l ∈ body.filterMap sampleLine, ∀ sb, (splitLine .space (applySubs sb l)).length = c := by
  induction h with
  | nil => simp
  | skip hs _ ih => simp only [List.filterMap_cons, sampleLine_skip hs]; exact ih
  | row hr hl _ ih =>
    obtain ⟨l, h1, h2⟩ := sampleLine_row hr
    simp only [List.filterMap_cons, h1, List.length_cons, List.mem_cons]
    refine ⟨by omega, ?_⟩
    intro x hx sb
    rcases hx with rfl | hx
    · rw [h2 sb, hl]
    · exact ih.2 x hx sb

theorem consistent_const (l : List Nat) (c : Nat) (hne : l ≠ []) (h : ∀ x ∈ l, x = c) : consistent l = some c := by
  cases l with
  | nil => exact absurd rfl hne
  | cons n rest =>
    have hn : n = c := h n (by simp)
    subst hn
    have : rest.all (· == n) = true := by
      rw [List.all_eq_true]; intro x hx; simp [h x (by simp [hx])]
    simp [consistent, this]

/-! ### the window -/

/-- what the two engines are given: the normal engine visits exactly the body; the numpy engine gets everything after the title
and `max_rows = |body|` -/
theorem window_plain (pre : List Str) (title : Str) (body after : List Str) :
    bodyLines (pre ++ title :: (body ++ after)) pre.length (pre.length + body.length) = body ∧
    (pre ++ title :: (body ++ after)).drop (pre.length + 1) = body ++ after ∧
    (pre.length + body.length) - pre.length = body.length := by
  have hd : (pre ++ title :: (body ++ after)).drop (pre.length + 1) = body ++ after := by
    rw [← List.drop_drop, List.drop_left]; rfl
  refine ⟨?_, hd, by omega⟩
  unfold bodyLines
  simp only [hd]
  have : pre.length + body.length - pre.length = body.length := by omega
  rw [this, List.take_left]

/-! ### the sniffer on plain data -/

theorem sniff_plain (sb : Subs) (pre : List Str) (title : Str) {body after : List Str} {c : Nat} {rows : List (List Str)}
    (h : Body c body rows) (hr : rows ≠ []) :
    (sniffColumns sb .space (pre ++ title :: (body ++ after)) pre.length (pre.length + body.length)).count = some c := by
  unfold sniffColumns
  simp only [(window_plain pre title body after).1]
  obtain ⟨hlen, hcnt⟩ := body_sample h
  apply consistent_const
  · intro e
    have : ((body.filterMap sampleLine).take 21).length = 0 := by
      have := congrArg List.length e
      simpa using this
    rw [List.length_take, hlen] at this
    cases rows with
    | nil => exact hr rfl
    | cons r rs => simp at this
  · intro x hx
    simp only [List.mem_map] at hx
    obtain ⟨l, hl, rfl⟩ := hx
    exact hcnt l (List.mem_of_mem_take hl) sb

theorem sniffTwice_plain (sb : Subs) (pre : List Str) (title : Str) {body after : List Str} {c : Nat} {rows : List (List Str)}
    (h : Body c body rows) (hr : rows ≠ []) :
    ∃ sb', sniffTwice sb .space (pre ++ title :: (body ++ after)) pre.length (pre.length + body.length) = (sb', some c) := by
  unfold sniffTwice
  simp only
  split
  · exact ⟨_, by rw [sniff_plain sb.dropHyphen pre title h hr]⟩
  · exact ⟨_, by rw [sniff_plain sb pre title h hr]⟩

/-! ### the numpy engine on plain data -/

theorem npCollect_skip (c b : Nat) (ln : Str) (rest : List Str) (h : npTokens ln = []) :
    npCollect c b (ln :: rest) = npCollect c b rest := by
  cases b with
  | zero => simp [npCollect]
  | succ b => simp [npCollect, h]

theorem npCollect_zero (c : Nat) (l : List Str) : npCollect c 0 l = some [] := by
  cases l <;> rfl

theorem npCollect_nil (c b : Nat) : npCollect c b [] = some [] := by
  cases b <;> rfl

/-- a line with tokens: an error, or one more row -/
theorem npCollect_next (c k : Nat) (ln : Str) (rest : List Str) (t : Str) (ts : List Str) (h : npTokens ln = t :: ts) :
    npCollect c (k + 1) (ln :: rest) = none ∨ ∃ rows2, npCollect c (k + 1) (ln :: rest) = some ((t :: ts) :: rows2) := by
  simp only [npCollect, h, List.isEmpty_cons, Bool.false_eq_true, ↓reduceIte]
  by_cases hl : ((t :: ts).length != c) = true
  · left; rw [if_pos hl]
  · rw [if_neg hl]
    cases npCollect c k rest with
    | none => left; rfl
    | some r => right; exact ⟨r, rfl⟩

/-- genfromtxt over the body: the rows, then it goes on with the remaining budget -/
theorem body_npCollect {c : Nat} (hc : 0 < c) {body : List Str} {rows : List (List Str)} (h : Body c body rows)
    (after : List Str) (k : Nat) :
    npCollect c (rows.length + k) (body ++ after) = (npCollect c k after).map (rows ++ ·) := by
  induction h with
  | nil => simp
  | skip hs _ ih => rw [List.cons_append, npCollect_skip _ _ _ _ (npTokens_skip hs)]; exact ih
  | @row ln toks ls rows' hr hl _ ih =>
    have e : (toks :: rows').length + k = (rows'.length + k) + 1 := by simp; omega
    rw [List.cons_append, e]
    have hne : toks.isEmpty = false := by
      cases toks with
      | nil => simp at hl; omega
      | cons _ _ => rfl
    simp only [npCollect, npTokens_row hr, hne, Bool.false_eq_true, ↓reduceIte, hl, bne_self_eq_false]
    rw [ih]
    cases npCollect c k after <;> simp

theorem body_npFirstCount {c : Nat} (hc : 0 < c) {body : List Str} {rows : List (List Str)} (h : Body c body rows)
    (hr : rows ≠ []) (after : List Str) : npFirstCount (body ++ after) = some c := by
  induction h with
  | nil => exact absurd rfl hr
  | skip hs _ ih => simp only [List.cons_append, npFirstCount, npTokens_skip hs]; exact ih hr
  | @row ln toks ls rows' hrow hl _ _ =>
    have hne : toks.isEmpty = false := by
      cases toks with
      | nil => simp at hl; omega
      | cons _ _ => rfl
    simp [npFirstCount, npTokens_row hrow, hne, hl]

/-- the numpy engine gives the matrix columns, or raises; it never gives anything else -/
theorem numpy_plain {ft : FloatTable} {body after : List Str} {c : Nat} {rows : List (List Str)} (h : PlainData ft body after c rows) :
    numpyEngineLines ft body.length (body ++ after) = some (matrixColumns ft c rows) ∨
    numpyEngineLines ft body.length (body ++ after) = none := by
  have hb := body_ne h.body h.rne
  have hm : ¬ body.length < 1 := by
    cases body with
    | nil => exact absurd rfl hb
    | cons _ _ => simp
  obtain ⟨k, hk⟩ : ∃ k, body.length = rows.length + k := ⟨body.length - rows.length, by have := body_length h.body; omega⟩
  unfold numpyEngineLines
  simp only [hm, ↓reduceIte, body_npFirstCount h.cpos h.body h.rne after]
  rw [hk, body_npCollect h.cpos h.body after k]
  have fin : ∀ rows2, allFloatCols ft (columnsOf c (rows ++ rows2)) = none ∨ rows2 = [] →
      (match (some (rows ++ rows2) : Option (List (List Str))) with
        | none => (none : Option (List Column))
        | some rws => allFloatCols ft (columnsOf c rws)) = some (matrixColumns ft c rows) ∨
      (match (some (rows ++ rows2) : Option (List (List Str))) with
        | none => (none : Option (List Column))
        | some rws => allFloatCols ft (columnsOf c rws)) = none := by
    intro rows2 h2
    simp only
    rcases h2 with h2 | rfl
    · exact Or.inr h2
    · simp only [List.append_nil]
      cases hall : allFloatCols ft (columnsOf c rows) with
      | none => exact Or.inr rfl
      | some out => left; rw [allFloatCols_eq ft _ out hall, matrixColumns_eq]
  cases k with
  | zero =>
    rw [npCollect_zero]
    exact fin [] (Or.inr rfl)
  | succ k =>
    rcases h.next with rfl | ⟨ln, rest, t, ts, rfl, htok, hnf⟩
    · rw [npCollect_nil]
      exact fin [] (Or.inr rfl)
    · rcases npCollect_next c k ln rest t ts htok with hx | ⟨rows2, hx⟩
      · rw [hx]; right; rfl
      · rw [hx]
        simp only [Option.map_some]
        apply fin
        left
        have hcol : columnOf (rows ++ (t :: ts) :: rows2) 0 ∈ columnsOf c (rows ++ (t :: ts) :: rows2) := by
          simp only [columnsOf, List.mem_map, List.mem_range]
          exact ⟨0, h.cpos, rfl⟩
        apply allFloatCols_none_of_mem ft _ _ t hcol _ hnf
        simp only [columnOf, List.mem_map]
        exact ⟨t :: ts, by simp, rfl⟩

/-- no blank/comment line in the body, or nothing after the window, and numeric tokens: genfromtxt succeeds -/
theorem numpy_plain_ok {ft : FloatTable} {body after : List Str} {c : Nat} {rows : List (List Str)} (h : PlainData ft body after c rows)
    (hnum : Numeric ft rows) (hpath : body.length = rows.length ∨ after = []) :
    numpyEngineLines ft body.length (body ++ after) = some (matrixColumns ft c rows) := by
  have hb := body_ne h.body h.rne
  have hm : ¬ body.length < 1 := by
    cases body with
    | nil => exact absurd rfl hb
    | cons _ _ => simp
  obtain ⟨k, hk⟩ : ∃ k, body.length = rows.length + k := ⟨body.length - rows.length, by have := body_length h.body; omega⟩
  have hcoll : npCollect c (rows.length + k) (body ++ after) = some rows := by
    rw [body_npCollect h.cpos h.body after k]
    rcases hpath with hp | rfl
    · have : k = 0 := by omega
      subst this; rw [npCollect_zero]; simp
    · rw [npCollect_nil]; simp
  unfold numpyEngineLines
  simp only [hm, ↓reduceIte, body_npFirstCount h.cpos h.body h.rne after]
  rw [hk, hcoll]
  simp only
  rw [matrixColumns_eq]
  apply allFloatCols_of_all
  intro col hcol t ht
  simp only [columnsOf, List.mem_map, List.mem_range] at hcol
  obtain ⟨j, hj, rfl⟩ := hcol
  simp only [columnOf, List.mem_map] at ht
  obtain ⟨r, hr', rfl⟩ := ht
  have hl := body_rows_len h.body r hr'
  have : r.getD j [] ∈ r := by
    rw [List.getD_eq_getElem?_getD, List.getElem?_eq_getElem (by omega)]
    simp
  exact hnum r hr' _ this

/-- a blank/comment line in the body and a following section: genfromtxt raises -/
theorem numpy_plain_raises {ft : FloatTable} {body after : List Str} {c : Nat} {rows : List (List Str)}
    (h : PlainData ft body after c rows) (hskip : rows.length < body.length) (hafter : after ≠ []) :
    numpyEngineLines ft body.length (body ++ after) = none := by
  have hm : ¬ body.length < 1 := by omega
  obtain ⟨k, hk⟩ : ∃ k, body.length = rows.length + (k + 1) := ⟨body.length - rows.length - 1, by omega⟩
  unfold numpyEngineLines
  simp only [hm, ↓reduceIte, body_npFirstCount h.cpos h.body h.rne after]
  rw [hk, body_npCollect h.cpos h.body after (k + 1)]
  rcases h.next with rfl | ⟨ln, rest, t, ts, rfl, htok, hnf⟩
  · exact absurd rfl hafter
  · rcases npCollect_next c k ln rest t ts htok with hx | ⟨rows2, hx⟩
    · rw [hx]; rfl
    · rw [hx]
      simp only [Option.map_some]
      have hcol : columnOf (rows ++ (t :: ts) :: rows2) 0 ∈ columnsOf c (rows ++ (t :: ts) :: rows2) := by
        simp only [columnsOf, List.mem_map, List.mem_range]
        exact ⟨0, h.cpos, rfl⟩
      apply allFloatCols_none_of_mem ft _ _ t hcol _ hnf
      simp only [columnOf, List.mem_map]
      exact ⟨t :: ts, by simp, rfl⟩

/-! ### the normal engine on plain data -/

theorem normal_plain (ft : FloatTable) (sb : Subs) {body : List Str} {c : Nat} {rows : List (List Str)}
    (h : Body c body rows) (hc : 0 < c) (hr : rows ≠ []) :
    normalEngineLines ft sb .space c body = .ok (matrixColumns ft c rows) :=
  normalEngineLines_matrix ft sb .space body rows c hc hr (body_rows_len h) (body_normalTokens sb h)

/-- the curves `readData` builds from the matrix -/
def plainResult (ft : FloatTable) (p : NullPolicy) (st : Steer) (d c : Nat) (rows : List (List Str)) : List (Slot × Column) :=
  assignCurves d (applyNull (p == .strict) st.nullValue (matrixColumns ft c rows))

theorem readerColumns_plain (st : Steer) (d c : Nat) (hw : st.wrapped ≠ yesTxt) : readerColumns st d (some c) = c := by
  have : (st.wrapped == yesTxt) = false := by simpa using hw
  simp [readerColumns, this]

/-! ### data sections without any data row (r = 0) -/

theorem body_of_skips (c : Nat) (body : List Str) (h : ∀ ln ∈ body, SkipLine ln) : Body c body [] := by
  induction body with
  | nil => exact Body.nil
  | cons ln ls ih => exact Body.skip (h ln (by simp)) (ih (fun l hl => h l (by simp [hl])))

theorem npFirstCount_skips (body after : List Str) (h : ∀ ln ∈ body, SkipLine ln) :
    npFirstCount (body ++ after) = npFirstCount after := by
  induction body with
  | nil => rfl
  | cons ln ls ih =>
    simp only [List.cons_append, npFirstCount, npTokens_skip (h ln (by simp))]
    exact ih (fun l hl => h l (by simp [hl]))

/-- the normal engine finds no items: no columns, whatever `n_columns` is -/
theorem normal_empty (ft : FloatTable) (sb : Subs) (n : Nat) (body : List Str) (h : ∀ ln ∈ body, SkipLine ln) :
    normalEngineLines ft sb .space n body = .ok [] := by
  unfold normalEngineLines
  rw [body_normalTokens sb (body_of_skips 1 body h)]
  simp

/-- genfromtxt on a section of blank/comment lines only: no columns, or an exception -/
theorem numpy_empty (ft : FloatTable) (body after : List Str) (h : ∀ ln ∈ body, SkipLine ln)
    (next : after = [] ∨ ∃ ln rest t ts, after = ln :: rest ∧ npTokens ln = t :: ts ∧ toFloat ft t = none) :
    numpyEngineLines ft body.length (body ++ after) = some [] ∨ numpyEngineLines ft body.length (body ++ after) = none := by
  unfold numpyEngineLines
  by_cases hm : body.length < 1
  · right; simp [hm]
  · simp only [hm, ↓reduceIte, npFirstCount_skips body after h]
    rcases next with rfl | ⟨ln, rest, t, ts, rfl, htok, hnf⟩
    · left; rfl
    · right
      have hfc : npFirstCount (ln :: rest) = some (t :: ts).length := by simp [npFirstCount, htok]
      rw [hfc]
      obtain ⟨k, hk⟩ : ∃ k, body.length = k + 1 := ⟨body.length - 1, by omega⟩
      have hcol : npCollect (t :: ts).length (k + 1) (body ++ ln :: rest) =
          (npCollect (t :: ts).length (k + 1) (ln :: rest)).map (([] : List (List Str)) ++ ·) := by
        have := body_npCollect (c := (t :: ts).length) (by simp) (body_of_skips _ body h) (ln :: rest) (k + 1)
        simpa using this
      simp only
      rw [hk, hcol]
      rcases npCollect_next (t :: ts).length k ln rest t ts htok with hx | ⟨rows2, hx⟩
      · rw [hx]; rfl
      · rw [hx]
        simp only [Option.map_some, List.nil_append]
        have hmem : columnOf ((t :: ts) :: rows2) 0 ∈ columnsOf (t :: ts).length ((t :: ts) :: rows2) := by
          simp only [columnsOf, List.mem_map, List.mem_range]
          exact ⟨0, by simp, rfl⟩
        apply allFloatCols_none_of_mem ft _ _ t hmem _ hnf
        simp [columnOf]

/-! ## Part 4: rectangular results, case analysis of `applyNullCol` -/

def Rect (cols : List Column) : Prop := ∃ L, ∀ c ∈ cols, c.length = L

theorem normalEngineLines_rect (ft : FloatTable) (sb : Subs) (dlm : Dlm) (n : Nat) (body : List Str) (cols : List Column)
    (h : normalEngineLines ft sb dlm n body = .ok cols) : Rect cols := by
  unfold normalEngineLines at h
  generalize normalTokens sb dlm body = toks at h
  by_cases he : toks.isEmpty = true
  · simp [he] at h; subst h; exact ⟨0, by simp⟩
  · simp only [he, Bool.false_eq_true, ↓reduceIte] at h
    split at h
    · split at h
      · simp at h
      · simp only [Except.ok.injEq] at h
        subst h
        refine ⟨(reshape n toks).length, ?_⟩
        intro c hc
        simp only [List.mem_map] at hc
        obtain ⟨col, hcol, rfl⟩ := hc
        rw [typedColumn_length]
        exact mem_columnsOf_length _ _ col hcol
    · simp at h

theorem numpyEngineLines_rect (ft : FloatTable) (maxRows : Nat) (rest : List Str) (cols : List Column)
    (h : numpyEngineLines ft maxRows rest = some cols) : Rect cols := by
  unfold numpyEngineLines at h
  split at h
  · simp at h
  · split at h
    · simp only [Option.some.injEq] at h; subst h
      exact ⟨0, by simp [Column.length]⟩
    · rename_i c _
      split at h
      · simp at h
      · rename_i rows _
        have := allFloatCols_eq ft _ cols h
        subst this
        refine ⟨rows.length, ?_⟩
        intro col hc
        simp only [List.mem_map] at hc
        obtain ⟨x, hx, rfl⟩ := hc
        rw [typedColumn_length]
        exact mem_columnsOf_length _ _ x hx

theorem assignCurves_rect (d : Nat) (cols : List Column) (h : Rect cols) :
    ∀ sc ∈ assignCurves d cols, sc.2.length = curveLength cols := by
  obtain ⟨L, hL⟩ := h
  intro sc hsc
  simp only [assignCurves, List.mem_append, List.mem_map] at hsc
  rcases hsc with hsc | ⟨j, _, rfl⟩
  · have hmem : sc.2 ∈ cols := by
      have : sc.2 ∈ (assignFrom d 0 cols).map Prod.snd := List.mem_map_of_mem hsc
      rwa [assignFrom_snd] at this
    cases cols with
    | nil => simp at hmem
    | cons c cs =>
      simp only [curveLength]
      rw [hL _ hmem, hL c (by simp)]
  · simp [nanColumn, Column.length]

theorem applyNullCol_floats_cases (u : Bool) (null : Option Str) (j : Nat) (cells : List Str) :
    applyNullCol u null j (.floats cells) = .floats cells ∨
      ∃ nv, null = some nv ∧ applyNullCol u null j (.floats cells) = .floats (nullCells nv cells) := by
  cases null with
  | none => left; exact applyNullCol_nonnumeric u j _
  | some nv =>
    by_cases h : (u && j != 0) = true
    · right; exact ⟨nv, rfl, by simp [applyNullCol, h]⟩
    · left; simp [applyNullCol, h]

/-! ## helpers for concrete examples -/

theorem quiet_digit (s : String) (h : simplePlain s.toList = true) : QuietTok s.toList := quietTok_of_simple _ h

theorem allWs_dec (s : Str) (h : s.all isPySpace = true) : AllWs s := by
  intro c hc; exact List.all_eq_true.mp h c hc

/-! ## the plain decimal grammar is inside `simplePlain` -/

/-- how many dots may still come -/
def pDots : PState → Nat
  | .start | .sign | .int => 1
  | _ => 0

/-- was the last character a digit -/
def pPrevDigit : PState → Bool
  | .int | .frac | .expDigits => true
  | _ => false

def ndh : Bool → Str → Bool
  | _, [] => true
  | pd, c :: cs => !(pd && c == '-') && ndh (isUDigit c) cs

theorem noDigitHyphen_eq_ndh (s : Str) : noDigitHyphen s = ndh false s := by
  have : ∀ (a : Char) (s : Str), noDigitHyphen (a :: s) = ndh (isUDigit a) s := by
    intro a s
    induction s generalizing a with
    | nil => rfl
    | cons b r ih => simp only [noDigitHyphen, ndh, ih]
  cases s with
  | nil => rfl
  | cons a r => simp [ndh, this]

theorem isDigit_isUDigit (c : Char) (h : isDigit c = true) : isUDigit c = true := by
  obtain ⟨a, b⟩ := isDigit_toNat c h
  unfold isUDigit
  simp only [Bool.or_eq_true, Bool.and_eq_true, decide_eq_true_eq]
  left; left; exact ⟨a, b⟩

theorem isDigit_ne (c d : Char) (h : isDigit c = true) (hd : isDigit d = false) : (c == d) = false := by
  rw [beq_eq_false_iff_ne]; intro e; subst e; simp [h] at hd

theorem charClass_facts (c : Char) :
    match charClass c with
    | .digit => plainChar c = true ∧ isUDigit c = true ∧ (c == '.') = false ∧ (c == '-') = false
    | .dot => plainChar c = true ∧ isUDigit c = false ∧ c = '.' ∧ (c == '-') = false
    | .e => plainChar c = true ∧ isUDigit c = false ∧ (c == '.') = false ∧ (c == '-') = false
    | .sg => plainChar c = true ∧ isUDigit c = false ∧ (c == '.') = false
    | .other => True := by
  unfold charClass
  by_cases h1 : isDigit c = true
  · simp only [h1, ↓reduceIte]
    exact ⟨by simp [plainChar, h1], isDigit_isUDigit c h1, isDigit_ne c '.' h1 (by decide), isDigit_ne c '-' h1 (by decide)⟩
  · simp only [h1, Bool.false_eq_true, ↓reduceIte]
    by_cases h2 : (c == '.') = true
    · simp only [h2, ↓reduceIte]
      have : c = '.' := by simpa using h2
      subst this
      exact ⟨by decide, by decide, rfl, by decide⟩
    · simp only [h2, Bool.false_eq_true, ↓reduceIte]
      by_cases h3 : (c == 'e' || c == 'E') = true
      · simp only [h3, ↓reduceIte]
        simp only [Bool.or_eq_true, beq_iff_eq] at h3
        rcases h3 with rfl | rfl <;> exact ⟨by decide, by decide, by decide, by decide⟩
      · simp only [h3, Bool.false_eq_true, ↓reduceIte]
        by_cases h4 : (c == '+' || c == '-') = true
        · simp only [h4, ↓reduceIte]
          simp only [Bool.or_eq_true, beq_iff_eq] at h4
          rcases h4 with rfl | rfl <;> exact ⟨by decide, by decide, by decide⟩
        · simp only [h4, Bool.false_eq_true, ↓reduceIte]

theorem pRun_inv (q : PState) (s : Str) (h : pRun q s = true) :
    (∀ c ∈ s, plainChar c = true) ∧ s.count '.' ≤ pDots q ∧ ndh (pPrevDigit q) s = true := by
  induction s generalizing q with
  | nil => simp [ndh]
  | cons c cs ih =>
    simp only [pRun] at h
    have hf := charClass_facts c
    cases hcl : charClass c <;> rw [hcl] at hf h <;> simp only at hf <;> cases q <;>
      simp only [pStep, Bool.false_eq_true] at h <;>
      (obtain ⟨i1, i2, i3⟩ := ih _ h
       simp only [pDots, pPrevDigit] at i2 i3 ⊢
       refine ⟨fun x hx => ?_, ?_, ?_⟩
       · simp only [List.mem_cons] at hx
         rcases hx with rfl | hx
         · exact hf.1
         · exact i1 x hx
       · first
         | (have : c = '.' := hf.2.2.1
            subst this
            simp only [List.count_cons_self]; omega)
         | (have hne : c ≠ '.' := by have := hf.2.2.1; simpa using this
            rw [List.count_cons_of_ne hne]; omega)
         | (have hne : c ≠ '.' := by have := hf.2.2; simpa using this
            rw [List.count_cons_of_ne hne]; omega)
       · simp only [ndh, hf.2.1, Bool.false_and, Bool.not_false, Bool.true_and]
         first
         | exact i3
         | (simp only [hf.2.2.2, Bool.not_false, Bool.true_and]; exact i3))

theorem simplePlain_of_grammar (t : Str) (h : isPlainDecimal t = true) : simplePlain t = true := by
  obtain ⟨h1, h2, h3⟩ := pRun_inv .start t h
  have hne : t.isEmpty = false := by
    cases t with
    | nil => simp [isPlainDecimal, pRun, pAccept] at h
    | cons _ _ => rfl
  unfold simplePlain
  simp only [hne, Bool.not_false, Bool.true_and, Bool.and_eq_true, List.all_eq_true, decide_eq_true_eq]
  exact ⟨⟨h1, h2⟩, by rw [noDigitHyphen_eq_ndh]; exact h3⟩

end Lasio.Dt
