import LasioModel.Data
/-
Helper lemmas for the data-section model (`LasioModel/Data.lean`), used by Props/C02, C06, C07.
Part 1: `applyNull`, reshape/transpose, column lengths, `assignCurves`.
Part 2: strings — trimming, the `re.sub` scanner, the splitters on "quiet" rows (used by C02).
-/
namespace Lasio.Dt

/-! ## applyNull -/

/-- cell `i` of column `j` when that column is a float column -/
def floatCell (cols : List Column) (j i : Nat) : Option Str :=
  match cols[j]? with
  | some (.floats cells) => cells[i]?
  | _ => none

theorem applyNullFrom_getElem? (u : Bool) (null : Option Str) (cols : List Column) (k j : Nat) :
    (applyNullFrom u null k cols)[j]? = (cols[j]?).map (applyNullCol u null (k + j)) := by
  induction cols generalizing k j with
  | nil => simp [applyNullFrom]
  | cons c cs ih =>
    cases j with
    | zero => simp [applyNullFrom]
    | succ j =>
      simp only [applyNullFrom, List.getElem?_cons_succ]
      rw [ih]
      congr 2
      omega

/-- the column at curve index `j` after `applyNull` is `applyNullCol … j` of the column at index `j` before -/
theorem applyNull_getElem? (u : Bool) (null : Option Str) (cols : List Column) (j : Nat) :
    (applyNull u null cols)[j]? = (cols[j]?).map (applyNullCol u null j) := by
  unfold applyNull
  rw [applyNullFrom_getElem?]
  simp

theorem applyNullCol_none (null : Option Str) (j : Nat) (c : Column) : applyNullCol false null j c = c := by
  unfold applyNullCol
  split <;> simp

theorem applyNullCol_zero (u : Bool) (null : Option Str) (c : Column) : applyNullCol u null 0 c = c := by
  unfold applyNullCol
  split <;> simp

theorem applyNullCol_text (u : Bool) (null : Option Str) (j : Nat) (cells : List Str) :
    applyNullCol u null j (.text cells) = .text cells := by
  unfold applyNullCol
  split <;> simp_all

theorem applyNullCol_nonnumeric (u : Bool) (j : Nat) (c : Column) : applyNullCol u none j c = c := by
  unfold applyNullCol
  split <;> simp_all

theorem applyNullCol_floats (nv : Str) (j : Nat) (hj : j ≠ 0) (cells : List Str) :
    applyNullCol true (some nv) j (.floats cells) = .floats (nullCells nv cells) := by
  simp [applyNullCol, hj]

theorem nullCells_getElem? (nv : Str) (cells : List Str) (i : Nat) :
    (nullCells nv cells)[i]? = (cells[i]?).map (fun v => if feq v nv then nanTxt else v) := by
  simp [nullCells]

/-- NaN is never `==` anything -/
theorem feq_nan (b : Str) : feq nanTxt b = false := by simp [feq]

theorem applyNullCol_length (u : Bool) (null : Option Str) (j : Nat) (c : Column) :
    (applyNullCol u null j c).length = c.length := by
  unfold applyNullCol
  split
  · split <;> simp [Column.length, nullCells]
  · rfl

theorem applyNullFrom_length (u : Bool) (null : Option Str) (cols : List Column) (k : Nat) :
    (applyNullFrom u null k cols).length = cols.length := by
  induction cols generalizing k with
  | nil => rfl
  | cons c cs ih => simp [applyNullFrom, ih]

theorem applyNull_length (u : Bool) (null : Option Str) (cols : List Column) :
    (applyNull u null cols).length = cols.length := applyNullFrom_length u null cols 0

/-- every column of the result has the length of the column it came from -/
theorem applyNull_mem_length (u : Bool) (null : Option Str) (cols : List Column) (L : Nat)
    (h : ∀ c ∈ cols, c.length = L) : ∀ c ∈ applyNull u null cols, c.length = L := by
  intro c hc
  obtain ⟨j, hj, rfl⟩ := List.getElem_of_mem hc
  have h1 := applyNull_getElem? u null cols j
  rw [List.getElem?_eq_getElem hj] at h1
  have hj' : j < cols.length := by rw [applyNull_length] at hj; exact hj
  rw [List.getElem?_eq_getElem hj'] at h1
  simp only [Option.map_some, Option.some.injEq] at h1
  rw [h1, applyNullCol_length]
  exact h _ (List.getElem_mem hj')

theorem curveLength_applyNull (u : Bool) (null : Option Str) (cols : List Column) :
    curveLength (applyNull u null cols) = curveLength cols := by
  cases cols with
  | nil => rfl
  | cons c cs => simp [applyNull, applyNullFrom, curveLength, applyNullCol_length]

/-! ## reshape / transpose -/

theorem chunk_nil {α} (c fuel : Nat) : chunk c fuel ([] : List α) = [] := by
  cases fuel <;> simp [chunk]

/-- chunking the concatenation of rows of length `c` back into rows gives the rows -/
theorem chunk_flatten {α} (c : Nat) (hc : 0 < c) (rows : List (List α)) (h : ∀ r ∈ rows, r.length = c)
    (fuel : Nat) (hf : rows.length ≤ fuel) : chunk c fuel rows.flatten = rows := by
  induction rows generalizing fuel with
  | nil => simp [chunk_nil]
  | cons r rs ih =>
    cases fuel with
    | zero => simp at hf
    | succ f =>
      have hr : r.length = c := h r (by simp)
      have hne : r ≠ [] := by intro e; rw [e] at hr; simp at hr; omega
      simp only [List.flatten_cons, chunk]
      have : (r ++ rs.flatten).isEmpty = false := by
        cases r with
        | nil => exact absurd rfl hne
        | cons a t => rfl
      rw [this]
      simp only [Bool.false_eq_true, ↓reduceIte]
      rw [List.take_left' hr, List.drop_left' hr]
      rw [ih (fun r' hr' => h r' (by simp [hr'])) f (by simp at hf; omega)]

theorem length_flatten_ge {α} (c : Nat) (hc : 0 < c) (rows : List (List α)) (h : ∀ r ∈ rows, r.length = c) :
    rows.length ≤ rows.flatten.length := by
  induction rows with
  | nil => simp
  | cons r rs ih =>
    have hr : r.length = c := h r (by simp)
    have := ih (fun r' hr' => h r' (by simp [hr']))
    simp only [List.flatten_cons, List.length_cons, List.length_append]
    omega

theorem length_flatten_eq {α} (c : Nat) (rows : List (List α)) (h : ∀ r ∈ rows, r.length = c) :
    rows.flatten.length = rows.length * c := by
  induction rows with
  | nil => simp
  | cons r rs ih =>
    have hr : r.length = c := h r (by simp)
    have := ih (fun r' hr' => h r' (by simp [hr']))
    simp only [List.flatten_cons, List.length_cons, List.length_append, this, hr]
    rw [Nat.add_mul]; omega

/-- `np.reshape(flat, (-1, c))` of the row-major flattening of an r × c matrix is the matrix -/
theorem reshape_flatten {α} (c : Nat) (hc : 0 < c) (rows : List (List α)) (h : ∀ r ∈ rows, r.length = c) :
    reshape c rows.flatten = rows :=
  chunk_flatten c hc rows h _ (length_flatten_ge c hc rows h)

/-- every row of a chunking has at most... exactly `c` cells when the length is divisible by `c` -/
theorem chunk_rows_length {α} (c : Nat) (fuel : Nat) (l : List α) (hd : l.length % c = 0) :
    ∀ r ∈ chunk c fuel l, r.length = c := by
  induction fuel generalizing l with
  | zero => simp [chunk]
  | succ f ih =>
    intro r hr
    simp only [chunk] at hr
    split at hr
    · simp at hr
    · rename_i hne
      have hl : c ≤ l.length := by
        cases l with
        | nil => simp at hne
        | cons a t =>
          have : 0 < (a :: t).length := by simp
          rcases Nat.lt_or_ge (a :: t).length c with hlt | hge
          · rw [Nat.mod_eq_of_lt hlt] at hd; omega
          · exact hge
      simp only [List.mem_cons] at hr
      rcases hr with rfl | hr
      · simp [List.length_take, Nat.min_eq_left hl]
      · apply ih (l.drop c) _ r hr
        rw [List.length_drop]
        have := Nat.sub_mod_eq_zero_of_mod_eq (m := l.length) (n := c) (k := c) (by simp [hd])
        simpa using this

theorem columnOf_length (rows : List (List Str)) (j : Nat) : (columnOf rows j).length = rows.length := by
  simp [columnOf]

theorem mem_columnsOf_length (c : Nat) (rows : List (List Str)) : ∀ col ∈ columnsOf c rows, col.length = rows.length := by
  intro col h
  simp only [columnsOf, List.mem_map] at h
  obtain ⟨j, _, rfl⟩ := h
  exact columnOf_length rows j

theorem columnsOf_length (c : Nat) (rows : List (List Str)) : (columnsOf c rows).length = c := by
  simp [columnsOf]

/-! ## typed columns -/

theorem floatCells_length (ft : FloatTable) (toks vs : List Str) (h : floatCells ft toks = some vs) :
    vs.length = toks.length := by
  induction toks generalizing vs with
  | nil => simp [floatCells] at h; subst h; rfl
  | cons t ts ih =>
    simp only [floatCells] at h
    split at h
    · rename_i v vs' _ h2
      simp at h; subst h
      simp [ih vs' h2]
    · simp at h

theorem typedColumn_length (ft : FloatTable) (toks : List Str) : (typedColumn ft toks).length = toks.length := by
  unfold typedColumn
  split
  · rename_i vs h; simp [Column.length, floatCells_length ft toks vs h]
  · rfl

/-- when every token converts, the cells are the converted tokens -/
theorem floatCells_of_all (ft : FloatTable) (toks : List Str) (h : ∀ t ∈ toks, (toFloat ft t).isSome) :
    ∃ vs, floatCells ft toks = some vs := by
  induction toks with
  | nil => exact ⟨[], rfl⟩
  | cons t ts ih =>
    obtain ⟨vs, hvs⟩ := ih (fun t' ht' => h t' (by simp [ht']))
    have ht := h t (by simp)
    cases hv : toFloat ft t with
    | none => simp [hv] at ht
    | some v => exact ⟨v :: vs, by simp [floatCells, hv, hvs]⟩

/-- a token that does not convert makes `floatCells` fail -/
theorem floatCells_none_of_mem (ft : FloatTable) (toks : List Str) (t : Str) (ht : t ∈ toks) (hn : toFloat ft t = none) :
    floatCells ft toks = none := by
  induction toks with
  | nil => simp at ht
  | cons a ts ih =>
    simp only [List.mem_cons] at ht
    simp only [floatCells]
    rcases ht with rfl | ht
    · simp [hn]
    · rw [ih ht]; split <;> simp_all

/-- `genfromtxt`'s all-float result is the typed columns, when it succeeds -/
theorem allFloatCols_eq (ft : FloatTable) (cols : List (List Str)) (out : List Column) (h : allFloatCols ft cols = some out) :
    out = cols.map (typedColumn ft) := by
  induction cols generalizing out with
  | nil => simp [allFloatCols] at h; subst h; rfl
  | cons col cs ih =>
    simp only [allFloatCols] at h
    split at h
    · rename_i vs r h1 h2
      simp at h; subst h
      simp [typedColumn, h1, ih r h2]
    · simp at h

theorem allFloatCols_of_all (ft : FloatTable) (cols : List (List Str)) (h : ∀ col ∈ cols, ∀ t ∈ col, (toFloat ft t).isSome) :
    allFloatCols ft cols = some (cols.map (typedColumn ft)) := by
  induction cols with
  | nil => rfl
  | cons col cs ih =>
    obtain ⟨vs, hvs⟩ := floatCells_of_all ft col (h col (by simp))
    have := ih (fun c hc => h c (by simp [hc]))
    simp [allFloatCols, hvs, this, typedColumn]

theorem allFloatCols_none_of_mem (ft : FloatTable) (cols : List (List Str)) (col : List Str) (t : Str)
    (hc : col ∈ cols) (ht : t ∈ col) (hn : toFloat ft t = none) : allFloatCols ft cols = none := by
  induction cols with
  | nil => simp at hc
  | cons a cs ih =>
    simp only [List.mem_cons] at hc
    simp only [allFloatCols]
    rcases hc with rfl | hc
    · rw [floatCells_none_of_mem ft col t ht hn]
    · rw [ih hc]; split <;> simp_all

/-! ## assignCurves -/

theorem assignFrom_length (d k : Nat) (cols : List Column) : (assignFrom d k cols).length = cols.length := by
  induction cols generalizing k with
  | nil => rfl
  | cons c cs ih => simp [assignFrom, ih]

theorem assignFrom_getElem? (d k j : Nat) (cols : List Column) :
    (assignFrom d k cols)[j]? = (cols[j]?).map fun c => ((if k + j < d then Slot.declared (k + j) else Slot.extra), c) := by
  induction cols generalizing k j with
  | nil => simp [assignFrom]
  | cons c cs ih =>
    cases j with
    | zero => simp [assignFrom]
    | succ j =>
      simp only [assignFrom, List.getElem?_cons_succ]
      rw [ih]
      have : k + 1 + j = k + (j + 1) := by omega
      rw [this]

theorem assignFrom_snd (d k : Nat) (cols : List Column) : (assignFrom d k cols).map Prod.snd = cols := by
  induction cols generalizing k with
  | nil => rfl
  | cons c cs ih => simp [assignFrom, ih]

/-! ## Part 2: strings -/

def AllWs (s : Str) : Prop := ∀ c ∈ s, isPySpace c = true

/-- empty, or starting with a whitespace character -/
def WsHead (s : Str) : Prop := s = [] ∨ ∃ w r, s = w :: r ∧ isPySpace w = true

theorem wsHead_of_allWs_append (a b : Str) (ha : AllWs a) (hne : a ≠ []) : WsHead (a ++ b) := by
  cases a with
  | nil => exact absurd rfl hne
  | cons w r => exact Or.inr ⟨w, r ++ b, rfl, ha w (by simp)⟩

theorem wsHead_allWs (a : Str) (ha : AllWs a) : WsHead a := by
  cases a with
  | nil => exact Or.inl rfl
  | cons w r => exact Or.inr ⟨w, r, rfl, ha w (by simp)⟩

/-! ### character classes -/

theorem ws_not_digit (c : Char) (h : isPySpace c = true) : isUDigit c = false := by
  unfold isPySpace at h
  unfold isUDigit
  simp only [Bool.or_eq_true, Bool.and_eq_true, decide_eq_true_eq, beq_iff_eq] at h
  simp only [Bool.or_eq_false_iff, Bool.and_eq_false_iff, decide_eq_false_iff_not]
  omega

theorem ws_ne (c d : Char) (h : isPySpace c = true) (hd : isPySpace d = false) : c ≠ d := by
  intro e; subst e; simp [h] at hd

theorem ws_beq (c d : Char) (h : isPySpace c = true) (hd : isPySpace d = false) : (c == d) = false := by
  simp [ws_ne c d h hd]

/-! ### takeWhile / dropWhile over an append that stops -/

theorem takeWhile_append_stop (p : Char → Bool) (a b : Str) (ha : ∀ x ∈ a, p x = true)
    (hb : b = [] ∨ ∃ w r, b = w :: r ∧ p w = false) : (a ++ b).takeWhile p = a := by
  induction a with
  | nil =>
    rcases hb with rfl | ⟨w, r, rfl, hw⟩
    · rfl
    · simp [hw]
  | cons x a ih =>
    have hx := ha x (by simp)
    simp only [List.cons_append, List.takeWhile, hx]
    rw [ih (fun y hy => ha y (by simp [hy]))]

theorem dropWhile_append_stop (p : Char → Bool) (a b : Str) (c : Char) (hc : p c = false) :
    (a ++ c :: b).dropWhile p = a.dropWhile p ++ c :: b := by
  induction a with
  | nil => simp [List.dropWhile, hc]
  | cons x a ih =>
    simp only [List.cons_append, List.dropWhile]
    cases p x <;> simp [ih]

theorem dropWhile_all (p : Char → Bool) (a : Str) (ha : ∀ x ∈ a, p x = true) : a.dropWhile p = [] := by
  induction a with
  | nil => rfl
  | cons x a ih => simp [List.dropWhile, ha x (by simp), ih (fun y hy => ha y (by simp [hy]))]

/-! ### trimming -/

def trimR (p : Char → Bool) (s : Str) : Str := (s.reverse.dropWhile p).reverse
def trimBoth (p : Char → Bool) (s : Str) : Str := trimR p (s.dropWhile p)

theorem strip_eq_trimBoth (s : Str) : strip s = trimBoth isPySpace s := rfl
theorem stripChar_eq_trimBoth (ch : Char) (s : Str) : stripChar ch s = trimBoth (· == ch) s := rfl

theorem trimR_append_stop (p : Char → Bool) (a b : Str) (c : Char) (hc : p c = false) :
    trimR p (a ++ c :: b) = a ++ c :: trimR p b := by
  unfold trimR
  rw [List.reverse_append, List.reverse_cons, List.append_assoc]
  simp only [List.singleton_append]
  rw [dropWhile_append_stop p b.reverse a.reverse c hc]
  simp

theorem trimR_all (p : Char → Bool) (a : Str) (ha : ∀ x ∈ a, p x = true) : trimR p a = [] := by
  unfold trimR
  rw [dropWhile_all p a.reverse (fun x hx => ha x (by simpa using hx))]
  rfl

theorem mem_trimR (p : Char → Bool) (s : Str) (x : Char) (h : x ∈ trimR p s) : x ∈ s := by
  unfold trimR at h
  have := (List.dropWhile_suffix p (l := s.reverse)).subset (by simpa using h)
  simpa using this

theorem mem_trimBoth (p : Char → Bool) (s : Str) (x : Char) (h : x ∈ trimBoth p s) : x ∈ s :=
  (List.dropWhile_suffix p).subset (mem_trimR p _ x h)

theorem allWs_dropWhile (p : Char → Bool) (s : Str) (h : AllWs s) : AllWs (s.dropWhile p) :=
  fun c hc => h c ((List.dropWhile_suffix p).subset hc)

theorem allWs_trimR (p : Char → Bool) (s : Str) (h : AllWs s) : AllWs (trimR p s) :=
  fun c hc => h c (mem_trimR p s c hc)

/-- a string with a non-blank first and a non-blank last character -/
structure Solid (m : Str) : Prop where
  head : ∃ h tl, m = h :: tl ∧ isPySpace h = false
  last : ∃ ini z, m = ini ++ [z] ∧ isPySpace z = false

/-- trimming a class of blanks around a solid string leaves blanks around it -/
theorem trimBoth_sandwich (p : Char → Bool) (hp : ∀ x, p x = true → isPySpace x = true) (pre m post : Str)
    (hpre : AllWs pre) (hpost : AllWs post) (hm : Solid m) :
    ∃ pre' post', AllWs pre' ∧ AllWs post' ∧ trimBoth p (pre ++ (m ++ post)) = pre' ++ (m ++ post') := by
  obtain ⟨h, tl, hm1, hh⟩ := hm.head
  obtain ⟨ini, z, hm2, hz⟩ := hm.last
  have ph : p h = false := by
    cases hph : p h with
    | false => rfl
    | true => rw [hp h hph] at hh; simp at hh
  have pz : p z = false := by
    cases hpz : p z with
    | false => rfl
    | true => rw [hp z hpz] at hz; simp at hz
  refine ⟨pre.dropWhile p, trimR p post, allWs_dropWhile p pre hpre, allWs_trimR p post hpost, ?_⟩
  unfold trimBoth
  have e1 : (pre ++ (m ++ post)).dropWhile p = pre.dropWhile p ++ (m ++ post) := by
    rw [hm1]; simp only [List.cons_append]
    exact dropWhile_append_stop p pre (tl ++ post) h ph
  rw [e1]
  have e2 : pre.dropWhile p ++ (m ++ post) = (pre.dropWhile p ++ ini) ++ z :: post := by
    rw [hm2]; simp
  rw [e2, trimR_append_stop p _ post z pz]
  rw [hm2]; simp

/-- `strip` of blanks ++ solid ++ blanks is the solid part -/
theorem strip_sandwich (pre m post : Str) (hpre : AllWs pre) (hpost : AllWs post) (hm : Solid m) :
    strip (pre ++ (m ++ post)) = m := by
  obtain ⟨h, tl, hm1, hh⟩ := hm.head
  obtain ⟨ini, z, hm2, hz⟩ := hm.last
  rw [strip_eq_trimBoth]
  unfold trimBoth
  have e1 : (pre ++ (m ++ post)).dropWhile isPySpace = m ++ post := by
    rw [hm1]; simp only [List.cons_append]
    rw [dropWhile_append_stop isPySpace pre (tl ++ post) h hh, dropWhile_all isPySpace pre hpre]
    rfl
  rw [e1]
  have e2 : m ++ post = ini ++ z :: post := by rw [hm2]; simp
  rw [e2, trimR_append_stop isPySpace ini post z hz, trimR_all isPySpace post hpost, hm2]

theorem nl_is_ws (x : Char) (h : (x == '\n') = true) : isPySpace x = true := by
  simp only [beq_iff_eq] at h; subst h; decide

/-- `line.strip("\n").strip()` of blanks ++ solid ++ blanks -/
theorem cleanLine_sandwich (pre m post : Str) (hpre : AllWs pre) (hpost : AllWs post) (hm : Solid m) :
    cleanLine (pre ++ (m ++ post)) = m := by
  unfold cleanLine
  rw [stripChar_eq_trimBoth]
  obtain ⟨pre', post', h1, h2, h3⟩ := trimBoth_sandwich (· == '\n') nl_is_ws pre m post hpre hpost hm
  rw [h3]
  exact strip_sandwich pre' m post' h1 h2 hm

/-- a blank line cleans to the empty string -/
theorem cleanLine_blank (ln : Str) (h : AllWs ln) : cleanLine ln = [] := by
  unfold cleanLine
  rw [stripChar_eq_trimBoth, strip_eq_trimBoth]
  have h1 : AllWs (trimBoth (· == '\n') ln) := fun c hc => h c (mem_trimBoth _ ln c hc)
  unfold trimBoth at *
  rw [dropWhile_all isPySpace _ h1]
  rfl

/-- a comment line cleans to a string starting with `#` -/
theorem cleanLine_comment (pre rest : Str) (hpre : AllWs pre) :
    ∃ r, cleanLine (pre ++ '#' :: rest) = '#' :: r := by
  unfold cleanLine
  rw [stripChar_eq_trimBoth, strip_eq_trimBoth]
  have hn : ('#' == '\n') = false := by decide
  have hw : isPySpace '#' = false := by decide
  have e1 : trimBoth (· == '\n') (pre ++ '#' :: rest) =
      pre.dropWhile (· == '\n') ++ '#' :: trimR (· == '\n') rest := by
    unfold trimBoth
    rw [dropWhile_append_stop (· == '\n') pre rest '#' hn, trimR_append_stop (· == '\n') _ rest '#' hn]
  rw [e1]
  refine ⟨trimR isPySpace (trimR (· == '\n') rest), ?_⟩
  unfold trimBoth
  rw [dropWhile_append_stop isPySpace _ _ '#' hw,
    dropWhile_all isPySpace _ (allWs_dropWhile _ pre hpre)]
  simp only [List.nil_append]
  exact trimR_append_stop isPySpace [] _ '#' hw



/-! ### the `re.sub` scanner finds nothing -/

/-- the pattern matches at no position of `l` -/
def NoMatch (m : Str → Option (Str × Nat)) (l : Str) : Prop := ∀ s, s <:+ l → m s = none

theorem reSub_id (m : Str → Option (Str × Nat)) (l : Str) (h : NoMatch m l) : reSub m 0 l = l := by
  induction l with
  | nil => rfl
  | cons c cs ih =>
    have h0 : m (c :: cs) = none := h _ List.suffix_rfl
    simp only [reSub, h0]
    rw [ih (fun s hs => h s (hs.trans (List.suffix_cons c cs)))]

/-- the verdict of the matcher does not look beyond the first blank -/
def Local (m : Str → Option (Str × Nat)) : Prop := ∀ x tail, WsHead tail → m (x ++ tail) = m x

theorem noMatch_nil (m : Str → Option (Str × Nat)) (h : m [] = none) : NoMatch m [] := by
  intro s hs
  have : s = [] := by simpa using hs
  rw [this, h]

theorem noMatch_append (m : Str → Option (Str × Nat)) (hl : Local m) (t tail : Str) (ht : NoMatch m t)
    (htail : NoMatch m tail) (hw : WsHead tail) : NoMatch m (t ++ tail) := by
  induction t with
  | nil => simpa using htail
  | cons c cs ih =>
    intro s hs
    rw [List.cons_append, List.suffix_cons_iff] at hs
    rcases hs with rfl | hs
    · rw [← List.cons_append, hl (c :: cs) tail hw]
      exact ht _ List.suffix_rfl
    · exact ih (fun s' hs' => ht s' (hs'.trans (List.suffix_cons c cs))) s hs

theorem noMatch_ws_cons (m : Str → Option (Str × Nat)) (hws : ∀ w r, isPySpace w = true → m (w :: r) = none)
    (w : Char) (r : Str) (hw : isPySpace w = true) (hr : NoMatch m r) : NoMatch m (w :: r) := by
  intro s hs
  rw [List.suffix_cons_iff] at hs
  rcases hs with rfl | hs
  · exact hws w r hw
  · exact hr s hs

theorem noMatch_allWs_append (m : Str → Option (Str × Nat)) (hws : ∀ w r, isPySpace w = true → m (w :: r) = none)
    (a r : Str) (ha : AllWs a) (hr : NoMatch m r) : NoMatch m (a ++ r) := by
  induction a with
  | nil => simpa using hr
  | cons w a ih =>
    exact noMatch_ws_cons m hws w (a ++ r) (ha w (by simp)) (ih (fun c hc => ha c (by simp [hc])))

/-! ### the three matchers are local and never start on a blank -/

theorem mComma_ws (w : Char) (r : Str) (hw : isPySpace w = true) : mComma (w :: r) = none := by
  have := ws_not_digit w hw
  match r with
  | [] => rfl
  | [_] => rfl
  | _ :: _ :: _ => simp [mComma, this]

theorem mHyphen_ws (w : Char) (r : Str) (hw : isPySpace w = true) : mHyphen (w :: r) = none := by
  have := ws_not_digit w hw
  match r with
  | [] => rfl
  | [_] => rfl
  | _ :: _ :: _ => simp [mHyphen, this]

theorem mComma_local : Local mComma := by
  intro x tail hw
  match x with
  | [] =>
    rcases hw with rfl | ⟨w, r, rfl, hw⟩
    · rfl
    · simpa [mComma] using mComma_ws w r hw
  | [a] =>
    rcases hw with rfl | ⟨w, r, rfl, hw⟩
    · rfl
    · have : (w == ',') = false := ws_beq w ',' hw (by decide)
      match r with
      | [] => rfl
      | _ :: _ => simp [mComma, this]
  | [a, p] =>
    rcases hw with rfl | ⟨w, r, rfl, hw⟩
    · rfl
    · simp [mComma, ws_not_digit w hw]
  | _ :: _ :: _ :: _ => rfl

theorem mHyphen_local : Local mHyphen := by
  intro x tail hw
  match x with
  | [] =>
    rcases hw with rfl | ⟨w, r, rfl, hw⟩
    · rfl
    · simpa [mHyphen] using mHyphen_ws w r hw
  | [a] =>
    rcases hw with rfl | ⟨w, r, rfl, hw⟩
    · rfl
    · have : (w == '-') = false := ws_beq w '-' hw (by decide)
      match r with
      | [] => rfl
      | _ :: _ => simp [mHyphen, this]
  | [a, p] =>
    rcases hw with rfl | ⟨w, r, rfl, hw⟩
    · rfl
    · simp [mHyphen, ws_not_digit w hw]
  | _ :: _ :: _ :: _ => rfl

theorem digitsThenDot_wsHead (tail : Str) (hw : WsHead tail) : digitsThenDot tail = none := by
  rcases hw with rfl | ⟨w, r, rfl, hw⟩
  · rfl
  · simp [digitsThenDot, ws_beq w '.' hw (by decide), ws_not_digit w hw]

theorem digitsThenDot_local (x tail : Str) (hw : WsHead tail) :
    digitsThenDot (x ++ tail) = (digitsThenDot x).map (fun nr => (nr.1, nr.2 ++ tail)) := by
  induction x with
  | nil => simp [digitsThenDot_wsHead tail hw, digitsThenDot]
  | cons c cs ih =>
    simp only [List.cons_append, digitsThenDot]
    split
    · rfl
    · split
      · rw [ih]; cases digitsThenDot cs <;> simp
      · rfl

theorem takeWhile_digit_local (x tail : Str) (hw : WsHead tail) :
    (x ++ tail).takeWhile isUDigit = x.takeWhile isUDigit := by
  induction x with
  | nil =>
    rcases hw with rfl | ⟨w, r, rfl, hw⟩
    · rfl
    · simp [ws_not_digit w hw]
  | cons c cs ih =>
    simp only [List.cons_append, List.takeWhile]
    cases isUDigit c <;> simp [ih]

theorem dotTail_local (neg : Nat) (x tail : Str) (hw : WsHead tail) : dotTail neg (x ++ tail) = dotTail neg x := by
  unfold dotTail
  rw [digitsThenDot_local _ tail hw]
  cases h1 : digitsThenDot x with
  | none => rfl
  | some nr =>
    simp only [Option.map_some]
    rw [digitsThenDot_local _ tail hw]
    cases h2 : digitsThenDot nr.2 with
    | none => rfl
    | some nr2 =>
      simp only [Option.map_some]
      rw [takeWhile_digit_local _ tail hw]

theorem mDotAlt1_local (x tail : Str) (hw : WsHead tail) : mDotAlt1 (x ++ tail) = mDotAlt1 x := by
  cases x with
  | nil =>
    rcases hw with rfl | ⟨w, r, rfl, hw'⟩
    · rfl
    · simp only [List.nil_append, mDotAlt1, ws_beq w '-' hw' (by decide), Bool.false_eq_true, ↓reduceIte]
      unfold dotTail
      rw [digitsThenDot_wsHead (w :: r) (Or.inr ⟨w, r, rfl, hw'⟩)]
  | cons c cs =>
    simp only [List.cons_append, mDotAlt1]
    split
    · exact dotTail_local 1 cs tail hw
    · exact dotTail_local 0 (c :: cs) tail hw

theorem mDotAlt2_local (x tail : Str) (hw : WsHead tail) : mDotAlt2 (x ++ tail) = mDotAlt2 x := by
  match x with
  | c1 :: c2 :: c3 :: p :: d :: rest =>
    simp only [List.cons_append, mDotAlt2, takeWhile_digit_local rest tail hw]
  | [] =>
    rcases hw with rfl | ⟨w, r, rfl, hw⟩
    · rfl
    · have : (w == 'N') = false := ws_beq w 'N' hw (by decide)
      match r with
      | [] | [_] | [_, _] | [_, _, _] => rfl
      | _ :: _ :: _ :: _ :: _ => simp [mDotAlt2, this]
  | [c1] =>
    rcases hw with rfl | ⟨w, r, rfl, hw⟩
    · rfl
    · have : (w == 'a') = false := ws_beq w 'a' hw (by decide)
      match r with
      | [] | [_] | [_, _] => rfl
      | _ :: _ :: _ :: _ => simp [mDotAlt2, this]
  | [c1, c2] =>
    rcases hw with rfl | ⟨w, r, rfl, hw⟩
    · rfl
    · have : (w == 'N') = false := ws_beq w 'N' hw (by decide)
      match r with
      | [] | [_] => rfl
      | _ :: _ :: _ => simp [mDotAlt2, this]
  | [c1, c2, c3] =>
    rcases hw with rfl | ⟨w, r, rfl, hw⟩
    · rfl
    · have h1 : (w == '.') = false := ws_beq w '.' hw (by decide)
      have h2 : (w == '-') = false := ws_beq w '-' hw (by decide)
      match r with
      | [] => rfl
      | _ :: _ => simp [mDotAlt2, h1, h2]
  | [c1, c2, c3, p] =>
    rcases hw with rfl | ⟨w, r, rfl, hw⟩
    · rfl
    · simp [mDotAlt2, ws_not_digit w hw]

theorem mDot_local : Local mDot := by
  intro x tail hw
  unfold mDot
  rw [mDotAlt1_local x tail hw, mDotAlt2_local x tail hw]

theorem mDot_ws (w : Char) (r : Str) (hw : isPySpace w = true) : mDot (w :: r) = none := by
  have h := mDot_local [] (w :: r) (Or.inr ⟨w, r, rfl, hw⟩)
  simp only [List.nil_append] at h
  rw [h]; rfl



/-! ### the `findall` scanner on blank-separated tokens -/

theorem scanTok_skip (m : Str → Option (Str × Nat)) (a b : Str) : scanTok m a.length (a ++ b) = scanTok m 0 b := by
  induction a with
  | nil => rfl
  | cons x a ih => simpa [scanTok] using ih

theorem scanTok_allWs (m : Str → Option (Str × Nat)) (hws : ∀ w r, isPySpace w = true → m (w :: r) = none)
    (a r : Str) (ha : AllWs a) : scanTok m 0 (a ++ r) = scanTok m 0 r := by
  induction a with
  | nil => rfl
  | cons w a ih =>
    simp only [List.cons_append, scanTok, hws w (a ++ r) (ha w (by simp))]
    exact ih (fun c hc => ha c (by simp [hc]))

/-- characters a data token is made of: no blank, no quote, no `#`, no ctrl-Z -/
def tokChar (c : Char) : Bool := !isPySpace c && c != '"' && c != '\'' && c != '#' && c != ctrlZ

/-- the matcher takes a whole token when a blank (or the end) follows -/
def TakesToken (m : Str → Option (Str × Nat)) : Prop :=
  ∀ c t tail, (∀ x ∈ c :: t, tokChar x = true) → WsHead tail → m (c :: t ++ tail) = some (c :: t, t.length)

theorem tokChar_parts (c : Char) (h : tokChar c = true) :
    isPySpace c = false ∧ (c == '"') = false ∧ (c == '\'') = false ∧ (c == '#') = false ∧ (c == ctrlZ) = false := by
  unfold tokChar at h
  simp only [Bool.and_eq_true, Bool.not_eq_true', bne_iff_ne, ne_eq] at h
  simp [h]

theorem ws_not_quote (w : Char) (hw : isPySpace w = true) : (w == '"') = false ∧ (w == '\'') = false :=
  ⟨ws_beq w '"' hw (by decide), ws_beq w '\'' hw (by decide)⟩

theorem mSplit_ws (w : Char) (r : Str) (hw : isPySpace w = true) : mSplit isPySpace (w :: r) = none := by
  simp [mSplit, ws_not_quote w hw, hw]

theorem mWord_ws (w : Char) (r : Str) (hw : isPySpace w = true) : mWord (w :: r) = none := by
  simp [mWord, hw]

theorem mSplit_takes : TakesToken (mSplit isPySpace) := by
  intro c t tail hc hw
  obtain ⟨h1, h2, h3, _, _⟩ := tokChar_parts c (hc c (by simp))
  simp only [List.cons_append, mSplit, h2, h3, Bool.or_self, Bool.false_eq_true, ↓reduceIte, h1]
  have : (t ++ tail).takeWhile (fun x => !(isPySpace x || x == '"' || x == '\'')) = t := by
    apply takeWhile_append_stop
    · intro x hx
      obtain ⟨a1, a2, a3, _, _⟩ := tokChar_parts x (hc x (by simp [hx]))
      simp [a1, a2, a3]
    · rcases hw with rfl | ⟨w, r, rfl, hw⟩
      · exact Or.inl rfl
      · exact Or.inr ⟨w, r, rfl, by simp [hw]⟩
  rw [this]

theorem mWord_takes : TakesToken mWord := by
  intro c t tail hc hw
  obtain ⟨h1, _, _, _, _⟩ := tokChar_parts c (hc c (by simp))
  simp only [List.cons_append, mWord, h1, Bool.false_eq_true, ↓reduceIte]
  have : (t ++ tail).takeWhile (fun x => !isPySpace x) = t := by
    apply takeWhile_append_stop
    · intro x hx
      obtain ⟨a1, _, _, _, _⟩ := tokChar_parts x (hc x (by simp [hx]))
      simp [a1]
    · rcases hw with rfl | ⟨w, r, rfl, hw⟩
      · exact Or.inl rfl
      · exact Or.inr ⟨w, r, rfl, by simp [hw]⟩
  rw [this]

/-! ### quiet tokens and rows -/

/-- A token on which no read substitution fires and that contains no blank, quote, `#` or ctrl-Z.
Every plain decimal number is one (`quietTok_of_simple`); so are most words. -/
structure QuietTok (t : Str) : Prop where
  ne : t ≠ []
  chars : ∀ c ∈ t, tokChar c = true
  comma : NoMatch mComma t
  hyphen : NoMatch mHyphen t
  dot : NoMatch mDot t

/-- `Core toks s`: `s` is the tokens `toks` (at least one) separated by non-empty runs of blanks -/
inductive Core : List Str → Str → Prop
  | one {t : Str} : QuietTok t → Core [t] t
  | cons {t sep rest : Str} {ts : List Str} :
      QuietTok t → sep ≠ [] → AllWs sep → Core ts rest → Core (t :: ts) (t ++ (sep ++ rest))

theorem quietTok_solid (t : Str) (h : QuietTok t) : Solid t := by
  constructor
  · cases t with
    | nil => exact absurd rfl h.ne
    | cons c cs => exact ⟨c, cs, rfl, (tokChar_parts c (h.chars c (by simp))).1⟩
  · have := List.eq_nil_or_concat t
    rcases this with e | ⟨ini, z, e⟩
    · exact absurd e h.ne
    · exact ⟨ini, z, by simpa using e, (tokChar_parts z (h.chars z (by simp [e]))).1⟩

theorem core_solid {toks : List Str} {s : Str} (h : Core toks s) : Solid s := by
  induction h with
  | one ht => exact quietTok_solid _ ht
  | @cons t sep rest ts ht _ _ _ ih =>
    constructor
    · obtain ⟨c, cs, e, hc⟩ := (quietTok_solid _ ht).head
      exact ⟨c, cs ++ (sep ++ rest), by rw [e]; rfl, hc⟩
    · obtain ⟨ini, z, e, hz⟩ := ih.last
      exact ⟨t ++ (sep ++ ini), z, by rw [e]; simp, hz⟩

theorem core_head_tok {toks : List Str} {s : Str} (h : Core toks s) : ∃ c cs, s = c :: cs ∧ tokChar c = true := by
  cases h with
  | one ht =>
    cases s with
    | nil => exact absurd rfl ht.ne
    | cons c cs => exact ⟨c, cs, rfl, ht.chars c (by simp)⟩
  | @cons t sep rest ts ht _ _ _ =>
    cases t with
    | nil => exact absurd rfl ht.ne
    | cons c cs => exact ⟨c, cs ++ _, rfl, ht.chars c (by simp)⟩

theorem ws_ne_hash (w : Char) (hw : isPySpace w = true) : (w == '#') = false := ws_beq w '#' hw (by decide)
theorem ws_ne_ctrlZ (w : Char) (hw : isPySpace w = true) : (w == ctrlZ) = false := ws_beq w ctrlZ hw (by decide)

/-- no `#` and no ctrl-Z anywhere in a row -/
theorem core_chars {toks : List Str} {s : Str} (h : Core toks s) : ∀ c ∈ s, (c == '#') = false ∧ (c == ctrlZ) = false := by
  induction h with
  | one ht => intro c hc; have := tokChar_parts c (ht.chars c hc); exact ⟨this.2.2.2.1, this.2.2.2.2⟩
  | cons ht _ hsep _ ih =>
    intro c hc
    simp only [List.mem_append] at hc
    rcases hc with hc | hc | hc
    · have := tokChar_parts c (ht.chars c hc); exact ⟨this.2.2.2.1, this.2.2.2.2⟩
    · exact ⟨ws_ne_hash c (hsep c hc), ws_ne_ctrlZ c (hsep c hc)⟩
    · exact ih c hc

theorem core_noMatch (m : Str → Option (Str × Nat)) (hl : Local m) (hws : ∀ w r, isPySpace w = true → m (w :: r) = none)
    (hq : ∀ t, QuietTok t → NoMatch m t) {toks : List Str} {s : Str} (h : Core toks s) : NoMatch m s := by
  induction h with
  | one ht => exact hq _ ht
  | cons ht hne hsep _ ih =>
    apply noMatch_append m hl _ _ (hq _ ht)
    · exact noMatch_allWs_append m hws _ _ hsep ih
    · exact wsHead_of_allWs_append _ _ hsep hne

/-- the read substitutions are the identity on a row of quiet tokens, whichever of them are active -/
theorem applySubs_core (sb : Subs) {toks : List Str} {s : Str} (h : Core toks s) : applySubs sb s = s := by
  have h1 : subCommaDecimal s = s :=
    reSub_id _ _ (core_noMatch mComma mComma_local mComma_ws (fun _ ht => ht.comma) h)
  have h2 : subRunOnHyphen s = s :=
    reSub_id _ _ (core_noMatch mHyphen mHyphen_local mHyphen_ws (fun _ ht => ht.hyphen) h)
  have h3 : subRunOnDot s = s :=
    reSub_id _ _ (core_noMatch mDot mDot_local mDot_ws (fun _ ht => ht.dot) h)
  unfold applySubs
  cases sb with
  | mk c hy d => cases c <;> cases hy <;> cases d <;> simp [h1, h2, h3]

/-- scanning a row (followed by blanks) gives its tokens -/
theorem scanTok_core (m : Str → Option (Str × Nat)) (hws : ∀ w r, isPySpace w = true → m (w :: r) = none)
    (htk : TakesToken m) {toks : List Str} {s : Str} (h : Core toks s) (post : Str) (hpost : AllWs post) :
    scanTok m 0 (s ++ post) = toks := by
  induction h with
  | @one t ht =>
    cases t with
    | nil => exact absurd rfl ht.ne
    | cons c cs =>
      have hm := htk c cs post ht.chars (wsHead_allWs post hpost)
      simp only [List.cons_append] at hm ⊢
      simp only [scanTok, hm]
      rw [scanTok_skip m cs post]
      have := scanTok_allWs m hws post [] hpost
      simp only [List.append_nil] at this
      rw [this]; rfl
  | @cons t sep rest ts ht hne hsep _ ih =>
    cases t with
    | nil => exact absurd rfl ht.ne
    | cons c cs =>
      have hm := htk c cs (sep ++ (rest ++ post)) ht.chars (wsHead_of_allWs_append _ _ hsep hne)
      have e : (c :: cs ++ (sep ++ rest)) ++ post = c :: (cs ++ (sep ++ (rest ++ post))) := by simp
      rw [e]
      simp only [List.cons_append] at hm
      simp only [scanTok, hm]
      rw [scanTok_skip m cs _, scanTok_allWs m hws sep _ hsep, ih]

theorem filter_ctrlZ_core {toks : List Str} {s : Str} (h : Core toks s) : s.filter (· != ctrlZ) = s := by
  rw [List.filter_eq_self]
  intro c hc
  have := (core_chars h c hc).2
  simpa using this

/-! ### lines of the body -/

/-- a data line: optional blanks, the tokens `toks` separated by blanks, optional blanks (the line end `\n` / `\r\n` included) -/
def RowLine (toks : List Str) (ln : Str) : Prop :=
  ∃ pre core post, AllWs pre ∧ AllWs post ∧ Core toks core ∧ ln = pre ++ (core ++ post)

/-- a blank line or a `#` comment line -/
def SkipLine (ln : Str) : Prop := AllWs ln ∨ ∃ pre rest, AllWs pre ∧ ln = pre ++ '#' :: rest

theorem isComment_cons (c : Char) (cs : Str) : isComment (c :: cs) = ('#' == c) := by
  simp [isComment, startsWith, List.isPrefixOf]

theorem takeWhile_all (p : Char → Bool) (l : Str) (h : ∀ x ∈ l, p x = true) : l.takeWhile p = l := by
  induction l with
  | nil => rfl
  | cons x l ih => simp [List.takeWhile, h x (by simp), ih (fun y hy => h y (by simp [hy]))]

theorem core_not_comment {toks : List Str} {s : Str} (h : Core toks s) : isComment s = false := by
  obtain ⟨c, cs, rfl, hc⟩ := core_head_tok h
  have h1 := (tokChar_parts c hc).2.2.2.1
  have hne : c ≠ '#' := by simpa using h1
  rw [isComment_cons, beq_eq_false_iff_ne]
  exact fun e => hne e.symm

theorem core_ne_nil {toks : List Str} {s : Str} (h : Core toks s) : s.isEmpty = false := by
  obtain ⟨c, cs, rfl, _⟩ := core_head_tok h
  rfl

theorem rowLine_clean {toks : List Str} {ln : Str} (h : RowLine toks ln) : ∃ core, Core toks core ∧ cleanLine ln = core := by
  obtain ⟨pre, core, post, hpre, hpost, hcore, rfl⟩ := h
  exact ⟨core, hcore, cleanLine_sandwich pre core post hpre hpost (core_solid hcore)⟩

theorem splitWs_core {toks : List Str} {s : Str} (h : Core toks s) : splitWs s = toks := by
  have := scanTok_core (mSplit isPySpace) mSplit_ws mSplit_takes h [] (by intro c hc; simp at hc)
  simpa [splitWs] using this

/-- the normal engine's items of a data line are its tokens, whichever substitutions are active -/
theorem lineTokens_row (sb : Subs) {toks : List Str} {ln : Str} (h : RowLine toks ln) :
    lineTokens sb .space ln = toks := by
  obtain ⟨core, hcore, hcl⟩ := rowLine_clean h
  unfold lineTokens
  simp only [hcl, core_not_comment hcore, applySubs_core sb hcore, filter_ctrlZ_core hcore, core_ne_nil hcore,
    Bool.false_eq_true, ↓reduceIte, splitLine, splitWs_core hcore]

/-- the sniffer samples a data line and counts its tokens, whichever substitutions are active -/
theorem sampleLine_row {toks : List Str} {ln : Str} (h : RowLine toks ln) :
    ∃ l, sampleLine ln = some l ∧ ∀ sb, (splitLine .space (applySubs sb l)).length = toks.length := by
  obtain ⟨core, hcore, hcl⟩ := rowLine_clean h
  refine ⟨core, ?_, ?_⟩
  · unfold sampleLine
    simp [hcl, core_not_comment hcore, core_ne_nil hcore]
  · intro sb
    rw [applySubs_core sb hcore]
    simp [splitLine, splitWs_core hcore]

theorem allWs_no_hash (s : Str) (h : AllWs s) : ∀ c ∈ s, (c != '#') = true := by
  intro c hc
  simp [bne, ws_ne_hash c (h c hc)]

/-- `genfromtxt`'s tokens of a data line are its tokens -/
theorem npTokens_row {toks : List Str} {ln : Str} (h : RowLine toks ln) : npTokens ln = toks := by
  obtain ⟨pre, core, post, hpre, hpost, hcore, rfl⟩ := h
  unfold npTokens
  have : (pre ++ (core ++ post)).takeWhile (· != '#') = pre ++ (core ++ post) := by
    apply takeWhile_all
    intro c hc
    simp only [List.mem_append] at hc
    rcases hc with hc | hc | hc
    · exact allWs_no_hash pre hpre c hc
    · simp [bne, (core_chars hcore c hc).1]
    · exact allWs_no_hash post hpost c hc
  rw [this]
  unfold pySplit
  rw [scanTok_allWs mWord mWord_ws pre _ hpre]
  exact scanTok_core mWord mWord_ws mWord_takes hcore post hpost

theorem lineTokens_skip (sb : Subs) (dlm : Dlm) {ln : Str} (h : SkipLine ln) : lineTokens sb dlm ln = [] := by
  unfold lineTokens
  rcases h with h | ⟨pre, rest, hpre, rfl⟩
  · rw [cleanLine_blank ln h]
    have : applySubs sb [] = [] := by
      unfold applySubs subCommaDecimal subRunOnHyphen subRunOnDot
      cases sb with
      | mk c hy d => cases c <;> cases hy <;> cases d <;> rfl
    simp [isComment, startsWith, this]
  · obtain ⟨r, hr⟩ := cleanLine_comment pre rest hpre
    simp [hr, isComment, startsWith]

theorem sampleLine_skip {ln : Str} (h : SkipLine ln) : sampleLine ln = none := by
  unfold sampleLine
  rcases h with h | ⟨pre, rest, hpre, rfl⟩
  · simp [cleanLine_blank ln h]
  · obtain ⟨r, hr⟩ := cleanLine_comment pre rest hpre
    simp [hr, isComment, startsWith]

theorem npTokens_skip {ln : Str} (h : SkipLine ln) : npTokens ln = [] := by
  unfold npTokens pySplit
  rcases h with h | ⟨pre, rest, hpre, rfl⟩
  · have : ln.takeWhile (· != '#') = ln := by
      exact takeWhile_all _ ln (allWs_no_hash ln h)
    rw [this]
    have := scanTok_allWs mWord mWord_ws ln [] h
    simp only [List.append_nil] at this
    rw [this]; rfl
  · have : (pre ++ '#' :: rest).takeWhile (· != '#') = pre := by
      apply takeWhile_append_stop _ _ _ (allWs_no_hash pre hpre)
      exact Or.inr ⟨'#', rest, rfl, by decide⟩
    rw [this]
    have := scanTok_allWs mWord mWord_ws pre [] hpre
    simp only [List.append_nil] at this
    rw [this]; rfl

end Lasio.Dt
