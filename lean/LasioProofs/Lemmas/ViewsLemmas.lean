import LasioModel.Views
/-
Helper lemmas for C18 (Views): case mapping on the modelled alphabet (idempotence of `upper`, `upper ∘ lower = upper`),
insertion-ordered dict construction, `set`-of-matches reasoning.
-/
namespace Lasio

/-! ### `upperC` / `lowerC` through their code points -/

theorem toNat_ofNat_valid (n : Nat) (hv : n.isValidChar) : (Char.ofNat n).toNat = n := by
  unfold Char.ofNat
  simp only [hv, dite_true]
  simp [Char.ofNatAux, Char.toNat]

def upperN (n : Nat) : Nat :=
  if 0x61 ≤ n && n ≤ 0x7A then n - 0x20
  else if 0xE0 ≤ n && n ≤ 0xFE && n != 0xF7 then n - 0x20
  else if 0x430 ≤ n && n ≤ 0x44F then n - 0x20
  else if 0x450 ≤ n && n ≤ 0x45F then n - 0x50
  else if 0x3B1 ≤ n && n ≤ 0x3C9 && n != 0x3C2 then n - 0x20
  else n

def lowerN (n : Nat) : Nat :=
  if 0x41 ≤ n && n ≤ 0x5A then n + 0x20
  else if 0xC0 ≤ n && n ≤ 0xDE && n != 0xD7 then n + 0x20
  else if 0x410 ≤ n && n ≤ 0x42F then n + 0x20
  else if 0x400 ≤ n && n ≤ 0x40F then n + 0x50
  else if 0x391 ≤ n && n ≤ 0x3A9 && n != 0x3A2 then n + 0x20
  else n

theorem upperC_eq (c : Char) : upperC c = Char.ofNat (upperN c.toNat) := by
  unfold upperC upperN
  dsimp only
  repeat' split
  all_goals first | rfl | simp

theorem lowerC_eq (c : Char) : lowerC c = Char.ofNat (lowerN c.toNat) := by
  unfold lowerC lowerN
  dsimp only
  repeat' split
  all_goals first | rfl | simp

theorem upperN_big (n : Nat) (h : 0x460 ≤ n) : upperN n = n := by
  unfold upperN
  simp only [Bool.and_eq_true, decide_eq_true_eq, bne_iff_ne, ne_eq]
  repeat' split
  all_goals omega

theorem lowerN_big (n : Nat) (h : 0x460 ≤ n) : lowerN n = n := by
  unfold lowerN
  simp only [Bool.and_eq_true, decide_eq_true_eq, bne_iff_ne, ne_eq]
  repeat' split
  all_goals omega

theorem upperN_idem (n : Nat) : upperN (upperN n) = upperN n := by
  by_cases h : n < 0x460
  · exact (by decide +kernel : ∀ m : Fin 0x460, upperN (upperN m) = upperN m) ⟨n, h⟩
  · rw [upperN_big n (by omega), upperN_big n (by omega)]

theorem upperN_lowerN (n : Nat) : upperN (lowerN n) = upperN n := by
  by_cases h : n < 0x460
  · exact (by decide +kernel : ∀ m : Fin 0x460, upperN (lowerN m) = upperN m) ⟨n, h⟩
  · rw [lowerN_big n (by omega)]

theorem upperN_valid (n : Nat) (h : n.isValidChar) : (upperN n).isValidChar := by
  unfold upperN
  simp only [Bool.and_eq_true, decide_eq_true_eq, bne_iff_ne, ne_eq]
  unfold Nat.isValidChar at *
  repeat' split
  all_goals omega

theorem lowerN_valid (n : Nat) (h : n.isValidChar) : (lowerN n).isValidChar := by
  unfold lowerN
  simp only [Bool.and_eq_true, decide_eq_true_eq, bne_iff_ne, ne_eq]
  unfold Nat.isValidChar at *
  repeat' split
  all_goals omega

theorem char_toNat_valid (c : Char) : c.toNat.isValidChar := c.valid

/-- `c.upper().upper() == c.upper()` on the modelled alphabet (all of `Char` for the model's `upperC`) -/
theorem upperC_idem (c : Char) : upperC (upperC c) = upperC c := by
  rw [upperC_eq (upperC c), upperC_eq c, toNat_ofNat_valid _ (upperN_valid _ (char_toNat_valid c)), upperN_idem]

/-- `c.lower().upper() == c.upper()` -/
theorem upperC_lowerC (c : Char) : upperC (lowerC c) = upperC c := by
  rw [upperC_eq (lowerC c), lowerC_eq c, toNat_ofNat_valid _ (lowerN_valid _ (char_toNat_valid c)), upperN_lowerN,
    ← upperC_eq]

theorem upper_idem (s : Str) : upper (upper s) = upper s := by
  simp [upper, upperC_idem]

theorem upper_lower (s : Str) : upper (lower s) = upper s := by
  simp [upper, lower, upperC_lowerC]

end Lasio

namespace Lasio

/-! ### insertion-ordered dict -/

theorem mem_dictSet {V} (d : List (Str × V)) (k : Str) (v : V) (p : Str × V) (h : p ∈ dictSet d k v) :
    p ∈ d ∨ p = (k, v) := by
  induction d with
  | nil => simp [dictSet] at h; exact Or.inr h
  | cons a r ih =>
    obtain ⟨k', v'⟩ := a
    unfold dictSet at h
    split at h
    · next hk =>
      rcases List.mem_cons.mp h with h | h
      · right; rw [h, hk]
      · left; exact List.mem_cons_of_mem _ h
    · rcases List.mem_cons.mp h with h | h
      · left; rw [h]; exact List.mem_cons_self
      · rcases ih h with h | h
        · left; exact List.mem_cons_of_mem _ h
        · right; exact h

theorem mem_foldl_dictSet {V} (ps acc : List (Str × V)) (p : Str × V)
    (h : p ∈ ps.foldl (fun d kv => dictSet d kv.1 kv.2) acc) : p ∈ acc ∨ p ∈ ps := by
  induction ps generalizing acc with
  | nil => exact Or.inl h
  | cons a r ih =>
    rcases ih _ h with h | h
    · rcases mem_dictSet _ _ _ _ h with h | h
      · exact Or.inl h
      · right; rw [h]; exact List.mem_cons_self
    · exact Or.inr (List.mem_cons_of_mem _ h)

/-- a dict only holds pairs that were put into it -/
theorem mem_dictOf {V} (ps : List (Str × V)) (p : Str × V) (h : p ∈ dictOf ps) : p ∈ ps := by
  rcases mem_foldl_dictSet ps [] p h with h | h
  · cases h
  · exact h

theorem dictSet_of_not_mem {V} (d : List (Str × V)) (k : Str) (v : V) (h : k ∉ d.map (·.1)) :
    dictSet d k v = d ++ [(k, v)] := by
  induction d with
  | nil => rfl
  | cons a r ih =>
    obtain ⟨k', v'⟩ := a
    simp only [List.map_cons, List.mem_cons, not_or] at h
    unfold dictSet
    rw [if_neg (fun e => h.1 e.symm), ih h.2]
    rfl

theorem foldl_dictSet_nodup {V} (ps acc : List (Str × V)) (h : ((acc ++ ps).map (·.1)).Nodup) :
    ps.foldl (fun d kv => dictSet d kv.1 kv.2) acc = acc ++ ps := by
  induction ps generalizing acc with
  | nil => simp
  | cons a r ih =>
    have hk : a.1 ∉ acc.map (·.1) := by
      intro hm
      rw [List.map_append, List.map_cons] at h
      have := (List.nodup_append.mp h).2.2 a.1 hm a.1 List.mem_cons_self
      exact this rfl
    simp only [List.foldl_cons]
    rw [dictSet_of_not_mem _ _ _ hk, ih]
    · simp
    · simpa using h

/-- with pairwise distinct keys the dict is the list of pairs itself, in order -/
theorem dictOf_nodup {V} (ps : List (Str × V)) (h : (ps.map (·.1)).Nodup) : dictOf ps = ps := by
  have := foldl_dictSet_nodup ps [] (by simpa using h)
  simpa [dictOf] using this

/-! ### unit matching -/

theorem unitMatches_eq (u : Str) (ps : List Str) : unitMatches u ps = ps.any (fun p => upper u == upper p) := by
  unfold unitMatches
  cases h : ps.any (fun p => u == p) with
  | false => simp
  | true =>
    simp only [Bool.true_or]
    obtain ⟨p, hp, he⟩ := List.any_eq_true.mp h
    have : u = p := by simpa using he
    symm
    exact List.any_eq_true.mpr ⟨p, hp, by simp [this]⟩

theorem unitMatches_congr (u u' : Str) (ps : List Str) (h : upper u = upper u') :
    unitMatches u ps = unitMatches u' ps := by
  rw [unitMatches_eq, unitMatches_eq, h]

theorem unitMatchList_upper (table : List (Str × List Str)) (units : List Str) :
    unitMatchList unitMatches table units =
      table.flatMap fun r => (units.map upper).filterMap fun w =>
        if r.2.any (fun p => w == upper p) then some r.1 else none := by
  unfold unitMatchList
  congr 1
  funext r
  rw [List.filterMap_map]
  congr 1
  funext u
  simp [unitMatches_eq]

theorem mem_unitMatchList (mt : Str → List Str → Bool) (table : List (Str × List Str)) (units : List Str) (k : Str) :
    k ∈ unitMatchList mt table units ↔ ∃ r ∈ table, r.1 = k ∧ ∃ u ∈ units, mt u r.2 = true := by
  unfold unitMatchList
  simp only [List.mem_flatMap, List.mem_filterMap]
  constructor
  · rintro ⟨r, hr, u, hu, h⟩
    split at h
    · next hm => exact ⟨r, hr, by simpa using h, u, hu, hm⟩
    · cases h
  · rintro ⟨r, hr, hk, u, hu, hm⟩
    exact ⟨r, hr, u, hu, by simp [hm, hk]⟩

theorem eraseDups_eq_nil (l : List Str) : l.eraseDups = [] ↔ l = [] := by
  cases l with
  | nil => simp
  | cons a as => simp [List.eraseDups_cons]

theorem uniqueKey_eq_some (ms : List Str) (k : Str) :
    uniqueKey ms = some k ↔ ms ≠ [] ∧ ∀ x ∈ ms, x = k := by
  unfold uniqueKey
  cases ms with
  | nil => simp
  | cons a as =>
    rw [List.eraseDups_cons]
    constructor
    · intro h
      split at h
      · next heq =>
        simp only [List.cons.injEq] at heq
        obtain ⟨ha, hnil⟩ := heq
        have hf := (eraseDups_eq_nil _).mp hnil
        simp only [Option.some.injEq] at h
        subst h
        subst ha
        refine ⟨by simp, ?_⟩
        intro x hx
        rcases List.mem_cons.mp hx with hx | hx
        · exact hx
        · have := List.filter_eq_nil_iff.mp hf x hx
          simpa using this
      · cases h
    · rintro ⟨_, hall⟩
      have ha : a = k := hall a List.mem_cons_self
      subst ha
      have hf : (as.filter fun b => !b == a) = [] := by
        apply List.filter_eq_nil_iff.mpr
        intro x hx
        have : x = a := hall x (List.mem_cons_of_mem _ hx)
        simp [this]
      rw [hf]
      rfl

theorem uniqueKey_none_of_two (ms : List Str) (a b : Str) (ha : a ∈ ms) (hb : b ∈ ms) (hab : a ≠ b) :
    uniqueKey ms = none := by
  cases h : uniqueKey ms with
  | none => rfl
  | some k =>
    obtain ⟨_, hall⟩ := (uniqueKey_eq_some ms k).mp h
    exact absurd ((hall a ha).trans (hall b hb).symm) hab

/-! ### CSV header rows -/

theorem length_csvDecorate (a b : Char) (ms us : List Str) :
    (csvDecorate a b ms us).length = min ms.length us.length := by
  simp [csvDecorate]

theorem csvMnemonicRow_eq (o : CsvOpts) (origs units : List Str) :
    csvMnemonicRow o origs units =
      if (o.mnemonics.resolve origs).isEmpty then none
      else match o.unitsLoc.brackets with
        | some (a, b) => if (o.units.resolve units).isEmpty then some (o.mnemonics.resolve origs)
                         else some (csvDecorate a b (o.mnemonics.resolve origs) (o.units.resolve units))
        | none => some (o.mnemonics.resolve origs) := rfl

theorem csvUnitRow_eq (o : CsvOpts) (units : List Str) :
    csvUnitRow o units =
      if (o.units.resolve units).isEmpty then none
      else if o.unitsLoc = .line then some (o.units.resolve units) else none := rfl

theorem csvMnemonicRow_some (o : CsvOpts) (origs units r : List Str) (h : csvMnemonicRow o origs units = some r) :
    r = o.mnemonics.resolve origs ∨
      ∃ a b, r = csvDecorate a b (o.mnemonics.resolve origs) (o.units.resolve units) := by
  rw [csvMnemonicRow_eq] at h
  by_cases he : (o.mnemonics.resolve origs).isEmpty = true
  · rw [if_pos he] at h; cases h
  · rw [if_neg he] at h
    cases hb : o.unitsLoc.brackets with
    | none => rw [hb] at h; cases h; exact Or.inl rfl
    | some ab =>
      obtain ⟨a, b⟩ := ab
      rw [hb] at h
      by_cases hu : (o.units.resolve units).isEmpty = true
      · simp only [hu, if_true] at h; cases h; exact Or.inl rfl
      · simp only [hu] at h; cases h; exact Or.inr ⟨a, b, rfl⟩

theorem csvUnitRow_some (o : CsvOpts) (units r : List Str) (h : csvUnitRow o units = some r) :
    r = o.units.resolve units ∧ o.unitsLoc = .line := by
  rw [csvUnitRow_eq] at h
  by_cases he : (o.units.resolve units).isEmpty = true
  · rw [if_pos he] at h; cases h
  · rw [if_neg he] at h
    by_cases hl : o.unitsLoc = .line
    · rw [if_pos hl] at h; cases h; exact ⟨rfl, hl⟩
    · rw [if_neg hl] at h; cases h

end Lasio
