import LasioProofs.Props.C03
/-
Helper lemmas for C11File (the whole-file fixed point of write -> read -> write -> read on the header).
-/
namespace Lasio.Cy

open Lasio Lasio.Wr

/-! ## `upper` / `lower` never create or destroy blanks or the marker characters -/

/-- code points that `upperC` / `lowerC` move, and the code points they move them to -/
def LetterCode (k : Nat) : Prop :=
  (0x41 ≤ k ∧ k ≤ 0x5A) ∨ (0x61 ≤ k ∧ k ≤ 0x7A) ∨ (0xC0 ≤ k ∧ k ≤ 0xFE) ∨ (0x391 ≤ k ∧ k ≤ 0x3C9) ∨
  (0x400 ≤ k ∧ k ≤ 0x45F)

/-- a character map that only moves letters to letters -/
def LetterMap (f : Char → Char) : Prop := ∀ c, f c = c ∨ (LetterCode c.toNat ∧ LetterCode (f c).toNat)

theorem upperC_letterMap : LetterMap upperC := by
  intro c
  rcases upperC_cases c with ⟨h, e⟩ | ⟨h, e⟩ | ⟨_, _, e⟩
  · right
    unfold InLower at h
    rw [e, toNat_ofNat_small _ (by omega)]
    unfold LetterCode
    constructor <;> omega
  · right
    rw [e, toNat_ofNat_small _ (by omega)]
    unfold LetterCode
    constructor <;> omega
  · exact Or.inl e

theorem lowerC_letterMap : LetterMap lowerC := by
  intro c
  rcases lowerC_cases c with ⟨h, e⟩ | ⟨h, e⟩ | e
  · right
    unfold InUpper at h
    rw [e, toNat_ofNat_small _ (by omega)]
    unfold LetterCode
    constructor <;> omega
  · right
    rw [e, toNat_ofNat_small _ (by omega)]
    unfold LetterCode
    constructor <;> omega
  · exact Or.inl e

theorem id_letterMap : LetterMap id := fun _ => Or.inl rfl

theorem isPySpace_letter (c : Char) (h : LetterCode c.toNat) : isPySpace c = false := by
  unfold LetterCode at h
  unfold isPySpace
  simp only [Bool.or_eq_false_iff, Bool.and_eq_false_iff, decide_eq_false_iff_not, beq_eq_false_iff_ne, ne_eq]
  omega

theorem letterMap_space {f : Char → Char} (hf : LetterMap f) (c : Char) : isPySpace (f c) = isPySpace c := by
  rcases hf c with e | ⟨h1, h2⟩
  · rw [e]
  · rw [isPySpace_letter _ h1, isPySpace_letter _ h2]

/-- a character that is no letter is hit by a letter map only from itself -/
theorem letterMap_eq {f : Char → Char} (hf : LetterMap f) (c x : Char) (hx : ¬ LetterCode x.toNat) :
    f c = x ↔ c = x := by
  constructor
  · intro h
    rcases hf c with e | ⟨_, h2⟩
    · rw [← e, h]
    · rw [h] at h2; exact absurd h2 hx
  · intro h
    subst h
    rcases hf c with e | ⟨h1, _⟩
    · exact e
    · exact absurd h1 hx

theorem notLetter_marks : ¬ LetterCode '.'.toNat ∧ ¬ LetterCode ':'.toNat ∧ ¬ LetterCode '#'.toNat ∧
    ¬ LetterCode '~'.toNat := by
  unfold LetterCode
  refine ⟨?_, ?_, ?_, ?_⟩ <;> decide

/-- the character map behind `caseMap` -/
def caseC : MCase → Char → Char
  | .preserve => id
  | .upper => upperC
  | .lower => lowerC

theorem caseMap_eq_map (c : MCase) (m : Str) : caseMap c m = m.map (caseC c) := by
  cases c <;> simp [caseMap, caseC, upper, lower]

theorem caseC_letterMap (c : MCase) : LetterMap (caseC c) := by
  cases c
  · exact id_letterMap
  · exact upperC_letterMap
  · exact lowerC_letterMap

theorem lowerC_idem (c : Char) : lowerC (lowerC c) = lowerC c := by
  have fix : ∀ d : Char, ¬ InUpper d.toNat → ¬ (0x400 ≤ d.toNat ∧ d.toNat ≤ 0x40F) → lowerC d = d := by
    intro d h1 h2
    rcases lowerC_cases d with ⟨h, _⟩ | ⟨h, _⟩ | h
    · exact absurd h h1
    · exact absurd h h2
    · exact h
  rcases lowerC_cases c with ⟨h, e⟩ | ⟨h, e⟩ | e
  · rw [e]
    unfold InUpper at h
    apply fix <;> rw [toNat_ofNat_small _ (by omega)] <;> (try unfold InUpper) <;> omega
  · rw [e]
    apply fix <;> rw [toNat_ofNat_small _ (by omega)] <;> (try unfold InUpper) <;> omega
  · rw [e, e]

theorem caseMap_idem (c : MCase) (m : Str) : caseMap c (caseMap c m) = caseMap c m := by
  cases c
  · rfl
  · exact upper_idem m
  · simp [caseMap, lower, List.map_map, Function.comp_def, lowerC_idem]

theorem upper_caseMap (c : MCase) (m : Str) : upper (caseMap c m) = upper m := by
  cases c
  · rfl
  · exact upper_idem m
  · exact upper_lower m

/-! ## the mnemonic conditions survive the case map -/

theorem caseMap_ne_nil (c : MCase) (m : Str) (h : m ≠ []) : caseMap c m ≠ [] := by
  rw [caseMap_eq_map]
  simpa using h

theorem caseMap_head (c : MCase) (m : Str) : (caseMap c m).head? = m.head?.map (caseC c) := by
  rw [caseMap_eq_map]; cases m <;> rfl

theorem caseMap_getLast (c : MCase) (m : Str) : (caseMap c m).getLast? = m.getLast?.map (caseC c) := by
  rw [caseMap_eq_map, List.getLast?_map]

theorem caseMap_strip (c : MCase) (m : Str) (h : strip m = m) : strip (caseMap c m) = caseMap c m := by
  apply strip_eq_self
  · intro x hx
    rw [caseMap_head] at hx
    cases hm : m.head? with
    | none => rw [hm] at hx; cases hx
    | some y =>
      rw [hm] at hx
      simp only [Option.map_some, Option.some.injEq] at hx
      subst hx
      rw [letterMap_space (caseC_letterMap c)]
      exact head_nospace_of_strip h y hm
  · intro x hx
    rw [caseMap_getLast] at hx
    cases hm : m.getLast? with
    | none => rw [hm] at hx; cases hx
    | some y =>
      rw [hm] at hx
      simp only [Option.map_some, Option.some.injEq] at hx
      subst hx
      rw [letterMap_space (caseC_letterMap c)]
      exact last_nospace_of_strip h y hm

theorem caseMap_chars (c : MCase) (m : Str) (x : Char) (hx : ¬ LetterCode x.toNat) (h : ∀ ch ∈ m, ch ≠ x) :
    ∀ ch ∈ caseMap c m, ch ≠ x := by
  intro ch hch
  rw [caseMap_eq_map] at hch
  obtain ⟨y, hy, rfl⟩ := List.mem_map.mp hch
  intro e
  exact h y hy ((letterMap_eq (caseC_letterMap c) y x hx).mp e)

theorem caseMap_head_ne (c : MCase) (m : Str) (x : Char) (hx : ¬ LetterCode x.toNat) (h : m.head? ≠ some x) :
    (caseMap c m).head? ≠ some x := by
  rw [caseMap_head]
  cases hm : m.head? with
  | none => simp
  | some y =>
    simp only [Option.map_some, ne_eq, Option.some.injEq]
    intro e
    apply h
    rw [hm, (letterMap_eq (caseC_letterMap c) y x hx).mp e]

/-! ## the LASFile obtained from a re-read header -/

/-- how the value text of a re-read item comes back as a Python value (`num()` in the code): the writer sees it through
`str()`, `not v`, `v == 0`, `v is None` -/
structure Retype (rv : Str → WVal) : Prop where
  notNone : ∀ t, (rv t).isNone = false
  /-- a falsy value that is not zero is the empty string -/
  falsy : ∀ t, (rv t).falsy = true → (rv t).isZero = false → t = []

theorem retype_str : Retype WVal.str where
  notNone := fun _ => rfl
  falsy := fun t h _ => by simpa [WVal.str] using h

/-- `str(num(t)) = t`: the re-typed value prints as it is spelt in the file -/
def Spelt (rv : Str → WVal) (t : Str) : Prop := (rv t).text = t

theorem spelt_str (t : Str) : Spelt WVal.str t := rfl

/-- the `HeaderItem` a re-read line becomes: mnemonic as read (`original_mnemonic`), session mnemonic `s` -/
def mkRead (rv : Str → WVal) (s : Str) (r : Rd.RItem) : WItem := ⟨r.orig, s, r.unit, rv r.value, r.descr⟩

/-- the items of a re-read section with the session mnemonics `SectionItems.append` gives them one after the other -/
def itemsOfRead (rv : Str → WVal) (tr : Bool) (l : List Rd.RItem) : List WItem :=
  List.zipWith (mkRead rv) (Rd.sessionNames tr l) l

theorem sessionGo_length (tr : Bool) (before us : List Str) : (Rd.sessionGo tr before us).length = us.length := by
  induction us generalizing before with
  | nil => rfl
  | cons u us ih => simp [Rd.sessionGo, ih]

theorem sessionNames_length (tr : Bool) (l : List Rd.RItem) : (Rd.sessionNames tr l).length = l.length := by
  simp [Rd.sessionNames, sessionGo_length]

theorem mem_zipWith {α β γ} (f : α → β → γ) (z : γ) : ∀ (as : List α) (bs : List β), z ∈ List.zipWith f as bs →
    ∃ a b, a ∈ as ∧ b ∈ bs ∧ z = f a b := by
  intro as
  induction as with
  | nil => intro bs h; simp at h
  | cons a as ih =>
    intro bs h
    cases bs with
    | nil => simp at h
    | cons b bs =>
      simp only [List.zipWith_cons_cons, List.mem_cons] at h
      rcases h with h | h
      · exact ⟨a, b, by simp, by simp, h⟩
      · obtain ⟨a', b', ha, hb, e⟩ := ih bs h
        exact ⟨a', b', by simp [ha], by simp [hb], e⟩

theorem mem_itemsOfRead (rv : Str → WVal) (tr : Bool) (l : List Rd.RItem) (z : WItem) (h : z ∈ itemsOfRead rv tr l) :
    ∃ s, ∃ r ∈ l, z = mkRead rv s r := by
  obtain ⟨s, r, _, hr, e⟩ := mem_zipWith _ z _ _ h
  exact ⟨s, r, hr, e⟩

theorem map_zipWith_right {α β γ} (f : α → β → γ) (g : γ → β) : ∀ (as : List α) (bs : List β),
    as.length = bs.length → (∀ a, ∀ b ∈ bs, g (f a b) = b) → (List.zipWith f as bs).map g = bs := by
  intro as
  induction as with
  | nil => intro bs hl _; cases bs with
    | nil => rfl
    | cons b bs => simp at hl
  | cons a as ih =>
    intro bs hl h
    cases bs with
    | nil => simp at hl
    | cons b bs =>
      simp only [List.zipWith_cons_cons, List.map_cons, List.cons.injEq]
      exact ⟨h a b (by simp), ih bs (by simpa using hl) (fun a' b' hb' => h a' b' (by simp [hb']))⟩

theorem rdExpected_mkRead (o : Rd.ReadOpts) {rv : Str → WVal} (s : Str) (it : WItem) (hs : Spelt rv it.value.text) :
    rdExpected o (mkRead rv s (rdExpected o it)) = rdExpected o it := by
  unfold Spelt at hs
  simp [rdExpected, mkRead, caseMap_idem, hs]

/-- reading the re-read items back gives the same items -/
theorem map_rdExpected_itemsOfRead (o : Rd.ReadOpts) {rv : Str → WVal} (tr : Bool) (items : List WItem)
    (hs : ∀ it ∈ items, Spelt rv it.value.text) :
    (itemsOfRead rv tr (items.map (rdExpected o))).map (rdExpected o) = items.map (rdExpected o) := by
  apply map_zipWith_right
  · exact sessionNames_length tr _
  · intro s r hr
    obtain ⟨it, hit, rfl⟩ := List.mem_map.mp hr
    exact rdExpected_mkRead o s it (hs it hit)

/-- **`TextConf` is preserved by a read-back** -/
theorem conf_mkRead (o : Rd.ReadOpts) {rv : Str → WVal} (kind : SecName) (s : Str) (it : WItem)
    (hs : Spelt rv it.value.text) (h : TextConf kind it) : TextConf kind (mkRead rv s (rdExpected o it)) where
  mnem_ne := caseMap_ne_nil _ _ h.mnem_ne
  mnem_strip := caseMap_strip _ _ h.mnem_strip
  mnem_chars := fun ch hch =>
    ⟨caseMap_chars _ _ '.' notLetter_marks.1 (fun x hx => (h.mnem_chars x hx).1) ch hch,
     caseMap_chars _ _ ':' notLetter_marks.2.1 (fun x hx => (h.mnem_chars x hx).2) ch hch⟩
  unit_nosp := h.unit_nosp
  unit_nodd := h.unit_nodd
  unit_notnum := h.unit_notnum
  unit_nobr := h.unit_nobr
  unit_first := h.unit_first
  unit_last := h.unit_last
  value_strip := by unfold Spelt at hs; simpa [mkRead, rdExpected, hs] using h.value_strip
  value_nocolon := by unfold Spelt at hs; simpa [mkRead, rdExpected, hs] using h.value_nocolon
  value_nodd := by unfold Spelt at hs; simpa [mkRead, rdExpected, hs] using h.value_nodd
  descr_strip := h.descr_strip
  descr_nocolon := h.descr_nocolon

theorem mark_mkRead (o : Rd.ReadOpts) (rv : Str → WVal) (s : Str) (it : WItem)
    (h : it.orig.head? ≠ some '#' ∧ it.orig.head? ≠ some '~') :
    (mkRead rv s (rdExpected o it)).orig.head? ≠ some '#' ∧ (mkRead rv s (rdExpected o it)).orig.head? ≠ some '~' :=
  ⟨caseMap_head_ne _ _ '#' notLetter_marks.2.2.1 h.1, caseMap_head_ne _ _ '~' notLetter_marks.2.2.2 h.2⟩

theorem conf_itemsOfRead (o : Rd.ReadOpts) {rv : Str → WVal} (kind : SecName) (tr : Bool)
    (items : List WItem) (hs : ∀ it ∈ items, Spelt rv it.value.text) (h : ∀ it ∈ items, TextConf kind it) :
    ∀ z ∈ itemsOfRead rv tr (items.map (rdExpected o)), TextConf kind z := by
  intro z hz
  obtain ⟨s, r, hr, rfl⟩ := mem_itemsOfRead rv tr _ z hz
  obtain ⟨it, hit, rfl⟩ := List.mem_map.mp hr
  exact conf_mkRead o kind s it (hs it hit) (h it hit)

theorem mark_itemsOfRead (o : Rd.ReadOpts) (rv : Str → WVal) (tr : Bool)
    (items : List WItem) (h : ∀ it ∈ items, it.orig.head? ≠ some '#' ∧ it.orig.head? ≠ some '~') :
    ∀ z ∈ itemsOfRead rv tr (items.map (rdExpected o)), z.orig.head? ≠ some '#' ∧ z.orig.head? ≠ some '~' := by
  intro z hz
  obtain ⟨s, r, hr, rfl⟩ := mem_itemsOfRead rv tr _ z hz
  obtain ⟨it, hit, rfl⟩ := List.mem_map.mp hr
  exact mark_mkRead o rv s it (h it hit)

/-! ## value normalisation on re-read items -/

/-- an item that has a unit shows a value on its line -/
def ValueShown (it : WItem) : Prop := it.unit ≠ [] → it.value.text ≠ []

instance (it : WItem) : Decidable (ValueShown it) := by unfold ValueShown; infer_instance

theorem standardizeValue_retype {rv : Str → WVal} (hrv : Retype rv) (t u : Str) (h : u ≠ [] → t ≠ []) :
    standardizeValue (rv t) u = rv t := by
  unfold standardizeValue
  have h1 : (!u.isEmpty && (rv t).falsy && !(rv t).isZero) = false := by
    cases hu : u.isEmpty with
    | true => rfl
    | false =>
      cases hf : (rv t).falsy with
      | false => rfl
      | true =>
        cases hz : (rv t).isZero with
        | true => rfl
        | false =>
          exfalso
          exact h (by intro e; rw [e] at hu; cases hu) (hrv.falsy t hf hz)
  simp only [h1, Bool.false_eq_true, if_false, hrv.notNone]

theorem standardizeItems_itemsOfRead (o : Rd.ReadOpts) {rv : Str → WVal} (hrv : Retype rv) (tr : Bool)
    (items : List WItem) (h : ∀ it ∈ items, ValueShown it) :
    standardizeItems (itemsOfRead rv tr (items.map (rdExpected o))) = itemsOfRead rv tr (items.map (rdExpected o)) := by
  unfold standardizeItems
  conv => rhs; rw [← List.map_id (itemsOfRead rv tr (items.map (rdExpected o)))]
  apply List.map_congr_left
  intro z hz
  obtain ⟨s, r, hr, rfl⟩ := mem_itemsOfRead rv tr _ z hz
  obtain ⟨it, hit, rfl⟩ := List.mem_map.mp hr
  simp only [mkRead, rdExpected, id]
  rw [standardizeValue_retype hrv _ _ (h it hit)]

/-! ## ~Other: `splitlines` of the joined stripped lines -/

theorem splitlinesAux_step (ch : Char) (rest acc : Str) (hcr : ¬ ∃ r, ch = '\r' ∧ rest = '\n' :: r) :
    splitlinesAux (ch :: rest) acc =
      if isLineBreak ch then acc.reverse :: splitlinesAux rest [] else splitlinesAux rest (ch :: acc) := by
  rw [splitlinesAux]
  intro r h1 h2
  exact hcr ⟨r, h1, h2⟩

theorem splitlinesAux_nobreak (s acc : Str) (hacc : ∀ c ∈ acc, isLineBreak c = false) :
    ∀ l ∈ splitlinesAux s acc, ∀ c ∈ l, isLineBreak c = false := by
  induction hn : s.length using Nat.strongRecOn generalizing s acc with
  | ind n ih =>
    cases s with
    | nil =>
      intro l hl
      unfold splitlinesAux at hl
      split at hl
      · cases hl
      · simp only [List.mem_singleton] at hl
        subst hl
        intro c hc
        exact hacc c (by simpa using hc)
    | cons ch rest =>
      by_cases hcr : ∃ r, ch = '\r' ∧ rest = '\n' :: r
      · obtain ⟨r, rfl, rfl⟩ := hcr
        intro l hl
        simp only [splitlinesAux, List.mem_cons] at hl
        rcases hl with rfl | hl
        · intro c hc; exact hacc c (by simpa using hc)
        · exact ih r.length (by subst hn; simp; omega) r [] (by simp) rfl l hl
      · rw [splitlinesAux_step ch rest acc hcr]
        split
        · intro l hl
          simp only [List.mem_cons] at hl
          rcases hl with rfl | hl
          · intro c hc; exact hacc c (by simpa using hc)
          · exact ih rest.length (by subst hn; simp) rest [] (by simp) rfl l hl
        · rename_i hb
          exact ih rest.length (by subst hn; simp) rest (ch :: acc)
            (by
              intro c hc
              rcases List.mem_cons.mp hc with rfl | hc
              · simpa using hb
              · exact hacc c hc) rfl

theorem splitlines_nobreak (t : Str) : ∀ l ∈ splitlines t, ∀ c ∈ l, isLineBreak c = false :=
  splitlinesAux_nobreak t [] (by simp)

/-- a stretch without line breaks goes to the current line -/
theorem splitlinesAux_line (x rest acc : Str) (hx : ∀ c ∈ x, isLineBreak c = false) :
    splitlinesAux (x ++ rest) acc = splitlinesAux rest (x.reverse ++ acc) := by
  induction x generalizing acc with
  | nil => rfl
  | cons ch x ih =>
    have hb : isLineBreak ch = false := hx ch (by simp)
    have hcr : ¬ ∃ r, ch = '\r' ∧ x ++ rest = '\n' :: r := by
      rintro ⟨r, rfl, _⟩
      exact absurd hb (by decide)
    rw [List.cons_append, splitlinesAux_step ch (x ++ rest) acc hcr]
    simp only [hb, Bool.false_eq_true, if_false]
    rw [ih (ch :: acc) (fun c hc => hx c (by simp [hc]))]
    simp

/-- **`splitlines` inverts `"\n".join`** on lines without line breaks whose last line is not empty -/
theorem splitlines_join (ls : List Str) (hnb : ∀ l ∈ ls, ∀ c ∈ l, isLineBreak c = false)
    (hlast : ls.getLast? ≠ some []) : splitlines (joinWith ['\n'] ls) = ls := by
  unfold splitlines
  induction ls with
  | nil => rfl
  | cons x ls ih =>
    cases ls with
    | nil =>
      have hx : x ≠ [] := by
        intro e; apply hlast; rw [e]; rfl
      have := splitlinesAux_line x [] [] (hnb x (by simp))
      simp only [List.append_nil] at this
      simp only [joinWith, this, splitlinesAux]
      cases x with
      | nil => exact absurd rfl hx
      | cons a t => simp
    | cons y ys =>
      simp only [joinWith]
      rw [List.append_assoc, splitlinesAux_line x _ [] (hnb x (by simp))]
      have hcr : ¬ ∃ r, '\n' = '\r' ∧ joinWith ['\n'] (y :: ys) = '\n' :: r := by
        rintro ⟨r, h, _⟩; exact absurd h (by decide)
      rw [List.singleton_append, splitlinesAux_step '\n' _ _ hcr]
      have hb : isLineBreak '\n' = true := by decide
      simp only [hb, if_true, List.append_nil, List.reverse_reverse]
      rw [ih (fun l hl => hnb l (by simp [hl])) (by
        intro h; apply hlast
        rw [List.getLast?_cons_cons]; exact h)]

theorem mem_strip (l : Str) (c : Char) (h : c ∈ strip l) : c ∈ l := by
  rw [Rd.strip_eq_rdrop] at h
  exact Rd.dw_mem _ _ _ (Rd.rdrop_mem _ _ _ h)

/-- the last ~Other line is not blank -/
def OtherLast (t : Str) : Prop := ((splitlines t).map strip).getLast? ≠ some []

instance (t : Str) : Decidable (OtherLast t) := by unfold OtherLast; infer_instance

/-- the ~Other text as the reader stores it -/
def otherRead (t : Str) : Str := joinWith ['\n'] ((splitlines t).map strip)

theorem splitlines_otherRead (t : Str) (h : OtherLast t) : splitlines (otherRead t) = (splitlines t).map strip := by
  apply splitlines_join _ _ h
  intro l hl c hc
  obtain ⟨l0, hl0, rfl⟩ := List.mem_map.mp hl
  exact splitlines_nobreak t l0 hl0 c (mem_strip l0 c hc)

theorem map_strip_otherRead (t : Str) (h : OtherLast t) :
    (splitlines (otherRead t)).map strip = (splitlines t).map strip := by
  rw [splitlines_otherRead t h, List.map_map]
  apply List.map_congr_left
  intro l _
  exact Rd.strip_idem l

/-- **the stored ~Other text is a fixed point** of write -> read when its last line is not blank -/
theorem otherRead_idem (t : Str) (h : OtherLast t) : otherRead (otherRead t) = otherRead t := by
  show joinWith ['\n'] ((splitlines (otherRead t)).map strip) = otherRead t
  rw [map_strip_otherRead t h]
  rfl

theorem otherOK_otherRead (t : Str) (h : OtherLast t) (ho : OtherOK t) : OtherOK (otherRead t) := by
  intro l hl
  rw [splitlines_otherRead t h] at hl
  obtain ⟨l0, hl0, rfl⟩ := List.mem_map.mp hl
  rw [Rd.strip_idem]
  exact ho l0 hl0

theorem otherLast_otherRead (t : Str) (h : OtherLast t) : OtherLast (otherRead t) := by
  unfold OtherLast
  rw [map_strip_otherRead t h]
  exact h

/-! ## list facts: first match, single match -/

theorem findFirst_append_hit {α} (p : α → Bool) (A : List α) (y : α) (B : List α)
    (hA : ∀ x ∈ A, p x = false) (hy : p y = true) : findFirst p (A ++ y :: B) = some A.length := by
  induction A with
  | nil => simp [findFirst, hy]
  | cons a A ih =>
    simp only [List.cons_append, findFirst, hA a (by simp), Bool.false_eq_true, if_false,
      ih (fun x hx => hA x (by simp [hx])), Option.map_some, List.length_cons]

theorem findFirst_decomp {α} (p : α → Bool) (l : List α) (i : Nat) (h : findFirst p l = some i) :
    ∃ A y B, l = A ++ y :: B ∧ A.length = i ∧ p y = true ∧ ∀ x ∈ A, p x = false := by
  induction l generalizing i with
  | nil => cases h
  | cons a l ih =>
    simp only [findFirst] at h
    by_cases ha : p a = true
    · simp only [ha, if_true, Option.some.injEq] at h
      exact ⟨[], a, l, rfl, by simpa using h, ha, by simp⟩
    · have ha' : p a = false := by simpa using ha
      simp only [ha', Bool.false_eq_true, if_false] at h
      cases hf : findFirst p l with
      | none => rw [hf] at h; cases h
      | some j =>
        rw [hf] at h
        simp only [Option.map_some, Option.some.injEq] at h
        obtain ⟨A, y, B, e, hl, hy, hA⟩ := ih j hf
        refine ⟨a :: A, y, B, by rw [e]; rfl, by simp [hl, h], hy, ?_⟩
        intro x hx
        rcases List.mem_cons.mp hx with rfl | hx
        · simpa using ha
        · exact hA x hx

theorem findFirst_none_all {α} (p : α → Bool) (l : List α) (h : findFirst p l = none) : ∀ x ∈ l, p x = false := by
  induction l with
  | nil => simp
  | cons a l ih =>
    simp only [findFirst] at h
    by_cases ha : p a = true
    · simp [ha] at h
    · have ha' : p a = false := by simpa using ha
      simp only [ha', Bool.false_eq_true, if_false, Option.map_eq_none_iff] at h
      intro x hx
      rcases List.mem_cons.mp hx with rfl | hx
      · simpa using ha
      · exact ih h x hx

theorem filter_singleton_decomp {α} (q : α → Bool) (l : List α) (y : α) (h : l.filter q = [y]) :
    ∃ A B, l = A ++ y :: B ∧ (∀ x ∈ A, q x = false) ∧ (∀ x ∈ B, q x = false) ∧ q y = true := by
  induction l with
  | nil => simp at h
  | cons a l ih =>
    by_cases ha : q a = true
    · simp only [List.filter_cons, ha, if_true, List.cons.injEq] at h
      obtain ⟨rfl, hl⟩ := h
      refine ⟨[], l, rfl, by simp, ?_, ha⟩
      intro x hx
      have := List.filter_eq_nil_iff.mp hl x hx
      simpa using this
    · have ha' : q a = false := by simpa using ha
      simp only [List.filter_cons, ha', Bool.false_eq_true, if_false] at h
      obtain ⟨A, B, e, hA, hB, hy⟩ := ih h
      refine ⟨a :: A, B, by rw [e]; rfl, ?_, hB, hy⟩
      intro x hx
      rcases List.mem_cons.mp hx with rfl | hx
      · simpa using ha
      · exact hA x hx

theorem set_mid {α} (A : List α) (y it : α) (B : List α) : (A ++ y :: B).set A.length it = A ++ it :: B := by
  induction A with
  | nil => rfl
  | cons a A ih => simp only [List.cons_append, List.length_cons, List.set_cons_succ, ih]

theorem filter_zipWith_length {α β γ} (f : α → β → γ) (q : γ → Bool) (P : β → Bool) (hq : ∀ a b, q (f a b) = P b) :
    ∀ (as : List α) (bs : List β), as.length = bs.length →
      ((List.zipWith f as bs).filter q).length = (bs.filter P).length := by
  intro as
  induction as with
  | nil => intro bs hl; cases bs with
    | nil => rfl
    | cons b bs => simp at hl
  | cons a as ih =>
    intro bs hl
    cases bs with
    | nil => simp at hl
    | cons b bs =>
      simp only [List.zipWith_cons_cons, List.filter_cons, hq]
      have := ih bs (by simpa using hl)
      split <;> simp [this]

/-! ## `mnemonic_compare` -/

theorem useful_eq (o : Str) : useful o = Rd.usefulMn o := by
  unfold useful Rd.usefulMn
  cases strip o <;> rfl

theorem cmpStr_eq (tr : Bool) (a b : Str) : cmpStr tr a b = Rd.mcmp tr a b := rfl

theorem cmpStr_iff (tr : Bool) (a b : Str) : cmpStr tr a b = true ↔ Rd.ck tr a = Rd.ck tr b :=
  Rd.mcmp_true_iff tr a b

theorem cmpStr_comm (tr : Bool) (a b : Str) : cmpStr tr a b = cmpStr tr b a := by
  rw [Bool.eq_iff_iff, cmpStr_iff, cmpStr_iff]
  exact eq_comm

/-- comparing against two names of the same group is the same test -/
theorem cmpStr_congr_right (tr : Bool) (a b k : Str) (h : cmpStr tr a b = true) : cmpStr tr k a = cmpStr tr k b := by
  rw [Bool.eq_iff_iff, cmpStr_iff, cmpStr_iff, (cmpStr_iff tr a b).mp h]

theorem cmpStr_suffixed (tr : Bool) (key u d : Str) (hk : ':' ∉ Rd.ck tr key) : cmpStr tr key (u ++ ':' :: d) = false := by
  cases h : cmpStr tr key (u ++ ':' :: d) with
  | false => rfl
  | true =>
    have := (cmpStr_iff _ _ _).mp h
    exact absurd (this ▸ Rd.ck_colon tr u d) hk

/-- a session mnemonic is the useful mnemonic, possibly with a duplicate suffix `:k` -/
def SessForm (z : WItem) : Prop := z.session = useful z.orig ∨ ∃ k, z.session = useful z.orig ++ ':' :: natToStr k

/-- a key without colon matches a session mnemonic only when that is an unsuffixed useful mnemonic of the key's group -/
theorem sess_match (tr : Bool) (key : Str) (hk : ':' ∉ Rd.ck tr key) (z : WItem) (hz : SessForm z)
    (h : cmpStr tr key z.session = true) : z.session = useful z.orig ∧ cmpStr tr (useful z.orig) key = true := by
  rcases hz with e | ⟨k, e⟩
  · refine ⟨e, ?_⟩
    rw [cmpStr_comm, ← e]; exact h
  · rw [e, cmpStr_suffixed tr key _ _ hk] at h
    cases h

/-! ## `set_item` on a section in which the key's group is one unsuffixed item -/

/-- **In place.**  `section[key] = it` where exactly one item `y` has a useful mnemonic comparing equal to `key`, `y`'s session
mnemonic carries no suffix and `it` belongs to the same group: `y` is replaced by `it`, nothing else changes (no item is
appended, no suffix is handed out). -/
theorem wSetItem_unique (tr : Bool) (key : Str) (hk : ':' ∉ Rd.ck tr key) (it y : WItem) (l : List WItem)
    (hform : ∀ z ∈ l, SessForm z)
    (hgrp : l.filter (fun z => cmpStr tr (useful z.orig) key) = [y]) (hy : y.session = useful y.orig)
    (hit : cmpStr tr (useful it.orig) key = true) :
    ∃ A B, l = A ++ y :: B ∧ wSetItem tr key it l = A ++ it :: B ∧
      (∀ x ∈ A, cmpStr tr (useful x.orig) key = false) ∧ (∀ x ∈ B, cmpStr tr (useful x.orig) key = false) := by
  obtain ⟨A, B, e, hA, hB, hqy⟩ := filter_singleton_decomp _ l y hgrp
  refine ⟨A, B, e, ?_, hA, hB⟩
  have hpA : ∀ x ∈ A, cmpStr tr key x.session = false := by
    intro x hx
    cases h : cmpStr tr key x.session with
    | false => rfl
    | true =>
      have := (sess_match tr key hk x (hform x (by rw [e]; simp [hx])) h).2
      rw [hA x hx] at this; cases this
  have hpy : cmpStr tr key y.session = true := by
    rw [hy, cmpStr_comm]; exact hqy
  have hff := findFirst_append_hit (fun x : WItem => cmpStr tr key x.session) A y B hpA hpy
  unfold wSetItem
  rw [e, hff]
  simp only [set_mid]
  unfold wAssignSuffixes
  have hsame : (fun z : WItem => cmpStr tr (useful z.orig) (useful it.orig)) =
      (fun z : WItem => cmpStr tr (useful z.orig) key) := by
    funext z; exact cmpStr_congr_right tr _ _ _ hit
  rw [hsame]
  have hf : (A ++ it :: B).filter (fun z : WItem => cmpStr tr (useful z.orig) key) = [it] := by
    rw [List.filter_append, List.filter_cons, hit]
    simp only [if_true]
    rw [List.filter_eq_nil_iff.mpr (fun x hx => by simp [hA x hx]),
      List.filter_eq_nil_iff.mpr (fun x hx => by simp [hB x hx])]
    rfl
  rw [hf]
  simp

/-! ## the session mnemonics of re-read items -/

theorem sessForm_go (rv : Str → WVal) (tr : Bool) (l : List Rd.RItem) (before : List Str) :
    ∀ z ∈ List.zipWith (mkRead rv) (Rd.sessionGo tr before (l.map Rd.U)) l, SessForm z := by
  induction l generalizing before with
  | nil => intro z hz; simp [Rd.sessionGo] at hz
  | cons r rest ih =>
    intro z hz
    simp only [List.map_cons, Rd.sessionGo, List.zipWith_cons_cons, List.mem_cons] at hz
    rcases hz with rfl | hz
    · unfold SessForm
      simp only [mkRead, useful_eq]
      split
      · exact Or.inr ⟨_, rfl⟩
      · exact Or.inl rfl
    · exact ih _ z hz

theorem sessForm_itemsOfRead (rv : Str → WVal) (tr : Bool) (l : List Rd.RItem) :
    ∀ z ∈ itemsOfRead rv tr l, SessForm z :=
  sessForm_go rv tr l []

/-- the single item of a group keeps its useful mnemonic as session mnemonic -/
theorem unsuffixed_go (rv : Str → WVal) (tr : Bool) (key : Str) (l : List Rd.RItem) (before : List Str)
    (hb : ∀ v ∈ before, Rd.mcmp tr v key = false)
    (hone : (l.filter (fun r => Rd.mcmp tr (Rd.U r) key)).length = 1) :
    ∀ z ∈ List.zipWith (mkRead rv) (Rd.sessionGo tr before (l.map Rd.U)) l,
      cmpStr tr (useful z.orig) key = true → z.session = useful z.orig := by
  induction l generalizing before with
  | nil => intro z hz; simp [Rd.sessionGo] at hz
  | cons r rest ih =>
    intro z hz hq
    simp only [List.map_cons, Rd.sessionGo, List.zipWith_cons_cons, List.mem_cons] at hz
    by_cases hr : Rd.mcmp tr (Rd.U r) key = true
    · have hrest : rest.filter (fun r => Rd.mcmp tr (Rd.U r) key) = [] := by
        simp only [List.filter_cons, hr, if_true, List.length_cons] at hone
        exact List.length_eq_zero_iff.mp (by omega)
      rcases hz with rfl | hz
      · have hsame : ∀ v, Rd.mcmp tr v (Rd.U r) = Rd.mcmp tr v key := by
          intro v; rw [Rd.mcmp_eq_ck, Rd.mcmp_eq_ck, (Rd.mcmp_true_iff _ _ _).mp hr]
        have h1 : before.filter (fun v => Rd.mcmp tr v (Rd.U r)) = [] := by
          apply List.filter_eq_nil_iff.mpr
          intro v hv; rw [hsame, hb v hv]; simp
        have h2 : (rest.map Rd.U).filter (fun v => Rd.mcmp tr v (Rd.U r)) = [] := by
          apply List.filter_eq_nil_iff.mpr
          intro v hv
          obtain ⟨r', hr', rfl⟩ := List.mem_map.mp hv
          rw [hsame]
          have := List.filter_eq_nil_iff.mp hrest r' hr'
          simpa using this
        simp only [h1, h2, mkRead, useful_eq, List.length_nil]
        simp
      · exfalso
        obtain ⟨s, r', _, hr', rfl⟩ := mem_zipWith _ z _ _ hz
        have := List.filter_eq_nil_iff.mp hrest r' hr'
        simp only [mkRead, useful_eq, cmpStr_eq] at hq
        exact this hq
    · have hr' : Rd.mcmp tr (Rd.U r) key = false := by simpa using hr
      rcases hz with rfl | hz
      · simp only [mkRead, useful_eq, cmpStr_eq] at hq
        rw [show Rd.usefulMn r.orig = Rd.U r from rfl, hr'] at hq
        cases hq
      · apply ih (before ++ [Rd.U r]) _ _ z hz hq
        · intro v hv
          rcases List.mem_append.mp hv with hv | hv
          · exact hb v hv
          · simp only [List.mem_singleton] at hv; subst hv; exact hr'
        · simpa [List.filter_cons, hr'] using hone

theorem unsuffixed_itemsOfRead (rv : Str → WVal) (tr : Bool) (key : Str) (l : List Rd.RItem)
    (hone : (l.filter (fun r => Rd.mcmp tr (Rd.U r) key)).length = 1) :
    ∀ z ∈ itemsOfRead rv tr l, cmpStr tr (useful z.orig) key = true → z.session = useful z.orig :=
  unsuffixed_go rv tr key l [] (by simp) hone

/-! ## what `set_item` keeps: the written ~Version section holds the VERS and WRAP items `write` substitutes -/

theorem rdExpected_of_text (o : Rd.ReadOpts) {a b : WItem} (h : RH.textOf a = RH.textOf b) :
    rdExpected o a = rdExpected o b := by
  obtain ⟨a1, a2, a3, a4, a5⟩ := a
  obtain ⟨b1, b2, b3, b4, b5⟩ := b
  simp only [RH.textOf, Prod.mk.injEq] at h
  obtain ⟨rfl, rfl, rfl, rfl⟩ := h
  rfl

theorem wRenumber_mem (tr : Bool) (t : Str) (L : List WItem) (k : Nat) :
    ∀ x ∈ L, ∃ z ∈ wRenumber tr t L k, RH.textOf z = RH.textOf x ∧
      (z.session = x.session ∨ ∃ n, z.session = useful x.orig ++ ':' :: natToStr n) := by
  induction L generalizing k with
  | nil => intro x hx; cases hx
  | cons a L ih =>
    intro x hx
    unfold wRenumber
    split
    · rcases List.mem_cons.mp hx with rfl | hx
      · exact ⟨{ x with session := useful x.orig ++ ':' :: natToStr (k + 1) }, List.mem_cons_self, rfl,
          Or.inr ⟨_, rfl⟩⟩
      · obtain ⟨z, hz, h1, h2⟩ := ih (k + 1) x hx
        exact ⟨z, by simp [hz], h1, h2⟩
    · rcases List.mem_cons.mp hx with rfl | hx
      · exact ⟨x, List.mem_cons_self, rfl, Or.inl rfl⟩
      · obtain ⟨z, hz, h1, h2⟩ := ih k x hx
        exact ⟨z, by simp [hz], h1, h2⟩

theorem wAssignSuffixes_mem (tr : Bool) (t : Str) (L : List WItem) :
    ∀ x ∈ L, ∃ z ∈ wAssignSuffixes tr t L, RH.textOf z = RH.textOf x ∧
      (z.session = x.session ∨ ∃ n, z.session = useful x.orig ++ ':' :: natToStr n) := by
  intro x hx
  unfold wAssignSuffixes
  split
  · exact wRenumber_mem tr t L 0 x hx
  · exact ⟨x, hx, rfl, Or.inl rfl⟩

theorem wSetItem_shape (tr : Bool) (key : Str) (it : WItem) (items : List WItem) :
    ∃ L, wSetItem tr key it items = wAssignSuffixes tr (useful it.orig) L ∧ it ∈ L ∧
      ∀ z ∈ items, cmpStr tr key z.session = false → z ∈ L := by
  unfold wSetItem
  cases hf : findFirst (fun x : WItem => cmpStr tr key x.session) items with
  | none => exact ⟨items ++ [it], rfl, by simp, fun z hz _ => by simp [hz]⟩
  | some i =>
    obtain ⟨A, y, B, e, hl, hy, _⟩ := findFirst_decomp _ _ _ hf
    refine ⟨A ++ it :: B, ?_, by simp, ?_⟩
    · rw [e, ← hl]
      simp only [set_mid]
    · intro z hz hp
      rw [e] at hz
      simp only [List.mem_append, List.mem_cons] at hz ⊢
      rcases hz with h | rfl | h
      · exact Or.inl h
      · rw [hy] at hp; cases hp
      · exact Or.inr (Or.inr h)

/-- the new item is in the section afterwards, under its own session mnemonic or a suffixed one -/
theorem wSetItem_has (tr : Bool) (key : Str) (it : WItem) (items : List WItem) :
    ∃ z ∈ wSetItem tr key it items, RH.textOf z = RH.textOf it ∧
      (z.session = it.session ∨ ∃ n, z.session = useful it.orig ++ ':' :: natToStr n) := by
  obtain ⟨L, e, hit, _⟩ := wSetItem_shape tr key it items
  rw [e]
  exact wAssignSuffixes_mem tr _ L it hit

/-- an item whose session mnemonic does not match the key stays -/
theorem wSetItem_keeps (tr : Bool) (key : Str) (it : WItem) (items : List WItem) (z : WItem) (hz : z ∈ items)
    (hp : cmpStr tr key z.session = false) : ∃ z' ∈ wSetItem tr key it items, RH.textOf z' = RH.textOf z := by
  obtain ⟨L, e, _, hk⟩ := wSetItem_shape tr key it items
  rw [e]
  obtain ⟨z', hz', h1, _⟩ := wAssignSuffixes_mem tr (useful it.orig) L z (hk z hz hp)
  exact ⟨z', hz', h1⟩

theorem cmpStr_head_ne (tr : Bool) (a b : Char) (as bs : Str) (h1 : a ≠ b) (h2 : upperC a ≠ upperC b) :
    cmpStr tr (a :: as) (b :: bs) = false := by
  cases tr <;> simp [cmpStr, upper, h1, h2]

theorem versItem_some (version : String) (hver : version = "1.2" ∨ version = "2.0") : ∃ vers, versItem version = some vers := by
  rcases hver with rfl | rfl
  · exact ⟨_, rfl⟩
  · exact ⟨_, rfl⟩

theorem versionCopy_has_vers (version : String) (wrap : Option Bool) (las : WLas) (vers : WItem)
    (hv : versItem version = some vers) : ∃ z ∈ RH.versionCopy version wrap las, RH.textOf z = RH.textOf vers := by
  unfold RH.versionCopy
  rw [hv]
  obtain ⟨z, hz, h1, _⟩ := wSetItem_has las.versionTr "VERS".toList vers (RH.wrapSection wrap las)
  exact ⟨z, hz, h1⟩

/-- the WRAP item `write` puts into ~Version is still there after VERS has been set -/
theorem versionCopy_has_wrap (version : String) (w : Bool) (las : WLas) :
    ∃ z ∈ RH.versionCopy version (some w) las, RH.textOf z = RH.textOf (wrapItem w) := by
  obtain ⟨z0, hz0, ht0, hs0⟩ := wSetItem_has las.versionTr "WRAP".toList (wrapItem w) las.version
  have hsess : cmpStr las.versionTr "VERS".toList z0.session = false := by
    rcases hs0 with e | ⟨n, e⟩
    · rw [e]
      cases w <;> cases las.versionTr <;> decide
    · rw [e]
      have : useful (wrapItem w).orig = 'W' :: "RAP".toList := by cases w <;> decide
      rw [this]
      exact cmpStr_head_ne _ 'V' 'W' _ _ (by decide) (by decide)
  unfold RH.versionCopy
  cases hv : versItem version with
  | none => exact ⟨z0, hz0, ht0⟩
  | some vers =>
    simp only []
    obtain ⟨z', hz', h1⟩ := wSetItem_keeps las.versionTr "VERS".toList vers (RH.wrapSection (some w) las) z0 hz0 hsess
    exact ⟨z', hz', h1.trans ht0⟩

/-! ## the ~Version section of the re-read file is written as the same lines again -/

/-- the reader's `mnemonic_compare` of the (case-mapped, useful) mnemonic of a written item with `key`: the test of
`"VERS" in section` / `section.VERS` (the predicate of `VersOK`) -/
def inGroup (o : Rd.ReadOpts) (key : Str) (it : WItem) : Bool :=
  Rd.mcmp (o.mnemonicCase != .preserve) (Rd.usefulMn (caseMap (RH.cvtCase o.mnemonicCase) it.orig)) key

/-- exactly one item of the written ~Version section is WRAP for the reader -/
def WrapOK (o : Rd.ReadOpts) (vcopy : List WItem) : Prop := ∃ x, vcopy.filter (inGroup o "WRAP".toList) = [x]

theorem versOK_iff (o : Rd.ReadOpts) (version : String) (vcopy : List WItem) :
    VersOK o version vcopy ↔ ∃ x, vcopy.filter (inGroup o "VERS".toList) = [x] ∧ x.value.text = version.toList :=
  Iff.rfl

theorem filter_single_elem {α} (p : α → Bool) (l : List α) (x z : α) (h : l.filter p = [x]) (hz : z ∈ l)
    (hp : p z = true) : z = x := by
  have : z ∈ l.filter p := List.mem_filter.mpr ⟨hz, hp⟩
  rw [h] at this
  simpa using this

theorem inGroup_orig (o : Rd.ReadOpts) (key : Str) {a b : WItem} (h : a.orig = b.orig) :
    inGroup o key a = inGroup o key b := by
  unfold inGroup; rw [h]

/-- the group of `key` in the re-read section is one item, unsuffixed, which reads back like the original one -/
theorem group_reread (o : Rd.ReadOpts) {rv : Str → WVal} (key : Str) (V : List WItem) (x : WItem)
    (hs : ∀ it ∈ V, Spelt rv it.value.text) (h : V.filter (inGroup o key) = [x]) :
    ∃ y, (itemsOfRead rv (o.mnemonicCase != .preserve) (V.map (rdExpected o))).filter
        (fun z => cmpStr (o.mnemonicCase != .preserve) (useful z.orig) key) = [y] ∧
      y.session = useful y.orig ∧ rdExpected o y = rdExpected o x := by
  have hP : (fun r : Rd.RItem => Rd.mcmp (o.mnemonicCase != .preserve) (Rd.U r) key) ∘ rdExpected o = inGroup o key := rfl
  have hR : (V.map (rdExpected o)).filter (fun r => Rd.mcmp (o.mnemonicCase != .preserve) (Rd.U r) key) =
      [rdExpected o x] := by
    rw [List.filter_map, hP, h]; rfl
  have hone : ((V.map (rdExpected o)).filter (fun r => Rd.mcmp (o.mnemonicCase != .preserve) (Rd.U r) key)).length = 1 := by
    rw [hR]; rfl
  have hlen := filter_zipWith_length (mkRead rv)
    (fun z : WItem => cmpStr (o.mnemonicCase != .preserve) (useful z.orig) key)
    (fun r : Rd.RItem => Rd.mcmp (o.mnemonicCase != .preserve) (Rd.U r) key)
    (by intro s r; simp only [mkRead, useful_eq]; rfl)
    (Rd.sessionNames (o.mnemonicCase != .preserve) (V.map (rdExpected o))) (V.map (rdExpected o))
    (sessionNames_length _ _)
  rw [hone] at hlen
  obtain ⟨y, hy⟩ := List.length_eq_one_iff.mp hlen
  refine ⟨y, hy, ?_, ?_⟩
  · have hmem : y ∈ (itemsOfRead rv (o.mnemonicCase != .preserve) (V.map (rdExpected o))).filter
        (fun z => cmpStr (o.mnemonicCase != .preserve) (useful z.orig) key) := by
      unfold itemsOfRead; rw [hy]; simp
    obtain ⟨h1, h2⟩ := List.mem_filter.mp hmem
    exact unsuffixed_itemsOfRead rv _ key _ hone y h1 h2
  · have hmem : y ∈ (itemsOfRead rv (o.mnemonicCase != .preserve) (V.map (rdExpected o))).filter
        (fun z => cmpStr (o.mnemonicCase != .preserve) (useful z.orig) key) := by
      unfold itemsOfRead; rw [hy]; simp
    obtain ⟨h1, h2⟩ := List.mem_filter.mp hmem
    obtain ⟨s, r, hr, rfl⟩ := mem_itemsOfRead rv _ _ y h1
    obtain ⟨x', hx', rfl⟩ := List.mem_map.mp hr
    have hg : inGroup o key x' = true := by
      simp only [mkRead, useful_eq] at h2
      exact h2
    have hxe : x' = x := filter_single_elem _ V x x' h hx' hg
    subst hxe
    exact rdExpected_mkRead o s x' (hs x' hx')

theorem groups_disjoint (tr : Bool) (a : Str) (h : cmpStr tr a "WRAP".toList = true) : cmpStr tr a "VERS".toList = false := by
  cases h2 : cmpStr tr a "VERS".toList with
  | false => rfl
  | true =>
    have e1 := (cmpStr_iff _ _ _).mp h
    have e2 := (cmpStr_iff _ _ _).mp h2
    rw [e1] at e2
    cases tr <;> exact absurd e2 (by decide)

theorem wrapItem_facts (tr : Bool) (w : Bool) :
    (wrapItem w).session = useful (wrapItem w).orig ∧ cmpStr tr (useful (wrapItem w).orig) "WRAP".toList = true ∧
    cmpStr tr (useful (wrapItem w).orig) "VERS".toList = false := by
  cases w <;> cases tr <;> decide

theorem versItem_facts (tr : Bool) (version : String) (vers : WItem) (h : versItem version = some vers) :
    vers.orig = "VERS".toList ∧ vers.session = useful vers.orig ∧ cmpStr tr (useful vers.orig) "VERS".toList = true := by
  unfold versItem at h
  split at h
  · cases h; cases tr <;> decide
  · split at h
    · cases h; cases tr <;> decide
    · cases h

theorem inGroup_VERS (o : Rd.ReadOpts) (it : WItem) (h : it.orig = "VERS".toList) : inGroup o "VERS".toList it = true := by
  obtain ⟨ig, mc⟩ := o
  unfold inGroup
  rw [h]
  cases mc <;> dsimp only <;> decide

theorem inGroup_WRAP (o : Rd.ReadOpts) (it : WItem) (h : it.orig = "WRAP".toList) : inGroup o "WRAP".toList it = true := by
  obtain ⟨ig, mc⟩ := o
  unfold inGroup
  rw [h]
  cases mc <;> dsimp only <;> decide

theorem wrapItem_orig (w : Bool) : (wrapItem w).orig = "WRAP".toList := by cases w <;> rfl

theorem textOf_orig {a b : WItem} (h : RH.textOf a = RH.textOf b) : a.orig = b.orig := congrArg (·.1) h

/-- **The ~Version section is stable.**  `V` is the ~Version section as written the first time (WRAP and VERS
substituted); it holds the VERS item and, when `wrap` is given, the WRAP item `write` substitutes, and exactly one item
of each of the two groups.  `las1` holds the re-read items of `V` (session mnemonics as `SectionItems.append` hands them
out, `mnemonic_transforms` as the reader sets it).  Then the second `write` replaces WRAP and VERS IN PLACE by items
that read back the same: the written copy reads back as the first one did; and `las1.version["WRAP"]` exists. -/
theorem versionCopy_reread (o : Rd.ReadOpts) {rv : Str → WVal} (version : String)
    (wrap : Option Bool) (V : List WItem) (las1 : WLas) (vers xv xw : WItem)
    (hs : ∀ it ∈ V, Spelt rv it.value.text)
    (hvi : versItem version = some vers)
    (hv1 : las1.version = itemsOfRead rv (o.mnemonicCase != .preserve) (V.map (rdExpected o)))
    (htr : las1.versionTr = (o.mnemonicCase != .preserve))
    (hgv : V.filter (inGroup o "VERS".toList) = [xv]) (hgw : V.filter (inGroup o "WRAP".toList) = [xw])
    (hVv : ∃ z ∈ V, RH.textOf z = RH.textOf vers)
    (hVw : ∀ w, wrap = some w → ∃ z ∈ V, RH.textOf z = RH.textOf (wrapItem w)) :
    (RH.versionCopy version wrap las1).map (rdExpected o) = V.map (rdExpected o) ∧
    ∃ i, findFirst (fun x : WItem => cmpStr las1.versionTr x.session "WRAP".toList) las1.version = some i := by
  have hkV : ':' ∉ Rd.ck (o.mnemonicCase != .preserve) "VERS".toList :=
    Rd.steerKey_nocolon _ _ (by simp [Rd.steerKeys])
  have hkW : ':' ∉ Rd.ck (o.mnemonicCase != .preserve) "WRAP".toList :=
    Rd.steerKey_nocolon _ _ (by simp [Rd.steerKeys])
  obtain ⟨yv, hfv, hsv, hrv'⟩ := group_reread (rv := rv) o "VERS".toList V xv hs hgv
  obtain ⟨yw, hfw, hsw, hrw'⟩ := group_reread (rv := rv) o "WRAP".toList V xw hs hgw
  rw [← hv1] at hfv hfw
  have hform : ∀ z ∈ las1.version, SessForm z := by
    rw [hv1]; exact sessForm_itemsOfRead rv _ _
  obtain ⟨hvo, hvs, hvq⟩ := versItem_facts (o.mnemonicCase != .preserve) version vers hvi
  -- the unique VERS item of `V` is the substituted one
  have hxv : rdExpected o xv = rdExpected o vers := by
    obtain ⟨z, hz, hzt⟩ := hVv
    have : z = xv := filter_single_elem _ V xv z hgv hz (inGroup_VERS o z ((textOf_orig hzt).trans hvo))
    rw [← this]; exact rdExpected_of_text o hzt
  have hmapV1 : las1.version.map (rdExpected o) = V.map (rdExpected o) := by
    rw [hv1]; exact map_rdExpected_itemsOfRead o _ V hs
  -- `las1.version["WRAP"]` exists
  have hqyw : cmpStr (o.mnemonicCase != .preserve) (useful yw.orig) "WRAP".toList = true := by
    have : yw ∈ las1.version.filter (fun z => cmpStr (o.mnemonicCase != .preserve) (useful z.orig) "WRAP".toList) := by
      rw [hfw]; simp
    exact (List.mem_filter.mp this).2
  have hfind : ∃ i, findFirst (fun x : WItem => cmpStr las1.versionTr x.session "WRAP".toList) las1.version = some i := by
    obtain ⟨A, B, e, _, _, _⟩ := filter_singleton_decomp _ _ _ hfw
    cases hf : findFirst (fun x : WItem => cmpStr las1.versionTr x.session "WRAP".toList) las1.version with
    | some i => exact ⟨i, rfl⟩
    | none =>
      exfalso
      have := findFirst_none_all _ _ hf yw (by rw [e]; simp)
      simp only [htr, hsw, hqyw] at this
      cases this
  refine ⟨?_, hfind⟩
  cases wrap with
  | none =>
    have hvc : RH.versionCopy version none las1 = wSetItem las1.versionTr "VERS".toList vers las1.version := by
      simp [RH.versionCopy, RH.wrapSection, hvi]
    rw [hvc, htr]
    obtain ⟨A, B, e, hset, _, _⟩ := wSetItem_unique _ "VERS".toList hkV vers yv las1.version hform hfv hsv hvq
    rw [hset, ← hmapV1, e]
    simp only [List.map_append, List.map_cons, hrv', hxv]
  | some w =>
    obtain ⟨hws, hwq, hwn⟩ := wrapItem_facts (o.mnemonicCase != .preserve) w
    have hxw : rdExpected o xw = rdExpected o (wrapItem w) := by
      obtain ⟨z, hz, hzt⟩ := hVw w rfl
      have : z = xw := filter_single_elem _ V xw z hgw hz (inGroup_WRAP o z ((textOf_orig hzt).trans (wrapItem_orig w)))
      rw [← this]; exact rdExpected_of_text o hzt
    have hvc : RH.versionCopy version (some w) las1 = wSetItem las1.versionTr "VERS".toList vers
        (wSetItem las1.versionTr "WRAP".toList (wrapItem w) las1.version) := by
      simp [RH.versionCopy, RH.wrapSection, hvi]
    rw [hvc, htr]
    obtain ⟨A, B, e, hset, hA, hB⟩ := wSetItem_unique _ "WRAP".toList hkW (wrapItem w) yw las1.version hform hfw hsw hwq
    rw [hset]
    have hform2 : ∀ z ∈ A ++ wrapItem w :: B, SessForm z := by
      intro z hz
      simp only [List.mem_append, List.mem_cons] at hz
      rcases hz with h | rfl | h
      · exact hform z (by rw [e]; simp [h])
      · exact Or.inl hws
      · exact hform z (by rw [e]; simp [h])
    have hfv2 : (A ++ wrapItem w :: B).filter (fun z => cmpStr (o.mnemonicCase != .preserve) (useful z.orig) "VERS".toList) = [yv] := by
      rw [← hfv, e]
      simp only [List.filter_append, List.filter_cons, hwn, groups_disjoint _ _ hqyw, Bool.false_eq_true, if_false]
    obtain ⟨A', B', e', hset', _, _⟩ := wSetItem_unique _ "VERS".toList hkV vers yv _ hform2 hfv2 hsv hvq
    rw [hset']
    have h1 : (A' ++ vers :: B').map (rdExpected o) = (A ++ wrapItem w :: B).map (rdExpected o) := by
      rw [e']
      simp only [List.map_append, List.map_cons, hrv', hxv]
    rw [h1, ← hmapV1, e]
    simp only [List.map_append, List.map_cons, hrw', hxw]

/-! ## the LASFile of a re-read header, and the cycle -/

/-- the items stored under key `k` of `las.sections` -/
def secItems (k : Rd.RKey) (secs : List (Rd.RKey × Rd.SecVal)) : List Rd.RItem :=
  match secs.lookup k with
  | some (.items l) => l
  | _ => []

/-- the text stored under key `k` -/
def secText (k : Rd.RKey) (secs : List (Rd.RKey × Rd.SecVal)) : Str :=
  match secs.lookup k with
  | some (.text t) => t
  | _ => []

/-- **The LASFile (header part) that `read` builds from the sections it parsed**: every section holds exactly the
re-read items — mnemonic as read, session mnemonics as `SectionItems.append` hands them out, value = the text that was
read re-typed by `rv` (`num()`; `WVal.str` keeps the text as a `str`) — `mnemonic_transforms` is `mnemonic_case != "preserve"`,
~Other is the stored text. -/
def lasOfRead (rv : Str → WVal) (o : Rd.ReadOpts) (secs : List (Rd.RKey × Rd.SecVal)) : WLas :=
  ⟨itemsOfRead rv (o.mnemonicCase != .preserve) (secItems Rd.kVersion secs), o.mnemonicCase != .preserve,
   itemsOfRead rv (o.mnemonicCase != .preserve) (secItems Rd.kWell secs),
   itemsOfRead rv (o.mnemonicCase != .preserve) (secItems Rd.kCurves secs),
   itemsOfRead rv (o.mnemonicCase != .preserve) (secItems Rd.kParameter secs),
   secText Rd.kOther secs⟩

/-- what the reader returns for the header `write` emits for `las` (the right-hand side of `C03_file`) -/
def firstRead (o : Rd.ReadOpts) (version : String) (wrap : Option Bool) (las : WLas) : List (Rd.RKey × Rd.SecVal) :=
  [(Rd.kVersion, .items ((RH.versionCopy version wrap las).map (rdExpected o))),
   (Rd.kWell, .items ((standardizeItems las.well).map (rdExpected o))),
   (Rd.kCurves, .items (las.curves.map (rdExpected o))),
   (Rd.kParameter, .items ((standardizeItems las.params).map (rdExpected o))),
   (Rd.kOther, .text (otherRead las.other))]

theorem lasOfRead_firstRead (rv : Str → WVal) (o : Rd.ReadOpts) (version : String) (wrap : Option Bool) (las : WLas) :
    lasOfRead rv o (firstRead o version wrap las) =
      ⟨itemsOfRead rv (o.mnemonicCase != .preserve) ((RH.versionCopy version wrap las).map (rdExpected o)),
       o.mnemonicCase != .preserve,
       itemsOfRead rv (o.mnemonicCase != .preserve) ((standardizeItems las.well).map (rdExpected o)),
       itemsOfRead rv (o.mnemonicCase != .preserve) (las.curves.map (rdExpected o)),
       itemsOfRead rv (o.mnemonicCase != .preserve) ((standardizeItems las.params).map (rdExpected o)),
       otherRead las.other⟩ := rfl

/-- the hypotheses of `C03_file` on `las` (+ no DLM item in ~Version, needed for `readLines`) -/
structure FileConf (o : Rd.ReadOpts) (version : String) (wrap : Option Bool) (las : WLas) : Prop where
  hcv : ∀ it ∈ RH.versionCopy version wrap las, TextConf .version it
  hcw : ∀ it ∈ standardizeItems las.well, TextConf .well it
  hcc : ∀ it ∈ las.curves, TextConf .curves it
  hcp : ∀ it ∈ standardizeItems las.params, TextConf .parameter it
  hmv : ∀ it ∈ RH.versionCopy version wrap las, it.orig.head? ≠ some '#' ∧ it.orig.head? ≠ some '~'
  hmw : ∀ it ∈ las.well, it.orig.head? ≠ some '#' ∧ it.orig.head? ≠ some '~'
  hmc : ∀ it ∈ las.curves, it.orig.head? ≠ some '#' ∧ it.orig.head? ≠ some '~'
  hmp : ∀ it ∈ las.params, it.orig.head? ≠ some '#' ∧ it.orig.head? ≠ some '~'
  hvers : VersOK o version (RH.versionCopy version wrap las)
  ho : OtherOK las.other
  hdlm : ∀ it ∈ RH.versionCopy version wrap las, upper it.orig ≠ "DLM".toList

/-- `C03_file` in terms of `firstRead` -/
theorem read_written (o : Rd.ReadOpts) (version : String) (wrap : Option Bool) (w : Nat) (las las' : WLas)
    (lines : List Str) (h : headerLines version wrap w las = .ok (lines, las')) (hc : FileConf o version wrap las) :
    ∃ steer, Rd.readLines o lines = .ok ⟨firstRead o version wrap las, steer, []⟩ ∧ steer.vers = some version.toList := by
  obtain ⟨_, _, _, _, hr⟩ := C03_file o version wrap w las las' lines h hc.hcv hc.hcw hc.hcc hc.hcp hc.hmv hc.hmw
    hc.hmc hc.hmp hc.hvers hc.ho
  exact hr hc.hdlm

/-- `write` succeeds on the header: the version is 1.2 or 2.0, and with `wrap=None` the ~Version section has a WRAP item -/
theorem headerLines_total (version : String) (wrap : Option Bool) (w : Nat) (las : WLas)
    (hver : version = "1.2" ∨ version = "2.0")
    (hwk : wrap = none → ∃ i, findFirst (fun x : WItem => cmpStr las.versionTr x.session "WRAP".toList) las.version = some i) :
    ∃ lines las', headerLines version wrap w las = .ok (lines, las') := by
  obtain ⟨vers, hv⟩ := versItem_some version hver
  have tot := fun kind hk items => C03_writeSection_total version hver kind hk items
  have hsec : ∃ secs las', headerSections version wrap las = .ok (secs, las') := by
    unfold headerSections
    cases wrap with
    | none =>
      obtain ⟨i, hi⟩ := hwk rfl
      obtain ⟨lv, hlv⟩ := tot .version (by decide) (wSetItem las.versionTr "VERS".toList vers las.version)
      obtain ⟨lw, hlw⟩ := tot .well (by decide) (standardizeItems las.well)
      obtain ⟨lc, hlc⟩ := tot .curves (by decide) las.curves
      obtain ⟨lp, hlp⟩ := tot .parameter (by decide) (standardizeItems las.params)
      simp only [secKey] at hlv hlw hlc hlp
      simp only [hi, hv, bind, Except.bind, pure, Except.pure, hlv, hlw, hlc, hlp]
      exact ⟨_, _, rfl⟩
    | some b =>
      obtain ⟨lv, hlv⟩ := tot .version (by decide)
        (wSetItem las.versionTr "VERS".toList vers (wSetItem las.versionTr "WRAP".toList (wrapItem b) las.version))
      obtain ⟨lw, hlw⟩ := tot .well (by decide) (standardizeItems las.well)
      obtain ⟨lc, hlc⟩ := tot .curves (by decide) las.curves
      obtain ⟨lp, hlp⟩ := tot .parameter (by decide) (standardizeItems las.params)
      simp only [secKey] at hlv hlw hlc hlp
      simp only [hv, bind, Except.bind, pure, Except.pure, hlv, hlw, hlc, hlp]
      exact ⟨_, _, rfl⟩
  obtain ⟨secs, las', hs⟩ := hsec
  unfold headerLines
  rw [hs]
  exact ⟨_, _, rfl⟩

theorem headerLines_version (version : String) (wrap : Option Bool) (w : Nat) (las las' : WLas) (lines : List Str)
    (h : headerLines version wrap w las = .ok (lines, las')) : version = "1.2" ∨ version = "2.0" := by
  unfold headerLines at h
  cases hs : headerSections version wrap las with
  | error e => rw [hs] at h; cases h
  | ok r =>
    obtain ⟨secs, l2⟩ := r
    exact (RH.headerSections_ok version wrap las l2 secs hs).1

/-- a filter by a test on the read-back item only depends on the read-back list -/
theorem filter_inGroup_of_map (o : Rd.ReadOpts) (key : Str) (l1 l2 : List WItem) (x : WItem)
    (hm : l1.map (rdExpected o) = l2.map (rdExpected o)) (h : l2.filter (inGroup o key) = [x]) :
    ∃ x1, l1.filter (inGroup o key) = [x1] ∧ rdExpected o x1 = rdExpected o x := by
  have hP : (fun r : Rd.RItem => Rd.mcmp (o.mnemonicCase != .preserve) (Rd.U r) key) ∘ rdExpected o = inGroup o key := rfl
  have e1 : (l1.filter (inGroup o key)).map (rdExpected o) = [rdExpected o x] := by
    rw [← hP, ← List.filter_map, hm, List.filter_map, hP, h]; rfl
  cases hl : l1.filter (inGroup o key) with
  | nil => rw [hl] at e1; cases e1
  | cons a t =>
    rw [hl] at e1
    cases t with
    | nil =>
      simp only [List.map_cons, List.map_nil, List.cons.injEq, and_true] at e1
      exact ⟨a, rfl, e1⟩
    | cons b t => simp at e1

/-- the extra hypotheses of the fixed-point theorem -/
structure CycleConf (o : Rd.ReadOpts) (version : String) (wrap : Option Bool) (las : WLas) : Prop where
  hwrap : WrapOK o (RH.versionCopy version wrap las)
  hvw : ∀ it ∈ standardizeItems las.well, ValueShown it
  hvp : ∀ it ∈ standardizeItems las.params, ValueShown it
  hol : OtherLast las.other

theorem valueShown_itemsOfRead (o : Rd.ReadOpts) {rv : Str → WVal} (tr : Bool)
    (items : List WItem) (hs : ∀ it ∈ items, Spelt rv it.value.text) (h : ∀ it ∈ items, ValueShown it) :
    ∀ z ∈ itemsOfRead rv tr (items.map (rdExpected o)), ValueShown z := by
  intro z hz
  obtain ⟨s, r, hr, rfl⟩ := mem_itemsOfRead rv tr _ z hz
  obtain ⟨it, hit, rfl⟩ := List.mem_map.mp hr
  have := hs it hit
  unfold Spelt at this
  simpa [ValueShown, mkRead, rdExpected, this] using h it hit

theorem spelt_itemsOfRead (o : Rd.ReadOpts) {rv : Str → WVal} (tr : Bool)
    (items : List WItem) (hs : ∀ it ∈ items, Spelt rv it.value.text) :
    ∀ z ∈ itemsOfRead rv tr (items.map (rdExpected o)), Spelt rv z.value.text := by
  intro z hz
  obtain ⟨s, r, hr, rfl⟩ := mem_itemsOfRead rv tr _ z hz
  obtain ⟨it, hit, rfl⟩ := List.mem_map.mp hr
  have := hs it hit
  unfold Spelt at this ⊢
  simp only [mkRead, rdExpected, this]

/-- the items `write` formats -/
def writtenItems (version : String) (wrap : Option Bool) (las : WLas) : List WItem :=
  RH.versionCopy version wrap las ++ standardizeItems las.well ++ las.curves ++ standardizeItems las.params

/-- every value `write` prints is spelt as the re-typed re-read value prints (`str(num(t)) = t`) -/
def SpeltConf (rv : Str → WVal) (version : String) (wrap : Option Bool) (las : WLas) : Prop :=
  ∀ it ∈ writtenItems version wrap las, Spelt rv it.value.text

theorem speltConf_str (version : String) (wrap : Option Bool) (las : WLas) : SpeltConf WVal.str version wrap las :=
  fun _ _ => rfl

/-- **The cycle.**  `las` satisfies the hypotheses of `C03_file` and the four extra ones; `las1` is the LASFile of the first
re-read.  Then `las1` satisfies all of them again, `write` succeeds on it, and what the reader returns for its header is what
it returned for the header of `las`. -/
theorem cycle_core (o : Rd.ReadOpts) {rv : Str → WVal} (hrv : Retype rv) (version : String) (wrap : Option Bool)
    (las : WLas) (hver : version = "1.2" ∨ version = "2.0")
    (hc : FileConf o version wrap las) (hx : CycleConf o version wrap las) (hsp : SpeltConf rv version wrap las) :
    FileConf o version wrap (lasOfRead rv o (firstRead o version wrap las)) ∧
    CycleConf o version wrap (lasOfRead rv o (firstRead o version wrap las)) ∧
    SpeltConf rv version wrap (lasOfRead rv o (firstRead o version wrap las)) ∧
    firstRead o version wrap (lasOfRead rv o (firstRead o version wrap las)) = firstRead o version wrap las ∧
    (∀ w, ∃ lines las', headerLines version wrap w (lasOfRead rv o (firstRead o version wrap las)) = .ok (lines, las')) := by
  rw [lasOfRead_firstRead]
  generalize hl1 : (⟨itemsOfRead rv (o.mnemonicCase != .preserve) ((RH.versionCopy version wrap las).map (rdExpected o)),
       o.mnemonicCase != .preserve,
       itemsOfRead rv (o.mnemonicCase != .preserve) ((standardizeItems las.well).map (rdExpected o)),
       itemsOfRead rv (o.mnemonicCase != .preserve) (las.curves.map (rdExpected o)),
       itemsOfRead rv (o.mnemonicCase != .preserve) ((standardizeItems las.params).map (rdExpected o)),
       otherRead las.other⟩ : WLas) = las1
  have e1 : las1.version = itemsOfRead rv (o.mnemonicCase != .preserve) ((RH.versionCopy version wrap las).map (rdExpected o)) := by
    rw [← hl1]
  have e2 : las1.versionTr = (o.mnemonicCase != .preserve) := by rw [← hl1]
  have e3 : las1.well = itemsOfRead rv (o.mnemonicCase != .preserve) ((standardizeItems las.well).map (rdExpected o)) := by
    rw [← hl1]
  have e4 : las1.curves = itemsOfRead rv (o.mnemonicCase != .preserve) (las.curves.map (rdExpected o)) := by rw [← hl1]
  have e5 : las1.params = itemsOfRead rv (o.mnemonicCase != .preserve) ((standardizeItems las.params).map (rdExpected o)) := by
    rw [← hl1]
  have e6 : las1.other = otherRead las.other := by rw [← hl1]
  have hsV : ∀ it ∈ RH.versionCopy version wrap las, Spelt rv it.value.text :=
    fun it h => hsp it (by simp [writtenItems, h])
  have hsW : ∀ it ∈ standardizeItems las.well, Spelt rv it.value.text :=
    fun it h => hsp it (by simp [writtenItems, h])
  have hsC : ∀ it ∈ las.curves, Spelt rv it.value.text :=
    fun it h => hsp it (by simp [writtenItems, h])
  have hsP : ∀ it ∈ standardizeItems las.params, Spelt rv it.value.text :=
    fun it h => hsp it (by simp [writtenItems, h])
  obtain ⟨vers, hvi⟩ := versItem_some version hver
  obtain ⟨xv, hgv, hxvv⟩ := (versOK_iff o version _).mp hc.hvers
  obtain ⟨xw, hgw⟩ := hx.hwrap
  -- the ~Version section
  obtain ⟨hS, hfind⟩ := versionCopy_reread o version wrap (RH.versionCopy version wrap las) las1 vers xv xw hsV hvi e1 e2
    hgv hgw (versionCopy_has_vers version wrap las vers hvi)
    (by intro w hw; subst hw; exact versionCopy_has_wrap version w las)
  -- ~Well / ~Parameter are not touched by the normalisation
  have sw : standardizeItems las1.well = las1.well := by
    rw [e3]; exact standardizeItems_itemsOfRead o hrv _ _ hx.hvw
  have sp : standardizeItems las1.params = las1.params := by
    rw [e5]; exact standardizeItems_itemsOfRead o hrv _ _ hx.hvp
  have hmw' := standardizeItems_orig las.well (fun o => o.head? ≠ some '#' ∧ o.head? ≠ some '~') hc.hmw
  have hmp' := standardizeItems_orig las.params (fun o => o.head? ≠ some '#' ∧ o.head? ≠ some '~') hc.hmp
  obtain ⟨hcv1, hmv1⟩ := C03_versionCopy_conf version wrap las1
    (by rw [e1]; exact conf_itemsOfRead o .version _ _ hsV hc.hcv)
    (by rw [e1]; exact mark_itemsOfRead o rv _ _ hc.hmv)
  obtain ⟨x1, hx1, hx1r⟩ := filter_inGroup_of_map o "VERS".toList _ _ xv hS hgv
  obtain ⟨xw1, hxw1, _⟩ := filter_inGroup_of_map o "WRAP".toList _ _ xw hS hgw
  refine ⟨⟨hcv1, ?_, ?_, ?_, hmv1, ?_, ?_, ?_, ?_, ?_, ?_⟩, ⟨⟨xw1, hxw1⟩, ?_, ?_, ?_⟩, ?_, ?_, ?_⟩
  · rw [sw, e3]; exact conf_itemsOfRead o .well _ _ hsW hc.hcw
  · rw [e4]; exact conf_itemsOfRead o .curves _ _ hsC hc.hcc
  · rw [sp, e5]; exact conf_itemsOfRead o .parameter _ _ hsP hc.hcp
  · rw [e3]; exact mark_itemsOfRead o rv _ _ hmw'
  · rw [e4]; exact mark_itemsOfRead o rv _ _ hc.hmc
  · rw [e5]; exact mark_itemsOfRead o rv _ _ hmp'
  · refine (versOK_iff o version _).mpr ⟨x1, hx1, ?_⟩
    have := congrArg (·.value) hx1r
    simp only [rdExpected] at this
    rw [this, hxvv]
  · rw [e6]; exact otherOK_otherRead _ hx.hol hc.ho
  · intro it hit
    have : rdExpected o it ∈ (RH.versionCopy version wrap las).map (rdExpected o) := by
      rw [← hS]; exact List.mem_map_of_mem hit
    obtain ⟨x, hxm, hxe⟩ := List.mem_map.mp this
    have ho := congrArg (fun r => upper r.orig) hxe
    simp only [rdExpected, upper_caseMap] at ho
    rw [← ho]
    exact hc.hdlm x hxm
  · rw [sw, e3]; exact valueShown_itemsOfRead o _ _ hsW hx.hvw
  · rw [sp, e5]; exact valueShown_itemsOfRead o _ _ hsP hx.hvp
  · rw [e6]; exact otherLast_otherRead _ hx.hol
  · intro it hit
    simp only [writtenItems, List.mem_append] at hit
    rcases hit with ((hit | hit) | hit) | hit
    · have : rdExpected o it ∈ (RH.versionCopy version wrap las).map (rdExpected o) := by
        rw [← hS]; exact List.mem_map_of_mem hit
      obtain ⟨x, hxm, hxe⟩ := List.mem_map.mp this
      have hv := congrArg (·.value) hxe
      simp only [rdExpected] at hv
      unfold Spelt
      rw [← hv]
      exact hsV x hxm
    · rw [sw, e3] at hit; exact spelt_itemsOfRead o _ _ hsW it hit
    · rw [e4] at hit; exact spelt_itemsOfRead o _ _ hsC it hit
    · rw [sp, e5] at hit; exact spelt_itemsOfRead o _ _ hsP it hit
  · unfold firstRead
    rw [hS, sw, sp, e3, e4, e5, e6, map_rdExpected_itemsOfRead o _ _ hsW, map_rdExpected_itemsOfRead o _ _ hsC,
      map_rdExpected_itemsOfRead o _ _ hsP, otherRead_idem _ hx.hol]
  · intro w
    exact headerLines_total version wrap w las1 hver (fun _ => hfind)

end Lasio.Cy
