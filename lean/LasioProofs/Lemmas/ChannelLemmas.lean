import LasioModel.Channel
/-
Helper lemmas for C10: universal-newline translation (`univNL`), line splitting (`splitLF`) under `strip`,
and the well-formedness invariant / non-interference of the object world (`World`).
-/
namespace Lasio

/-! ### `univNL` -/

/-- every '\r' is immediately followed by '\n' -/
def NoLoneCR : Str → Prop
  | [] => True
  | c :: t => (c = '\r' → t.head? = some '\n') ∧ NoLoneCR t

instance NoLoneCR.decidable : (t : Str) → Decidable (NoLoneCR t)
  | [] => .isTrue trivial
  | c :: t =>
    have := NoLoneCR.decidable t
    inferInstanceAs (Decidable ((c = '\r' → t.head? = some '\n') ∧ NoLoneCR t))

theorem univNL_nil : univNL [] = [] := univNL.eq_1

theorem univNL_crlf (t : Str) : univNL ('\r' :: '\n' :: t) = '\n' :: univNL t := univNL.eq_2 t

theorem univNL_cr (t : Str) (h : t.head? ≠ some '\n') : univNL ('\r' :: t) = '\n' :: univNL t := by
  apply univNL.eq_3
  intro t' ht
  subst ht
  exact h rfl

theorem univNL_other (c : Char) (t : Str) (h : c ≠ '\r') : univNL (c :: t) = c :: univNL t :=
  univNL.eq_4 c t (fun _ hc _ => h hc) h

theorem univNL_noCR (t : Str) : '\r' ∉ univNL t := by
  fun_induction univNL t with
  | case1 => simp
  | case2 t ih => simpa using ih
  | case3 t _ ih => simpa using ih
  | case4 c t _ hc ih =>
    simp only [List.mem_cons, not_or]
    exact ⟨fun h => hc h.symm, ih⟩

theorem univNL_of_noCR (t : Str) (h : '\r' ∉ t) : univNL t = t := by
  induction t with
  | nil => exact univNL_nil
  | cons c t ih =>
    simp only [List.mem_cons, not_or] at h
    rw [univNL_other c t (fun hc => h.1 hc.symm), ih h.2]

theorem univNL_idem (t : Str) : univNL (univNL t) = univNL t :=
  univNL_of_noCR _ (univNL_noCR t)

/-! ### `strip` ignores a trailing CR -/

theorem isPySpace_cr : isPySpace '\r' = true := by decide

theorem rstrip_append_cr (l : Str) : rstrip (l ++ ['\r']) = rstrip l := by
  unfold rstrip
  simp [List.reverse_append, isPySpace_cr]

theorem strip_append_cr (l : Str) : strip (l ++ ['\r']) = strip l := by
  unfold strip
  have h : lstrip (l ++ ['\r']) = if (lstrip l).isEmpty then lstrip ['\r'] else lstrip l ++ ['\r'] := by
    unfold lstrip; exact List.dropWhile_append
  rw [h]
  split
  · rename_i he
    have h0 : lstrip l = [] := by simpa using he
    rw [h0]
    simp [lstrip, isPySpace_cr]
  · exact rstrip_append_cr _

/-! ### `splitLF` -/

theorem splitLF_ne_nil (t : Str) : splitLF t ≠ [] := by
  cases t with
  | nil => simp [splitLF]
  | cons c t =>
    rw [splitLF]
    split
    · simp
    · split <;> simp

theorem splitLF_lf (t : Str) : splitLF ('\n' :: t) = [] :: splitLF t := by
  rw [splitLF]; simp

theorem splitLF_other (c : Char) (t : Str) (h : c ≠ '\n') :
    ∃ l ls, splitLF t = l :: ls ∧ splitLF (c :: t) = (c :: l) :: ls := by
  cases hs : splitLF t with
  | nil => exact absurd hs (splitLF_ne_nil t)
  | cons l ls =>
    refine ⟨l, ls, rfl, ?_⟩
    rw [splitLF, hs]
    simp [h]

/-- line-wise: equal, or the right one has one extra trailing CR -/
def LinesRel : List Str → List Str → Prop
  | [], [] => True
  | a :: as, b :: bs => (b = a ∨ b = a ++ ['\r']) ∧ LinesRel as bs
  | _, _ => False

theorem LinesRel.map_strip : ∀ (xs ys : List Str), LinesRel xs ys → xs.map strip = ys.map strip
  | [], [], _ => rfl
  | a :: as, b :: bs, h => by
    obtain ⟨hab, hr⟩ := h
    simp only [List.map_cons]
    rw [LinesRel.map_strip as bs hr]
    rcases hab with rfl | rfl
    · rfl
    · rw [strip_append_cr]
  | [], _ :: _, h => h.elim
  | _ :: _, [], h => h.elim

/-- with CRLF only, universal-newline translation removes exactly the CR at the end of each line -/
theorem splitLF_univNL_rel (t : Str) (h : NoLoneCR t) : LinesRel (splitLF (univNL t)) (splitLF t) := by
  fun_induction univNL t with
  | case1 => simp [splitLF, LinesRel]
  | case2 t ih =>
    have ht : NoLoneCR t := h.2.2
    obtain ⟨l, ls, h1, h2⟩ := splitLF_other '\r' ('\n' :: t) (by decide)
    rw [splitLF_lf] at h1
    obtain ⟨rfl, rfl⟩ := List.cons.inj h1
    rw [h2, splitLF_lf]
    exact ⟨Or.inr rfl, ih ht⟩
  | case3 t hn _ =>
    exfalso
    have := h.1 rfl
    cases t with
    | nil => simp at this
    | cons d t =>
      have hd : d = '\n' := by simpa using this
      exact hn t (by rw [hd])
  | case4 c t _ hc ih =>
    have ih := ih h.2
    by_cases hlf : c = '\n'
    · subst hlf
      rw [splitLF_lf, splitLF_lf]
      exact ⟨Or.inl rfl, ih⟩
    · obtain ⟨l, ls, h1, h2⟩ := splitLF_other c (univNL t) hlf
      obtain ⟨l', ls', h1', h2'⟩ := splitLF_other c t hlf
      rw [h1, h1'] at ih
      rw [h2, h2']
      refine ⟨?_, ih.2⟩
      rcases ih.1 with rfl | rfl
      · exact Or.inl rfl
      · exact Or.inr rfl

/-- with CRLF (no lone CR) the stripped lines are the same before and after universal-newline translation -/
theorem splitLF_univNL_strip (t : Str) (h : NoLoneCR t) :
    (splitLF (univNL t)).map strip = (splitLF t).map strip :=
  LinesRel.map_strip _ _ (splitLF_univNL_rel t h)

/-! ### object world: well-formedness -/

/-- well-formed world: every object's section ids are `< heap.length`, the ids within an object are distinct, the ids
of different objects are disjoint (no section object is shared), and the cache is unused -/
def WF (w : World) : Prop :=
  (∀ (i : Nat) (a : LasObj), w.objs[i]? = some a → ∀ id ∈ a.secs, id < w.heap.length) ∧
  (∀ (i : Nat) (a : LasObj), w.objs[i]? = some a → a.secs.Nodup) ∧
  (∀ (i j : Nat) (a b : LasObj), i ≠ j → w.objs[i]? = some a → w.objs[j]? = some b → ∀ id ∈ a.secs, id ∉ b.secs) ∧
  w.cache = none

theorem wf_init : WF World.init := by
  refine ⟨?_, ?_, ?_, rfl⟩ <;> simp [World.init]

/-- one parsed section of `World.read` -/
def World.readStep (o : Nat) (w : World) (p : Nat × SecObj) : World :=
  match w.objs[o]? with
  | some ob =>
    if p.1 < ob.secs.length then
      { w with heap := w.heap ++ [p.2], objs := w.objs.set o ⟨ob.secs.set p.1 w.heap.length⟩ }
    else w
  | none => w

theorem World.read_eq (w : World) (o : Nat) (parsed : List (Nat × SecObj)) :
    w.read o parsed = parsed.foldl (World.readStep o) w := rfl

theorem newLas_true (w : World) :
    w.newLas true =
      { heap := w.heap ++ defaultContents,
        objs := w.objs ++ [⟨(List.range defaultContents.length).map (· + w.heap.length)⟩],
        cache := w.cache } := by
  unfold World.newLas
  split
  · rename_i h _; cases h
  · rfl

theorem getElem?_append_singleton_some {α} (l : List α) (x a : α) (i : Nat) (h : (l ++ [x])[i]? = some a) :
    l[i]? = some a ∨ (i = l.length ∧ a = x) := by
  rcases Nat.lt_or_ge i l.length with hlt | hge
  · rw [List.getElem?_append_left hlt] at h; exact Or.inl h
  · rw [List.getElem?_append_right hge] at h
    right
    cases hk : i - l.length with
    | zero => rw [hk] at h; simp at h; exact ⟨by omega, h.symm⟩
    | succ k => rw [hk] at h; simp at h

theorem getElem?_set_some {α} (l : List α) (x a : α) (o i : Nat) (h : (l.set o x)[i]? = some a) :
    (i = o ∧ a = x) ∨ (i ≠ o ∧ l[i]? = some a) := by
  rw [List.getElem?_set] at h
  split at h
  · rename_i ho
    split at h
    · exact Or.inl ⟨ho.symm, (Option.some.inj h).symm⟩
    · cases h
  · rename_i ho
    exact Or.inr ⟨fun hh => ho hh.symm, h⟩

theorem nodup_set_fresh (l : List Nat) (k n : Nat) (hl : l.Nodup) (hn : n ∉ l) : (l.set k n).Nodup := by
  induction l generalizing k with
  | nil => simp
  | cons a l ih =>
    rw [List.nodup_cons] at hl
    simp only [List.mem_cons, not_or] at hn
    cases k with
    | zero => rw [List.set_cons_zero, List.nodup_cons]; exact ⟨hn.2, hl.2⟩
    | succ k =>
      rw [List.set_cons_succ, List.nodup_cons]
      refine ⟨fun hm => ?_, ih k hl.2 hn.2⟩
      rcases List.mem_or_eq_of_mem_set hm with h | h
      · exact hl.1 h
      · exact hn.1 h.symm

theorem nodup_range_shift (k n : Nat) : ((List.range k).map (· + n)).Nodup := by
  apply List.Pairwise.map _ _ (List.nodup_range (n := k))
  intro a b hab; omega

theorem wf_newLas (w : World) (h : WF w) : WF (w.newLas true) := by
  obtain ⟨h1, h2, h3, h4⟩ := h
  rw [newLas_true]
  refine ⟨?_, ?_, ?_, h4⟩
  · intro i a hi id hid
    simp only [List.length_append]
    rcases getElem?_append_singleton_some _ _ _ _ hi with hi | ⟨_, rfl⟩
    · have := h1 i a hi id hid; omega
    · simp only [List.mem_map, List.mem_range] at hid
      obtain ⟨j, hj, rfl⟩ := hid; omega
  · intro i a hi
    rcases getElem?_append_singleton_some _ _ _ _ hi with hi | ⟨_, rfl⟩
    · exact h2 i a hi
    · exact nodup_range_shift _ _
  · intro i j a b hij hi hj id hida hidb
    rcases getElem?_append_singleton_some _ _ _ _ hi with hi | ⟨hil, rfl⟩ <;>
    rcases getElem?_append_singleton_some _ _ _ _ hj with hj | ⟨hjl, rfl⟩
    · exact h3 i j a b hij hi hj id hida hidb
    · have := h1 i a hi id hida
      simp only [List.mem_map, List.mem_range] at hidb
      obtain ⟨m, _, rfl⟩ := hidb; omega
    · have := h1 j b hj id hidb
      simp only [List.mem_map, List.mem_range] at hida
      obtain ⟨m, _, rfl⟩ := hida; omega
    · omega

theorem wf_mutate (w : World) (h : WF w) (o k : Nat) (v : SecObj) : WF (w.mutate o k v) := by
  unfold World.mutate
  split
  · split
    · obtain ⟨h1, h2, h3, h4⟩ := h
      refine ⟨?_, h2, h3, h4⟩
      intro i a hi id hid
      simp only [List.length_set]
      exact h1 i a hi id hid
    · exact h
  · exact h

theorem wf_readStep (w : World) (h : WF w) (o : Nat) (p : Nat × SecObj) : WF (w.readStep o p) := by
  unfold World.readStep
  split
  · rename_i ob hob
    split
    · obtain ⟨h1, h2, h3, h4⟩ := h
      have hfresh : ∀ (i : Nat) (a : LasObj), w.objs[i]? = some a → w.heap.length ∉ a.secs :=
        fun i a hi hm => Nat.lt_irrefl _ (h1 i a hi _ hm)
      refine ⟨?_, ?_, ?_, h4⟩
      · intro i a hi id hid
        simp only [List.length_append, List.length_singleton]
        rcases getElem?_set_some _ _ _ _ _ hi with ⟨_, rfl⟩ | ⟨_, hi⟩
        · rcases List.mem_or_eq_of_mem_set hid with hm | rfl
          · have := h1 o ob hob id hm; omega
          · omega
        · have := h1 i a hi id hid; omega
      · intro i a hi
        rcases getElem?_set_some _ _ _ _ _ hi with ⟨_, rfl⟩ | ⟨_, hi⟩
        · exact nodup_set_fresh _ _ _ (h2 o ob hob) (hfresh o ob hob)
        · exact h2 i a hi
      · intro i j a b hij hi hj id hida hidb
        rcases getElem?_set_some _ _ _ _ _ hi with ⟨rfl, rfl⟩ | ⟨hio, hi'⟩ <;>
        rcases getElem?_set_some _ _ _ _ _ hj with ⟨rfl, rfl⟩ | ⟨hjo, hj'⟩
        · exact hij rfl
        · rcases List.mem_or_eq_of_mem_set hida with hm | rfl
          · exact h3 i j ob b hij hob hj' id hm hidb
          · exact hfresh j b hj' hidb
        · rcases List.mem_or_eq_of_mem_set hidb with hm | rfl
          · exact h3 i j a ob hij hi' hob id hida hm
          · exact hfresh i a hi' hida
        · exact h3 i j a b hij hi' hj' id hida hidb
    · exact h
  · exact h

theorem wf_read (w : World) (h : WF w) (o : Nat) (parsed : List (Nat × SecObj)) : WF (w.read o parsed) := by
  rw [World.read_eq]
  induction parsed generalizing w with
  | nil => exact h
  | cons p ps ih => exact ih _ (wf_readStep w h o p)

theorem wf_step (w : World) (h : WF w) (op : WOp) : WF (w.step true op) := by
  cases op with
  | newLas => exact wf_newLas w h
  | mutate o k v => exact wf_mutate w h o k v
  | read o parsed => exact wf_read w h o parsed

theorem wf_run_from (ops : List WOp) (w : World) (h : WF w) : WF (World.run true w ops) := by
  unfold World.run
  induction ops generalizing w with
  | nil => exact h
  | cons op ops ih => exact ih _ (wf_step w h op)

theorem wf_run (ops : List WOp) : WF (World.run true World.init ops) :=
  wf_run_from ops _ wf_init

/-! ### object world: non-interference -/

/-- what an object shows only depends on its entry in `objs` and on the heap cells it points to -/
theorem observe_congr (w w' : World) (o : Nat) (hobj : w'.objs[o]? = w.objs[o]?)
    (hheap : ∀ (a : LasObj), w.objs[o]? = some a → ∀ id ∈ a.secs, w'.heap[id]? = w.heap[id]?) :
    w'.observe o = w.observe o := by
  unfold World.observe
  rw [hobj]
  cases ho : w.objs[o]? with
  | none => rfl
  | some a =>
    simp only
    apply List.map_congr_left
    intro id hid
    rw [hheap a ho id hid]

theorem observe_mutate_other (w : World) (h : WF w) (o o' : Nat) (ho : o ≠ o') (k : Nat) (v : SecObj) :
    (w.mutate o k v).observe o' = w.observe o' := by
  unfold World.mutate
  split
  · rename_i ob hob
    split
    · rename_i id hid
      apply observe_congr
      · rfl
      intro a ha id' hid'
      have hne : id ≠ id' := by
        rintro rfl
        exact h.2.2.1 o o' ob a ho hob ha id (List.mem_of_getElem? hid) hid'
      simp only [List.getElem?_set_ne hne]
    · rfl
  · rfl

theorem observe_readStep_other (w : World) (h : WF w) (o o' : Nat) (ho : o ≠ o') (p : Nat × SecObj) :
    (w.readStep o p).observe o' = w.observe o' := by
  unfold World.readStep
  split
  · rename_i ob hob
    split
    · apply observe_congr
      · simp only [List.getElem?_set_ne ho]
      · intro a ha id hid
        have := h.1 o' a ha id hid
        simp only [List.getElem?_append_left this]
    · rfl
  · rfl

theorem observe_read_other (w : World) (h : WF w) (o o' : Nat) (ho : o ≠ o') (parsed : List (Nat × SecObj)) :
    (w.read o parsed).observe o' = w.observe o' := by
  rw [World.read_eq]
  induction parsed generalizing w with
  | nil => rfl
  | cons p ps ih =>
    rw [List.foldl_cons, ih _ (wf_readStep w h o p), observe_readStep_other w h o o' ho p]

theorem observe_newLas_other (w : World) (h : WF w) (o' : Nat) :
    (w.newLas true).observe o' = w.observe o' ∨ w.objs.length ≤ o' := by
  rcases Nat.lt_or_ge o' w.objs.length with hlt | hge
  · left
    rw [newLas_true]
    apply observe_congr
    · simp only [List.getElem?_append_left hlt]
    · intro a ha id hid
      have := h.1 o' a ha id hid
      simp only [List.getElem?_append_left this]
  · exact Or.inr hge

/-- the object an operation acts on -/
def targetOf : WOp → Option Nat
  | .newLas => none
  | .mutate o _ _ => some o
  | .read o _ => some o

theorem length_readStep (w : World) (o : Nat) (p : Nat × SecObj) :
    (w.readStep o p).objs.length = w.objs.length := by
  unfold World.readStep
  split
  · split
    · simp
    · rfl
  · rfl

theorem length_read (w : World) (o : Nat) (parsed : List (Nat × SecObj)) :
    (w.read o parsed).objs.length = w.objs.length := by
  rw [World.read_eq]
  induction parsed generalizing w with
  | nil => rfl
  | cons p ps ih => rw [List.foldl_cons, ih, length_readStep]

theorem length_step (w : World) (op : WOp) : w.objs.length ≤ (w.step true op).objs.length := by
  cases op with
  | newLas => simp [World.step, newLas_true]
  | mutate o k v =>
    simp only [World.step, World.mutate]
    split
    · split <;> exact Nat.le_refl _
    · exact Nat.le_refl _
  | read o parsed => simp [World.step, length_read]

theorem observe_step_other (w : World) (h : WF w) (op : WOp) (o' : Nat) (ho : o' < w.objs.length)
    (hop : targetOf op ≠ some o') : (w.step true op).observe o' = w.observe o' := by
  cases op with
  | newLas =>
    rcases observe_newLas_other w h o' with h' | h'
    · exact h'
    · omega
  | mutate o k v =>
    exact observe_mutate_other w h o o' (fun e => hop (by rw [targetOf, e])) k v
  | read o parsed =>
    exact observe_read_other w h o o' (fun e => hop (by rw [targetOf, e])) parsed

theorem observe_run_other (ops : List WOp) (o' : Nat) (w : World) (h : WF w) (ho : o' < w.objs.length)
    (hops : ∀ op ∈ ops, targetOf op ≠ some o') : (World.run true w ops).observe o' = w.observe o' := by
  induction ops generalizing w with
  | nil => rfl
  | cons op ops ih =>
    have hop := hops op (by simp)
    have hrest : ∀ op' ∈ ops, targetOf op' ≠ some o' := fun op' hm => hops op' (by simp [hm])
    have hlen := length_step w op
    show (World.run true (w.step true op) ops).observe o' = w.observe o'
    rw [ih (w.step true op) (wf_step w h op) (by omega) hrest, observe_step_other w h op o' ho hop]

end Lasio
