import LasioProofs.Lemmas.RedelimLemmas
import LasioProofs.Props.C02
import LasioProofs.Props.C02Tab
import LasioProofs.Props.C07
/-
Whole-file lifts of C02 (the two engines agree on plain data) and C07 (rectangular result, binding of cells to curves):
helper lemmas for Props/C02File.

§1  `readFull` = the header-level reader, then `readData` on every window it reports (`readFull_data`)
§2  the windows of a document given by its structure: every window is the window of a data section (`mem_docData`)
§3  a decidable sufficient condition for C02's domain: lines of plain decimal cells (`numBody .space`) form a `Body`
§4  what a successful `readData` returns: the columns of an engine, assigned to the curves (`readData_ok_cols`)
-/
namespace Lasio.Tf
open Lasio Lasio.Dt

/-! ## §1 `readFull` -/

theorem readFull_data (o : Opts) (nullOf : Option Str → Option Str) (ft : FloatTable) (doc : Doc) (r : FullRead)
    (h : readFull o nullOf ft doc = .ok r) :
    ∃ hd, Rd.readLines o.hdr doc = .ok hd ∧ r.sections = hd.sections ∧ r.steer = hd.steer ∧
      r.data = hd.data.map fun w =>
        ⟨w.1, w.2.1, readData o.dat doc w.1 w.2.1 (dtSteer nullOf hd.steer) (declaredCount hd.sections) ft⟩ := by
  unfold readFull at h
  cases hh : Rd.readLines o.hdr doc with
  | error e => rw [hh] at h; cases h
  | ok hd =>
    rw [hh] at h
    cases h
    exact ⟨hd, rfl, rfl, rfl, rfl⟩

/-- the header-level reader does not look at the data options -/
theorem readFull_of_header (o : Opts) (nullOf : Option Str → Option Str) (ft : FloatTable) (doc : Doc) (hd : Rd.RHeader)
    (h : Rd.readLines o.hdr doc = .ok hd) :
    readFull o nullOf ft doc = .ok ⟨hd.sections, hd.steer, hd.data.map fun w =>
      ⟨w.1, w.2.1, readData o.dat doc w.1 w.2.1 (dtSteer nullOf hd.steer) (declaredCount hd.sections) ft⟩⟩ := by
  unfold readFull
  rw [h]

/-! ## §2 windows -/

theorem mem_dataWins (k : Rd.SecKind) (secs : List (Str × List Str)) (n : Nat) (w : Nat × Nat × Str)
    (h : w ∈ dataWins k secs n) :
    ∃ A t b C, secs = A ++ (t, b) :: C ∧ kindOf t = k ∧ w = (n + Rd.size A, n + Rd.size A + b.length, Rd.sline t) := by
  induction secs generalizing n with
  | nil => cases h
  | cons tb rest ih =>
    obtain ⟨t, b⟩ := tb
    simp only [dataWins, List.mem_append] at h
    rcases h with h | h
    · unfold secWin at h
      split at h
      · rename_i hk
        simp only [List.mem_singleton] at h
        exact ⟨[], t, b, rest, rfl, hk, by rw [h]; simp [Rd.size]⟩
      · cases h
    · obtain ⟨A, t', b', C, e, hk, hw⟩ := ih _ h
      refine ⟨(t, b) :: A, t', b', C, by rw [e]; rfl, hk, ?_⟩
      rw [hw]
      simp only [Rd.size]
      have : n + 1 + b.length + Rd.size A = n + (1 + b.length + Rd.size A) := by omega
      simp only [this]

theorem mem_docData (secs : List (Str × List Str)) (n : Nat) (w : Nat × Nat × Str) (h : w ∈ docData secs n) :
    ∃ A t b C, secs = A ++ (t, b) :: C ∧ isDataKind (kindOf t) ∧
      w = (n + Rd.size A, n + Rd.size A + b.length, Rd.sline t) := by
  unfold docData at h
  split at h
  · obtain ⟨A, t, b, C, e, hk, hw⟩ := mem_dataWins .las3data secs n w h
    exact ⟨A, t, b, C, e, Or.inr hk, hw⟩
  · obtain ⟨A, t, b, C, e, hk, hw⟩ := mem_dataWins .data secs n w h
    exact ⟨A, t, b, C, e, Or.inl hk, hw⟩

/-- the document around one of its sections -/
theorem doc_split (pre : List Str) (A C : List (Str × List Str)) (t : Str) (b : List Str) :
    pre ++ Rd.flat (A ++ (t, b) :: C) = (pre ++ Rd.flat A) ++ t :: (b ++ Rd.flat C) ∧
    (pre ++ Rd.flat A).length = pre.length + Rd.size A := by
  constructor
  · simp [flat_append, Rd.flat]
  · simp [size_eq_flat_length]

/-- the data windows the header-level reader reports for a document given by its structure -/
theorem readLines_data (o : Rd.ReadOpts) (pre : List Str) (secs : List (Str × List Str))
    (hpre : ∀ x ∈ pre, Rd.isTitle x = false) (hw : Rd.WellFormed secs) (hd : Rd.RHeader)
    (h : Rd.readLines o (pre ++ Rd.flat secs) = .ok hd) : hd.data = docData secs pre.length := by
  have hrel : ∀ s : List (Str × List Str), Forall2 SecRel s s := by
    intro s
    induction s with
    | nil => exact .nil
    | cons x rest ih => exact .cons (secRel_refl x) ih
  exact (readLines_rel o pre pre secs secs hpre hpre hw hw (hrel secs) hd h).1

/-- what follows a section of a well-formed document: nothing, or the title line of the next section, whose first token
`float()` rejects -/
theorem after_next (ft : FloatTable) (htf : TildeNotFloat ft) (A C : List (Str × List Str)) (t : Str) (b : List Str)
    (hw : Rd.WellFormed (A ++ (t, b) :: C)) :
    Rd.flat C = [] ∨ ∃ ln rest tk ts, Rd.flat C = ln :: rest ∧ npTokens ln = tk :: ts ∧ toFloat ft tk = none :=
  afterOK_flat ft htf C (wellFormed_tail (wellFormed_append_right hw))

/-! ## §3 plain decimal cells form a `Body` -/

theorem skipLine_of_isSkip (l : Str) (h : isSkip l = true) : SkipLine l := by
  unfold isSkip at h
  simp only [cleanLine_eq_strip, Bool.or_eq_true] at h
  rcases h with h | h
  · left
    have : (pySplit l).isEmpty = true := by rw [← isEmpty_strip]; exact h
    exact pySplit_eq_nil l (by simpa using this)
  · right
    obtain ⟨pre, post, hpre, _, e⟩ := strip_decomp l
    cases hs : strip l with
    | nil => rw [hs] at h; simp [isComment, startsWith] at h
    | cons c cs =>
      rw [hs, isComment_cons] at h
      have : c = '#' := by simpa using (beq_iff_eq.mp h).symm
      subst this
      exact ⟨pre, cs ++ post, hpre, by rw [e, hs]; rfl⟩

theorem rowLine_of_drow {cells : List Str} {l : Str} (h : DRow .space cells l) : RowLine cells l := by
  obtain ⟨pre, core, post, hpre, hpost, hcore, e⟩ := h
  exact ⟨pre, core, post, hpre, hpost, sepd_core (by decide) hcore, e⟩

/-- a body of blank/comment lines and lines of `c` plain decimal cells is a `Body` (C02's domain) -/
theorem body_of_numBody (c : Nat) (b : List Str) (h : numBody .space c b = true) : ∃ rows, Body c b rows := by
  induction b with
  | nil => exact ⟨[], Body.nil⟩
  | cons l ls ih =>
    obtain ⟨rows, hrows⟩ := ih (numBody_cons h)
    rcases numBody_line h l (by simp) with hs | ⟨hn, hc⟩
    · exact ⟨rows, Body.skip (skipLine_of_isSkip l hs) hrows⟩
    · exact ⟨_ :: rows, Body.row (rowLine_of_drow (drow_of_numCells .space l hn)) hc hrows⟩

theorem body_rows_nil {c : Nat} {b : List Str} {rows : List (List Str)} (h : Body c b rows) (hr : rows = []) :
    ∀ ln ∈ b, SkipLine ln := by
  induction h with
  | nil => intro ln hl; cases hl
  | skip hs _ ih =>
    intro ln hl
    rcases List.mem_cons.mp hl with rfl | hl
    · exact hs
    · exact ih hr ln hl
  | row _ _ _ _ => cases hr

/-- the number of cells of the first data line (0 when there is none) -/
def bodyCols (b : List Str) : Nat :=
  match b.find? (fun l => !isSkip l) with
  | some l => (cellsOf .space (splitEol l).1).length
  | none => 0

/-- decidable: every line is a blank line, a comment line, or a line of plain decimal numbers, as many as on the first data line -/
def plainBody (b : List Str) : Bool := numBody .space (bodyCols b) b

/-- C02's domain for one section body: rows of `c ≥ 1` quiet tokens (at least one), or no data line at all -/
def PlainSec (b : List Str) : Prop :=
  (∃ c rows, Body c b rows ∧ 0 < c ∧ rows ≠ []) ∨ ∀ ln ∈ b, SkipLine ln

theorem plainSec_of_plainBody (b : List Str) (h : plainBody b = true) : PlainSec b := by
  unfold plainBody at h
  obtain ⟨rows, hrows⟩ := body_of_numBody _ b h
  by_cases hr : rows = []
  · exact Or.inr (body_rows_nil hrows hr)
  · left
    refine ⟨bodyCols b, rows, hrows, ?_, hr⟩
    -- a data line has at least one cell
    cases hf : b.find? (fun l => !isSkip l) with
    | none =>
      exfalso
      have hall : ∀ l ∈ b, isSkip l = true := by
        intro l hl
        have := List.find?_eq_none.mp hf l hl
        simpa using this
      have : ∀ {c : Nat} {b : List Str} {rows : List (List Str)}, Body c b rows → (∀ l ∈ b, isSkip l = true) → rows = [] := by
        intro c b rows hb
        induction hb with
        | nil => intro _; rfl
        | skip _ _ ih => intro hs; exact ih (fun l hl => hs l (List.mem_cons_of_mem _ hl))
        | @row ln toks ls rows' hrow _ _ _ =>
          intro hs
          have h1 := hs ln (by simp)
          obtain ⟨core, hcore, hcl⟩ := rowLine_clean hrow
          have h2 : isSkip ln = false := by
            unfold isSkip
            simp only [hcl, core_ne_nil hcore, core_not_comment hcore, Bool.or_self]
          rw [h2] at h1
          cases h1
      exact hr (this hrows hall)
    | some l =>
      have hl := List.mem_of_find?_eq_some hf
      have hns : isSkip l = false := by
        have := List.find?_some hf
        simpa using this
      unfold bodyCols
      rw [hf]
      simp only
      rcases numBody_line h l hl with hs | ⟨hn, _⟩
      · rw [hs] at hns; cases hns
      · obtain ⟨_, core, _, _, _, hcore, _⟩ := drow_of_numCells .space l hn
        exact List.length_pos_iff.mpr (sepd_cells_ne hcore)

/-! ## §4 what a successful `readData` returns -/

/-- a successful `readData`: the columns `cols` of one of the engines (all of one length), NULL applied, assigned to the curves -/
theorem readData_ok_cols (o : DataOpts) (lines : List Str) (first last : Nat) (st : Steer) (d : Nat) (ft : FloatTable)
    (e : Engine) (curves : List (Slot × Column)) (h : readData o lines first last st d ft = .ok (e, curves)) :
    ∃ cols, Rect cols ∧ curves = assignCurves d (applyNull (o.nullPolicy == .strict) st.nullValue cols) ∧
      (e = .numpy → numpyEngine ft lines first last = some cols) ∧
      (e = .normal → ∃ sb n, (sb = readSubs st.delimiter ∨ sb = (readSubs st.delimiter).dropHyphen) ∧
        n = readerColumns st d (sniffTwice (readSubs st.delimiter) st.delimiter lines first last).2 ∧
        normalEngine ft sb st.delimiter n lines first last = .ok cols) := by
  have hsb := sniffTwiceB_subs (readSubs st.delimiter) st.delimiter (bodyLines lines first last)
  rw [← sniffTwice_body] at hsb
  have hnormal : (normalEngine ft (sniffTwice (readSubs st.delimiter) st.delimiter lines first last).1 st.delimiter
        (readerColumns st d (sniffTwice (readSubs st.delimiter) st.delimiter lines first last).2) lines first last).map
        (fun cols => (Engine.normal, assignCurves d (applyNull (o.nullPolicy == .strict) st.nullValue cols))) = .ok (e, curves) →
      ∃ cols, Rect cols ∧ curves = assignCurves d (applyNull (o.nullPolicy == .strict) st.nullValue cols) ∧
      (e = .numpy → numpyEngine ft lines first last = some cols) ∧
      (e = .normal → ∃ sb n, (sb = readSubs st.delimiter ∨ sb = (readSubs st.delimiter).dropHyphen) ∧
        n = readerColumns st d (sniffTwice (readSubs st.delimiter) st.delimiter lines first last).2 ∧
        normalEngine ft sb st.delimiter n lines first last = .ok cols) := by
    intro hn
    cases hne : normalEngine ft (sniffTwice (readSubs st.delimiter) st.delimiter lines first last).1 st.delimiter
        (readerColumns st d (sniffTwice (readSubs st.delimiter) st.delimiter lines first last).2) lines first last with
    | error err => simp [hne, Except.map] at hn
    | ok cols =>
      simp only [hne, Except.map, Except.ok.injEq, Prod.mk.injEq] at hn
      obtain ⟨rfl, rfl⟩ := hn
      exact ⟨cols, normalEngineLines_rect _ _ _ _ _ _ hne, rfl, (fun e => by cases e), fun _ => ⟨_, _, hsb, rfl, hne⟩⟩
  unfold readData at h
  simp only at h
  split at h
  · split at h
    · rename_i cols hnp
      simp only [Except.ok.injEq, Prod.mk.injEq] at h
      obtain ⟨rfl, rfl⟩ := h
      exact ⟨cols, numpyEngineLines_rect _ _ _ _ hnp, rfl, fun _ => hnp, (fun e => by cases e)⟩
    · exact hnormal h
  · exact hnormal h

end Lasio.Tf
