import LasioProofs.Lemmas.DataLemmas
import LasioProofs.Lemmas.DataWriteLemmas
/-
Bridge between the data-section WRITER model (`LasioModel/DataWrite.lean`, namespace `Lasio.Dw`) and the data-section READER
model (`LasioModel/Data.lean`, namespace `Lasio.Dt`): the reader inverts the writer on the data section (model level).

Part 1  the two tokenisers: on ANY line whose whitespace tokens (`Dw.tokensWs`, = `str.split()`) are all quiet tokens
        (`Dt.QuietTok`) the reader's `lineTokens` / `splitWs` / `npTokens` return exactly those tokens and the read
        substitutions are the identity on the whole line.
Part 2  every token the writer prints (`Dw.cellToken`) is quiet; a printed finite sample is in the plain decimal grammar.
Part 3  write -> read: normal engine (wrapped or not), sniffer and genfromtxt specification (unwrapped).
Part 4  the NaN mask through `applyNull`.
Part 5  presentation options do not change what is read.
Part 6  the same through `readData`.
-/
namespace Lasio.Rt
open Lasio

/-! ## Part 1: the two tokenisers agree -/

theorem tokensWs_append_ws (l eol : Str) (h : Dt.AllWs eol) : Dw.tokensWs (l ++ eol) = Dw.tokensWs l := by
  cases eol with
  | nil => simp
  | cons c r =>
    have hc := h c (by simp)
    have hr : Dw.tokGo [] r = [] := Dw.tokensWs_blank r (fun x hx => h x (by simp [hx]))
    unfold Dw.tokensWs
    rw [Dw.tokGo_split [] l c r hc, hr, List.append_nil]

theorem dropWhile_head_false (p : Char → Bool) (l : Str) (w : Char) (r : Str) (h : l.dropWhile p = w :: r) :
    p w = false := by
  induction l with
  | nil => simp at h
  | cons x xs ih =>
    simp only [List.dropWhile_cons] at h
    split at h
    · exact ih h
    · rename_i hx
      simp only [List.cons.injEq] at h
      rw [← h.1]; simpa using hx

theorem mem_takeWhile_true (p : Char → Bool) (l : Str) (c : Char) (h : c ∈ l.takeWhile p) : p c = true := by
  induction l with
  | nil => simp at h
  | cons x xs ih =>
    simp only [List.takeWhile_cons] at h
    split at h
    · rename_i hx
      rcases List.mem_cons.mp h with rfl | h
      · exact hx
      · exact ih h
    · simp at h

/-- leading whitespace, a maximal run of non-whitespace, and a remainder that is empty or starts with whitespace -/
theorem span_token (l : Str) :
    ∃ pre t rest, Dt.AllWs pre ∧ (∀ c ∈ t, isPySpace c = false) ∧ Dt.WsHead rest ∧ l = pre ++ (t ++ rest) ∧
      (t = [] → rest = []) := by
  refine ⟨l.takeWhile isPySpace, (l.dropWhile isPySpace).takeWhile (fun c => !isPySpace c),
    (l.dropWhile isPySpace).dropWhile (fun c => !isPySpace c), ?_, ?_, ?_, ?_, ?_⟩
  · intro c hc; exact mem_takeWhile_true _ _ c hc
  · intro c hc; have := mem_takeWhile_true _ _ c hc; simpa using this
  · cases h : (l.dropWhile isPySpace).dropWhile (fun c => !isPySpace c) with
    | nil => exact Or.inl rfl
    | cons w r =>
      have := dropWhile_head_false _ _ w r h
      exact Or.inr ⟨w, r, rfl, by simpa using this⟩
  · rw [List.takeWhile_append_dropWhile, List.takeWhile_append_dropWhile]
  · intro ht
    cases hl : l.dropWhile isPySpace with
    | nil => rfl
    | cons w r =>
      have hw := dropWhile_head_false _ _ w r hl
      rw [hl] at ht
      simp [hw] at ht

/-- **Shape of a line with quiet tokens**: it is blank, or it is a data line (`Dt.RowLine`) of exactly its `str.split()` tokens -/
theorem line_shape (n : Nat) : ∀ l : Str, l.length ≤ n → (∀ t ∈ Dw.tokensWs l, Dt.QuietTok t) →
    (Dw.tokensWs l = [] ∧ Dt.AllWs l) ∨ Dt.RowLine (Dw.tokensWs l) l := by
  induction n with
  | zero =>
    intro l hl _
    have : l = [] := List.eq_nil_of_length_eq_zero (by omega)
    subst this
    exact Or.inl ⟨rfl, by intro c hc; cases hc⟩
  | succ n ih =>
    intro l hl hq
    obtain ⟨pre, t, rest, hpre, ht, hrest, rfl, hte⟩ := span_token l
    by_cases htn : t = []
    · have hr := hte htn
      subst htn; subst hr
      simp only [List.append_nil] at *
      exact Or.inl ⟨Dw.tokensWs_blank pre hpre, hpre⟩
    · have htok : Dw.IsTok t := ⟨htn, ht⟩
      have h1 : Dw.tokensWs (pre ++ (t ++ rest)) = Dw.tokensWs (t ++ rest) := Dw.tokGo_space_prefix pre _ hpre
      have h2 : Dw.tokensWs (t ++ rest) = t :: Dw.tokensWs rest := by
        rcases hrest with rfl | ⟨w, r, rfl, hw⟩
        · rw [List.append_nil, Dw.tokensWs_tok t htok]; rfl
        · have := Dw.tokensWs_cell_then_space [] t w r (by intro c hc; cases hc) htok hw
          simpa using this
      rw [h1, h2] at hq ⊢
      have hqt : Dt.QuietTok t := hq t (by simp)
      have hlen : rest.length ≤ n := by
        have : 0 < t.length := List.length_pos_iff.mpr htn
        simp only [List.length_append] at hl
        omega
      right
      rcases ih rest hlen (fun x hx => hq x (by simp [hx])) with ⟨he, hws⟩ | ⟨pre2, core2, post2, hpre2, hpost2, hcore2, hr2⟩
      · rw [he]
        exact ⟨pre, t, rest, hpre, hws, Dt.Core.one hqt, rfl⟩
      · have hne : pre2 ≠ [] := by
          intro e
          subst e
          obtain ⟨c, cs, hc, hcc⟩ := Dt.core_head_tok hcore2
          rcases hrest with hr | ⟨w, r, hr, hw⟩
          · rw [hr, hc] at hr2; simp at hr2
          · rw [hr, hc] at hr2
            simp only [List.nil_append, List.cons_append, List.cons.injEq] at hr2
            have := (Dt.tokChar_parts c hcc).1
            rw [← hr2.1, hw] at this
            cases this
        refine ⟨pre, t ++ (pre2 ++ core2), post2, hpre, hpost2, Dt.Core.cons hqt hne hpre2 hcore2, ?_⟩
        rw [hr2]; simp

theorem line_shape' (l : Str) (hq : ∀ t ∈ Dw.tokensWs l, Dt.QuietTok t) :
    (Dw.tokensWs l = [] ∧ Dt.AllWs l) ∨ Dt.RowLine (Dw.tokensWs l) l :=
  line_shape l.length l (Nat.le_refl _) hq

/-- the normal engine's items of a line = its `str.split()` tokens, whichever substitutions are active -/
theorem lineTokens_eq_tokensWs (sb : Dt.Subs) (l : Str) (hq : ∀ t ∈ Dw.tokensWs l, Dt.QuietTok t) :
    Dt.lineTokens sb .space l = Dw.tokensWs l := by
  rcases line_shape' l hq with ⟨he, hws⟩ | hrow
  · rw [he]; exact Dt.lineTokens_skip sb .space (Or.inl hws)
  · exact Dt.lineTokens_row sb hrow

/-- `genfromtxt`'s tokens of a line = its `str.split()` tokens -/
theorem npTokens_eq_tokensWs (l : Str) (hq : ∀ t ∈ Dw.tokensWs l, Dt.QuietTok t) :
    Dt.npTokens l = Dw.tokensWs l := by
  rcases line_shape' l hq with ⟨he, hws⟩ | hrow
  · rw [he]; exact Dt.npTokens_skip (Or.inl hws)
  · exact Dt.npTokens_row hrow

theorem scanTok_nil_of_allWs (m : Str → Option (Str × Nat)) (hws : ∀ w r, isPySpace w = true → m (w :: r) = none)
    (l : Str) (h : Dt.AllWs l) : Dt.scanTok m 0 l = [] := by
  have := Dt.scanTok_allWs m hws l [] h
  simp only [List.append_nil] at this
  rw [this]; rfl

/-- the reader's whitespace splitter (`sow_regex.findall`, groups joined) on the RAW line = `str.split()` -/
theorem splitWs_eq_tokensWs (l : Str) (hq : ∀ t ∈ Dw.tokensWs l, Dt.QuietTok t) : Dt.splitWs l = Dw.tokensWs l := by
  rcases line_shape' l hq with ⟨he, hws⟩ | ⟨pre, core, post, hpre, hpost, hcore, hl⟩
  · rw [he]; exact scanTok_nil_of_allWs _ Dt.mSplit_ws l hws
  · conv => lhs; rw [hl]
    unfold Dt.splitWs
    rw [Dt.scanTok_allWs _ Dt.mSplit_ws pre _ hpre]
    exact Dt.scanTok_core _ Dt.mSplit_ws Dt.mSplit_takes hcore post hpost

theorem noMatch_allWs (m : Str → Option (Str × Nat)) (hws : ∀ w r, isPySpace w = true → m (w :: r) = none)
    (hnil : m [] = none) (a : Str) (ha : Dt.AllWs a) : Dt.NoMatch m a := by
  have := Dt.noMatch_allWs_append m hws a [] ha (Dt.noMatch_nil m hnil)
  simpa using this

theorem noMatch_line (m : Str → Option (Str × Nat)) (hl : Dt.Local m)
    (hws : ∀ w r, isPySpace w = true → m (w :: r) = none) (hnil : m [] = none)
    (hq : ∀ t, Dt.QuietTok t → Dt.NoMatch m t) (l : Str) (hql : ∀ t ∈ Dw.tokensWs l, Dt.QuietTok t) :
    Dt.NoMatch m l := by
  rcases line_shape' l hql with ⟨_, hws'⟩ | ⟨pre, core, post, hpre, hpost, hcore, hl'⟩
  · exact noMatch_allWs m hws hnil l hws'
  · rw [hl']
    apply Dt.noMatch_allWs_append m hws pre _ hpre
    exact Dt.noMatch_append m hl core post (Dt.core_noMatch m hl hws hq hcore) (noMatch_allWs m hws hnil post hpost)
      (Dt.wsHead_allWs post hpost)

/-- the read substitutions (any subset) leave the whole RAW line unchanged -/
theorem applySubs_line (sb : Dt.Subs) (l : Str) (hq : ∀ t ∈ Dw.tokensWs l, Dt.QuietTok t) : Dt.applySubs sb l = l := by
  have h1 : Dt.subCommaDecimal l = l :=
    Dt.reSub_id _ _ (noMatch_line Dt.mComma Dt.mComma_local Dt.mComma_ws rfl (fun _ ht => ht.comma) l hq)
  have h2 : Dt.subRunOnHyphen l = l :=
    Dt.reSub_id _ _ (noMatch_line Dt.mHyphen Dt.mHyphen_local Dt.mHyphen_ws rfl (fun _ ht => ht.hyphen) l hq)
  have h3 : Dt.subRunOnDot l = l :=
    Dt.reSub_id _ _ (noMatch_line Dt.mDot Dt.mDot_local Dt.mDot_ws rfl (fun _ ht => ht.dot) l hq)
  unfold Dt.applySubs
  cases sb with
  | mk c hy d => cases c <;> cases hy <;> cases d <;> simp [h1, h2, h3]

/-! ### the tokenisers themselves (no condition on the tokens) -/

/-- a `findall` scanner that never starts on whitespace and takes a whole run of admissible non-whitespace characters returns
the `str.split()` tokens of every line whose non-whitespace characters are admissible -/
theorem scanTok_eq_tokensWs (m : Str → Option (Str × Nat)) (good : Char → Bool)
    (hws : ∀ w r, isPySpace w = true → m (w :: r) = none)
    (htk : ∀ c t tail, (∀ x ∈ c :: t, isPySpace x = false ∧ good x = true) → Dt.WsHead tail →
      m (c :: t ++ tail) = some (c :: t, t.length)) (n : Nat) :
    ∀ l : Str, l.length ≤ n → (∀ x ∈ l, isPySpace x = false → good x = true) → Dt.scanTok m 0 l = Dw.tokensWs l := by
  induction n with
  | zero =>
    intro l hl _
    have : l = [] := List.eq_nil_of_length_eq_zero (by omega)
    subst this; rfl
  | succ n ih =>
    intro l hl hg
    obtain ⟨pre, t, rest, hpre, ht, hrest, rfl, hte⟩ := span_token l
    rw [Dt.scanTok_allWs m hws pre _ hpre]
    have h1 : Dw.tokensWs (pre ++ (t ++ rest)) = Dw.tokensWs (t ++ rest) := Dw.tokGo_space_prefix pre _ hpre
    rw [h1]
    cases t with
    | nil =>
      rw [hte rfl]; rfl
    | cons c t' =>
      have htok : Dw.IsTok (c :: t') := ⟨by simp, ht⟩
      have h2 : Dw.tokensWs (c :: t' ++ rest) = (c :: t') :: Dw.tokensWs rest := by
        rcases hrest with rfl | ⟨w, r, rfl, hw⟩
        · rw [List.append_nil, Dw.tokensWs_tok _ htok]; rfl
        · have := Dw.tokensWs_cell_then_space [] (c :: t') w r (by intro c hc; cases hc) htok hw
          simpa using this
      have hm := htk c t' rest (fun x hx => ⟨ht x hx, hg x (by simp at hx ⊢; rcases hx with h | h <;> simp [h]) (ht x hx)⟩) hrest
      rw [h2]
      simp only [List.cons_append] at hm ⊢
      simp only [Dt.scanTok, hm]
      rw [Dt.scanTok_skip m t' rest]
      congr 1
      apply ih rest
      · simp only [List.length_append, List.length_cons] at hl; omega
      · intro x hx; exact hg x (by simp [hx])

/-- **`str.split()` is modelled twice** (`Dt.pySplit` for `genfromtxt`, `Dw.tokensWs` for the writer proofs): the two models
agree on every string -/
theorem pySplit_eq_tokensWs (l : Str) : Dt.pySplit l = Dw.tokensWs l := by
  unfold Dt.pySplit
  apply scanTok_eq_tokensWs Dt.mWord (fun _ => true) Dt.mWord_ws ?_ l.length l (Nat.le_refl _) (fun _ _ _ => rfl)
  intro c t tail hc hw
  have h1 := (hc c (by simp)).1
  simp only [List.cons_append, Dt.mWord, h1, Bool.false_eq_true, ↓reduceIte]
  have : (t ++ tail).takeWhile (fun x => !isPySpace x) = t := by
    apply Dt.takeWhile_append_stop
    · intro x hx; simp [(hc x (by simp [hx])).1]
    · rcases hw with rfl | ⟨w, r, rfl, hw⟩
      · exact Or.inl rfl
      · exact Or.inr ⟨w, r, rfl, by simp [hw]⟩
  rw [this]

/-- **the reader's whitespace splitter** (`sow_regex.findall`, groups joined) **is `str.split()` on every line without quote
characters** -/
theorem splitWs_eq_tokensWs_noquote (l : Str) (h : ∀ x ∈ l, x ≠ '"' ∧ x ≠ '\'') : Dt.splitWs l = Dw.tokensWs l := by
  unfold Dt.splitWs
  apply scanTok_eq_tokensWs (Dt.mSplit isPySpace) (fun x => x != '"' && x != '\'') Dt.mSplit_ws ?_ l.length l (Nat.le_refl _)
  · intro x hx _; simp [h x hx]
  · intro c t tail hc hw
    have hq : ∀ x ∈ c :: t, isPySpace x = false ∧ (x == '"') = false ∧ (x == '\'') = false := by
      intro x hx
      obtain ⟨a, b⟩ := hc x hx
      simp only [Bool.and_eq_true, bne_iff_ne, ne_eq] at b
      exact ⟨a, by simp [b.1], by simp [b.2]⟩
    obtain ⟨h1, h2, h3⟩ := hq c (by simp)
    simp only [List.cons_append, Dt.mSplit, h2, h3, Bool.or_self, Bool.false_eq_true, ↓reduceIte, h1]
    have : (t ++ tail).takeWhile (fun x => !(isPySpace x || x == '"' || x == '\'')) = t := by
      apply Dt.takeWhile_append_stop
      · intro x hx
        obtain ⟨a1, a2, a3⟩ := hq x (by simp [hx])
        simp [a1, a2, a3]
      · rcases hw with rfl | ⟨w, r, rfl, hw⟩
        · exact Or.inl rfl
        · exact Or.inr ⟨w, r, rfl, by simp [hw]⟩
    rw [this]

/-! ## Part 2: what the writer prints is quiet -/

theorem charClass_digit (c : Char) (h : isDigit c = true) : Dt.charClass c = .digit := by
  simp [Dt.charClass, h]

theorem pRun_int_digits (ds r : Str) (h : ∀ c ∈ ds, isDigit c = true) : Dt.pRun .int (ds ++ r) = Dt.pRun .int r := by
  induction ds with
  | nil => rfl
  | cons d ds ih =>
    simp only [List.cons_append, Dt.pRun, charClass_digit d (h d (by simp)), Dt.pStep]
    exact ih (fun c hc => h c (by simp [hc]))

theorem pRun_frac_digits (ds : Str) (h : ∀ c ∈ ds, isDigit c = true) : Dt.pRun .frac ds = true := by
  induction ds with
  | nil => rfl
  | cons d ds ih =>
    simp only [Dt.pRun, charClass_digit d (h d (by simp)), Dt.pStep]
    exact ih (fun c hc => h c (by simp [hc]))

theorem pRun_intDot_digits (ds : Str) (h : ∀ c ∈ ds, isDigit c = true) : Dt.pRun .intDot ds = true := by
  cases ds with
  | nil => rfl
  | cons d ds =>
    simp only [Dt.pRun, charClass_digit d (h d (by simp)), Dt.pStep]
    exact pRun_frac_digits ds (fun c hc => h c (by simp [hc]))

/-- digits, then nothing or `.` and digits, read from state `int` -/
theorem pRun_int_tail (N q : Nat) :
    Dt.pRun .int (if N = 0 then [] else '.' :: Dw.lastDigits N q) = true := by
  by_cases hN : N = 0
  · simp [hN, Dt.pRun, Dt.pAccept]
  · simp only [hN, if_false, Dt.pRun]
    have : Dt.charClass '.' = .dot := by decide
    simp only [this, Dt.pStep]
    exact pRun_intDot_digits _ (Dw.lastDigits_all_digit N q)

theorem pRun_fixedDigits (N q : Nat) :
    Dt.pRun .start (Dw.fixedDigits N q) = true ∧ Dt.pRun .sign (Dw.fixedDigits N q) = true := by
  unfold Dw.fixedDigits
  have hall := Dw.natToStr_all_digit (q / 10 ^ N)
  cases h : natToStr (q / 10 ^ N) with
  | nil => exact absurd h (natToStr_ne_nil _)
  | cons d ds =>
    rw [h] at hall
    have hd := charClass_digit d (hall d (by simp))
    have hds : ∀ c ∈ ds, isDigit c = true := fun c hc => hall c (by simp [hc])
    simp only [List.cons_append, Dt.pRun, hd, Dt.pStep, pRun_int_digits ds _ hds, pRun_int_tail, and_self]

/-- **A printed finite sample is in the plain decimal grammar** `[+-]?(\d+\.?\d*|\.\d+)([eE][+-]?\d+)?` -/
theorem fmtFixed_isPlainDecimal (N : Nat) (neg : Bool) (m : Nat) (e : Int) :
    Dt.isPlainDecimal (Dw.fmtFixed N (.finite neg m e)) = true := by
  unfold Dt.isPlainDecimal Dw.fmtFixed
  cases neg with
  | false => simpa using (pRun_fixedDigits N _).1
  | true =>
    have : Dt.charClass '-' = .sg := by decide
    simp only [if_true, List.singleton_append, Dt.pRun, this, Dt.pStep]
    exact (pRun_fixedDigits N _).2

theorem quiet_fmtFixed_finite (N : Nat) (neg : Bool) (m : Nat) (e : Int) :
    Dt.QuietTok (Dw.fmtFixed N (.finite neg m e)) :=
  Dt.quietTok_of_simple _ (Dt.simplePlain_of_grammar _ (fmtFixed_isPlainDecimal N neg m e))

/-- a Boolean test on every suffix -/
def allTails (p : Str → Bool) : Str → Bool
  | [] => p []
  | c :: cs => p (c :: cs) && allTails p cs

/-- executable test of `NoMatch` for concrete texts -/
theorem noMatch_of_tails (m : Str → Option (Str × Nat)) (l : Str) (h : allTails (fun s => (m s).isNone) l = true) :
    Dt.NoMatch m l := by
  induction l with
  | nil =>
    intro s hs
    have : s = [] := by simpa using hs
    subst this
    simpa [allTails] using h
  | cons c cs ih =>
    simp only [allTails, Bool.and_eq_true] at h
    intro s hs
    rw [List.suffix_cons_iff] at hs
    rcases hs with rfl | hs
    · simpa using h.1
    · exact ih h.2 s hs

theorem quietTok_of_check (t : Str)
    (h : (!t.isEmpty && t.all Dt.tokChar && allTails (fun s => (Dt.mComma s).isNone) t &&
      allTails (fun s => (Dt.mHyphen s).isNone) t && allTails (fun s => (Dt.mDot s).isNone) t) = true) : Dt.QuietTok t := by
  simp only [Bool.and_eq_true] at h
  obtain ⟨⟨⟨⟨h1, h2⟩, h3⟩, h4⟩, h5⟩ := h
  exact {
    ne := by intro e; subst e; simp at h1
    chars := fun c hc => List.all_eq_true.mp h2 c hc
    comma := noMatch_of_tails _ _ h3
    hyphen := noMatch_of_tails _ _ h4
    dot := noMatch_of_tails _ _ h5 }

/-- every `%.Nf` rendering (finite, `inf`, `-inf`, `nan`) is a quiet token -/
theorem quiet_fmtFixed (N : Nat) (x : Dw.F64) : Dt.QuietTok (Dw.fmtFixed N x) := by
  cases x with
  | finite neg m e => exact quiet_fmtFixed_finite N neg m e
  | nan => exact quietTok_of_check ['n', 'a', 'n'] (by decide)
  | inf neg =>
    cases neg
    · exact quietTok_of_check ['i', 'n', 'f'] (by decide)
    · exact quietTok_of_check ['-', 'i', 'n', 'f'] (by decide)

/-- every token the writer puts in a cell is quiet, when the NULL text is -/
theorem quiet_cellToken (null : Str) (hn : Dt.QuietTok null) (f : Dw.Fmt) (x : Dw.F64) :
    Dt.QuietTok (Dw.cellToken null f x) := by
  unfold Dw.cellToken
  cases x.isNaN
  · exact quiet_fmtFixed _ _
  · exact hn

theorem quiet_rowTokensFrom (c : Dw.RowCfg) (null : Str) (hn : Dt.QuietTok null) (j : Nat) (cells : List Dw.F64) :
    ∀ t ∈ Dw.rowTokensFrom c null j cells, Dt.QuietTok t := by
  induction cells generalizing j with
  | nil => intro t ht; cases ht
  | cons x xs ih =>
    intro t ht
    simp only [Dw.rowTokensFrom, List.mem_cons] at ht
    rcases ht with rfl | ht
    · exact quiet_cellToken null hn _ x
    · exact ih (j + 1) t ht

/-- the tokens of a row are the cell tokens, by column index -/
theorem rowTokensFrom_eq_mapIdx (c : Dw.RowCfg) (null : Str) (j : Nat) (cells : List Dw.F64) :
    Dw.rowTokensFrom c null j cells = cells.mapIdx (fun i x => Dw.cellToken null (c.colFmt (j + i)) x) := by
  induction cells generalizing j with
  | nil => rfl
  | cons x xs ih =>
    simp only [Dw.rowTokensFrom, List.mapIdx_cons, Nat.add_zero, ih (j + 1)]
    congr 2
    funext i y
    rw [Nat.add_assoc, Nat.add_comm 1 i]

theorem rowTokens_eq_mapIdx (c : Dw.RowCfg) (null : Str) (cells : List Dw.F64) :
    Dw.rowTokens c null cells = cells.mapIdx (fun j x => Dw.cellToken null (c.colFmt j) x) := by
  unfold Dw.rowTokens
  rw [rowTokensFrom_eq_mapIdx]
  simp

/-! ## Part 3: write -> read -/

/-- the r × c matrix of written tokens: entry (i, j) is the token of cell (i, j) -/
def tokenRows (c : Dw.RowCfg) (null : Str) (rows : List (List Dw.F64)) : List (List Str) :=
  rows.map (Dw.rowTokens c null)

/-- the hypotheses of the round trip, bundled: a supported configuration, a quiet NULL text, a successful `dataLines`,
a non-empty r × n matrix -/
structure Written (cfg : Dw.DataCfg) (null : Str) (mn : List Str) (rows : List (List Dw.F64)) (c : Dw.RowCfg) (n : Nat)
    (hdr : Str) (body : List Str) : Prop where
  rowCfg : cfg.rowCfg = some c
  ok : Dw.CfgOK c null
  nullQuiet : Dt.QuietTok null
  lines : Dw.dataLines cfg null mn rows = some (hdr :: body)
  rne : rows ≠ []
  npos : 0 < n
  rect : ∀ r ∈ rows, r.length = n

theorem dataLines_body {cfg : Dw.DataCfg} {null : Str} {mn : List Str} {rows : List (List Dw.F64)} {c : Dw.RowCfg}
    {hdr : Str} {body : List Str} (hc : cfg.rowCfg = some c) (h : Dw.dataLines cfg null mn rows = some (hdr :: body)) :
    Dw.dwBodyLines c null cfg.wrap cfg.dataWidth rows = some body := by
  unfold Dw.dataLines at h
  rw [hc] at h
  simp only at h
  split at h
  · rename_i hd b _ hb
    simp only [Option.some.injEq, List.cons.injEq] at h
    rw [hb, h.2]
  · cases h

theorem Written.body_eq {cfg : Dw.DataCfg} {null : Str} {mn : List Str} {rows : List (List Dw.F64)} {c : Dw.RowCfg} {n : Nat}
    {hdr : Str} {body : List Str} (w : Written cfg null mn rows c n hdr body) :
    Dw.dwBodyLines c null cfg.wrap cfg.dataWidth rows = some body := dataLines_body w.rowCfg w.lines

theorem tokenRows_rect (c : Dw.RowCfg) (null : Str) (rows : List (List Dw.F64)) (n : Nat) (h : ∀ r ∈ rows, r.length = n) :
    ∀ r ∈ tokenRows c null rows, r.length = n := by
  intro r hr
  simp only [tokenRows, List.mem_map] at hr
  obtain ⟨x, hx, rfl⟩ := hr
  rw [Dw.rowTokens, Dw.rowTokensFrom_length]
  exact h x hx

theorem tokenRows_ne (c : Dw.RowCfg) (null : Str) (rows : List (List Dw.F64)) (h : rows ≠ []) : tokenRows c null rows ≠ [] := by
  cases rows with
  | nil => exact absurd rfl h
  | cons r rs => simp [tokenRows]

/-- every `str.split()` token of every body line is quiet -/
theorem body_tokens_quiet {c : Dw.RowCfg} {null : Str} (hok : Dw.CfgOK c null) (hq : Dt.QuietTok null) (wrap : Bool) (dw : Nat)
    (rows : List (List Dw.F64)) (body : List Str) (h : Dw.dwBodyLines c null wrap dw rows = some body) :
    ∀ l ∈ body, ∀ t ∈ Dw.tokensWs l, Dt.QuietTok t := by
  intro l hl t ht
  have hmem : t ∈ body.flatMap Dw.tokensWs := List.mem_flatMap.mpr ⟨l, hl, ht⟩
  rw [Dw.dwBodyLines_tokens hok wrap dw rows body h] at hmem
  obtain ⟨row, _, hrow⟩ := List.mem_flatMap.mp hmem
  exact quiet_rowTokensFrom c null hq 0 row t hrow

/-- lines with quiet tokens, each followed by a whitespace line end: the normal engine's flat item list is the
concatenation of the `str.split()` tokens of the lines -/
theorem normalTokens_lines (sb : Dt.Subs) (body : List Str) (eol : Str) (heol : Dt.AllWs eol)
    (hq : ∀ l ∈ body, ∀ t ∈ Dw.tokensWs l, Dt.QuietTok t) :
    Dt.normalTokens sb .space (body.map (· ++ eol)) = body.flatMap Dw.tokensWs := by
  induction body with
  | nil => rfl
  | cons l ls ih =>
    have hl : ∀ t ∈ Dw.tokensWs (l ++ eol), Dt.QuietTok t := by
      rw [tokensWs_append_ws l eol heol]; exact hq l (by simp)
    have := ih (fun x hx => hq x (by simp [hx]))
    simp only [Dt.normalTokens] at this ⊢
    simp only [List.map_cons, List.flatMap_cons, this, lineTokens_eq_tokensWs sb _ hl, tokensWs_append_ws l eol heol]

/-- the flat item list the normal engine builds from a written body is the row-major flattening of the token matrix -/
theorem normalTokens_written {cfg : Dw.DataCfg} {null : Str} {mn : List Str} {rows : List (List Dw.F64)} {c : Dw.RowCfg} {n : Nat}
    {hdr : Str} {body : List Str} (w : Written cfg null mn rows c n hdr body) (sb : Dt.Subs) (eol : Str) (heol : Dt.AllWs eol) :
    Dt.normalTokens sb .space (body.map (· ++ eol)) = (tokenRows c null rows).flatten := by
  rw [normalTokens_lines sb body eol heol (body_tokens_quiet w.ok w.nullQuiet _ _ rows body w.body_eq),
    Dw.dwBodyLines_tokens w.ok _ _ rows body w.body_eq, tokenRows, List.flatMap_def]

/-- **write -> read, normal engine** (wrapped or not) -/
theorem roundtrip_normal {cfg : Dw.DataCfg} {null : Str} {mn : List Str} {rows : List (List Dw.F64)} {c : Dw.RowCfg} {n : Nat}
    {hdr : Str} {body : List Str} (w : Written cfg null mn rows c n hdr body) (ft : Dt.FloatTable) (sb : Dt.Subs)
    (eol : Str) (heol : Dt.AllWs eol) :
    Dt.normalEngineLines ft sb .space n (body.map (· ++ eol)) = .ok (Dt.matrixColumns ft n (tokenRows c null rows)) :=
  Dt.normalEngineLines_matrix ft sb .space _ _ n w.npos (tokenRows_ne c null rows w.rne)
    (tokenRows_rect c null rows n w.rect) (normalTokens_written w sb eol heol)

/-! ### unwrapped output: one line per row -/

theorem dwBodyLines_unwrapped (c : Dw.RowCfg) (null : Str) (dw : Nat) (rows : List (List Dw.F64)) :
    Dw.dwBodyLines c null false dw rows = some (rows.map (Dw.dataRow c null)) := by
  induction rows with
  | nil => rfl
  | cons r rs ih => simp [Dw.dwBodyLines, Dw.rowLines, ih]

theorem rowLine_of_tokens (l : Str) (hq : ∀ t ∈ Dw.tokensWs l, Dt.QuietTok t) (hne : Dw.tokensWs l ≠ []) :
    Dt.RowLine (Dw.tokensWs l) l := by
  rcases line_shape' l hq with ⟨he, _⟩ | h
  · exact absurd he hne
  · exact h

/-- a written row followed by a whitespace line end is a data line of exactly its cell tokens -/
theorem rowLine_dataRow {c : Dw.RowCfg} {null : Str} (hok : Dw.CfgOK c null) (hq : Dt.QuietTok null) (r : List Dw.F64)
    (hr : r ≠ []) (eol : Str) (heol : Dt.AllWs eol) :
    Dt.RowLine (Dw.rowTokens c null r) (Dw.dataRow c null r ++ eol) := by
  have ht : Dw.tokensWs (Dw.dataRow c null r ++ eol) = Dw.rowTokens c null r := by
    rw [tokensWs_append_ws _ _ heol]; exact Dw.tokensWs_dataRowFrom hok 0 r
  rw [← ht]
  apply rowLine_of_tokens
  · rw [ht]; exact quiet_rowTokensFrom c null hq 0 r
  · rw [ht]
    cases r with
    | nil => exact absurd rfl hr
    | cons x xs => simp [Dw.rowTokens, Dw.rowTokensFrom]

theorem body_unwrapped {c : Dw.RowCfg} {null : Str} (hok : Dw.CfgOK c null) (hq : Dt.QuietTok null) (n : Nat) (hn : 0 < n)
    (rows : List (List Dw.F64)) (hrows : ∀ r ∈ rows, r.length = n) (eol : Str) (heol : Dt.AllWs eol) :
    Dt.Body n ((rows.map (Dw.dataRow c null)).map (· ++ eol)) (tokenRows c null rows) := by
  induction rows with
  | nil => exact Dt.Body.nil
  | cons r rs ih =>
    have hlen : r.length = n := hrows r (by simp)
    have hr : r ≠ [] := by intro e; rw [e] at hlen; simp at hlen; omega
    simp only [List.map_cons, tokenRows]
    refine Dt.Body.row (rowLine_dataRow hok hq r hr eol heol) ?_ (ih (fun x hx => hrows x (by simp [hx])))
    rw [Dw.rowTokens, Dw.rowTokensFrom_length]; exact hlen

/-- unwrapped output is a plain data section in the sense of C02: one data line of `n` quiet tokens per row -/
theorem Written.body_plain {cfg : Dw.DataCfg} {null : Str} {mn : List Str} {rows : List (List Dw.F64)} {c : Dw.RowCfg} {n : Nat}
    {hdr : Str} {body : List Str} (w : Written cfg null mn rows c n hdr body) (hwrap : cfg.wrap = false)
    (eol : Str) (heol : Dt.AllWs eol) :
    Dt.Body n (body.map (· ++ eol)) (tokenRows c null rows) ∧ (body.map (· ++ eol)).length = rows.length := by
  have hb := w.body_eq
  rw [hwrap, dwBodyLines_unwrapped] at hb
  simp only [Option.some.injEq] at hb
  subst hb
  exact ⟨body_unwrapped w.ok w.nullQuiet n w.npos rows w.rect eol heol, by simp⟩

/-- **the sniffer counts `n` columns** on unwrapped output, whichever substitutions are active (so the hyphen
recommendation, which only removes a substitution, is harmless) -/
theorem roundtrip_sniff {cfg : Dw.DataCfg} {null : Str} {mn : List Str} {rows : List (List Dw.F64)} {c : Dw.RowCfg} {n : Nat}
    {hdr : Str} {body : List Str} (w : Written cfg null mn rows c n hdr body) (hwrap : cfg.wrap = false)
    (sb : Dt.Subs) (eol : Str) (heol : Dt.AllWs eol) (pre : List Str) (title : Str) (after : List Str) :
    (Dt.sniffColumns sb .space (pre ++ title :: (body.map (· ++ eol) ++ after)) pre.length
      (pre.length + (body.map (· ++ eol)).length)).count = some n :=
  Dt.sniff_plain sb pre title (w.body_plain hwrap eol heol).1 (tokenRows_ne c null rows w.rne)

/-- **write -> read, genfromtxt specification** (unwrapped output, every written token a number for `float()`); `after` = the
lines after the section: none, or a line whose first token is not a number -/
theorem roundtrip_numpy {cfg : Dw.DataCfg} {null : Str} {mn : List Str} {rows : List (List Dw.F64)} {c : Dw.RowCfg} {n : Nat}
    {hdr : Str} {body : List Str} (w : Written cfg null mn rows c n hdr body) (hwrap : cfg.wrap = false)
    (ft : Dt.FloatTable) (hnum : Dt.Numeric ft (tokenRows c null rows)) (eol : Str) (heol : Dt.AllWs eol) (after : List Str)
    (hnext : after = [] ∨ ∃ ln rest t ts, after = ln :: rest ∧ Dt.npTokens ln = t :: ts ∧ Dt.toFloat ft t = none) :
    Dt.numpyEngineLines ft (body.map (· ++ eol)).length (body.map (· ++ eol) ++ after) =
      some (Dt.matrixColumns ft n (tokenRows c null rows)) := by
  obtain ⟨hb, hl⟩ := w.body_plain hwrap eol heol
  have hp : Dt.PlainData ft (body.map (· ++ eol)) after n (tokenRows c null rows) :=
    ⟨hb, w.npos, tokenRows_ne c null rows w.rne, hnext⟩
  exact Dt.numpy_plain_ok hp hnum (Or.inl (by rw [hl]; simp [tokenRows]))

/-! ## Part 4: the NaN mask through `applyNull` -/

theorem floatCells_getElem? (ft : Dt.FloatTable) (toks vs : List Str) (h : Dt.floatCells ft toks = some vs) (i : Nat) (t : Str)
    (ht : toks[i]? = some t) : vs[i]? = Dt.toFloat ft t := by
  induction toks generalizing vs i with
  | nil => simp at ht
  | cons a ts ih =>
    simp only [Dt.floatCells] at h
    split at h
    · rename_i v vs' h1 h2
      simp at h; subst h
      cases i with
      | zero => simp at ht; subst ht; simp [h1]
      | succ i => simp at ht; simpa using ih vs' h2 i ht
    · simp at h

/-- cell (i, j) of the matrix of a numeric rectangular token matrix is the float of token (i, j) -/
theorem floatCell_matrix (ft : Dt.FloatTable) (n : Nat) (toks : List (List Str)) (hrect : ∀ r ∈ toks, r.length = n)
    (hnum : Dt.Numeric ft toks) (i j : Nat) (row : List Str) (hi : toks[i]? = some row) (t : Str) (ht : row[j]? = some t) :
    Dt.floatCell (Dt.matrixColumns ft n toks) j i = Dt.toFloat ft t := by
  have hrow : row ∈ toks := List.mem_of_getElem? hi
  have hj : j < n := by
    rw [← hrect row hrow]
    exact (List.getElem?_eq_some_iff.mp ht).1
  have hcol : (Dt.matrixColumns ft n toks)[j]? = some (Dt.typedColumn ft (toks.map fun r => r.getD j [])) := by
    simp [Dt.matrixColumns, hj]
  have hall : ∀ t' ∈ toks.map (fun r => r.getD j []), (Dt.toFloat ft t').isSome := by
    intro t' ht'
    obtain ⟨r, hr, rfl⟩ := List.mem_map.mp ht'
    have hl := hrect r hr
    have : r.getD j [] ∈ r := by
      rw [List.getD_eq_getElem?_getD, List.getElem?_eq_getElem (by omega)]
      simp
    exact hnum r hr _ this
  obtain ⟨vs, hvs⟩ := Dt.floatCells_of_all ft _ hall
  unfold Dt.floatCell
  rw [hcol]
  simp only [Dt.typedColumn, hvs]
  apply floatCells_getElem? ft _ vs hvs i t
  simp [hi, List.getD_eq_getElem?_getD, ht]

theorem rowTokens_getElem? (c : Dw.RowCfg) (null : Str) (row : List Dw.F64) (j : Nat) :
    (Dw.rowTokens c null row)[j]? = (row[j]?).map (Dw.cellToken null (c.colFmt j)) := by
  rw [rowTokens_eq_mapIdx]
  simp [List.getElem?_mapIdx]

theorem floatCell_applyNull_strict (nv : Str) (cols : List Dt.Column) (j i : Nat) (hj : j ≠ 0) :
    Dt.floatCell (Dt.applyNull true (some nv) cols) j i =
      (Dt.floatCell cols j i).map (fun v => if Dt.feq v nv then Dt.nanTxt else v) := by
  unfold Dt.floatCell
  rw [Dt.applyNull_getElem?]
  cases cols[j]? with
  | none => simp
  | some col =>
    cases col with
    | floats cells => simp [Dt.applyNullCol_floats nv j hj, Dt.nullCells_getElem?]
    | text cells => simp [Dt.applyNullCol_text]

theorem floatCell_applyNull_zero (u : Bool) (null : Option Str) (cols : List Dt.Column) (i : Nat) :
    Dt.floatCell (Dt.applyNull u null cols) 0 i = Dt.floatCell cols 0 i := by
  unfold Dt.floatCell
  rw [Dt.applyNull_getElem?]
  cases cols[0]? <;> simp [Dt.applyNullCol_zero]

/-- what is asked of the float service (`float()`), of the NULL text `null` and of the header NULL value `nv` -/
structure TableOK (ft : Dt.FloatTable) (null nv : Str) (c : Dw.RowCfg) (rows : List (List Dw.F64)) : Prop where
  /-- the NULL text converts to the header NULL value -/
  null_val : Dt.toFloat ft null = some nv
  /-- the header NULL is a number, not NaN (`nv == nv`) -/
  null_num : Dt.feq nv nv = true
  /-- every written token converts -/
  numeric : Dt.Numeric ft (tokenRows c null rows)
  /-- the `%.Nf` rendering of a value that is not NaN is not read as NaN -/
  no_nan : ∀ N x, Dw.F64.isNaN x = false → Dt.toFloat ft (Dw.fmtFixed N x) ≠ some Dt.nanTxt

/-- **NoNullClash**: no cell outside column 0 that is not NaN is printed to a token whose float is `==` the header NULL -/
def NoNullClash (ft : Dt.FloatTable) (nv : Str) (c : Dw.RowCfg) (rows : List (List Dw.F64)) : Prop :=
  ∀ row ∈ rows, ∀ j x, j ≠ 0 → row[j]? = some x → Dw.F64.isNaN x = false →
    ∀ v, Dt.toFloat ft (Dw.fmtFixed (c.colFmt j).prec x) = some v → Dt.feq v nv = false

/-- the float cell (i, j) the reader builds from the written tokens, before NULL handling -/
theorem floatCell_written (ft : Dt.FloatTable) (null : Str) (c : Dw.RowCfg) (rows : List (List Dw.F64)) (n : Nat)
    (hrect : ∀ r ∈ rows, r.length = n) (hnum : Dt.Numeric ft (tokenRows c null rows))
    (i j : Nat) (row : List Dw.F64) (x : Dw.F64) (hi : rows[i]? = some row) (hx : row[j]? = some x) :
    Dt.floatCell (Dt.matrixColumns ft n (tokenRows c null rows)) j i = Dt.toFloat ft (Dw.cellToken null (c.colFmt j) x) := by
  apply floatCell_matrix ft n _ (tokenRows_rect c null rows n hrect) hnum i j (Dw.rowTokens c null row)
  · simp [tokenRows, hi]
  · rw [rowTokens_getElem?, hx]; rfl

/-- **the NaN mask survives write -> read** (strict NULL policy): outside column 0 a cell reads back as NaN iff it was NaN, a
cell that was not NaN reads back as the float of its printed token; column 0 is the float of its token in every case -/
theorem roundtrip_mask (ft : Dt.FloatTable) (null nv : Str) (c : Dw.RowCfg) (rows : List (List Dw.F64)) (n : Nat)
    (hrect : ∀ r ∈ rows, r.length = n) (htab : TableOK ft null nv c rows) (hclash : NoNullClash ft nv c rows)
    (i j : Nat) (row : List Dw.F64) (x : Dw.F64) (hi : rows[i]? = some row) (hx : row[j]? = some x) :
    (j ≠ 0 → (Dt.floatCell (Dt.applyNull true (some nv) (Dt.matrixColumns ft n (tokenRows c null rows))) j i = some Dt.nanTxt
        ↔ x.isNaN = true)) ∧
    (j ≠ 0 → x.isNaN = false →
      Dt.floatCell (Dt.applyNull true (some nv) (Dt.matrixColumns ft n (tokenRows c null rows))) j i =
        Dt.toFloat ft (Dw.fmtFixed (c.colFmt j).prec x)) ∧
    (j = 0 → Dt.floatCell (Dt.applyNull true (some nv) (Dt.matrixColumns ft n (tokenRows c null rows))) j i =
        Dt.toFloat ft (Dw.cellToken null (c.colFmt 0) x)) := by
  have hbase := floatCell_written ft null c rows n hrect htab.numeric i j row x hi hx
  have hrow : row ∈ rows := List.mem_of_getElem? hi
  -- a cell that is not NaN, outside column 0: its value and what NULL handling does with it
  have hfin : j ≠ 0 → x.isNaN = false →
      Dt.floatCell (Dt.applyNull true (some nv) (Dt.matrixColumns ft n (tokenRows c null rows))) j i =
        Dt.toFloat ft (Dw.fmtFixed (c.colFmt j).prec x) ∧
      Dt.toFloat ft (Dw.fmtFixed (c.colFmt j).prec x) ≠ some Dt.nanTxt := by
    intro hj hnan
    have htok : Dw.cellToken null (c.colFmt j) x = Dw.fmtFixed (c.colFmt j).prec x := by simp [Dw.cellToken, hnan]
    rw [floatCell_applyNull_strict nv _ j i hj, hbase, htok]
    refine ⟨?_, htab.no_nan _ x hnan⟩
    cases hv : Dt.toFloat ft (Dw.fmtFixed (c.colFmt j).prec x) with
    | none => rfl
    | some v => simp [hclash row hrow j x hj hx hnan v hv]
  refine ⟨fun hj => ⟨?_, ?_⟩, fun hj hnan => (hfin hj hnan).1, ?_⟩
  · intro h
    cases hnan : x.isNaN with
    | true => rfl
    | false =>
      obtain ⟨h1, h2⟩ := hfin hj hnan
      rw [h1] at h
      exact absurd h h2
  · intro hnan
    have htok : Dw.cellToken null (c.colFmt j) x = null := by simp [Dw.cellToken, hnan]
    rw [floatCell_applyNull_strict nv _ j i hj, hbase, htok, htab.null_val]
    simp [htab.null_num]
  · intro hj
    subst hj
    rw [floatCell_applyNull_zero, hbase]

/-! ### `NoNullClash` is needed -/

def cxCfg : Dw.RowCfg := ⟨⟨none, 2⟩, [], 10, [' '], [' ']⟩
def cxNull : Str := "-9999.25".toList
/-- the binary64 nearest to −9999.2501 -/
def cxSample : Dw.F64 := .finite true 5497145876995165 (-39)
def cxRows : List (List Dw.F64) := [[.finite false 1 0, cxSample]]
/-- `float("-9999.25").hex()` -/
def cxNv : Str := "-0x1.387a000000000p+13".toList
def cxFt : Dt.FloatTable := [("1.00".toList, "0x1.0000000000000p+0".toList), ("-9999.25".toList, cxNv)]

theorem cx_tokens : tokenRows cxCfg cxNull cxRows = [["1.00".toList, "-9999.25".toList]] := by decide

theorem cx_table : TableOK cxFt cxNull cxNv cxCfg cxRows := by
  refine ⟨by decide, by decide, ?_, ?_⟩
  · rw [cx_tokens]; unfold Dt.Numeric; decide
  · intro N x _ h
    simp only [Dt.toFloat, cxFt, List.lookup] at h
    split at h
    · revert h; decide
    · split at h
      · revert h; decide
      · cases h

/-- COUNTER-EXAMPLE: NULL −9999.25, sample −9999.2501 written with `%.2f`: the printed token is the NULL text, so the sample,
which is not NaN, reads back as NaN.  Every hypothesis of `roundtrip_mask` but `NoNullClash` holds. -/
theorem mask_needs_noNullClash :
    TableOK cxFt cxNull cxNv cxCfg cxRows ∧ cxSample.isNaN = false ∧
    Dw.fmtFixed 2 cxSample = cxNull ∧
    Dt.floatCell (Dt.applyNull true (some cxNv) (Dt.matrixColumns cxFt 2 (tokenRows cxCfg cxNull cxRows))) 1 0
      = some Dt.nanTxt ∧
    ¬ NoNullClash cxFt cxNv cxCfg cxRows := by
  refine ⟨cx_table, rfl, by decide, by rw [cx_tokens]; decide, ?_⟩
  intro h
  have := h [.finite false 1 0, cxSample] (by simp [cxRows]) 1 cxSample (by decide) rfl rfl cxNv (by decide)
  revert this; decide

/-! ### the hypotheses of `roundtrip_mask` can be met -/

/-- −124990.75 instead of the clashing sample, and a NaN cell -/
def exRows : List (List Dw.F64) := [[.finite false 1 0, .finite true 499963 (-2)], [.finite false 1 1, .nan]]
def exFt : Dt.FloatTable := [("1.00".toList, "0x1.0000000000000p+0".toList), ("2.00".toList, "0x1.0000000000000p+1".toList),
  ("-124990.75".toList, "-0x1.e83ec00000000p+16".toList), ("-9999.25".toList, cxNv)]

theorem ex_tokens : tokenRows cxCfg cxNull exRows =
    [["1.00".toList, "-124990.75".toList], ["2.00".toList, "-9999.25".toList]] := by decide

theorem ex_table : TableOK exFt cxNull cxNv cxCfg exRows := by
  refine ⟨by decide, by decide, ?_, ?_⟩
  · rw [ex_tokens]; unfold Dt.Numeric; decide
  · intro N x _ h
    simp only [Dt.toFloat, exFt, List.lookup] at h
    repeat (split at h; (revert h; decide))
    cases h

theorem ex_noClash : NoNullClash exFt cxNv cxCfg exRows := by
  intro row hrow j x hj hx hnan v hv
  simp only [exRows, List.mem_cons, List.mem_nil_iff, or_false] at hrow
  rcases hrow with rfl | rfl
  · match j, hj, hx with
    | 1, _, hx =>
      simp only [List.getElem?_cons_succ, List.getElem?_cons_zero, Option.some.injEq] at hx
      subst hx
      have : Dt.toFloat exFt (Dw.fmtFixed (cxCfg.colFmt 1).prec (.finite true 499963 (-2))) =
          some "-0x1.e83ec00000000p+16".toList := by decide
      rw [this] at hv
      simp only [Option.some.injEq] at hv
      subst hv
      decide
    | j + 2, _, hx => simp at hx
  · match j, hj, hx with
    | 1, _, hx =>
      simp only [List.getElem?_cons_succ, List.getElem?_cons_zero, Option.some.injEq] at hx
      subst hx
      cases hnan
    | j + 2, _, hx => simp at hx

/-! ## Part 5: writer options change the presentation only -/

/-- the two configurations print each of the `n` columns with the same number of decimals -/
def SamePrec (c1 c2 : Dw.RowCfg) (n : Nat) : Prop := ∀ j, j < n → (c1.colFmt j).prec = (c2.colFmt j).prec

theorem cellToken_prec (null : Str) (f1 f2 : Dw.Fmt) (x : Dw.F64) (h : f1.prec = f2.prec) :
    Dw.cellToken null f1 x = Dw.cellToken null f2 x := by
  simp [Dw.cellToken, h]

theorem rowTokensFrom_samePrec (c1 c2 : Dw.RowCfg) (null : Str) (j : Nat) (cells : List Dw.F64)
    (h : ∀ k, k < j + cells.length → (c1.colFmt k).prec = (c2.colFmt k).prec) :
    Dw.rowTokensFrom c1 null j cells = Dw.rowTokensFrom c2 null j cells := by
  induction cells generalizing j with
  | nil => rfl
  | cons x xs ih =>
    simp only [Dw.rowTokensFrom]
    rw [cellToken_prec null _ _ x (h j (by simp)), ih (j + 1) (fun k hk => h k (by simp at hk ⊢; omega))]

/-- the token matrix depends on the configuration only through the precision of each column: not on field widths
(`%10.3f` vs `%.3f`, `len_numeric_field`), spacers, wrap, `data_width`, header style -/
theorem tokenRows_samePrec (c1 c2 : Dw.RowCfg) (null : Str) (rows : List (List Dw.F64)) (n : Nat)
    (hrect : ∀ r ∈ rows, r.length = n) (hp : SamePrec c1 c2 n) : tokenRows c1 null rows = tokenRows c2 null rows := by
  unfold tokenRows
  apply List.map_congr_left
  intro r hr
  exact rowTokensFrom_samePrec c1 c2 null 0 r (fun k hk => hp k (by rw [hrect r hr] at hk; omega))

/-- **what is read does not depend on how it was written** -/
theorem presentation_independent {cfg1 cfg2 : Dw.DataCfg} {null : Str} {mn1 mn2 : List Str} {rows : List (List Dw.F64)}
    {c1 c2 : Dw.RowCfg} {n : Nat} {hdr1 hdr2 : Str} {body1 body2 : List Str}
    (w1 : Written cfg1 null mn1 rows c1 n hdr1 body1) (w2 : Written cfg2 null mn2 rows c2 n hdr2 body2)
    (hp : SamePrec c1 c2 n) (ft : Dt.FloatTable) (sb1 sb2 : Dt.Subs) (eol1 eol2 : Str)
    (h1 : Dt.AllWs eol1) (h2 : Dt.AllWs eol2) :
    tokenRows c1 null rows = tokenRows c2 null rows ∧
    Dt.normalEngineLines ft sb1 .space n (body1.map (· ++ eol1)) = Dt.normalEngineLines ft sb2 .space n (body2.map (· ++ eol2)) := by
  have ht := tokenRows_samePrec c1 c2 null rows n w1.rect hp
  refine ⟨ht, ?_⟩
  rw [roundtrip_normal w1 ft sb1 eol1 h1, roundtrip_normal w2 ft sb2 eol2 h2, ht]

/-- the precision does matter: 0.25 printed with one and with two decimals -/
theorem precision_matters (null : Str) :
    Dw.cellToken null ⟨none, 1⟩ (.finite false 1 (-2)) = "0.2".toList ∧
    Dw.cellToken null ⟨none, 2⟩ (.finite false 1 (-2)) = "0.25".toList := by
  constructor <;> (simp only [Dw.cellToken, Dw.F64.isNaN, Bool.false_eq_true, if_false]; decide)

/-! ## Part 6: the same through `readData` -/

/-- the curves the reader builds from the token matrix -/
def curvesOf (ft : Dt.FloatTable) (p : Dt.NullPolicy) (st : Dt.Steer) (d n : Nat) (toks : List (List Str)) :
    List (Dt.Slot × Dt.Column) :=
  Dt.assignCurves d (Dt.applyNull (p == .strict) st.nullValue (Dt.matrixColumns ft n toks))

/-- **file written with any `wrap`, read back with WRAP = YES in ~Version** and `n` declared curves: the normal engine runs
with `n_columns = n` (the sniffer's answer is not used) and returns the written matrix -/
theorem readData_wrapYes {cfg : Dw.DataCfg} {null : Str} {mn : List Str} {rows : List (List Dw.F64)} {c : Dw.RowCfg} {n : Nat}
    {hdr : Str} {body : List Str} (w : Written cfg null mn rows c n hdr body) (e : Dt.Engine) (p : Dt.NullPolicy)
    (st : Dt.Steer) (ft : Dt.FloatTable) (eol : Str) (heol : Dt.AllWs eol) (pre : List Str) (title : Str) (after : List Str)
    (hdlm : st.delimiter = .space) (hwd : st.wrapDeclared = true) (hwy : st.wrapped = Dt.yesTxt) :
    Dt.readData ⟨e, p⟩ (pre ++ title :: (body.map (· ++ eol) ++ after)) pre.length
        (pre.length + (body.map (· ++ eol)).length) st n ft =
      .ok (.normal, curvesOf ft p st n n (tokenRows c null rows)) := by
  have heff : Dt.effectiveEngine ⟨e, p⟩ st = .normal := by simp [Dt.effectiveEngine, hwy]
  have hcols : ∀ sn, Dt.readerColumns st n sn = n := by
    intro sn; simp [Dt.readerColumns, hwd, hwy, w.npos]
  unfold Dt.readData
  simp only [hdlm]
  generalize Dt.sniffTwice (Dt.readSubs .space) .space _ _ _ = sp
  obtain ⟨sb', sn⟩ := sp
  simp only [heff, hcols]
  unfold Dt.normalEngine
  rw [(Dt.window_plain pre title _ after).1, roundtrip_normal w ft sb' eol heol]
  rfl

/-- **file written with `wrap=False`, read back with WRAP ≠ YES**, normal engine (requested, or forced by the null policy):
the sniffer finds `n` columns and the engine returns the written matrix, whatever number `d` of curves is declared -/
theorem readData_unwrapped_normal {cfg : Dw.DataCfg} {null : Str} {mn : List Str} {rows : List (List Dw.F64)} {c : Dw.RowCfg}
    {n : Nat} {hdr : Str} {body : List Str} (w : Written cfg null mn rows c n hdr body) (hwrap : cfg.wrap = false)
    (e : Dt.Engine) (p : Dt.NullPolicy) (st : Dt.Steer) (d : Nat) (ft : Dt.FloatTable) (eol : Str) (heol : Dt.AllWs eol)
    (pre : List Str) (title : Str) (after : List Str)
    (hdlm : st.delimiter = .space) (hw : st.wrapped ≠ Dt.yesTxt) (heng : Dt.effectiveEngine ⟨e, p⟩ st = .normal) :
    Dt.readData ⟨e, p⟩ (pre ++ title :: (body.map (· ++ eol) ++ after)) pre.length
        (pre.length + (body.map (· ++ eol)).length) st d ft =
      .ok (.normal, curvesOf ft p st d n (tokenRows c null rows)) := by
  obtain ⟨hb, _⟩ := w.body_plain hwrap eol heol
  have hr := tokenRows_ne c null rows w.rne
  obtain ⟨sb', hs⟩ := Dt.sniffTwice_plain (Dt.readSubs .space) pre title (after := after) hb hr
  unfold Dt.readData
  simp only [hdlm, hs, heng, Dt.readerColumns_plain st d n hw]
  unfold Dt.normalEngine
  rw [(Dt.window_plain pre title _ after).1, roundtrip_normal w ft sb' eol heol]
  rfl

/-- **file written with `wrap=False`, read back with WRAP ≠ YES, any engine and null policy**: the curves are those of the
written matrix (the fast engine and the fallback agree); `after` = nothing, or a line whose first token is not a number -/
theorem readData_unwrapped {cfg : Dw.DataCfg} {null : Str} {mn : List Str} {rows : List (List Dw.F64)} {c : Dw.RowCfg}
    {n : Nat} {hdr : Str} {body : List Str} (w : Written cfg null mn rows c n hdr body) (hwrap : cfg.wrap = false)
    (e : Dt.Engine) (p : Dt.NullPolicy) (st : Dt.Steer) (d : Nat) (ft : Dt.FloatTable) (eol : Str) (heol : Dt.AllWs eol)
    (pre : List Str) (title : Str) (after : List Str)
    (hdlm : st.delimiter = .space) (hw : st.wrapped ≠ Dt.yesTxt)
    (hnext : after = [] ∨ ∃ ln rest t ts, after = ln :: rest ∧ Dt.npTokens ln = t :: ts ∧ Dt.toFloat ft t = none) :
    (Dt.readData ⟨e, p⟩ (pre ++ title :: (body.map (· ++ eol) ++ after)) pre.length
        (pre.length + (body.map (· ++ eol)).length) st d ft).map Prod.snd =
      .ok (curvesOf ft p st d n (tokenRows c null rows)) := by
  cases heff : Dt.effectiveEngine ⟨e, p⟩ st with
  | normal => rw [readData_unwrapped_normal w hwrap e p st d ft eol heol pre title after hdlm hw heff]; rfl
  | numpy =>
    obtain ⟨hb, _⟩ := w.body_plain hwrap eol heol
    have hr := tokenRows_ne c null rows w.rne
    have hpd : Dt.PlainData ft (body.map (· ++ eol)) after n (tokenRows c null rows) := ⟨hb, w.npos, hr, hnext⟩
    obtain ⟨sb', hs⟩ := Dt.sniffTwice_plain (Dt.readSubs .space) pre title (after := after) hb hr
    unfold Dt.readData
    simp only [hdlm, hs, heff, Dt.readerColumns_plain st d n hw]
    unfold Dt.numpyEngine Dt.normalEngine
    obtain ⟨hw1, hw2, hw3⟩ := Dt.window_plain pre title (body.map (· ++ eol)) after
    rw [hw1, hw2, hw3, roundtrip_normal w ft sb' eol heol]
    rcases Dt.numpy_plain hpd with hnpy | hnpy <;> rw [hnpy] <;> rfl

/-- **wrapped vs unwrapped, any widths / spacers / header style, same precisions**: the file written with configuration 1
(any `wrap`) and read with WRAP = YES and the file written with configuration 2 (`wrap=False`) and read with WRAP ≠ YES give
the same curves, whatever engines are requested -/
theorem read_independent {cfg1 cfg2 : Dw.DataCfg} {null : Str} {mn1 mn2 : List Str} {rows : List (List Dw.F64)}
    {c1 c2 : Dw.RowCfg} {n : Nat} {hdr1 hdr2 : Str} {body1 body2 : List Str}
    (w1 : Written cfg1 null mn1 rows c1 n hdr1 body1) (w2 : Written cfg2 null mn2 rows c2 n hdr2 body2)
    (hp : SamePrec c1 c2 n) (hwrap2 : cfg2.wrap = false)
    (e1 e2 : Dt.Engine) (p : Dt.NullPolicy) (st1 st2 : Dt.Steer) (ft : Dt.FloatTable)
    (eol1 eol2 : Str) (h1 : Dt.AllWs eol1) (h2 : Dt.AllWs eol2)
    (pre1 pre2 : List Str) (title1 title2 : Str) (after1 after2 : List Str)
    (hd1 : st1.delimiter = .space) (hd2 : st2.delimiter = .space)
    (hwd1 : st1.wrapDeclared = true) (hwy1 : st1.wrapped = Dt.yesTxt) (hw2 : st2.wrapped ≠ Dt.yesTxt)
    (hnull : st1.nullValue = st2.nullValue)
    (hnext : after2 = [] ∨ ∃ ln rest t ts, after2 = ln :: rest ∧ Dt.npTokens ln = t :: ts ∧ Dt.toFloat ft t = none) :
    (Dt.readData ⟨e1, p⟩ (pre1 ++ title1 :: (body1.map (· ++ eol1) ++ after1)) pre1.length
        (pre1.length + (body1.map (· ++ eol1)).length) st1 n ft).map Prod.snd =
    (Dt.readData ⟨e2, p⟩ (pre2 ++ title2 :: (body2.map (· ++ eol2) ++ after2)) pre2.length
        (pre2.length + (body2.map (· ++ eol2)).length) st2 n ft).map Prod.snd := by
  rw [readData_wrapYes w1 e1 p st1 ft eol1 h1 pre1 title1 after1 hd1 hwd1 hwy1,
    readData_unwrapped w2 hwrap2 e2 p st2 n ft eol2 h2 pre2 title2 after2 hd2 hw2 hnext]
  simp only [Except.map, curvesOf, hnull, tokenRows_samePrec c1 c2 null rows n w1.rect hp]

end Lasio.Rt
