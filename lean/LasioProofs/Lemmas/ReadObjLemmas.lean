import LasioModel.ReadObj
import LasioProofs.Lemmas.ReaderLemmas
/-
Lemmas about the typed header (`LasioModel/ReadObj.lean`):
  * the key ↦ kind accumulator does not disturb the `Rd` run (`processKinds_fst`, `readObjLines_raw`);
  * the kind of `Rd.mkParser` in closed form (`mkParser_kind`);
  * the windows of `findSections` start at existing lines whose stripped text is the window's title (`findSections_line`);
  * the keys of `las.sections` stay distinct (`processSections_nodup`);
  * PROVENANCE (`readObjLines_prov`): after a successful read, the items stored under a key are the result of `itemsLoop` on one of the
    "Header items" windows, with the parser `mkParser` built for that window's title line under the provisional version of that moment,
    and the kind recorded for the key is that parser's kind.
-/
namespace Lasio.Ro
open Lasio Lasio.Rd

abbrev Win := Nat × Nat × Str

/-! ## the accumulator is a spectator -/

theorem processKinds_fst (o : ReadOpts) (lines : List Str) (ws : List Win) (st : RState) (km : Kinds) :
    (processKinds o lines ws st km).map Prod.fst = processSections o lines ws st := by
  induction ws generalizing st km with
  | nil => rfl
  | cons w ws ih =>
    unfold processKinds processSections
    cases h : processSection o lines w st with
    | error e => rfl
    | ok st' => exact ih st' _

theorem readObjLines_raw (o : ReadOpts) (lines : List Str) :
    (readObjLines o lines).map THeader.raw = readLines o lines := by
  unfold readObjLines readLines
  cases hf : findSections lines with
  | nil => rfl
  | cons w ws =>
    have h := processKinds_fst o lines (w :: ws) RState.init []
    cases hk : processKinds o lines (w :: ws) RState.init [] with
    | error e =>
      rw [hk] at h
      simp only [Except.map] at h
      simp only [hk, ← h]
      rfl
    | ok r =>
      obtain ⟨st, km⟩ := r
      rw [hk] at h
      simp only [Except.map] at h
      simp only [hk, ← h]
      cases finishRead st <;> rfl

theorem readObjHeader_raw (o : ReadOpts) (text : Str) :
    (readObjHeader o text).map THeader.raw = readHeader o text := by
  unfold readObjHeader readHeader
  split
  · rfl
  · exact readObjLines_raw o _

/-- success of the typed read = success of the `Rd` read, with the same raw header -/
theorem readObjLines_ok (o : ReadOpts) (lines : List Str) (th : THeader) (h : readObjLines o lines = .ok th) :
    readLines o lines = .ok th.raw := by
  rw [← readObjLines_raw, h]; rfl

theorem readObjLines_of_readLines (o : ReadOpts) (lines : List Str) (hd : RHeader) (h : readLines o lines = .ok hd) :
    ∃ th, readObjLines o lines = .ok th ∧ th.raw = hd := by
  have := readObjLines_raw o lines
  rw [h] at this
  cases hr : readObjLines o lines with
  | error e => rw [hr] at this; cases this
  | ok th =>
    rw [hr] at this
    exact ⟨th, rfl, by simpa [Except.map] using this⟩

/-! ## the parser kind in closed form -/

theorem mkParser_kind (title v : Str) (p : Parser) (h : mkParser title (.known v) = .ok p) : p.kind = parserKind title v := by
  unfold mkParser at h
  unfold parserKind
  by_cases c1 : (v == "3.0".toList && isLas3Like title) = true
  · simp only [c1, if_true] at h ⊢
    split at h <;> (cases h; rfl)
  · by_cases c2 : startsWith "~C".toList (upper title) = true
    · simp only [c1, c2, if_true] at h ⊢
      split at h <;> (cases h; rfl)
    · by_cases c3 : startsWith "~P".toList (upper title) = true
      · simp only [c1, c2, c3, if_true] at h ⊢
        split at h <;> (cases h; rfl)
      · by_cases c4 : startsWith "~W".toList (upper title) = true
        · simp only [c1, c2, c3, c4, if_true] at h ⊢
          split at h <;> (cases h; rfl)
        · by_cases c5 : startsWith "~V".toList (upper title) = true
          · simp only [c1, c2, c3, c4, c5, if_true] at h ⊢
            split at h <;> (cases h; rfl)
          · simp only [c1, c2, c3, c4, c5] at h ⊢
            split at h <;> (cases h; rfl)

/-! ## the windows of `findSections` -/

theorem titleStarts_line (ls : List Str) (no n : Nat) (t : Str) (h : (n, t) ∈ titleStarts ls no) :
    no ≤ n ∧ ∃ l, ls[n - no]? = some l ∧ t = sline l := by
  induction ls generalizing no with
  | nil => simp [titleStarts] at h
  | cons l ls ih =>
    unfold titleStarts at h
    split at h
    · rcases List.mem_cons.mp h with h | h
      · cases h
        exact ⟨Nat.le_refl _, l, by simp, rfl⟩
      · obtain ⟨hle, l', hl', ht⟩ := ih (no + 1) h
        refine ⟨by omega, l', ?_, ht⟩
        have : n - no = (n - (no + 1)) + 1 := by omega
        rw [this]; simpa using hl'
    · obtain ⟨hle, l', hl', ht⟩ := ih (no + 1) h
      refine ⟨by omega, l', ?_, ht⟩
      have : n - no = (n - (no + 1)) + 1 := by omega
      rw [this]; simpa using hl'

theorem windows_start (ss : List (Nat × Str)) (last : Nat) (w : Win) (h : w ∈ windows ss last) : (w.1, w.2.2) ∈ ss := by
  fun_induction windows ss last with
  | case1 => simp at h
  | case2 last n t =>
    simp only [List.mem_singleton] at h
    subst h
    simp
  | case3 last n t n2 t2 rest ih =>
    rcases List.mem_cons.mp h with h | h
    · subst h; simp
    · exact List.mem_cons_of_mem _ (ih h)

/-- a window of `find_sections_in_file` starts at an existing line, and its title is that line, stripped -/
theorem findSections_line (lines : List Str) (w : Win) (h : w ∈ findSections lines) :
    ∃ titleLine rest, lines.drop w.1 = titleLine :: rest ∧ w.2.2 = sline titleLine := by
  obtain ⟨_, l, hl, ht⟩ := titleStarts_line lines 0 w.1 w.2.2 (windows_start _ _ w h)
  simp only [Nat.sub_zero] at hl
  obtain ⟨hlt, hget⟩ := List.getElem?_eq_some_iff.mp hl
  refine ⟨l, lines.drop (w.1 + 1), ?_, ht⟩
  rw [← hget]
  exact List.drop_eq_getElem_cons hlt

/-! ## the keys of `las.sections` stay distinct -/

theorem mem_keys_assign (k : RKey) (v : SecVal) (m : List (RKey × Option SecVal)) (x : RKey)
    (h : x ∈ (assign k v m).map Prod.fst) : x = k ∨ x ∈ m.map Prod.fst := by
  induction m with
  | nil => simp [assign] at h; exact Or.inl h
  | cons kv rest ih =>
    obtain ⟨k', v'⟩ := kv
    unfold assign at h
    split at h
    · exact Or.inr (by simpa using h)
    · simp only [List.map_cons, List.mem_cons] at h ⊢
      rcases h with h | h
      · exact Or.inr (Or.inl h)
      · rcases ih h with h | h
        · exact Or.inl h
        · exact Or.inr (Or.inr h)

theorem assign_nodup (k : RKey) (v : SecVal) (m : List (RKey × Option SecVal)) (h : (m.map Prod.fst).Nodup) :
    ((assign k v m).map Prod.fst).Nodup := by
  induction m with
  | nil => simp [assign]
  | cons kv rest ih =>
    obtain ⟨k', v'⟩ := kv
    unfold assign
    split
    · simpa using h
    · rename_i hne
      simp only [List.map_cons, List.nodup_cons] at h ⊢
      refine ⟨fun hm => ?_, ih h.2⟩
      rcases mem_keys_assign k v rest k' hm with e | e
      · exact hne (by simp [e])
      · exact h.1 e

theorem processSection_nodup (o : ReadOpts) (lines : List Str) (w : Win) (st st' : RState)
    (h : processSection o lines w st = .ok st') (hn : (st.sections.map Prod.fst).Nodup) : (st'.sections.map Prod.fst).Nodup := by
  unfold processSection at h
  split at h
  · split at h
    · cases h
    · rename_i items _
      unfold finishItems at h
      simp only at h
      split at h
      · cases h
      · split at h
        · cases h
        · cases h
          exact assign_nodup _ _ _ hn
  · cases h
    exact assign_nodup _ _ _ hn
  · cases h; exact hn
  · cases h; exact hn

theorem processSections_nodup (o : ReadOpts) (lines : List Str) (ws : List Win) (st st' : RState)
    (h : processSections o lines ws st = .ok st') (hn : (st.sections.map Prod.fst).Nodup) : (st'.sections.map Prod.fst).Nodup := by
  induction ws generalizing st with
  | nil => cases h; exact hn
  | cons w ws ih =>
    unfold processSections at h
    cases hp : processSection o lines w st with
    | error e => rw [hp] at h; cases h
    | ok st1 =>
      rw [hp] at h
      exact ih st1 h (processSection_nodup o lines w st st1 hp hn)

theorem lookup_of_mem_nodup {β} (m : List (RKey × β)) (k : RKey) (v : β) (hn : (m.map Prod.fst).Nodup) (h : (k, v) ∈ m) :
    m.lookup k = some v := by
  induction m with
  | nil => cases h
  | cons kv rest ih =>
    obtain ⟨k', v'⟩ := kv
    simp only [List.map_cons, List.nodup_cons] at hn
    rcases List.mem_cons.mp h with h | h
    · cases h; simp [List.lookup]
    · have hne : k ≠ k' := fun e => hn.1 (e ▸ List.mem_map_of_mem (f := Prod.fst) h)
      have : (k == k') = false := by simpa using hne
      simp only [List.lookup, this]
      exact ih hn.2 h

theorem processSections_append (o : ReadOpts) (lines : List Str) (a : List Win) (w : Win) (st0 st st' : RState)
    (h1 : processSections o lines a st0 = .ok st) (h2 : processSection o lines w st = .ok st') :
    processSections o lines (a ++ [w]) st0 = .ok st' := by
  induction a generalizing st0 with
  | nil =>
    cases h1
    simp only [List.nil_append, processSections, h2]
  | cons x a ih =>
    unfold processSections at h1
    simp only [List.cons_append]
    unfold processSections
    cases hp : processSection o lines x st0 with
    | error e => rw [hp] at h1; cases h1
    | ok st1 =>
      rw [hp] at h1
      exact ih st1 h1

/-! ## provenance of the stored items and of the recorded kind -/

/-- the items stored under `k` are what `itemsLoop` returned on the body of a "Header items" window `w` of `pre`, parsed by the
`SectionParser` `p` built from `w`'s title line under the provisional version of the state `stB` reached before `w`; `k` is the key that
window was routed to, and the kind recorded for `k` is `p.kind` -/
def Prov (o : ReadOpts) (lines : List Str) (pre : List Win) (km : Kinds) (k : RKey) (items : List RItem) : Prop :=
  ∃ (a : List Win) (w : Win) (b : List Win) (stB : RState) (titleLine : Str) (rest : List Str) (p : Parser),
    pre = a ++ w :: b ∧ processSections o lines a RState.init = .ok stB ∧
    sectionType w.2.2 = .items ∧ lines.drop w.1 = titleLine :: rest ∧
    mkParser (lineStrip titleLine) (classifyVer stB.steer.vers) = .ok p ∧
    itemsLoop o p w.2.1 rest w.1 = .ok items ∧
    routeKey w.2.2 (classifyVer (steer o w.2.2 items stB.steer).vers) = .ok k ∧
    kindAt km k = p.kind

def Inv (o : ReadOpts) (lines : List Str) (pre : List Win) (st : RState) (km : Kinds) : Prop :=
  ∀ k items, lookupSec k st.sections = some (.items items) → Prov o lines pre km k items

theorem kindAt_cons_same (k : RKey) (kind : PKind) (km : Kinds) : kindAt ((k, kind) :: km) k = kind := by
  simp [kindAt, List.lookup]

theorem kindAt_cons_other (k k2 : RKey) (kind : PKind) (km : Kinds) (h : k2 ≠ k) : kindAt ((k, kind) :: km) k2 = kindAt km k2 := by
  have : (k2 == k) = false := by simpa using h
  simp [kindAt, List.lookup, this]

theorem Prov.extend {o : ReadOpts} {lines : List Str} {pre : List Win} {km km' : Kinds} {k : RKey} {items : List RItem}
    (h : Prov o lines pre km k items) (w : Win) (hk : kindAt km' k = kindAt km k) : Prov o lines (pre ++ [w]) km' k items := by
  obtain ⟨a, w0, b, stB, tl, rest, p, e, h1, h2, h3, h4, h5, h6, h7⟩ := h
  exact ⟨a, w0, b ++ [w], stB, tl, rest, p, by simp [e], h1, h2, h3, h4, h5, h6, hk.trans h7⟩

theorem stepKind_not_items {km : Kinds} (o : ReadOpts) (lines : List Str) (w : Win) (st : RState) (h : sectionType w.2.2 ≠ .items) :
    updKinds o lines w st km = km := by
  have hn : stepKind o lines w st = none := by
    unfold stepKind
    split
    · rename_i h'; exact absurd h' h
    · rfl
  unfold updKinds
  rw [hn]

/-- one iteration keeps the invariant -/
theorem inv_step (o : ReadOpts) (lines : List Str) (pre : List Win) (w : Win) (st st' : RState) (km : Kinds)
    (hpre : processSections o lines pre RState.init = .ok st) (hinv : Inv o lines pre st km)
    (hw : lines.drop w.1 ≠ []) (h : processSection o lines w st = .ok st') :
    Inv o lines (pre ++ [w]) st' (updKinds o lines w st km) := by
  intro k2 items2 hl
  unfold processSection at h
  split at h
  · -- "Header items"
    rename_i hty
    cases hd : lines.drop w.1 with
    | nil => exact absurd hd hw
    | cons titleLine rest =>
      rw [hd] at h
      unfold parseItemsSection at h
      simp only at h
      cases hp : mkParser (lineStrip titleLine) (classifyVer st.steer.vers) with
      | error e => rw [hp] at h; cases h
      | ok p =>
        rw [hp] at h
        simp only at h
        cases hi : itemsLoop o p w.2.1 rest w.1 with
        | error e => rw [hi] at h; cases h
        | ok items =>
          rw [hi] at h
          simp only at h
          unfold finishItems at h
          simp only at h
          split at h
          · cases h
          · cases hr : routeKey w.2.2 (classifyVer (steer o w.2.2 items st.steer).vers) with
            | error e => rw [hr] at h; cases h
            | ok k =>
              rw [hr] at h
              simp only at h
              cases h
              have hu : updKinds o lines w st km = (k, p.kind) :: km := by
                unfold updKinds stepKind
                simp only [hty, hd, hp, hi, hr]
              rw [hu]
              simp only at hl
              by_cases hk : k2 = k
              · subst hk
                rw [lookupSec_assign_same] at hl
                cases hl
                exact ⟨pre, w, [], st, titleLine, rest, p, rfl, hpre, hty, hd, hp, hi, hr, kindAt_cons_same _ _ _⟩
              · rw [lookupSec_assign_other _ _ _ _ hk] at hl
                exact (hinv k2 items2 hl).extend w (kindAt_cons_other _ _ _ _ hk)
  · -- "Header (other)"
    rename_i hty
    have hne : sectionType w.2.2 ≠ .items := by rw [hty]; intro e; cases e
    rw [stepKind_not_items o lines w st hne]
    cases h
    simp only [finishOther] at hl
    by_cases hk : k2 = routeKeyOther w.2.2
    · subst hk
      rw [lookupSec_assign_same] at hl
      cases hl
    · rw [lookupSec_assign_other _ _ _ _ hk] at hl
      exact (hinv k2 items2 hl).extend w rfl
  · rename_i hty
    have hne : sectionType w.2.2 ≠ .items := by rw [hty]; intro e; cases e
    rw [stepKind_not_items o lines w st hne]
    cases h
    exact (hinv k2 items2 hl).extend w rfl
  · rename_i hty
    have hne : sectionType w.2.2 ≠ .items := by rw [hty]; intro e; cases e
    rw [stepKind_not_items o lines w st hne]
    cases h
    exact (hinv k2 items2 hl).extend w rfl

theorem inv_run (o : ReadOpts) (lines : List Str) (ws pre : List Win) (st st' : RState) (km km' : Kinds)
    (hpre : processSections o lines pre RState.init = .ok st) (hinv : Inv o lines pre st km)
    (hw : ∀ w ∈ ws, lines.drop w.1 ≠ []) (h : processKinds o lines ws st km = .ok (st', km')) :
    Inv o lines (pre ++ ws) st' km' := by
  induction ws generalizing pre st km with
  | nil =>
    cases h
    simpa using hinv
  | cons w ws ih =>
    unfold processKinds at h
    cases hp : processSection o lines w st with
    | error e => rw [hp] at h; cases h
    | ok st1 =>
      rw [hp] at h
      have := ih (pre ++ [w]) st1 (updKinds o lines w st km) (processSections_append o lines pre w _ st st1 hpre hp)
        (inv_step o lines pre w st st1 km hpre hinv (hw w (by simp)) hp) (fun x hx => hw x (by simp [hx])) h
      simpa using this

theorem inv_init (o : ReadOpts) (lines : List Str) : Inv o lines [] RState.init [] := by
  intro k items h
  exfalso
  revert h
  simp only [RState.init, initSections, lookupSec, List.lookup]
  repeat' split
  all_goals simp

theorem ite_err_ok {ε α} {c : Prop} [Decidable c] {e : ε} {x : Except ε α} {y : α}
    (h : (if c then Except.error e else x) = .ok y) : x = .ok y := by
  by_cases hc : c
  · rw [if_pos hc] at h; cases h
  · rw [if_neg hc] at h; exact h

theorem finishRead_sections (st : RState) (hd : RHeader) (h : finishRead st = .ok hd) :
    hd.sections = st.sections.filterMap (fun kv => kv.2.map fun v => (kv.1, v)) := by
  unfold finishRead at h
  have h2 := ite_err_ok (ite_err_ok h)
  injection h2 with h2
  rw [← h2]

/-- **Provenance.**  After a successful typed read, whatever items are stored under a key come from one "Header items" window of the file,
and the kind recorded for the key is the kind of the parser that read that window. -/
theorem readObjLines_prov (o : ReadOpts) (lines : List Str) (th : THeader) (h : readObjLines o lines = .ok th)
    (k : RKey) (items : List RItem) (hm : (k, SecVal.items items) ∈ th.raw.sections) :
    Prov o lines (findSections lines) th.kinds k items := by
  unfold readObjLines at h
  cases hf : findSections lines with
  | nil => rw [hf] at h; cases h
  | cons w0 ws0 =>
    rw [hf] at h
    simp only at h
    cases hk : processKinds o lines (w0 :: ws0) RState.init [] with
    | error e => rw [hk] at h; cases h
    | ok r =>
      obtain ⟨st, km⟩ := r
      rw [hk] at h
      simp only at h
      cases hfin : finishRead st with
      | error e => rw [hfin] at h; cases h
      | ok hd =>
        rw [hfin] at h
        cases h
        have hps : processSections o lines (w0 :: ws0) RState.init = .ok st := by
          have := processKinds_fst o lines (w0 :: ws0) RState.init []
          rw [hk] at this
          exact this.symm
        have hnd := processSections_nodup o lines _ _ st hps (by decide)
        have hinv := inv_run o lines (w0 :: ws0) [] RState.init st [] km rfl (inv_init o lines)
          (fun w hw => by
            obtain ⟨tl, rest, e, _⟩ := findSections_line lines w (hf ▸ hw)
            rw [e]; exact List.cons_ne_nil _ _) hk
        simp only [List.nil_append] at hinv
        apply hinv k items
        -- the stored pair comes from an assigned entry of `st.sections`
        have hsec := finishRead_sections st hd hfin
        simp only [typedHeader] at hm
        rw [hsec] at hm
        obtain ⟨kv, hkv, e⟩ := List.mem_filterMap.mp hm
        obtain ⟨k', v'⟩ := kv
        cases v' with
        | none => simp at e
        | some v =>
          simp only [Option.map_some, Option.some.injEq, Prod.mk.injEq] at e
          obtain ⟨e1, e2⟩ := e
          subst e1 e2
          unfold lookupSec
          rw [lookup_of_mem_nodup _ _ _ hnd hkv]
          rfl

end Lasio.Ro
