import LasioModel.Transform
import LasioProofs.Lemmas.DataLemmas
import LasioProofs.Lemmas.ReaderLemmas
/-
Lemmas for C09 (presentation transformations).
§1 strings: `strip` and blanks, `splitEol`.
§2 `pySplit` (= `str.split()`): its three defining equations, words, joining words.
-/
namespace Lasio.Tf
open Lasio Lasio.Dt

/-! ## §1 strings -/

theorem allWs_nil : AllWs [] := fun _ h => by cases h

theorem allWs_append {a b : Str} (ha : AllWs a) (hb : AllWs b) : AllWs (a ++ b) := by
  intro c hc
  rcases List.mem_append.mp hc with h | h
  · exact ha c h
  · exact hb c h

theorem allWs_cons {c : Char} {s : Str} (hc : isPySpace c = true) (hs : AllWs s) : AllWs (c :: s) := by
  intro x hx
  rcases List.mem_cons.mp hx with rfl | h
  · exact hc
  · exact hs x h

theorem allWs_of_cons {c : Char} {s : Str} (h : AllWs (c :: s)) : isPySpace c = true ∧ AllWs s :=
  ⟨h c (by simp), fun x hx => h x (by simp [hx])⟩

theorem isBT_space (c : Char) (h : isBT c = true) : isPySpace c = true := by
  unfold isBT at h
  simp only [Bool.or_eq_true, beq_iff_eq] at h
  rcases h with rfl | rfl <;> decide

theorem allWs_blanksOf (s : Str) : AllWs (blanksOf s) := by
  intro c hc
  unfold blanksOf at hc
  exact isBT_space c (List.mem_filter.mp hc).2

theorem allWs_nl : AllWs nl := by intro c hc; simp [nl] at hc; subst hc; decide
theorem allWs_crnl : AllWs ['\r', '\n'] := by
  intro c hc; simp at hc; rcases hc with rfl | rfl <;> decide

/-- `strip` ignores blanks in front -/
theorem strip_ws_left (a s : Str) (ha : AllWs a) : strip (a ++ s) = strip s := by
  unfold strip lstrip
  induction a with
  | nil => rfl
  | cons c a ih =>
    obtain ⟨hc, ha'⟩ := allWs_of_cons ha
    simp only [List.cons_append, List.dropWhile_cons, hc, if_true]
    exact ih ha'

theorem rstrip_ws_right (s b : Str) (hb : AllWs b) : rstrip (s ++ b) = rstrip s := by
  unfold rstrip
  rw [List.reverse_append]
  congr 1
  have hb' : AllWs b.reverse := fun c hc => hb c (List.mem_reverse.mp hc)
  generalize b.reverse = r at hb'
  induction r with
  | nil => rfl
  | cons c r ih =>
    obtain ⟨hc, hr⟩ := allWs_of_cons hb'
    simp only [List.cons_append, List.dropWhile_cons, hc, if_true]
    exact ih hr

theorem lstrip_append_of_ne (s b : Str) (h : lstrip s ≠ []) : lstrip (s ++ b) = lstrip s ++ b := by
  unfold lstrip at *
  induction s with
  | nil => exact absurd rfl h
  | cons c s ih =>
    simp only [List.cons_append, List.dropWhile_cons] at h ⊢
    split
    · rename_i hc; simp only [hc, if_true] at h; exact ih h
    · rfl

/-- `strip` ignores blanks at the end -/
theorem strip_ws_right (s b : Str) (hb : AllWs b) : strip (s ++ b) = strip s := by
  unfold strip
  by_cases h : lstrip s = []
  · have : lstrip (s ++ b) = lstrip b := by
      unfold lstrip at *
      rw [List.dropWhile_append]
      simp [h]
    rw [this, h]
    have hb2 : AllWs (lstrip b) := fun c hc => hb c (dw_mem' hc)
    have := rstrip_ws_right [] (lstrip b) hb2
    simpa using this
  · rw [lstrip_append_of_ne s b h, rstrip_ws_right _ b hb]
where
  dw_mem' {l : Str} {c : Char} (h : c ∈ lstrip l) : c ∈ l := (List.dropWhile_sublist _).subset h

theorem strip_sandwich_ws (a s b : Str) (ha : AllWs a) (hb : AllWs b) : strip (a ++ (s ++ b)) = strip s := by
  rw [strip_ws_left a _ ha, strip_ws_right s b hb]

theorem cleanLine_eq_strip (l : Str) : cleanLine l = strip l := Rd.lineStrip_eq_strip l

/-! ### `splitEol` -/

theorem splitEol_spec (l : Str) :
    l = (splitEol l).1 ++ (splitEol l).2 ∧
    ((splitEol l).2 = [] ∨ (splitEol l).2 = ['\n'] ∨ (splitEol l).2 = ['\r', '\n']) := by
  unfold splitEol
  have hl : l = l.reverse.reverse := (List.reverse_reverse l).symm
  generalize l.reverse = r at hl
  subst hl
  match r with
  | [] => simp
  | [c] => by_cases h : c = '\n' <;> simp [h]
  | c :: d :: r =>
    by_cases h : c = '\n'
    · subst h
      by_cases h2 : d = '\r'
      · subst h2; simp
      · simp [h2]
    · simp [h]

theorem splitEol_allWs (l : Str) : AllWs (splitEol l).2 := by
  rcases (splitEol_spec l).2 with h | h | h <;> rw [h]
  · exact allWs_nil
  · exact allWs_nl
  · exact allWs_crnl

theorem strip_splitEol (l : Str) : strip (splitEol l).1 = strip l := by
  have h := strip_ws_right (splitEol l).1 (splitEol l).2 (splitEol_allWs l)
  rw [← (splitEol_spec l).1] at h
  exact h.symm

/-! ## §2 `pySplit` -/

/-- not a blank -/
abbrev ns (c : Char) : Bool := !isPySpace c

theorem pySplit_nil : pySplit [] = [] := rfl

theorem pySplit_ws (c : Char) (cs : Str) (h : isPySpace c = true) : pySplit (c :: cs) = pySplit cs := by
  simp [pySplit, scanTok, mWord, h]

theorem pySplit_word (c : Char) (cs : Str) (h : isPySpace c = false) :
    pySplit (c :: cs) = (c :: cs.takeWhile ns) :: pySplit (cs.dropWhile ns) := by
  have e : cs = cs.takeWhile ns ++ cs.dropWhile ns := (List.takeWhile_append_dropWhile (p := ns) (l := cs)).symm
  simp only [pySplit, scanTok, mWord, h, Bool.false_eq_true, if_false]
  congr 1
  have := scanTok_skip mWord (cs.takeWhile ns) (cs.dropWhile ns)
  rw [← e] at this
  exact this

theorem pySplit_allWs (a : Str) (ha : AllWs a) : pySplit a = [] := by
  induction a with
  | nil => rfl
  | cons c a ih =>
    obtain ⟨hc, ha'⟩ := allWs_of_cons ha
    rw [pySplit_ws c a hc]; exact ih ha'

theorem pySplit_ws_left (a s : Str) (ha : AllWs a) : pySplit (a ++ s) = pySplit s := by
  induction a with
  | nil => rfl
  | cons c a ih =>
    obtain ⟨hc, ha'⟩ := allWs_of_cons ha
    rw [List.cons_append, pySplit_ws c _ hc]; exact ih ha'

theorem takeWhile_ns_append (cs b : Str) (hb : WsHead b) : (cs ++ b).takeWhile ns = cs.takeWhile ns := by
  induction cs with
  | nil =>
    rcases hb with rfl | ⟨w, r, rfl, hw⟩
    · rfl
    · simp [ns, hw]
  | cons c cs ih =>
    simp only [List.cons_append, List.takeWhile_cons]
    split
    · rw [ih]
    · rfl

theorem dropWhile_ns_append (cs b : Str) (hb : WsHead b) : (cs ++ b).dropWhile ns = cs.dropWhile ns ++ b := by
  induction cs with
  | nil =>
    rcases hb with rfl | ⟨w, r, rfl, hw⟩
    · rfl
    · simp [ns, hw]
  | cons c cs ih =>
    simp only [List.cons_append, List.dropWhile_cons]
    split
    · rw [ih]
    · rfl

theorem wsHead_dropWhile_ns (cs : Str) : WsHead (cs.dropWhile ns) := by
  induction cs with
  | nil => exact Or.inl rfl
  | cons c cs ih =>
    simp only [List.dropWhile_cons]
    split
    · exact ih
    · rename_i h
      exact Or.inr ⟨c, cs, rfl, by simpa [ns] using h⟩

/-- `str.split()` ignores what follows a blank only through the following words -/
theorem pySplit_append (s b : Str) (hb : WsHead b) : pySplit (s ++ b) = pySplit s ++ pySplit b := by
  induction hn : s.length using Nat.strongRecOn generalizing s with
  | _ n ih =>
    cases s with
    | nil => rfl
    | cons c cs =>
      cases hc : isPySpace c with
      | true =>
        rw [List.cons_append, pySplit_ws c _ hc, pySplit_ws c _ hc]
        exact ih cs.length (by subst hn; simp) cs rfl
      | false =>
        rw [List.cons_append, pySplit_word c _ hc, pySplit_word c _ hc, takeWhile_ns_append cs b hb,
          dropWhile_ns_append cs b hb]
        rw [ih (cs.dropWhile ns).length (by
          subst hn
          have := (List.dropWhile_sublist ns (l := cs)).length_le
          simp; omega) _ rfl]
        rfl

theorem pySplit_ws_right (s b : Str) (hb : AllWs b) : pySplit (s ++ b) = pySplit s := by
  rw [pySplit_append s b (wsHead_allWs b hb), pySplit_allWs b hb, List.append_nil]

theorem mem_takeWhile_p {α} (p : α → Bool) (l : List α) (x : α) (h : x ∈ l.takeWhile p) : p x = true := by
  induction l with
  | nil => cases h
  | cons a l ih =>
    simp only [List.takeWhile_cons] at h
    split at h
    · rename_i ha
      rcases List.mem_cons.mp h with rfl | h
      · exact ha
      · exact ih h
    · cases h

/-- a word: not empty, no blank inside -/
def IsWord (w : Str) : Prop := w ≠ [] ∧ ∀ c ∈ w, isPySpace c = false

theorem pySplit_isWord (w : Str) (h : IsWord w) : pySplit w = [w] := by
  obtain ⟨hne, hc⟩ := h
  cases w with
  | nil => exact absurd rfl hne
  | cons c cs =>
    have hcs : ∀ x ∈ cs, ns x = true := fun x hx => by simp [ns, hc x (by simp [hx])]
    rw [pySplit_word c cs (hc c (by simp)), takeWhile_all ns cs hcs, dropWhile_all ns cs hcs]
    rfl

theorem mem_pySplit_isWord (s : Str) : ∀ w ∈ pySplit s, IsWord w := by
  induction hn : s.length using Nat.strongRecOn generalizing s with
  | _ n ih =>
    cases s with
    | nil => intro w hw; cases hw
    | cons c cs =>
      cases hc : isPySpace c with
      | true =>
        rw [pySplit_ws c _ hc]
        exact ih cs.length (by subst hn; simp) cs rfl
      | false =>
        rw [pySplit_word c _ hc]
        intro w hw
        rcases List.mem_cons.mp hw with rfl | hw
        · refine ⟨by simp, ?_⟩
          intro x hx
          rcases List.mem_cons.mp hx with rfl | hx
          · exact hc
          · have := mem_takeWhile_p ns cs x hx
            simpa [ns] using this
        · exact ih (cs.dropWhile ns).length (by
            subst hn
            have := (List.dropWhile_sublist ns (l := cs)).length_le
            simp; omega) _ rfl w hw

/-- a word followed by a blank run -/
theorem pySplit_word_sep (w sep rest : Str) (hw : IsWord w) (hsep : AllWs sep) (hne : sep ≠ []) :
    pySplit (w ++ (sep ++ rest)) = w :: pySplit rest := by
  rw [pySplit_append w _ (wsHead_of_allWs_append sep rest hsep hne), pySplit_isWord w hw, pySplit_ws_left sep rest hsep]
  rfl

/-! ## what the data reader looks at in a line -/

/-- the sniffer's view of a sampled line: its item count and whether it contains a hyphen -/
def sniffInfo (sb : Subs) (dlm : Dlm) (s : Str) : Nat × Bool := ((splitLine dlm (applySubs sb s)).length, s.contains '-')

/-- Two physical lines the data reader cannot tell apart (delimiter `dlm`): same items for the normal engine whatever
substitutions are active, same sample for the sniffer, same tokens for `genfromtxt`. -/
structure DataEq (dlm : Dlm) (a b : Str) : Prop where
  toks : ∀ sb, lineTokens sb dlm a = lineTokens sb dlm b
  sniff : ∀ sb, (sampleLine a).map (sniffInfo sb dlm) = (sampleLine b).map (sniffInfo sb dlm)
  np : npTokens a = npTokens b

/-- no quote character -/
def QuoteFree (s : Str) : Prop := ∀ c ∈ s, c ≠ '"' ∧ c ≠ '\''

/-- the first word starts with `#` -/
def firstHash : List Str → Bool
  | (c :: _) :: _ => c == '#'
  | _ => false

/-- the items of the text `s` for the whitespace splitter, after the read substitutions and the removal of ctrl-Z -/
def lineToks (sb : Subs) (s : Str) : List Str := splitWs ((applySubs sb s).filter (· != ctrlZ))

end Lasio.Tf

/-! ## §5 the document structure of any line list -/
namespace Lasio.Tf
open Lasio Lasio.Dt

/-- lines before the first title, then the sections (title line, body lines) -/
def parse : List Str → List Str × List (Str × List Str)
  | [] => ([], [])
  | x :: xs => if Rd.isTitle x then ([], (x, (parse xs).1) :: (parse xs).2) else (x :: (parse xs).1, (parse xs).2)

theorem parse_flat (l : List Str) : l = (parse l).1 ++ Rd.flat (parse l).2 := by
  induction l with
  | nil => rfl
  | cons x xs ih =>
    simp only [parse]
    split
    · simp only [Rd.flat, List.nil_append, List.cons_append]
      rw [← ih]
    · simp only [List.cons_append]
      rw [← ih]

theorem parse_pre (l : List Str) : ∀ x ∈ (parse l).1, Rd.isTitle x = false := by
  induction l with
  | nil => intro x hx; cases hx
  | cons a xs ih =>
    simp only [parse]
    split
    · intro x hx; cases hx
    · rename_i h
      intro x hx
      rcases List.mem_cons.mp hx with rfl | hx
      · simpa using h
      · exact ih x hx

theorem parse_wf (l : List Str) : Rd.WellFormed (parse l).2 := by
  induction l with
  | nil => intro tb h; cases h
  | cons a xs ih =>
    simp only [parse]
    split
    · rename_i h
      intro tb htb
      rcases List.mem_cons.mp htb with rfl | htb
      · exact ⟨h, parse_pre xs⟩
      · exact ih tb htb
    · exact ih

/-- kind of the section a title line opens -/
def kindOf (t : Str) : Rd.SecKind := Rd.sectionType (Rd.sline t)

theorem sline_strip_congr {a b : Str} (h : strip a = strip b) : Rd.sline a = Rd.sline b := by
  rw [Rd.sline_eq_strip, Rd.sline_eq_strip, h]

theorem lineStrip_strip_congr {a b : Str} (h : strip a = strip b) : Rd.lineStrip a = Rd.lineStrip b := by
  rw [Rd.lineStrip_eq_strip, Rd.lineStrip_eq_strip, h]

theorem isTitle_strip_congr {a b : Str} (h : strip a = strip b) : Rd.isTitle a = Rd.isTitle b := by
  rw [Rd.isTitle_eq, Rd.isTitle_eq, h]

theorem kindOf_strip_congr {a b : Str} (h : strip a = strip b) : kindOf a = kindOf b := by
  unfold kindOf; rw [sline_strip_congr h]

/-! ## §6 the header-level reader on related sections -/

/-- two sections the header-level reader cannot tell apart -/
structure SecRel (tb tb' : Str × List Str) : Prop where
  title : strip tb.1 = strip tb'.1
  items : kindOf tb.1 = .items →
    ∀ (o : Rd.ReadOpts) (ver : Rd.VerVal) (p : Rd.Parser), Rd.mkParser (Rd.lineStrip tb.1) ver = .ok p →
      ∀ (n n' : Nat) (l : List Rd.RItem), Rd.bodyRun o p tb.2 n = .ok l → Rd.bodyRun o p tb'.2 n' = .ok l
  other : kindOf tb.1 = .other → tb.2.map Rd.lineStrip = tb'.2.map Rd.lineStrip

/-- the window a section contributes to the list of data sections of kind `k` -/
def secWin (k : Rd.SecKind) (n : Nat) (tb : Str × List Str) : List (Nat × Nat × Str) :=
  if kindOf tb.1 = k then [(n, n + tb.2.length, Rd.sline tb.1)] else []

theorem finishItems_core (o : Rd.ReadOpts) (title : Str) (items : List Rd.RItem) (st st' r : Rd.RState)
    (hc : Rd.core st = Rd.core st') (h : Rd.finishItems o title items st = .ok r) :
    ∃ r', Rd.finishItems o title items st' = .ok r' ∧ Rd.core r' = Rd.core r ∧ r.data = st.data ∧ r.las3 = st.las3 ∧
      r'.data = st'.data ∧ r'.las3 = st'.las3 := by
  simp only [Rd.core, Prod.mk.injEq] at hc
  obtain ⟨h1, h2, h3⟩ := hc
  unfold Rd.finishItems at h ⊢
  simp only [← h1, ← h2, ← h3] at *
  split at h
  · cases h
  · rename_i hlen
    simp only [hlen, if_false]
    cases hr : Rd.routeKey title (Rd.classifyVer (Rd.steer o title items st.steer).vers) with
    | error e => simp [hr] at h
    | ok k =>
      simp only [hr] at h ⊢
      cases h
      exact ⟨_, rfl, by simp [Rd.core], rfl, rfl, rfl, rfl⟩

/-- one section: related sections read from states with the same header part give states with the same header part -/
theorem docSection_rel (o : Rd.ReadOpts) (n n' : Nat) (tb tb' : Str × List Str) (st st' r : Rd.RState)
    (hrel : SecRel tb tb') (hc : Rd.core st = Rd.core st') (h : Rd.docSection o n tb st = .ok r) :
    ∃ r', Rd.docSection o n' tb' st' = .ok r' ∧ Rd.core r' = Rd.core r ∧
      r.data = st.data ++ secWin .data n tb ∧ r.las3 = st.las3 ++ secWin .las3data n tb ∧
      r'.data = st'.data ++ secWin .data n' tb' ∧ r'.las3 = st'.las3 ++ secWin .las3data n' tb' := by
  have hs : Rd.sline tb.1 = Rd.sline tb'.1 := sline_strip_congr hrel.title
  have hl : Rd.lineStrip tb.1 = Rd.lineStrip tb'.1 := lineStrip_strip_congr hrel.title
  have hk' : kindOf tb'.1 = kindOf tb.1 := (kindOf_strip_congr hrel.title).symm
  have hver : st.steer = st'.steer := by simp only [Rd.core, Prod.mk.injEq] at hc; exact hc.1
  unfold Rd.docSection at h ⊢
  rw [← hs, ← hl]
  cases hk : Rd.sectionType (Rd.sline tb.1) with
  | items =>
    have hkind : kindOf tb.1 = .items := hk
    simp only [hk] at h ⊢
    rw [← hver]
    cases hp : Rd.mkParser (Rd.lineStrip tb.1) (Rd.classifyVer st.steer.vers) with
    | error e => simp [hp] at h
    | ok p =>
      simp only [hp] at h ⊢
      cases hb : Rd.bodyRun o p tb.2 n with
      | error e => simp [hb] at h
      | ok items =>
        simp only [hb] at h
        rw [hrel.items hkind o _ p hp n n' items hb]
        obtain ⟨r', h1, h2, h3, h4, h5, h6⟩ := finishItems_core o _ items st st' r hc h
        refine ⟨r', h1, h2, ?_, ?_, ?_, ?_⟩ <;> simp [secWin, hkind, hk', h3, h4, h5, h6]
  | other =>
    have hkind : kindOf tb.1 = .other := hk
    simp only [hk] at h ⊢
    cases h
    rw [← hrel.other hkind]
    simp only [Rd.core, Prod.mk.injEq] at hc
    refine ⟨_, rfl, ?_, ?_, ?_, ?_, ?_⟩ <;> simp [Rd.finishOther, Rd.core, secWin, hkind, hk', hc.1, hc.2.1, hc.2.2]
  | data =>
    have hkind : kindOf tb.1 = .data := hk
    simp only [hk] at h ⊢
    cases h
    simp only [Rd.core, Prod.mk.injEq] at hc
    refine ⟨_, rfl, ?_, ?_, ?_, ?_, ?_⟩ <;> simp [Rd.core, secWin, hkind, hk', hc.1, hc.2.1, hc.2.2, hs]
  | las3data =>
    have hkind : kindOf tb.1 = .las3data := hk
    simp only [hk] at h ⊢
    cases h
    simp only [Rd.core, Prod.mk.injEq] at hc
    refine ⟨_, rfl, ?_, ?_, ?_, ?_, ?_⟩ <;> simp [Rd.core, secWin, hkind, hk', hc.1, hc.2.1, hc.2.2, hs]

/-- pointwise related lists -/
inductive Forall2 {α β} (R : α → β → Prop) : List α → List β → Prop
  | nil : Forall2 R [] []
  | cons {a b l l'} : R a b → Forall2 R l l' → Forall2 R (a :: l) (b :: l')

/-- the windows of the sections of kind `k` of a document whose first title is line `n` -/
def dataWins (k : Rd.SecKind) : List (Str × List Str) → Nat → List (Nat × Nat × Str)
  | [], _ => []
  | tb :: rest, n => secWin k n tb ++ dataWins k rest (n + 1 + tb.2.length)

/-- all sections -/
theorem docSections_rel (o : Rd.ReadOpts) (secs secs' : List (Str × List Str)) (n n' : Nat) (st st' r : Rd.RState)
    (hrel : Forall2 SecRel secs secs') (hc : Rd.core st = Rd.core st') (h : Rd.docSections o secs n st = .ok r) :
    ∃ r', Rd.docSections o secs' n' st' = .ok r' ∧ Rd.core r' = Rd.core r ∧
      r.data = st.data ++ dataWins .data secs n ∧ r.las3 = st.las3 ++ dataWins .las3data secs n ∧
      r'.data = st'.data ++ dataWins .data secs' n' ∧ r'.las3 = st'.las3 ++ dataWins .las3data secs' n' := by
  induction hrel generalizing n n' st st' with
  | nil =>
    simp only [Rd.docSections] at h ⊢
    cases h
    exact ⟨st', rfl, hc.symm, by simp [dataWins], by simp [dataWins], by simp [dataWins], by simp [dataWins]⟩
  | @cons tb tb' rest rest' hsec _ ih =>
    simp only [Rd.docSections] at h ⊢
    cases hd : Rd.docSection o n tb st with
    | error e => simp [hd] at h
    | ok s1 =>
      simp only [hd] at h
      obtain ⟨s1', h1, h2, h3, h4, h5, h6⟩ := docSection_rel o n n' tb tb' st st' s1 hsec hc hd
      simp only [h1]
      obtain ⟨r', g1, g2, g3, g4, g5, g6⟩ := ih (n + 1 + tb.2.length) (n' + 1 + tb'.2.length) s1 s1' h2.symm h
      refine ⟨r', g1, g2, ?_, ?_, ?_, ?_⟩
      · rw [g3, h3]; simp [dataWins]
      · rw [g4, h4]; simp [dataWins]
      · rw [g5, h5]; simp [dataWins]
      · rw [g6, h6]; simp [dataWins]

end Lasio.Tf

namespace Lasio.Tf
open Lasio Lasio.Dt

/-- reading a file given by its structure = reading its sections one by one (C05_read_rendered_lines) -/
theorem readLines_struct (o : Rd.ReadOpts) (pre : List Str) (secs : List (Str × List Str))
    (hpre : ∀ x ∈ pre, Rd.isTitle x = false) (hw : Rd.WellFormed secs) (hne : secs ≠ []) :
    Rd.readLines o (pre ++ Rd.flat secs) =
      match Rd.docSections o secs pre.length Rd.RState.init with
      | .error e => .error e
      | .ok st => Rd.finishRead st := by
  unfold Rd.readLines
  have hp := Rd.processSections_doc o (pre ++ Rd.flat secs) secs pre.length Rd.RState.init (by simp) hw
  rw [Rd.findSections_render pre secs hpre hw] at *
  cases secs with
  | nil => exact absurd rfl hne
  | cons tb rest =>
    obtain ⟨t, b⟩ := tb
    simp only [Rd.docWindows] at hp ⊢
    rw [hp]
    cases Rd.docSections o ((t, b) :: rest) pre.length Rd.RState.init <;> rfl

theorem readLines_no_sections (o : Rd.ReadOpts) (pre : List Str) (hpre : ∀ x ∈ pre, Rd.isTitle x = false) :
    Rd.readLines o pre = .error .noSections := by
  have h := Rd.findSections_render pre [] hpre (by intro tb h; cases h)
  simp only [Rd.flat, List.append_nil, Rd.docWindows] at h
  unfold Rd.readLines
  rw [h]

/-- the data sections `read` parses: the ~A kind, the `_Data` kind when there is none -/
def docData (secs : List (Str × List Str)) (n : Nat) : List (Nat × Nat × Str) :=
  if (dataWins .data secs n).isEmpty then dataWins .las3data secs n else dataWins .data secs n

theorem finishRead_core (st st' : Rd.RState) (h : Rd.RHeader) (hc : Rd.core st' = Rd.core st) (hr : Rd.finishRead st = .ok h) :
    h.data = (if st.data.isEmpty then st.las3 else st.data) ∧
    Rd.finishRead st' = .ok ⟨h.sections, h.steer, if st'.data.isEmpty then st'.las3 else st'.data⟩ := by
  simp only [Rd.core, Prod.mk.injEq] at hc
  obtain ⟨c1, c2, c3⟩ := hc
  unfold Rd.finishRead at hr ⊢
  rw [c1, c2, c3]
  generalize (!_ : Bool) = A at hr ⊢
  cases A with
  | true => simp at hr
  | false =>
    by_cases h2 : st.curvesPlain = true
    · simp [h2] at hr
    · simp only [Bool.false_eq_true, if_false, h2] at hr ⊢
      cases hr
      exact ⟨rfl, rfl⟩

/-- HEADER PART, whole file: related documents that can be read at all give the same sections and steering values; their
data windows are those of the data sections of the document structure. -/
theorem readLines_rel (o : Rd.ReadOpts) (pre pre' : List Str) (secs secs' : List (Str × List Str))
    (hpre : ∀ x ∈ pre, Rd.isTitle x = false) (hpre' : ∀ x ∈ pre', Rd.isTitle x = false)
    (hw : Rd.WellFormed secs) (hw' : Rd.WellFormed secs')
    (hrel : Forall2 SecRel secs secs') (h : Rd.RHeader) (hr : Rd.readLines o (pre ++ Rd.flat secs) = .ok h) :
    h.data = docData secs pre.length ∧
    Rd.readLines o (pre' ++ Rd.flat secs') = .ok ⟨h.sections, h.steer, docData secs' pre'.length⟩ := by
  have hne : secs ≠ [] := by
    intro e; subst e
    have : pre ++ Rd.flat [] = pre := by simp [Rd.flat]
    rw [this, readLines_no_sections o pre hpre] at hr
    cases hr
  have hne' : secs' ≠ [] := by
    cases hrel with
    | nil => exact absurd rfl hne
    | cons _ _ => simp
  rw [readLines_struct o pre secs hpre hw hne] at hr
  rw [readLines_struct o pre' secs' hpre' hw' hne']
  cases hd : Rd.docSections o secs pre.length Rd.RState.init with
  | error e => rw [hd] at hr; cases hr
  | ok st =>
    rw [hd] at hr
    obtain ⟨st', g1, g2, g3, g4, g5, g6⟩ :=
      docSections_rel o secs secs' pre.length pre'.length Rd.RState.init Rd.RState.init st hrel rfl hd
    rw [g1]
    obtain ⟨f1, f2⟩ := finishRead_core st st' h g2 hr
    have e1 : st.data = dataWins .data secs pre.length := by simpa [Rd.RState.init] using g3
    have e2 : st.las3 = dataWins .las3data secs pre.length := by simpa [Rd.RState.init] using g4
    have e3 : st'.data = dataWins .data secs' pre'.length := by simpa [Rd.RState.init] using g5
    have e4 : st'.las3 = dataWins .las3data secs' pre'.length := by simpa [Rd.RState.init] using g6
    refine ⟨by rw [f1, e1, e2]; rfl, ?_⟩
    show Rd.finishRead st' = _
    rw [f2, e3, e4]; rfl

end Lasio.Tf

/-! ## §7 the data reader on a window given by its body -/
namespace Lasio.Tf
open Lasio Lasio.Dt

theorem drop_at (A : List Str) (t : Str) (rest : List Str) : (A ++ t :: rest).drop (A.length + 1) = rest := by
  rw [← List.drop_drop, List.drop_left]; rfl

theorem bodyLines_at (A : List Str) (t : Str) (b after : List Str) :
    bodyLines (A ++ t :: (b ++ after)) A.length (A.length + b.length) = b := by
  unfold bodyLines
  rw [drop_at, show A.length + b.length - A.length = b.length by omega, List.take_left]

/-- the sniffer on the body -/
def sniffB (sb : Subs) (dlm : Dlm) (body : List Str) : SniffResult :=
  let sampled := (body.filterMap sampleLine).take 21
  { count := consistent (sampled.map fun l => (splitLine dlm (applySubs sb l)).length),
    hyphenFired := sampled.all (fun l => l.contains '-') }

theorem sniffColumns_body (sb : Subs) (dlm : Dlm) (lines : List Str) (first last : Nat) :
    sniffColumns sb dlm lines first last = sniffB sb dlm (bodyLines lines first last) := rfl

def sniffTwiceB (sb : Subs) (dlm : Dlm) (body : List Str) : Subs × Option Nat :=
  let r1 := sniffB sb dlm body
  if r1.hyphenFired && sb.dropHyphen != sb then (sb.dropHyphen, (sniffB sb.dropHyphen dlm body).count) else (sb, r1.count)

theorem sniffTwice_body (sb : Subs) (dlm : Dlm) (lines : List Str) (first last : Nat) :
    sniffTwice sb dlm lines first last = sniffTwiceB sb dlm (bodyLines lines first last) := rfl

/-- the end of `readData`: NULL and the assignment to curves -/
def finishCols (o : DataOpts) (st : Steer) (d : Nat) (e : Engine) (cols : List Column) : Engine × List (Slot × Column) :=
  (e, assignCurves d (applyNull (o.nullPolicy == .strict) st.nullValue cols))

/-- the normal engine's way through `readData`, on the body -/
def normalRead (o : DataOpts) (st : Steer) (d : Nat) (ft : FloatTable) (body : List Str) :
    Except DErr (Engine × List (Slot × Column)) :=
  (normalEngineLines ft (sniffTwiceB (readSubs st.delimiter) st.delimiter body).1 st.delimiter
    (readerColumns st d (sniffTwiceB (readSubs st.delimiter) st.delimiter body).2) body).map (finishCols o st d .normal)

/-- `readData` on the body `b` of a window and the lines `after` it -/
def readBody (o : DataOpts) (st : Steer) (d : Nat) (ft : FloatTable) (b after : List Str) :
    Except DErr (Engine × List (Slot × Column)) :=
  match effectiveEngine o st with
  | .numpy =>
    match numpyEngineLines ft b.length (b ++ after) with
    | some cols => .ok (finishCols o st d .numpy cols)
    | none => normalRead o st d ft b
  | .normal => normalRead o st d ft b

/-- `readData` looks at the body of its window (and, the numpy engine, at the lines after it) only -/
theorem readData_window (o : DataOpts) (A : List Str) (t : Str) (b after : List Str) (st : Steer) (d : Nat) (ft : FloatTable) :
    readData o (A ++ t :: (b ++ after)) A.length (A.length + b.length) st d ft = readBody o st d ft b after := by
  have e : A.length + b.length - A.length = b.length := by omega
  unfold readData readBody normalRead normalEngine numpyEngine
  simp only [sniffTwice_body, bodyLines_at, drop_at, e]
  rfl

/-- bodies the data reader cannot tell apart line by line: equivalent lines, blank / comment lines come and go -/
inductive BodySim (dlm : Dlm) : List Str → List Str → Prop
  | nil : BodySim dlm [] []
  | line {a b l l'} : DataEq dlm a b → BodySim dlm l l' → BodySim dlm (a :: l) (b :: l')
  | insL {s l l'} : SkipLine s → BodySim dlm l l' → BodySim dlm (s :: l) l'
  | insR {s l l'} : SkipLine s → BodySim dlm l l' → BodySim dlm l (s :: l')

theorem bodySim_tokens (dlm : Dlm) (sb : Subs) {b b' : List Str} (h : BodySim dlm b b') :
    normalTokens sb dlm b = normalTokens sb dlm b' := by
  induction h with
  | nil => rfl
  | line hd _ ih => simp only [normalTokens, List.flatMap_cons] at ih ⊢; rw [hd.toks sb, ih]
  | insL hs _ ih => simp only [normalTokens, List.flatMap_cons] at ih ⊢; rw [lineTokens_skip sb dlm hs, ih]; rfl
  | insR hs _ ih => simp only [normalTokens, List.flatMap_cons] at ih ⊢; rw [lineTokens_skip sb dlm hs, ih]; rfl

/-- what the sniffer extracts from the body -/
def infos (sb : Subs) (dlm : Dlm) (body : List Str) : List (Nat × Bool) := (body.filterMap sampleLine).map (sniffInfo sb dlm)

theorem bodySim_infos (dlm : Dlm) (sb : Subs) {b b' : List Str} (h : BodySim dlm b b') : infos sb dlm b = infos sb dlm b' := by
  induction h with
  | nil => rfl
  | @line a c l l' hd _ ih =>
    have := hd.sniff sb
    simp only [infos, List.filterMap_cons] at ih ⊢
    cases ha : sampleLine a <;> cases hc : sampleLine c <;> simp [ha, hc] at this ⊢
    · exact ih
    · exact ⟨this, ih⟩
  | insL hs _ ih => simp only [infos, List.filterMap_cons, sampleLine_skip hs] at ih ⊢; exact ih
  | insR hs _ ih => simp only [infos, List.filterMap_cons, sampleLine_skip hs] at ih ⊢; exact ih

theorem sniffB_infos (sb : Subs) (dlm : Dlm) (body : List Str) :
    sniffB sb dlm body = { count := consistent (((infos sb dlm body).take 21).map Prod.fst),
                           hyphenFired := ((infos sb dlm body).take 21).all Prod.snd } := by
  unfold sniffB infos
  simp only [← List.map_take, List.map_map, List.all_map]
  rfl

theorem bodySim_sniffB (dlm : Dlm) (sb : Subs) {b b' : List Str} (h : BodySim dlm b b') : sniffB sb dlm b = sniffB sb dlm b' := by
  rw [sniffB_infos, sniffB_infos, bodySim_infos dlm sb h]

theorem bodySim_sniffTwiceB (dlm : Dlm) (sb : Subs) {b b' : List Str} (h : BodySim dlm b b') :
    sniffTwiceB sb dlm b = sniffTwiceB sb dlm b' := by
  unfold sniffTwiceB
  rw [bodySim_sniffB dlm sb h, bodySim_sniffB dlm sb.dropHyphen h]

theorem normalEngineLines_tokens (ft : FloatTable) (sb : Subs) (dlm : Dlm) (n : Nat) (b b' : List Str)
    (h : normalTokens sb dlm b = normalTokens sb dlm b') : normalEngineLines ft sb dlm n b = normalEngineLines ft sb dlm n b' := by
  unfold normalEngineLines; rw [h]

/-- NORMAL ENGINE: bodies related line by line are read alike — sniffer (sample of 21 data lines, hyphen rule) included -/
theorem normalRead_sim (o : DataOpts) (st : Steer) (d : Nat) (ft : FloatTable) {b b' : List Str}
    (h : BodySim st.delimiter b b') : normalRead o st d ft b = normalRead o st d ft b' := by
  unfold normalRead
  rw [bodySim_sniffTwiceB st.delimiter _ h]
  rw [normalEngineLines_tokens ft _ st.delimiter _ b b' (bodySim_tokens st.delimiter _ h)]

end Lasio.Tf

/-! ### the numpy engine through the rows it sees -/
namespace Lasio.Tf
open Lasio Lasio.Dt

/-- the token rows `genfromtxt` sees: lines without tokens are skipped -/
def npRows (lines : List Str) : List (List Str) := (lines.map npTokens).filter (fun t => !t.isEmpty)

def collectRows (c : Nat) : Nat → List (List Str) → Option (List (List Str))
  | 0, _ => some []
  | _ + 1, [] => some []
  | b + 1, t :: rest => if t.length != c then none else (collectRows c b rest).map (t :: ·)

theorem npRows_nil : npRows [] = [] := rfl

theorem npRows_cons (ln : Str) (rest : List Str) :
    npRows (ln :: rest) = if (npTokens ln).isEmpty then npRows rest else npTokens ln :: npRows rest := by
  unfold npRows
  simp only [List.map_cons, List.filter_cons]
  cases (npTokens ln).isEmpty <;> simp

theorem npRows_append (a b : List Str) : npRows (a ++ b) = npRows a ++ npRows b := by
  simp [npRows]

theorem npRows_ne (lines : List Str) : ∀ r ∈ npRows lines, r ≠ [] := by
  intro r hr
  unfold npRows at hr
  have := (List.mem_filter.mp hr).2
  intro e; subst e; simp at this

theorem npCollect_rows (c b : Nat) (lines : List Str) : npCollect c b lines = collectRows c b (npRows lines) := by
  induction lines generalizing b with
  | nil => cases b <;> rfl
  | cons ln rest ih =>
    cases b with
    | zero => simp [npCollect, collectRows]
    | succ b =>
      rw [npRows_cons]
      cases he : (npTokens ln).isEmpty with
      | true => simp only [npCollect, he, if_true]; exact ih (b + 1)
      | false => simp only [npCollect, he, Bool.false_eq_true, if_false, collectRows, ih b]

theorem npFirstCount_rows (lines : List Str) : npFirstCount lines = (npRows lines).head?.map List.length := by
  induction lines with
  | nil => rfl
  | cons ln rest ih =>
    rw [npRows_cons]
    cases he : (npTokens ln).isEmpty with
    | true => simp only [npFirstCount, he, if_true]; exact ih
    | false => simp [npFirstCount, he]

/-- `numpyEngineLines` as a function of the rows -/
def numpyRows (ft : FloatTable) (m : Nat) (rows : List (List Str)) : Option (List Column) :=
  if m < 1 then none
  else
    match rows.head? with
    | none => some []
    | some r =>
      match collectRows r.length m rows with
      | none => none
      | some rs => allFloatCols ft (columnsOf r.length rs)

theorem numpyEngineLines_rows (ft : FloatTable) (m : Nat) (lines : List Str) :
    numpyEngineLines ft m lines = numpyRows ft m (npRows lines) := by
  unfold numpyEngineLines numpyRows
  rw [npFirstCount_rows]
  cases (npRows lines).head? with
  | none => rfl
  | some r => simp only [Option.map_some, npCollect_rows]; rfl

theorem collectRows_some (c b : Nat) (rows rs : List (List Str)) (h : collectRows c b rows = some rs) : rs = rows.take b := by
  induction rows generalizing b rs with
  | nil => cases b <;> simp [collectRows] at h <;> simp [h]
  | cons t rest ih =>
    cases b with
    | zero => simp [collectRows] at h; simp [h]
    | succ b =>
      simp only [collectRows] at h
      split at h
      · cases h
      · cases hc : collectRows c b rest with
        | none => simp [hc] at h
        | some r2 =>
          simp [hc] at h
          subst h
          simp [ih b r2 hc]

theorem collectRows_take (c b : Nat) (rows : List (List Str)) : collectRows c b (rows.take b) = collectRows c b rows := by
  induction rows generalizing b with
  | nil => simp
  | cons t rest ih =>
    cases b with
    | zero => simp [collectRows]
    | succ b => simp only [List.take_succ_cons, collectRows, ih b]

theorem collectRows_ge (c b b' : Nat) (rows : List (List Str)) (h : rows.length ≤ b) (h' : rows.length ≤ b') :
    collectRows c b rows = collectRows c b' rows := by
  induction rows generalizing b b' with
  | nil => cases b <;> cases b' <;> rfl
  | cons t rest ih =>
    cases b with
    | zero => simp at h
    | succ b =>
      cases b' with
      | zero => simp at h'
      | succ b' =>
        simp only [collectRows]
        rw [ih b b' (by simpa using h) (by simpa using h')]

/-- only the first `m` rows matter -/
theorem numpyRows_take (ft : FloatTable) (m : Nat) (rows : List (List Str)) (hm : 1 ≤ m) :
    numpyRows ft m (rows.take m) = numpyRows ft m rows := by
  unfold numpyRows
  have hh : (rows.take m).head? = rows.head? := by
    cases rows with
    | nil => simp
    | cons r rs => cases m with
      | zero => omega
      | succ m => simp
  rw [hh]
  cases rows.head? with
  | none => rfl
  | some r => simp only [collectRows_take]

/-- a budget beyond the number of rows changes nothing -/
theorem numpyRows_ge (ft : FloatTable) (m m' : Nat) (rows : List (List Str)) (h1 : 1 ≤ m) (h1' : 1 ≤ m')
    (h : rows.length ≤ m) (h' : rows.length ≤ m') : numpyRows ft m rows = numpyRows ft m' rows := by
  unfold numpyRows
  have e1 : ¬ m < 1 := by omega
  have e2 : ¬ m' < 1 := by omega
  simp only [e1, e2, if_false]
  cases rows.head? with
  | none => rfl
  | some r => simp only [collectRows_ge _ m m' rows h h']

/-- a row whose first token is not a number, within the budget: `genfromtxt` raises -/
theorem numpyRows_bad (ft : FloatTable) (m : Nat) (r1 : List (List Str)) (t : Str) (ts : List Str) (rest : List (List Str))
    (hne : ∀ r ∈ r1, r ≠ []) (hlt : r1.length < m) (hnf : toFloat ft t = none) :
    numpyRows ft m (r1 ++ (t :: ts) :: rest) = none := by
  unfold numpyRows
  have e1 : ¬ m < 1 := by omega
  simp only [e1, if_false]
  cases hh : (r1 ++ (t :: ts) :: rest).head? with
  | none => cases r1 <;> simp at hh
  | some r =>
    simp only
    have hr : r ≠ [] := by
      cases r1 with
      | nil => simp at hh; subst hh; simp
      | cons a r1' => simp at hh; subst hh; exact hne _ (by simp)
    have hc : 0 < r.length := List.length_pos_iff.mpr hr
    cases hcol : collectRows r.length m (r1 ++ (t :: ts) :: rest) with
    | none => rfl
    | some rs =>
      simp only
      have hrs := collectRows_some _ _ _ _ hcol
      have hmem : (t :: ts) ∈ rs := by
        rw [hrs, List.take_append]
        apply List.mem_append_right
        have : m - r1.length = (m - r1.length - 1) + 1 := by omega
        rw [this, List.take_succ_cons]
        simp
      have hcol0 : columnOf rs 0 ∈ columnsOf r.length rs := by
        simp only [columnsOf, List.mem_map, List.mem_range]
        exact ⟨0, hc, rfl⟩
      apply allFloatCols_none_of_mem ft _ _ t hcol0 _ hnf
      simp only [columnOf, List.mem_map]
      exact ⟨t :: ts, hmem, rfl⟩

/-- what may follow a data window: nothing, or a line whose first token is not a number (a title line) -/
def AfterOK (ft : FloatTable) (after : List Str) : Prop :=
  after = [] ∨ ∃ ln rest t ts, after = ln :: rest ∧ npTokens ln = t :: ts ∧ toFloat ft t = none

theorem npRows_length_le (b : List Str) : (npRows b).length ≤ b.length := by
  unfold npRows
  have := List.length_filter_le (fun t : List Str => !t.isEmpty) (b.map npTokens)
  simpa using this

/-- the numpy engine on a window with at least one row: what it makes of the rows of the body alone, or an exception -/
theorem numpy_cases (ft : FloatTable) (b after : List Str) (hafter : AfterOK ft after) (hr : 1 ≤ (npRows b).length) :
    numpyEngineLines ft b.length (b ++ after) = numpyRows ft (npRows b).length (npRows b) ∨
    numpyEngineLines ft b.length (b ++ after) = none := by
  have hle := npRows_length_le b
  rw [numpyEngineLines_rows, npRows_append]
  rcases hafter with rfl | ⟨ln, rest, t, ts, rfl, htok, hnf⟩
  · left
    simp only [npRows_nil, List.append_nil]
    exact numpyRows_ge ft _ _ _ (by omega) hr hle (Nat.le_refl _)
  · have hrows : npRows (ln :: rest) = (t :: ts) :: npRows rest := by rw [npRows_cons, htok]; rfl
    rw [hrows]
    by_cases heq : (npRows b).length = b.length
    · left
      rw [← numpyRows_take ft b.length _ (by omega), ← heq, List.take_left, heq]
    · right
      exact numpyRows_bad ft _ _ t ts _ (npRows_ne b) (by omega) hnf

theorem numpy_alone (ft : FloatTable) (b : List Str) (hr : 1 ≤ (npRows b).length) :
    numpyEngineLines ft b.length (b ++ []) = numpyRows ft (npRows b).length (npRows b) := by
  have hle := npRows_length_le b
  rw [numpyEngineLines_rows, List.append_nil]
  exact numpyRows_ge ft _ _ _ (by omega) hr hle (Nat.le_refl _)

/-- no row at all: no column or an exception -/
theorem numpy_cases_empty (ft : FloatTable) (b after : List Str) (hafter : AfterOK ft after) (hr : npRows b = []) :
    numpyEngineLines ft b.length (b ++ after) = some [] ∨ numpyEngineLines ft b.length (b ++ after) = none := by
  rw [numpyEngineLines_rows, npRows_append, hr, List.nil_append]
  by_cases hm : b.length < 1
  · right; simp [numpyRows, hm]
  · rcases hafter with rfl | ⟨ln, rest, t, ts, rfl, htok, hnf⟩
    · left; simp [numpyRows, hm, npRows_nil]
    · right
      have hrows : npRows (ln :: rest) = (t :: ts) :: npRows rest := by rw [npRows_cons, htok]; rfl
      rw [hrows]
      exact numpyRows_bad ft _ [] t ts _ (by intro r h; cases h) (by simp; omega) hnf

theorem bodySim_npRows (dlm : Dlm) {b b' : List Str} (h : BodySim dlm b b') : npRows b = npRows b' := by
  induction h with
  | nil => rfl
  | line hd _ ih => rw [npRows_cons, npRows_cons, hd.np, ih]
  | insL hs _ ih => rw [npRows_cons, npTokens_skip hs, ih]; rfl
  | insR hs _ ih => rw [npRows_cons, npTokens_skip hs, ih]; rfl

end Lasio.Tf

namespace Lasio.Tf
open Lasio Lasio.Dt

/-- reading the window as the last section of a file gives the curves the normal engine gives: the two engines agree on
this data section (C02: true of every PlainData section) -/
def AgreeAlone (o : DataOpts) (st : Steer) (d : Nat) (ft : FloatTable) (b : List Str) : Prop :=
  (readBody o st d ft b []).map Prod.snd = (normalRead o st d ft b).map Prod.snd

theorem normalRead_nil (o : DataOpts) (st : Steer) (d : Nat) (ft : FloatTable) :
    normalRead o st d ft [] = .ok (finishCols o st d .normal []) := by
  simp [normalRead, normalEngineLines, normalTokens, Except.map]

theorem numpy_alone_empty (ft : FloatTable) (b : List Str) (hr : npRows b = []) (hb : 1 ≤ b.length) :
    numpyEngineLines ft b.length (b ++ []) = some [] := by
  rw [numpyEngineLines_rows, List.append_nil, hr]
  have : ¬ b.length < 1 := by omega
  simp [numpyRows, this]

/-- the curves, whatever engine produced them, after an answer of the numpy engine -/
theorem readBody_numpy_some (o : DataOpts) (st : Steer) (d : Nat) (ft : FloatTable) (b after : List Str) (cols : List Column)
    (he : effectiveEngine o st = .numpy) (h : numpyEngineLines ft b.length (b ++ after) = some cols) :
    (readBody o st d ft b after).map Prod.snd = .ok (finishCols o st d .normal cols).2 := by
  simp [readBody, he, h, Except.map, finishCols]

theorem readBody_numpy_none (o : DataOpts) (st : Steer) (d : Nat) (ft : FloatTable) (b after : List Str)
    (he : effectiveEngine o st = .numpy) (h : numpyEngineLines ft b.length (b ++ after) = none) :
    readBody o st d ft b after = normalRead o st d ft b := by
  simp [readBody, he, h]

/-- DATA PART, one window: bodies related line by line, each followed by the end of the file or a title line, are read to
the same curves by `readData` — with the numpy engine provided the two engines agree on the base window. -/
theorem readBody_sim (o : DataOpts) (st : Steer) (d : Nat) (ft : FloatTable) {b b' after after' : List Str}
    (h : BodySim st.delimiter b b') (ha : AfterOK ft after) (ha' : AfterOK ft after') (hagree : AgreeAlone o st d ft b) :
    (readBody o st d ft b after).map Prod.snd = (readBody o st d ft b' after').map Prod.snd := by
  have hn := normalRead_sim o st d ft h
  cases he : effectiveEngine o st with
  | normal => simp only [readBody, he, hn]
  | numpy =>
    have hrows := bodySim_npRows st.delimiter h
    -- the value of the normal engine whenever the numpy engine answers `cols` on the base window alone
    have key : ∀ cols, numpyEngineLines ft b.length (b ++ []) = some cols →
        (normalRead o st d ft b).map Prod.snd = .ok (finishCols o st d .normal cols).2 := by
      intro cols hc
      rw [← hagree]
      exact readBody_numpy_some o st d ft b [] cols he hc
    -- both sides are `X` (the numpy answer on the rows alone) or an exception
    have side : ∀ (c : List Str) (aft : List Str), AfterOK ft aft → npRows c = npRows b → normalRead o st d ft c = normalRead o st d ft b →
        (readBody o st d ft c aft).map Prod.snd = (normalRead o st d ft b).map Prod.snd := by
      intro c aft haft hcr hcn
      by_cases hr : npRows b = []
      · rcases numpy_cases_empty ft c aft haft (hcr.trans hr) with h1 | h1
        · rw [readBody_numpy_some o st d ft c aft [] he h1]
          by_cases hb : 1 ≤ b.length
          · exact (key [] (numpy_alone_empty ft b hr hb)).symm
          · have : b = [] := by cases b with
              | nil => rfl
              | cons _ _ => simp at hb
            subst this
            rw [normalRead_nil]; rfl
        · rw [readBody_numpy_none o st d ft c aft he h1, hcn]
      · have hpos : 1 ≤ (npRows b).length := by
          cases hq : npRows b with
          | nil => exact absurd hq hr
          | cons _ _ => simp
        rcases numpy_cases ft c aft haft (by rw [hcr]; exact hpos) with h1 | h1
        · rw [hcr, ← numpy_alone ft b hpos] at h1
          cases hX : numpyEngineLines ft b.length (b ++ []) with
          | none => rw [hX] at h1; rw [readBody_numpy_none o st d ft c aft he h1, hcn]
          | some cols =>
            rw [hX] at h1
            rw [readBody_numpy_some o st d ft c aft cols he h1]
            exact (key cols hX).symm
        · rw [readBody_numpy_none o st d ft c aft he h1, hcn]
    rw [side b after ha rfl rfl, side b' after' ha' hrows.symm hn.symm]

end Lasio.Tf

/-! ## §8 header and data together -/
namespace Lasio.Tf
open Lasio Lasio.Dt

def isDataKind (k : Rd.SecKind) : Prop := k = .data ∨ k = .las3data

/-- Section-wise relation of two documents: the header-level reader cannot tell the sections apart, and every data section
is read to the same curves whenever the steering values `st`, `d` satisfy the guard `G` on its body. -/
inductive DocRel (o : DataOpts) (ft : FloatTable) (G : Steer → Nat → List Str → Prop) :
    List (Str × List Str) → List (Str × List Str) → Prop
  | nil : DocRel o ft G [] []
  | cons {tb tb' rest rest'} : SecRel tb tb' →
      (isDataKind (kindOf tb.1) → ∀ st d, G st d tb.2 →
        (readBody o st d ft tb.2 (Rd.flat rest)).map Prod.snd = (readBody o st d ft tb'.2 (Rd.flat rest')).map Prod.snd) →
      DocRel o ft G rest rest' → DocRel o ft G (tb :: rest) (tb' :: rest')

theorem DocRel.secs {o : DataOpts} {ft : FloatTable} {G : Steer → Nat → List Str → Prop} {secs secs' : List (Str × List Str)}
    (h : DocRel o ft G secs secs') : Forall2 SecRel secs secs' := by
  induction h with
  | nil => exact .nil
  | cons hs _ _ ih => exact .cons hs ih

/-- the guard holds on the body of every data section -/
def AllData (P : List Str → Prop) (secs : List (Str × List Str)) : Prop :=
  ∀ tb ∈ secs, isDataKind (kindOf tb.1) → P tb.2

theorem dataWins_length (k : Rd.SecKind) (secs secs' : List (Str × List Str)) (n n' : Nat)
    (hrel : Forall2 SecRel secs secs') : (dataWins k secs n).length = (dataWins k secs' n').length := by
  induction hrel generalizing n n' with
  | nil => rfl
  | @cons tb tb' rest rest' hsec _ ih =>
    have hh : (secWin k n tb).length = (secWin k n' tb').length := by
      simp only [secWin, kindOf_strip_congr hsec.title]
      split <;> rfl
    simp only [dataWins, List.length_append]
    rw [ih (n + 1 + tb.2.length) (n' + 1 + tb'.2.length), hh]

/-- the curves of the window `w` of the file `lines` -/
def curvesOf (o : DataOpts) (st : Steer) (d : Nat) (ft : FloatTable) (lines : List Str) (w : Nat × Nat × Str) :
    Except DErr (List (Slot × Column)) := (readData o lines w.1 w.2.1 st d ft).map Prod.snd

theorem curvesOf_secWin (o : DataOpts) (st : Steer) (d : Nat) (ft : FloatTable) (k : Rd.SecKind) (A : List Str) (t : Str)
    (b after : List Str) :
    (secWin k A.length (t, b)).map (curvesOf o st d ft (A ++ t :: (b ++ after))) =
      if kindOf t = k then [(readBody o st d ft b after).map Prod.snd] else [] := by
  unfold secWin
  split
  · simp only [List.map_cons, List.map_nil, curvesOf]
    rw [readData_window]
  · rfl

theorem dataWins_results (o : DataOpts) (ft : FloatTable) (G : Steer → Nat → List Str → Prop) (st : Steer) (d : Nat)
    (k : Rd.SecKind) (hk : isDataKind k) {secs secs' : List (Str × List Str)} (hrel : DocRel o ft G secs secs')
    (hG : AllData (G st d) secs) (lines lines' A A' : List Str) (hl : lines = A ++ Rd.flat secs) (hl' : lines' = A' ++ Rd.flat secs') :
    (dataWins k secs A.length).map (curvesOf o st d ft lines) = (dataWins k secs' A'.length).map (curvesOf o st d ft lines') := by
  induction hrel generalizing A A' with
  | nil => rfl
  | @cons tb tb' rest rest' hs hv _ ih =>
    obtain ⟨t, b⟩ := tb
    obtain ⟨t', b'⟩ := tb'
    have hG' : AllData (G st d) rest := fun x hx => hG x (List.mem_cons_of_mem _ hx)
    have g1 : lines = (A ++ t :: b) ++ Rd.flat rest := by rw [hl]; simp [Rd.flat]
    have g2 : lines' = (A' ++ t' :: b') ++ Rd.flat rest' := by rw [hl']; simp [Rd.flat]
    have ih' := ih hG' (A ++ t :: b) (A' ++ t' :: b') g1 g2
    have e1 : (A ++ t :: b).length = A.length + 1 + b.length := by simp; omega
    have e2 : (A' ++ t' :: b').length = A'.length + 1 + b'.length := by simp; omega
    rw [e1, e2] at ih'
    have hhead : (secWin k A.length (t, b)).map (curvesOf o st d ft lines) =
        (secWin k A'.length (t', b')).map (curvesOf o st d ft lines') := by
      have h1 : lines = A ++ t :: (b ++ Rd.flat rest) := by rw [hl]; simp [Rd.flat]
      have h2 : lines' = A' ++ t' :: (b' ++ Rd.flat rest') := by rw [hl']; simp [Rd.flat]
      rw [h1, h2, curvesOf_secWin, curvesOf_secWin, (kindOf_strip_congr hs.title).symm]
      by_cases hkt : kindOf t = k
      · have hd : isDataKind (kindOf t) := by rw [hkt]; exact hk
        rw [if_pos hkt, if_pos hkt, hv hd st d (hG (t, b) List.mem_cons_self hd)]
      · rw [if_neg hkt, if_neg hkt]
    simp only [dataWins, List.map_append]
    rw [ih', hhead]

theorem docData_results (o : DataOpts) (ft : FloatTable) (G : Steer → Nat → List Str → Prop) (st : Steer) (d : Nat)
    {secs secs' : List (Str × List Str)} (hrel : DocRel o ft G secs secs') (hG : AllData (G st d) secs) (A A' : List Str) :
    (docData secs A.length).map (curvesOf o st d ft (A ++ Rd.flat secs)) =
    (docData secs' A'.length).map (curvesOf o st d ft (A' ++ Rd.flat secs')) := by
  have hlen := dataWins_length .data secs secs' A.length A'.length hrel.secs
  have he : (dataWins .data secs A.length).isEmpty = (dataWins .data secs' A'.length).isEmpty := by
    cases h1 : dataWins .data secs A.length <;> cases h2 : dataWins .data secs' A'.length <;> simp [h1, h2] at hlen ⊢
  unfold docData
  rw [← he]
  split
  · exact dataWins_results o ft G st d .las3data (Or.inr rfl) hrel hG _ _ A A' rfl rfl
  · exact dataWins_results o ft G st d .data (Or.inl rfl) hrel hG _ _ A A' rfl rfl

/-- WHOLE FILE: a readable document and a section-wise related one give the same parsed result (`readModel`), provided the
guard of the relation holds for the steering values and the number of declared curves of the (base) file. -/
theorem readFull_rel (o : Opts) (nullOf : Option Str → Option Str) (ft : FloatTable) (G : Steer → Nat → List Str → Prop)
    (pre pre' : List Str) (secs secs' : List (Str × List Str))
    (hpre : ∀ x ∈ pre, Rd.isTitle x = false) (hpre' : ∀ x ∈ pre', Rd.isTitle x = false)
    (hw : Rd.WellFormed secs) (hw' : Rd.WellFormed secs') (hrel : DocRel o.dat ft G secs secs')
    (r : FullRead) (hr : readFull o nullOf ft (pre ++ Rd.flat secs) = .ok r)
    (hG : AllData (G (dtSteer nullOf r.steer) (declaredCount r.sections)) secs) :
    ∃ r', readFull o nullOf ft (pre' ++ Rd.flat secs') = .ok r' ∧ r'.steer = r.steer ∧ r'.parsed = r.parsed := by
  unfold readFull at hr ⊢
  cases hh : Rd.readLines o.hdr (pre ++ Rd.flat secs) with
  | error e => rw [hh] at hr; cases hr
  | ok h =>
    rw [hh] at hr
    obtain ⟨hd, hr'⟩ := readLines_rel o.hdr pre pre' secs secs' hpre hpre' hw hw' hrel.secs h hh
    rw [hr']
    simp only [Except.ok.injEq] at hr
    subst hr
    refine ⟨_, rfl, rfl, ?_⟩
    simp only [FullRead.parsed, List.map_map] at hG ⊢
    congr 1
    rw [hd]
    exact (docData_results o.dat ft G _ _ hrel hG pre pre').symm

end Lasio.Tf
