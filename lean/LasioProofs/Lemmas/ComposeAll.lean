import LasioProofs.Props.C09
import LasioProofs.Props.C09Redelim
import LasioProofs.Props.C09RedelimFile
/-
C09, composition with the TAB / COMMA re-padding and the re-delimiting steps: definitions and helper lemmas for
Props/C09Compose.

§1  `RepadOK`, `OK'`: the side condition of C09 extended by `repadLine` on TAB / COMMA data with numeric cells
§2  `RedelimOK`: the side condition of a `.redelim` step (the hypotheses of `C09_redelim_file_replace` / `_insert` on the document)
§3  `ItemsUpToDlm`, `SecsUpToDlm`, `ParsedUpToDlm`: equal up to the DLM item — an equivalence; `JRel` for a DLM item implies it
§4  `StepOK`, `nextSteer`, `ChainAll`: side conditions along a mixed list of transformations
-/
namespace Lasio.Tf
open Lasio Lasio.Dt

/-! ## §1 the extended side condition -/

/-- `repadLine k dlm seps` on a document `d`: line `k` is data line `j` of a data section whose body has numeric cells (`NumBody`),
the separators are admissible, `float()` ignores the blanks around the items met and the items are numbers, the declared
delimiter is `dlm`, and the normal engine is in effect or `dlm` is not COMMA (hypotheses of `C09_repad_delimited_file`) -/
def RepadOK (o : DataOpts) (ft : FloatTable) (st : Steer) (k : Nat) (dlm : Dlm) (seps : List Str) (d : Doc) : Prop :=
  ∃ (pre : List Str) (s₁ s₂ : List (Str × List Str)) (t : Str) (body : List Str) (j c : Nat),
    d = pre ++ Rd.flat (s₁ ++ (t, body) :: s₂) ∧ (∀ x ∈ pre, Rd.isTitle x = false) ∧ Rd.WellFormed (s₁ ++ (t, body) :: s₂) ∧
    k = pre.length + Rd.size s₁ + 1 + j ∧ isDataKind (kindOf t) ∧ j < body.length ∧
    (∀ l, body[j]? = some l → isSkip l = false) ∧ st.delimiter = dlm ∧
    (effectiveEngine o st = .normal ∨ dlm ≠ .comma) ∧ NumBody dlm c body ∧ SepsOK dlm seps ∧
    FtStripOn ft (normalTokens (readSubs dlm) dlm body) ∧
    FtStripOn ft (normalTokens (readSubs dlm) dlm (mapAt j (relayLine1 dlm dlm seps) body)) ∧
    Converts ft (normalTokens (readSubs dlm) dlm body)

/-- the numeric-cells side condition, for `repadLine` only -/
def NumOK (o : DataOpts) (ft : FloatTable) (st : Steer) : Transform → Doc → Prop
  | .repadLine k dlm seps, d => RepadOK o ft st k dlm seps d
  | _, _ => False

/-- EXTENDED SIDE CONDITION: what `OK` allows, and `repadLine` for any delimiter on numeric cells -/
def OK' (o : DataOpts) (ft : FloatTable) (st : Steer) (dc : Nat) (t : Transform) (d : Doc) : Prop :=
  OK st dc t d ∨ NumOK o ft st t d

theorem OK'_of_OK (o : DataOpts) (ft : FloatTable) (st : Steer) (dc : Nat) (t : Transform) (d : Doc) (h : OK st dc t d) :
    OK' o ft st dc t d := Or.inl h

/-- on every constructor other than `repadLine`, `OK'` is `OK` -/
theorem OK'_iff_OK (o : DataOpts) (ft : FloatTable) (st : Steer) (dc : Nat) (t : Transform) (d : Doc)
    (ht : ∀ k dlm seps, t ≠ .repadLine k dlm seps) : OK' o ft st dc t d ↔ OK st dc t d := by
  constructor
  · rintro (h | h)
    · exact h
    · cases t <;> first | exact absurd rfl (ht _ _ _) | exact absurd h (by simp [NumOK])
  · exact Or.inl

/-! ## §2 the side condition of a `.redelim` step -/

/-- `redelim first last vk replace frm to seps` on `d`: the hypotheses of `C09_redelim_file_replace` (`replace = true`) resp.
`C09_redelim_file_insert` (`replace = false`) on the document, the current steering values `st` and declared count `dc` -/
def RedelimOK (o : Opts) (ft : FloatTable) (st : Steer) (dc : Nat) (first last vk : Nat) (replace : Bool) (frm to : Dlm)
    (seps : List Str) (d : Doc) : Prop :=
  ∃ (pre : List Str) (tV : Str) (l₁ l₂ : List Str) (ox : Option Str) (M s₂ : List (Str × List Str)) (t : Str)
    (body : List Str) (c : Nat),
    d = pre ++ Rd.flat ((tV, l₁ ++ ox.toList ++ l₂) :: M ++ (t, body) :: s₂) ∧
    replace = ox.isSome ∧
    first = pre.length + Rd.size ((tV, l₁ ++ ox.toList ++ l₂) :: M) ∧ last = first + body.length ∧
    vk = pre.length + 1 + l₁.length ∧
    (∀ y ∈ pre, Rd.isTitle y = false) ∧ Rd.WellFormed ((tV, l₁ ++ ox.toList ++ l₂) :: M ++ (t, body) :: s₂) ∧
    vTitle tV = true ∧ (ox = none → ∀ y, (tV :: l₁).getLast? = some y → y.getLast? = some '\n') ∧
    OtherSecsOK (M ++ s₂) ∧ isDataKind (kindOf t) ∧
    (∀ x ∈ ox, isDlmLine o.hdr x = true) ∧ (∀ l ∈ l₁ ++ l₂, isDlmLine o.hdr l = false) ∧
    st.delimiter = frm ∧ NumBody frm c body ∧ SepsOK to seps ∧
    FtStripOn ft (normalTokens (readSubs frm) frm body) ∧
    FtStripOn ft (normalTokens (readSubs to) to (relayBody frm to seps body)) ∧
    Converts ft (normalTokens (readSubs frm) frm body) ∧
    AgreeAlone o.dat (withDlm st to) dc ft (relayBody frm to seps body)

/-! ## §3 equal up to the DLM item -/

/-- two item lists that differ at most in their DLM items (mnemonic DLM under the reader's comparison) -/
def ItemsUpToDlm (o : Rd.ReadOpts) (l l' : List Rd.RItem) : Prop :=
  l.filter (fun it => !isDlmItem o it) = l'.filter (fun it => !isDlmItem o it)

/-- the values stored under a key: equal, or — under "Version" — item lists that are equal up to the DLM item -/
def ValUpToDlm (o : Rd.ReadOpts) (k : Rd.RKey) (v v' : Rd.SecVal) : Prop :=
  v = v' ∨ (k = Rd.kVersion ∧ ∃ l l', v = .items l ∧ v' = .items l' ∧ ItemsUpToDlm o l l')

/-- `las.sections` of two reads: the same keys in the same order, the values equal up to the DLM item of "Version" -/
def SecsUpToDlm (o : Rd.ReadOpts) (s s' : List (Rd.RKey × Rd.SecVal)) : Prop :=
  Forall2 (fun kv kv' => kv.1 = kv'.1 ∧ ValUpToDlm o kv.1 kv.2 kv'.2) s s'

/-- PARSED RESULTS EQUAL UP TO THE DLM ITEM: the sections as above, the curves of every data section equal -/
def ParsedUpToDlm (o : Rd.ReadOpts) (p p' : Parsed) : Prop := SecsUpToDlm o p.sections p'.sections ∧ p.data = p'.data

theorem valUpToDlm_refl (o : Rd.ReadOpts) (k : Rd.RKey) (v : Rd.SecVal) : ValUpToDlm o k v v := Or.inl rfl

theorem valUpToDlm_symm (o : Rd.ReadOpts) {k : Rd.RKey} {v v' : Rd.SecVal} (h : ValUpToDlm o k v v') : ValUpToDlm o k v' v := by
  rcases h with h | ⟨hk, l, l', h1, h2, h3⟩
  · exact Or.inl h.symm
  · exact Or.inr ⟨hk, l', l, h2, h1, h3.symm⟩

theorem valUpToDlm_trans (o : Rd.ReadOpts) {k : Rd.RKey} {v v' v'' : Rd.SecVal} (h : ValUpToDlm o k v v')
    (h' : ValUpToDlm o k v' v'') : ValUpToDlm o k v v'' := by
  rcases h with h | ⟨hk, l, l', h1, h2, h3⟩
  · rw [h]; exact h'
  · rcases h' with h' | ⟨_, m, m', g1, g2, g3⟩
    · rw [← h']; exact Or.inr ⟨hk, l, l', h1, h2, h3⟩
    · rw [h2] at g1
      cases g1
      exact Or.inr ⟨hk, l, m', h1, g2, h3.trans g3⟩

theorem forall2_refl' {α} (R : α → α → Prop) (hR : ∀ a, R a a) (l : List α) : Forall2 R l l := by
  induction l with
  | nil => exact .nil
  | cons a l ih => exact .cons (hR a) ih

theorem forall2_symm' {α} (R : α → α → Prop) (hR : ∀ a b, R a b → R b a) {l l' : List α} (h : Forall2 R l l') : Forall2 R l' l := by
  induction h with
  | nil => exact .nil
  | cons h1 _ ih => exact .cons (hR _ _ h1) ih

theorem forall2_trans' {α} (R : α → α → Prop) (hR : ∀ a b c, R a b → R b c → R a c) {l l' l'' : List α}
    (h : Forall2 R l l') (h' : Forall2 R l' l'') : Forall2 R l l'' := by
  induction h generalizing l'' with
  | nil => cases h'; exact .nil
  | cons h1 _ ih =>
    cases h' with
    | cons g1 g2 => exact .cons (hR _ _ _ h1 g1) (ih g2)

theorem forall2_imp' {α β} (R S : α → β → Prop) (hRS : ∀ a b, R a b → S a b) {l : List α} {l' : List β} (h : Forall2 R l l') :
    Forall2 S l l' := by
  induction h with
  | nil => exact .nil
  | cons h1 _ ih => exact .cons (hRS _ _ h1) ih

theorem secsUpToDlm_refl (o : Rd.ReadOpts) (s : List (Rd.RKey × Rd.SecVal)) : SecsUpToDlm o s s :=
  forall2_refl' _ (fun _ => ⟨rfl, valUpToDlm_refl o _ _⟩) s

theorem secsUpToDlm_symm (o : Rd.ReadOpts) {s s' : List (Rd.RKey × Rd.SecVal)} (h : SecsUpToDlm o s s') : SecsUpToDlm o s' s :=
  forall2_symm' _ (fun a b hab => ⟨hab.1.symm, by rw [← hab.1]; exact valUpToDlm_symm o hab.2⟩) h

theorem secsUpToDlm_trans (o : Rd.ReadOpts) {s s' s'' : List (Rd.RKey × Rd.SecVal)} (h : SecsUpToDlm o s s')
    (h' : SecsUpToDlm o s' s'') : SecsUpToDlm o s s'' :=
  forall2_trans' _ (fun a b c hab hbc => ⟨hab.1.trans hbc.1, valUpToDlm_trans o hab.2 (by rw [hab.1]; exact hbc.2)⟩) h h'

/-- the relation the `.redelim` theorems give (`JRel` under "Version" for item lists that differ in a DLM item) implies
`SecsUpToDlm` -/
theorem secsUpToDlm_of_jrel (o : Rd.ReadOpts) (l l' : List Rd.RItem) (hl : ItemsUpToDlm o l l')
    {s s' : List (Rd.RKey × Rd.SecVal)} (h : JRel Rd.kVersion (.items l) (.items l') s s') : SecsUpToDlm o s s' := by
  unfold JRel at h
  apply forall2_imp' _ _ _ h
  intro a b hab
  obtain ⟨h1, h2⟩ := hab
  refine ⟨h1, ?_⟩
  rcases h2 with h2 | ⟨hk, e1, e2⟩
  · exact Or.inl h2
  · exact Or.inr ⟨hk, l, l', e1, e2, hl⟩

/-- replacing / inserting a DLM item among the items of the ~Version body -/
theorem itemsUpToDlm_dlm (o : Rd.ReadOpts) (I₁ I₂ : List Rd.RItem) (oi : Option Rd.RItem) (new : Rd.RItem)
    (hoi : ∀ it ∈ oi, isDlmItem o it = true) (hnew : isDlmItem o new = true) :
    ItemsUpToDlm o (I₁ ++ oi.toList ++ I₂) (I₁ ++ new :: I₂) := by
  unfold ItemsUpToDlm
  have e : I₁ ++ new :: I₂ = I₁ ++ [new] ++ I₂ := by simp
  rw [e, filter_middle _ I₁ I₂ oi.toList (by
      intro x hx
      simp [hoi x (by simpa using hx)]),
    filter_middle _ I₁ I₂ [new] (by
      intro x hx
      simp only [List.mem_singleton] at hx
      subst hx
      simp [hnew])]

theorem parsedUpToDlm_refl (o : Rd.ReadOpts) (p : Parsed) : ParsedUpToDlm o p p := ⟨secsUpToDlm_refl o _, rfl⟩

theorem parsedUpToDlm_symm (o : Rd.ReadOpts) {p p' : Parsed} (h : ParsedUpToDlm o p p') : ParsedUpToDlm o p' p :=
  ⟨secsUpToDlm_symm o h.1, h.2.symm⟩

theorem parsedUpToDlm_trans (o : Rd.ReadOpts) {p p' p'' : Parsed} (h : ParsedUpToDlm o p p') (h' : ParsedUpToDlm o p' p'') :
    ParsedUpToDlm o p p'' := ⟨secsUpToDlm_trans o h.1 h'.1, h.2.trans h'.2⟩

theorem parsedUpToDlm_of_eq (o : Rd.ReadOpts) {p p' : Parsed} (h : p' = p) : ParsedUpToDlm o p p' := by
  rw [h]; exact parsedUpToDlm_refl o p

/-- the number of declared curves is not touched -/
theorem secsUpToDlm_declaredCount (o : Rd.ReadOpts) {s s' : List (Rd.RKey × Rd.SecVal)} (h : SecsUpToDlm o s s') :
    declaredCount s' = declaredCount s := by
  have hl : s'.lookup Rd.kCurves = s.lookup Rd.kCurves := by
    unfold SecsUpToDlm at h
    induction h with
    | nil => rfl
    | @cons a b l l' hab _ ih =>
      obtain ⟨k, v⟩ := a
      obtain ⟨k', v'⟩ := b
      obtain ⟨h1, h2⟩ := hab
      simp only at h1 h2
      subst h1
      by_cases hk : (Rd.kCurves == k) = true
      · simp only [List.lookup, hk]
        rcases h2 with h2 | ⟨hkv, _⟩
        · rw [h2]
        · have : k = Rd.kCurves := by simpa using (beq_iff_eq.mp hk).symm
          rw [this] at hkv
          exact absurd hkv (by decide)
      · have hk' : (Rd.kCurves == k) = false := by simpa using hk
        simp only [List.lookup, hk']
        exact ih
  unfold declaredCount
  rw [hl]

/-! ## §4 side conditions along a mixed list -/

/-- the side condition of one step, for the current steering values and declared count -/
def StepOK (o : Opts) (ft : FloatTable) (st : Steer) (dc : Nat) : Transform → Doc → Prop
  | .redelim first last vk replace frm to seps, d => RedelimOK o ft st dc first last vk replace frm to seps d
  | t, d => OK' o.dat ft st dc t d

/-- the steering values after a step: a `.redelim` changes the delimiter -/
def nextSteer (st : Steer) : Transform → Steer
  | .redelim _ _ _ _ _ to _ => withDlm st to
  | _ => st

/-- the steering values after a list of steps -/
def finalSteer (st : Steer) : List Transform → Steer
  | [] => st
  | t :: ts => finalSteer (nextSteer st t) ts

/-- the side conditions hold along the way (each for the document and the steering values reached) -/
def ChainAll (o : Opts) (ft : FloatTable) (st : Steer) (dc : Nat) : List Transform → Doc → Prop
  | [], _ => True
  | t :: ts, d => StepOK o ft st dc t d ∧ ChainAll o ft (nextSteer st t) dc ts (t.apply d)

/-- the same for lists without `.redelim` (side condition `OK'`, steering values fixed) -/
def Chain' (o : DataOpts) (ft : FloatTable) (st : Steer) (dc : Nat) : List Transform → Doc → Prop
  | [], _ => True
  | t :: ts, d => OK' o ft st dc t d ∧ Chain' o ft st dc ts (t.apply d)

def isRedelim : Transform → Bool
  | .redelim _ _ _ _ _ _ _ => true
  | _ => false

theorem stepOK_of_not_redelim (o : Opts) (ft : FloatTable) (st : Steer) (dc : Nat) (t : Transform) (d : Doc)
    (h : isRedelim t = false) : StepOK o ft st dc t d = OK' o.dat ft st dc t d := by
  cases t <;> first | rfl | (simp [isRedelim] at h)

theorem nextSteer_of_not_redelim (st : Steer) (t : Transform) (h : isRedelim t = false) : nextSteer st t = st := by
  cases t <;> first | rfl | (simp [isRedelim] at h)

/-- without `.redelim` the mixed chain is the chain of `C09_compose'` -/
theorem chainAll_iff_chain' (o : Opts) (ft : FloatTable) (st : Steer) (dc : Nat) (ts : List Transform) (d : Doc)
    (h : ∀ t ∈ ts, isRedelim t = false) : ChainAll o ft st dc ts d ↔ Chain' o.dat ft st dc ts d := by
  induction ts generalizing d with
  | nil => exact Iff.rfl
  | cons t ts ih =>
    simp only [ChainAll, Chain']
    rw [stepOK_of_not_redelim o ft st dc t d (h t (by simp)), nextSteer_of_not_redelim st t (h t (by simp)),
      ih _ (fun x hx => h x (List.mem_cons_of_mem _ hx))]

end Lasio.Tf
