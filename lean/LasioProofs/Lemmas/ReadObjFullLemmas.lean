import LasioModel.ReadObjFull
import LasioProofs.Props.C11Typed
/-
Lemmas for the end-to-end cycle (`Props/C11EndToEnd.lean`):
  A. `rowsOf_transpose`     `Wo.rowsOf` of the columns of a rectangular matrix is the matrix;
  B. `dataOf_written`       the curve data `Ro.dataOf` makes of what the strict reader returns for the written tokens
                            (`assignCurves n (applyNull true (some nv) (matrixColumns ft n (tokenRows c null rows)))`) are, row by row, the
                            re-read matrix `Cd.reRows ft val null nv c rows`; all curves are declared float curves;
  C. `readObjFullLines_of_readFull`   `Ro.readObjFullLines` in terms of `Tf.readFull` (same header read, same `readData` calls).
-/
namespace Lasio.Ro
open Lasio Lasio.Wo

/-! ## A. rows of columns -/

theorem zipWith_head_tail (d : F64) (M : List (List F64)) (h : ∀ row ∈ M, row ≠ []) :
    List.zipWith (· :: ·) (M.map fun row => row.getD 0 d) (M.map List.tail) = M := by
  induction M with
  | nil => rfl
  | cons row M ih =>
    simp only [List.map_cons, List.zipWith_cons_cons, List.cons.injEq]
    refine ⟨?_, ih (fun r hr => h r (by simp [hr]))⟩
    cases row with
    | nil => exact absurd rfl (h [] (by simp))
    | cons a t => rfl

theorem getD_tail (d : F64) (row : List F64) (j : Nat) : row.tail.getD j d = row.getD (j + 1) d := by
  cases row <;> rfl

/-- **`rowsOf` undoes "columns of"**: `cols` are the `cols.length ≥ 1` columns of the rectangular matrix `M` -/
theorem rowsOf_transpose (d : F64) : ∀ (cols : List (List F64)) (M : List (List F64)), cols ≠ [] →
    (∀ row ∈ M, row.length = cols.length) →
    (∀ j c, cols[j]? = some c → c = M.map fun row => row.getD j d) → rowsOf cols = M := by
  intro cols
  induction cols with
  | nil => intro M h; exact absurd rfl h
  | cons c cs ih =>
    intro M _ hlen hcol
    cases cs with
    | nil =>
      have hc := hcol 0 c rfl
      subst hc
      simp only [rowsOf, List.map_map]
      conv => rhs; rw [← List.map_id M]
      apply List.map_congr_left
      intro row hrow
      have := hlen row hrow
      match row, this with
      | [a], _ => rfl
    | cons c' cs' =>
      have hc := hcol 0 c rfl
      have ih' := ih (M.map List.tail) (by simp)
        (by
          intro row hrow
          obtain ⟨r0, hr0, rfl⟩ := List.mem_map.mp hrow
          have := hlen r0 hr0
          simp only [List.length_tail, this, List.length_cons]
          omega)
        (by
          intro j x hx
          have := hcol (j + 1) x (by simpa using hx)
          rw [this, List.map_map]
          apply List.map_congr_left
          intro row _
          exact (getD_tail d row j).symm)
      show List.zipWith (· :: ·) c (rowsOf (c' :: cs')) = M
      rw [ih', hc]
      apply zipWith_head_tail
      intro row hrow e
      have := hlen row hrow
      rw [e] at this
      simp at this

/-! ## B. the curves of the written tokens -/

theorem floatCells_numeric (ft : Dt.FloatTable) (toks : List Str) (h : ∀ t ∈ toks, (Dt.toFloat ft t).isSome = true) :
    Dt.floatCells ft toks = some (toks.map fun t => (Dt.toFloat ft t).getD []) := by
  induction toks with
  | nil => rfl
  | cons t ts ih =>
    have ht := h t (by simp)
    cases hv : Dt.toFloat ft t with
    | none => rw [hv] at ht; cases ht
    | some v =>
      simp only [Dt.floatCells, hv, ih (fun x hx => h x (by simp [hx])), List.map_cons, Option.getD_some]

/-- the float text the strict reader stores for the token `tok` of column `j` -/
def cellTxt (ft : Dt.FloatTable) (nv : Str) (j : Nat) (tok : Str) : Str :=
  let v := (Dt.toFloat ft tok).getD []
  if j != 0 && Dt.feq v nv then Dt.nanTxt else v

/-- column `j` of the strict reader's result for a numeric rectangular token matrix -/
theorem strictColumn (ft : Dt.FloatTable) (nv : Str) (n : Nat) (T : List (List Str)) (hrect : ∀ r ∈ T, r.length = n)
    (hnum : Dt.Numeric ft T) (j : Nat) (hj : j < n) :
    (Dt.applyNull true (some nv) (Dt.matrixColumns ft n T))[j]? =
      some (.floats (T.map fun r => cellTxt ft nv j (r.getD j []))) := by
  unfold Dt.applyNull
  rw [Dt.applyNullFrom_getElem?]
  have hm : (Dt.matrixColumns ft n T)[j]? = some (.floats (T.map fun r => (Dt.toFloat ft (r.getD j [])).getD [])) := by
    unfold Dt.matrixColumns
    rw [List.getElem?_map, List.getElem?_range hj]
    simp only [Option.map_some, Option.some.injEq]
    unfold Dt.typedColumn
    rw [floatCells_numeric]
    · simp only [List.map_map]; rfl
    · intro t ht
      obtain ⟨r, hr, rfl⟩ := List.mem_map.mp ht
      apply hnum r hr
      have hl := hrect r hr
      rw [List.getD_eq_getElem?_getD, List.getElem?_eq_getElem (by omega)]
      simp
  rw [hm]
  simp only [Option.map_some, Option.some.injEq, Nat.zero_add, Dt.applyNullCol, Bool.true_and]
  by_cases h0 : j = 0
  · subst h0
    simp only [bne_self_eq_false, Bool.false_eq_true, if_false, Dt.Column.floats.injEq]
    apply List.map_congr_left
    intro r _
    simp [cellTxt]
  · have : (j != 0) = true := by simpa using h0
    simp only [this, if_true, Dt.Column.floats.injEq, Dt.nullCells, List.map_map]
    apply List.map_congr_left
    intro r _
    simp [cellTxt, this]

theorem strict_length (ft : Dt.FloatTable) (nv : Str) (n : Nat) (T : List (List Str)) :
    (Dt.applyNull true (some nv) (Dt.matrixColumns ft n T)).length = n := by
  have : ∀ (k : Nat) (cols : List Dt.Column), (Dt.applyNullFrom true (some nv) k cols).length = cols.length := by
    intro k cols
    induction cols generalizing k with
    | nil => rfl
    | cons c cs ih => simp [Dt.applyNullFrom, ih]
  unfold Dt.applyNull
  rw [this]
  simp [Dt.matrixColumns]

/-- the curves `assignCurves` makes of exactly `n` columns for `n` declared curves -/
theorem assignCurves_exact (n : Nat) (cols : List Dt.Column) (h : cols.length = n) (j : Nat) :
    (Dt.assignCurves n cols)[j]? = (cols[j]?).map fun c => (Dt.Slot.declared j, c) := by
  unfold Dt.assignCurves
  rw [h, Nat.sub_self]
  simp only [List.range'_zero, List.map_nil, List.append_nil]
  rw [Dt.assignFrom_getElem?]
  cases hc : cols[j]? with
  | none => rfl
  | some c =>
    have hj : j < cols.length := (List.getElem?_eq_some_iff.mp hc).1
    simp only [Option.map_some, Nat.zero_add, Option.some.injEq, Prod.mk.injEq, and_true]
    rw [if_pos (by omega)]

theorem assignCurves_exact_length (n : Nat) (cols : List Dt.Column) (h : cols.length = n) :
    (Dt.assignCurves n cols).length = n := by
  unfold Dt.assignCurves
  rw [h, Nat.sub_self]
  simp [Dt.assignFrom_length, h]

/-- **B.**  `rows` the written r × n matrix (n ≥ 1), every written token converts.  The curves the strict reader returns for the written
tokens are `n` declared float curves, and `dataOf` of them is — row by row — the re-read matrix `Cd.reRows`. -/
theorem dataOf_written (ft : Dt.FloatTable) (val : Str → Option F64) (null nv : Str) (c : Dw.RowCfg) (rows : List (List F64)) (n : Nat)
    (hn : 0 < n) (hrect : ∀ r ∈ rows, r.length = n) (hnum : Dt.Numeric ft (Rt.tokenRows c null rows)) :
    let curves := Dt.assignCurves n (Dt.applyNull true (some nv) (Dt.matrixColumns ft n (Rt.tokenRows c null rows)))
    numericCurves curves = true ∧ (dataOf val curves).length = n ∧
    (∀ col ∈ dataOf val curves, col.length = rows.length) ∧
    rowsOf (dataOf val curves) = Cd.reRows ft val null nv c rows := by
  intro curves
  have hT := Rt.tokenRows_rect c null rows n hrect
  have hlen := strict_length ft nv n (Rt.tokenRows c null rows)
  have hcurve : ∀ j, j < n → curves[j]? = some (Dt.Slot.declared j,
      .floats ((Rt.tokenRows c null rows).map fun r => cellTxt ft nv j (r.getD j []))) := by
    intro j hj
    show (Dt.assignCurves n _)[j]? = _
    rw [assignCurves_exact n _ hlen, strictColumn ft nv n _ hT hnum j hj]
    rfl
  have hclen : curves.length = n := assignCurves_exact_length n _ hlen
  -- column j of the data
  have hdata : ∀ j, j < n → (dataOf val curves)[j]? =
      some ((Cd.reRows ft val null nv c rows).map fun row => row.getD j .nan) := by
    intro j hj
    unfold dataOf textColumns
    simp only [List.getElem?_map, hcurve j hj, Option.map_some, floatColumn, Option.getD_some, Option.some.injEq]
    unfold Rt.tokenRows Cd.reRows
    simp only [List.map_map]
    apply List.map_congr_left
    intro row hrow
    have hl := hrect row hrow
    simp only [Function.comp]
    have h1 : (Dw.rowTokens c null row).getD j [] = Dw.cellToken null (c.colFmt j) (row[j]'(by omega)) := by
      rw [List.getD_eq_getElem?_getD, Rt.rowTokens_getElem?, List.getElem?_eq_getElem (by omega)]
      rfl
    have h2 : (Cd.reRowFrom ft val null nv c 0 row).getD j .nan = Cd.reCell ft val null nv c j (row[j]'(by omega)) := by
      rw [List.getD_eq_getElem?_getD, Cd.reRowFrom_getElem?, List.getElem?_eq_getElem (by omega)]
      simp
    rw [h1, h2]
    -- one cell
    have hsome : (Dt.toFloat ft (Dw.cellToken null (c.colFmt j) (row[j]'(by omega)))).isSome = true := by
      apply hnum (Dw.rowTokens c null row) (by simp [Rt.tokenRows]; exact ⟨row, hrow, rfl⟩)
      rw [← h1, List.getD_eq_getElem?_getD]
      have : j < (Dw.rowTokens c null row).length := by
        have := hT (Dw.rowTokens c null row) (by simp [Rt.tokenRows]; exact ⟨row, hrow, rfl⟩)
        omega
      rw [List.getElem?_eq_getElem this]
      simp
    cases hv : Dt.toFloat ft (Dw.cellToken null (c.colFmt j) (row[j]'(by omega))) with
    | none => rw [hv] at hsome; cases hsome
    | some v =>
      simp only [cellTxt, hv, Option.getD_some, valD, Cd.reCell, Cd.reTok, Cd.readTxt, Option.map_some, Option.bind_some]
  refine ⟨?_, ?_, ?_, ?_⟩
  · unfold numericCurves
    rw [List.all_eq_true]
    intro sc hsc
    obtain ⟨j, hj⟩ := List.getElem?_of_mem hsc
    have hjn : j < n := by
      have := (List.getElem?_eq_some_iff.mp hj).1
      omega
    rw [hcurve j hjn] at hj
    cases hj
    rfl
  · simp [dataOf, textColumns, hclen]
  · intro col hcol
    obtain ⟨j, hj⟩ := List.getElem?_of_mem hcol
    have hjn : j < n := by
      have := (List.getElem?_eq_some_iff.mp hj).1
      simp only [dataOf, textColumns, List.length_map, hclen] at this
      exact this
    rw [hdata j hjn] at hj
    cases hj
    simp [Cd.reRows]
  · apply rowsOf_transpose .nan
    · intro e
      have : (dataOf val curves).length = n := by simp [dataOf, textColumns, hclen]
      rw [e] at this
      simp at this
      omega
    · intro row hrow
      rw [Cd.reRows_rect ft val null nv c rows n hrect row hrow]
      simp [dataOf, textColumns, hclen]
    · intro j col hj
      have hjn : j < n := by
        have := (List.getElem?_eq_some_iff.mp hj).1
        simp only [dataOf, textColumns, List.length_map, hclen] at this
        exact this
      rw [hdata j hjn] at hj
      cases hj
      rfl

/-! ## C. `readObjFullLines` and `Tf.readFull` -/

/-- `Tf.readFull` found one data window and `readData` returned the numeric curves `cols` for it: `readObjFullLines` returns the typed header
of the same header read with `dataOf cols` as data and column 0 as `index_initial` -/
theorem readObjFullLines_of_readFull (env : Env) (opts : Tf.Opts) (lines : Tf.Doc) (S : List (Rd.RKey × Rd.SecVal)) (St : Rd.Steer)
    (a b : Nat) (res : Except Dt.DErr (Dt.Engine × List (Dt.Slot × Dt.Column))) (cols : List (Dt.Slot × Dt.Column))
    (h : Tf.readFull opts env.nullOf env.ft lines = .ok ⟨S, St, [⟨a, b, res⟩]⟩) (hres : res.map Prod.snd = .ok cols)
    (hnum : numericCurves cols = true) :
    ∃ th, readObjLines opts.hdr lines = .ok th ∧ th.raw.sections = S ∧ th.raw.steer = St ∧
      readObjFullLines env opts lines =
        .ok (withData (headerObj env.py opts.hdr th) (dataOf env.val cols) (dataOf env.val cols).head?) := by
  unfold Tf.readFull at h
  cases hr : Rd.readLines opts.hdr lines with
  | error e => rw [hr] at h; cases h
  | ok hd =>
    rw [hr] at h
    simp only [Except.ok.injEq, Tf.FullRead.mk.injEq] at h
    obtain ⟨h1, h2, h3⟩ := h
    obtain ⟨th, hth, hraw⟩ := readObjLines_of_readLines opts.hdr lines hd hr
    refine ⟨th, hth, by rw [hraw]; exact h1, by rw [hraw]; exact h2, ?_⟩
    cases res with
    | error e => cases hres
    | ok ec =>
      obtain ⟨e, cols'⟩ := ec
      simp only [Except.map, Except.ok.injEq] at hres
      subst hres
      have hdr : dataResults env opts lines th.raw = [.ok (e, cols')] := by
        unfold dataResults
        rw [hraw]
        have := congrArg (List.map Tf.DataRead.res) h3
        simpa [List.map_map, Function.comp] using this
      unfold readObjFullLines readFullCols
      simp only [hth, hdr, hnum, if_true]

theorem readObjFullLines_index (env : Env) (opts : Tf.Opts) (lines : Tf.Doc) (o : WObj)
    (h : readObjFullLines env opts lines = .ok o) : o.indexInitial = o.index := by
  unfold readObjFullLines at h
  split at h
  · cases h
  · cases h; rfl

end Lasio.Ro
