import LasioProofs.Lemmas.TransformLemmas
/-
C09, §3: for the whitespace splitter a quote-free data line is read through its words (`pySplit` = `str.split()`) only.
-/
namespace Lasio.Tf
open Lasio Lasio.Dt

/-! ### generic list facts -/

theorem takeWhile_append_head (p : Char → Bool) (cs b : Str)
    (hb : b = [] ∨ ∃ w r, b = w :: r ∧ p w = false) : (cs ++ b).takeWhile p = cs.takeWhile p := by
  induction cs with
  | nil =>
    rcases hb with rfl | ⟨w, r, rfl, hw⟩
    · rfl
    · simp [hw]
  | cons c cs ih =>
    simp only [List.cons_append, List.takeWhile_cons]
    split
    · rw [ih]
    · rfl

theorem length_takeWhile_le' (p : Char → Bool) (l : Str) : (l.takeWhile p).length ≤ l.length :=
  (List.takeWhile_sublist p).length_le

/-! ### quote-free strings -/

theorem quoteFree_nil : QuoteFree [] := fun _ h => by cases h

theorem quoteFree_append {a b : Str} (ha : QuoteFree a) (hb : QuoteFree b) : QuoteFree (a ++ b) := by
  intro c hc
  rcases List.mem_append.mp hc with h | h
  · exact ha c h
  · exact hb c h

theorem quoteFree_sublist {a b : Str} (h : a.Sublist b) (hb : QuoteFree b) : QuoteFree a :=
  fun c hc => hb c (h.subset hc)

theorem quoteFree_left {a b : Str} (h : QuoteFree (a ++ b)) : QuoteFree a :=
  fun c hc => h c (List.mem_append_left b hc)

theorem quoteFree_right {a b : Str} (h : QuoteFree (a ++ b)) : QuoteFree b :=
  fun c hc => h c (List.mem_append_right a hc)

theorem quoteFree_of_cons {c : Char} {s : Str} (h : QuoteFree (c :: s)) : (c ≠ '"' ∧ c ≠ '\'') ∧ QuoteFree s :=
  ⟨h c (by simp), fun x hx => h x (by simp [hx])⟩

theorem quoteFree_cons {c : Char} {s : Str} (hc : c ≠ '"' ∧ c ≠ '\'') (hs : QuoteFree s) : QuoteFree (c :: s) := by
  intro x hx
  rcases List.mem_cons.mp hx with rfl | h
  · exact hc
  · exact hs x h

theorem quoteFree_allWs {s : Str} (h : AllWs s) : QuoteFree s := by
  intro c hc
  have := ws_not_quote c (h c hc)
  simpa using this

theorem digit_not_quote (c : Char) (h : isUDigit c = true) : c ≠ '"' ∧ c ≠ '\'' := by
  constructor <;> (intro e; subst e; revert h; decide)

/-! ### the matchers: bounded, quote-free replacements -/

/-- a match lies within the string -/
def Bounded (m : Str → Option (Str × Nat)) : Prop := ∀ s rep k, m s = some (rep, k) → k < s.length

/-- the replacement text has no quote -/
def RepQF (m : Str → Option (Str × Nat)) : Prop := ∀ s rep k, m s = some (rep, k) → QuoteFree rep

structure Good (m : Str → Option (Str × Nat)) : Prop where
  loc : Local m
  bnd : Bounded m
  ws : ∀ w r, isPySpace w = true → m (w :: r) = none
  qf : RepQF m

theorem mComma_spec (s rep : Str) (k : Nat) (h : mComma s = some (rep, k)) :
    ∃ a p b r, s = a :: p :: b :: r ∧ isUDigit a = true ∧ isUDigit b = true ∧ rep = [a, '.', b] ∧ k = 2 := by
  match s with
  | [] | [_] | [_, _] => simp [mComma] at h
  | a :: p :: b :: r =>
    simp only [mComma] at h
    split at h
    · rename_i hc
      simp only [Bool.and_eq_true] at hc
      simp only [Option.some.injEq, Prod.mk.injEq] at h
      exact ⟨a, p, b, r, rfl, hc.1.2, hc.2, h.1.symm, h.2.symm⟩
    · cases h

theorem mHyphen_spec (s rep : Str) (k : Nat) (h : mHyphen s = some (rep, k)) :
    ∃ a p b r, s = a :: p :: b :: r ∧ isUDigit a = true ∧ isUDigit b = true ∧ rep = [a, ' ', '-', b] ∧ k = 2 := by
  match s with
  | [] | [_] | [_, _] => simp [mHyphen] at h
  | a :: p :: b :: r =>
    simp only [mHyphen] at h
    split at h
    · rename_i hc
      simp only [Bool.and_eq_true] at hc
      simp only [Option.some.injEq, Prod.mk.injEq] at h
      exact ⟨a, p, b, r, rfl, hc.1.2, hc.2, h.1.symm, h.2.symm⟩
    · cases h

theorem good_mComma : Good mComma where
  loc := mComma_local
  ws := mComma_ws
  bnd := by
    intro s rep k h
    obtain ⟨a, p, b, r, rfl, _, _, _, rfl⟩ := mComma_spec s rep k h
    simp
  qf := by
    intro s rep k h
    obtain ⟨a, p, b, r, rfl, ha, hb, rfl, _⟩ := mComma_spec s rep k h
    exact quoteFree_cons (digit_not_quote a ha)
      (quoteFree_cons (by decide) (quoteFree_cons (digit_not_quote b hb) quoteFree_nil))

theorem good_mHyphen : Good mHyphen where
  loc := mHyphen_local
  ws := mHyphen_ws
  bnd := by
    intro s rep k h
    obtain ⟨a, p, b, r, rfl, _, _, _, rfl⟩ := mHyphen_spec s rep k h
    simp
  qf := by
    intro s rep k h
    obtain ⟨a, p, b, r, rfl, ha, hb, rfl, _⟩ := mHyphen_spec s rep k h
    exact quoteFree_cons (digit_not_quote a ha)
      (quoteFree_cons (by decide) (quoteFree_cons (by decide) (quoteFree_cons (digit_not_quote b hb) quoteFree_nil)))

theorem digitsThenDot_len (s : Str) (n : Nat) (r : Str) (h : digitsThenDot s = some (n, r)) :
    s.length = n + 1 + r.length := by
  induction s generalizing n with
  | nil => simp [digitsThenDot] at h
  | cons c cs ih =>
    simp only [digitsThenDot] at h
    split at h
    · simp only [Option.some.injEq, Prod.mk.injEq] at h
      obtain ⟨rfl, rfl⟩ := h
      simp only [List.length_cons]; omega
    · split at h
      · cases hd : digitsThenDot cs with
        | none => simp [hd] at h
        | some nr =>
          simp only [hd, Option.map_some, Option.some.injEq, Prod.mk.injEq] at h
          obtain ⟨rfl, rfl⟩ := h
          have := ih nr.1 (by rw [hd])
          simp only [List.length_cons]
          omega
      · cases h

theorem dotTail_le (neg : Nat) (s : Str) (n : Nat) (h : dotTail neg s = some n) : n ≤ neg + s.length := by
  unfold dotTail at h
  split at h
  · rename_i d1 s3 h1
    split at h
    · rename_i d2 s5 h2
      simp only [Option.some.injEq] at h
      have a := digitsThenDot_len s d1 s3 h1
      have b := digitsThenDot_len s3 d2 s5 h2
      have c := length_takeWhile_le' isUDigit s5
      omega
    · cases h
  · cases h

theorem mDotAlt1_le (s : Str) (n : Nat) (h : mDotAlt1 s = some n) : n ≤ s.length := by
  cases s with
  | nil => simp [mDotAlt1] at h
  | cons c cs =>
    simp only [mDotAlt1] at h
    split at h
    · have := dotTail_le 1 cs n h
      simp only [List.length_cons]; omega
    · have := dotTail_le 0 (c :: cs) n h
      omega

theorem mDotAlt2_le (s : Str) (n : Nat) (h : mDotAlt2 s = some n) : n ≤ s.length := by
  match s with
  | [] | [_] | [_, _] | [_, _, _] | [_, _, _, _] => simp [mDotAlt2] at h
  | c1 :: c2 :: c3 :: p :: d :: rest =>
    simp only [mDotAlt2] at h
    split at h
    · simp only [Option.some.injEq] at h
      have c := length_takeWhile_le' isUDigit rest
      simp only [List.length_cons]; omega
    · cases h

theorem nanNan_eq : nanNan = [' ', 'N', 'a', 'N', ' ', 'N', 'a', 'N', ' '] := by decide

theorem quoteFree_nanNan : QuoteFree nanNan := by
  rw [nanNan_eq]; unfold QuoteFree; decide

theorem mDot_spec (s rep : Str) (k : Nat) (h : mDot s = some (rep, k)) : rep = nanNan ∧ k < s.length := by
  cases s with
  | nil => simp [mDot, mDotAlt1, mDotAlt2] at h
  | cons c cs =>
    unfold mDot at h
    split at h
    · rename_i n h1
      simp only [Option.some.injEq, Prod.mk.injEq] at h
      have := mDotAlt1_le _ n h1
      simp only [List.length_cons] at this ⊢
      exact ⟨h.1.symm, by omega⟩
    · split at h
      · rename_i n h2
        simp only [Option.some.injEq, Prod.mk.injEq] at h
        have := mDotAlt2_le _ n h2
        simp only [List.length_cons] at this ⊢
        exact ⟨h.1.symm, by omega⟩
      · cases h

theorem good_mDot : Good mDot where
  loc := mDot_local
  ws := mDot_ws
  bnd := fun s rep k h => (mDot_spec s rep k h).2
  qf := fun s rep k h => by rw [(mDot_spec s rep k h).1]; exact quoteFree_nanNan

/-! ### `re.sub` over a blank-separated text -/

theorem reSub_nil (m : Str → Option (Str × Nat)) (k : Nat) : reSub m k [] = [] := by
  simp only [reSub]

theorem reSub_append (m : Str → Option (Str × Nat)) (hg : Good m) (tail : Str) (ht : WsHead tail) (x : Str) :
    ∀ k, k ≤ x.length → reSub m k (x ++ tail) = reSub m k x ++ reSub m 0 tail := by
  induction x with
  | nil =>
    intro k hk
    have : k = 0 := by simpa using hk
    subst this
    rw [reSub_nil]; rfl
  | cons c cs ih =>
    intro k hk
    cases k with
    | succ k =>
      simp only [List.cons_append, reSub]
      exact ih k (by simpa using hk)
    | zero =>
      have hl : m (c :: (cs ++ tail)) = m (c :: cs) := hg.loc (c :: cs) tail ht
      cases hm : m (c :: cs) with
      | none =>
        simp only [List.cons_append, reSub, hl, hm]
        rw [ih 0 (Nat.zero_le _)]
      | some rk =>
        obtain ⟨rep, k2⟩ := rk
        have hb := hg.bnd _ _ _ hm
        simp only [List.cons_append, reSub, hl, hm, List.append_assoc]
        rw [ih k2 (by simp only [List.length_cons] at hb; omega)]

theorem reSub_allWs (m : Str → Option (Str × Nat)) (hws : ∀ w r, isPySpace w = true → m (w :: r) = none)
    (a r : Str) (ha : AllWs a) : reSub m 0 (a ++ r) = a ++ reSub m 0 r := by
  induction a with
  | nil => rfl
  | cons w a ih =>
    obtain ⟨hw, ha'⟩ := allWs_of_cons ha
    simp only [List.cons_append, reSub, hws w (a ++ r) hw]
    rw [ih ha']

theorem reSub_quoteFree (m : Str → Option (Str × Nat)) (hq : RepQF m) (s : Str) :
    ∀ k, QuoteFree s → QuoteFree (reSub m k s) := by
  induction s with
  | nil => intro k _; rw [reSub_nil]; exact quoteFree_nil
  | cons c cs ih =>
    intro k h
    obtain ⟨hc, hcs⟩ := quoteFree_of_cons h
    cases k with
    | succ k => simp only [reSub]; exact ih k hcs
    | zero =>
      cases hm : m (c :: cs) with
      | none => simp only [reSub, hm]; exact quoteFree_cons hc (ih 0 hcs)
      | some rk =>
        obtain ⟨rep, k2⟩ := rk
        simp only [reSub, hm]
        exact quoteFree_append (hq _ _ _ hm) (ih k2 hcs)

/-! ### string functions that respect blank runs -/

/-- `f` works on each blank-separated piece on its own, keeps the blanks, creates no quote -/
structure SepHom (f : Str → Str) : Prop where
  nil : f [] = []
  ws : ∀ a r, AllWs a → f (a ++ r) = a ++ f r
  sep : ∀ x sep rest, sep ≠ [] → AllWs sep → f (x ++ (sep ++ rest)) = f x ++ (sep ++ f rest)
  qf : ∀ s, QuoteFree s → QuoteFree (f s)

theorem sepHom_id : SepHom (fun s => s) where
  nil := rfl
  ws := fun _ _ _ => rfl
  sep := fun _ _ _ _ _ => rfl
  qf := fun _ h => h

theorem sepHom_comp {f g : Str → Str} (hf : SepHom f) (hg : SepHom g) : SepHom (fun s => g (f s)) where
  nil := by rw [hf.nil, hg.nil]
  ws := fun a r ha => by rw [hf.ws a r ha, hg.ws a _ ha]
  sep := fun x sep rest hne hs => by rw [hf.sep x sep rest hne hs, hg.sep _ sep _ hne hs]
  qf := fun s h => hg.qf _ (hf.qf s h)

theorem sepHom_reSub (m : Str → Option (Str × Nat)) (hg : Good m) : SepHom (reSub m 0) where
  nil := rfl
  ws := fun a r ha => reSub_allWs m hg.ws a r ha
  sep := fun x sep rest hne hs => by
    rw [reSub_append m hg (sep ++ rest) (wsHead_of_allWs_append sep rest hs hne) x 0 (Nat.zero_le _),
      reSub_allWs m hg.ws sep rest hs]
  qf := fun s h => reSub_quoteFree m hg.qf s 0 h

theorem sepHom_ite (b : Bool) {f : Str → Str} (hf : SepHom f) : SepHom (fun s => if b then f s else s) := by
  cases b
  · exact sepHom_id
  · exact hf

theorem filter_ctrlZ_allWs (a : Str) (ha : AllWs a) : a.filter (· != ctrlZ) = a := by
  rw [List.filter_eq_self]
  intro c hc
  simp [bne, ws_ne_ctrlZ c (ha c hc)]

theorem sepHom_filter : SepHom (fun s => s.filter (· != ctrlZ)) where
  nil := rfl
  ws := fun a r ha => by rw [List.filter_append, filter_ctrlZ_allWs a ha]
  sep := fun x sep rest _ hs => by rw [List.filter_append, List.filter_append, filter_ctrlZ_allWs sep hs]
  qf := fun s h => quoteFree_sublist List.filter_sublist h

theorem sepHom_applySubs (sb : Subs) : SepHom (applySubs sb) := by
  have h1 := sepHom_ite sb.comma (sepHom_reSub mComma good_mComma)
  have h2 := sepHom_ite sb.hyphen (sepHom_reSub mHyphen good_mHyphen)
  have h3 := sepHom_ite sb.dot (sepHom_reSub mDot good_mDot)
  have h := sepHom_comp (sepHom_comp h1 h2) h3
  exact h

theorem sepHom_lineText (sb : Subs) : SepHom (fun s => (applySubs sb s).filter (· != ctrlZ)) :=
  sepHom_comp (sepHom_applySubs sb) sepHom_filter

/-! ### the whitespace splitter on quote-free text -/

abbrev nsq (x : Char) : Bool := !(isPySpace x || x == '"' || x == '\'')

theorem mSplit_qf_cons (c : Char) (cs : Str) (hc : c ≠ '"' ∧ c ≠ '\'') :
    mSplit isPySpace (c :: cs) =
      if isPySpace c then none else some (c :: cs.takeWhile nsq, (cs.takeWhile nsq).length) := by
  have e1 : (c == '"') = false := by simp [hc.1]
  have e2 : (c == '\'') = false := by simp [hc.2]
  simp only [mSplit, e1, e2, Bool.or_self, Bool.false_eq_true, if_false]

theorem mSplit_local_qf (x tail : Str) (hx : QuoteFree x) (ht : WsHead tail) :
    mSplit isPySpace (x ++ tail) = mSplit isPySpace x := by
  cases x with
  | nil =>
    rcases ht with rfl | ⟨w, r, rfl, hw⟩
    · rfl
    · rw [List.nil_append, mSplit_ws w r hw]; rfl
  | cons c cs =>
    obtain ⟨hc, _⟩ := quoteFree_of_cons hx
    rw [List.cons_append, mSplit_qf_cons c _ hc, mSplit_qf_cons c _ hc]
    have : (cs ++ tail).takeWhile nsq = cs.takeWhile nsq := by
      apply takeWhile_append_head
      rcases ht with rfl | ⟨w, r, rfl, hw⟩
      · exact Or.inl rfl
      · exact Or.inr ⟨w, r, rfl, by simp [nsq, hw]⟩
    rw [this]

theorem mSplit_bounded_qf (x tok : Str) (k : Nat) (hx : QuoteFree x) (h : mSplit isPySpace x = some (tok, k)) :
    k < x.length := by
  cases x with
  | nil => simp [mSplit] at h
  | cons c cs =>
    obtain ⟨hc, _⟩ := quoteFree_of_cons hx
    rw [mSplit_qf_cons c _ hc] at h
    split at h
    · cases h
    · simp only [Option.some.injEq, Prod.mk.injEq] at h
      have := length_takeWhile_le' nsq cs
      simp only [List.length_cons]
      omega

theorem scanTok_nil (m : Str → Option (Str × Nat)) (k : Nat) : scanTok m k [] = [] := by
  simp only [scanTok]

theorem scanSplit_append (tail : Str) (ht : WsHead tail) (x : Str) :
    ∀ k, k ≤ x.length → QuoteFree x →
      scanTok (mSplit isPySpace) k (x ++ tail) = scanTok (mSplit isPySpace) k x ++ scanTok (mSplit isPySpace) 0 tail := by
  induction x with
  | nil =>
    intro k hk _
    have : k = 0 := by simpa using hk
    subst this
    rw [scanTok_nil]; rfl
  | cons c cs ih =>
    intro k hk hq
    obtain ⟨_, hcs⟩ := quoteFree_of_cons hq
    cases k with
    | succ k =>
      simp only [List.cons_append, scanTok]
      exact ih k (by simpa using hk) hcs
    | zero =>
      have hl : mSplit isPySpace (c :: (cs ++ tail)) = mSplit isPySpace (c :: cs) := mSplit_local_qf (c :: cs) tail hq ht
      cases hm : mSplit isPySpace (c :: cs) with
      | none =>
        simp only [List.cons_append, scanTok, hl, hm]
        exact ih 0 (Nat.zero_le _) hcs
      | some rk =>
        obtain ⟨tok, k2⟩ := rk
        have hb := mSplit_bounded_qf _ _ _ hq hm
        simp only [List.cons_append, scanTok, hl, hm]
        rw [ih k2 (by simp only [List.length_cons] at hb; omega) hcs]

theorem splitWs_append (x tail : Str) (hx : QuoteFree x) (ht : WsHead tail) :
    splitWs (x ++ tail) = splitWs x ++ splitWs tail :=
  scanSplit_append tail ht x 0 (Nat.zero_le _) hx

theorem splitWs_allWs (a r : Str) (ha : AllWs a) : splitWs (a ++ r) = splitWs r :=
  scanTok_allWs (mSplit isPySpace) mSplit_ws a r ha

/-! ### induction along the words of a string -/

theorem words_induction (P : Str → Prop) (nil : P [])
    (ws : ∀ c cs, isPySpace c = true → P cs → P (c :: cs))
    (word : ∀ w tail, IsWord w → WsHead tail → pySplit (w ++ tail) = w :: pySplit tail → P tail → P (w ++ tail)) :
    ∀ s, P s := by
  intro s
  induction hn : s.length using Nat.strongRecOn generalizing s with
  | _ n ih =>
    cases s with
    | nil => exact nil
    | cons c cs =>
      cases hc : isPySpace c with
      | true => exact ws c cs hc (ih cs.length (by subst hn; simp) cs rfl)
      | false =>
        have e : c :: cs = (c :: cs.takeWhile ns) ++ cs.dropWhile ns := by
          rw [List.cons_append, List.takeWhile_append_dropWhile]
        have hw : IsWord (c :: cs.takeWhile ns) := by
          refine ⟨by simp, ?_⟩
          intro x hx
          rcases List.mem_cons.mp hx with rfl | hx
          · exact hc
          · have := mem_takeWhile_p ns cs x hx
            simpa [ns] using this
        have ht := wsHead_dropWhile_ns cs
        rw [e]
        refine word _ _ hw ht ?_ ?_
        · rw [pySplit_append _ _ ht, pySplit_isWord _ hw]; rfl
        · exact ih (cs.dropWhile ns).length (by
            subst hn
            have := (List.dropWhile_sublist ns (l := cs)).length_le
            simp only [List.length_cons]; omega) _ rfl

/-- the items of a quote-free text are the items of its words -/
theorem splitWs_words (f : Str → Str) (hf : SepHom f) (s : Str) :
    QuoteFree s → splitWs (f s) = (pySplit s).flatMap (fun w => splitWs (f w)) := by
  induction s using words_induction with
  | nil => intro _; rw [hf.nil]; rfl
  | ws c cs hc ih =>
    intro hq
    have h1 : f (c :: cs) = [c] ++ f cs := hf.ws [c] cs (allWs_cons hc allWs_nil)
    rw [h1, splitWs_allWs [c] _ (allWs_cons hc allWs_nil), pySplit_ws c cs hc]
    exact ih (quoteFree_of_cons hq).2
  | word w tail hw ht hsp ih =>
    intro hq
    rw [hsp, List.flatMap_cons]
    rcases ht with rfl | ⟨b, r, rfl, hb⟩
    · simp [pySplit_nil]
    · have hsep : AllWs [b] := allWs_cons hb allWs_nil
      have e : w ++ b :: r = w ++ ([b] ++ r) := rfl
      rw [e, hf.sep w [b] r (by simp) hsep,
        splitWs_append (f w) _ (hf.qf w (quoteFree_left hq)) (wsHead_of_allWs_append [b] _ hsep (by simp)),
        splitWs_allWs [b] _ hsep]
      have ih' := ih (quoteFree_right hq)
      have h2 : f (b :: r) = [b] ++ f r := hf.ws [b] r hsep
      rw [h2, splitWs_allWs [b] _ hsep, pySplit_ws b r hb] at ih'
      rw [ih', pySplit_ws b r hb]

theorem lineToks_words (sb : Subs) (s : Str) (hq : QuoteFree s) :
    lineToks sb s = (pySplit s).flatMap (lineToks sb) :=
  splitWs_words _ (sepHom_lineText sb) s hq

/-! ### `strip` keeps the words -/

theorem dropWhile_head (p : Char → Bool) (l : Str) :
    l.dropWhile p = [] ∨ ∃ c cs, l.dropWhile p = c :: cs ∧ p c = false := by
  induction l with
  | nil => exact Or.inl rfl
  | cons a l ih =>
    simp only [List.dropWhile_cons]
    split
    · exact ih
    · rename_i h; exact Or.inr ⟨a, l, rfl, by simpa using h⟩

theorem rstrip_decomp (x : Str) : ∃ post, AllWs post ∧ x = rstrip x ++ post := by
  refine ⟨(x.reverse.takeWhile isPySpace).reverse, ?_, ?_⟩
  · intro c hc
    exact mem_takeWhile_p isPySpace _ c (List.mem_reverse.mp hc)
  · unfold rstrip
    rw [← List.reverse_append, List.takeWhile_append_dropWhile, List.reverse_reverse]

/-- a string is blanks, its stripped form, blanks -/
theorem strip_decomp (l : Str) : ∃ pre post, AllWs pre ∧ AllWs post ∧ l = pre ++ (strip l ++ post) := by
  obtain ⟨post, hpost, e⟩ := rstrip_decomp (lstrip l)
  refine ⟨l.takeWhile isPySpace, post, fun c hc => mem_takeWhile_p isPySpace l c hc, hpost, ?_⟩
  unfold strip
  rw [← e]
  unfold lstrip
  exact (List.takeWhile_append_dropWhile).symm

theorem strip_head (l : Str) : strip l = [] ∨ ∃ c cs, strip l = c :: cs ∧ isPySpace c = false := by
  unfold strip
  rcases dropWhile_head isPySpace l with h | ⟨c, cs, h, hc⟩
  · left; unfold lstrip; rw [h]; rfl
  · right
    refine ⟨c, trimR isPySpace cs, ?_, hc⟩
    unfold lstrip; rw [h]
    exact trimR_append_stop isPySpace [] cs c hc

theorem pySplit_strip (l : Str) : pySplit (strip l) = pySplit l := by
  obtain ⟨pre, post, hpre, hpost, e⟩ := strip_decomp l
  have : pySplit l = pySplit (pre ++ (strip l ++ post)) := congrArg pySplit e
  rw [this, pySplit_ws_left pre _ hpre, pySplit_ws_right _ post hpost]

theorem quoteFree_strip (l : Str) (hq : QuoteFree l) : QuoteFree (strip l) := by
  obtain ⟨pre, post, _, _, e⟩ := strip_decomp l
  have h : QuoteFree (pre ++ (strip l ++ post)) := by rw [← e]; exact hq
  exact quoteFree_left (quoteFree_right h)

theorem isComment_strip (l : Str) : isComment (strip l) = firstHash (pySplit l) := by
  rw [← pySplit_strip l]
  rcases strip_head l with h | ⟨c, cs, h, hc⟩
  · rw [h]; rfl
  · rw [h, pySplit_word c cs hc, isComment_cons]
    simp only [firstHash]
    exact BEq.comm

theorem isEmpty_strip (l : Str) : (strip l).isEmpty = (pySplit l).isEmpty := by
  rw [← pySplit_strip l]
  rcases strip_head l with h | ⟨c, cs, h, hc⟩
  · rw [h]; rfl
  · rw [h, pySplit_word c cs hc]; rfl

/-! ### the normal engine -/

theorem lineTokens_space_eq (sb : Subs) (l : Str) :
    lineTokens sb .space l = if isComment (strip l) then [] else lineToks sb (strip l) := by
  unfold lineTokens lineToks
  rw [cleanLine_eq_strip]
  simp only [splitLine]
  split
  · rfl
  · split
    · rename_i h; rw [List.isEmpty_iff.mp h]; rfl
    · rfl

/-- the normal engine reads a quote-free line word by word -/
theorem lineTokens_space_words (sb : Subs) (l : Str) (hq : QuoteFree l) :
    lineTokens sb .space l = if firstHash (pySplit l) then [] else (pySplit l).flatMap (lineToks sb) := by
  rw [lineTokens_space_eq, isComment_strip, lineToks_words sb (strip l) (quoteFree_strip l hq), pySplit_strip]

/-! ### the sniffer -/

/-- what the sniffer records of a line, from its words -/
def sniffWords (sb : Subs) (ws : List Str) : Option (Nat × Bool) :=
  if ws.isEmpty || firstHash ws then none
  else some ((ws.flatMap (fun w => splitWs (applySubs sb w))).length, ws.any (fun w => w.contains '-'))

theorem contains_words (d : Char) (hd : isPySpace d = false) (s : Str) :
    s.contains d = (pySplit s).any (fun w => w.contains d) := by
  induction s using words_induction with
  | nil => rfl
  | ws c cs hc ih =>
    have hne : (d == c) = false := by
      rw [beq_eq_false_iff_ne]; intro e; subst e; rw [hc] at hd; cases hd
    rw [pySplit_ws c cs hc, ← ih, List.contains_cons, hne, Bool.false_or]
  | word w tail hw ht hsp ih =>
    rw [hsp, List.any_cons, ← ih]
    simp only [List.contains_eq_mem, List.mem_append, Bool.decide_or]

theorem sampleLine_words (sb : Subs) (l : Str) (hq : QuoteFree l) :
    (sampleLine l).map (sniffInfo sb .space) = sniffWords sb (pySplit l) := by
  unfold sampleLine sniffWords
  rw [cleanLine_eq_strip]
  simp only []
  rw [isEmpty_strip, isComment_strip]
  split
  · rfl
  · simp only [Option.map_some, sniffInfo, splitLine]
    rw [splitWs_words (applySubs sb) (sepHom_applySubs sb) (strip l) (quoteFree_strip l hq),
      contains_words '-' (by decide) (strip l), pySplit_strip]

/-! ### `genfromtxt` -/

abbrev nh (c : Char) : Bool := c != '#'

/-- the words before the first `#` -/
def cutHash : List Str → List Str
  | [] => []
  | w :: ws =>
    if w.all nh then w :: cutHash ws
    else if (w.takeWhile nh).isEmpty then [] else [w.takeWhile nh]

theorem takeWhile_append_all (p : Char → Bool) (w t : Str) :
    (w ++ t).takeWhile p = if w.all p then w ++ t.takeWhile p else w.takeWhile p := by
  induction w with
  | nil => simp
  | cons c w ih =>
    simp only [List.cons_append, List.takeWhile_cons, List.all_cons]
    cases hc : p c
    · simp
    · rw [ih]
      cases w.all p <;> simp

theorem wsHead_takeWhile_nh (tail : Str) (ht : WsHead tail) : WsHead (tail.takeWhile nh) := by
  rcases ht with rfl | ⟨b, r, rfl, hb⟩
  · exact Or.inl rfl
  · have : nh b = true := by simp [nh, bne, ws_ne_hash b hb]
    exact Or.inr ⟨b, r.takeWhile nh, by rw [List.takeWhile_cons, this]; rfl, hb⟩

theorem npTokens_eq (l : Str) : npTokens l = pySplit (l.takeWhile nh) := rfl

theorem npTokens_words (l : Str) : npTokens l = cutHash (pySplit l) := by
  induction l using words_induction with
  | nil => rfl
  | ws c cs hc ih =>
    have : nh c = true := by simp [nh, bne, ws_ne_hash c hc]
    rw [npTokens_eq, List.takeWhile_cons, this, if_pos rfl, pySplit_ws c _ hc, pySplit_ws c _ hc, ← npTokens_eq, ih]
  | word w tail hw ht hsp ih =>
    rw [npTokens_eq, takeWhile_append_all, hsp]
    simp only [cutHash]
    split
    · rw [pySplit_append w _ (wsHead_takeWhile_nh tail ht), pySplit_isWord w hw, ← npTokens_eq, ih]
      rfl
    · split
      · rename_i h; rw [List.isEmpty_iff.mp h]; rfl
      · rename_i h
        apply pySplit_isWord
        refine ⟨fun e => h (by rw [e]; rfl), fun c hc => hw.2 c ((List.takeWhile_sublist nh).subset hc)⟩

/-- two quote-free lines with the same words are the same line for the data reader (SPACE delimiter) -/
theorem dataEq_of_words (a b : Str) (ha : QuoteFree a) (hb : QuoteFree b) (h : pySplit a = pySplit b) :
    DataEq .space a b where
  toks := fun sb => by rw [lineTokens_space_words sb a ha, lineTokens_space_words sb b hb, h]
  sniff := fun sb => by rw [sampleLine_words sb a ha, sampleLine_words sb b hb, h]
  np := by rw [npTokens_words, npTokens_words, h]

end Lasio.Tf

#print axioms Lasio.Tf.lineTokens_space_words
#print axioms Lasio.Tf.dataEq_of_words
