import LasioProofs.Props.C16
import LasioProofs.Lemmas.FileDlm
import LasioProofs.Lemmas.CycleDataLemmas
/-
Helper lemmas for C11Refresh: the refresh of STRT / STOP / STEP and of the units (`Wo.prepare`) inside the composed
load/save cycle.
-/
namespace Lasio.Cr
open Lasio Lasio.Wo

/-! ## `np.array_equal(index_initial, index)` for an index that was not touched -/

theorem feq_self (x : F64) (h : x.isNaN = false) : feq x x = true := by
  cases x with
  | nan => cases h
  | inf a => simp [feq]
  | finite n m e => simp [feq]

theorem arrayEqual_self (l : List F64) (h : ∀ x ∈ l, x.isNaN = false) : arrayEqual l l = true := by
  induction l with
  | nil => rfl
  | cons x xs ih =>
    simp only [arrayEqual, feq_self x (h x (by simp)), ih (fun y hy => h y (by simp [hy])), Bool.and_self]

/-- **the refresh decision of an object that `read` built**: `index_initial` is the index, so the decision is
`index_initial[-1] != STOP.value` under Python's cross-type comparison -/
theorem refreshDecision_reread (o1 : WObj) (idx : List F64) (hii : o1.indexInitial = some idx) (hidx : o1.index = some idx)
    (hnan : ∀ x ∈ idx, x.isNaN = false) (last : F64) (hl : idx.getLast? = some last) (stop : OItem)
    (hs : lookup o1.wellTr sSTOP o1.well = some stop) :
    refreshDecision o1 = .ok (pyNe last stop.value) := by
  unfold refreshDecision
  simp only [hii, hidx, hl, hs, arrayEqual_self idx hnan, Bool.not_true, Bool.false_or]

/-! ## `prepare` without refresh on aligned units changes nothing -/

theorem modify_id {α} (l : List α) (i : Nat) (f : α → α) (h : ∀ x, l[i]? = some x → f x = x) : l.modify i f = l := by
  apply List.ext_getElem?
  intro j
  rw [List.getElem?_modify]
  by_cases hij : i = j
  · subst hij
    cases hx : l[i]? with
    | none => simp
    | some x => simp [h x hx]
  · simp [hij]

theorem setUnit_same (u : Str) (x : OItem) (h : x.unit = u) : setUnit u x = x := by
  cases x; simp only [setUnit] at *; simp [h]

/-- the units of STRT, STOP, STEP (at positions `a b c`) and of the first curve are all `u` -/
structure UnitsAligned (o : WObj) (u : Str) (a b c : Nat) : Prop where
  ha : keyIdx o.wellTr sSTRT o.well = some a
  hb : keyIdx o.wellTr sSTOP o.well = some b
  hc : keyIdx o.wellTr sSTEP o.well = some c
  ua : ∀ x, o.well[a]? = some x → x.unit = u
  ub : ∀ x, o.well[b]? = some x → x.unit = u
  uc : ∀ x, o.well[c]? = some x → x.unit = u
  ucurve : ∀ c0, o.curves.head? = some c0 → c0.unit = u

theorem chosenUnit_aligned {o : WObj} {u : Str} {a b c : Nat} (h : UnitsAligned o u a b c) : chosenUnit o = some u := by
  have hstrt : (lookup o.wellTr sSTRT o.well).map (·.unit) = some u := by
    rw [lookup_eq, h.ha]
    have hlt := keyIdx_lt h.ha
    simp only [Option.bind_some, List.getElem?_eq_getElem hlt, Option.map_some, Option.some.injEq]
    exact h.ua _ (List.getElem?_eq_getElem hlt)
  unfold chosenUnit
  cases hcs : o.curves with
  | nil => exact hstrt
  | cons c0 cs =>
    have hu := h.ucurve c0 (by rw [hcs]; rfl)
    simp only []
    by_cases he : c0.unit.isEmpty = true
    · simp only [he, Bool.not_true, Bool.false_eq_true, if_false]
      exact hstrt
    · have he' : c0.unit.isEmpty = false := by simpa using he
      rw [hu] at he'
      simp only [hu, he', Bool.not_false, if_true]

theorem wellUnits_aligned {o : WObj} {u : Str} {a b c : Nat} (h : UnitsAligned o u a b c) :
    wellUnits u a b c o.well = o.well := by
  unfold wellUnits
  rw [modify_id o.well a _ (fun x hx => setUnit_same u x (h.ua x hx)),
    modify_id o.well b _ (fun x hx => setUnit_same u x (h.ub x hx)),
    modify_id o.well c _ (fun x hx => setUnit_same u x (h.uc x hx))]

theorem setFirstUnit_aligned {o : WObj} {u : Str} {a b c : Nat} (h : UnitsAligned o u a b c) :
    setFirstUnit u o.curves = o.curves := by
  cases hcs : o.curves with
  | nil => rfl
  | cons c0 cs =>
    simp only [setFirstUnit]
    rw [setUnit_same u c0 (h.ucurve c0 (by rw [hcs]; rfl))]

/-- **no refresh decided, units aligned: `prepare` returns the object itself** (whatever `index[1] - index[0]` is) -/
theorem prepare_noop (sd : Option F64) (o : WObj) (u : Str) (a b c : Nat)
    (hd : refreshDecision o = .ok false) (h : UnitsAligned o u a b c) : prepare sd o = .ok o := by
  rw [prepare_of_shape (s := .none) (e := .none) (p := .none) hd h.ha h.hb h.hc (by intro hh; cases hh)
    (chosenUnit_aligned h)]
  simp only [wellVals, Bool.false_eq_true, if_false, wellUnits_aligned h, setFirstUnit_aligned h]

/-! ## the other steps of `writeObj` -/

theorem resolveVersion_given (cfg : WriteCfg) (tr : Bool) (vsec : List OItem) (v : String) (hv : cfg.version = some v)
    (hver : v = "1.2" ∨ v = "2.0") : resolveVersion cfg tr vsec = .ok v := by
  unfold resolveVersion
  rw [hv]
  rcases hver with rfl | rfl <;> rfl

/-- what the header step does to the values in memory: `standardize_value`, which leaves every number alone -/
theorem afterHeader_well (cfg : WriteCfg) (o : WObj) (j : Nat) (x : OItem) (hx : o.well[j]? = some x) :
    ∃ y, (afterHeader cfg o).well[j]? = some y ∧ y.value = stdP x.value x.unit ∧ y.unit = x.unit ∧
      (∀ f t, x.value = .num f t → y.value = x.value) := by
  refine ⟨stdItem x, by simp [afterHeader, hx], rfl, rfl, ?_⟩
  intro f t hv
  simp only [stdItem, hv, stdP_num]

end Lasio.Cr
