import LasioModel.Curves
import LasioProofs.Lemmas.SectionInv
/-
Helper lemmas for C14: `zipWith` under list surgery, the part of an item that `assign_duplicate_suffixes`
never touches (`Item.core`), Python index arithmetic, and the closed form of re-suffixing several groups
(which shows that the iteration order over the Python `set` of useful mnemonics is irrelevant).
-/
namespace Lasio

/-! ### list surgery and `zipWith` -/

theorem zipWith_insertAt {α β γ} (f : α → β → γ) (l1 : List α) (l2 : List β) (n : Nat) (a : α) (b : β)
    (h : l1.length = l2.length) :
    List.zipWith f (insertAt l1 n a) (insertAt l2 n b) = insertAt (List.zipWith f l1 l2) n (f a b) := by
  unfold insertAt
  rw [List.zipWith_append (by simp [h])]
  simp [List.take_zipWith, List.drop_zipWith]

theorem zipWith_eraseIdx {α β γ} (f : α → β → γ) (l1 : List α) (l2 : List β) (j : Nat) :
    List.zipWith f (l1.eraseIdx j) (l2.eraseIdx j) = (List.zipWith f l1 l2).eraseIdx j := by
  induction l1 generalizing l2 j with
  | nil => simp
  | cons a as ih =>
    cases l2 with
    | nil => simp
    | cons b bs =>
      cases j with
      | zero => simp
      | succ j => simp [ih]

theorem zipWith_modify {α β γ} (f : α → β → γ) (g : α → α) (h : β → β) (k : γ → γ)
    (hk : ∀ a b, f (g a) (h b) = k (f a b)) (l1 : List α) (l2 : List β) (j : Nat) :
    List.zipWith f (l1.modify j g) (l2.modify j h) = (List.zipWith f l1 l2).modify j k := by
  induction l1 generalizing l2 j with
  | nil => simp
  | cons a as ih =>
    cases l2 with
    | nil => cases j <;> simp
    | cons b bs =>
      cases j with
      | zero => simp [hk]
      | succ j => simp [ih]

theorem cvMapIdx_length {α β} (f : Nat → α → β) (i : Nat) (l : List α) : (cvMapIdx f i l).length = l.length := by
  induction l generalizing i with
  | nil => rfl
  | cons a as ih => simp [cvMapIdx, ih]

theorem zipWith_cvMapIdx {α β γ} (f : α → β → γ) (g : Nat → α → α) (h : Nat → β → β) (k : Nat → γ → γ)
    (hk : ∀ i a b, f (g i a) (h i b) = k i (f a b)) (i : Nat) (l1 : List α) (l2 : List β) :
    List.zipWith f (cvMapIdx g i l1) (cvMapIdx h i l2) = cvMapIdx k i (List.zipWith f l1 l2) := by
  induction l1 generalizing l2 i with
  | nil => simp [cvMapIdx]
  | cons a as ih =>
    cases l2 with
    | nil => simp [cvMapIdx]
    | cons b bs => simp [cvMapIdx, hk, ih]

theorem cvMapIdx_getElem? {α β} (f : Nat → α → β) (i : Nat) (l : List α) (n : Nat) :
    (cvMapIdx f i l)[n]? = (l[n]?).map (f (i + n)) := by
  induction l generalizing i n with
  | nil => simp [cvMapIdx]
  | cons a as ih =>
    cases n with
    | zero => simp [cvMapIdx]
    | succ n => simp [cvMapIdx, ih, Nat.add_assoc, Nat.add_comm 1 n]

theorem insertAt_length {α} (l : List α) (n : Nat) (a : α) : (insertAt l n a).length = l.length + 1 := by
  unfold insertAt
  simp
  omega

theorem insertAt_len_eq_append {α} (l : List α) (a : α) : insertAt l l.length a = l ++ [a] := by
  simp [insertAt]

theorem insertAt_eraseIdx_eq_set {α} (l : List α) (j : Nat) (a : α) (h : j < l.length) :
    insertAt (l.eraseIdx j) j a = l.set j a := by
  induction l generalizing j with
  | nil => simp at h
  | cons b bs ih =>
    cases j with
    | zero => simp [insertAt]
    | succ j =>
      have := ih j (by simpa using h)
      simp only [insertAt] at this ⊢
      simp [this]

/-! ### Python index arithmetic -/

theorem pyInsertPos_le (len : Nat) (i : Int) : pyInsertPos len i ≤ len := by
  unfold pyInsertPos
  split <;> omega

theorem pyInsertPos_ofNat_len (len : Nat) : pyInsertPos len (Int.ofNat len) = len := by
  unfold pyInsertPos
  simp

theorem pyInsertPos_ofNat (len j : Nat) (h : j ≤ len) : pyInsertPos len (Int.ofNat j) = j := by
  unfold pyInsertPos
  simp
  omega

theorem pyIndex_lt {len : Nat} {i : Int} {j : Nat} (h : pyIndex len i = some j) : j < len := by
  unfold pyIndex at h
  split at h
  · split at h
    · simp at h; omega
    · simp at h
  · split at h
    · simp at h; omega
    · simp at h

theorem pyIndex_ofNat (len j : Nat) (h : j < len) : pyIndex len (Int.ofNat j) = some j := by
  unfold pyIndex
  simp [h]

theorem cvFindFirst_lt {α} (p : α → Bool) (l : List α) (j : Nat) (h : findFirst p l = some j) : j < l.length := by
  induction l generalizing j with
  | nil => simp [findFirst] at h
  | cons a as ih =>
    unfold findFirst at h
    split at h
    · simp at h; subst h; simp
    · cases hf : findFirst p as with
      | none => simp [hf] at h
      | some k =>
        simp [hf] at h; subst h
        have := ih k hf
        simp; omega

theorem keyIndex_lt {keys : List Str} {m : Str} {j : Nat} (h : keyIndex keys m = some j) : j < keys.length :=
  cvFindFirst_lt _ _ _ h

theorem cvFindFirst_false {α} (l : List α) : findFirst (fun _ => false) l = none := by
  induction l with
  | nil => rfl
  | cons a as ih => simp [findFirst, ih]

theorem find_int (s : Section) (i : Int) : s.find (.int i) = none := by
  unfold Section.find
  simp only [cmpKey]
  exact cvFindFirst_false _

theorem getitem_int (s : Section) (i : Int) :
    s.getitem (.int i) = match pyIndex s.items.length i with
      | some j => .ok j
      | none => .error .indexError := by
  unfold Section.getitem
  rw [find_int]
  rfl

theorem pop_eq (s : Section) (i : Int) :
    s.pop i = match pyIndex s.items.length i with
      | some j => .ok { s with items := s.items.eraseIdx j }
      | none => .error .indexError := rfl

/-! ### the part of an item that re-suffixing never touches -/

/-- original mnemonic, unit, value, descr -/
def Item.core (it : Item) : Str × Str × Str × Str := (it.orig, it.unit, it.value, it.descr)

def specOfCore (c : Str × Str × Str × Str) (d : List Cell) : SpecCurve := ⟨c.1, c.2.1, c.2.2.1, c.2.2.2, d⟩

theorem specOf_eq (it : Item) (d : List Cell) : specOf it d = specOfCore it.core d := rfl

theorem abs_eq_core (L : LasCurves) : L.abs = List.zipWith specOfCore (L.sec.items.map Item.core) L.data := by
  unfold LasCurves.abs
  rw [List.zipWith_map_left]
  rfl

theorem abs_congr (L L' : LasCurves) (hi : L'.sec.items.map Item.core = L.sec.items.map Item.core)
    (hd : L'.data = L.data) : L'.abs = L.abs := by
  rw [abs_eq_core, abs_eq_core, hi, hd]

theorem renumber_core (tr : Bool) (t : Str) (l : List Item) (n : Nat) :
    (renumber tr t l n).map Item.core = l.map Item.core := by
  induction l generalizing n with
  | nil => rfl
  | cons a as ih =>
    unfold renumber
    split <;> simp [ih, Item.core]

theorem assign_core (s : Section) (t : Str) :
    (s.assignSuffixes t).items.map Item.core = s.items.map Item.core := by
  unfold Section.assignSuffixes
  split
  · exact renumber_core _ _ _ _
  · rfl

theorem assign_length (s : Section) (t : Str) : (s.assignSuffixes t).items.length = s.items.length := by
  have := congrArg List.length (assign_core s t)
  simpa using this

theorem assignMany_core (s : Section) (ts : List Str) :
    (assignMany s ts).items.map Item.core = s.items.map Item.core := by
  induction ts generalizing s with
  | nil => rfl
  | cons t ts ih =>
    unfold assignMany at ih ⊢
    rw [List.foldl_cons, ih, assign_core]

theorem assignMany_tr (s : Section) (ts : List Str) : (assignMany s ts).tr = s.tr := by
  induction ts generalizing s with
  | nil => rfl
  | cons t ts ih =>
    unfold assignMany at ih ⊢
    rw [List.foldl_cons, ih, assign_tr]

theorem assignAll_core (s : Section) : s.assignAll.items.map Item.core = s.items.map Item.core :=
  assignMany_core s _

theorem assignAll_length (s : Section) : s.assignAll.items.length = s.items.length := by
  have := congrArg List.length (assignAll_core s)
  simpa using this

theorem origs_eq_core (s : Section) : s.origs = (s.items.map Item.core).map (·.1) := by
  simp [Section.origs, Item.core]

/-! ### closed form of re-suffixing several groups; independence of the iteration order -/

theorem countGroup_eq_origs (tr : Bool) (t : Str) (l : List Item) :
    countGroup tr t l = ((l.map (·.orig)).filter (fun o => cmpStr tr (useful o) t)).length := by
  unfold countGroup
  rw [List.filter_map, List.length_map]
  rfl

theorem countGroup_congr (tr : Bool) (t : Str) (l l' : List Item) (h : l.map (·.orig) = l'.map (·.orig)) :
    countGroup tr t l = countGroup tr t l' := by
  rw [countGroup_eq_origs, countGroup_eq_origs, h]

theorem countGroup_of_inGroup (tr : Bool) (t : Str) (it : Item) (h : inGroup tr t it = true) (l : List Item) :
    countGroup tr t l = countGroup tr (useful it.orig) l := by
  unfold countGroup
  congr 1
  apply List.filter_congr
  intro x _
  unfold inGroup at h
  rw [cmpStr_true_iff] at h
  rw [cmpStr_eq_ckey, cmpStr_eq_ckey, h]

/-- some test mnemonic of `ts` selects the group of `it`, and that group has more than one member -/
def suffixHit (tr : Bool) (ts : List Str) (l : List Item) (it : Item) : Bool :=
  ts.any fun t => inGroup tr t it && decide (1 < countGroup tr t l)

/-- the item at position `i` after `assign_duplicate_suffixes(t)` for every `t ∈ ts` (in any order) -/
def finalItem (tr : Bool) (ts : List Str) (l : List Item) (i : Nat) (it : Item) : Item :=
  if suffixHit tr ts l it then withSuffix it (countGroup tr (useful it.orig) (l.take i) + 1) else it

theorem assign_getElem? (s : Section) (t : Str) (i : Nat) :
    (s.assignSuffixes t).items[i]? = (s.items[i]?).map (fun it =>
      if inGroup s.tr t it && decide (1 < countGroup s.tr t s.items) then
        withSuffix it (countGroup s.tr t (s.items.take i) + 1) else it) := by
  unfold Section.assignSuffixes
  split
  · rename_i h
    simp only []
    rw [renumber_getElem?]
    have h' : 1 < countGroup s.tr t s.items := h
    simp [h']
  · rename_i h
    have h' : ¬ 1 < countGroup s.tr t s.items := h
    simp [h']

theorem suffixHit_congr (tr : Bool) (ts : List Str) (l l' : List Item) (it it' : Item)
    (hl : l.map (·.orig) = l'.map (·.orig)) (hi : it.orig = it'.orig) :
    suffixHit tr ts l it = suffixHit tr ts l' it' := by
  unfold suffixHit
  congr 1
  funext t
  rw [countGroup_congr tr t l l' hl]
  simp [inGroup, hi]

theorem withSuffix_session (it : Item) (x : Str) (n : Nat) :
    withSuffix { it with session := x } n = withSuffix it n := rfl

theorem assignMany_getElem? (s : Section) (ts : List Str) (i : Nat) :
    (assignMany s ts).items[i]? = (s.items[i]?).map (finalItem s.tr ts s.items i) := by
  induction ts generalizing s with
  | nil =>
    have hf : finalItem s.tr [] s.items i = id := by
      funext it; simp [finalItem, suffixHit]
    rw [hf]
    simp [assignMany]
  | cons t ts ih =>
    have e : assignMany s (t :: ts) = assignMany (s.assignSuffixes t) ts := rfl
    rw [e, ih, assign_getElem?, Option.map_map, assign_tr]
    congr 1
    funext it
    have ho : (s.assignSuffixes t).items.map (·.orig) = s.items.map (·.orig) := assign_origs s t
    have hot : ((s.assignSuffixes t).items.take i).map (·.orig) = (s.items.take i).map (·.orig) := by
      rw [List.map_take, List.map_take, ho]
    simp only [Function.comp]
    by_cases hA : (inGroup s.tr t it && decide (1 < countGroup s.tr t s.items)) = true
    · have hg : inGroup s.tr t it = true := by
        simp only [Bool.and_eq_true] at hA; exact hA.1
      simp only [hA, if_true]
      unfold finalItem
      have hB : suffixHit s.tr ts (s.assignSuffixes t).items
          (withSuffix it (countGroup s.tr t (s.items.take i) + 1)) = suffixHit s.tr ts s.items it :=
        suffixHit_congr _ _ _ _ _ _ ho rfl
      have hT : suffixHit s.tr (t :: ts) s.items it = true := by
        unfold suffixHit
        rw [List.any_cons, hA]
        rfl
      rw [hB, hT]
      simp only [if_true]
      have hc : countGroup s.tr (useful (withSuffix it (countGroup s.tr t (s.items.take i) + 1)).orig)
          ((s.assignSuffixes t).items.take i) = countGroup s.tr (useful it.orig) (s.items.take i) :=
        countGroup_congr _ _ _ _ hot
      rw [hc]
      by_cases hB' : suffixHit s.tr ts s.items it = true
      · simp only [hB', if_true]
        rfl
      · simp only [hB', Bool.false_eq_true, if_false]
        rw [countGroup_of_inGroup s.tr t it hg]
    · simp only [hA, Bool.false_eq_true, if_false]
      unfold finalItem
      have hB : suffixHit s.tr ts (s.assignSuffixes t).items it = suffixHit s.tr ts s.items it :=
        suffixHit_congr _ _ _ _ _ _ ho rfl
      have hT : suffixHit s.tr (t :: ts) s.items it = suffixHit s.tr ts s.items it := by
        unfold suffixHit
        rw [List.any_cons]
        simp only [Bool.not_eq_true] at hA
        rw [hA]
        rfl
      rw [hB, hT, countGroup_congr _ _ _ _ hot]

theorem suffixHit_set (tr : Bool) (ts ts' : List Str) (l : List Item) (it : Item)
    (h : ∀ t, t ∈ ts ↔ t ∈ ts') : suffixHit tr ts l it = suffixHit tr ts' l it := by
  unfold suffixHit
  rw [Bool.eq_iff_iff, List.any_eq_true, List.any_eq_true]
  constructor
  · rintro ⟨t, ht, hp⟩; exact ⟨t, (h t).mp ht, hp⟩
  · rintro ⟨t, ht, hp⟩; exact ⟨t, (h t).mpr ht, hp⟩

theorem cvSection_ext (a b : Section) (hi : a.items = b.items) (ht : a.tr = b.tr) : a = b := by
  cases a; cases b; simp_all

/-- the result of re-suffixing the groups of a collection of test mnemonics depends only on the SET of test
mnemonics: neither the order of iteration nor repetitions matter -/
theorem assignMany_set_indep (s : Section) (ts ts' : List Str) (h : ∀ t, t ∈ ts ↔ t ∈ ts') :
    assignMany s ts = assignMany s ts' := by
  apply cvSection_ext
  · apply List.ext_getElem?
    intro i
    rw [assignMany_getElem?, assignMany_getElem?]
    congr 1
    funext it
    unfold finalItem
    rw [suffixHit_set s.tr ts ts' s.items it h]
  · rw [assignMany_tr, assignMany_tr]

/-! ### every operation, on the abstraction -/

theorem abs_length (L : LasCurves) (h : L.WF) : L.abs.length = L.sec.items.length := by
  unfold LasCurves.abs LasCurves.WF at *
  simp [h]

theorem keys_length (L : LasCurves) : L.keys.length = L.sec.items.length := by
  simp [LasCurves.keys, Section.keys]

theorem abs_assign (s : Section) (t : Str) (d : List (List Cell)) :
    LasCurves.abs ⟨s.assignSuffixes t, d⟩ = LasCurves.abs ⟨s, d⟩ :=
  abs_congr _ _ (assign_core s t) rfl

theorem abs_assignAll (s : Section) (d : List (List Cell)) :
    LasCurves.abs ⟨s.assignAll, d⟩ = LasCurves.abs ⟨s, d⟩ :=
  abs_congr _ _ (assignAll_core s) rfl

theorem abs_map_orig (L : LasCurves) (h : L.WF) : L.abs.map (·.orig) = L.sec.origs := by
  unfold LasCurves.abs LasCurves.WF Section.origs at *
  generalize L.sec.items = l1 at *
  generalize L.data = l2 at *
  induction l1 generalizing l2 with
  | nil => simp
  | cons a as ih =>
    cases l2 with
    | nil => simp at h
    | cons b bs =>
      simp only [List.length_cons, Nat.add_right_cancel_iff] at h
      simp [ih bs h, specOf]

theorem insertItem_spec (L : LasCurves) (h : L.WF) (ix : Int) (c : CurveArg) (hc : c.isCurve = true) :
    (L.insertItem ix c).1.abs = specInsert L.abs ix (specOf c.item c.data) ∧ (L.insertItem ix c).1.WF ∧
    (L.insertItem ix c).2 = .ok ∧ (L.insertItem ix c).1.sec = L.sec.insert ix c.item := by
  unfold LasCurves.insertItem
  simp only [hc, if_true]
  refine ⟨?_, ?_, by first | rfl | trivial, by first | rfl | trivial⟩
  · unfold Section.insert
    rw [abs_assign]
    unfold LasCurves.abs specInsert
    simp only []
    rw [zipWith_insertAt _ _ _ _ _ _ h]
    have := abs_length L h
    unfold LasCurves.abs at this
    rw [this]
  · unfold LasCurves.WF Section.insert at *
    simp only []
    rw [assign_length, insertAt_length, insertAt_length, h]

theorem insertItem_notCurve (L : LasCurves) (ix : Int) (c : CurveArg) (hc : c.isCurve = false) :
    L.insertItem ix c = (L, .assertionError) := by
  unfold LasCurves.insertItem
  simp [hc]

theorem specInsert_len (S : SpecCurves) (c : SpecCurve) : specInsert S (Int.ofNat S.length) c = S ++ [c] := by
  unfold specInsert
  rw [pyInsertPos_ofNat_len, insertAt_len_eq_append]

theorem deleteIx_eq (L : LasCurves) (ix : Int) :
    L.deleteIx ix = match pyIndex L.sec.items.length ix with
      | some j => (⟨{ L.sec with items := L.sec.items.eraseIdx j }, L.data.eraseIdx j⟩, .ok)
      | none => (L, .indexError) := by
  unfold LasCurves.deleteIx
  rw [pop_eq]
  cases pyIndex L.sec.items.length ix <;> rfl

theorem deleteIx_spec (L : LasCurves) (h : L.WF) (ix : Int) :
    (L.deleteIx ix).1.abs = specDelete L.abs ix ∧ (L.deleteIx ix).1.WF := by
  rw [deleteIx_eq]
  unfold specDelete
  rw [abs_length L h]
  cases hp : pyIndex L.sec.items.length ix with
  | none =>
    constructor
    · rfl
    · exact h
  | some j =>
    simp only []
    refine ⟨?_, ?_⟩
    · unfold LasCurves.abs
      exact zipWith_eraseIdx _ _ _ _
    · unfold LasCurves.WF at *
      simp only [List.length_eraseIdx]
      rw [h]

theorem updateAt_spec (L : LasCurves) (h : L.WF) (j : Nat) (data : Option (List Cell)) (u d v : Option Str) :
    (L.updateAt j data u d v).abs = L.abs.modify j (fun c =>
      ⟨c.orig, u.getD c.unit, v.getD c.value, d.getD c.descr, data.getD c.data⟩) ∧
    (L.updateAt j data u d v).WF := by
  unfold LasCurves.updateAt
  refine ⟨?_, ?_⟩
  · unfold LasCurves.abs
    simp only []
    exact zipWith_modify specOf _ _ _ (fun a b => rfl) _ _ _
  · unfold LasCurves.WF at *
    simp [h]

theorem updateIx_spec (L : LasCurves) (h : L.WF) (ix : Int) (data : Option (List Cell)) (u d v : Option Str) :
    (L.updateIx ix data u d v).1.abs = specUpdate L.abs ix data u d v ∧ (L.updateIx ix data u d v).1.WF := by
  unfold LasCurves.updateIx specUpdate
  rw [getitem_int, abs_length L h]
  cases hp : pyIndex L.sec.items.length ix with
  | none => exact ⟨rfl, h⟩
  | some j => exact updateAt_spec L h j data u d v

theorem replaceItem_spec (L : LasCurves) (h : L.WF) (ix : Int) (c : CurveArg) :
    (L.replaceItem ix c).1.abs = specReplace L.abs ix c ∧ (L.replaceItem ix c).1.WF := by
  unfold LasCurves.replaceItem specReplace
  have hd := deleteIx_spec L h ix
  rw [deleteIx_eq] at hd ⊢
  unfold specDelete at hd
  rw [abs_length L h] at hd ⊢
  cases hp : pyIndex L.sec.items.length ix with
  | none => exact ⟨rfl, h⟩
  | some j =>
    rw [hp] at hd
    simp only [] at hd ⊢
    cases hc : c.isCurve with
    | true =>
      have := insertItem_spec _ hd.2 ix c hc
      rw [this.1, hd.1]
      exact ⟨by simp, this.2.1⟩
    | false =>
      rw [insertItem_notCurve _ ix c hc]
      exact ⟨by simpa using hd.1, hd.2⟩

theorem specReplace_ofNat (S : SpecCurves) (j : Nat) (c : CurveArg) (h : j < S.length) (hc : c.isCurve = true) :
    specReplace S (Int.ofNat j) c = S.set j (specOf c.item c.data) := by
  unfold specReplace specInsert
  rw [pyIndex_ofNat _ _ h]
  simp only [hc, if_true]
  rw [pyInsertPos_ofNat _ _ (by rw [List.length_eraseIdx]; simp [h]; omega)]
  exact insertAt_eraseIdx_eq_set S j _ h

theorem extend_spec (L : LasCurves) (h : L.WF) (k : Nat) :
    (L.extend k).abs = L.abs ++ List.replicate k cvBlankSpec ∧ (L.extend k).WF ∧
    (L.extend k).sec.items.length = L.sec.items.length + k ∧ (L.extend k).sec.tr = L.sec.tr := by
  induction k generalizing L with
  | zero => exact ⟨by simp [LasCurves.extend], h, by simp [LasCurves.extend], rfl⟩
  | succ k ih =>
    have hwf : LasCurves.WF ⟨L.sec.append cvBlankItem, L.data ++ [[]]⟩ := by
      unfold LasCurves.WF Section.append at *
      simp only []
      rw [assign_length]
      simp [h]
    have habs : LasCurves.abs ⟨L.sec.append cvBlankItem, L.data ++ [[]]⟩ = L.abs ++ [cvBlankSpec] := by
      unfold Section.append
      rw [abs_assign]
      unfold LasCurves.abs
      simp only []
      rw [List.zipWith_append h]
      rfl
    have hlen : (L.sec.append cvBlankItem).items.length = L.sec.items.length + 1 := by
      unfold Section.append
      rw [assign_length]
      simp
    have htr : (L.sec.append cvBlankItem).tr = L.sec.tr := by
      unfold Section.append
      rw [assign_tr]
    obtain ⟨h1, h2, h3, h4⟩ := ih _ hwf
    unfold LasCurves.extend
    refine ⟨?_, h2, ?_, ?_⟩
    · rw [h1, habs, List.replicate_succ]
      simp
    · rw [h3, hlen]; omega
    · rw [h4, htr]

theorem assignCols_spec (L : LasCurves) (h : L.WF) (rows : List (List Cell)) (w : Nat) (names : Option (List Str)) :
    (L.assignCols rows w names).1.abs = specAssignCols L.abs rows w names ∧ (L.assignCols rows w names).1.WF := by
  have habs : ∀ names1 : List Str,
      List.zipWith specOf
        (cvMapIdx (fun i it => if i ≤ w then renameItem it (names1.getD i []) else it) 0 L.sec.items)
        (cvMapIdx (fun i d => if i < w then cvColumn rows i else d) 0 L.data) =
      cvMapIdx (fun i c =>
        ({ c with orig := if i ≤ w then names1.getD i [] else c.orig,
                  data := if i < w then cvColumn rows i else c.data } : SpecCurve)) 0 L.abs := by
    intro names1
    unfold LasCurves.abs
    apply zipWith_cvMapIdx
    intro i a b
    by_cases h1 : i ≤ w <;> by_cases h2 : i < w <;> simp [h1, h2, specOf, renameItem]
  have hlen : (cvMapIdx (fun i it => if i ≤ w then
        renameItem it ((effectiveNames L.sec.origs names).getD i []) else it) 0 L.sec.items).length =
      (cvMapIdx (fun i d => if i < w then cvColumn rows i else d) 0 L.data).length := by
    rw [cvMapIdx_length, cvMapIdx_length]; exact h
  unfold LasCurves.assignCols specAssignCols
  rw [abs_map_orig L h]
  simp only []
  split
  · refine ⟨?_, ?_⟩
    · rw [abs_assignAll]
      exact habs _
    · unfold LasCurves.WF
      simp only []
      rw [assignAll_length]
      exact hlen
  · exact ⟨habs _, hlen⟩

theorem setData_spec (L : LasCurves) (h : L.WF) (rows : List (List Cell)) (names : Option (List Str))
    (truncate : Bool) :
    (L.setData rows names truncate).1.abs = specSetData L.abs rows names truncate ∧
    (L.setData rows names truncate).1.WF := by
  unfold LasCurves.setData specSetData
  rw [abs_length L h]
  simp only []
  split
  · obtain ⟨h1, h2, _, _⟩ := extend_spec L h
      (cvRowsWidth (setDataRows L.sec.items.length rows truncate) - L.sec.items.length)
    rw [← h1]
    exact assignCols_spec _ h2 _ _ _
  · exact ⟨rfl, h⟩

theorem appendItem_spec (L : LasCurves) (h : L.WF) (c : CurveArg) (hc : c.isCurve = true) :
    (L.insertItem (Int.ofNat L.sec.items.length) c).1.abs = L.abs ++ [specOf c.item c.data] ∧
    (L.insertItem (Int.ofNat L.sec.items.length) c).1.WF := by
  have := insertItem_spec L h (Int.ofNat L.sec.items.length) c hc
  have e : specInsert L.abs (Int.ofNat L.sec.items.length) (specOf c.item c.data) =
      L.abs ++ [specOf c.item c.data] := by
    rw [← abs_length L h]; exact specInsert_len _ _
  rw [e] at this
  exact ⟨this.1, this.2.1⟩

theorem findFirst_map {α β} (p : β → Bool) (f : α → β) (l : List α) :
    findFirst p (l.map f) = findFirst (fun a => p (f a)) l := by
  induction l with
  | nil => rfl
  | cons a as ih => simp [findFirst, ih]

theorem keyIndex_eq_findFirst_cmp (tr : Bool) (keys : List Str) (m : Str)
    (hd : tr = false ∨ keys.Pairwise (fun a b => cmpStr tr a b = false)) (hm : keys.contains m = true) :
    findFirst (fun k => cmpStr tr k m) keys = keyIndex keys m := by
  induction keys with
  | nil => simp at hm
  | cons a as ih =>
    unfold keyIndex findFirst
    by_cases ha : a = m
    · subst ha
      simp [cmpStr_refl]
    · have hne : (a == m) = false := by simpa using ha
      have hm' : as.contains m = true := by
        simp only [List.contains_cons] at hm
        rcases Bool.or_eq_true _ _ |>.mp hm with h1 | h1
        · exact absurd (by simpa using h1 : m = a).symm ha
        · exact h1
      have hcmp : cmpStr tr a m = false := by
        rcases hd with rfl | hp
        · simpa [cmpStr] using ha
        · have := (List.pairwise_cons.mp hp).1 m (by simpa using hm')
          exact this
      simp only [hcmp, hne, Bool.false_eq_true, if_false]
      have hd' : tr = false ∨ as.Pairwise (fun a b => cmpStr tr a b = false) := by
        rcases hd with h1 | hp
        · exact Or.inl h1
        · exact Or.inr (List.pairwise_cons.mp hp).2
      have := ih hd' hm'
      unfold keyIndex at this
      rw [this]

theorem cvRowsWidth_truncate (n : Nat) (rows : List (List Cell)) :
    cvRowsWidth (rows.map (fun r => r.take n)) ≤ n := by
  cases rows with
  | nil => simp [cvRowsWidth]
  | cons r rs => simp [cvRowsWidth, List.length_take]; omega

end Lasio
