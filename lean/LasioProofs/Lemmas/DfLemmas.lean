import LasioModel.Curves
import LasioProofs.Props.C14
/-
Helper lemmas for C18Df (`set_data_from_df(df())` on the curve model of C14).

`df()` labels the frame with the SESSION mnemonics (`dfNames`), its values are the 2-D view of the arrays (`dfRows`, the
`dataView` of C14); `set_data_from_df(df)` is `set_data(values, names = labels)`.  The central lemma `setData_df` computes
that call in closed form: every curve is renamed to its own session name, the arrays are put back, all groups are re-suffixed.
-/
namespace Lasio

/-- the labels of `df()`: index name and column labels = the session mnemonics of the curves, in order -/
def dfNames (L : LasCurves) : List Str := L.sec.keys

/-- the values of `df()` with the index column in front, as a list of rows; `none` when the arrays have unequal lengths
(`np.vstack` raises) -/
def dfRows (L : LasCurves) : Option (List (List Cell)) :=
  match L.dataView with
  | .ok rows => some rows
  | .error _ => none

/-- `item.mnemonic = item.mnemonic` as `set_data` does it with the session name: the session name becomes the ORIGINAL -/
def renameToSession (it : Item) : Item := renameItem it it.session

theorem dfRows_some (L : LasCurves) (rows : List (List Cell)) (h : dfRows L = some rows) : L.dataView = .ok rows := by
  unfold dfRows at h
  cases hv : L.dataView with
  | ok r => rw [hv] at h; simp only [Option.some.injEq] at h; rw [h]
  | error e => rw [hv] at h; cases h

/-! ### blank strings -/

theorem dropWhile_nil_all {p : Char → Bool} (a : Str) (h : a.dropWhile p = []) : ∀ x ∈ a, p x = true := by
  induction a with
  | nil => intro x hx; cases hx
  | cons c a ih =>
    by_cases hc : p c = true
    · simp only [List.dropWhile_cons, hc, if_true] at h
      intro x hx
      rcases List.mem_cons.mp hx with rfl | hx
      · exact hc
      · exact ih h x hx
    · simp [hc] at h

theorem strip_eq_nil_all (s : Str) (h : strip s = []) : ∀ c ∈ s, isPySpace c = true := by
  unfold strip rstrip at h
  have h1 : (lstrip s).reverse.dropWhile isPySpace = [] := by simpa using h
  have h2 : ∀ c ∈ lstrip s, isPySpace c = true := by
    intro c hc
    have := dropWhile_nil_all _ h1 c (by simpa using hc)
    exact this
  have h3 : lstrip s = [] := by
    unfold lstrip at h2 ⊢
    cases hd : s.dropWhile isPySpace with
    | nil => rfl
    | cons x xs =>
      exfalso
      have hx := List.head_dropWhile_not isPySpace (l := s) (by rw [hd]; simp)
      have hx' : isPySpace x = false := by simpa [hd] using hx
      have := h2 x (by rw [hd]; simp)
      rw [hx'] at this
      cases this
  unfold lstrip at h3
  exact dropWhile_nil_all _ h3

theorem strip_ne_nil_of_mem (s : Str) (c : Char) (hc : c ∈ s) (hs : isPySpace c = false) : strip s ≠ [] := by
  intro h
  have := strip_eq_nil_all s h c hc
  rw [hs] at this
  cases this

theorem useful_nonblank (o : Str) : strip (useful o) ≠ [] := by
  unfold useful
  split
  · decide
  · rename_i h
    simpa using h

theorem useful_of_nonblank (k : Str) (h : strip k ≠ []) : useful k = k := by
  unfold useful
  simp [h]

/-- a session name of the form the suffix machinery produces is never blank -/
theorem session_nonblank_of_suffixForm (it : Item) (h : SuffixForm it) : strip it.session ≠ [] := by
  rcases h with h | ⟨k, _, h⟩
  · rw [h]; exact useful_nonblank _
  · rw [h]
    exact strip_ne_nil_of_mem _ ':' (by simp) (by decide)

/-! ### `set_data(df().values, names = df() labels)` in closed form -/

theorem cvMapIdx_eq_map {α β} (f : Nat → α → β) (g : α → β) (l : List α) (i0 : Nat)
    (h : ∀ n a, l[n]? = some a → f (i0 + n) a = g a) : cvMapIdx f i0 l = l.map g := by
  apply List.ext_getElem?
  intro n
  rw [cvMapIdx_getElem?, List.getElem?_map]
  cases hl : l[n]? with
  | none => rfl
  | some a => simp [h n a hl]

theorem setData_df (L : LasCurves) (hwf : L.WF) (hn : 0 < L.sec.items.length) (r : Nat) (hr : 0 < r)
    (hlen : ∀ d ∈ L.data, d.length = r) (rows : List (List Cell)) (hrows : L.dataView = .ok rows) :
    L.setData rows (some (dfNames L)) false =
      (⟨Section.assignAll { L.sec with items := L.sec.items.map renameToSession }, L.data⟩, .ok) := by
  obtain ⟨hcol, hrowlen, hdl⟩ := C14_data_column L rows hrows
  have hdn : L.data.length = L.sec.items.length := hwf.symm
  -- there is at least one row, and every row has one cell per curve
  obtain ⟨d0, hd0⟩ : ∃ d0, d0 ∈ L.data := by
    cases hd : L.data with
    | nil => rw [hd] at hdn; simp at hdn; omega
    | cons d ds => exact ⟨d, by simp⟩
  have hrl : rows.length = r := by rw [← hdl d0 hd0, hlen d0 hd0]
  have hw : cvRowsWidth rows = L.sec.items.length := by
    cases hrw : rows with
    | nil => rw [hrw] at hrl; simp at hrl; omega
    | cons row rest =>
      show row.length = _
      rw [hrowlen row (by rw [hrw]; simp), hdn]
  unfold LasCurves.setData
  simp only [setDataRows, Bool.false_eq_true, if_false, hw, Nat.sub_self]
  have hpos : 0 < rows.length * L.sec.items.length := Nat.mul_pos (by omega) hn
  rw [if_pos hpos]
  unfold LasCurves.extend LasCurves.assignCols
  simp only [Nat.le_refl, if_true]
  -- the names
  have hkl : (dfNames L).length = L.sec.origs.length := by simp [dfNames, Section.keys, Section.origs]
  have hnames : effectiveNames L.sec.origs (some (dfNames L)) = dfNames L := by
    unfold effectiveNames
    cases hk : dfNames L with
    | nil =>
      exfalso
      have : (dfNames L).length = L.sec.items.length := by simp [dfNames, Section.keys]
      rw [hk] at this; simp at this; omega
    | cons k ks =>
      simp only []
      rw [← hk, hkl, Nat.sub_self]
      simp
  rw [hnames]
  have hitems : cvMapIdx (fun i it => if i ≤ L.sec.items.length then renameItem it ((dfNames L).getD i []) else it) 0
      L.sec.items = L.sec.items.map renameToSession := by
    apply cvMapIdx_eq_map
    intro n a ha
    have hlt : n < L.sec.items.length := (List.getElem?_eq_some_iff.mp ha).1
    have hk : (dfNames L)[n]? = some a.session := by
      simp [dfNames, Section.keys, List.getElem?_map, ha]
    simp only [Nat.zero_add]
    rw [if_pos (by omega), List.getD_eq_getElem?_getD, hk]
    rfl
  have hdata : cvMapIdx (fun i d => if i < L.sec.items.length then cvColumn rows i else d) 0 L.data = L.data := by
    rw [cvMapIdx_eq_map _ id]
    · simp
    · intro n d hd
      have hlt : n < L.data.length := (List.getElem?_eq_some_iff.mp hd).1
      simp only [Nat.zero_add, id]
      rw [if_pos (by omega)]
      exact hcol n d hd
  rw [hitems, hdata]

/-! ### the re-suffixing after the renaming -/

theorem renameToSession_orig (l : List Item) : (l.map renameToSession).map (·.orig) = l.map (·.session) := by
  simp [List.map_map, Function.comp_def, renameToSession, renameItem]

theorem countGroup_le_one_of_pairwise (tr : Bool) (l : List Item)
    (hp : l.Pairwise (fun a b => cmpStr tr (useful a.orig) (useful b.orig) = false)) (t : Str) :
    countGroup tr t l ≤ 1 := by
  induction l with
  | nil => simp [countGroup]
  | cons a l ih =>
    rw [List.pairwise_cons] at hp
    rw [countGroup_cons]
    by_cases ha : cmpStr tr (useful a.orig) t = true
    · have h0 : countGroup tr t l = 0 := by
        unfold countGroup
        rw [List.length_eq_zero_iff, List.filter_eq_nil_iff]
        intro b hb hbt
        have h1 := hp.1 b hb
        rw [cmpStr_true_iff] at ha hbt
        rw [cmpStr_false_iff] at h1
        exact h1 (ha.trans hbt.symm)
      simp [ha, h0]
    · have := ih hp.2
      simp [ha]; exact this

/-- when no two useful originals compare equal, `assign_duplicate_suffixes()` changes nothing -/
theorem assignAll_of_pairwise (s : Section)
    (hp : s.items.Pairwise (fun a b => cmpStr s.tr (useful a.orig) (useful b.orig) = false)) : s.assignAll = s := by
  apply cvSection_ext
  · apply List.ext_getElem?
    intro i
    rw [C14_assignAll_closed_form]
    cases hi : s.items[i]? with
    | none => rfl
    | some it =>
      have := countGroup_le_one_of_pairwise s.tr s.items hp (useful it.orig)
      simp only [Option.map_some]
      rw [if_neg (by omega)]
  · unfold Section.assignAll; rw [assignMany_tr]

end Lasio
