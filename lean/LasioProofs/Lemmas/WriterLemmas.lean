import LasioModel.Writer
import LasioProofs.Lemmas.HeaderLineLemmas
import LasioProofs.Props.C04
/-
Helper lemmas for C03 / C12 (header part of the writer and its inverse through the reader).
-/
deriving instance DecidableEq for Except

namespace Lasio

/-! ### `upper` / `lower` on every character (not only the harness alphabet) -/

theorem toNat_ofNat_small (k : Nat) (h : k < 0xD800) : (Char.ofNat k).toNat = k := by
  have hv : k.isValidChar := Or.inl h
  simp [Char.ofNat, hv, Char.toNat, Char.ofNatAux]

def InLower (n : Nat) : Prop :=
  (0x61 ≤ n ∧ n ≤ 0x7A) ∨ (0xE0 ≤ n ∧ n ≤ 0xFE ∧ n ≠ 0xF7) ∨ (0x430 ≤ n ∧ n ≤ 0x44F) ∨
  (0x3B1 ≤ n ∧ n ≤ 0x3C9 ∧ n ≠ 0x3C2)

/-- the value of `upperC` by ranges -/
theorem upperC_cases (c : Char) :
    (InLower c.toNat ∧ upperC c = Char.ofNat (c.toNat - 0x20)) ∨
    ((0x450 ≤ c.toNat ∧ c.toNat ≤ 0x45F) ∧ upperC c = Char.ofNat (c.toNat - 0x50)) ∨
    (¬ InLower c.toNat ∧ ¬ (0x450 ≤ c.toNat ∧ c.toNat ≤ 0x45F) ∧ upperC c = c) := by
  unfold upperC InLower
  dsimp only
  split
  · rename_i h; simp only [Bool.and_eq_true, decide_eq_true_eq] at h
    exact Or.inl ⟨Or.inl h, rfl⟩
  rename_i h1; simp only [Bool.and_eq_true, decide_eq_true_eq] at h1
  split
  · rename_i h; simp only [Bool.and_eq_true, decide_eq_true_eq, bne_iff_ne, ne_eq] at h
    exact Or.inl ⟨Or.inr (Or.inl ⟨h.1.1, h.1.2, h.2⟩), rfl⟩
  rename_i h2; simp only [Bool.and_eq_true, decide_eq_true_eq, bne_iff_ne, ne_eq] at h2
  split
  · rename_i h; simp only [Bool.and_eq_true, decide_eq_true_eq] at h
    exact Or.inl ⟨Or.inr (Or.inr (Or.inl h)), rfl⟩
  rename_i h3; simp only [Bool.and_eq_true, decide_eq_true_eq] at h3
  split
  · rename_i h; simp only [Bool.and_eq_true, decide_eq_true_eq] at h
    exact Or.inr (Or.inl ⟨h, rfl⟩)
  rename_i h4; simp only [Bool.and_eq_true, decide_eq_true_eq] at h4
  split
  · rename_i h; simp only [Bool.and_eq_true, decide_eq_true_eq, bne_iff_ne, ne_eq] at h
    exact Or.inl ⟨Or.inr (Or.inr (Or.inr ⟨h.1.1, h.1.2, h.2⟩)), rfl⟩
  rename_i h5; simp only [Bool.and_eq_true, decide_eq_true_eq, bne_iff_ne, ne_eq] at h5
  refine Or.inr (Or.inr ⟨?_, h4, rfl⟩)
  rintro (h | h | h | h)
  · exact h1 h
  · exact h2 ⟨⟨h.1, h.2.1⟩, h.2.2⟩
  · exact h3 h
  · exact h5 ⟨⟨h.1, h.2.1⟩, h.2.2⟩

theorem upperC_fix (d : Char) (h1 : ¬ InLower d.toNat) (h2 : ¬ (0x450 ≤ d.toNat ∧ d.toNat ≤ 0x45F)) :
    upperC d = d := by
  rcases upperC_cases d with ⟨h, _⟩ | ⟨h, _⟩ | ⟨_, _, h⟩
  · exact absurd h h1
  · exact absurd h h2
  · exact h

theorem upperC_fix_ofNat (k : Nat) (hk : k < 0xD800) (h1 : ¬ InLower k) (h2 : ¬ (0x450 ≤ k ∧ k ≤ 0x45F)) :
    upperC (Char.ofNat k) = Char.ofNat k := by
  apply upperC_fix <;> rw [toNat_ofNat_small k hk] <;> assumption

theorem upperC_idem (c : Char) : upperC (upperC c) = upperC c := by
  rcases upperC_cases c with ⟨h, e⟩ | ⟨h, e⟩ | ⟨h1, h2, e⟩
  · rw [e]
    unfold InLower at h
    apply upperC_fix_ofNat <;> (try unfold InLower) <;> omega
  · rw [e]
    apply upperC_fix_ofNat <;> (try unfold InLower) <;> omega
  · rw [e, e]

theorem upper_idem (s : Str) : upper (upper s) = upper s := by
  simp [upper, List.map_map, Function.comp_def, upperC_idem]

def InUpper (n : Nat) : Prop :=
  (0x41 ≤ n ∧ n ≤ 0x5A) ∨ (0xC0 ≤ n ∧ n ≤ 0xDE ∧ n ≠ 0xD7) ∨ (0x410 ≤ n ∧ n ≤ 0x42F) ∨
  (0x391 ≤ n ∧ n ≤ 0x3A9 ∧ n ≠ 0x3A2)

theorem lowerC_cases (c : Char) :
    (InUpper c.toNat ∧ lowerC c = Char.ofNat (c.toNat + 0x20)) ∨
    ((0x400 ≤ c.toNat ∧ c.toNat ≤ 0x40F) ∧ lowerC c = Char.ofNat (c.toNat + 0x50)) ∨
    (lowerC c = c) := by
  unfold lowerC InUpper
  dsimp only
  split
  · rename_i h; simp only [Bool.and_eq_true, decide_eq_true_eq] at h
    exact Or.inl ⟨Or.inl h, rfl⟩
  split
  · rename_i h; simp only [Bool.and_eq_true, decide_eq_true_eq, bne_iff_ne, ne_eq] at h
    exact Or.inl ⟨Or.inr (Or.inl ⟨h.1.1, h.1.2, h.2⟩), rfl⟩
  split
  · rename_i h; simp only [Bool.and_eq_true, decide_eq_true_eq] at h
    exact Or.inl ⟨Or.inr (Or.inr (Or.inl h)), rfl⟩
  split
  · rename_i h; simp only [Bool.and_eq_true, decide_eq_true_eq] at h
    exact Or.inr (Or.inl ⟨h, rfl⟩)
  split
  · rename_i h; simp only [Bool.and_eq_true, decide_eq_true_eq, bne_iff_ne, ne_eq] at h
    exact Or.inl ⟨Or.inr (Or.inr (Or.inr ⟨h.1.1, h.1.2, h.2⟩)), rfl⟩
  exact Or.inr (Or.inr rfl)

theorem upperC_lowerC (c : Char) : upperC (lowerC c) = upperC c := by
  rcases lowerC_cases c with ⟨h, e⟩ | ⟨h, e⟩ | e
  · have hc : upperC c = c := by
      apply upperC_fix <;> (try unfold InLower) <;> unfold InUpper at h <;> omega
    rw [e, hc]
    unfold InUpper at h
    rcases upperC_cases (Char.ofNat (c.toNat + 0x20)) with ⟨_, e2⟩ | ⟨h2, _⟩ | ⟨h2, _, _⟩
    · rw [e2, toNat_ofNat_small _ (by omega), Nat.add_sub_cancel, Char.ofNat_toNat]
    · rw [toNat_ofNat_small _ (by omega)] at h2; omega
    · rw [toNat_ofNat_small _ (by omega)] at h2
      exfalso; apply h2; unfold InLower; omega
  · have hc : upperC c = c := by
      apply upperC_fix <;> (try unfold InLower) <;> omega
    rw [e, hc]
    rcases upperC_cases (Char.ofNat (c.toNat + 0x50)) with ⟨h2, _⟩ | ⟨_, e2⟩ | ⟨_, h2, _⟩
    · rw [toNat_ofNat_small _ (by omega)] at h2; unfold InLower at h2; omega
    · rw [e2, toNat_ofNat_small _ (by omega), Nat.add_sub_cancel, Char.ofNat_toNat]
    · rw [toNat_ofNat_small _ (by omega)] at h2; omega
  · rw [e]

theorem upper_lower (s : Str) : upper (lower s) = upper s := by
  simp [upper, lower, List.map_map, Function.comp_def, upperC_lowerC]

end Lasio

namespace Lasio.Wr

/-! ### widths -/

theorem le_maxList {l : List Nat} {x : Nat} (h : x ∈ l) : x ≤ maxList l := by
  induction l with
  | nil => cases h
  | cons a l ih =>
    simp only [maxList, List.foldr_cons]
    rcases List.mem_cons.mp h with rfl | h
    · exact Nat.le_max_left _ _
    · exact Nat.le_trans (ih h) (Nat.le_max_right _ _)

theorem sectionWidths_left (ord : Str → Order) (items : List WItem) (it : WItem) (h : it ∈ items) :
    it.orig.length ≤ (sectionWidths ord items).left := by
  have hne : items.isEmpty = false := by cases items <;> simp_all
  simp only [sectionWidths, hne]
  exact le_maxList (List.mem_map.mpr ⟨it, h, rfl⟩)

theorem sectionWidths_middle (ord : Str → Order) (items : List WItem) (it : WItem) (h : it ∈ items) :
    it.unit.length + 1 + (rhsOf (ord it.orig) it).length ≤ (sectionWidths ord items).middle := by
  have hne : items.isEmpty = false := by cases items <;> simp_all
  simp only [sectionWidths, hne]
  exact le_maxList (List.mem_map.mpr ⟨it, h, rfl⟩)

/-! ### the order table -/

theorem sectionOrders_mem {v s : String} {d : String} {rows : List (String × List String)}
    (h : sectionOrders v s = some (d, rows)) :
    (v, s, d, rows) ∈ Generated.orderDefinitions := by
  unfold sectionOrders at h
  rcases hf : (versionRows v).find? (·.2.1 == s) with _ | r
  · simp [hf] at h
  · simp only [hf, Option.map_some, Option.some.injEq, Prod.mk.injEq] at h
    have hm := List.mem_of_find?_eq_some hf
    have hp := List.find?_some hf
    unfold versionRows at hm
    rw [List.mem_filter] at hm
    obtain ⟨hm, hv⟩ := hm
    obtain ⟨r1, r2, r3, r4⟩ := r
    simp only [beq_iff_eq] at hv hp
    simp only at h
    obtain ⟨h3, h4⟩ := h
    subst hv hp h3 h4
    exact hm

theorem versionPresent_of_sectionOrders {v s : String} {x} (h : sectionOrders v s = some x) :
    versionPresent v = true := by
  unfold sectionOrders at h
  rcases hf : (versionRows v).find? (·.2.1 == s) with _ | r
  · simp [hf] at h
  · have hm := List.mem_of_find?_eq_some hf
    unfold versionPresent
    cases hr : versionRows v with
    | nil => rw [hr] at hm; cases hm
    | cons a l => rfl

theorem versionPresent_of_orderOf {v s : String} {m : Str} {o : Order} (h : orderOf v s m = .ok o) :
    versionPresent v = true := by
  unfold orderOf at h
  rcases hs : sectionOrders v s with _ | x
  · simp [hs] at h
  · exact versionPresent_of_sectionOrders hs

/-- reader-side lookup = writer-side lookup for the four known section kinds -/
theorem readerOrderOf_eq (v : String) (kind : SecName) (hk : kind ≠ .other) (m : Str) :
    readerOrderOf v kind m = orderOf v (secKey kind) m := by
  unfold readerOrderOf orderOf
  by_cases hp : versionPresent v = true
  · cases kind <;> simp_all
  · have hn : sectionOrders v (secKey kind) = none := by
      rcases hs : sectionOrders v (secKey kind) with _ | x
      · rfl
      · exact absurd (versionPresent_of_sectionOrders hs) hp
    simp [hp, hn]

/-- every row of ~Curves / ~Parameter is "value:descr" without exceptions (checked on the generated table) -/
theorem table_curves_parameter :
    Generated.orderDefinitions.all (fun r =>
      !(r.2.1 == "Curves" || r.2.1 == "Parameter") || (r.2.2.1 == "value:descr" && r.2.2.2.isEmpty)) = true := by
  decide

/-- every order string of the table is one of the two the code understands -/
theorem table_orders_parse :
    Generated.orderDefinitions.all (fun r =>
      (parseOrder r.2.2.1).isSome && r.2.2.2.all (fun x => (parseOrder x.1).isSome)) = true := by
  decide

/-- every version of the table defines the four sections -/
theorem table_sections_complete :
    Generated.orderDefinitions.all (fun r =>
      ["Version", "Well", "Curves", "Parameter"].all (fun s => (sectionOrders r.1 s).isSome)) = true := by
  decide

theorem orderOf_fixed (v s : String) (hs : s = "Curves" ∨ s = "Parameter") (m : Str) (o : Order)
    (h : orderOf v s m = .ok o) : o = .valueDescr := by
  unfold orderOf at h
  rcases hso : sectionOrders v s with _ | ⟨d, rows⟩
  · simp [hso] at h
  · have hm := sectionOrders_mem hso
    have ht := List.all_eq_true.mp table_curves_parameter _ hm
    have hcp : (s == "Curves" || s == "Parameter") = true := by
      rcases hs with rfl | rfl <;> decide
    simp only [hcp, Bool.not_true, Bool.false_or, Bool.and_eq_true, beq_iff_eq, List.isEmpty_iff] at ht
    obtain ⟨hd, hr⟩ := ht
    subst hd hr
    simp only [hso, ordersGet2, ordersGet, List.foldl_nil, Option.getD_none] at h
    have : parseOrder "value:descr" = some .valueDescr := by decide
    rw [this] at h
    cases h
    rfl

theorem ordersGet_mem (rows : List (String × List String)) (m : Str) (s : String)
    (h : ordersGet rows m = some s) : ∃ r ∈ rows, r.1 = s ∧ ∃ x ∈ r.2, x.toList = m := by
  unfold ordersGet at h
  have gen : ∀ (rows : List (String × List String)) (acc : Option String),
      rows.foldl (fun acc r => if r.2.any (fun x => x.toList == m) then some r.1 else acc) acc = some s →
      acc = some s ∨ ∃ r ∈ rows, r.1 = s ∧ ∃ x ∈ r.2, x.toList = m := by
    intro rows
    induction rows with
    | nil => intro acc h; exact Or.inl h
    | cons r rows ih =>
      intro acc h
      simp only [List.foldl_cons] at h
      rcases ih _ h with h1 | ⟨r', hr', e⟩
      · split at h1
        · rename_i hany
          obtain ⟨x, hx, hxe⟩ := List.any_eq_true.mp hany
          exact Or.inr ⟨r, by simp, by simpa using h1, x, hx, by simpa using hxe⟩
        · exact Or.inl h1
      · exact Or.inr ⟨r', by simp [hr'], e⟩
  rcases gen rows none h with h1 | h1
  · cases h1
  · exact h1

theorem ordersGet2_mem (rows : List (String × List String)) (m : Str) (s : String)
    (h : ordersGet2 rows m = some s) : ∃ r ∈ rows, r.1 = s := by
  unfold ordersGet2 at h
  split at h
  · rename_i s' hs
    cases h
    obtain ⟨r, hr, e, _⟩ := ordersGet_mem rows m s hs
    exact ⟨r, hr, e⟩
  · obtain ⟨r, hr, e, _⟩ := ordersGet_mem rows _ s h
    exact ⟨r, hr, e⟩

/-- the exception keys of every section are closed under `upper`, with the same order (checked on the
generated table): `STRT`/`strt` … all map to the order of `STRT` … -/
theorem table_upper_closed :
    Generated.orderDefinitions.all (fun r => r.2.2.2.all (fun row => row.2.all (fun k =>
      ordersGet r.2.2.2 (upper k.toList) == ordersGet r.2.2.2 k.toList))) = true := by
  decide

/-- on such a table the two-step lookup is the lookup of the upper-cased mnemonic -/
theorem ordersGet2_eq_upper (rows : List (String × List String))
    (hcl : rows.all (fun row => row.2.all (fun k => ordersGet rows (upper k.toList) == ordersGet rows k.toList)) = true)
    (m : Str) : ordersGet2 rows m = ordersGet rows (upper m) := by
  unfold ordersGet2
  split
  · rename_i s hs
    obtain ⟨r, hr, _, x, hx, hxm⟩ := ordersGet_mem rows m s hs
    have := List.all_eq_true.mp (List.all_eq_true.mp hcl r hr) x hx
    simp only [beq_iff_eq] at this
    rw [hxm] at this
    rw [this, hs]
  · rfl

/-- the order depends on the mnemonic only through its upper-cased form -/
theorem orderOf_upper (v s : String) (m m' : Str) (h : upper m = upper m') : orderOf v s m = orderOf v s m' := by
  unfold orderOf
  rcases hso : sectionOrders v s with _ | ⟨d, rows⟩
  · rfl
  · have hm := sectionOrders_mem hso
    have hcl := List.all_eq_true.mp table_upper_closed _ hm
    simp only [ordersGet2_eq_upper rows hcl, h]

/-- reader and writer agree under every `mnemonic_case` -/
theorem orderOf_caseMap (v s : String) (c : MCase) (m : Str) : orderOf v s (caseMap c m) = orderOf v s m := by
  apply orderOf_upper
  cases c
  · rfl
  · exact upper_idem m
  · exact upper_lower m

/-- a version present in the table gives a usable order for every section and every mnemonic -/
theorem orderOf_total (v : String) (hv : versionPresent v = true) (s : String)
    (hs : s ∈ ["Version", "Well", "Curves", "Parameter"]) (m : Str) : ∃ o, orderOf v s m = .ok o := by
  -- some row of version v exists
  unfold versionPresent at hv
  rcases hr : versionRows v with _ | ⟨r, l⟩
  · simp [hr] at hv
  · have hrm : r ∈ versionRows v := by rw [hr]; simp
    unfold versionRows at hrm
    rw [List.mem_filter] at hrm
    obtain ⟨hrm, hrv⟩ := hrm
    simp only [beq_iff_eq] at hrv
    have hc := List.all_eq_true.mp table_sections_complete _ hrm
    have hc2 := List.all_eq_true.mp hc s hs
    rw [hrv] at hc2
    rcases hso : sectionOrders v s with _ | ⟨d, rows⟩
    · simp [hso] at hc2
    · have hm := sectionOrders_mem hso
      have hp := List.all_eq_true.mp table_orders_parse _ hm
      simp only [Bool.and_eq_true] at hp
      obtain ⟨hp1, hp2⟩ := hp
      unfold orderOf
      simp only [hso]
      have : (parseOrder ((ordersGet2 rows m).getD d)).isSome = true := by
        rcases hg : ordersGet2 rows m with _ | s'
        · simpa using hp1
        · obtain ⟨r', hr', e⟩ := ordersGet2_mem rows m s' hg
          have := List.all_eq_true.mp hp2 r' hr'
          simpa [e] using this
      rcases hpo : parseOrder ((ordersGet2 rows m).getD d) with _ | o
      · simp [hpo] at this
      · exact ⟨o, rfl⟩

/-! ### strip facts -/

theorem head_nospace_of_strip {s : Str} (h : strip s = s) : ∀ c, s.head? = some c → isPySpace c = false := by
  intro c hc
  cases s with
  | nil => cases hc
  | cons a t =>
    simp only [List.head?_cons, Option.some.injEq] at hc
    subst hc
    rcases hsp : isPySpace a with _ | _
    · rfl
    exfalso
    -- lstrip drops `a`, so the result is shorter
    have hlen : (strip (a :: t)).length ≤ t.length := by
      unfold strip rstrip lstrip
      simp only [List.dropWhile_cons, hsp, if_true, List.length_reverse]
      exact Nat.le_trans (List.dropWhile_sublist _).length_le (by
        simp only [List.length_reverse]; exact (List.dropWhile_sublist _).length_le)
    rw [h] at hlen
    simp at hlen
    omega

theorem last_nospace_of_strip {s : Str} (h : strip s = s) : ∀ c, s.getLast? = some c → isPySpace c = false := by
  intro c hc
  rcases hsp : isPySpace c with _ | _
  · rfl
  exfalso
  -- s = init ++ [c]; rstrip removes c
  have hne : s ≠ [] := by rintro rfl; cases hc
  obtain ⟨init, rfl⟩ : ∃ init, s = init ++ [c] := List.getLast?_eq_some_iff.mp hc
  have hlen : (strip (init ++ [c])).length ≤ init.length := by
    unfold strip
    have h1 : (rstrip (lstrip (init ++ [c]))).length ≤ (rstrip (init ++ [c])).length := by
      -- lstrip s is a suffix: s = pre ++ lstrip s with pre all spaces, rstrip of a suffix is no longer
      unfold lstrip
      have hsplit : init ++ [c] = (init ++ [c]).takeWhile isPySpace ++ (init ++ [c]).dropWhile isPySpace :=
        (List.takeWhile_append_dropWhile).symm
      generalize hd : (init ++ [c]).dropWhile isPySpace = d at hsplit
      generalize (init ++ [c]).takeWhile isPySpace = pre at hsplit
      rw [hsplit]
      unfold rstrip
      simp only [List.length_reverse, List.reverse_append]
      rw [List.dropWhile_append]
      split
      · rename_i he
        have : d.reverse.dropWhile isPySpace = [] := by simpa using he
        simp [this]
      · simp
    have h2 : (rstrip (init ++ [c])).length ≤ init.length := by
      unfold rstrip
      simp only [List.reverse_append, List.reverse_cons, List.reverse_nil, List.nil_append,
        List.singleton_append, List.dropWhile_cons, hsp, if_true, List.length_reverse]
      exact Nat.le_trans (List.dropWhile_sublist _).length_le (by simp)
    exact Nat.le_trans h1 h2
  rw [h] at hlen
  simp at hlen
  omega

/-! ### the written line as a C04 layout -/

/-- the four fields in the order they stand on the written line -/
def lineFields (o : Order) (it : WItem) : Fields := ⟨it.orig, it.unit, rhsOf o it, lastOf o it⟩

/-- what the reader is expected to return for a written item -/
def expected (c : MCase) (it : WItem) : RItem := ⟨caseMap c it.orig, it.unit, it.value.text, it.descr⟩

theorem blank_replicate (n : Nat) : Blank (List.replicate n ' ') :=
  fun _ h => Or.inl (List.eq_of_mem_replicate h)

theorem blank_nil : Blank [] := fun _ h => by cases h
theorem blank_one : Blank [' '] := fun c h => Or.inl (by simpa using h)

theorem formatItem_layout (o : Order) (W : Widths) (it : WItem) :
    formatItem o W it = layout (lineFields o it) [] (List.replicate (W.left - it.orig.length) ' ')
      (List.replicate (W.middle - it.unit.length - (rhsOf o it).length) ' ') [' '] [' '] [] := by
  simp [formatItem, layout, lineFields, ljust]

theorem sepOk_blank_nil (r : Str) : sepOk (' ' :: r) [] = true := by
  rcases r with _ | ⟨c2, _ | ⟨c1, r⟩⟩ <;> simp [sepOk]
  all_goals decide

/-- the paddings the writer produces satisfy C04's `PadOK` -/
theorem padOK_writer (kind : SecName) (f : Fields) (p1 p2 p4 : Str)
    (b1 : Blank p1) (b2 : Blank p2) (b4 : Blank p4)
    (hsep : f.value ≠ [] → p2 ≠ []) (hnum : f.unit = [] ∨ ¬ allDigits f.unit)
    (h4 : f.descr ≠ [] → p4 ≠ []) : PadOK kind f [] p1 p2 [' '] p4 [] where
  blanks := ⟨blank_nil, b1, b2, blank_one, b4, blank_nil⟩
  value_sep := hsep
  digit_unit := fun hne hd => by rcases hnum with h | h; exact absurd h hne; exact absurd hd h
  param_descr_colon := fun _ ⟨c, hc, _⟩ =>
    ⟨by simp, h4 (by intro h; rw [h] at hc; cases hc)⟩
  param_unit_colon := fun _ _ => by
    by_cases hp : p4 = []
    · by_cases hd : f.descr = []
      · subst hp
        rw [hd]
        simp only [List.append_nil, List.reverse_append, List.reverse_cons, List.reverse_nil, List.nil_append,
          List.cons_append]
        exact sepOk_blank_nil _
      · exact absurd hp (h4 hd)
    · exact C04_param_unit_colon_of_blanks f [] p1 p2 [' '] p4 [] (by simp) hp blank_one b4
  param_digit_unit := fun _ hne hd _ => by rcases hnum with h | h; exact absurd h hne; exact absurd hd h

theorem stripBrackets_id (u : Str) (hsp : ∀ c ∈ u, isPySpace c = false) (hbr : isBracketed u = false) :
    stripBrackets u = u := by
  simp [stripBrackets, strip_nospace u hsp, hbr]

/-- parsing a line laid out as the writer does gives the item back -/
theorem readItem_layout (v : String) (kind : SecName) (c : MCase) (o : Order) (it : WItem) (p1 p2 p4 : Str)
    (hkind : kind ≠ .other) (hw : orderOf v (secKey kind) it.orig = .ok o)
    (hconf : Conf kind (lineFields o it)) (hnum : it.unit = [] ∨ ¬ allDigits it.unit)
    (hbr : isBracketed it.unit = false)
    (b1 : Blank p1) (b2 : Blank p2) (b4 : Blank p4)
    (hsep : rhsOf o it ≠ [] → p2 ≠ []) (h4 : lastOf o it ≠ [] → p4 ≠ []) :
    readItem v kind c (layout (lineFields o it) [] p1 p2 [' '] p4 []) = some (expected c it) := by
  have hp := C04_main_all kind (lineFields o it) [] p1 p2 [' '] p4 [] hconf
    (padOK_writer kind (lineFields o it) p1 p2 p4 b1 b2 b4 hsep hnum h4)
  have hsb : stripBrackets it.unit = it.unit := stripBrackets_id _ hconf.unit_nosp hbr
  unfold readItem
  rw [versionPresent_of_orderOf hw, hp]
  simp only [Bool.not_true, Bool.false_eq_true, if_false, lineFields, hsb]
  cases kind with
  | other => exact absurd rfl hkind
  | curves =>
    have := orderOf_fixed v "Curves" (Or.inl rfl) _ _ hw
    subst this
    rfl
  | parameter =>
    have := orderOf_fixed v "Parameter" (Or.inr rfl) _ _ hw
    subst this
    rfl
  | version =>
    simp only [readerOrderOf_eq v .version (by decide), orderOf_caseMap, hw]
    cases o <;> rfl
  | well =>
    simp only [readerOrderOf_eq v .well (by decide), orderOf_caseMap, hw]
    cases o <;> rfl

theorem getLast?_append_ne (X L : Str) (h : L ≠ []) : (X ++ L).getLast? = L.getLast? := by
  rw [List.getLast?_append]
  cases hL : L.getLast? with
  | none => exact absurd (List.getLast?_eq_none_iff.mp hL) h
  | some x => rfl

/-- the line as the reader sees it (`line.strip("\n").strip()`): only the blank after the colon can go -/
theorem strip_formatItem (o : Order) (W : Widths) (it : WItem)
    (hne : it.orig ≠ []) (hs : strip it.orig = it.orig) (hl : strip (lastOf o it) = lastOf o it) :
    strip (formatItem o W it) = layout (lineFields o it) [] (List.replicate (W.left - it.orig.length) ' ')
      (List.replicate (W.middle - it.unit.length - (rhsOf o it).length) ' ') [' ']
      (if lastOf o it = [] then [] else [' ']) [] := by
  obtain ⟨a, t, hat⟩ : ∃ a t, it.orig = a :: t := by
    cases h : it.orig with
    | nil => exact absurd h hne
    | cons a t => exact ⟨a, t, rfl⟩
  have ha : isPySpace a = false := head_nospace_of_strip hs a (by rw [hat]; rfl)
  by_cases hlast : lastOf o it = []
  · simp only [hlast, if_true]
    have e : formatItem o W it =
        [] ++ layout (lineFields o it) [] (List.replicate (W.left - it.orig.length) ' ')
          (List.replicate (W.middle - it.unit.length - (rhsOf o it).length) ' ') [' '] [] [] ++ [' '] := by
      simp [formatItem, layout, lineFields, ljust, hlast]
    rw [e, strip_pad _ _ _ (by simp) (by simp; decide)]
    apply strip_eq_self
    · intro ch hch
      simp only [layout, lineFields, hat, List.nil_append, List.cons_append, List.head?_cons,
        Option.some.injEq] at hch
      subst hch; exact ha
    · intro ch hch
      have : (layout (lineFields o it) [] (List.replicate (W.left - it.orig.length) ' ')
          (List.replicate (W.middle - it.unit.length - (rhsOf o it).length) ' ') [' '] [] []).getLast? =
          some ':' := by
        rw [show layout (lineFields o it) [] (List.replicate (W.left - it.orig.length) ' ')
            (List.replicate (W.middle - it.unit.length - (rhsOf o it).length) ' ') [' '] [] [] =
            (it.orig ++ List.replicate (W.left - it.orig.length) ' ' ++ '.' :: (it.unit ++
              List.replicate (W.middle - it.unit.length - (rhsOf o it).length) ' ' ++ rhsOf o it ++ [' '])) ++ [':']
            by simp [layout, lineFields, hlast]]
        exact List.getLast?_concat
      rw [this] at hch
      cases hch
      decide
  · simp only [hlast, if_false]
    rw [formatItem_layout]
    apply strip_eq_self
    · intro ch hch
      simp only [layout, lineFields, hat, List.nil_append, List.cons_append, List.head?_cons,
        Option.some.injEq] at hch
      subst hch; exact ha
    · intro ch hch
      have : (layout (lineFields o it) [] (List.replicate (W.left - it.orig.length) ' ')
          (List.replicate (W.middle - it.unit.length - (rhsOf o it).length) ' ') [' '] [' '] []).getLast? =
          (lastOf o it).getLast? := by
        rw [show layout (lineFields o it) [] (List.replicate (W.left - it.orig.length) ' ')
            (List.replicate (W.middle - it.unit.length - (rhsOf o it).length) ' ') [' '] [' '] [] =
            (it.orig ++ List.replicate (W.left - it.orig.length) ' ' ++ '.' :: (it.unit ++
              List.replicate (W.middle - it.unit.length - (rhsOf o it).length) ' ' ++ rhsOf o it ++
              [' ', ':', ' '])) ++ lastOf o it
            by simp [layout, lineFields]]
        exact getLast?_append_ne _ _ hlast
      rw [this] at hch
      exact last_nospace_of_strip hl ch hch

theorem layout_head (f : Fields) (a : Char) (t : Str) (h : f.name = a :: t) (p1 p2 p3 p4 p5 : Str) :
    ∃ tl, layout f [] p1 p2 p3 p4 p5 = a :: tl :=
  ⟨t ++ p1 ++ '.' :: (f.unit ++ p2 ++ f.value ++ p3 ++ ':' :: (p4 ++ f.descr ++ p5)), by simp [layout, h]⟩

/-- one iteration of the reader's loop on a written line -/
theorem readLine_formatItem (v : String) (kind : SecName) (c : MCase) (o : Order) (W : Widths) (it : WItem)
    (hkind : kind ≠ .other) (hw : orderOf v (secKey kind) it.orig = .ok o)
    (hconf : Conf kind (lineFields o it)) (hnum : it.unit = [] ∨ ¬ allDigits it.unit)
    (hbr : isBracketed it.unit = false)
    (hpad : rhsOf o it ≠ [] → 1 ≤ W.middle - it.unit.length - (rhsOf o it).length)
    (hmark : it.orig.head? ≠ some '#' ∧ it.orig.head? ≠ some '~') :
    readLine v kind c (formatItem o W it) = .item (expected c it) := by
  have hne : it.orig ≠ [] := hconf.name_ne
  have hr := readItem_layout v kind c o it (List.replicate (W.left - it.orig.length) ' ')
    (List.replicate (W.middle - it.unit.length - (rhsOf o it).length) ' ')
    (if lastOf o it = [] then [] else [' ']) hkind hw hconf hnum hbr
    (blank_replicate _) (blank_replicate _) (by split; exact blank_nil; exact blank_one)
    (by
      intro h1 h2
      have := hpad h1
      have hl := congrArg List.length h2
      simp at hl
      omega)
    (by intro h; simp [h])
  obtain ⟨a, t, hat⟩ : ∃ a t, it.orig = a :: t := by
    cases h : it.orig with
    | nil => exact absurd h hne
    | cons a t => exact ⟨a, t, rfl⟩
  obtain ⟨tl, htl⟩ := layout_head (lineFields o it) a t hat (List.replicate (W.left - it.orig.length) ' ')
    (List.replicate (W.middle - it.unit.length - (rhsOf o it).length) ' ') [' ']
    (if lastOf o it = [] then [] else [' ']) []
  have h1 : a ≠ '#' := by intro h; exact hmark.1 (by rw [hat, h]; rfl)
  have h2 : a ≠ '~' := by intro h; exact hmark.2 (by rw [hat, h]; rfl)
  unfold readLine
  rw [strip_formatItem o W it hne hconf.name_strip hconf.descr_strip]
  rw [htl] at hr ⊢
  simp [h1, h2, hr]

/-! ### `str.splitlines` -/

theorem splitlinesAux_ne_nil (s acc : Str) (h : s ≠ [] ∨ acc ≠ []) : splitlinesAux s acc ≠ [] := by
  induction s generalizing acc with
  | nil =>
    rcases h with h | h
    · exact absurd rfl h
    · cases acc with
      | nil => exact absurd rfl h
      | cons a t => simp [splitlinesAux]
  | cons ch rest ih =>
    by_cases hcr : ∃ r, ch = '\r' ∧ rest = '\n' :: r
    · obtain ⟨r, rfl, rfl⟩ := hcr
      simp [splitlinesAux]
    · have e : splitlinesAux (ch :: rest) acc =
          if isLineBreak ch then acc.reverse :: splitlinesAux rest [] else splitlinesAux rest (ch :: acc) := by
        rw [splitlinesAux]
        intro r h1 h2
        exact hcr ⟨r, h1, h2⟩
      rw [e]
      split
      · simp
      · exact ih _ (Or.inr (by simp))

theorem splitlinesAux_join (s acc : Str) (h1 : ∀ c ∈ s, isLineBreak c = true → c = '\n')
    (h2 : (acc.reverse ++ s).getLast? ≠ some '\n') :
    joinWith ['\n'] (splitlinesAux s acc) = acc.reverse ++ s := by
  induction s generalizing acc with
  | nil =>
    cases acc with
    | nil => rfl
    | cons a t => simp [splitlinesAux, joinWith]
  | cons ch rest ih =>
    by_cases hb : isLineBreak ch = true
    · have hch : ch = '\n' := h1 ch (by simp) hb
      subst hch
      have hrest : rest ≠ [] := by
        rintro rfl
        exact h2 (by simp)
      have e : splitlinesAux ('\n' :: rest) acc = acc.reverse :: splitlinesAux rest [] := by
        rw [splitlinesAux]
        · simp [hb]
        · intro r hr; cases hr
      rw [e]
      have hne := splitlinesAux_ne_nil rest [] (Or.inl hrest)
      have ih' := ih [] (fun c hc => h1 c (by simp [hc])) (by
        intro hl
        apply h2
        rw [List.getLast?_append]
        simp only [List.reverse_nil, List.nil_append] at hl
        rw [List.getLast?_cons_of_ne_nil hrest] at *
        simp [hl])
      cases hsl : splitlinesAux rest [] with
      | nil => exact absurd hsl hne
      | cons x xs =>
        rw [hsl] at ih'
        simp only [joinWith]
        rw [ih']
        simp only [List.reverse_nil, List.nil_append, List.append_assoc, List.cons_append]
    · have hb' : isLineBreak ch = false := by simpa using hb
      have e : splitlinesAux (ch :: rest) acc = splitlinesAux rest (ch :: acc) := by
        rw [splitlinesAux]
        · simp [hb']
        · intro r hr _
          subst hr
          exact absurd hb' (by decide)
      rw [e, ih (ch :: acc) (fun c hc => h1 c (by simp [hc])) (by simpa using h2)]
      simp

end Lasio.Wr
