import LasioProofs.Props.C01
/-
Helper lemmas for C11Data: the DATA half of the load/save cycle.

`rows` is the matrix of binary64 samples `write` prints; `Rt.tokenRows c null rows` the matrix of written tokens.  The reader turns
a token into a canonical float text through the float table `ft` (Python's `float()`), replaces a float `==` the header NULL `nv`
by NaN outside column 0 (strict NULL policy), and `val : Str → Option Dw.F64` says which binary64 a canonical float text denotes.
`reRows` is the matrix read back (cycle 1); writing it again gives `Rt.tokenRows c null (reRows … rows)` (cycle 2).
-/
namespace Lasio.Cd
open Lasio

/-! ## definitions -/

/-- what the reader makes of the token `tok` standing in column `j`: its float text, NULL → NaN outside the index column -/
def readTxt (ft : Dt.FloatTable) (nv : Str) (j : Nat) (tok : Str) : Option Str :=
  (Dt.toFloat ft tok).map fun v => if j != 0 && Dt.feq v nv then Dt.nanTxt else v

/-- the binary64 read back for the token `tok` of column `j` (NaN when the token is no number or its text denotes no binary64:
excluded by the hypotheses of every theorem) -/
def reTok (ft : Dt.FloatTable) (val : Str → Option Dw.F64) (nv : Str) (j : Nat) (tok : Str) : Dw.F64 :=
  ((readTxt ft nv j tok).bind val).getD .nan

/-- one sample through write -> read -/
def reCell (ft : Dt.FloatTable) (val : Str → Option Dw.F64) (null nv : Str) (c : Dw.RowCfg) (j : Nat) (x : Dw.F64) : Dw.F64 :=
  reTok ft val nv j (Dw.cellToken null (c.colFmt j) x)

def reRowFrom (ft : Dt.FloatTable) (val : Str → Option Dw.F64) (null nv : Str) (c : Dw.RowCfg) : Nat → List Dw.F64 → List Dw.F64
  | _, [] => []
  | j, x :: xs => reCell ft val null nv c j x :: reRowFrom ft val null nv c (j + 1) xs

/-- **the re-read matrix**: every sample printed with the format of its column, read by `float()`, NULL-ed, and taken as the
binary64 its float text denotes -/
def reRows (ft : Dt.FloatTable) (val : Str → Option Dw.F64) (null nv : Str) (c : Dw.RowCfg) (rows : List (List Dw.F64)) :
    List (List Dw.F64) :=
  rows.map (reRowFrom ft val null nv c 0)

/-- **`y` is a binary64 that `float()` may return for the `%.Nf` token of `x`**: `x` itself, or a finite value of the same sign
strictly within half a unit of the last printed digit of the printed decimal (the hypothesis of `C01_fmt_stable` /
`C11_fmt_stable`); `inf` ↦ `inf`, `-inf` ↦ `-inf`.  Correctly rounded `strtod` returns the binary64 NEAREST to the decimal, and
`x` lies within half a unit of it (`C01_value`): so the result is `x`, or strictly closer than `x`. -/
def Near (N : Nat) (x y : Dw.F64) : Prop :=
  match x with
  | .finite neg m e => y = x ∨ ∃ m' e', y = .finite neg m' e' ∧
      2 * ((Dw.fixedUnits N m e : Int) * 2 ^ (-e').toNat - m' * 2 ^ e'.toNat * 10 ^ N).natAbs < 2 ^ (-e').toNat
  | .inf neg => y = .inf neg
  | .nan => y = .nan

/-- what is asked of the NULL: its text converts to the header NULL value `nv`, `nv == nv`, and the text `nan` denotes NaN -/
structure ReadOK (ft : Dt.FloatTable) (val : Str → Option Dw.F64) (null nv : Str) : Prop where
  null_val : Dt.toFloat ft null = some nv
  null_num : Dt.feq nv nv = true
  nan_val : val Dt.nanTxt = some .nan

/-- **the strtod assumption, on the cells of the matrix**: the token of every sample that is not NaN converts, and the binary64
its float text denotes is `Near` the sample -/
def StrtodClose (ft : Dt.FloatTable) (val : Str → Option Dw.F64) (c : Dw.RowCfg) (rows : List (List Dw.F64)) : Prop :=
  ∀ row ∈ rows, ∀ j x, row[j]? = some x → Dw.F64.isNaN x = false →
    ∃ v y, Dt.toFloat ft (Dw.fmtFixed (c.colFmt j).prec x) = some v ∧ val v = some y ∧ Near (c.colFmt j).prec x y

/-- the header NULL is a number that the format `f` prints exactly as the NULL text -/
def NullExact (val : Str → Option Dw.F64) (nv null : Str) (f : Dw.Fmt) : Prop :=
  ∃ y, val nv = some y ∧ Dw.F64.isNaN y = false ∧ Dw.fmtFixed f.prec y = null

/-- no NaN in the index column -/
def IndexNaNFree (rows : List (List Dw.F64)) : Prop := ∀ row ∈ rows, ∀ x, row[0]? = some x → Dw.F64.isNaN x = false

/-- a NaN in the index column is harmless: there is none, or the index format prints the NULL exactly -/
def IndexOK (val : Str → Option Dw.F64) (nv null : Str) (c : Dw.RowCfg) (rows : List (List Dw.F64)) : Prop :=
  IndexNaNFree rows ∨ NullExact val nv null (c.colFmt 0)

/-! ## one sample -/

theorem near_reprint (N : Nat) (x y : Dw.F64) (hx : x.isNaN = false) (h : Near N x y) :
    y.isNaN = false ∧ Dw.fmtFixed N y = Dw.fmtFixed N x := by
  cases x with
  | nan => cases hx
  | inf neg =>
    simp only [Near] at h
    subst h
    exact ⟨rfl, rfl⟩
  | finite neg m e =>
    simp only [Near] at h
    rcases h with rfl | ⟨m', e', rfl, hlt⟩
    · exact ⟨rfl, rfl⟩
    · exact ⟨rfl, Dw.C01_fmt_stable N neg m' e' (Dw.fixedUnits N m e) hlt⟩

theorem cellToken_nan (null : Str) (f : Dw.Fmt) (x : Dw.F64) (h : x.isNaN = true) : Dw.cellToken null f x = null := by
  simp [Dw.cellToken, h]

theorem cellToken_num (null : Str) (f : Dw.Fmt) (x : Dw.F64) (h : x.isNaN = false) :
    Dw.cellToken null f x = Dw.fmtFixed f.prec x := by
  simp [Dw.cellToken, h]

/-- the NULL text outside the index column reads back as NaN -/
theorem reTok_null {ft : Dt.FloatTable} {val : Str → Option Dw.F64} {null nv : Str} (hr : ReadOK ft val null nv) (j : Nat)
    (hj : j ≠ 0) : reTok ft val nv j null = .nan := by
  have : (j != 0) = true := by simpa using hj
  simp [reTok, readTxt, hr.null_val, hr.null_num, hr.nan_val, this]

/-- the NULL text in the index column reads back as the number NULL -/
theorem reTok_null_index {ft : Dt.FloatTable} {val : Str → Option Dw.F64} {null nv : Str} (hr : ReadOK ft val null nv) :
    reTok ft val nv 0 null = (val nv).getD .nan := by
  simp [reTok, readTxt, hr.null_val]

/-- **The four ways of a sample through write -> read.**  `y` the sample read back:
(same) it is NaN iff `x` was and prints to the same token;
(index NaN) `x` is a NaN of the index column: `y` is the number NULL, which the index format prints as the NULL text;
(clash) `x` is no NaN, stands outside the index column, and its token reads as a float `==` NULL: `y` is NaN. -/
theorem reCell_cases {ft : Dt.FloatTable} {val : Str → Option Dw.F64} {null nv : Str} {c : Dw.RowCfg}
    {rows : List (List Dw.F64)} (hr : ReadOK ft val null nv) (hs : StrtodClose ft val c rows)
    (row : List Dw.F64) (hrow : row ∈ rows) (j : Nat) (x : Dw.F64) (hx : row[j]? = some x)
    (hi : j = 0 → x.isNaN = true → NullExact val nv null (c.colFmt 0)) :
    ((reCell ft val null nv c j x).isNaN = x.isNaN ∧
      Dw.cellToken null (c.colFmt j) (reCell ft val null nv c j x) = Dw.cellToken null (c.colFmt j) x) ∨
    (j = 0 ∧ x.isNaN = true ∧ (reCell ft val null nv c j x).isNaN = false ∧
      Dw.fmtFixed (c.colFmt j).prec (reCell ft val null nv c j x) = null) ∨
    (j ≠ 0 ∧ x.isNaN = false ∧ reCell ft val null nv c j x = .nan ∧
      ∃ v, Dt.toFloat ft (Dw.fmtFixed (c.colFmt j).prec x) = some v ∧ Dt.feq v nv = true) := by
  cases hnan : x.isNaN with
  | true =>
    by_cases hj : j = 0
    · subst hj
      right; left
      obtain ⟨y, hy, hyn, hyf⟩ := hi rfl hnan
      have e : reCell ft val null nv c 0 x = y := by
        unfold reCell
        rw [cellToken_nan null _ x hnan, reTok_null_index hr, hy]; rfl
      rw [e]
      exact ⟨rfl, rfl, hyn, hyf⟩
    · left
      have e : reCell ft val null nv c j x = .nan := by
        unfold reCell
        rw [cellToken_nan null _ x hnan, reTok_null hr j hj]
      rw [e]
      exact ⟨rfl, by rw [cellToken_nan null _ x hnan]; rfl⟩
  | false =>
    obtain ⟨v, y, hv, hy, hnear⟩ := hs row hrow j x hx hnan
    obtain ⟨hyn, hyf⟩ := near_reprint _ x y hnan hnear
    by_cases hcl : (j != 0 && Dt.feq v nv) = true
    · right; right
      simp only [Bool.and_eq_true, bne_iff_ne, ne_eq] at hcl
      refine ⟨hcl.1, rfl, ?_, v, hv, hcl.2⟩
      have : (j != 0) = true := by simpa using hcl.1
      simp [reCell, reTok, readTxt, cellToken_num null _ x hnan, hv, hcl.2, this, hr.nan_val]
    · left
      have hcl' : (j != 0 && Dt.feq v nv) = false := by simpa using hcl
      have e : reCell ft val null nv c j x = y := by
        simp only [reCell, reTok, readTxt, cellToken_num null _ x hnan, hv, Option.map_some, hcl', Bool.false_eq_true,
          if_false, Option.bind_some, hy, Option.getD_some]
      rw [e, hyn, cellToken_num null _ y hyn, cellToken_num null _ x hnan, hyf]
      exact ⟨rfl, rfl⟩

/-- what `IndexOK` says about one cell -/
theorem IndexOK.at {val : Str → Option Dw.F64} {nv null : Str} {c : Dw.RowCfg} {rows : List (List Dw.F64)}
    (hi : IndexOK val nv null c rows) (row : List Dw.F64) (hrow : row ∈ rows) (j : Nat) (x : Dw.F64) (hx : row[j]? = some x) :
    j = 0 → x.isNaN = true → NullExact val nv null (c.colFmt 0) := by
  intro hj hn
  subst hj
  rcases hi with hfree | h
  · have := hfree row hrow x hx
    rw [hn] at this; cases this
  · exact h

/-- **token level, one sample**: under `NoNullClash` the sample read back prints to the same token -/
theorem reCell_token {ft : Dt.FloatTable} {val : Str → Option Dw.F64} {null nv : Str} {c : Dw.RowCfg}
    {rows : List (List Dw.F64)} (hr : ReadOK ft val null nv) (hs : StrtodClose ft val c rows)
    (hc : Rt.NoNullClash ft nv c rows)
    (row : List Dw.F64) (hrow : row ∈ rows) (j : Nat) (x : Dw.F64) (hx : row[j]? = some x)
    (hi : j = 0 → x.isNaN = true → NullExact val nv null (c.colFmt 0)) :
    Dw.cellToken null (c.colFmt j) (reCell ft val null nv c j x) = Dw.cellToken null (c.colFmt j) x := by
  rcases reCell_cases hr hs row hrow j x hx hi with ⟨_, h⟩ | ⟨_, hn, hyn, hyf⟩ | ⟨hj, hn, _, v, hv, hf⟩
  · exact h
  · rw [cellToken_num null _ _ hyn, hyf, cellToken_nan null _ x hn]
  · have := hc row hrow j x hj hx hn v hv
    rw [hf] at this; cases this

/-- **re-read level, one sample** (no `NoNullClash` needed): reading the re-printed sample gives the sample again -/
theorem reCell_idem {ft : Dt.FloatTable} {val : Str → Option Dw.F64} {null nv : Str} {c : Dw.RowCfg}
    {rows : List (List Dw.F64)} (hr : ReadOK ft val null nv) (hs : StrtodClose ft val c rows)
    (row : List Dw.F64) (hrow : row ∈ rows) (j : Nat) (x : Dw.F64) (hx : row[j]? = some x)
    (hi : j = 0 → x.isNaN = true → NullExact val nv null (c.colFmt 0)) :
    reCell ft val null nv c j (reCell ft val null nv c j x) = reCell ft val null nv c j x := by
  rcases reCell_cases hr hs row hrow j x hx hi with ⟨_, h⟩ | ⟨_, hn, hyn, hyf⟩ | ⟨hj, _, hy, _⟩
  · show reTok ft val nv j (Dw.cellToken null (c.colFmt j) (reCell ft val null nv c j x)) = _
    rw [h]; rfl
  · show reTok ft val nv j (Dw.cellToken null (c.colFmt j) (reCell ft val null nv c j x)) = _
    rw [cellToken_num null _ _ hyn, hyf]
    unfold reCell
    rw [cellToken_nan null _ x hn]
  · rw [hy]
    unfold reCell
    rw [cellToken_nan null _ .nan rfl, reTok_null hr j hj]

/-- the text of a cell (before justification) is determined by the NaN flag and the token -/
theorem cellValue_congr (null : Str) (f : Dw.Fmt) (x y : Dw.F64) (h1 : y.isNaN = x.isNaN)
    (h2 : Dw.cellToken null f y = Dw.cellToken null f x) : Dw.cellValue null f y = Dw.cellValue null f x := by
  cases hx : x.isNaN with
  | true =>
    rw [hx] at h1
    simp [Dw.cellValue, hx, h1]
  | false =>
    rw [hx] at h1
    rw [cellToken_num null f y h1, cellToken_num null f x hx] at h2
    simp only [Dw.cellValue, hx, h1, Bool.false_eq_true, if_false, Dw.fmtApply, h2]

/-- **text level, one sample**: `NoNullClash`, and `x` no NaN of the index column: the same cell text -/
theorem reCell_value {ft : Dt.FloatTable} {val : Str → Option Dw.F64} {null nv : Str} {c : Dw.RowCfg}
    {rows : List (List Dw.F64)} (hr : ReadOK ft val null nv) (hs : StrtodClose ft val c rows) (hfree : IndexNaNFree rows)
    (hc : Rt.NoNullClash ft nv c rows)
    (row : List Dw.F64) (hrow : row ∈ rows) (j : Nat) (x : Dw.F64) (hx : row[j]? = some x) :
    Dw.cellValue null (c.colFmt j) (reCell ft val null nv c j x) = Dw.cellValue null (c.colFmt j) x := by
  rcases reCell_cases hr hs row hrow j x hx (IndexOK.at (Or.inl hfree) row hrow j x hx) with
    ⟨h1, h2⟩ | ⟨hj, hn, _, _⟩ | ⟨hj, hn, _, v, hv, hf⟩
  · exact cellValue_congr null _ x _ h1 h2
  · subst hj
    have := hfree row hrow x hx
    rw [hn] at this; cases this
  · have := hc row hrow j x hj hx hn v hv
    rw [hf] at this; cases this

/-! ## rows -/

theorem reRowFrom_length (ft : Dt.FloatTable) (val : Str → Option Dw.F64) (null nv : Str) (c : Dw.RowCfg) (j : Nat)
    (cells : List Dw.F64) : (reRowFrom ft val null nv c j cells).length = cells.length := by
  induction cells generalizing j with
  | nil => rfl
  | cons x xs ih => simp [reRowFrom, ih]

theorem reRowFrom_getElem? (ft : Dt.FloatTable) (val : Str → Option Dw.F64) (null nv : Str) (c : Dw.RowCfg) (j : Nat)
    (cells : List Dw.F64) (k : Nat) :
    (reRowFrom ft val null nv c j cells)[k]? = (cells[k]?).map (reCell ft val null nv c (j + k)) := by
  induction cells generalizing j k with
  | nil => simp [reRowFrom]
  | cons x xs ih =>
    cases k with
    | zero => simp [reRowFrom]
    | succ k =>
      simp only [reRowFrom, List.getElem?_cons_succ, ih (j + 1) k]
      rw [show j + 1 + k = j + (k + 1) by omega]

/-- a statement about every cell of the tail, shifted -/
theorem shift_hyp {P : Nat → Dw.F64 → Prop} {j : Nat} {x : Dw.F64} {xs : List Dw.F64}
    (h : ∀ k y, (x :: xs)[k]? = some y → P (j + k) y) : ∀ k y, xs[k]? = some y → P (j + 1 + k) y := by
  intro k y hk
  have := h (k + 1) y (by simpa using hk)
  rwa [show j + (k + 1) = j + 1 + k by omega] at this

theorem rowTokensFrom_re (ft : Dt.FloatTable) (val : Str → Option Dw.F64) (null nv : Str) (c : Dw.RowCfg) (j : Nat)
    (cells : List Dw.F64)
    (h : ∀ k x, cells[k]? = some x →
      Dw.cellToken null (c.colFmt (j + k)) (reCell ft val null nv c (j + k) x) = Dw.cellToken null (c.colFmt (j + k)) x) :
    Dw.rowTokensFrom c null j (reRowFrom ft val null nv c j cells) = Dw.rowTokensFrom c null j cells := by
  induction cells generalizing j with
  | nil => rfl
  | cons x xs ih =>
    simp only [reRowFrom, Dw.rowTokensFrom]
    rw [show Dw.cellToken null (c.colFmt j) (reCell ft val null nv c j x) = Dw.cellToken null (c.colFmt j) x from
      h 0 x rfl, ih (j + 1) (shift_hyp (P := fun k y => Dw.cellToken null (c.colFmt k) (reCell ft val null nv c k y) =
        Dw.cellToken null (c.colFmt k) y) h)]

theorem dataRowFrom_re (ft : Dt.FloatTable) (val : Str → Option Dw.F64) (null nv : Str) (c : Dw.RowCfg) (j : Nat)
    (cells : List Dw.F64)
    (h : ∀ k x, cells[k]? = some x →
      Dw.cellValue null (c.colFmt (j + k)) (reCell ft val null nv c (j + k) x) = Dw.cellValue null (c.colFmt (j + k)) x) :
    Dw.dataRowFrom c null j (reRowFrom ft val null nv c j cells) = Dw.dataRowFrom c null j cells ∧
    Dw.colWidthsFrom c null j (reRowFrom ft val null nv c j cells) = Dw.colWidthsFrom c null j cells := by
  induction cells generalizing j with
  | nil => exact ⟨rfl, rfl⟩
  | cons x xs ih =>
    have h0 : Dw.cellValue null (c.colFmt j) (reCell ft val null nv c j x) = Dw.cellValue null (c.colFmt j) x := h 0 x rfl
    obtain ⟨i1, i2⟩ := ih (j + 1) (shift_hyp (P := fun k y => Dw.cellValue null (c.colFmt k) (reCell ft val null nv c k y) =
        Dw.cellValue null (c.colFmt k) y) h)
    simp only [reRowFrom, Dw.dataRowFrom, Dw.colWidthsFrom, Dw.formatCell, h0, i1, i2, and_self]

theorem reRowFrom_idem (ft : Dt.FloatTable) (val : Str → Option Dw.F64) (null nv : Str) (c : Dw.RowCfg) (j : Nat)
    (cells : List Dw.F64)
    (h : ∀ k x, cells[k]? = some x →
      reCell ft val null nv c (j + k) (reCell ft val null nv c (j + k) x) = reCell ft val null nv c (j + k) x) :
    reRowFrom ft val null nv c j (reRowFrom ft val null nv c j cells) = reRowFrom ft val null nv c j cells := by
  induction cells generalizing j with
  | nil => rfl
  | cons x xs ih =>
    simp only [reRowFrom]
    rw [show reCell ft val null nv c j (reCell ft val null nv c j x) = reCell ft val null nv c j x from h 0 x rfl,
      ih (j + 1) (shift_hyp (P := fun k y => reCell ft val null nv c k (reCell ft val null nv c k y) =
        reCell ft val null nv c k y) h)]

/-! ## the matrix -/

theorem reRows_length (ft : Dt.FloatTable) (val : Str → Option Dw.F64) (null nv : Str) (c : Dw.RowCfg)
    (rows : List (List Dw.F64)) : (reRows ft val null nv c rows).length = rows.length := by
  simp [reRows]

theorem reRows_rect (ft : Dt.FloatTable) (val : Str → Option Dw.F64) (null nv : Str) (c : Dw.RowCfg)
    (rows : List (List Dw.F64)) (n : Nat) (h : ∀ r ∈ rows, r.length = n) : ∀ r ∈ reRows ft val null nv c rows, r.length = n := by
  intro r hr
  obtain ⟨r0, hr0, rfl⟩ := List.mem_map.mp hr
  rw [reRowFrom_length]; exact h r0 hr0

theorem reRows_ne (ft : Dt.FloatTable) (val : Str → Option Dw.F64) (null nv : Str) (c : Dw.RowCfg)
    (rows : List (List Dw.F64)) (h : rows ≠ []) : reRows ft val null nv c rows ≠ [] := by
  cases rows with
  | nil => exact absurd rfl h
  | cons r rs => simp [reRows]

/-- cell (i, j) of the re-read matrix -/
theorem reRows_cell (ft : Dt.FloatTable) (val : Str → Option Dw.F64) (null nv : Str) (c : Dw.RowCfg)
    (rows : List (List Dw.F64)) (i j : Nat) (row : List Dw.F64) (x : Dw.F64) (hi : rows[i]? = some row)
    (hx : row[j]? = some x) :
    ∃ row1, (reRows ft val null nv c rows)[i]? = some row1 ∧ row1[j]? = some (reCell ft val null nv c j x) := by
  refine ⟨reRowFrom ft val null nv c 0 row, by simp [reRows, hi], ?_⟩
  rw [reRowFrom_getElem?, hx]; simp

/-- **token level**: the second output has the tokens of the first -/
theorem tokenRows_reRows {ft : Dt.FloatTable} {val : Str → Option Dw.F64} {null nv : Str} {c : Dw.RowCfg}
    {rows : List (List Dw.F64)} (hr : ReadOK ft val null nv) (hs : StrtodClose ft val c rows) (hi : IndexOK val nv null c rows)
    (hc : Rt.NoNullClash ft nv c rows) :
    Rt.tokenRows c null (reRows ft val null nv c rows) = Rt.tokenRows c null rows := by
  unfold Rt.tokenRows reRows
  rw [List.map_map]
  apply List.map_congr_left
  intro row hrow
  simp only [Function.comp, Dw.rowTokens]
  apply rowTokensFrom_re
  intro k x hk
  simp only [Nat.zero_add]
  exact reCell_token hr hs hc row hrow k x hk (hi.at row hrow k x hk)

/-- **re-read level**: reading the second output gives the first re-read again (no `NoNullClash` needed) -/
theorem reRows_idem {ft : Dt.FloatTable} {val : Str → Option Dw.F64} {null nv : Str} {c : Dw.RowCfg}
    {rows : List (List Dw.F64)} (hr : ReadOK ft val null nv) (hs : StrtodClose ft val c rows) (hi : IndexOK val nv null c rows) :
    reRows ft val null nv c (reRows ft val null nv c rows) = reRows ft val null nv c rows := by
  unfold reRows
  rw [List.map_map]
  apply List.map_congr_left
  intro row hrow
  simp only [Function.comp]
  apply reRowFrom_idem
  intro k x hk
  simp only [Nat.zero_add]
  exact reCell_idem hr hs row hrow k x hk (hi.at row hrow k x hk)

/-- `k` applications of `f` -/
def iter {α} (f : α → α) : Nat → α → α
  | 0, x => x
  | k + 1, x => iter f k (f x)

theorem iter_idem {α} (f : α → α) (x : α) (h : f (f x) = f x) : ∀ k, iter f (k + 1) x = f x := by
  intro k
  induction k generalizing x with
  | zero => rfl
  | succ k ih =>
    show iter f (k + 1) (f x) = f x
    rw [ih (f x) (congrArg f h), h]

/-- **text level**: with `NoNullClash` and no NaN in the index column every row is laid out as the same text -/
theorem dataRow_reRows {ft : Dt.FloatTable} {val : Str → Option Dw.F64} {null nv : Str} {c : Dw.RowCfg}
    {rows : List (List Dw.F64)} (hr : ReadOK ft val null nv) (hs : StrtodClose ft val c rows) (hfree : IndexNaNFree rows)
    (hc : Rt.NoNullClash ft nv c rows) (row : List Dw.F64) (hrow : row ∈ rows) :
    Dw.dataRow c null (reRowFrom ft val null nv c 0 row) = Dw.dataRow c null row ∧
    Dw.colWidthsFrom c null 0 (reRowFrom ft val null nv c 0 row) = Dw.colWidthsFrom c null 0 row := by
  unfold Dw.dataRow
  apply dataRowFrom_re
  intro k x hk
  simp only [Nat.zero_add]
  exact reCell_value hr hs hfree hc row hrow k x hk

theorem dwBodyLines_congr (c : Dw.RowCfg) (null : Str) (wrap : Bool) (dw : Nat) (g : List Dw.F64 → List Dw.F64)
    (rows : List (List Dw.F64)) (h : ∀ r ∈ rows, Dw.dataRow c null (g r) = Dw.dataRow c null r) :
    Dw.dwBodyLines c null wrap dw (rows.map g) = Dw.dwBodyLines c null wrap dw rows := by
  induction rows with
  | nil => rfl
  | cons r rs ih =>
    simp only [List.map_cons, Dw.dwBodyLines, h r (by simp), ih (fun x hx => h x (by simp [hx]))]

/-- **the written data section is a fixed point** (text): `write` on the re-read matrix emits the same lines -/
theorem dataLines_reRows {ft : Dt.FloatTable} {val : Str → Option Dw.F64} {null nv : Str} {c : Dw.RowCfg}
    {rows : List (List Dw.F64)} (cfg : Dw.DataCfg) (mn : List Str) (hcfg : cfg.rowCfg = some c)
    (hr : ReadOK ft val null nv) (hs : StrtodClose ft val c rows) (hfree : IndexNaNFree rows)
    (hc : Rt.NoNullClash ft nv c rows) :
    Dw.dataLines cfg null mn (reRows ft val null nv c rows) = Dw.dataLines cfg null mn rows := by
  have hb : Dw.dwBodyLines c null cfg.wrap cfg.dataWidth (reRows ft val null nv c rows) =
      Dw.dwBodyLines c null cfg.wrap cfg.dataWidth rows :=
    dwBodyLines_congr c null _ _ _ rows (fun r hrow => (dataRow_reRows hr hs hfree hc r hrow).1)
  have hh : Dw.dataHeaderLine c null cfg.mnemonicsHeader cfg.dataSectionHeader cfg.headerWidth mn
        (reRows ft val null nv c rows).head? =
      Dw.dataHeaderLine c null cfg.mnemonicsHeader cfg.dataSectionHeader cfg.headerWidth mn rows.head? := by
    cases rows with
    | nil => rfl
    | cons r rs =>
      simp only [reRows, List.map_cons, List.head?_cons, Dw.dataHeaderLine,
        (dataRow_reRows hr hs hfree hc r (by simp)).2]
  unfold Dw.dataLines
  rw [hcfg]
  simp only [hb, hh]

/-! ## the link with the reader model -/

/-- every written token converts -/
theorem numeric_of {ft : Dt.FloatTable} {val : Str → Option Dw.F64} {null nv : Str} {c : Dw.RowCfg}
    {rows : List (List Dw.F64)} (hr : ReadOK ft val null nv) (hs : StrtodClose ft val c rows) :
    Dt.Numeric ft (Rt.tokenRows c null rows) := by
  intro r hr' t ht
  obtain ⟨row, hrow, rfl⟩ := List.mem_map.mp hr'
  obtain ⟨k, hk⟩ := List.getElem?_of_mem ht
  rw [Rt.rowTokens_getElem?] at hk
  cases hx : row[k]? with
  | none => rw [hx] at hk; cases hk
  | some x =>
    rw [hx] at hk
    simp only [Option.map_some, Option.some.injEq] at hk
    subst hk
    cases hnan : x.isNaN with
    | true => rw [cellToken_nan null _ x hnan, hr.null_val]; rfl
    | false =>
      obtain ⟨v, _, hv, _⟩ := hs row hrow k x hx hnan
      rw [cellToken_num null _ x hnan, hv]; rfl

/-- **cell (i, j) of what the strict reader returns for the written tokens** (`applyNull` of `matrixColumns`) is `readTxt` of the
token of sample (i, j); so the re-read matrix `reRows` holds, cell by cell, the binary64 denoted by the reader's float text -/
theorem floatCell_read (ft : Dt.FloatTable) (null nv : Str) (c : Dw.RowCfg) (rows : List (List Dw.F64)) (n : Nat)
    (hrect : ∀ r ∈ rows, r.length = n) (hnum : Dt.Numeric ft (Rt.tokenRows c null rows))
    (i j : Nat) (row : List Dw.F64) (x : Dw.F64) (hi : rows[i]? = some row) (hx : row[j]? = some x) :
    Dt.floatCell (Dt.applyNull true (some nv) (Dt.matrixColumns ft n (Rt.tokenRows c null rows))) j i =
      readTxt ft nv j (Dw.cellToken null (c.colFmt j) x) := by
  have hbase := Rt.floatCell_written ft null c rows n hrect hnum i j row x hi hx
  unfold readTxt
  by_cases hj : j = 0
  · subst hj
    rw [Rt.floatCell_applyNull_zero, hbase]
    cases Dt.toFloat ft (Dw.cellToken null (c.colFmt 0) x) <;> simp
  · rw [Rt.floatCell_applyNull_strict nv _ j i hj, hbase]
    have : (j != 0) = true := by simpa using hj
    simp [this]

/-! ## checking a hypothesis on every cell of a concrete matrix -/

def idxFrom : Nat → List Dw.F64 → List (Nat × Dw.F64)
  | _, [] => []
  | j, x :: xs => (j, x) :: idxFrom (j + 1) xs

/-- the cells of a matrix with their column numbers -/
def cellsOf (rows : List (List Dw.F64)) : List (Nat × Dw.F64) := rows.flatMap (idxFrom 0)

theorem mem_idxFrom (j : Nat) (xs : List Dw.F64) (k : Nat) (x : Dw.F64) (h : xs[k]? = some x) : (j + k, x) ∈ idxFrom j xs := by
  induction xs generalizing j k with
  | nil => simp at h
  | cons y ys ih =>
    cases k with
    | zero =>
      simp only [List.getElem?_cons_zero, Option.some.injEq] at h
      subst h
      simp [idxFrom]
    | succ k =>
      simp only [List.getElem?_cons_succ] at h
      have := ih (j + 1) k h
      rw [show j + 1 + k = j + (k + 1) by omega] at this
      simp [idxFrom, this]

theorem mem_cellsOf (rows : List (List Dw.F64)) (row : List Dw.F64) (hrow : row ∈ rows) (j : Nat) (x : Dw.F64)
    (hx : row[j]? = some x) : (j, x) ∈ cellsOf rows := by
  unfold cellsOf
  apply List.mem_flatMap.mpr
  refine ⟨row, hrow, ?_⟩
  have := mem_idxFrom 0 row j x hx
  simpa using this

end Lasio.Cd
