import LasioModel.Writer
import LasioModel.Reader
import LasioProofs.Lemmas.WriterLemmas
import LasioProofs.Lemmas.ReaderLemmas
import LasioProofs.Props.C05
/-
Bridge between the header WRITER model (`Lasio.Wr`, LasioModel/Writer.lean) and the whole-file header READER model
(`Lasio.Rd`, LasioModel/Reader.lean): the lines `Wr.headerLines` produces are a well-formed document of `Rd`, the
reader's per-line function computes what `Wr.readItem` computes, and reading the five written sections one after the
other stores under "Version" / "Well" / "Curves" / "Parameter" / "Other" what `Wr.readSection` reads back from each
section's own lines.  Property theorems (`C03_…`) are stated in Props/C03.lean.
-/
namespace Lasio.RH

open Lasio

/-! ## the order tables of the two models -/

def flatOrders (rows : List (String × List String)) : List (Str × Str) :=
  rows.flatMap fun om => om.2.map fun m => (m.toList, om.1.toList)

theorem beq_toList (a b : String) : (a.toList == b.toList) = (a == b) := by
  rw [Bool.eq_iff_iff]; simp [String.toList_inj]

theorem orderTable_eq (v s : String) :
    Rd.orderTable v.toList s = (Wr.sectionOrders v s).map fun dr => (dr.1.toList, flatOrders dr.2) := by
  unfold Rd.orderTable Wr.sectionOrders Wr.versionRows
  rw [List.find?_filter]
  have : (fun r : String × String × String × List (String × List String) => r.1.toList == v.toList && r.2.1 == s) =
      (fun a => decide ((a.fst == v) = true ∧ (a.snd.fst == s) = true)) := by
    funext r; rw [beq_toList, Bool.eq_iff_iff]; simp
  rw [this]
  cases Generated.orderDefinitions.find? (fun a => decide ((a.fst == v) = true ∧ (a.snd.fst == s) = true)) with
  | none => rfl
  | some r => rfl

theorem table_lookup_agree :
    Generated.orderDefinitions.all (fun r => r.2.2.2.all (fun row => row.2.all (fun k =>
      (flatOrders r.2.2.2).lookup k.toList == (Wr.ordersGet r.2.2.2 k.toList).map String.toList))) = true := by
  decide

theorem lookup_row_none (o : String) (ks : List String) (m : Str) (rest : List (Str × Str))
    (h : ∀ k ∈ ks, k.toList ≠ m) :
    (ks.map (fun k => (k.toList, o.toList)) ++ rest).lookup m = rest.lookup m := by
  induction ks with
  | nil => rfl
  | cons k ks ih =>
    have hk : (m == k.toList) = false := by
      have := h k List.mem_cons_self
      simp; exact fun e => this e.symm
    simp only [List.map_cons, List.cons_append, List.lookup, hk]
    exact ih (fun x hx => h x (List.mem_cons_of_mem _ hx))

theorem lookup_flat_none (rows : List (String × List String)) (m : Str)
    (h : ∀ r ∈ rows, ∀ k ∈ r.2, k.toList ≠ m) : (flatOrders rows).lookup m = none := by
  induction rows with
  | nil => rfl
  | cons r rows ih =>
    unfold flatOrders at ih ⊢
    rw [List.flatMap_cons, lookup_row_none r.1 r.2 m _ (h r List.mem_cons_self)]
    exact ih (fun x hx => h x (List.mem_cons_of_mem _ hx))

theorem ordersGet_none (rows : List (String × List String)) (m : Str)
    (h : ∀ r ∈ rows, ∀ k ∈ r.2, k.toList ≠ m) : Wr.ordersGet rows m = none := by
  cases hg : Wr.ordersGet rows m with
  | none => rfl
  | some s =>
    obtain ⟨r, hr, _, x, hx, hxm⟩ := Wr.ordersGet_mem rows m s hg
    exact absurd hxm (h r hr x hx)

/-- first-match lookup in the flattened list (reader model) = last-row-wins dict (writer model), on a table whose
listed keys agree -/
theorem lookup_eq_ordersGet (rows : List (String × List String))
    (hag : rows.all (fun row => row.2.all (fun k =>
      (flatOrders rows).lookup k.toList == (Wr.ordersGet rows k.toList).map String.toList)) = true) (m : Str) :
    (flatOrders rows).lookup m = (Wr.ordersGet rows m).map String.toList := by
  by_cases hex : ∃ r ∈ rows, ∃ k ∈ r.2, k.toList = m
  · obtain ⟨r, hr, k, hk, rfl⟩ := hex
    have := List.all_eq_true.mp (List.all_eq_true.mp hag r hr) k hk
    simpa using this
  · have hn : ∀ r ∈ rows, ∀ k ∈ r.2, k.toList ≠ m := by
      intro r hr k hk e; exact hex ⟨r, hr, k, hk, e⟩
    rw [lookup_flat_none rows m hn, ordersGet_none rows m hn]; rfl

/-- the two-step lookup of `SectionParser.metadata` in both models -/
theorem lookup2_eq (rows : List (String × List String)) (d : String)
    (hag : rows.all (fun row => row.2.all (fun k =>
      (flatOrders rows).lookup k.toList == (Wr.ordersGet rows k.toList).map String.toList)) = true) (m : Str) :
    ((flatOrders rows).lookup m).getD (((flatOrders rows).lookup (upper m)).getD d.toList) =
      ((Wr.ordersGet2 rows m).getD d).toList := by
  rw [lookup_eq_ordersGet rows hag, lookup_eq_ordersGet rows hag]
  unfold Wr.ordersGet2
  cases Wr.ordersGet rows m with
  | some s => rfl
  | none =>
    cases Wr.ordersGet rows (upper m) <;> rfl

/-! ## one item: the parser object of the reader and `Wr.readItem` -/

def cvtCase : Rd.MCase → Wr.MCase
  | .upper => .upper | .lower => .lower | .preserve => .preserve

def toRd (r : Wr.RItem) : Rd.RItem := ⟨r.name, r.unit, r.value, r.descr⟩

def cvtRes : Wr.LineRes → Rd.LineRes
  | .skip => .skip | .stop => .title | .error => .bad | .item r => .item (toRd r)

theorem applyCase_eq (c : Rd.MCase) (s : Str) : Rd.applyCase c s = Wr.caseMap (cvtCase c) s := by
  cases c <;> rfl

theorem stripBrackets_eq (x : Str) : Rd.stripBrackets x = Wr.stripBrackets x := by
  unfold Rd.stripBrackets Wr.stripBrackets Wr.isBracketed
  simp only
  cases hs : strip x with
  | nil => rfl
  | cons a t =>
    obtain ⟨b, hb⟩ : ∃ b, (a :: t).getLast? = some b := ⟨(a :: t).getLast (by simp), List.getLast?_eq_some_getLast _⟩
    simp only [List.head?_cons, hb]
    simp

def pkindOf : SecName → Rd.PKind
  | .curves => .curves | .parameter => .params | _ => .metadata

/-- the `SectionParser` of a section of kind `kind` under version `v`, in terms of the writer model's table access -/
def parserOf (v : String) (kind : SecName) : Rd.Parser :=
  match Wr.sectionOrders v (Wr.secKey kind) with
  | some dr => ⟨pkindOf kind, kind, dr.1.toList, flatOrders dr.2⟩
  | none => ⟨pkindOf kind, kind, Rd.valueDescr, []⟩

theorem parseOrder_cases (x : String) :
    (x.toList == Rd.valueDescr) = (Wr.parseOrder x == some .valueDescr) ∧
    (x.toList == Rd.descrValue) = (Wr.parseOrder x == some .descrValue) := by
  unfold Wr.parseOrder Rd.valueDescr Rd.descrValue
  rw [beq_toList, beq_toList]
  by_cases h1 : x = "value:descr"
  · subst h1; decide
  · by_cases h2 : x = "descr:value"
    · subst h2; decide
    · simp [h1, h2]

theorem readItem_bridge (v : String) (kind : SecName) (hk : kind ≠ .other)
    (hso : (Wr.sectionOrders v (Wr.secKey kind)).isSome = true) (c : Rd.MCase) (s : Str) :
    (parseHeaderLine kind s).map (fun f => Rd.mkItem' (parserOf v kind) { f with name := Rd.applyCase c f.name }) =
      (Wr.readItem v kind (cvtCase c) s).map toRd := by
  obtain ⟨⟨d, rows⟩, hdr⟩ := Option.isSome_iff_exists.mp hso
  have hvp := Wr.versionPresent_of_sectionOrders hdr
  have hag := List.all_eq_true.mp table_lookup_agree _ (Wr.sectionOrders_mem hdr)
  unfold Wr.readItem
  simp only [hvp, Bool.not_true, Bool.false_eq_true, if_false]
  cases hp : parseHeaderLine kind s with
  | none => rfl
  | some f =>
    simp only [Option.map_some]
    have hpar : parserOf v kind = ⟨pkindOf kind, kind, d.toList, flatOrders rows⟩ := by
      simp [parserOf, hdr]
    rw [hpar]
    cases kind with
    | other => exact absurd rfl hk
    | curves => simp [Rd.mkItem', pkindOf, toRd, applyCase_eq, stripBrackets_eq]
    | parameter => simp [Rd.mkItem', pkindOf, toRd, applyCase_eq, stripBrackets_eq]
    | version =>
      simp only [Rd.mkItem', pkindOf, applyCase_eq, stripBrackets_eq, lookup2_eq rows d hag, Wr.readerOrderOf, hvp,
        Bool.not_true, Bool.false_eq_true, if_false, hdr]
      obtain ⟨h1, h2⟩ := parseOrder_cases ((Wr.ordersGet2 rows (Wr.caseMap (cvtCase c) f.name)).getD d)
      rw [h1, h2]
      cases Wr.parseOrder ((Wr.ordersGet2 rows (Wr.caseMap (cvtCase c) f.name)).getD d) with
      | none => simp [toRd]
      | some o => cases o <;> simp [toRd]
    | well =>
      simp only [Rd.mkItem', pkindOf, applyCase_eq, stripBrackets_eq, lookup2_eq rows d hag, Wr.readerOrderOf, hvp,
        Bool.not_true, Bool.false_eq_true, if_false, hdr]
      obtain ⟨h1, h2⟩ := parseOrder_cases ((Wr.ordersGet2 rows (Wr.caseMap (cvtCase c) f.name)).getD d)
      rw [h1, h2]
      cases Wr.parseOrder ((Wr.ordersGet2 rows (Wr.caseMap (cvtCase c) f.name)).getD d) with
      | none => simp [toRd]
      | some o => cases o <;> simp [toRd]

/-! ## one line -/

theorem lineRes_eq (o : Rd.ReadOpts) (v : String) (kind : SecName) (hk : kind ≠ .other)
    (hso : (Wr.sectionOrders v (Wr.secKey kind)).isSome = true) (line : Str) :
    Rd.lineRes o (parserOf v kind) line = cvtRes (Wr.readLine v kind (cvtCase o.mnemonicCase) line) := by
  have hb := readItem_bridge v kind hk hso o.mnemonicCase (strip line)
  have hsec : (parserOf v kind).sec = kind := by
    unfold parserOf; split <;> rfl
  unfold Rd.lineRes Wr.readLine
  simp only [Rd.lineStrip_eq_strip, hsec]
  cases hs : strip line with
  | nil => rfl
  | cons ch t =>
    rw [hs] at hb
    simp only [List.isEmpty_cons, Bool.false_eq_true, if_false, List.head?_cons]
    by_cases h1 : ch = '#'
    · subst h1; rfl
    · by_cases h2 : ch = '~'
      · subst h2; rfl
      · have e1 : (some ch == some '#') = false := by simpa using h1
        have e2 : Rd.startsTilde (ch :: t) = false := by
          cases h : Rd.startsTilde (ch :: t) with
          | false => rfl
          | true =>
            obtain ⟨t', ht'⟩ := (Rd.startsTilde_iff _).mp h
            simp at ht'; exact absurd ht'.1 h2
        have e3 : (ch == '#') = false := by simpa using h1
        have e4 : (ch == '~') = false := by simpa using h2
        simp only [e1, e2, e3, e4, Bool.false_eq_true, if_false]
        cases hp : parseHeaderLine kind (ch :: t) with
        | none =>
          rw [hp] at hb
          cases hr : Wr.readItem v kind (cvtCase o.mnemonicCase) (ch :: t) with
          | none => rfl
          | some r => rw [hr] at hb; cases hb
        | some f =>
          rw [hp] at hb
          cases hr : Wr.readItem v kind (cvtCase o.mnemonicCase) (ch :: t) with
          | none => rw [hr] at hb; cases hb
          | some r =>
            rw [hr] at hb
            simp only [Option.map_some, Option.some.injEq] at hb
            simp only [cvtRes, ← hb]

/-! ## one section body -/

/-- the items of a written section body: every line on its own, as `Wr.readSection` reads them -/
theorem bodyRun_eq (o : Rd.ReadOpts) (v : String) (kind : SecName) (hk : kind ≠ .other)
    (hso : (Wr.sectionOrders v (Wr.secKey kind)).isSome = true) (lines : List Str) (l : List Wr.RItem)
    (hnt : ∀ b ∈ lines, Rd.isTitle b = false)
    (h : Wr.readSection v kind (cvtCase o.mnemonicCase) lines = some l) (n : Nat) :
    Rd.bodyRun o (parserOf v kind) lines n = .ok (l.map toRd) := by
  induction lines generalizing l n with
  | nil => simp only [Wr.readSection] at h; cases h; rfl
  | cons b bs ih =>
    have hb := lineRes_eq o v kind hk hso b
    have hnb : Rd.lineRes o (parserOf v kind) b ≠ .title := by
      intro ht
      have := (Rd.lineRes_title_iff _ _ _).mp ht
      rw [hnt b List.mem_cons_self] at this; cases this
    have hnt' : ∀ x ∈ bs, Rd.isTitle x = false := fun x hx => hnt x (List.mem_cons_of_mem _ hx)
    simp only [Wr.readSection] at h
    simp only [Rd.bodyRun]
    cases hr : Wr.readLine v kind (cvtCase o.mnemonicCase) b with
    | skip =>
      rw [hr] at hb h
      simp only [cvtRes] at hb
      simp only [hb]
      exact ih l hnt' h (n + 1)
    | stop =>
      rw [hr] at hb
      exact absurd hb hnb
    | error => rw [hr] at h; cases h
    | item r =>
      rw [hr] at hb h
      simp only [cvtRes] at hb
      simp only [hb]
      cases hrest : Wr.readSection v kind (cvtCase o.mnemonicCase) bs with
      | none => rw [hrest] at h; cases h
      | some l' =>
        rw [hrest] at h
        simp only [Option.map_some, Option.some.injEq] at h
        subst h
        rw [ih l' hnt' hrest (n + 1)]
        rfl

/-! ## titles -/

def TitleTail (r : Str) : Prop := ∀ c ∈ r, c = ' ' ∨ c = '-'

/-- the written title line, stripped: the title text without its final blank, then nothing or " ----…" -/
theorem strip_titleLine (core : Str) (w : Nat)
    (hh : ∀ c, core.head? = some c → isPySpace c = false)
    (hl : ∀ c, core.getLast? = some c → isPySpace c = false) (hne : core ≠ []) :
    ∃ r, strip (ljust w '-' (core ++ [' '])) = core ++ r ∧ TitleTail r := by
  unfold ljust
  generalize w - (core ++ [' ']).length = k
  cases k with
  | zero =>
    refine ⟨[], ?_, fun _ h => by cases h⟩
    have := strip_pad [] core [' '] (by simp) (by simp; decide)
    simp only [List.nil_append] at this
    simp only [List.replicate_zero, List.append_nil]
    rw [this, strip_eq_self core hh hl]
  | succ k =>
    refine ⟨' ' :: List.replicate (k + 1) '-', ?_, ?_⟩
    · rw [show core ++ [' '] ++ List.replicate (k + 1) '-' = core ++ ' ' :: List.replicate (k + 1) '-' by simp]
      apply strip_eq_self
      · intro c hc
        apply hh c
        cases core with
        | nil => exact absurd rfl hne
        | cons a t => simpa using hc
      · intro c hc
        have : (core ++ ' ' :: List.replicate (k + 1) '-').getLast? = some '-' := by
          rw [show core ++ ' ' :: List.replicate (k + 1) '-' = (core ++ ' ' :: List.replicate k '-') ++ ['-'] by
            simp [List.replicate_succ']]
          exact List.getLast?_concat
        rw [this] at hc; cases hc; decide
    · intro c hc
      rcases List.mem_cons.mp hc with h | h
      · exact Or.inl h
      · exact Or.inr (List.eq_of_mem_replicate h)

theorem isTitle_titleLine (t : String) (w : Nat) (h : Rd.startsTilde t.toList = true) :
    Rd.isTitle (Wr.titleLine t w) = true := by
  apply Rd.isTitle_of_startsTilde
  obtain ⟨r, hr⟩ := (Rd.startsTilde_iff _).mp h
  unfold Wr.titleLine ljust
  rw [hr]; rfl

def letterOf : SecName → Char
  | .version => 'V' | .well => 'W' | .curves => 'C' | .parameter => 'P' | .other => 'O'

def keyOf : SecName → Rd.RKey
  | .version => Rd.kVersion | .well => Rd.kWell | .curves => Rd.kCurves | .parameter => Rd.kParameter
  | .other => Rd.kOther

/-- `SectionParser(title, version)` for a title `~X…` without underscore, X the letter of one of the four item
sections: the parser object of that kind over the version's table -/
theorem mkParser_kind (kind : SecName) (hk : kind ≠ .other) (c : Char) (r : Str) (v : String)
    (hu : '_' ∉ upper ('~' :: c :: r)) (hc : upperC c = letterOf kind) :
    Rd.mkParser ('~' :: c :: r) (.known v.toList) = .ok (parserOf v kind) := by
  have hl3 : Rd.isLas3Like ('~' :: c :: r) = false := Rd.isLas3Like_false _ hu
  have ht : upperC '~' = '~' := by decide
  have e : ∀ y : Char, startsWith ['~', y] (upper ('~' :: c :: r)) = (letterOf kind == y) := by
    intro y
    simp only [startsWith, upper, List.map_cons, List.isPrefixOf, ht, hc]
    rw [show ('~' == '~') = true by decide, Bool.true_and, Bool.and_true]
    exact Bool.beq_comm
  unfold Rd.mkParser parserOf
  simp only [hl3, Bool.and_false, show "~C".toList = ['~', 'C'] from rfl, show "~P".toList = ['~', 'P'] from rfl,
    show "~W".toList = ['~', 'W'] from rfl, show "~V".toList = ['~', 'V'] from rfl, e]
  cases kind with
  | other => exact absurd rfl hk
  | version =>
    simp only [letterOf, show ('V' == 'C') = false by decide, show ('V' == 'P') = false by decide,
      show ('V' == 'W') = false by decide, show ('V' == 'V') = true by decide, Bool.false_eq_true, if_false, if_true,
      Option.bind_some, orderTable_eq, Wr.secKey, pkindOf]
    cases Wr.sectionOrders v "Version" <;> rfl
  | well =>
    simp only [letterOf, show ('W' == 'C') = false by decide, show ('W' == 'P') = false by decide,
      show ('W' == 'W') = true by decide, Bool.false_eq_true, if_false, if_true,
      Option.bind_some, orderTable_eq, Wr.secKey, pkindOf]
    cases Wr.sectionOrders v "Well" <;> rfl
  | curves =>
    simp only [letterOf, show ('C' == 'C') = true by decide, if_true, Bool.false_eq_true, if_false,
      Option.bind_some, orderTable_eq, Wr.secKey, pkindOf]
    cases Wr.sectionOrders v "Curves" <;> rfl
  | parameter =>
    simp only [letterOf, show ('P' == 'C') = false by decide, show ('P' == 'P') = true by decide,
      Bool.false_eq_true, if_false, if_true,
      Option.bind_some, orderTable_eq, Wr.secKey, pkindOf]
    cases Wr.sectionOrders v "Parameter" <;> rfl

/-! ## one written section read by the whole-file reader -/

theorem sectionType_kind (kind : SecName) (c : Char) (r : Str)
    (hs : strip ('~' :: c :: r) = '~' :: c :: r) (hu : '_' ∉ upper ('~' :: c :: r)) (hc : upperC c = letterOf kind) :
    Rd.sectionType ('~' :: c :: r) = if kind = .other then .other else .items := by
  rw [Rd.sectionType_letter c r (by rw [Rd.sline_eq_strip, hs]) (Rd.underscore_upper _ hu), hc]
  cases kind <;> simp [letterOf]

theorem routeKey_kind (kind : SecName) (hk : kind ≠ .other) (c : Char) (r : Str) (ver : Rd.VerVal)
    (hu : '_' ∉ upper ('~' :: c :: r)) (hc : upperC c = letterOf kind) :
    Rd.routeKey ('~' :: c :: r) ver = .ok (keyOf kind) := by
  rw [Rd.routeKey_letter c r ver hu, hc]
  cases kind <;> first | exact absurd rfl hk | simp [letterOf, keyOf]

theorem isCurvesParser_C (c : Char) (r : Str) (ver : Rd.VerVal)
    (hu : '_' ∉ upper ('~' :: c :: r)) (hc : upperC c = 'C') :
    Rd.isCurvesParser ('~' :: c :: r) ver = true := by
  have hl3 : Rd.isLas3Like ('~' :: c :: r) = false := Rd.isLas3Like_false _ hu
  have ht : upperC '~' = '~' := by decide
  unfold Rd.isCurvesParser
  simp only [hl3, Bool.and_false, Bool.not_false, Bool.true_and]
  simp [startsWith, upper, ht, hc]

theorem keyOf_curves (kind : SecName) : (keyOf kind == Rd.kCurves) = decide (kind = .curves) := by
  cases kind <;> decide

/-- reading one written item section: parser of its kind, every body line as `Wr.readSection` reads it, stored under
the key of its kind -/
theorem docSection_written (o : Rd.ReadOpts) (n : Nat) (t : Str) (body : List Str) (st : Rd.RState)
    (kind : SecName) (hk : kind ≠ .other) (c : Char) (r : Str) (v : String)
    (ht : strip t = '~' :: c :: r) (hu : '_' ∉ upper ('~' :: c :: r)) (hc : upperC c = letterOf kind)
    (hver : Rd.classifyVer st.steer.vers = .known v.toList)
    (hso : (Wr.sectionOrders v (Wr.secKey kind)).isSome = true)
    (hnt : ∀ b ∈ body, Rd.isTitle b = false) (l : List Wr.RItem)
    (hread : Wr.readSection v kind (cvtCase o.mnemonicCase) body = some l) :
    Rd.docSection o n (t, body) st = .ok { st with
      steer := Rd.steer o ('~' :: c :: r) (l.map toRd) st.steer,
      sections := Rd.assign (keyOf kind) (.items (l.map toRd)) st.sections,
      curvesPlain := if kind = .curves then false else st.curvesPlain } := by
  have hs : strip ('~' :: c :: r) = '~' :: c :: r := by rw [← ht, Rd.strip_idem]
  unfold Rd.docSection
  simp only [Rd.sline_eq_strip, Rd.lineStrip_eq_strip, ht, sectionType_kind kind c r hs hu hc, hk, if_false, hver,
    mkParser_kind kind hk c r v hu hc, bodyRun_eq o v kind hk hso body l hnt hread n]
  unfold Rd.finishItems
  simp only [routeKey_kind kind hk c r _ hu hc, keyOf_curves]
  have hlen : ¬ (('~' :: c :: r).length < 2) := by simp
  simp only [hlen, if_false]
  by_cases hcv : kind = .curves
  · subst hcv
    simp [isCurvesParser_C c r _ hu hc]
  · simp [hcv]

theorem titleLetter_cons (c : Char) (r : Str) : Rd.titleLetter ('~' :: c :: r) = [upperC c] := by
  simp [Rd.titleLetter, upper]

/-- reading the written ~Other section: the stripped body lines joined with '\n', stored under "Other" -/
theorem docSection_other (o : Rd.ReadOpts) (n : Nat) (t : Str) (body : List Str) (st : Rd.RState)
    (c : Char) (r : Str) (ht : strip t = '~' :: c :: r) (hu : '_' ∉ upper ('~' :: c :: r)) (hc : upperC c = 'O') :
    Rd.docSection o n (t, body) st = .ok { st with
      sections := Rd.assign Rd.kOther (.text (joinWith ['\n'] (body.map strip))) st.sections } := by
  have hs : strip ('~' :: c :: r) = '~' :: c :: r := by rw [← ht, Rd.strip_idem]
  have hm : body.map Rd.lineStrip = body.map strip := by
    apply List.map_congr_left; intro x _; exact Rd.lineStrip_eq_strip x
  unfold Rd.docSection
  simp only [Rd.sline_eq_strip, ht, sectionType_kind .other c r hs hu hc, if_true, Rd.finishOther, Rd.routeKeyOther,
    titleLetter_cons, hc, hm]
  rfl

theorem steer_V (o : Rd.ReadOpts) (c : Char) (r : Str) (items : List Rd.RItem) (s : Rd.Steer) (hc : upperC c = 'V') :
    (Rd.steer o ('~' :: c :: r) items s).vers =
      Rd.orKeep ((Rd.lookupItem (o.mnemonicCase != .preserve) items "VERS".toList).map (·.value)) s.vers ∧
    (Rd.steer o ('~' :: c :: r) items s).dlm =
      Rd.orKeep ((Rd.lookupItem (o.mnemonicCase != .preserve) items "DLM".toList).map (·.value)) s.dlm := by
  unfold Rd.steer
  simp [titleLetter_cons, hc]

theorem steer_notV (o : Rd.ReadOpts) (c : Char) (r : Str) (items : List Rd.RItem) (s : Rd.Steer) (hc : upperC c ≠ 'V') :
    (Rd.steer o ('~' :: c :: r) items s).vers = s.vers ∧ (Rd.steer o ('~' :: c :: r) items s).dlm = s.dlm := by
  have h : (Rd.titleLetter ('~' :: c :: r) == ['V']) = false := by
    rw [titleLetter_cons]; simpa using hc
  rw [Rd.steer_nonV o _ items s h]
  exact ⟨rfl, rfl⟩

theorem no_underscore (core r : Str) (hcore : '_' ∉ upper core) (hr : TitleTail r) : '_' ∉ upper (core ++ r) := by
  intro h
  simp only [upper, List.map_append, List.mem_append] at h
  rcases h with h | h
  · exact hcore h
  · obtain ⟨x, hx, hxe⟩ := List.mem_map.mp h
    rcases hr x hx with rfl | rfl <;> exact absurd hxe (by decide)

/-- what the reader sees of a written title line -/
theorem title_facts (T : String) (c : Char) (rest : Str) (w : Nat)
    (hT : T.toList = ('~' :: c :: rest) ++ [' '])
    (hl : ∀ x, ('~' :: c :: rest).getLast? = some x → isPySpace x = false)
    (hcore : '_' ∉ upper ('~' :: c :: rest)) :
    ∃ r, strip (Wr.titleLine T w) = '~' :: c :: r ∧ '_' ∉ upper ('~' :: c :: r) := by
  obtain ⟨r, hr, htail⟩ := strip_titleLine ('~' :: c :: rest) w
    (by intro x hx; simp at hx; subst hx; decide) hl (by simp)
  refine ⟨rest ++ r, ?_, ?_⟩
  · unfold Wr.titleLine; rw [hT, hr]; rfl
  · exact no_underscore ('~' :: c :: rest) r hcore htail

/-! ## the five written sections -/

/-- the five (title, lines) pairs of `Wr.headerSections` as a document of the reader model -/
def written (w : Nat) (secs : List (String × List Str)) : List (Str × List Str) :=
  secs.map fun tl => (Wr.titleLine tl.1 w, tl.2)

theorem flat_written (w : Nat) (secs : List (String × List Str)) :
    secs.flatMap (fun tl => Wr.titleLine tl.1 w :: tl.2) = Rd.flat (written w secs) := by
  induction secs with
  | nil => rfl
  | cons tl rest ih => simp only [List.flatMap_cons, written, List.map_cons, Rd.flat] at ih ⊢; rw [ih]

theorem v20_version : (Wr.sectionOrders "2.0" (Wr.secKey .version)).isSome = true := by decide

theorem assign_five (a b c d e : Rd.SecVal) :
    Rd.assign Rd.kOther e (Rd.assign Rd.kParameter d (Rd.assign Rd.kCurves c (Rd.assign Rd.kWell b
      (Rd.assign Rd.kVersion a Rd.initSections)))) =
    [(Rd.kVersion, some a), (Rd.kWell, some b), (Rd.kCurves, some c), (Rd.kParameter, some d), (Rd.kOther, some e)] := by
  rfl

/-- READING THE FIVE WRITTEN SECTIONS.  `iv`/`iw`/`ic`/`ip`: what `Wr.readSection` reads back from the lines of each
section (the ~Version section under the provisional version 2.0, the others under the version `v` its VERS item
announces, `hvers`/`hcls`). -/
theorem docSections_written (o : Rd.ReadOpts) (v : String) (w : Nat) (lv lw lc lp lo : List Str)
    (iv iw ic ip : List Wr.RItem) (vtext : Str)
    (hso : ∀ kind, kind ≠ .other → (Wr.sectionOrders v (Wr.secKey kind)).isSome = true)
    (hnv : ∀ b ∈ lv, Rd.isTitle b = false) (hnw : ∀ b ∈ lw, Rd.isTitle b = false)
    (hnc : ∀ b ∈ lc, Rd.isTitle b = false) (hnp : ∀ b ∈ lp, Rd.isTitle b = false)
    (hrv : Wr.readSection "2.0" .version (cvtCase o.mnemonicCase) lv = some iv)
    (hrw : Wr.readSection v .well (cvtCase o.mnemonicCase) lw = some iw)
    (hrc : Wr.readSection v .curves (cvtCase o.mnemonicCase) lc = some ic)
    (hrp : Wr.readSection v .parameter (cvtCase o.mnemonicCase) lp = some ip)
    (hvers : (Rd.lookupItem (o.mnemonicCase != .preserve) (iv.map toRd) "VERS".toList).map (·.value) = some vtext)
    (hcls : Rd.classifyVer (some vtext) = .known v.toList) :
    ∃ st, Rd.docSections o (written w [("~Version ", lv), ("~Well ", lw), ("~Curve Information ", lc),
        ("~Params ", lp), ("~Other ", lo)]) 0 Rd.RState.init = .ok st ∧
      st.sections = [(Rd.kVersion, some (.items (iv.map toRd))), (Rd.kWell, some (.items (iw.map toRd))),
        (Rd.kCurves, some (.items (ic.map toRd))), (Rd.kParameter, some (.items (ip.map toRd))),
        (Rd.kOther, some (.text (joinWith ['\n'] (lo.map strip))))] ∧
      st.curvesPlain = false ∧ st.data = [] ∧ st.las3 = [] ∧ st.steer.vers = some vtext ∧
      st.steer.dlm = (Rd.lookupItem (o.mnemonicCase != .preserve) (iv.map toRd) "DLM".toList).map (·.value) := by
  obtain ⟨r1, ht1, hu1⟩ := title_facts "~Version " 'V' "ersion".toList w rfl (by decide) (by decide)
  obtain ⟨r2, ht2, hu2⟩ := title_facts "~Well " 'W' "ell".toList w rfl (by decide) (by decide)
  obtain ⟨r3, ht3, hu3⟩ := title_facts "~Curve Information " 'C' "urve Information".toList w rfl (by decide) (by decide)
  obtain ⟨r4, ht4, hu4⟩ := title_facts "~Params " 'P' "arams".toList w rfl (by decide) (by decide)
  obtain ⟨r5, ht5, hu5⟩ := title_facts "~Other " 'O' "ther".toList w rfl (by decide) (by decide)
  have hV : upperC 'V' = 'V' := by decide
  have hW : upperC 'W' = 'W' := by decide
  have hC : upperC 'C' = 'C' := by decide
  have hP : upperC 'P' = 'P' := by decide
  have hO : upperC 'O' = 'O' := by decide
  -- ~Version, read under the default provisional version 2.0
  have d1 := docSection_written o 0 (Wr.titleLine "~Version " w) lv Rd.RState.init .version (by decide) 'V' r1 "2.0"
    ht1 hu1 hV rfl v20_version hnv iv hrv
  generalize hst1 : ({ Rd.RState.init with
      steer := Rd.steer o ('~' :: 'V' :: r1) (iv.map toRd) Rd.RState.init.steer,
      sections := Rd.assign (keyOf .version) (.items (iv.map toRd)) Rd.RState.init.sections,
      curvesPlain := if SecName.version = .curves then false else Rd.RState.init.curvesPlain } : Rd.RState) = st1 at d1
  have sv1 := steer_V o 'V' r1 (iv.map toRd) Rd.RState.init.steer hV
  have hv1 : st1.steer.vers = some vtext := by
    rw [← hst1]; simp only []; rw [sv1.1, hvers]; rfl
  have hd1 : st1.steer.dlm = (Rd.lookupItem (o.mnemonicCase != .preserve) (iv.map toRd) "DLM".toList).map (·.value) := by
    rw [← hst1]; simp only []; rw [sv1.2]
    cases (Rd.lookupItem (o.mnemonicCase != .preserve) (iv.map toRd) "DLM".toList).map (·.value) <;> rfl
  -- ~Well
  have d2 := docSection_written o (0 + 1 + lv.length) (Wr.titleLine "~Well " w) lw st1 .well (by decide) 'W' r2 v
    ht2 hu2 hW (by rw [hv1, hcls]) (hso .well (by decide)) hnw iw hrw
  generalize hst2 : ({ st1 with
      steer := Rd.steer o ('~' :: 'W' :: r2) (iw.map toRd) st1.steer,
      sections := Rd.assign (keyOf .well) (.items (iw.map toRd)) st1.sections,
      curvesPlain := if SecName.well = .curves then false else st1.curvesPlain } : Rd.RState) = st2 at d2
  have sv2 := steer_notV o 'W' r2 (iw.map toRd) st1.steer (by decide)
  have hv2 : st2.steer.vers = some vtext := by rw [← hst2]; simp only []; rw [sv2.1, hv1]
  have hd2 : st2.steer.dlm = st1.steer.dlm := by rw [← hst2]; simp only []; rw [sv2.2]
  -- ~Curve Information
  have d3 := docSection_written o (0 + 1 + lv.length + 1 + lw.length) (Wr.titleLine "~Curve Information " w) lc st2
    .curves (by decide) 'C' r3 v ht3 hu3 hC (by rw [hv2, hcls]) (hso .curves (by decide)) hnc ic hrc
  generalize hst3 : ({ st2 with
      steer := Rd.steer o ('~' :: 'C' :: r3) (ic.map toRd) st2.steer,
      sections := Rd.assign (keyOf .curves) (.items (ic.map toRd)) st2.sections,
      curvesPlain := if SecName.curves = .curves then false else st2.curvesPlain } : Rd.RState) = st3 at d3
  have sv3 := steer_notV o 'C' r3 (ic.map toRd) st2.steer (by decide)
  have hv3 : st3.steer.vers = some vtext := by rw [← hst3]; simp only []; rw [sv3.1, hv2]
  have hd3 : st3.steer.dlm = st2.steer.dlm := by rw [← hst3]; simp only []; rw [sv3.2]
  -- ~Params
  have d4 := docSection_written o (0 + 1 + lv.length + 1 + lw.length + 1 + lc.length) (Wr.titleLine "~Params " w) lp st3
    .parameter (by decide) 'P' r4 v ht4 hu4 hP (by rw [hv3, hcls]) (hso .parameter (by decide)) hnp ip hrp
  generalize hst4 : ({ st3 with
      steer := Rd.steer o ('~' :: 'P' :: r4) (ip.map toRd) st3.steer,
      sections := Rd.assign (keyOf .parameter) (.items (ip.map toRd)) st3.sections,
      curvesPlain := if SecName.parameter = .curves then false else st3.curvesPlain } : Rd.RState) = st4 at d4
  have sv4 := steer_notV o 'P' r4 (ip.map toRd) st3.steer (by decide)
  have hv4 : st4.steer.vers = some vtext := by rw [← hst4]; simp only []; rw [sv4.1, hv3]
  have hd4 : st4.steer.dlm = st3.steer.dlm := by rw [← hst4]; simp only []; rw [sv4.2]
  -- ~Other
  have d5 := docSection_other o (0 + 1 + lv.length + 1 + lw.length + 1 + lc.length + 1 + lp.length)
    (Wr.titleLine "~Other " w) lo st4 'O' r5 ht5 hu5 hO
  refine ⟨{ st4 with sections := Rd.assign Rd.kOther (.text (joinWith ['\n'] (lo.map strip))) st4.sections },
    ?_, ?_, ?_, ?_, ?_, ?_, ?_⟩
  · simp only [written, List.map_cons, List.map_nil, Rd.docSections, d1, d2, d3, d4, d5]
  · simp only []
    rw [← hst4, ← hst3, ← hst2, ← hst1]
    exact assign_five _ _ _ _ _
  · simp only []
    rw [← hst4, ← hst3, ← hst2, ← hst1]
    rfl
  · simp only []
    rw [← hst4, ← hst3, ← hst2, ← hst1]; rfl
  · simp only []
    rw [← hst4, ← hst3, ← hst2, ← hst1]; rfl
  · exact hv4
  · simp only []; rw [hd4, hd3, hd2, hd1]

/-! ## the written header is a well-formed document -/

theorem startsTilde_false_iff (s : Str) : Rd.startsTilde s = false ↔ s.head? ≠ some '~' := by
  cases s with
  | nil => simp [Rd.startsTilde]
  | cons a t =>
    by_cases h : a = '~'
    · subst h; simp [Rd.startsTilde]
    · constructor
      · intro _; simpa using h
      · intro _
        cases hs : Rd.startsTilde (a :: t) with
        | false => rfl
        | true =>
          obtain ⟨t', ht'⟩ := (Rd.startsTilde_iff _).mp hs
          simp at ht'; exact absurd ht'.1 h

/-- an item line is not taken for a section title: it starts with the mnemonic -/
theorem isTitle_formatItem (o : Wr.Order) (W : Wr.Widths) (it : Wr.WItem)
    (hne : it.orig ≠ []) (hs : strip it.orig = it.orig) (hm : it.orig.head? ≠ some '~') :
    Rd.isTitle (Wr.formatItem o W it) = false := by
  obtain ⟨a, t, hat⟩ : ∃ a t, it.orig = a :: t := by
    cases h : it.orig with
    | nil => exact absurd h hne
    | cons a t => exact ⟨a, t, rfl⟩
  have ha : isPySpace a = false := Wr.head_nospace_of_strip hs a (by rw [hat]; rfl)
  have hat' : a ≠ '~' := by intro h; apply hm; rw [hat, h]; rfl
  obtain ⟨rest, hrest⟩ : ∃ rest, Wr.formatItem o W it = a :: rest := by
    have hh : (Wr.formatItem o W it).head? = some a := by simp [Wr.formatItem, ljust, hat]
    cases hf : Wr.formatItem o W it with
    | nil => rw [hf] at hh; cases hh
    | cons b rest =>
      rw [hf] at hh
      simp only [List.head?_cons, Option.some.injEq] at hh
      subst hh
      exact ⟨rest, rfl⟩
  rw [Rd.isTitle_eq, hrest]
  have := Rd.strip_split [] a rest (by simp) ha
  simp only [List.nil_append] at this
  rw [this, startsTilde_false_iff]
  simpa using hat'

theorem writeSection_lines (v s : String) (items : List Wr.WItem) (lines : List Str)
    (h : Wr.writeSection v s items = .ok lines) :
    ∀ l ∈ lines, ∃ it ∈ items, ∃ o W, l = Wr.formatItem o W it := by
  unfold Wr.writeSection at h
  split at h
  · cases h
  · split at h
    · simp only [Except.ok.injEq] at h
      subst h
      intro l hl
      unfold Wr.sectionLines at hl
      obtain ⟨it, hit, rfl⟩ := List.mem_map.mp hl
      exact ⟨it, hit, _, _, rfl⟩
    · cases h

/-- the lines of a written item section are no title lines when no mnemonic starts with '~' -/
theorem writeSection_notitle (v s : String) (items : List Wr.WItem) (lines : List Str)
    (h : Wr.writeSection v s items = .ok lines)
    (hi : ∀ it ∈ items, it.orig ≠ [] ∧ strip it.orig = it.orig ∧ it.orig.head? ≠ some '~') :
    ∀ l ∈ lines, Rd.isTitle l = false := by
  intro l hl
  obtain ⟨it, hit, o, W, rfl⟩ := writeSection_lines v s items lines h l hl
  obtain ⟨h1, h2, h3⟩ := hi it hit
  exact isTitle_formatItem o W it h1 h2 h3

theorem wellFormed_written (w : Nat) (lv lw lc lp lo : List Str)
    (hnv : ∀ b ∈ lv, Rd.isTitle b = false) (hnw : ∀ b ∈ lw, Rd.isTitle b = false)
    (hnc : ∀ b ∈ lc, Rd.isTitle b = false) (hnp : ∀ b ∈ lp, Rd.isTitle b = false)
    (hno : ∀ b ∈ lo, Rd.isTitle b = false) :
    Rd.WellFormed (written w [("~Version ", lv), ("~Well ", lw), ("~Curve Information ", lc),
        ("~Params ", lp), ("~Other ", lo)]) := by
  intro tb htb
  simp only [written, List.map_cons, List.map_nil, List.mem_cons, List.not_mem_nil, or_false] at htb
  rcases htb with rfl | rfl | rfl | rfl | rfl
  · exact ⟨isTitle_titleLine _ w rfl, hnv⟩
  · exact ⟨isTitle_titleLine _ w rfl, hnw⟩
  · exact ⟨isTitle_titleLine _ w rfl, hnc⟩
  · exact ⟨isTitle_titleLine _ w rfl, hnp⟩
  · exact ⟨isTitle_titleLine _ w rfl, hno⟩

/-- the whole-file reader on the written lines: `processSections` over the windows `findSections` finds, and
`readLines` when the DLM value (if any) names a delimiter -/
theorem readLines_written (o : Rd.ReadOpts) (v : String) (w : Nat) (lv lw lc lp lo : List Str)
    (iv iw ic ip : List Wr.RItem) (vtext : Str)
    (hso : ∀ kind, kind ≠ .other → (Wr.sectionOrders v (Wr.secKey kind)).isSome = true)
    (hnv : ∀ b ∈ lv, Rd.isTitle b = false) (hnw : ∀ b ∈ lw, Rd.isTitle b = false)
    (hnc : ∀ b ∈ lc, Rd.isTitle b = false) (hnp : ∀ b ∈ lp, Rd.isTitle b = false)
    (hno : ∀ b ∈ lo, Rd.isTitle b = false)
    (hrv : Wr.readSection "2.0" .version (cvtCase o.mnemonicCase) lv = some iv)
    (hrw : Wr.readSection v .well (cvtCase o.mnemonicCase) lw = some iw)
    (hrc : Wr.readSection v .curves (cvtCase o.mnemonicCase) lc = some ic)
    (hrp : Wr.readSection v .parameter (cvtCase o.mnemonicCase) lp = some ip)
    (hvers : (Rd.lookupItem (o.mnemonicCase != .preserve) (iv.map toRd) "VERS".toList).map (·.value) = some vtext)
    (hcls : Rd.classifyVer (some vtext) = .known v.toList)
    (lines : List Str)
    (hlines : lines = [("~Version ", lv), ("~Well ", lw), ("~Curve Information ", lc), ("~Params ", lp),
      ("~Other ", lo)].flatMap (fun tl => Wr.titleLine tl.1 w :: tl.2)) :
    let secs := [(Rd.kVersion, Rd.SecVal.items (iv.map toRd)), (Rd.kWell, .items (iw.map toRd)),
        (Rd.kCurves, .items (ic.map toRd)), (Rd.kParameter, .items (ip.map toRd)),
        (Rd.kOther, .text (joinWith ['\n'] (lo.map strip)))]
    (∃ st, Rd.processSections o lines (Rd.findSections lines) Rd.RState.init = .ok st ∧
      st.sections = secs.map (fun kv => (kv.1, some kv.2)) ∧ st.steer.vers = some vtext) ∧
    ((∀ d, (Rd.lookupItem (o.mnemonicCase != .preserve) (iv.map toRd) "DLM".toList).map (·.value) = some d →
        Rd.delimiters.contains d = true) →
      ∃ steer, Rd.readLines o lines = .ok ⟨secs, steer, []⟩ ∧ steer.vers = some vtext) := by
  intro secs
  have hw := wellFormed_written w lv lw lc lp lo hnv hnw hnc hnp hno
  obtain ⟨st, hst, hsec, hpl, hdata, hlas3, hv, hd⟩ := docSections_written o v w lv lw lc lp lo iv iw ic ip vtext hso
    hnv hnw hnc hnp hrv hrw hrc hrp hvers hcls
  rw [flat_written] at hlines
  have e1 := Rd.C05_read_rendered o [] _ Rd.RState.init (by simp) hw
  simp only [List.nil_append, List.length_nil] at e1
  refine ⟨⟨st, by rw [hlines, e1, hst], by rw [hsec]; rfl, hv⟩, ?_⟩
  intro hdlm
  have e2 := Rd.C05_read_rendered_lines o [] _ (by simp) hw (by simp [written])
  simp only [List.nil_append, List.length_nil] at e2
  refine ⟨st.steer, ?_, hv⟩
  rw [hlines, e2, hst]
  cases hdl : st.steer.dlm with
  | none => simp [Rd.finishRead, hdl, hpl, hdata, hlas3, hsec, secs]
  | some d =>
    have : d ∈ Rd.delimiters := by simpa using hdlm d (hd ▸ hdl)
    simp [Rd.finishRead, hdl, this, hpl, hdata, hlas3, hsec, secs]

/-! ## the writer side: what `headerSections` writes -/

/-- ~Version after the WRAP substitution (`las.version` itself when `wrap=None`) -/
def wrapSection (wrap : Option Bool) (las : Wr.WLas) : List Wr.WItem :=
  match wrap with
  | none => las.version
  | some w => Wr.wSetItem las.versionTr "WRAP".toList (Wr.wrapItem w) las.version

/-- the copy of ~Version that `write` formats: WRAP and VERS substituted -/
def versionCopy (version : String) (wrap : Option Bool) (las : Wr.WLas) : List Wr.WItem :=
  match Wr.versItem version with
  | some it => Wr.wSetItem las.versionTr "VERS".toList it (wrapSection wrap las)
  | none => wrapSection wrap las

theorem headerSections_ok (version : String) (wrap : Option Bool) (las las' : Wr.WLas)
    (secs : List (String × List Str)) (h : Wr.headerSections version wrap las = .ok (secs, las')) :
    (version = "1.2" ∨ version = "2.0") ∧
    ∃ lv lw lc lp,
      Wr.writeSection version "Version" (versionCopy version wrap las) = .ok lv ∧
      Wr.writeSection version "Well" (Wr.standardizeItems las.well) = .ok lw ∧
      Wr.writeSection version "Curves" las.curves = .ok lc ∧
      Wr.writeSection version "Parameter" (Wr.standardizeItems las.params) = .ok lp ∧
      secs = [("~Version ", lv), ("~Well ", lw), ("~Curve Information ", lc), ("~Params ", lp),
        ("~Other ", Wr.splitlines las.other)] ∧
      las' = { las with version := wrapSection wrap las, well := Wr.standardizeItems las.well,
                        params := Wr.standardizeItems las.params } := by
  unfold Wr.headerSections at h
  simp only [bind, Except.bind, pure, Except.pure, throw, throwThe, MonadExceptOf.throw] at h
  cases hvi : Wr.versItem version with
  | none =>
    simp only [hvi] at h
    split at h <;> first | cases h | (split at h <;> cases h)
  | some vers =>
    have hver : version = "1.2" ∨ version = "2.0" := by
      unfold Wr.versItem at hvi
      by_cases h1 : version = "1.2"
      · exact Or.inl h1
      · by_cases h2 : version = "2.0"
        · exact Or.inr h2
        · simp [h1, h2] at hvi
    refine ⟨hver, ?_⟩
    have hvc : versionCopy version wrap las = Wr.wSetItem las.versionTr "VERS".toList vers (wrapSection wrap las) := by
      simp [versionCopy, hvi]
    rw [hvc]
    simp only [hvi] at h
    have fin : ∀ (vc : List Wr.WItem) (A B C D : Except Err (List Str)) (X : Wr.WLas),
        A = Wr.writeSection version "Version" vc →
        B = Wr.writeSection version "Well" (Wr.standardizeItems las.well) →
        C = Wr.writeSection version "Curves" las.curves →
        D = Wr.writeSection version "Parameter" (Wr.standardizeItems las.params) →
        (A >>= fun v => B >>= fun v1 => C >>= fun v2 => D >>= fun v3 =>
          (pure ([("~Version ", v), ("~Well ", v1), ("~Curve Information ", v2), ("~Params ", v3),
            ("~Other ", Wr.splitlines las.other)], X) : Except Err (List (String × List Str) × Wr.WLas))) =
          .ok (secs, las') →
        ∃ lv lw lc lp,
          Wr.writeSection version "Version" vc = .ok lv ∧
          Wr.writeSection version "Well" (Wr.standardizeItems las.well) = .ok lw ∧
          Wr.writeSection version "Curves" las.curves = .ok lc ∧
          Wr.writeSection version "Parameter" (Wr.standardizeItems las.params) = .ok lp ∧
          secs = [("~Version ", lv), ("~Well ", lw), ("~Curve Information ", lc), ("~Params ", lp),
            ("~Other ", Wr.splitlines las.other)] ∧ las' = X := by
      intro vc A B C D X hA hB hC hD hh
      rw [← hA, ← hB, ← hC, ← hD]
      cases A with
      | error e => cases hh
      | ok a =>
        cases B with
        | error e => cases hh
        | ok b =>
          cases C with
          | error e => cases hh
          | ok c =>
            cases D with
            | error e => cases hh
            | ok d =>
              simp only [bind, Except.bind, pure, Except.pure, Except.ok.injEq, Prod.mk.injEq] at hh
              exact ⟨a, b, c, d, rfl, rfl, rfl, rfl, hh.1.symm, hh.2.symm⟩
    cases wrap with
    | none =>
      cases hf : findFirst (fun x => cmpStr las.versionTr x.session "WRAP".toList) las.version with
      | none => rw [hf] at h; dsimp only at h; cases h
      | some i =>
        rw [hf] at h
        dsimp only at h
        exact fin (Wr.wSetItem las.versionTr "VERS".toList vers las.version) _ _ _ _ _ rfl rfl rfl rfl h
    | some w =>
      dsimp only at h
      exact fin (Wr.wSetItem las.versionTr "VERS".toList vers
        (Wr.wSetItem las.versionTr "WRAP".toList (Wr.wrapItem w) las.version)) _ _ _ _ _ rfl rfl rfl rfl h

/-- the ~Version section is read under the provisional version 2.0 whatever version the file announces; for the two
versions `write` produces this makes no difference (same ~Version order table) -/
theorem readSection_version_prov (v : String) (hv : v = "1.2" ∨ v = "2.0") (c : Wr.MCase) (lines : List Str) :
    Wr.readSection "2.0" .version c lines = Wr.readSection v .version c lines := by
  rcases hv with rfl | rfl
  · have hro : ∀ m, Wr.readerOrderOf "2.0" .version m = Wr.readerOrderOf "1.2" .version m := by
      intro m
      have h1 : Wr.sectionOrders "2.0" (Wr.secKey .version) = some ("value:descr", []) := by decide
      have h2 : Wr.sectionOrders "1.2" (Wr.secKey .version) = some ("value:descr", []) := by decide
      have p1 : Wr.versionPresent "2.0" = true := by decide
      have p2 : Wr.versionPresent "1.2" = true := by decide
      simp only [Wr.readerOrderOf, h1, h2, p1, p2]
    have hri : ∀ l, Wr.readItem "2.0" .version c l = Wr.readItem "1.2" .version c l := by
      intro l
      have p1 : Wr.versionPresent "2.0" = true := by decide
      have p2 : Wr.versionPresent "1.2" = true := by decide
      simp only [Wr.readItem, hro, p1, p2]
    have hrl : ∀ l, Wr.readLine "2.0" .version c l = Wr.readLine "1.2" .version c l := by
      intro l; simp only [Wr.readLine, hri]
    induction lines with
    | nil => rfl
    | cons l ls ih => simp only [Wr.readSection, hrl, ih]
  · rfl

theorem sectionOrders_some (v : String) (hv : v = "1.2" ∨ v = "2.0") (kind : SecName) (hk : kind ≠ .other) :
    (Wr.sectionOrders v (Wr.secKey kind)).isSome = true := by
  rcases hv with rfl | rfl <;> cases kind <;> first | exact absurd rfl hk | decide

theorem classifyVer_written (v : String) (hv : v = "1.2" ∨ v = "2.0") :
    Rd.classifyVer (some v.toList) = .known v.toList := by
  rcases hv with rfl | rfl <;> decide

theorem versItem_text (v : String) (it : Wr.WItem) (h : Wr.versItem v = some it) : it.value.text = v.toList := by
  unfold Wr.versItem at h
  split at h
  · rename_i h1
    have : v = "1.2" := by simpa using h1
    subst this; cases h; rfl
  · split at h
    · rename_i _ h2
      have : v = "2.0" := by simpa using h2
      subst this; cases h; rfl
    · cases h

/-- the reader's `section.KEY` lookup on the re-read items of a written section -/
theorem lookup_written (tr : Bool) (c : Wr.MCase) (key : Str) (hk : ':' ∉ Rd.ck tr key) (items : List Wr.WItem) :
    Rd.lookupItem tr ((items.map (Wr.expected c)).map toRd) key =
      Rd.uniq ((items.filter fun it => Rd.mcmp tr (Rd.usefulMn (Wr.caseMap c it.orig)) key).map
        fun it => toRd (Wr.expected c it)) := by
  rw [Rd.lookupItem_eq tr key hk, List.map_map, List.filter_map]
  rfl

/-! ## `set_item` changes session mnemonics only -/

/-- the fields of an item that are written to the file -/
def textOf (it : Wr.WItem) : Str × Str × Wr.WVal × Str := (it.orig, it.unit, it.value, it.descr)

theorem wRenumber_text (tr : Bool) (test : Str) (items : List Wr.WItem) (k : Nat) :
    (Wr.wRenumber tr test items k).map textOf = items.map textOf := by
  induction items generalizing k with
  | nil => rfl
  | cons it rest ih =>
    simp only [Wr.wRenumber]
    split
    · simp only [List.map_cons, ih]; rfl
    · simp only [List.map_cons, ih]

theorem wAssignSuffixes_text (tr : Bool) (test : Str) (items : List Wr.WItem) :
    (Wr.wAssignSuffixes tr test items).map textOf = items.map textOf := by
  unfold Wr.wAssignSuffixes
  split
  · exact wRenumber_text tr test items 0
  · rfl

theorem wSetItem_mem (tr : Bool) (key : Str) (it : Wr.WItem) (items : List Wr.WItem) :
    ∀ x ∈ Wr.wSetItem tr key it items, ∃ y, (y = it ∨ y ∈ items) ∧ textOf x = textOf y := by
  intro x hx
  have hx' : textOf x ∈ (Wr.wSetItem tr key it items).map textOf := List.mem_map_of_mem hx
  unfold Wr.wSetItem at hx'
  split at hx'
  · rename_i i _
    rw [wAssignSuffixes_text] at hx'
    obtain ⟨y, hy, hye⟩ := List.mem_map.mp hx'
    rcases List.mem_or_eq_of_mem_set hy with h | h
    · exact ⟨y, Or.inr h, hye.symm⟩
    · exact ⟨y, Or.inl h, hye.symm⟩
  · rw [wAssignSuffixes_text] at hx'
    obtain ⟨y, hy, hye⟩ := List.mem_map.mp hx'
    rcases List.mem_append.mp hy with h | h
    · exact ⟨y, Or.inr h, hye.symm⟩
    · exact ⟨y, Or.inl (by simpa using h), hye.symm⟩

/-- every item of the written ~Version section is an item of `las.version`, the WRAP item or the VERS item, up to
its session mnemonic -/
theorem versionCopy_mem (version : String) (wrap : Option Bool) (las : Wr.WLas) :
    ∀ x ∈ versionCopy version wrap las, ∃ y,
      (y ∈ las.version ∨ (∃ b, y = Wr.wrapItem b) ∨ Wr.versItem version = some y) ∧ textOf x = textOf y := by
  have hw : ∀ x ∈ wrapSection wrap las, ∃ y, (y ∈ las.version ∨ (∃ b, y = Wr.wrapItem b)) ∧ textOf x = textOf y := by
    intro x hx
    unfold wrapSection at hx
    cases wrap with
    | none => exact ⟨x, Or.inl hx, rfl⟩
    | some b =>
      obtain ⟨y, hy, hye⟩ := wSetItem_mem _ _ _ _ x hx
      rcases hy with h | h
      · exact ⟨y, Or.inr ⟨b, h⟩, hye⟩
      · exact ⟨y, Or.inl h, hye⟩
  intro x hx
  unfold versionCopy at hx
  cases hv : Wr.versItem version with
  | none =>
    rw [hv] at hx
    obtain ⟨y, hy, hye⟩ := hw x hx
    rcases hy with h | h
    · exact ⟨y, Or.inl h, hye⟩
    · exact ⟨y, Or.inr (Or.inl h), hye⟩
  | some vi =>
    rw [hv] at hx
    obtain ⟨y, hy, hye⟩ := wSetItem_mem _ _ _ _ x hx
    rcases hy with h | h
    · exact ⟨y, Or.inr (Or.inr (by rw [h])), hye⟩
    · obtain ⟨z, hz, hze⟩ := hw y h
      rcases hz with h' | h'
      · exact ⟨z, Or.inl h', hye.trans hze⟩
      · exact ⟨z, Or.inr (Or.inl h'), hye.trans hze⟩

/-! ## the four written item-section titles -/

def titleOf : SecName → String
  | .version => "~Version " | .well => "~Well " | .curves => "~Curve Information " | .parameter => "~Params "
  | .other => "~Other "

theorem title_written (kind : SecName) (w : Nat) :
    ∃ r, strip (Wr.titleLine (titleOf kind) w) = '~' :: letterOf kind :: r ∧ '_' ∉ upper ('~' :: letterOf kind :: r) := by
  cases kind with
  | version => exact title_facts "~Version " 'V' "ersion".toList w rfl (by decide) (by decide)
  | well => exact title_facts "~Well " 'W' "ell".toList w rfl (by decide) (by decide)
  | curves => exact title_facts "~Curve Information " 'C' "urve Information".toList w rfl (by decide) (by decide)
  | parameter => exact title_facts "~Params " 'P' "arams".toList w rfl (by decide) (by decide)
  | other => exact title_facts "~Other " 'O' "ther".toList w rfl (by decide) (by decide)

theorem upperC_letterOf (kind : SecName) : upperC (letterOf kind) = letterOf kind := by
  cases kind <;> decide

/-- what the reader derives from a written title: section type, key of `las.sections`, parser object -/
theorem written_title_dispatch (kind : SecName) (hk : kind ≠ .other) (v : String) (ver : Rd.VerVal) (w : Nat) :
    Rd.sectionType (Rd.sline (Wr.titleLine (titleOf kind) w)) = .items ∧
    Rd.routeKey (Rd.sline (Wr.titleLine (titleOf kind) w)) ver = .ok (keyOf kind) ∧
    Rd.mkParser (Rd.lineStrip (Wr.titleLine (titleOf kind) w)) (.known v.toList) = .ok (parserOf v kind) := by
  obtain ⟨r, hr, hu⟩ := title_written kind w
  have hs : strip ('~' :: letterOf kind :: r) = '~' :: letterOf kind :: r := by rw [← hr, Rd.strip_idem]
  rw [Rd.sline_eq_strip, Rd.lineStrip_eq_strip, hr]
  refine ⟨?_, routeKey_kind kind hk _ r ver hu (upperC_letterOf kind), mkParser_kind kind hk _ r v hu (upperC_letterOf kind)⟩
  rw [sectionType_kind kind _ r hs hu (upperC_letterOf kind)]
  simp [hk]

theorem mcmp_dlm_false (o : Rd.ReadOpts) (orig : Str) (h : upper orig ≠ "DLM".toList) :
    Rd.mcmp (o.mnemonicCase != .preserve) (Rd.usefulMn (Wr.caseMap (cvtCase o.mnemonicCase) orig)) "DLM".toList =
      false := by
  unfold Rd.usefulMn
  split
  · cases o.mnemonicCase <;> decide
  · cases hm : Rd.mcmp (o.mnemonicCase != .preserve) (Wr.caseMap (cvtCase o.mnemonicCase) orig) "DLM".toList with
    | false => rfl
    | true =>
      exfalso; apply h
      have hD : upper "DLM".toList = "DLM".toList := by decide
      cases hc : o.mnemonicCase with
      | preserve =>
        rw [hc] at hm
        have : orig = "DLM".toList := by simpa [Rd.mcmp, cvtCase, Wr.caseMap] using hm
        rw [this, hD]
      | upper =>
        rw [hc] at hm
        have : upper (upper orig) = upper "DLM".toList := by simpa [Rd.mcmp, cvtCase, Wr.caseMap] using hm
        rw [upper_idem, hD] at this; exact this
      | lower =>
        rw [hc] at hm
        have : upper (lower orig) = upper "DLM".toList := by simpa [Rd.mcmp, cvtCase, Wr.caseMap] using hm
        rw [upper_lower, hD] at this; exact this

end Lasio.RH
