import LasioProofs.Lemmas.DataLemmas
/-
Helper lemmas for Props/C02Tab: the data-section model on files that declare `DLM TAB` (`Dlm.tab`).

`splitTab` (`sot_regex.findall`) separates items at TAB characters only — a blank is an ordinary item character for it — so the
domain is narrowed: the tokens of a data line are separated by non-empty runs of TABs (`TabCore`); the padding around the line may
still be any whitespace, because `cleanLine` strips it.  Everything the TAB domain implies for the default domain (`Core`, `RowLine`,
`Body`, `PlainData`) is obtained through the implications `TabCore.toCore`, …, `TabPlainData.toPlain`, so that the lemmas about the
numpy engine (which never looks at the delimiter) and about cleaning/substitutions are reused unchanged.
-/
namespace Lasio.Dt

/-! ### TAB runs -/

/-- every character is a TAB -/
def AllTab (s : Str) : Prop := ∀ c ∈ s, c = '\t'

theorem allTab_allWs {s : Str} (h : AllTab s) : AllWs s := by
  intro c hc
  rw [h c hc]
  decide

/-- empty, or starting with a TAB -/
def TabHead (s : Str) : Prop := s = [] ∨ ∃ r, s = '\t' :: r

theorem tabHead_of_allTab_append (a b : Str) (ha : AllTab a) (hne : a ≠ []) : TabHead (a ++ b) := by
  cases a with
  | nil => exact absurd rfl hne
  | cons w r =>
    have : w = '\t' := ha w (by simp)
    subst this
    exact Or.inr ⟨r ++ b, rfl⟩

/-- a token character is not a TAB -/
theorem tokChar_ne_tab (c : Char) (h : tokChar c = true) : (c == '\t') = false := by
  have h1 := (tokChar_parts c h).1
  rw [beq_eq_false_iff_ne]
  intro e
  subst e
  exact absurd h1 (by decide)

/-! ### the `findall` scanner of `splitTab` on TAB-separated tokens -/

/-- the item regex of `sot_regex` never starts on a TAB -/
theorem mSplitTab_tab (r : Str) : mSplit (· == '\t') ('\t' :: r) = none := by
  have h1 : ('\t' == '"') = false := by decide
  have h2 : ('\t' == '\'') = false := by decide
  simp [mSplit, h1, h2]

/-- the item regex of `sot_regex` takes a whole token when a TAB (or the end) follows -/
theorem mSplitTab_takes (c : Char) (t tail : Str) (hc : ∀ x ∈ c :: t, tokChar x = true) (hw : TabHead tail) :
    mSplit (· == '\t') (c :: t ++ tail) = some (c :: t, t.length) := by
  obtain ⟨_, h2, h3, _, _⟩ := tokChar_parts c (hc c (by simp))
  have h1 := tokChar_ne_tab c (hc c (by simp))
  simp only [List.cons_append, mSplit, h2, h3, Bool.or_self, Bool.false_eq_true, ↓reduceIte, h1]
  have : (t ++ tail).takeWhile (fun x => !(x == '\t' || x == '"' || x == '\'')) = t := by
    apply takeWhile_append_stop
    · intro x hx
      obtain ⟨_, a2, a3, _, _⟩ := tokChar_parts x (hc x (by simp [hx]))
      have a1 := tokChar_ne_tab x (hc x (by simp [hx]))
      simp [a1, a2, a3]
    · rcases hw with rfl | ⟨r, rfl⟩
      · exact Or.inl rfl
      · exact Or.inr ⟨'\t', r, rfl, by simp⟩
  rw [this]

theorem scanTok_allTab (a r : Str) (ha : AllTab a) :
    scanTok (mSplit (· == '\t')) 0 (a ++ r) = scanTok (mSplit (· == '\t')) 0 r := by
  induction a with
  | nil => rfl
  | cons w a ih =>
    have : w = '\t' := ha w (by simp)
    subst this
    simp only [List.cons_append, scanTok, mSplitTab_tab]
    exact ih (fun c hc => ha c (by simp [hc]))

/-! ### TAB-separated rows -/

/-- `TabCore toks s`: `s` is the quiet tokens `toks` (at least one) separated by non-empty runs of TAB characters -/
inductive TabCore : List Str → Str → Prop
  | one {t : Str} : QuietTok t → TabCore [t] t
  | cons {t sep rest : Str} {ts : List Str} :
      QuietTok t → sep ≠ [] → (∀ c ∈ sep, c = '\t') → TabCore ts rest → TabCore (t :: ts) (t ++ (sep ++ rest))

/-- a TAB-separated row is a blank-separated row -/
theorem TabCore.toCore {toks : List Str} {s : Str} (h : TabCore toks s) : Core toks s := by
  induction h with
  | one ht => exact Core.one ht
  | cons ht hne hsep _ ih => exact Core.cons ht hne (allTab_allWs hsep) ih

/-- **`sot_regex.findall` on a TAB-separated row gives its tokens** -/
theorem splitTab_tabCore {toks : List Str} {s : Str} (h : TabCore toks s) : splitTab s = toks := by
  unfold splitTab
  induction h with
  | @one t ht =>
    cases t with
    | nil => exact absurd rfl ht.ne
    | cons c cs =>
      have hm := mSplitTab_takes c cs [] ht.chars (Or.inl rfl)
      simp only [List.append_nil] at hm
      simp only [scanTok, hm]
      have := scanTok_skip (mSplit (· == '\t')) cs []
      simp only [List.append_nil] at this
      rw [this]; rfl
  | @cons t sep rest ts ht hne hsep _ ih =>
    cases t with
    | nil => exact absurd rfl ht.ne
    | cons c cs =>
      have hm := mSplitTab_takes c cs (sep ++ rest) ht.chars (tabHead_of_allTab_append _ _ hsep hne)
      simp only [List.cons_append] at hm ⊢
      simp only [scanTok, hm]
      rw [scanTok_skip _ cs _, scanTok_allTab sep _ hsep, ih]

/-! ### lines of the body -/

/-- a data line of a `DLM TAB` file: optional blanks, the tokens `toks` separated by TABs, optional blanks (line end included) -/
def TabRowLine (toks : List Str) (ln : Str) : Prop :=
  ∃ pre core post, AllWs pre ∧ AllWs post ∧ TabCore toks core ∧ ln = pre ++ (core ++ post)

theorem TabRowLine.toRowLine {toks : List Str} {ln : Str} (h : TabRowLine toks ln) : RowLine toks ln := by
  obtain ⟨pre, core, post, hpre, hpost, hcore, e⟩ := h
  exact ⟨pre, core, post, hpre, hpost, hcore.toCore, e⟩

theorem tabRowLine_clean {toks : List Str} {ln : Str} (h : TabRowLine toks ln) :
    ∃ core, TabCore toks core ∧ cleanLine ln = core := by
  obtain ⟨pre, core, post, hpre, hpost, hcore, rfl⟩ := h
  exact ⟨core, hcore, cleanLine_sandwich pre core post hpre hpost (core_solid hcore.toCore)⟩

/-- the normal engine's items of a TAB-separated data line are its tokens, whichever substitutions are active -/
theorem lineTokens_tabRow (sb : Subs) {toks : List Str} {ln : Str} (h : TabRowLine toks ln) :
    lineTokens sb .tab ln = toks := by
  obtain ⟨core, hcore, hcl⟩ := tabRowLine_clean h
  have hc := hcore.toCore
  unfold lineTokens
  simp only [hcl, core_not_comment hc, applySubs_core sb hc, filter_ctrlZ_core hc, core_ne_nil hc,
    Bool.false_eq_true, ↓reduceIte, splitLine, splitTab_tabCore hcore]

/-- the sniffer samples a TAB-separated data line and counts its tokens, whichever substitutions are active -/
theorem sampleLine_tabRow {toks : List Str} {ln : Str} (h : TabRowLine toks ln) :
    ∃ l, sampleLine ln = some l ∧ ∀ sb, (splitLine .tab (applySubs sb l)).length = toks.length := by
  obtain ⟨core, hcore, hcl⟩ := tabRowLine_clean h
  have hc := hcore.toCore
  refine ⟨core, ?_, ?_⟩
  · unfold sampleLine
    simp [hcl, core_not_comment hc, core_ne_nil hc]
  · intro sb
    rw [applySubs_core sb hc]
    simp [splitLine, splitTab_tabCore hcore]

/-! ### the domain -/

/-- `TabBody c body rows`: the body lines are blank lines, comment lines and data lines of `c` TAB-separated quiet tokens -/
inductive TabBody (c : Nat) : List Str → List (List Str) → Prop
  | nil : TabBody c [] []
  | skip {ln : Str} {ls : List Str} {rows : List (List Str)} : SkipLine ln → TabBody c ls rows → TabBody c (ln :: ls) rows
  | row {ln : Str} {toks : List Str} {ls : List Str} {rows : List (List Str)} :
      TabRowLine toks ln → toks.length = c → TabBody c ls rows → TabBody c (ln :: ls) (toks :: rows)

theorem TabBody.toBody {c : Nat} {body : List Str} {rows : List (List Str)} (h : TabBody c body rows) : Body c body rows := by
  induction h with
  | nil => exact Body.nil
  | skip hs _ ih => exact Body.skip hs ih
  | row hr hl _ ih => exact Body.row hr.toRowLine hl ih

structure TabPlainData (ft : FloatTable) (body after : List Str) (c : Nat) (rows : List (List Str)) : Prop where
  body : TabBody c body rows
  cpos : 0 < c
  rne : rows ≠ []
  /-- end of file, or a next line whose first token is not a number (a `~` title line) -/
  next : after = [] ∨ ∃ ln rest t ts, after = ln :: rest ∧ npTokens ln = t :: ts ∧ toFloat ft t = none

theorem TabPlainData.toPlain {ft : FloatTable} {body after : List Str} {c : Nat} {rows : List (List Str)}
    (h : TabPlainData ft body after c rows) : PlainData ft body after c rows :=
  ⟨h.body.toBody, h.cpos, h.rne, h.next⟩

/-! ### facts about TAB bodies -/

/-- the flat token sequence of the normal engine is the row-major flattening of the matrix -/
theorem tabBody_normalTokens (sb : Subs) {c : Nat} {body : List Str} {rows : List (List Str)} (h : TabBody c body rows) :
    normalTokens sb .tab body = rows.flatten := by
  induction h with
  | nil => rfl
  | skip hs _ ih =>
    simp only [normalTokens, List.flatMap_cons, lineTokens_skip sb .tab hs, List.nil_append]
    exact ih
  | row hr _ _ ih =>
    simp only [normalTokens, List.flatMap_cons, lineTokens_tabRow sb hr, List.flatten_cons]
    rw [← ih]; rfl

/-- the sniffer's sample: one entry per data line, each counting `c` items whatever substitutions are active -/
theorem tabBody_sample {c : Nat} {body : List Str} {rows : List (List Str)} (h : TabBody c body rows) :
    (body.filterMap sampleLine).length = rows.length ∧
    ∀ l ∈ body.filterMap sampleLine, ∀ sb, (splitLine .tab (applySubs sb l)).length = c := by
  induction h with
  | nil => simp
  | skip hs _ ih => simp only [List.filterMap_cons, sampleLine_skip hs]; exact ih
  | row hr hl _ ih =>
    obtain ⟨l, h1, h2⟩ := sampleLine_tabRow hr
    simp only [List.filterMap_cons, h1, List.length_cons, List.mem_cons]
    refine ⟨by omega, ?_⟩
    intro x hx sb
    rcases hx with rfl | hx
    · rw [h2 sb, hl]
    · exact ih.2 x hx sb

/-! ### the sniffer on TAB data -/

theorem sniff_plain_tab (sb : Subs) (pre : List Str) (title : Str) {body after : List Str} {c : Nat} {rows : List (List Str)}
    (h : TabBody c body rows) (hr : rows ≠ []) :
    (sniffColumns sb .tab (pre ++ title :: (body ++ after)) pre.length (pre.length + body.length)).count = some c := by
  unfold sniffColumns
  simp only [(window_plain pre title body after).1]
  obtain ⟨hlen, hcnt⟩ := tabBody_sample h
  apply consistent_const
  · intro e
    have : ((body.filterMap sampleLine).take 21).length = 0 := by
      have := congrArg List.length e
      simpa using this
    rw [List.length_take, hlen] at this
    cases rows with
    | nil => exact hr rfl
    | cons r rs => simp at this
  · intro x hx
    simp only [List.mem_map] at hx
    obtain ⟨l, hl, rfl⟩ := hx
    exact hcnt l (List.mem_of_mem_take hl) sb

theorem sniffTwice_plain_tab (sb : Subs) (pre : List Str) (title : Str) {body after : List Str} {c : Nat}
    {rows : List (List Str)} (h : TabBody c body rows) (hr : rows ≠ []) :
    ∃ sb', sniffTwice sb .tab (pre ++ title :: (body ++ after)) pre.length (pre.length + body.length) = (sb', some c) := by
  unfold sniffTwice
  simp only
  split
  · exact ⟨_, by rw [sniff_plain_tab sb.dropHyphen pre title h hr]⟩
  · exact ⟨_, by rw [sniff_plain_tab sb pre title h hr]⟩

/-- what `readData` starts the sniffer with in a `DLM TAB` file: the default substitutions -/
theorem readSubs_tab : readSubs .tab = Subs.default := rfl

/-! ### the normal engine on TAB data -/

theorem normal_plain_tab (ft : FloatTable) (sb : Subs) {body : List Str} {c : Nat} {rows : List (List Str)}
    (h : TabBody c body rows) (hc : 0 < c) (hr : rows ≠ []) :
    normalEngineLines ft sb .tab c body = .ok (matrixColumns ft c rows) :=
  normalEngineLines_matrix ft sb .tab body rows c hc hr (body_rows_len h.toBody) (tabBody_normalTokens sb h)

end Lasio.Dt
