import LasioProofs.Lemmas.TransformWords
import LasioProofs.Props.C04
/-
C09, §9: the line-by-line relation `Sim` between two documents (equivalent lines; blank and comment lines come and go
outside ~Other sections), its projection onto the document structure, and the whole-file theorem `readFull_sim`.
§10: every line-level transformation produces a `Sim`-related document.
-/
namespace Lasio.Tf
open Lasio Lasio.Dt

/-! ## §9 `Sim` -/

/-- where a line stands: before the first title, or inside the section opened by the title line `t` -/
inductive Ctx where
  | pre
  | sec (t : Str)
deriving DecidableEq

/-- lines a reader of the section cannot tell apart -/
def BodyEq (dlm : Dlm) : Ctx → Str → Str → Prop
  | .pre, _, _ => True
  | .sec t, a, b =>
    match kindOf t with
    | .items => ∀ (o : Rd.ReadOpts) (ver : Rd.VerVal) (p : Rd.Parser), Rd.mkParser (Rd.lineStrip t) ver = .ok p →
        Rd.lineRes o p a = Rd.lineRes o p b
    | .other => Rd.lineStrip a = Rd.lineStrip b
    | .data => DataEq dlm a b
    | .las3data => DataEq dlm a b

/-- blank and comment lines may be inserted everywhere but in a ~Other section (its text is content) -/
def Insertable : Ctx → Prop
  | .pre => True
  | .sec t => kindOf t ≠ .other

inductive Sim (dlm : Dlm) : Ctx → List Str → List Str → Prop
  | nil {c} : Sim dlm c [] []
  | title {c a b l l'} : Rd.isTitle a = true → strip a = strip b → Sim dlm (.sec a) l l' → Sim dlm c (a :: l) (b :: l')
  | line {c a b l l'} : Rd.isTitle a = false → Rd.isTitle b = false → BodyEq dlm c a b → Sim dlm c l l' → Sim dlm c (a :: l) (b :: l')
  | insL {c s l l'} : Insertable c → SkipLine s → Sim dlm c l l' → Sim dlm c (s :: l) l'
  | insR {c s l l'} : Insertable c → SkipLine s → Sim dlm c l l' → Sim dlm c l (s :: l')

/-- the same without title lines: the bodies of two sections -/
inductive BSim (dlm : Dlm) (c : Ctx) : List Str → List Str → Prop
  | nil : BSim dlm c [] []
  | line {a b l l'} : BodyEq dlm c a b → BSim dlm c l l' → BSim dlm c (a :: l) (b :: l')
  | insL {s l l'} : Insertable c → SkipLine s → BSim dlm c l l' → BSim dlm c (s :: l) l'
  | insR {s l l'} : Insertable c → SkipLine s → BSim dlm c l l' → BSim dlm c l (s :: l')

/-! ### blank / comment lines -/

theorem skip_strip {s : Str} (h : SkipLine s) : strip s = [] ∨ ∃ r, strip s = '#' :: r := by
  rcases h with h | ⟨pre, rest, hpre, rfl⟩
  · left; rw [← cleanLine_eq_strip]; exact cleanLine_blank s h
  · right
    obtain ⟨r, hr⟩ := cleanLine_comment pre rest hpre
    exact ⟨r, by rw [← cleanLine_eq_strip]; exact hr⟩

theorem skip_not_title {s : Str} (h : SkipLine s) : Rd.isTitle s = false := by
  rw [Rd.isTitle_eq]
  rcases skip_strip h with h | ⟨r, h⟩ <;> rw [h] <;> rfl

theorem skip_lineRes (o : Rd.ReadOpts) (p : Rd.Parser) {s : Str} (h : SkipLine s) : Rd.lineRes o p s = .skip := by
  unfold Rd.lineRes
  rw [Rd.lineStrip_eq_strip]
  rcases skip_strip h with h | ⟨r, h⟩ <;> rw [h] <;> simp

/-! ### projection onto the document structure -/

def SecSim (dlm : Dlm) (tb tb' : Str × List Str) : Prop :=
  strip tb.1 = strip tb'.1 ∧ BSim dlm (.sec tb.1) tb.2 tb'.2

theorem parse_title (a : Str) (l : List Str) (h : Rd.isTitle a = true) :
    parse (a :: l) = ([], (a, (parse l).1) :: (parse l).2) := by simp [parse, h]

theorem parse_line (a : Str) (l : List Str) (h : Rd.isTitle a = false) :
    parse (a :: l) = (a :: (parse l).1, (parse l).2) := by simp [parse, h]

theorem sim_parse (dlm : Dlm) {c : Ctx} {l l' : List Str} (h : Sim dlm c l l') :
    BSim dlm c (parse l).1 (parse l').1 ∧ Forall2 (SecSim dlm) (parse l).2 (parse l').2 := by
  induction h with
  | nil => exact ⟨.nil, .nil⟩
  | @title c a b l l' ha hs _ ih =>
    have hb : Rd.isTitle b = true := by rw [← isTitle_strip_congr hs]; exact ha
    rw [parse_title a l ha, parse_title b l' hb]
    exact ⟨.nil, .cons ⟨hs, ih.1⟩ ih.2⟩
  | @line c a b l l' ha hb he _ ih =>
    rw [parse_line a l ha, parse_line b l' hb]
    exact ⟨.line he ih.1, ih.2⟩
  | @insL c s l l' hi hs _ ih =>
    rw [parse_line s l (skip_not_title hs)]
    exact ⟨.insL hi hs ih.1, ih.2⟩
  | @insR c s l l' hi hs _ ih =>
    rw [parse_line s l' (skip_not_title hs)]
    exact ⟨.insR hi hs ih.1, ih.2⟩

/-! ### what `BSim` gives in each kind of section -/

theorem bsim_items (dlm : Dlm) {t : Str} (hk : kindOf t = .items) {b b' : List Str} (h : BSim dlm (.sec t) b b')
    (o : Rd.ReadOpts) (ver : Rd.VerVal) (p : Rd.Parser) (hp : Rd.mkParser (Rd.lineStrip t) ver = .ok p) :
    ∀ (n n' : Nat) (l : List Rd.RItem), Rd.bodyRun o p b n = .ok l → Rd.bodyRun o p b' n' = .ok l := by
  induction h with
  | nil => intro n n' l h; exact h
  | @line a c ls ls' he _ ih =>
    intro n n' l h
    have he' : Rd.lineRes o p a = Rd.lineRes o p c := by
      simp only [BodyEq, hk] at he
      exact he o ver p hp
    simp only [Rd.bodyRun] at h ⊢
    rw [← he']
    cases hr : Rd.lineRes o p a with
    | item it =>
      simp only [hr] at h ⊢
      cases hb : Rd.bodyRun o p ls (n + 1) with
      | error e => simp [hb] at h
      | ok r =>
        simp only [hb] at h
        rw [ih (n + 1) (n' + 1) r hb]
        exact h
    | bad =>
      simp only [hr] at h ⊢
      cases hi : o.ignoreHeaderErrors with
      | true => simp only [hi, if_true] at h ⊢; exact ih _ _ l h
      | false => simp [hi] at h
    | skip => simp only [hr] at h ⊢; exact ih _ _ l h
    | title => simp only [hr] at h ⊢; exact ih _ _ l h
  | @insL s ls ls' _ hs _ ih =>
    intro n n' l h
    simp only [Rd.bodyRun, skip_lineRes o p hs] at h
    exact ih _ _ l h
  | @insR s ls ls' _ hs _ ih =>
    intro n n' l h
    simp only [Rd.bodyRun, skip_lineRes o p hs]
    exact ih _ _ l h

theorem bsim_other (dlm : Dlm) {t : Str} (hk : kindOf t = .other) {b b' : List Str} (h : BSim dlm (.sec t) b b') :
    b.map Rd.lineStrip = b'.map Rd.lineStrip := by
  induction h with
  | nil => rfl
  | line he _ ih =>
    simp only [BodyEq, hk] at he
    simp only [List.map_cons, he, ih]
  | insL hi _ _ _ => exact absurd hk hi
  | insR hi _ _ _ => exact absurd hk hi

theorem bsim_data (dlm : Dlm) {t : Str} (hk : isDataKind (kindOf t)) {b b' : List Str} (h : BSim dlm (.sec t) b b') :
    BodySim dlm b b' := by
  induction h with
  | nil => exact .nil
  | line he _ ih =>
    refine .line ?_ ih
    rcases hk with hk | hk <;> simp only [BodyEq, hk] at he <;> exact he
  | insL _ hs _ ih => exact .insL hs ih
  | insR _ hs _ ih => exact .insR hs ih

theorem secSim_secRel (dlm : Dlm) {tb tb' : Str × List Str} (h : SecSim dlm tb tb') : SecRel tb tb' where
  title := h.1
  items := fun hk o ver p hp n n' l hb => bsim_items dlm hk h.2 o ver p hp n n' l hb
  other := fun hk => bsim_other dlm hk h.2

/-! ### what follows a data section -/

/-- Python's `float()` rejects every token starting with `~` -/
def TildeNotFloat (ft : FloatTable) : Prop := ∀ t : Str, t.head? = some '~' → toFloat ft t = none

theorem title_npTokens (t : Str) (h : Rd.isTitle t = true) : ∃ tok ts, npTokens t = tok :: ts ∧ tok.head? = some '~' := by
  rw [Rd.isTitle_eq, Rd.startsTilde_iff] at h
  obtain ⟨r, hr⟩ := h
  obtain ⟨pre, post, hpre, _, hl⟩ := strip_decomp t
  rw [hr] at hl
  rw [npTokens_eq, hl]
  have hnh : ∀ x ∈ pre, nh x = true := fun x hx => by
    have := ws_ne_hash x (hpre x hx)
    simp only [nh, bne_iff_ne, ne_eq]
    intro e; subst e; simp at this
  have e : (pre ++ ('~' :: r ++ post)).takeWhile nh = pre ++ ('~' :: (r ++ post).takeWhile nh) := by
    rw [List.takeWhile_append_of_pos hnh]
    simp [nh]
  rw [e, pySplit_ws_left pre _ hpre, pySplit_word '~' _ (by decide)]
  exact ⟨_, _, rfl, rfl⟩

theorem afterOK_flat (ft : FloatTable) (htf : TildeNotFloat ft) (rest : List (Str × List Str)) (hw : Rd.WellFormed rest) :
    AfterOK ft (Rd.flat rest) := by
  cases rest with
  | nil => exact Or.inl rfl
  | cons tb rest' =>
    obtain ⟨t, b⟩ := tb
    right
    obtain ⟨tok, ts, h1, h2⟩ := title_npTokens t (hw (t, b) List.mem_cons_self).1
    exact ⟨t, b ++ Rd.flat rest', tok, ts, rfl, h1, htf tok h2⟩

/-- the guard of the whole-file theorem: the declared delimiter is the one the lines were compared for, and the two
engines agree on the data section -/
def SimGuard (o : DataOpts) (ft : FloatTable) (dlm : Dlm) (st : Steer) (d : Nat) (b : List Str) : Prop :=
  st.delimiter = dlm ∧ AgreeAlone o st d ft b

theorem docRel_of_secSim (o : DataOpts) (ft : FloatTable) (htf : TildeNotFloat ft) (dlm : Dlm)
    {secs secs' : List (Str × List Str)} (h : Forall2 (SecSim dlm) secs secs')
    (hw : Rd.WellFormed secs) (hw' : Rd.WellFormed secs') : DocRel o ft (SimGuard o ft dlm) secs secs' := by
  induction h with
  | nil => exact .nil
  | @cons tb tb' rest rest' hs _ ih =>
    have hwr : Rd.WellFormed rest := fun x hx => hw x (List.mem_cons_of_mem _ hx)
    have hwr' : Rd.WellFormed rest' := fun x hx => hw' x (List.mem_cons_of_mem _ hx)
    refine .cons (secSim_secRel dlm hs) ?_ (ih hwr hwr')
    intro hk st d hg
    obtain ⟨hd, hagree⟩ := hg
    have hb : BodySim st.delimiter tb.2 tb'.2 := by rw [hd]; exact bsim_data dlm hk hs.2
    exact readBody_sim o st d ft hb (afterOK_flat ft htf rest hwr) (afterOK_flat ft htf rest' hwr') hagree

/-- WHOLE FILE, line-by-line relation: a readable document `d` and a `Sim`-related document `d'` have the same parsed
result — header items of every section, ~Other text, curves of every data section — provided the declared delimiter is the
one the data lines were compared for and (numpy engine) the two engines agree on every data section of `d`. -/
theorem readFull_sim (o : Opts) (nullOf : Option Str → Option Str) (ft : FloatTable) (htf : TildeNotFloat ft) (dlm : Dlm)
    (d d' : List Str) (hs : Sim dlm .pre d d') (r : FullRead) (hr : readFull o nullOf ft d = .ok r)
    (hG : AllData (SimGuard o.dat ft dlm (dtSteer nullOf r.steer) (declaredCount r.sections)) (parse d).2) :
    ∃ r', readFull o nullOf ft d' = .ok r' ∧ r'.steer = r.steer ∧ r'.parsed = r.parsed := by
  obtain ⟨_, hsec⟩ := sim_parse dlm hs
  have hrel := docRel_of_secSim o.dat ft htf dlm hsec (parse_wf d) (parse_wf d')
  have e := parse_flat d
  have e' := parse_flat d'
  rw [e] at hr
  rw [e']
  exact readFull_rel o nullOf ft _ _ _ _ _ (parse_pre d) (parse_pre d') (parse_wf d) (parse_wf d') hrel r hr hG

end Lasio.Tf

/-! ## §10 building `Sim` -/
namespace Lasio.Tf
open Lasio Lasio.Dt

theorem pySplit_of_strip {a b : Str} (h : strip a = strip b) : pySplit a = pySplit b := by
  rw [← pySplit_strip a, ← pySplit_strip b, h]

theorem npTokens_of_strip {a b : Str} (h : strip a = strip b) : npTokens a = npTokens b := by
  rw [npTokens_words, npTokens_words, pySplit_of_strip h]

/-- lines with the same `strip()` are the same line for the data reader, whatever the delimiter -/
theorem dataEq_of_strip (dlm : Dlm) {a b : Str} (h : strip a = strip b) : DataEq dlm a b where
  toks := fun sb => by unfold lineTokens; rw [cleanLine_eq_strip, cleanLine_eq_strip, h]
  sniff := fun sb => by unfold sampleLine; rw [cleanLine_eq_strip, cleanLine_eq_strip, h]
  np := npTokens_of_strip h

theorem lineRes_of_strip (o : Rd.ReadOpts) (p : Rd.Parser) {a b : Str} (h : strip a = strip b) :
    Rd.lineRes o p a = Rd.lineRes o p b := by
  unfold Rd.lineRes; rw [Rd.lineStrip_eq_strip, Rd.lineStrip_eq_strip, h]

/-- … and for every reader -/
theorem bodyEq_of_strip (dlm : Dlm) (c : Ctx) {a b : Str} (h : strip a = strip b) : BodyEq dlm c a b := by
  cases c with
  | pre => trivial
  | sec t =>
    simp only [BodyEq]
    cases kindOf t with
    | items => intro o ver p _; exact lineRes_of_strip o p h
    | other => exact lineStrip_strip_congr h
    | data => exact dataEq_of_strip dlm h
    | las3data => exact dataEq_of_strip dlm h

/-- the context after a line -/
def nextCtx (c : Ctx) (a : Str) : Ctx := if Rd.isTitle a then .sec a else c

/-- the context after a list of lines -/
def ctxEnd : Ctx → List Str → Ctx
  | c, [] => c
  | c, a :: l => ctxEnd (nextCtx c a) l

/-- the context of line `k` -/
def ctxAt (c : Ctx) (d : List Str) (k : Nat) : Ctx := ctxEnd c (d.take k)

/-- one line replaced by an equivalent one -/
theorem sim_cons (dlm : Dlm) {c : Ctx} {a b : Str} {l l' : List Str}
    (hab : strip a = strip b ∨ (Rd.isTitle a = false ∧ Rd.isTitle b = false ∧ BodyEq dlm c a b))
    (h : Sim dlm (nextCtx c a) l l') : Sim dlm c (a :: l) (b :: l') := by
  unfold nextCtx at h
  rcases hab with hs | ⟨ha, hb, he⟩
  · cases ha : Rd.isTitle a with
    | true => rw [ha] at h; exact .title ha hs h
    | false =>
      rw [ha] at h
      exact .line ha (by rw [← isTitle_strip_congr hs]; exact ha) (bodyEq_of_strip dlm c hs) h
  · rw [ha] at h
    exact .line ha hb he h

theorem sim_refl (dlm : Dlm) (c : Ctx) (l : List Str) : Sim dlm c l l := by
  induction l generalizing c with
  | nil => exact .nil
  | cons a l ih => exact sim_cons dlm (Or.inl rfl) (ih _)

theorem sim_append (dlm : Dlm) {c : Ctx} {l1 l1' l2 l2' : List Str} (h1 : Sim dlm c l1 l1')
    (h2 : Sim dlm (ctxEnd c l1) l2 l2') : Sim dlm c (l1 ++ l2) (l1' ++ l2') := by
  induction h1 with
  | nil => exact h2
  | @title c a b l l' ha hs _ ih =>
    simp only [ctxEnd, nextCtx, ha, if_true] at h2
    exact .title ha hs (ih h2)
  | @line c a b l l' ha hb he _ ih =>
    simp only [ctxEnd, nextCtx, ha, Bool.false_eq_true, if_false] at h2
    exact .line ha hb he (ih h2)
  | @insL c s l l' hi hs _ ih =>
    simp only [ctxEnd, nextCtx, skip_not_title hs, Bool.false_eq_true, if_false] at h2
    exact .insL hi hs (ih h2)
  | @insR c s l l' hi hs _ ih => exact .insR hi hs (ih h2)

/-- every line replaced by one with the same `strip()` -/
theorem sim_map (dlm : Dlm) (c : Ctx) (f : Str → Str) (l : List Str) (hf : ∀ a ∈ l, strip (f a) = strip a) :
    Sim dlm c l (l.map f) := by
  induction l generalizing c with
  | nil => exact .nil
  | cons a l ih =>
    exact sim_cons dlm (Or.inl (hf a (by simp)).symm) (ih _ (fun x hx => hf x (by simp [hx])))

/-- line `k` replaced by an equivalent one -/
theorem sim_mapAt (dlm : Dlm) (c : Ctx) (f : Str → Str) (d : List Str) (k : Nat)
    (hf : ∀ a, d[k]? = some a → strip a = strip (f a) ∨
      (Rd.isTitle a = false ∧ Rd.isTitle (f a) = false ∧ BodyEq dlm (ctxAt c d k) a (f a))) :
    Sim dlm c d (mapAt k f d) := by
  induction d generalizing c k with
  | nil => simp only [mapAt]; exact .nil
  | cons a l ih =>
    cases k with
    | zero =>
      simp only [mapAt]
      exact sim_cons dlm (by simpa [ctxAt, ctxEnd] using hf a (by simp)) (sim_refl dlm _ l)
    | succ k =>
      simp only [mapAt]
      refine sim_cons dlm (Or.inl rfl) (ih _ k ?_)
      intro x hx
      have := hf x (by simpa using hx)
      simpa [ctxAt, ctxEnd] using this

theorem termLine_strip (l : Str) : strip (termLine l) = strip l := by
  unfold termLine
  split
  · rfl
  · exact strip_ws_right l nl allWs_nl

theorem sim_terminate (dlm : Dlm) (c : Ctx) (l : List Str) : Sim dlm c l (terminate l) := by
  induction l generalizing c with
  | nil => exact .nil
  | cons a l ih =>
    cases l with
    | nil => exact sim_cons dlm (Or.inl (termLine_strip a).symm) .nil
    | cons b l' => exact sim_cons dlm (Or.inl rfl) (ih _)

theorem ctxEnd_append (c : Ctx) (a b : List Str) : ctxEnd c (a ++ b) = ctxEnd (ctxEnd c a) b := by
  induction a generalizing c with
  | nil => rfl
  | cons x a ih => simp only [List.cons_append, ctxEnd]; exact ih _

/-- a blank / comment line inserted before line `k` (after the last line when `k ≥ length`) -/
theorem sim_insLine (dlm : Dlm) (c : Ctx) (d : List Str) (k : Nat) (s : Str)
    (hs : SkipLine (s ++ nl)) (hi : Insertable (ctxAt c d k)) : Sim dlm c d (insLine k s d) := by
  unfold insLine
  have e : d = d.take k ++ d.drop k := (List.take_append_drop k d).symm
  have h1 : Sim dlm c (d.take k) (terminate (d.take k)) := sim_terminate dlm c _
  have h2 : Sim dlm (ctxEnd c (d.take k)) (d.drop k) ((s ++ nl) :: d.drop k) := .insR hi hs (sim_refl dlm _ _)
  have := sim_append dlm h1 h2
  rw [← e] at this
  exact this

end Lasio.Tf

/-! ### the line functions of the transformations keep `strip()` -/
namespace Lasio.Tf
open Lasio Lasio.Dt

theorem allWs_of_isBT {s : Str} (h : ∀ c ∈ s, isBT c = true) : AllWs s := fun c hc => isBT_space c (h c hc)

theorem stripBT_decomp (s : Str) : ∃ a b, AllWs a ∧ AllWs b ∧ s = a ++ (stripBT s ++ b) := by
  refine ⟨s.takeWhile isBT, ((s.dropWhile isBT).reverse.takeWhile isBT).reverse, ?_, ?_, ?_⟩
  · exact allWs_of_isBT (fun c hc => mem_takeWhile_p isBT s c hc)
  · exact allWs_of_isBT (fun c hc => mem_takeWhile_p isBT _ c (List.mem_reverse.mp hc))
  · unfold stripBT
    have h1 : s = s.takeWhile isBT ++ s.dropWhile isBT := (List.takeWhile_append_dropWhile (p := isBT) (l := s)).symm
    have h2 : (s.dropWhile isBT).reverse =
        (s.dropWhile isBT).reverse.takeWhile isBT ++ (s.dropWhile isBT).reverse.dropWhile isBT :=
      (List.takeWhile_append_dropWhile (p := isBT) (l := (s.dropWhile isBT).reverse)).symm
    have h3 : s.dropWhile isBT =
        ((s.dropWhile isBT).reverse.dropWhile isBT).reverse ++ ((s.dropWhile isBT).reverse.takeWhile isBT).reverse := by
      have := congrArg List.reverse h2
      rw [List.reverse_reverse, List.reverse_append] at this
      exact this
    rw [← h3, ← h1]

theorem stripBT_strip (s : Str) : strip (stripBT s) = strip s := by
  obtain ⟨a, b, ha, hb, e⟩ := stripBT_decomp s
  have := strip_sandwich_ws a (stripBT s) b ha hb
  rw [← e] at this
  exact this.symm

/-- new padding around a line -/
theorem padLine1_strip (lead trail l : Str) : strip (padLine1 lead trail l) = strip l := by
  unfold padLine1
  simp only
  rw [strip_sandwich_ws _ _ _ (allWs_blanksOf lead) (allWs_append (allWs_blanksOf trail) (splitEol_allWs l)),
    stripBT_strip, strip_splitEol]

/-- a physical line as `readline` delivers it: no line feed before its end -/
def NoInnerNl (l : Str) : Prop := '\n' ∉ (splitEol l).1

theorem crlf1_append (a b : Str) : crlf1 (a ++ b) = crlf1 a ++ crlf1 b := by simp [crlf1]

theorem crlf1_noNl (t : Str) (h : '\n' ∉ t) : crlf1 t = t := by
  induction t with
  | nil => rfl
  | cons c t ih =>
    have hc : c ≠ '\n' := fun e => h (by simp [e])
    have ht : '\n' ∉ t := fun hm => h (by simp [hm])
    have := ih ht
    simp only [crlf1, List.flatMap_cons] at this ⊢
    rw [this]
    simp [hc]

/-- LF → CRLF -/
theorem crlf1_strip (l : Str) (h : NoInnerNl l) : strip (crlf1 l) = strip l := by
  obtain ⟨e, he⟩ := splitEol_spec l
  have hc : crlf1 l = (splitEol l).1 ++ crlf1 (splitEol l).2 := by
    conv => lhs; rw [e]
    rw [crlf1_append, crlf1_noNl _ h]
  have hws : AllWs (crlf1 (splitEol l).2) := by
    rcases he with h' | h' | h' <;> rw [h'] <;> intro c hc <;> simp [crlf1] at hc
    · rcases hc with rfl | rfl <;> decide
    · rcases hc with rfl | rfl <;> decide
  rw [hc, strip_ws_right _ _ hws, strip_splitEol]

/-- CRLF → LF -/
theorem lf1_strip (l : Str) : strip (lf1 l) = strip l := by
  unfold lf1
  have hl : l = l.reverse.reverse := (List.reverse_reverse l).symm
  generalize l.reverse = r at hl
  subst hl
  match r with
  | [] => rfl
  | [c] => by_cases h : c = '\n' <;> simp [h]
  | c :: d :: r =>
    by_cases h : c = '\n'
    · subst h
      by_cases h2 : d = '\r'
      · subst h2
        simp only [List.reverse_cons, List.append_assoc, List.cons_append, List.nil_append]
        rw [strip_ws_right _ nl allWs_nl]
        exact (strip_ws_right _ ['\r', '\n'] allWs_crnl).symm
      · simp [h2]
    · simp [h]

theorem sim_crlf (dlm : Dlm) (d : List Str) (h : ∀ l ∈ d, NoInnerNl l) : Sim dlm .pre d (crlf d) :=
  sim_map dlm .pre crlf1 d (fun a ha => crlf1_strip a (h a ha))

theorem sim_lf (dlm : Dlm) (d : List Str) : Sim dlm .pre d (lf d) :=
  sim_map dlm .pre lf1 d (fun a _ => lf1_strip a)

theorem sim_padLine (dlm : Dlm) (d : List Str) (k : Nat) (lead trail : Str) : Sim dlm .pre d (padLine k lead trail d) :=
  sim_mapAt dlm .pre _ d k (fun a _ => Or.inl (padLine1_strip lead trail a).symm)

theorem sim_addFinalNewline (dlm : Dlm) (d : List Str) : Sim dlm .pre d (addFinalNewline d) := sim_terminate dlm .pre d

/-- a line that is nothing but its terminator -/
theorem skip_of_empty_text (l : Str) (h : (splitEol l).1 = []) : SkipLine l := by
  left
  have e := (splitEol_spec l).1
  rw [h, List.nil_append] at e
  rw [e]; exact splitEol_allWs l

/-- omitting the final newline: the last line loses its terminator, or — when it was nothing else — disappears, which is
a presentation change unless it stood in a ~Other section -/
theorem sim_dropFinalNewline (dlm : Dlm) (d : List Str)
    (h : ∀ l, d.getLast? = some l → (splitEol l).1 = [] → Insertable (ctxAt .pre d (d.length - 1))) :
    Sim dlm .pre d (dropFinalNewline d) := by
  unfold dropFinalNewline
  have hd : d = d.reverse.reverse := (List.reverse_reverse d).symm
  cases hr : d.reverse with
  | nil => rw [hr] at hd; subst hd; exact .nil
  | cons l r =>
    simp only
    have e : d = r.reverse ++ [l] := by rw [hd, hr]; simp
    have hlast : d.getLast? = some l := by rw [e]; simp
    have hlen : d.length - 1 = r.reverse.length := by rw [e]; simp
    have htake : d.take (d.length - 1) = r.reverse := by rw [hlen, e, List.take_left]
    split
    · rename_i ht
      have ht' : (splitEol l).1 = [] := by simpa using ht
      have hi := h l hlast ht'
      unfold ctxAt at hi
      rw [htake] at hi
      have := sim_append dlm (sim_refl dlm .pre r.reverse) (Sim.insL hi (skip_of_empty_text l ht') .nil)
      rw [← e, List.append_nil] at this
      exact this
    · have := sim_append dlm (sim_refl dlm .pre r.reverse)
        (sim_cons dlm (c := ctxEnd .pre r.reverse) (l := []) (l' := []) (Or.inl (strip_splitEol l).symm) .nil)
      rw [← e] at this
      exact this

theorem blank_skip (ws : Str) : SkipLine (blanksOf ws ++ nl) :=
  Or.inl (allWs_append (allWs_blanksOf ws) allWs_nl)

theorem comment_skip (indent text : Str) : SkipLine (commentLine indent text ++ nl) := by
  right
  refine ⟨blanksOf indent, text.filter (· != '\n') ++ nl, allWs_blanksOf indent, ?_⟩
  simp [commentLine]

theorem sim_insBlank (dlm : Dlm) (d : List Str) (k : Nat) (ws : Str) (hi : Insertable (ctxAt .pre d k)) :
    Sim dlm .pre d (insBlank k ws d) := sim_insLine dlm .pre d k _ (blank_skip ws) hi

theorem sim_insComment (dlm : Dlm) (d : List Str) (k : Nat) (indent text : Str) (hi : Insertable (ctxAt .pre d k)) :
    Sim dlm .pre d (insComment k indent text d) := sim_insLine dlm .pre d k _ (comment_skip indent text) hi

end Lasio.Tf

/-! ### re-padding a data line (whitespace splitter) -/
namespace Lasio.Tf
open Lasio Lasio.Dt

theorem mem_pySplit_sub (s : Str) : ∀ w ∈ pySplit s, ∀ c ∈ w, c ∈ s := by
  induction hn : s.length using Nat.strongRecOn generalizing s with
  | _ n ih =>
    cases s with
    | nil => intro w hw; cases hw
    | cons c cs =>
      cases hc : isPySpace c with
      | true =>
        rw [pySplit_ws c _ hc]
        intro w hw x hx
        exact List.mem_cons_of_mem _ (ih cs.length (by subst hn; simp) cs rfl w hw x hx)
      | false =>
        rw [pySplit_word c _ hc]
        intro w hw x hx
        rcases List.mem_cons.mp hw with rfl | hw
        · rcases List.mem_cons.mp hx with rfl | hx
          · simp
          · exact List.mem_cons_of_mem _ ((List.takeWhile_sublist _).subset hx)
        · have := ih (cs.dropWhile ns).length (by
            subst hn
            have := (List.dropWhile_sublist ns (l := cs)).length_le
            simp; omega) _ rfl w hw x hx
          exact List.mem_cons_of_mem _ ((List.dropWhile_sublist _).subset this)

theorem quoteFree_words {s : Str} (h : QuoteFree s) : ∀ w ∈ pySplit s, QuoteFree w :=
  fun w hw c hc => h c (mem_pySplit_sub s w hw c hc)

/-- words joined by blank runs split into the same words -/
theorem pySplit_joinSeps (mk : Str → Str) (hmk : ∀ s, mk s ≠ [] ∧ AllWs (mk s)) (ws : List Str) (hw : ∀ w ∈ ws, IsWord w)
    (seps : List Str) (tail : Str) (ht : AllWs tail) : pySplit (joinSeps mk ws seps ++ tail) = ws := by
  induction ws generalizing seps with
  | nil => simp only [joinSeps, List.nil_append]; exact pySplit_allWs tail ht
  | cons w rest ih =>
    cases rest with
    | nil =>
      simp only [joinSeps]
      rw [pySplit_ws_right w tail ht, pySplit_isWord w (hw w (by simp))]
    | cons w' rest' =>
      simp only [joinSeps, List.append_assoc]
      rw [pySplit_word_sep w _ _ (hw w (by simp)) (hmk _).2 (hmk _).1]
      rw [ih (fun x hx => hw x (List.mem_cons_of_mem _ hx))]

theorem quoteFree_joinSeps (mk : Str → Str) (hmk : ∀ s, AllWs (mk s)) (ws : List Str) (hw : ∀ w ∈ ws, QuoteFree w)
    (seps : List Str) : QuoteFree (joinSeps mk ws seps) := by
  induction ws generalizing seps with
  | nil => exact quoteFree_nil
  | cons w rest ih =>
    cases rest with
    | nil => simp only [joinSeps]; exact hw w (by simp)
    | cons w' rest' =>
      simp only [joinSeps]
      exact quoteFree_append (hw w (by simp))
        (quoteFree_append (quoteFree_allWs (hmk _)) (ih (fun x hx => hw x (List.mem_cons_of_mem _ hx)) _))

theorem mkSep_space (s : Str) : mkSep .space s ≠ [] ∧ AllWs (mkSep .space s) := by
  simp only [mkSep]
  split
  · exact ⟨by simp, by intro c hc; simp at hc; subst hc; decide⟩
  · rename_i h
    exact ⟨by intro e; rw [e] at h; simp at h, allWs_blanksOf s⟩

theorem pySplit_splitEol (l : Str) : pySplit (splitEol l).1 = pySplit l := by
  have h := pySplit_ws_right (splitEol l).1 (splitEol l).2 (splitEol_allWs l)
  rw [← (splitEol_spec l).1] at h
  exact h.symm

/-- the words of a re-padded line are the words of the line -/
theorem relay_space_words (seps : List Str) (l : Str) : pySplit (relayLine1 .space .space seps l) = pySplit l := by
  unfold relayLine1
  simp only [cellsOf]
  rw [pySplit_joinSeps _ mkSep_space _ (mem_pySplit_isWord _) seps _ (splitEol_allWs l), pySplit_splitEol]

theorem relay_space_quoteFree (seps : List Str) (l : Str) (hq : QuoteFree l) : QuoteFree (relayLine1 .space .space seps l) := by
  unfold relayLine1
  simp only [cellsOf]
  have hq1 : QuoteFree (splitEol l).1 := by
    have := (splitEol_spec l).1
    rw [this] at hq
    exact quoteFree_left hq
  exact quoteFree_append (quoteFree_joinSeps _ (fun s => (mkSep_space s).2) _ (quoteFree_words hq1) seps)
    (quoteFree_allWs (splitEol_allWs l))

/-- title lines are recognised by the first word -/
theorem isTitle_words (l : Str) : Rd.isTitle l = (match pySplit l with | (c :: _) :: _ => c == '~' | _ => false) := by
  rw [Rd.isTitle_eq, ← pySplit_strip l]
  rcases strip_head l with h | ⟨c, cs, h, hc⟩
  · rw [h]; rfl
  · rw [h, pySplit_word c cs hc]
    simp only [Rd.startsTilde]
    by_cases e : c = '~'
    · subst e; rfl
    · have : (c == '~') = false := by simpa using e
      rw [this]
      split
      · rename_i h'; cases h'; exact absurd rfl e
      · rfl

theorem isTitle_of_words {a b : Str} (h : pySplit a = pySplit b) : Rd.isTitle a = Rd.isTitle b := by
  rw [isTitle_words, isTitle_words, h]

/-- REPAD, whitespace splitter: a quote-free data line re-padded is the same line for the data reader -/
theorem relay_space_dataEq (seps : List Str) (l : Str) (hq : QuoteFree l) : DataEq .space l (relayLine1 .space .space seps l) :=
  dataEq_of_words l _ hq (relay_space_quoteFree seps l hq) (relay_space_words seps l).symm

theorem sim_repadLine_space (d : List Str) (k : Nat) (seps : List Str)
    (h : ∀ a, d[k]? = some a → Rd.isTitle a = false ∧ QuoteFree a ∧ ∃ t, ctxAt .pre d k = .sec t ∧ isDataKind (kindOf t)) :
    Sim .space .pre d (repadLine k .space seps d) := by
  apply sim_mapAt
  intro a ha
  obtain ⟨hnt, hq, t, hc, hk⟩ := h a ha
  right
  refine ⟨hnt, by rw [← isTitle_of_words (relay_space_words seps a).symm]; exact hnt, ?_⟩
  rw [hc]
  simp only [BodyEq]
  rcases hk with hk | hk <;> rw [hk] <;> exact relay_space_dataEq seps a hq

end Lasio.Tf

/-! ## §11 re-wrapping -/
namespace Lasio.Tf
open Lasio Lasio.Dt

/-- the words of the data lines of a body, in order -/
def bodyWords (body : List Str) : List Str := (body.filter (fun l => !isSkip l)).flatMap pySplit

theorem isSkip_words (l : Str) : isSkip l = ((pySplit l).isEmpty || firstHash (pySplit l)) := by
  unfold isSkip
  simp only [cleanLine_eq_strip, isEmpty_strip, isComment_strip]

theorem isSkip_lineTokens (sb : Subs) (dlm : Dlm) (l : Str) (h : isSkip l = true) : lineTokens sb dlm l = [] := by
  unfold isSkip at h
  unfold lineTokens
  simp only [Bool.or_eq_true] at h
  rcases h with h | h
  · have : cleanLine l = [] := by simpa using h
    rw [this]
    have h1 : applySubs sb [] = [] := by
      unfold applySubs subCommaDecimal subRunOnHyphen subRunOnDot
      cases sb.comma <;> cases sb.hyphen <;> cases sb.dot <;> simp [reSub]
    simp [isComment, startsWith, h1]
  · simp [h]

/-- normal engine, whitespace splitter, quote-free line: the items of its words -/
theorem lineTokens_words' (sb : Subs) (l : Str) (hq : QuoteFree l) :
    lineTokens sb .space l = if isSkip l then [] else (pySplit l).flatMap (lineToks sb) := by
  rw [lineTokens_space_words sb l hq, isSkip_words]
  cases h1 : firstHash (pySplit l) with
  | true => simp
  | false =>
    cases h2 : (pySplit l).isEmpty with
    | true =>
      have : pySplit l = [] := by simpa using h2
      simp [this]
    | false => simp

theorem normalTokens_words (sb : Subs) (body : List Str) (hq : ∀ l ∈ body, QuoteFree l) :
    normalTokens sb .space body = (bodyWords body).flatMap (lineToks sb) := by
  induction body with
  | nil => rfl
  | cons l ls ih =>
    have ih' := ih (fun x hx => hq x (List.mem_cons_of_mem _ hx))
    simp only [normalTokens, List.flatMap_cons] at ih' ⊢
    rw [ih', lineTokens_words' sb l (hq l (by simp))]
    unfold bodyWords
    cases h : isSkip l <;> simp [h]

/-! ### cutting and chunking keep the sequence -/

theorem cut_flatten {α} (widths : List Nat) (l : List α) : (cut widths l).flatten = l := by
  induction widths generalizing l with
  | nil => cases l <;> simp [cut]
  | cons w ws ih =>
    cases l with
    | nil => simp [cut]
    | cons a l => simp only [cut, List.flatten_cons, ih, List.take_append_drop]

theorem cut_ne {α} (widths : List Nat) (l : List α) : ∀ p ∈ cut widths l, p ≠ [] := by
  induction widths generalizing l with
  | nil => cases l <;> simp [cut]
  | cons w ws ih =>
    cases l with
    | nil => simp [cut]
    | cons a l =>
      intro p hp
      simp only [cut, List.mem_cons] at hp
      rcases hp with rfl | hp
      · have : max w 1 = (max w 1 - 1) + 1 := by omega
        rw [this]; simp
      · exact ih _ p hp

theorem chunk_flatten' {α} (c : Nat) (hc : 0 < c) (fuel : Nat) (l : List α) (hf : l.length ≤ fuel) :
    (chunk c fuel l).flatten = l := by
  induction fuel generalizing l with
  | zero =>
    have : l = [] := by cases l with
      | nil => rfl
      | cons _ _ => simp at hf
    subst this; rfl
  | succ fuel ih =>
    simp only [chunk]
    split
    · rename_i h; have : l = [] := by simpa using h
      subst this; rfl
    · simp only [List.flatten_cons]
      rw [ih (l.drop c) (by simp; omega), List.take_append_drop]

theorem reshape_flatten' {α} (c : Nat) (hc : 0 < c) (l : List α) : (reshape c l).flatten = l :=
  chunk_flatten' c hc _ l (Nat.le_refl _)

/-! ### the lines of a re-wrapped body -/

theorem joinWith_joinSeps (ws : List Str) : joinWith [' '] ws = joinSeps (fun _ => [' ']) ws [] := by
  induction ws with
  | nil => rfl
  | cons w rest ih =>
    cases rest with
    | nil => rfl
    | cons w' rest' => simp only [joinWith, joinSeps, List.tail_nil, ih, List.append_assoc]

theorem wrapLine_words (ws : List Str) (hw : ∀ w ∈ ws, IsWord w) : pySplit (joinWith [' '] ws ++ nl) = ws := by
  rw [joinWith_joinSeps]
  exact pySplit_joinSeps _ (fun _ => ⟨by simp, by intro c hc; simp at hc; subst hc; decide⟩) ws hw [] nl allWs_nl

theorem wrapLine_quoteFree (ws : List Str) (hw : ∀ w ∈ ws, QuoteFree w) : QuoteFree (joinWith [' '] ws ++ nl) := by
  rw [joinWith_joinSeps]
  exact quoteFree_append (quoteFree_joinSeps _ (fun _ => by intro c hc; simp at hc; subst hc; decide) ws hw [])
    (quoteFree_allWs allWs_nl)

/-- what the body must satisfy for a re-wrapping to be a presentation change -/
structure WrapOK (body : List Str) : Prop where
  qf : ∀ l ∈ body, QuoteFree l
  /-- a token at the start of a physical line must not turn the line into a comment or a title -/
  heads : ∀ w ∈ bodyWords body, w.head? ≠ some '#' ∧ w.head? ≠ some '~'
  /-- the run-on(-) substitution changes no token: whether the hyphen rule fires depends on the line layout -/
  hyphen : ∀ w ∈ bodyWords body, lineToks Subs.default w = lineToks Subs.default.dropHyphen w

/-- the data lines of the re-wrapped body -/
def wrappedLines (d : Nat) (widths : List Nat) (body : List Str) : List Str :=
  (reshape (max d 1) (bodyWords body)).flatMap (wrapStep widths)

theorem rewrapBody_eq (d : Nat) (widths : List Nat) (body : List Str) :
    rewrapBody d widths body = (body.filter isSkip).map termLine ++ wrappedLines d widths body := rfl

/-- every re-wrapped line is `joinWith " " ws ++ "\n"` for a non-empty piece `ws` of the word sequence -/
theorem wrappedLines_spec (d : Nat) (widths : List Nat) (body : List Str) :
    ∃ pieces : List (List Str), wrappedLines d widths body = pieces.map (fun ws => joinWith [' '] ws ++ nl) ∧
      pieces.flatten = bodyWords body ∧ ∀ p ∈ pieces, p ≠ [] := by
  refine ⟨(reshape (max d 1) (bodyWords body)).flatMap (cut widths), ?_, ?_, ?_⟩
  · unfold wrappedLines wrapStep
    rw [List.map_flatMap]
  · have : ∀ steps : List (List Str), (List.flatMap (cut widths) steps).flatten = steps.flatten := by
      intro steps
      induction steps with
      | nil => rfl
      | cons s ss ih => simp only [List.flatMap_cons, List.flatten_append, cut_flatten, ih, List.flatten_cons]
    rw [this, reshape_flatten' _ (by omega)]
  · intro p hp
    obtain ⟨s, _, hps⟩ := List.mem_flatMap.mp hp
    exact cut_ne widths s p hps

theorem firstHash_false_of_head {ws : List Str} (h : ∀ w ∈ ws, w.head? ≠ some '#') : firstHash ws = false := by
  cases ws with
  | nil => rfl
  | cons w rest =>
    cases w with
    | nil => rfl
    | cons c cs =>
      have := h (c :: cs) (by simp)
      simp only [List.head?_cons, ne_eq, Option.some.injEq] at this
      simp [firstHash, this]

/-- the flat item sequence of the re-wrapped body is that of the body -/
theorem normalTokens_rewrap (sb : Subs) (d : Nat) (widths : List Nat) (body : List Str) (h : WrapOK body) :
    normalTokens sb .space (rewrapBody d widths body) = (bodyWords body).flatMap (lineToks sb) := by
  obtain ⟨pieces, hl, hfl, hne⟩ := wrappedLines_spec d widths body
  rw [rewrapBody_eq, hl]
  have hmem : ∀ p ∈ pieces, ∀ w ∈ p, w ∈ bodyWords body := by
    intro p hp w hw
    rw [← hfl]; exact List.mem_flatten.mpr ⟨p, hp, hw⟩
  have hword : ∀ w ∈ bodyWords body, IsWord w ∧ QuoteFree w := by
    intro w hw
    unfold bodyWords at hw
    obtain ⟨l, hl', hwl⟩ := List.mem_flatMap.mp hw
    have hlb : l ∈ body := (List.mem_filter.mp hl').1
    exact ⟨mem_pySplit_isWord l w hwl, quoteFree_words (h.qf l hlb) w hwl⟩
  simp only [normalTokens, List.flatMap_append]
  have h1 : List.flatMap (lineTokens sb .space) ((body.filter isSkip).map termLine) = [] := by
    rw [List.flatMap_eq_nil_iff]
    intro l hl'
    obtain ⟨x, hx, rfl⟩ := List.mem_map.mp hl'
    apply isSkip_lineTokens
    have hs := (List.mem_filter.mp hx).2
    unfold isSkip at hs ⊢
    rw [cleanLine_eq_strip] at hs ⊢
    rw [termLine_strip]; exact hs
  rw [h1, List.nil_append, ← hfl]
  clear hl hfl
  induction pieces with
  | nil => rfl
  | cons p ps ih =>
    have ih' := ih (fun q hq => hne q (List.mem_cons_of_mem _ hq)) (fun q hq => hmem q (List.mem_cons_of_mem _ hq))
    simp only [List.map_cons, List.flatMap_cons, List.flatten_cons, List.flatMap_append]
    rw [ih']
    congr 1
    have hp : ∀ w ∈ p, w ∈ bodyWords body := hmem p (by simp)
    have hq : QuoteFree (joinWith [' '] p ++ nl) := wrapLine_quoteFree p (fun w hw => (hword w (hp w hw)).2)
    have hws : pySplit (joinWith [' '] p ++ nl) = p := wrapLine_words p (fun w hw => (hword w (hp w hw)).1)
    rw [lineTokens_space_words sb _ hq, hws, firstHash_false_of_head (fun w hw => (h.heads w (hp w hw)).1)]
    rfl

/-- no line of the re-wrapped body is a title line -/
theorem rewrapBody_no_title (d : Nat) (widths : List Nat) (body : List Str) (h : WrapOK body) :
    ∀ l ∈ rewrapBody d widths body, Rd.isTitle l = false := by
  obtain ⟨pieces, hl, hfl, hne⟩ := wrappedLines_spec d widths body
  intro l hl'
  rw [rewrapBody_eq, hl] at hl'
  rcases List.mem_append.mp hl' with hm | hm
  · obtain ⟨x, hx, rfl⟩ := List.mem_map.mp hm
    have hs := (List.mem_filter.mp hx).2
    rw [isTitle_strip_congr (termLine_strip x)]
    rw [isTitle_words]
    rw [isSkip_words] at hs
    cases hp : pySplit x with
    | nil => rfl
    | cons w rest =>
      cases w with
      | nil => rfl
      | cons c cs =>
        simp only [hp, List.isEmpty_cons, Bool.false_or, firstHash, beq_iff_eq] at hs
        subst hs; rfl
  · obtain ⟨p, hp, rfl⟩ := List.mem_map.mp hm
    have hmem : ∀ w ∈ p, w ∈ bodyWords body := fun w hw => by
      rw [← hfl]; exact List.mem_flatten.mpr ⟨p, hp, hw⟩
    have hword : ∀ w ∈ p, IsWord w := by
      intro w hw
      have := hmem w hw
      unfold bodyWords at this
      obtain ⟨l, _, hwl⟩ := List.mem_flatMap.mp this
      exact mem_pySplit_isWord l w hwl
    rw [isTitle_words, wrapLine_words p hword]
    cases p with
    | nil => exact absurd rfl (hne [] hp)
    | cons w rest =>
      cases w with
      | nil => rfl
      | cons c cs =>
        have := (h.heads (c :: cs) (hmem _ (by simp))).2
        simp only [List.head?_cons, ne_eq, Option.some.injEq] at this
        simp [this]

end Lasio.Tf

namespace Lasio.Tf
open Lasio Lasio.Dt

/-- the steering values of a file declared as wrapped, with `d ≥ 1` declared curves and the default delimiter -/
structure WrapSteer (st : Steer) (d : Nat) : Prop where
  dlm : st.delimiter = .space
  declared : st.wrapDeclared = true
  wrapped : st.wrapped = yesTxt
  pos : 0 < d

theorem sniffTwiceB_subs (sb : Subs) (dlm : Dlm) (body : List Str) :
    (sniffTwiceB sb dlm body).1 = sb ∨ (sniffTwiceB sb dlm body).1 = sb.dropHyphen := by
  unfold sniffTwiceB
  simp only
  split
  · right; rfl
  · left; rfl

theorem readerColumns_wrapped {st : Steer} {d : Nat} (h : WrapSteer st d) (s : Option Nat) : readerColumns st d s = d := by
  unfold readerColumns
  simp [h.declared, h.wrapped, h.pos]

theorem normalEngineLines_tokens' (ft : FloatTable) (sb sb' : Subs) (dlm : Dlm) (n : Nat) (b b' : List Str)
    (h : normalTokens sb dlm b = normalTokens sb' dlm b') : normalEngineLines ft sb dlm n b = normalEngineLines ft sb' dlm n b' := by
  unfold normalEngineLines; rw [h]

/-- the normal engine reads the re-wrapped body as it reads the body -/
theorem normalRead_rewrap (o : DataOpts) (st : Steer) (d : Nat) (ft : FloatTable) (dcl : Nat) (widths : List Nat) (body : List Str)
    (hs : WrapSteer st d) (h : WrapOK body) :
    normalRead o st d ft (rewrapBody dcl widths body) = normalRead o st d ft body := by
  unfold normalRead
  rw [readerColumns_wrapped hs, readerColumns_wrapped hs, hs.dlm]
  have hneutral : (bodyWords body).flatMap (lineToks Subs.default.dropHyphen) = (bodyWords body).flatMap (lineToks Subs.default) := by
    have gen : ∀ ws : List Str, (∀ w ∈ ws, lineToks Subs.default w = lineToks Subs.default.dropHyphen w) →
        ws.flatMap (lineToks Subs.default.dropHyphen) = ws.flatMap (lineToks Subs.default) := by
      intro ws hws
      induction ws with
      | nil => rfl
      | cons w rest ih =>
        simp only [List.flatMap_cons]
        rw [hws w (by simp), ih (fun x hx => hws x (List.mem_cons_of_mem _ hx))]
    exact gen _ h.hyphen
  have key : ∀ sb, (sb = Subs.default ∨ sb = Subs.default.dropHyphen) → ∀ sb', (sb' = Subs.default ∨ sb' = Subs.default.dropHyphen) →
      normalTokens sb .space (rewrapBody dcl widths body) = normalTokens sb' .space body := by
    intro sb hsb sb' hsb'
    rw [normalTokens_rewrap sb dcl widths body h, normalTokens_words sb' body h.qf]
    rcases hsb with rfl | rfl <;> rcases hsb' with rfl | rfl <;> simp [hneutral]
  have e1 := sniffTwiceB_subs (readSubs .space) .space (rewrapBody dcl widths body)
  have e2 := sniffTwiceB_subs (readSubs .space) .space body
  rw [normalEngineLines_tokens' ft _ _ .space d _ _ (key _ e1 _ e2)]

theorem effective_wrapped (o : DataOpts) {st : Steer} (h : st.wrapped = yesTxt) : effectiveEngine o st = .normal := by
  simp [effectiveEngine, h]

/-- REWRAP, one window: same curves (and the normal engine on both sides: a wrapped file is never read by numpy) -/
theorem readBody_rewrap (o : DataOpts) (st : Steer) (d : Nat) (ft : FloatTable) (dcl : Nat) (widths : List Nat)
    (body after after' : List Str) (hs : WrapSteer st d) (h : WrapOK body) :
    readBody o st d ft (rewrapBody dcl widths body) after' = readBody o st d ft body after := by
  unfold readBody
  simp only [effective_wrapped o hs.wrapped]
  exact normalRead_rewrap o st d ft dcl widths body hs h

end Lasio.Tf

/-! ### one data section replaced -/
namespace Lasio.Tf
open Lasio Lasio.Dt

theorem flat_append (a b : List (Str × List Str)) : Rd.flat (a ++ b) = Rd.flat a ++ Rd.flat b := by
  induction a with
  | nil => rfl
  | cons tb rest ih => obtain ⟨t, x⟩ := tb; simp [Rd.flat, ih]

theorem bodySim_refl (dlm : Dlm) (b : List Str) : BodySim dlm b b := by
  induction b with
  | nil => exact .nil
  | cons a l ih => exact .line (dataEq_of_strip dlm rfl) ih

theorem secRel_refl (tb : Str × List Str) : SecRel tb tb where
  title := rfl
  items := fun _ o _ p _ n n' l h => Rd.bodyRun_ok_indep o p tb.2 n n' l h
  other := fun _ => rfl

theorem agreeAlone_of_normal (o : DataOpts) (st : Steer) (d : Nat) (ft : FloatTable) (b : List Str)
    (h : effectiveEngine o st = .normal) : AgreeAlone o st d ft b := by
  unfold AgreeAlone readBody
  simp only [h]

theorem wellFormed_tail {tb : Str × List Str} {rest : List (Str × List Str)} (h : Rd.WellFormed (tb :: rest)) : Rd.WellFormed rest :=
  fun x hx => h x (List.mem_cons_of_mem _ hx)

theorem wellFormed_append_right {a b : List (Str × List Str)} (h : Rd.WellFormed (a ++ b)) : Rd.WellFormed b :=
  fun x hx => h x (List.mem_append_right _ hx)

theorem docRel_refl (o : DataOpts) (ft : FloatTable) (G : Steer → Nat → List Str → Prop) (secs : List (Str × List Str)) :
    DocRel o ft G secs secs := by
  induction secs with
  | nil => exact .nil
  | cons tb rest ih => exact .cons (secRel_refl tb) (fun _ _ _ _ => rfl) ih

/-- Replace the body of ONE section: the sections before it see other lines after themselves (which matters to the numpy
engine only through `AfterOK`), the sections after it see nothing. -/
theorem docRel_replace (o : DataOpts) (ft : FloatTable) (htf : TildeNotFloat ft) (G : Steer → Nat → List Str → Prop)
    (hGA : ∀ st d x, G st d x → AgreeAlone o st d ft x)
    (s₁ s₂ : List (Str × List Str)) (t : Str) (b b' : List Str)
    (hw : Rd.WellFormed (s₁ ++ (t, b) :: s₂)) (hw' : Rd.WellFormed (s₁ ++ (t, b') :: s₂))
    (hsec : SecRel (t, b) (t, b'))
    (hdata : isDataKind (kindOf t) → ∀ st d, G st d b →
      (readBody o st d ft b (Rd.flat s₂)).map Prod.snd = (readBody o st d ft b' (Rd.flat s₂)).map Prod.snd) :
    DocRel o ft G (s₁ ++ (t, b) :: s₂) (s₁ ++ (t, b') :: s₂) := by
  induction s₁ with
  | nil => exact .cons hsec hdata (docRel_refl o ft G s₂)
  | cons x rest ih =>
    have hwr := wellFormed_tail hw
    have hwr' := wellFormed_tail hw'
    refine .cons (secRel_refl x) ?_ (ih hwr hwr')
    intro _ st d hg
    exact readBody_sim o st d ft (bodySim_refl st.delimiter x.2) (afterOK_flat ft htf _ hwr) (afterOK_flat ft htf _ hwr')
      (hGA st d x.2 hg)

theorem size_eq_flat_length (secs : List (Str × List Str)) : Rd.size secs = (Rd.flat secs).length := (Rd.flat_length secs).symm

/-- `rewrap` on the document structure: the body of the addressed data section is replaced -/
theorem rewrap_struct (pre : List Str) (s₁ s₂ : List (Str × List Str)) (t : Str) (body : List Str) (dcl : Nat) (widths : List Nat) :
    rewrap (pre.length + Rd.size s₁) (pre.length + Rd.size s₁ + body.length) dcl widths
        (pre ++ Rd.flat (s₁ ++ (t, body) :: s₂)) =
      pre ++ Rd.flat (s₁ ++ (t, rewrapBody dcl widths body) :: s₂) := by
  have hA : (pre ++ Rd.flat s₁).length = pre.length + Rd.size s₁ := by simp [size_eq_flat_length]
  have e : pre ++ Rd.flat (s₁ ++ (t, body) :: s₂) = (pre ++ Rd.flat s₁) ++ t :: (body ++ Rd.flat s₂) := by
    simp [flat_append, Rd.flat]
  unfold rewrap
  rw [e, ← hA, bodyLines_at]
  have h1 : ((pre ++ Rd.flat s₁) ++ t :: (body ++ Rd.flat s₂)).take ((pre ++ Rd.flat s₁).length + 1) = (pre ++ Rd.flat s₁) ++ [t] := by
    rw [List.take_append, List.take_of_length_le (by omega)]
    simp
  have h2 : ((pre ++ Rd.flat s₁) ++ t :: (body ++ Rd.flat s₂)).drop ((pre ++ Rd.flat s₁).length + body.length + 1) = Rd.flat s₂ := by
    have : (pre ++ Rd.flat s₁).length + body.length + 1 = ((pre ++ Rd.flat s₁).length + 1) + body.length := by omega
    rw [this, ← List.drop_drop, drop_at, List.drop_left]
  rw [h1, h2]
  simp [flat_append, Rd.flat]

end Lasio.Tf

/-! ### a blank / comment line inserted at a given place -/
namespace Lasio.Tf
open Lasio Lasio.Dt

theorem bodySim_insert (dlm : Dlm) (b₁ b₂ : List Str) (s : Str) (hs : SkipLine s) : BodySim dlm (b₁ ++ b₂) (b₁ ++ s :: b₂) := by
  induction b₁ with
  | nil => exact .insR hs (bodySim_refl dlm b₂)
  | cons x xs ih => exact .line (dataEq_of_strip dlm rfl) ih

theorem bodyRun_cons_congr (o : Rd.ReadOpts) (p : Rd.Parser) (x : Str) (ls ls' : List Str)
    (h : ∀ n n' l, Rd.bodyRun o p ls n = .ok l → Rd.bodyRun o p ls' n' = .ok l) :
    ∀ n n' l, Rd.bodyRun o p (x :: ls) n = .ok l → Rd.bodyRun o p (x :: ls') n' = .ok l := by
  intro n n' l hl
  simp only [Rd.bodyRun] at hl ⊢
  cases hr : Rd.lineRes o p x with
  | item it =>
    simp only [hr] at hl ⊢
    cases hb : Rd.bodyRun o p ls (n + 1) with
    | error e => simp [hb] at hl
    | ok r =>
      simp only [hb] at hl
      rw [h (n + 1) (n' + 1) r hb]
      exact hl
  | bad =>
    simp only [hr] at hl ⊢
    cases hi : o.ignoreHeaderErrors with
    | true => simp only [hi, if_true] at hl ⊢; exact h _ _ l hl
    | false => simp [hi] at hl
  | skip => simp only [hr] at hl ⊢; exact h _ _ l hl
  | title => simp only [hr] at hl ⊢; exact h _ _ l hl

theorem bodyRun_insert (o : Rd.ReadOpts) (p : Rd.Parser) (l₁ l₂ : List Str) (s : Str) (hs : SkipLine s) :
    ∀ n n' l, Rd.bodyRun o p (l₁ ++ l₂) n = .ok l → Rd.bodyRun o p (l₁ ++ s :: l₂) n' = .ok l := by
  induction l₁ with
  | nil =>
    intro n n' l h
    simp only [List.nil_append, Rd.bodyRun, skip_lineRes o p hs] at h ⊢
    exact Rd.bodyRun_ok_indep o p l₂ n (n' + 1) l h
  | cons x xs ih => exact bodyRun_cons_congr o p x _ _ ih

end Lasio.Tf

/-! ## §12 readable bases and single steps -/
namespace Lasio.Tf
open Lasio Lasio.Dt

/-- a readable document on whose data sections the two engines agree -/
structure Base (o : Opts) (nullOf : Option Str → Option Str) (ft : FloatTable) (d : Doc) (r : FullRead) : Prop where
  read : readFull o nullOf ft d = .ok r
  agree : AllData (AgreeAlone o.dat (dtSteer nullOf r.steer) (declaredCount r.sections) ft) (parse d).2

theorem afterOK_nil (ft : FloatTable) : AfterOK ft [] := Or.inl rfl

/-- agreement of the engines is inherited along `BodySim` -/
theorem agreeAlone_sim (o : DataOpts) (st : Steer) (d : Nat) (ft : FloatTable) {b b' : List Str}
    (h : BodySim st.delimiter b b') (ha : AgreeAlone o st d ft b) : AgreeAlone o st d ft b' := by
  unfold AgreeAlone at ha ⊢
  rw [← readBody_sim o st d ft h (afterOK_nil ft) (afterOK_nil ft) ha, ha, normalRead_sim o st d ft h]

theorem agree_secSim (o : DataOpts) (st : Steer) (d : Nat) (ft : FloatTable) (dlm : Dlm) (hd : st.delimiter = dlm)
    {secs secs' : List (Str × List Str)} (h : Forall2 (SecSim dlm) secs secs') (ha : AllData (AgreeAlone o st d ft) secs) :
    AllData (AgreeAlone o st d ft) secs' := by
  induction h with
  | nil => intro tb h; cases h
  | @cons tb tb' rest rest' hs _ ih =>
    intro x hx hk
    rcases List.mem_cons.mp hx with rfl | hx
    · have hk' : isDataKind (kindOf tb.1) := by rw [kindOf_strip_congr hs.1]; exact hk
      have hb : BodySim st.delimiter tb.2 x.2 := by rw [hd]; exact bsim_data dlm hk' hs.2
      exact agreeAlone_sim o st d ft hb (ha tb List.mem_cons_self hk')
    · exact ih (fun y hy => ha y (List.mem_cons_of_mem _ hy)) x hx hk

/-- STEP along `Sim`: the transformed document is readable, with the same steering values and the same parsed result, and the
engines still agree on its data sections -/
theorem base_sim (o : Opts) (nullOf : Option Str → Option Str) (ft : FloatTable) (htf : TildeNotFloat ft) (dlm : Dlm)
    (d d' : Doc) (r : FullRead) (hs : Sim dlm .pre d d') (hb : Base o nullOf ft d r)
    (hd : (dtSteer nullOf r.steer).delimiter = dlm) :
    ∃ r', Base o nullOf ft d' r' ∧ r'.steer = r.steer ∧ r'.parsed = r.parsed := by
  have hG : AllData (SimGuard o.dat ft dlm (dtSteer nullOf r.steer) (declaredCount r.sections)) (parse d).2 :=
    fun tb htb hk => ⟨hd, hb.agree tb htb hk⟩
  obtain ⟨r', h1, h2, h3⟩ := readFull_sim o nullOf ft htf dlm d d' hs r hb.read hG
  refine ⟨r', ⟨h1, ?_⟩, h2, h3⟩
  have hsec : r'.sections = r.sections := congrArg Parsed.sections h3
  rw [h2, hsec]
  exact agree_secSim o.dat _ _ ft dlm hd (sim_parse dlm hs).2 hb.agree

/-- the structure of a document given by its structure -/
theorem parse_struct (pre : List Str) (secs : List (Str × List Str)) (hpre : ∀ x ∈ pre, Rd.isTitle x = false)
    (hw : Rd.WellFormed secs) : parse (pre ++ Rd.flat secs) = (pre, secs) := by
  induction pre with
  | nil =>
    simp only [List.nil_append]
    induction secs with
    | nil => rfl
    | cons tb rest ih =>
      obtain ⟨t, b⟩ := tb
      have ht := (hw (t, b) List.mem_cons_self).1
      have hbt := (hw (t, b) List.mem_cons_self).2
      have ihr := ih (wellFormed_tail hw)
      simp only [Rd.flat, List.cons_append]
      rw [parse_title t _ ht]
      -- the body lines are not titles: they are collected in front of the following sections
      have hbody : ∀ (b : List Str), (∀ x ∈ b, Rd.isTitle x = false) → parse (b ++ Rd.flat rest) = (b, rest) := by
        intro b hb
        induction b with
        | nil => exact ihr
        | cons x xs ihb =>
          rw [List.cons_append, parse_line x _ (hb x (by simp)), ihb (fun y hy => hb y (by simp [hy]))]
      rw [hbody b hbt]
  | cons x xs ih =>
    rw [List.cons_append, parse_line x _ (hpre x (by simp)), ih (fun y hy => hpre y (by simp [hy]))]

/-- STEP for `rewrap` -/
theorem base_rewrap (o : Opts) (nullOf : Option Str → Option Str) (ft : FloatTable) (htf : TildeNotFloat ft)
    (pre : List Str) (s₁ s₂ : List (Str × List Str)) (t : Str) (body : List Str) (dcl : Nat) (widths : List Nat) (r : FullRead)
    (hpre : ∀ x ∈ pre, Rd.isTitle x = false) (hw : Rd.WellFormed (s₁ ++ (t, body) :: s₂)) (hk : isDataKind (kindOf t))
    (hok : WrapOK body) (hb : Base o nullOf ft (pre ++ Rd.flat (s₁ ++ (t, body) :: s₂)) r)
    (hst : WrapSteer (dtSteer nullOf r.steer) (declaredCount r.sections)) :
    ∃ r', Base o nullOf ft (rewrap (pre.length + Rd.size s₁) (pre.length + Rd.size s₁ + body.length) dcl widths
        (pre ++ Rd.flat (s₁ ++ (t, body) :: s₂))) r' ∧ r'.steer = r.steer ∧ r'.parsed = r.parsed := by
  rw [rewrap_struct]
  have hw' : Rd.WellFormed (s₁ ++ (t, rewrapBody dcl widths body) :: s₂) := by
    intro tb htb
    rcases List.mem_append.mp htb with h | h
    · exact hw tb (List.mem_append_left _ h)
    · rcases List.mem_cons.mp h with rfl | h
      · exact ⟨(hw (t, body) (by simp)).1, rewrapBody_no_title dcl widths body hok⟩
      · exact hw tb (List.mem_append_right _ (List.mem_cons_of_mem _ h))
  let G : Steer → Nat → List Str → Prop := fun st d _ => WrapSteer st d
  have hGA : ∀ st d x, G st d x → AgreeAlone o.dat st d ft x :=
    fun st d x hg => agreeAlone_of_normal o.dat st d ft x (effective_wrapped o.dat hg.wrapped)
  have hsec : SecRel (t, body) (t, rewrapBody dcl widths body) := by
    refine ⟨rfl, ?_, ?_⟩
    · intro hi; rcases hk with h | h <;> rw [hi] at h <;> cases h
    · intro hi; rcases hk with h | h <;> rw [hi] at h <;> cases h
  have hrel := docRel_replace o.dat ft htf G hGA s₁ s₂ t body (rewrapBody dcl widths body) hw hw' hsec
    (fun _ st d hg => by rw [readBody_rewrap o.dat st d ft dcl widths body (Rd.flat s₂) (Rd.flat s₂) hg hok])
  obtain ⟨r', h1, h2, h3⟩ := readFull_rel o nullOf ft G pre pre _ _ hpre hpre hw hw' hrel r hb.read (fun _ _ _ => hst)
  refine ⟨r', ⟨h1, ?_⟩, h2, h3⟩
  have hsecs : r'.sections = r.sections := congrArg Parsed.sections h3
  rw [h2, hsecs, parse_struct pre _ hpre hw']
  intro tb _ _
  exact agreeAlone_of_normal o.dat _ _ ft tb.2 (effective_wrapped o.dat hst.wrapped)

end Lasio.Tf

/-! ### the side conditions are decidable -/
namespace Lasio.Tf
open Lasio Lasio.Dt

instance (l : Str) : Decidable (NoInnerNl l) := by unfold NoInnerNl; infer_instance
instance (s : Str) : Decidable (QuoteFree s) := by unfold QuoteFree; infer_instance
instance (k : Rd.SecKind) : Decidable (isDataKind k) := by unfold isDataKind; infer_instance
instance (c : Ctx) : Decidable (Insertable c) :=
  match c with
  | .pre => isTrue trivial
  | .sec t => inferInstanceAs (Decidable (kindOf t ≠ .other))
instance (st : Steer) (d : Nat) : Decidable (WrapSteer st d) :=
  if h : st.delimiter = .space ∧ st.wrapDeclared = true ∧ st.wrapped = yesTxt ∧ 0 < d then
    isTrue ⟨h.1, h.2.1, h.2.2.1, h.2.2.2⟩
  else isFalse (fun w => h ⟨w.dlm, w.declared, w.wrapped, w.pos⟩)
instance (body : List Str) : Decidable (WrapOK body) :=
  if h : (∀ l ∈ body, QuoteFree l) ∧ (∀ w ∈ bodyWords body, w.head? ≠ some '#' ∧ w.head? ≠ some '~') ∧
      (∀ w ∈ bodyWords body, lineToks Subs.default w = lineToks Subs.default.dropHyphen w) then
    isTrue ⟨h.1, h.2.1, h.2.2⟩
  else isFalse (fun w => h ⟨w.qf, w.heads, w.hyphen⟩)

end Lasio.Tf

/-! ### the lines `io.StringIO` yields are physical lines -/
namespace Lasio.Tf
open Lasio Lasio.Dt

theorem noInnerNl_plain (t : Str) (h : '\n' ∉ t) : NoInnerNl t := by
  unfold NoInnerNl splitEol
  have hr : '\n' ∉ t.reverse := fun hm => h (List.mem_reverse.mp hm)
  split
  · rename_i r heq; rw [heq] at hr; simp at hr
  · rename_i r heq; rw [heq] at hr; simp at hr
  · exact h

theorem noInnerNl_terminated (t : Str) (h : '\n' ∉ t) : NoInnerNl (t ++ ['\n']) := by
  unfold NoInnerNl splitEol
  rw [List.reverse_append]
  simp only [List.reverse_cons, List.reverse_nil, List.nil_append, List.cons_append]
  cases hr : t.reverse with
  | nil => simp
  | cons c r =>
    have ht : t = (c :: r).reverse := by rw [← hr, List.reverse_reverse]
    have hsub : ∀ x ∈ r.reverse, x ∈ t := fun x hx => by rw [ht]; simp at hx ⊢; exact Or.inl hx
    by_cases hc : c = '\r'
    · subst hc
      simp only
      exact fun hm => h (hsub _ hm)
    · have : ('\n' :: c :: r).reverse = t ++ ['\n'] := by rw [ht]; simp
      split
      · rename_i r' heq; cases heq; exact absurd rfl hc
      · rename_i r' heq
        cases heq
        rw [← ht]; exact h
      · rename_i _ hne
        exact absurd rfl (hne (c :: r))

theorem splitLinesAux_physical (text acc : Str) (hacc : '\n' ∉ acc) : ∀ l ∈ Rd.splitLinesAux text acc, NoInnerNl l := by
  induction text generalizing acc with
  | nil =>
    intro l hl
    simp only [Rd.splitLinesAux] at hl
    split at hl
    · cases hl
    · simp only [List.mem_singleton] at hl
      subst hl
      exact noInnerNl_plain _ (fun hm => hacc (List.mem_reverse.mp hm))
  | cons c cs ih =>
    intro l hl
    simp only [Rd.splitLinesAux] at hl
    split at hl
    · rename_i hc
      have hc' : c = '\n' := by simpa using hc
      subst hc'
      rcases List.mem_cons.mp hl with rfl | hl
      · rw [List.reverse_cons]
        exact noInnerNl_terminated _ (fun hm => hacc (List.mem_reverse.mp hm))
      · exact ih [] (by simp) l hl
    · rename_i hc
      have hc' : c ≠ '\n' := by simpa using hc
      exact ih (c :: acc) (by
        intro hm
        rcases List.mem_cons.mp hm with h | h
        · exact hc' h.symm
        · exact hacc h) l hl

/-- every line of a text split as `io.StringIO` does has its line feed at the end only -/
theorem splitLines_physical (text : Str) : ∀ l ∈ Rd.splitLines text, NoInnerNl l :=
  splitLinesAux_physical text [] (by simp)

end Lasio.Tf

/-! ## §13 the layout of a header line (through C04) -/
namespace Lasio.Tf
open Lasio Lasio.Dt

theorem rstrip_last (x : Str) : rstrip x = [] ∨ ∃ ini z, rstrip x = ini ++ [z] ∧ isPySpace z = false := by
  unfold rstrip
  rcases dropWhile_head isPySpace x.reverse with h | ⟨c, cs, h, hc⟩
  · left; rw [h]; rfl
  · right; exact ⟨cs.reverse, c, by rw [h]; simp, hc⟩

/-- a non-empty stripped string starts and ends with a non-blank -/
theorem solid_of_strip (s : Str) (hs : strip s = s) (hne : s ≠ []) : Solid s := by
  constructor
  · rcases strip_head s with h | ⟨c, cs, h, hc⟩
    · rw [hs] at h; exact absurd h hne
    · rw [hs] at h; exact ⟨c, cs, h, hc⟩
  · have : strip s = rstrip (lstrip s) := rfl
    rcases rstrip_last (lstrip s) with h | ⟨ini, z, h, hz⟩
    · rw [← this, hs] at h; exact absurd h hne
    · rw [← this, hs] at h; exact ⟨ini, z, h, hz⟩

theorem solid_append {a b : Str} (ha : Solid a) (hb : Solid b) (m : Str) : Solid (a ++ (m ++ b)) := by
  obtain ⟨h, tl, e1, hh⟩ := ha.head
  obtain ⟨ini, z, e2, hz⟩ := hb.last
  exact ⟨⟨h, tl ++ (m ++ b), by rw [e1]; rfl, hh⟩, ⟨a ++ (m ++ ini), z, by rw [e2]; simp, hz⟩⟩

/-- the padding left in front of the description after `strip()` -/
def descrPad (f : Fields) (p4 : Str) : Str := if f.descr = [] then [] else p4

/-- what the reader's `strip()` leaves of a laid-out line -/
theorem strip_layout (sec : SecName) (f : Fields) (hc : Conf sec f) (P0 P1 P2 P3 P4 P5 e : Str)
    (h0 : AllWs P0) (h4 : AllWs P4) (h5 : AllWs P5) (he : AllWs e) :
    strip (layoutFields f P0 P1 P2 P3 P4 P5 ++ e) = layoutFields f [] P1 P2 P3 (descrPad f P4) [] := by
  have hname : Solid f.name := solid_of_strip f.name hc.name_strip hc.name_ne
  have hcolon : Solid [':'] := ⟨⟨':', [], rfl, by decide⟩, ⟨[], ':', rfl, by decide⟩⟩
  by_cases hd : f.descr = []
  · have hM : Solid (f.name ++ ((P1 ++ '.' :: (f.unit ++ P2 ++ f.value ++ P3)) ++ [':'])) := solid_append hname hcolon _
    have e1 : layoutFields f P0 P1 P2 P3 P4 P5 ++ e =
        P0 ++ ((f.name ++ ((P1 ++ '.' :: (f.unit ++ P2 ++ f.value ++ P3)) ++ [':'])) ++ (P4 ++ P5 ++ e)) := by
      simp [layoutFields, hd]
    have e2 : layoutFields f [] P1 P2 P3 (descrPad f P4) [] = f.name ++ ((P1 ++ '.' :: (f.unit ++ P2 ++ f.value ++ P3)) ++ [':']) := by
      simp [layoutFields, descrPad, hd]
    rw [e1, e2]
    exact strip_sandwich P0 _ _ h0 (allWs_append (allWs_append h4 h5) he) hM
  · have hdescr : Solid f.descr := solid_of_strip f.descr hc.descr_strip hd
    have hM : Solid (f.name ++ ((P1 ++ '.' :: (f.unit ++ P2 ++ f.value ++ P3) ++ ':' :: P4) ++ f.descr)) :=
      solid_append hname hdescr _
    have e1 : layoutFields f P0 P1 P2 P3 P4 P5 ++ e =
        P0 ++ ((f.name ++ ((P1 ++ '.' :: (f.unit ++ P2 ++ f.value ++ P3) ++ ':' :: P4) ++ f.descr)) ++ (P5 ++ e)) := by
      simp [layoutFields]
    have e2 : layoutFields f [] P1 P2 P3 (descrPad f P4) [] =
        f.name ++ ((P1 ++ '.' :: (f.unit ++ P2 ++ f.value ++ P3) ++ ':' :: P4) ++ f.descr) := by
      simp [layoutFields, descrPad, hd]
    rw [e1, e2]
    exact strip_sandwich P0 _ _ h0 (allWs_append h5 he) hM

/-- the side condition of `relayout` on the line: the reader parses it to conformant fields (C04's `Conf`), the new paddings —
as the reader meets them after `strip()` — are admissible (C04's `PadOK`), and neither the line nor the mnemonic starts with
`#` or `~` -/
structure RelayOK (sec : SecName) (p1 p2 p3 p4 : Str) (a : Str) (f : Fields) : Prop where
  parsed : parseHeaderLine sec (strip a) = some f
  conf : Conf sec f
  pads : PadOK sec f [] (blanksOf p1) (blanksOf p2) (blanksOf p3) (descrPad f (blanksOf p4)) []
  line_ne : strip a ≠ []
  line_head : (strip a).head? ≠ some '#' ∧ (strip a).head? ≠ some '~'
  name_head : f.name.head? ≠ some '#' ∧ f.name.head? ≠ some '~'

theorem lineRes_item (o : Rd.ReadOpts) (p : Rd.Parser) (a : Str) (f : Fields) (hne : strip a ≠ [])
    (hh : (strip a).head? ≠ some '#' ∧ (strip a).head? ≠ some '~') (hp : parseHeaderLine p.sec (strip a) = some f) :
    Rd.lineRes o p a = .item (Rd.mkItem' p { f with name := Rd.applyCase o.mnemonicCase f.name }) := by
  unfold Rd.lineRes
  rw [Rd.lineStrip_eq_strip]
  cases hs : strip a with
  | nil => exact absurd hs hne
  | cons c cs =>
    rw [hs] at hh hp
    have h1 : c ≠ '#' := fun e => hh.1 (by simp [e])
    have h2 : c ≠ '~' := fun e => hh.2 (by simp [e])
    have h3 : Rd.startsTilde (c :: cs) = false := by
      unfold Rd.startsTilde
      split
      · rename_i heq; cases heq; exact absurd rfl h2
      · rfl
    simp [h1, h3, hp]

/-- HEADER LINE LAYOUT, reader level: the laid-out line gives the same item as the line -/
theorem relayout_lineRes (o : Rd.ReadOpts) (p : Rd.Parser) (sec : SecName) (hsec : p.sec = sec) (p0 p1 p2 p3 p4 p5 a : Str) (f : Fields)
    (h : RelayOK sec p1 p2 p3 p4 a f) :
    Rd.lineRes o p a = Rd.lineRes o p (relayoutLine1 sec p0 p1 p2 p3 p4 p5 a) ∧
    Rd.isTitle a = false ∧ Rd.isTitle (relayoutLine1 sec p0 p1 p2 p3 p4 p5 a) = false := by
  have hs : strip (splitEol a).1 = strip a := strip_splitEol a
  have ha' : relayoutLine1 sec p0 p1 p2 p3 p4 p5 a =
      layoutFields f (blanksOf p0) (blanksOf p1) (blanksOf p2) (blanksOf p3) (blanksOf p4) (blanksOf p5) ++ (splitEol a).2 := by
    unfold relayoutLine1
    simp only [hs, h.parsed]
  have hstrip : strip (relayoutLine1 sec p0 p1 p2 p3 p4 p5 a) =
      layoutFields f [] (blanksOf p1) (blanksOf p2) (blanksOf p3) (descrPad f (blanksOf p4)) [] := by
    rw [ha']
    exact strip_layout sec f h.conf _ _ _ _ _ _ _ (allWs_blanksOf p0) (allWs_blanksOf p4) (allWs_blanksOf p5) (splitEol_allWs a)
  have hL : parseHeaderLine sec (strip (relayoutLine1 sec p0 p1 p2 p3 p4 p5 a)) = some f := by
    rw [hstrip]
    exact C04_main_all sec f [] _ _ _ _ [] h.conf h.pads
  obtain ⟨c, cs, hn⟩ : ∃ c cs, f.name = c :: cs := by
    cases hf : f.name with
    | nil => exact absurd hf h.conf.name_ne
    | cons c cs => exact ⟨c, cs, rfl⟩
  have hhead : (strip (relayoutLine1 sec p0 p1 p2 p3 p4 p5 a)).head? = f.name.head? := by
    rw [hstrip, hn]; simp [layoutFields, hn]
  have hne' : strip (relayoutLine1 sec p0 p1 p2 p3 p4 p5 a) ≠ [] := by
    rw [hstrip]; simp [layoutFields, hn]
  have hh' : (strip (relayoutLine1 sec p0 p1 p2 p3 p4 p5 a)).head? ≠ some '#' ∧
      (strip (relayoutLine1 sec p0 p1 p2 p3 p4 p5 a)).head? ≠ some '~' := by rw [hhead]; exact h.name_head
  have title_false : ∀ x : Str, strip x ≠ [] → (strip x).head? ≠ some '~' → Rd.isTitle x = false := by
    intro x hx hh
    rw [Rd.isTitle_eq]
    cases hsx : strip x with
    | nil => rfl
    | cons c cs =>
      rw [hsx] at hh
      unfold Rd.startsTilde
      split
      · rename_i heq; cases heq; exact absurd rfl hh
      · rfl
  refine ⟨?_, title_false a h.line_ne h.line_head.2, title_false _ hne' hh'.2⟩
  rw [lineRes_item o p a f h.line_ne h.line_head (by rw [hsec]; exact h.parsed),
    lineRes_item o p _ f hne' hh' (by rw [hsec]; exact hL)]

/-- the side condition of `relayout` on the document: line `k` is an item line of a header-items section whose parser hands
`sec` to the line grammar, and `RelayOK` -/
def RelayoutOK (d : Doc) (k : Nat) (sec : SecName) (p1 p2 p3 p4 : Str) : Prop :=
  ∀ a, d[k]? = some a → ∃ t f, ctxAt .pre d k = .sec t ∧ kindOf t = .items ∧
    (∀ ver p, Rd.mkParser (Rd.lineStrip t) ver = .ok p → p.sec = sec) ∧ RelayOK sec p1 p2 p3 p4 a f

theorem sim_relayout (dlm : Dlm) (d : Doc) (k : Nat) (sec : SecName) (p0 p1 p2 p3 p4 p5 : Str)
    (h : RelayoutOK d k sec p1 p2 p3 p4) : Sim dlm .pre d (relayout k sec p0 p1 p2 p3 p4 p5 d) := by
  apply sim_mapAt
  intro a ha
  obtain ⟨t, f, hc, hk, hp, hr⟩ := h a ha
  right
  have key := fun o p hsec => relayout_lineRes o p sec hsec p0 p1 p2 p3 p4 p5 a f hr
  have nt : Rd.isTitle a = false ∧ Rd.isTitle (relayoutLine1 sec p0 p1 p2 p3 p4 p5 a) = false := by
    have := key ⟨false, .preserve⟩ ⟨.metadata, sec, [], []⟩ rfl
    exact this.2
  refine ⟨nt.1, nt.2, ?_⟩
  rw [hc]
  simp only [BodyEq, hk]
  intro o ver p hmk
  exact (key o p (hp ver p hmk)).1

end Lasio.Tf
