import LasioProofs.Lemmas.TransformWords
/-
C09, §9: the line-by-line relation `Sim` between two documents (equivalent lines; blank and comment lines come and go
outside ~Other sections), its projection onto the document structure, and the whole-file theorem `readFull_sim`.
§10: every line-level transformation produces a `Sim`-related document.
-/
namespace Lasio.Tf
open Lasio Lasio.Dt

/-! ## §9 `Sim` -/

/-- where a line stands: before the first title, or inside the section opened by the title line `t` -/
inductive Ctx where
  | pre
  | sec (t : Str)

/-- lines a reader of the section cannot tell apart -/
def BodyEq (dlm : Dlm) : Ctx → Str → Str → Prop
  | .pre, _, _ => True
  | .sec t, a, b =>
    match kindOf t with
    | .items => ∀ (o : Rd.ReadOpts) (ver : Rd.VerVal) (p : Rd.Parser), Rd.mkParser (Rd.lineStrip t) ver = .ok p →
        Rd.lineRes o p a = Rd.lineRes o p b
    | .other => Rd.lineStrip a = Rd.lineStrip b
    | .data => DataEq dlm a b
    | .las3data => DataEq dlm a b

/-- blank and comment lines may be inserted everywhere but in a ~Other section (its text is content) -/
def Insertable : Ctx → Prop
  | .pre => True
  | .sec t => kindOf t ≠ .other

inductive Sim (dlm : Dlm) : Ctx → List Str → List Str → Prop
  | nil {c} : Sim dlm c [] []
  | title {c a b l l'} : Rd.isTitle a = true → strip a = strip b → Sim dlm (.sec a) l l' → Sim dlm c (a :: l) (b :: l')
  | line {c a b l l'} : Rd.isTitle a = false → Rd.isTitle b = false → BodyEq dlm c a b → Sim dlm c l l' → Sim dlm c (a :: l) (b :: l')
  | insL {c s l l'} : Insertable c → SkipLine s → Sim dlm c l l' → Sim dlm c (s :: l) l'
  | insR {c s l l'} : Insertable c → SkipLine s → Sim dlm c l l' → Sim dlm c l (s :: l')

/-- the same without title lines: the bodies of two sections -/
inductive BSim (dlm : Dlm) (c : Ctx) : List Str → List Str → Prop
  | nil : BSim dlm c [] []
  | line {a b l l'} : BodyEq dlm c a b → BSim dlm c l l' → BSim dlm c (a :: l) (b :: l')
  | insL {s l l'} : Insertable c → SkipLine s → BSim dlm c l l' → BSim dlm c (s :: l) l'
  | insR {s l l'} : Insertable c → SkipLine s → BSim dlm c l l' → BSim dlm c l (s :: l')

/-! ### blank / comment lines -/

theorem skip_strip {s : Str} (h : SkipLine s) : strip s = [] ∨ ∃ r, strip s = '#' :: r := by
  rcases h with h | ⟨pre, rest, hpre, rfl⟩
  · left; rw [← cleanLine_eq_strip]; exact cleanLine_blank s h
  · right
    obtain ⟨r, hr⟩ := cleanLine_comment pre rest hpre
    exact ⟨r, by rw [← cleanLine_eq_strip]; exact hr⟩

theorem skip_not_title {s : Str} (h : SkipLine s) : Rd.isTitle s = false := by
  rw [Rd.isTitle_eq]
  rcases skip_strip h with h | ⟨r, h⟩ <;> rw [h] <;> rfl

theorem skip_lineRes (o : Rd.ReadOpts) (p : Rd.Parser) {s : Str} (h : SkipLine s) : Rd.lineRes o p s = .skip := by
  unfold Rd.lineRes
  rw [Rd.lineStrip_eq_strip]
  rcases skip_strip h with h | ⟨r, h⟩ <;> rw [h] <;> simp

/-! ### projection onto the document structure -/

def SecSim (dlm : Dlm) (tb tb' : Str × List Str) : Prop :=
  strip tb.1 = strip tb'.1 ∧ BSim dlm (.sec tb.1) tb.2 tb'.2

theorem parse_title (a : Str) (l : List Str) (h : Rd.isTitle a = true) :
    parse (a :: l) = ([], (a, (parse l).1) :: (parse l).2) := by simp [parse, h]

theorem parse_line (a : Str) (l : List Str) (h : Rd.isTitle a = false) :
    parse (a :: l) = (a :: (parse l).1, (parse l).2) := by simp [parse, h]

theorem sim_parse (dlm : Dlm) {c : Ctx} {l l' : List Str} (h : Sim dlm c l l') :
    BSim dlm c (parse l).1 (parse l').1 ∧ Forall2 (SecSim dlm) (parse l).2 (parse l').2 := by
  induction h with
  | nil => exact ⟨.nil, .nil⟩
  | @title c a b l l' ha hs _ ih =>
    have hb : Rd.isTitle b = true := by rw [← isTitle_strip_congr hs]; exact ha
    rw [parse_title a l ha, parse_title b l' hb]
    exact ⟨.nil, .cons ⟨hs, ih.1⟩ ih.2⟩
  | @line c a b l l' ha hb he _ ih =>
    rw [parse_line a l ha, parse_line b l' hb]
    exact ⟨.line he ih.1, ih.2⟩
  | @insL c s l l' hi hs _ ih =>
    rw [parse_line s l (skip_not_title hs)]
    exact ⟨.insL hi hs ih.1, ih.2⟩
  | @insR c s l l' hi hs _ ih =>
    rw [parse_line s l' (skip_not_title hs)]
    exact ⟨.insR hi hs ih.1, ih.2⟩

/-! ### what `BSim` gives in each kind of section -/

theorem bsim_items (dlm : Dlm) {t : Str} (hk : kindOf t = .items) {b b' : List Str} (h : BSim dlm (.sec t) b b')
    (o : Rd.ReadOpts) (ver : Rd.VerVal) (p : Rd.Parser) (hp : Rd.mkParser (Rd.lineStrip t) ver = .ok p) :
    ∀ (n n' : Nat) (l : List Rd.RItem), Rd.bodyRun o p b n = .ok l → Rd.bodyRun o p b' n' = .ok l := by
  induction h with
  | nil => intro n n' l h; exact h
  | @line a c ls ls' he _ ih =>
    intro n n' l h
    have he' : Rd.lineRes o p a = Rd.lineRes o p c := by
      simp only [BodyEq, hk] at he
      exact he o ver p hp
    simp only [Rd.bodyRun] at h ⊢
    rw [← he']
    cases hr : Rd.lineRes o p a with
    | item it =>
      simp only [hr] at h ⊢
      cases hb : Rd.bodyRun o p ls (n + 1) with
      | error e => simp [hb] at h
      | ok r =>
        simp only [hb] at h
        rw [ih (n + 1) (n' + 1) r hb]
        exact h
    | bad =>
      simp only [hr] at h ⊢
      cases hi : o.ignoreHeaderErrors with
      | true => simp only [hi, if_true] at h ⊢; exact ih _ _ l h
      | false => simp [hi] at h
    | skip => simp only [hr] at h ⊢; exact ih _ _ l h
    | title => simp only [hr] at h ⊢; exact ih _ _ l h
  | @insL s ls ls' _ hs _ ih =>
    intro n n' l h
    simp only [Rd.bodyRun, skip_lineRes o p hs] at h
    exact ih _ _ l h
  | @insR s ls ls' _ hs _ ih =>
    intro n n' l h
    simp only [Rd.bodyRun, skip_lineRes o p hs]
    exact ih _ _ l h

theorem bsim_other (dlm : Dlm) {t : Str} (hk : kindOf t = .other) {b b' : List Str} (h : BSim dlm (.sec t) b b') :
    b.map Rd.lineStrip = b'.map Rd.lineStrip := by
  induction h with
  | nil => rfl
  | line he _ ih =>
    simp only [BodyEq, hk] at he
    simp only [List.map_cons, he, ih]
  | insL hi _ _ _ => exact absurd hk hi
  | insR hi _ _ _ => exact absurd hk hi

theorem bsim_data (dlm : Dlm) {t : Str} (hk : isDataKind (kindOf t)) {b b' : List Str} (h : BSim dlm (.sec t) b b') :
    BodySim dlm b b' := by
  induction h with
  | nil => exact .nil
  | line he _ ih =>
    refine .line ?_ ih
    rcases hk with hk | hk <;> simp only [BodyEq, hk] at he <;> exact he
  | insL _ hs _ ih => exact .insL hs ih
  | insR _ hs _ ih => exact .insR hs ih

theorem secSim_secRel (dlm : Dlm) {tb tb' : Str × List Str} (h : SecSim dlm tb tb') : SecRel tb tb' where
  title := h.1
  items := fun hk o ver p hp n n' l hb => bsim_items dlm hk h.2 o ver p hp n n' l hb
  other := fun hk => bsim_other dlm hk h.2

/-! ### what follows a data section -/

/-- Python's `float()` rejects every token starting with `~` -/
def TildeNotFloat (ft : FloatTable) : Prop := ∀ t : Str, t.head? = some '~' → toFloat ft t = none

theorem title_npTokens (t : Str) (h : Rd.isTitle t = true) : ∃ tok ts, npTokens t = tok :: ts ∧ tok.head? = some '~' := by
  rw [Rd.isTitle_eq, Rd.startsTilde_iff] at h
  obtain ⟨r, hr⟩ := h
  obtain ⟨pre, post, hpre, _, hl⟩ := strip_decomp t
  rw [hr] at hl
  rw [npTokens_eq, hl]
  have hnh : ∀ x ∈ pre, nh x = true := fun x hx => by
    have := ws_ne_hash x (hpre x hx)
    simp only [nh, bne_iff_ne, ne_eq]
    intro e; subst e; simp at this
  have e : (pre ++ ('~' :: r ++ post)).takeWhile nh = pre ++ ('~' :: (r ++ post).takeWhile nh) := by
    rw [List.takeWhile_append_of_pos hnh]
    simp [nh]
  rw [e, pySplit_ws_left pre _ hpre, pySplit_word '~' _ (by decide)]
  exact ⟨_, _, rfl, rfl⟩

theorem afterOK_flat (ft : FloatTable) (htf : TildeNotFloat ft) (rest : List (Str × List Str)) (hw : Rd.WellFormed rest) :
    AfterOK ft (Rd.flat rest) := by
  cases rest with
  | nil => exact Or.inl rfl
  | cons tb rest' =>
    obtain ⟨t, b⟩ := tb
    right
    obtain ⟨tok, ts, h1, h2⟩ := title_npTokens t (hw (t, b) List.mem_cons_self).1
    exact ⟨t, b ++ Rd.flat rest', tok, ts, rfl, h1, htf tok h2⟩

/-- the guard of the whole-file theorem: the declared delimiter is the one the lines were compared for, and the two
engines agree on the data section -/
def SimGuard (o : DataOpts) (ft : FloatTable) (dlm : Dlm) (st : Steer) (d : Nat) (b : List Str) : Prop :=
  st.delimiter = dlm ∧ AgreeAlone o st d ft b

theorem docRel_of_secSim (o : DataOpts) (ft : FloatTable) (htf : TildeNotFloat ft) (dlm : Dlm)
    {secs secs' : List (Str × List Str)} (h : Forall2 (SecSim dlm) secs secs')
    (hw : Rd.WellFormed secs) (hw' : Rd.WellFormed secs') : DocRel o ft (SimGuard o ft dlm) secs secs' := by
  induction h with
  | nil => exact .nil
  | @cons tb tb' rest rest' hs _ ih =>
    have hwr : Rd.WellFormed rest := fun x hx => hw x (List.mem_cons_of_mem _ hx)
    have hwr' : Rd.WellFormed rest' := fun x hx => hw' x (List.mem_cons_of_mem _ hx)
    refine .cons (secSim_secRel dlm hs) ?_ (ih hwr hwr')
    intro hk st d hg
    obtain ⟨hd, hagree⟩ := hg
    have hb : BodySim st.delimiter tb.2 tb'.2 := by rw [hd]; exact bsim_data dlm hk hs.2
    exact readBody_sim o st d ft hb (afterOK_flat ft htf rest hwr) (afterOK_flat ft htf rest' hwr') hagree

/-- WHOLE FILE, line-by-line relation: a readable document `d` and a `Sim`-related document `d'` have the same parsed
result — header items of every section, ~Other text, curves of every data section — provided the declared delimiter is the
one the data lines were compared for and (numpy engine) the two engines agree on every data section of `d`. -/
theorem readFull_sim (o : Opts) (nullOf : Option Str → Option Str) (ft : FloatTable) (htf : TildeNotFloat ft) (dlm : Dlm)
    (d d' : List Str) (hs : Sim dlm .pre d d') (r : FullRead) (hr : readFull o nullOf ft d = .ok r)
    (hG : AllData (SimGuard o.dat ft dlm (dtSteer nullOf r.steer) (declaredCount r.sections)) (parse d).2) :
    ∃ r', readFull o nullOf ft d' = .ok r' ∧ r'.steer = r.steer ∧ r'.parsed = r.parsed := by
  obtain ⟨_, hsec⟩ := sim_parse dlm hs
  have hrel := docRel_of_secSim o.dat ft htf dlm hsec (parse_wf d) (parse_wf d')
  have e := parse_flat d
  have e' := parse_flat d'
  rw [e] at hr
  rw [e']
  exact readFull_rel o nullOf ft _ _ _ _ _ (parse_pre d) (parse_pre d') (parse_wf d) (parse_wf d') hrel r hr hG

end Lasio.Tf

/-! ## §10 building `Sim` -/
namespace Lasio.Tf
open Lasio Lasio.Dt

theorem pySplit_of_strip {a b : Str} (h : strip a = strip b) : pySplit a = pySplit b := by
  rw [← pySplit_strip a, ← pySplit_strip b, h]

theorem npTokens_of_strip {a b : Str} (h : strip a = strip b) : npTokens a = npTokens b := by
  rw [npTokens_words, npTokens_words, pySplit_of_strip h]

/-- lines with the same `strip()` are the same line for the data reader, whatever the delimiter -/
theorem dataEq_of_strip (dlm : Dlm) {a b : Str} (h : strip a = strip b) : DataEq dlm a b where
  toks := fun sb => by unfold lineTokens; rw [cleanLine_eq_strip, cleanLine_eq_strip, h]
  sniff := fun sb => by unfold sampleLine; rw [cleanLine_eq_strip, cleanLine_eq_strip, h]
  np := npTokens_of_strip h

theorem lineRes_of_strip (o : Rd.ReadOpts) (p : Rd.Parser) {a b : Str} (h : strip a = strip b) :
    Rd.lineRes o p a = Rd.lineRes o p b := by
  unfold Rd.lineRes; rw [Rd.lineStrip_eq_strip, Rd.lineStrip_eq_strip, h]

/-- … and for every reader -/
theorem bodyEq_of_strip (dlm : Dlm) (c : Ctx) {a b : Str} (h : strip a = strip b) : BodyEq dlm c a b := by
  cases c with
  | pre => trivial
  | sec t =>
    simp only [BodyEq]
    cases kindOf t with
    | items => intro o ver p _; exact lineRes_of_strip o p h
    | other => exact lineStrip_strip_congr h
    | data => exact dataEq_of_strip dlm h
    | las3data => exact dataEq_of_strip dlm h

/-- the context after a line -/
def nextCtx (c : Ctx) (a : Str) : Ctx := if Rd.isTitle a then .sec a else c

/-- the context after a list of lines -/
def ctxEnd : Ctx → List Str → Ctx
  | c, [] => c
  | c, a :: l => ctxEnd (nextCtx c a) l

/-- the context of line `k` -/
def ctxAt (c : Ctx) (d : List Str) (k : Nat) : Ctx := ctxEnd c (d.take k)

/-- one line replaced by an equivalent one -/
theorem sim_cons (dlm : Dlm) {c : Ctx} {a b : Str} {l l' : List Str}
    (hab : strip a = strip b ∨ (Rd.isTitle a = false ∧ Rd.isTitle b = false ∧ BodyEq dlm c a b))
    (h : Sim dlm (nextCtx c a) l l') : Sim dlm c (a :: l) (b :: l') := by
  unfold nextCtx at h
  rcases hab with hs | ⟨ha, hb, he⟩
  · cases ha : Rd.isTitle a with
    | true => rw [ha] at h; exact .title ha hs h
    | false =>
      rw [ha] at h
      exact .line ha (by rw [← isTitle_strip_congr hs]; exact ha) (bodyEq_of_strip dlm c hs) h
  · rw [ha] at h
    exact .line ha hb he h

theorem sim_refl (dlm : Dlm) (c : Ctx) (l : List Str) : Sim dlm c l l := by
  induction l generalizing c with
  | nil => exact .nil
  | cons a l ih => exact sim_cons dlm (Or.inl rfl) (ih _)

theorem sim_append (dlm : Dlm) {c : Ctx} {l1 l1' l2 l2' : List Str} (h1 : Sim dlm c l1 l1')
    (h2 : Sim dlm (ctxEnd c l1) l2 l2') : Sim dlm c (l1 ++ l2) (l1' ++ l2') := by
  induction h1 with
  | nil => exact h2
  | @title c a b l l' ha hs _ ih =>
    simp only [ctxEnd, nextCtx, ha, if_true] at h2
    exact .title ha hs (ih h2)
  | @line c a b l l' ha hb he _ ih =>
    simp only [ctxEnd, nextCtx, ha, Bool.false_eq_true, if_false] at h2
    exact .line ha hb he (ih h2)
  | @insL c s l l' hi hs _ ih =>
    simp only [ctxEnd, nextCtx, skip_not_title hs, Bool.false_eq_true, if_false] at h2
    exact .insL hi hs (ih h2)
  | @insR c s l l' hi hs _ ih => exact .insR hi hs (ih h2)

/-- every line replaced by one with the same `strip()` -/
theorem sim_map (dlm : Dlm) (c : Ctx) (f : Str → Str) (l : List Str) (hf : ∀ a ∈ l, strip (f a) = strip a) :
    Sim dlm c l (l.map f) := by
  induction l generalizing c with
  | nil => exact .nil
  | cons a l ih =>
    exact sim_cons dlm (Or.inl (hf a (by simp)).symm) (ih _ (fun x hx => hf x (by simp [hx])))

/-- line `k` replaced by an equivalent one -/
theorem sim_mapAt (dlm : Dlm) (c : Ctx) (f : Str → Str) (d : List Str) (k : Nat)
    (hf : ∀ a, d[k]? = some a → strip a = strip (f a) ∨
      (Rd.isTitle a = false ∧ Rd.isTitle (f a) = false ∧ BodyEq dlm (ctxAt c d k) a (f a))) :
    Sim dlm c d (mapAt k f d) := by
  induction d generalizing c k with
  | nil => simp only [mapAt]; exact .nil
  | cons a l ih =>
    cases k with
    | zero =>
      simp only [mapAt]
      exact sim_cons dlm (by simpa [ctxAt, ctxEnd] using hf a (by simp)) (sim_refl dlm _ l)
    | succ k =>
      simp only [mapAt]
      refine sim_cons dlm (Or.inl rfl) (ih _ k ?_)
      intro x hx
      have := hf x (by simpa using hx)
      simpa [ctxAt, ctxEnd] using this

theorem termLine_strip (l : Str) : strip (termLine l) = strip l := by
  unfold termLine
  split
  · rfl
  · exact strip_ws_right l nl allWs_nl

theorem sim_terminate (dlm : Dlm) (c : Ctx) (l : List Str) : Sim dlm c l (terminate l) := by
  induction l generalizing c with
  | nil => exact .nil
  | cons a l ih =>
    cases l with
    | nil => exact sim_cons dlm (Or.inl (termLine_strip a).symm) .nil
    | cons b l' => exact sim_cons dlm (Or.inl rfl) (ih _)

theorem ctxEnd_append (c : Ctx) (a b : List Str) : ctxEnd c (a ++ b) = ctxEnd (ctxEnd c a) b := by
  induction a generalizing c with
  | nil => rfl
  | cons x a ih => simp only [List.cons_append, ctxEnd]; exact ih _

/-- a blank / comment line inserted before line `k` (after the last line when `k ≥ length`) -/
theorem sim_insLine (dlm : Dlm) (c : Ctx) (d : List Str) (k : Nat) (s : Str)
    (hs : SkipLine (s ++ nl)) (hi : Insertable (ctxAt c d k)) : Sim dlm c d (insLine k s d) := by
  unfold insLine
  have e : d = d.take k ++ d.drop k := (List.take_append_drop k d).symm
  have h1 : Sim dlm c (d.take k) (terminate (d.take k)) := sim_terminate dlm c _
  have h2 : Sim dlm (ctxEnd c (d.take k)) (d.drop k) ((s ++ nl) :: d.drop k) := .insR hi hs (sim_refl dlm _ _)
  have := sim_append dlm h1 h2
  rw [← e] at this
  exact this

end Lasio.Tf

/-! ### the line functions of the transformations keep `strip()` -/
namespace Lasio.Tf
open Lasio Lasio.Dt

theorem allWs_of_isBT {s : Str} (h : ∀ c ∈ s, isBT c = true) : AllWs s := fun c hc => isBT_space c (h c hc)

theorem stripBT_decomp (s : Str) : ∃ a b, AllWs a ∧ AllWs b ∧ s = a ++ (stripBT s ++ b) := by
  refine ⟨s.takeWhile isBT, ((s.dropWhile isBT).reverse.takeWhile isBT).reverse, ?_, ?_, ?_⟩
  · exact allWs_of_isBT (fun c hc => mem_takeWhile_p isBT s c hc)
  · exact allWs_of_isBT (fun c hc => mem_takeWhile_p isBT _ c (List.mem_reverse.mp hc))
  · unfold stripBT
    have h1 : s = s.takeWhile isBT ++ s.dropWhile isBT := (List.takeWhile_append_dropWhile (p := isBT) (l := s)).symm
    have h2 : (s.dropWhile isBT).reverse =
        (s.dropWhile isBT).reverse.takeWhile isBT ++ (s.dropWhile isBT).reverse.dropWhile isBT :=
      (List.takeWhile_append_dropWhile (p := isBT) (l := (s.dropWhile isBT).reverse)).symm
    have h3 : s.dropWhile isBT =
        ((s.dropWhile isBT).reverse.dropWhile isBT).reverse ++ ((s.dropWhile isBT).reverse.takeWhile isBT).reverse := by
      have := congrArg List.reverse h2
      rw [List.reverse_reverse, List.reverse_append] at this
      exact this
    rw [← h3, ← h1]

theorem stripBT_strip (s : Str) : strip (stripBT s) = strip s := by
  obtain ⟨a, b, ha, hb, e⟩ := stripBT_decomp s
  have := strip_sandwich_ws a (stripBT s) b ha hb
  rw [← e] at this
  exact this.symm

/-- new padding around a line -/
theorem padLine1_strip (lead trail l : Str) : strip (padLine1 lead trail l) = strip l := by
  unfold padLine1
  simp only
  rw [strip_sandwich_ws _ _ _ (allWs_blanksOf lead) (allWs_append (allWs_blanksOf trail) (splitEol_allWs l)),
    stripBT_strip, strip_splitEol]

/-- a physical line as `readline` delivers it: no line feed before its end -/
def NoInnerNl (l : Str) : Prop := '\n' ∉ (splitEol l).1

theorem crlf1_append (a b : Str) : crlf1 (a ++ b) = crlf1 a ++ crlf1 b := by simp [crlf1]

theorem crlf1_noNl (t : Str) (h : '\n' ∉ t) : crlf1 t = t := by
  induction t with
  | nil => rfl
  | cons c t ih =>
    have hc : c ≠ '\n' := fun e => h (by simp [e])
    have ht : '\n' ∉ t := fun hm => h (by simp [hm])
    have := ih ht
    simp only [crlf1, List.flatMap_cons] at this ⊢
    rw [this]
    simp [hc]

/-- LF → CRLF -/
theorem crlf1_strip (l : Str) (h : NoInnerNl l) : strip (crlf1 l) = strip l := by
  obtain ⟨e, he⟩ := splitEol_spec l
  have hc : crlf1 l = (splitEol l).1 ++ crlf1 (splitEol l).2 := by
    conv => lhs; rw [e]
    rw [crlf1_append, crlf1_noNl _ h]
  have hws : AllWs (crlf1 (splitEol l).2) := by
    rcases he with h' | h' | h' <;> rw [h'] <;> intro c hc <;> simp [crlf1] at hc
    · rcases hc with rfl | rfl <;> decide
    · rcases hc with rfl | rfl <;> decide
  rw [hc, strip_ws_right _ _ hws, strip_splitEol]

/-- CRLF → LF -/
theorem lf1_strip (l : Str) : strip (lf1 l) = strip l := by
  unfold lf1
  have hl : l = l.reverse.reverse := (List.reverse_reverse l).symm
  generalize l.reverse = r at hl
  subst hl
  match r with
  | [] => rfl
  | [c] => by_cases h : c = '\n' <;> simp [h]
  | c :: d :: r =>
    by_cases h : c = '\n'
    · subst h
      by_cases h2 : d = '\r'
      · subst h2
        simp only [List.reverse_cons, List.append_assoc, List.cons_append, List.nil_append]
        rw [strip_ws_right _ nl allWs_nl]
        exact (strip_ws_right _ ['\r', '\n'] allWs_crnl).symm
      · simp [h2]
    · simp [h]

theorem sim_crlf (dlm : Dlm) (d : List Str) (h : ∀ l ∈ d, NoInnerNl l) : Sim dlm .pre d (crlf d) :=
  sim_map dlm .pre crlf1 d (fun a ha => crlf1_strip a (h a ha))

theorem sim_lf (dlm : Dlm) (d : List Str) : Sim dlm .pre d (lf d) :=
  sim_map dlm .pre lf1 d (fun a _ => lf1_strip a)

theorem sim_padLine (dlm : Dlm) (d : List Str) (k : Nat) (lead trail : Str) : Sim dlm .pre d (padLine k lead trail d) :=
  sim_mapAt dlm .pre _ d k (fun a _ => Or.inl (padLine1_strip lead trail a).symm)

theorem sim_addFinalNewline (dlm : Dlm) (d : List Str) : Sim dlm .pre d (addFinalNewline d) := sim_terminate dlm .pre d

/-- a line that is nothing but its terminator -/
theorem skip_of_empty_text (l : Str) (h : (splitEol l).1 = []) : SkipLine l := by
  left
  have e := (splitEol_spec l).1
  rw [h, List.nil_append] at e
  rw [e]; exact splitEol_allWs l

/-- omitting the final newline: the last line loses its terminator, or — when it was nothing else — disappears, which is
a presentation change unless it stood in a ~Other section -/
theorem sim_dropFinalNewline (dlm : Dlm) (d : List Str)
    (h : ∀ l, d.getLast? = some l → (splitEol l).1 = [] → Insertable (ctxAt .pre d (d.length - 1))) :
    Sim dlm .pre d (dropFinalNewline d) := by
  unfold dropFinalNewline
  have hd : d = d.reverse.reverse := (List.reverse_reverse d).symm
  cases hr : d.reverse with
  | nil => rw [hr] at hd; subst hd; exact .nil
  | cons l r =>
    simp only
    have e : d = r.reverse ++ [l] := by rw [hd, hr]; simp
    have hlast : d.getLast? = some l := by rw [e]; simp
    have hlen : d.length - 1 = r.reverse.length := by rw [e]; simp
    have htake : d.take (d.length - 1) = r.reverse := by rw [hlen, e, List.take_left]
    split
    · rename_i ht
      have ht' : (splitEol l).1 = [] := by simpa using ht
      have hi := h l hlast ht'
      unfold ctxAt at hi
      rw [htake] at hi
      have := sim_append dlm (sim_refl dlm .pre r.reverse) (Sim.insL hi (skip_of_empty_text l ht') .nil)
      rw [← e, List.append_nil] at this
      exact this
    · have := sim_append dlm (sim_refl dlm .pre r.reverse)
        (sim_cons dlm (c := ctxEnd .pre r.reverse) (l := []) (l' := []) (Or.inl (strip_splitEol l).symm) .nil)
      rw [← e] at this
      exact this

theorem blank_skip (ws : Str) : SkipLine (blanksOf ws ++ nl) :=
  Or.inl (allWs_append (allWs_blanksOf ws) allWs_nl)

theorem comment_skip (indent text : Str) : SkipLine (commentLine indent text ++ nl) := by
  right
  refine ⟨blanksOf indent, text.filter (· != '\n') ++ nl, allWs_blanksOf indent, ?_⟩
  simp [commentLine]

theorem sim_insBlank (dlm : Dlm) (d : List Str) (k : Nat) (ws : Str) (hi : Insertable (ctxAt .pre d k)) :
    Sim dlm .pre d (insBlank k ws d) := sim_insLine dlm .pre d k _ (blank_skip ws) hi

theorem sim_insComment (dlm : Dlm) (d : List Str) (k : Nat) (indent text : Str) (hi : Insertable (ctxAt .pre d k)) :
    Sim dlm .pre d (insComment k indent text d) := sim_insLine dlm .pre d k _ (comment_skip indent text) hi

end Lasio.Tf

/-! ### re-padding a data line (whitespace splitter) -/
namespace Lasio.Tf
open Lasio Lasio.Dt

theorem mem_pySplit_sub (s : Str) : ∀ w ∈ pySplit s, ∀ c ∈ w, c ∈ s := by
  induction hn : s.length using Nat.strongRecOn generalizing s with
  | _ n ih =>
    cases s with
    | nil => intro w hw; cases hw
    | cons c cs =>
      cases hc : isPySpace c with
      | true =>
        rw [pySplit_ws c _ hc]
        intro w hw x hx
        exact List.mem_cons_of_mem _ (ih cs.length (by subst hn; simp) cs rfl w hw x hx)
      | false =>
        rw [pySplit_word c _ hc]
        intro w hw x hx
        rcases List.mem_cons.mp hw with rfl | hw
        · rcases List.mem_cons.mp hx with rfl | hx
          · simp
          · exact List.mem_cons_of_mem _ ((List.takeWhile_sublist _).subset hx)
        · have := ih (cs.dropWhile ns).length (by
            subst hn
            have := (List.dropWhile_sublist ns (l := cs)).length_le
            simp; omega) _ rfl w hw x hx
          exact List.mem_cons_of_mem _ ((List.dropWhile_sublist _).subset this)

theorem quoteFree_words {s : Str} (h : QuoteFree s) : ∀ w ∈ pySplit s, QuoteFree w :=
  fun w hw c hc => h c (mem_pySplit_sub s w hw c hc)

/-- words joined by blank runs split into the same words -/
theorem pySplit_joinSeps (mk : Str → Str) (hmk : ∀ s, mk s ≠ [] ∧ AllWs (mk s)) (ws : List Str) (hw : ∀ w ∈ ws, IsWord w)
    (seps : List Str) (tail : Str) (ht : AllWs tail) : pySplit (joinSeps mk ws seps ++ tail) = ws := by
  induction ws generalizing seps with
  | nil => simp only [joinSeps, List.nil_append]; exact pySplit_allWs tail ht
  | cons w rest ih =>
    cases rest with
    | nil =>
      simp only [joinSeps]
      rw [pySplit_ws_right w tail ht, pySplit_isWord w (hw w (by simp))]
    | cons w' rest' =>
      simp only [joinSeps, List.append_assoc]
      rw [pySplit_word_sep w _ _ (hw w (by simp)) (hmk _).2 (hmk _).1]
      rw [ih (fun x hx => hw x (List.mem_cons_of_mem _ hx))]

theorem quoteFree_joinSeps (mk : Str → Str) (hmk : ∀ s, AllWs (mk s)) (ws : List Str) (hw : ∀ w ∈ ws, QuoteFree w)
    (seps : List Str) : QuoteFree (joinSeps mk ws seps) := by
  induction ws generalizing seps with
  | nil => exact quoteFree_nil
  | cons w rest ih =>
    cases rest with
    | nil => simp only [joinSeps]; exact hw w (by simp)
    | cons w' rest' =>
      simp only [joinSeps]
      exact quoteFree_append (hw w (by simp))
        (quoteFree_append (quoteFree_allWs (hmk _)) (ih (fun x hx => hw x (List.mem_cons_of_mem _ hx)) _))

theorem mkSep_space (s : Str) : mkSep .space s ≠ [] ∧ AllWs (mkSep .space s) := by
  simp only [mkSep]
  split
  · exact ⟨by simp, by intro c hc; simp at hc; subst hc; decide⟩
  · rename_i h
    exact ⟨by intro e; rw [e] at h; simp at h, allWs_blanksOf s⟩

theorem pySplit_splitEol (l : Str) : pySplit (splitEol l).1 = pySplit l := by
  have h := pySplit_ws_right (splitEol l).1 (splitEol l).2 (splitEol_allWs l)
  rw [← (splitEol_spec l).1] at h
  exact h.symm

/-- the words of a re-padded line are the words of the line -/
theorem relay_space_words (seps : List Str) (l : Str) : pySplit (relayLine1 .space .space seps l) = pySplit l := by
  unfold relayLine1
  simp only [cellsOf]
  rw [pySplit_joinSeps _ mkSep_space _ (mem_pySplit_isWord _) seps _ (splitEol_allWs l), pySplit_splitEol]

theorem relay_space_quoteFree (seps : List Str) (l : Str) (hq : QuoteFree l) : QuoteFree (relayLine1 .space .space seps l) := by
  unfold relayLine1
  simp only [cellsOf]
  have hq1 : QuoteFree (splitEol l).1 := by
    have := (splitEol_spec l).1
    rw [this] at hq
    exact quoteFree_left hq
  exact quoteFree_append (quoteFree_joinSeps _ (fun s => (mkSep_space s).2) _ (quoteFree_words hq1) seps)
    (quoteFree_allWs (splitEol_allWs l))

/-- title lines are recognised by the first word -/
theorem isTitle_words (l : Str) : Rd.isTitle l = (match pySplit l with | (c :: _) :: _ => c == '~' | _ => false) := by
  rw [Rd.isTitle_eq, ← pySplit_strip l]
  rcases strip_head l with h | ⟨c, cs, h, hc⟩
  · rw [h]; rfl
  · rw [h, pySplit_word c cs hc]
    simp only [Rd.startsTilde]
    by_cases e : c = '~'
    · subst e; rfl
    · have : (c == '~') = false := by simpa using e
      rw [this]
      split
      · rename_i h'; cases h'; exact absurd rfl e
      · rfl

theorem isTitle_of_words {a b : Str} (h : pySplit a = pySplit b) : Rd.isTitle a = Rd.isTitle b := by
  rw [isTitle_words, isTitle_words, h]

/-- REPAD, whitespace splitter: a quote-free data line re-padded is the same line for the data reader -/
theorem relay_space_dataEq (seps : List Str) (l : Str) (hq : QuoteFree l) : DataEq .space l (relayLine1 .space .space seps l) :=
  dataEq_of_words l _ hq (relay_space_quoteFree seps l hq) (relay_space_words seps l).symm

theorem sim_repadLine_space (d : List Str) (k : Nat) (seps : List Str)
    (h : ∀ a, d[k]? = some a → Rd.isTitle a = false ∧ QuoteFree a ∧ ∃ t, ctxAt .pre d k = .sec t ∧ isDataKind (kindOf t)) :
    Sim .space .pre d (repadLine k .space seps d) := by
  apply sim_mapAt
  intro a ha
  obtain ⟨hnt, hq, t, hc, hk⟩ := h a ha
  right
  refine ⟨hnt, by rw [← isTitle_of_words (relay_space_words seps a).symm]; exact hnt, ?_⟩
  rw [hc]
  simp only [BodyEq]
  rcases hk with hk | hk <;> rw [hk] <;> exact relay_space_dataEq seps a hq

end Lasio.Tf

/-! ## §11 re-wrapping -/
namespace Lasio.Tf
open Lasio Lasio.Dt

/-- the words of the data lines of a body, in order -/
def bodyWords (body : List Str) : List Str := (body.filter (fun l => !isSkip l)).flatMap pySplit

theorem isSkip_words (l : Str) : isSkip l = ((pySplit l).isEmpty || firstHash (pySplit l)) := by
  unfold isSkip
  simp only [cleanLine_eq_strip, isEmpty_strip, isComment_strip]

theorem isSkip_lineTokens (sb : Subs) (dlm : Dlm) (l : Str) (h : isSkip l = true) : lineTokens sb dlm l = [] := by
  unfold isSkip at h
  unfold lineTokens
  simp only [Bool.or_eq_true] at h
  rcases h with h | h
  · have : cleanLine l = [] := by simpa using h
    rw [this]
    have h1 : applySubs sb [] = [] := by
      unfold applySubs subCommaDecimal subRunOnHyphen subRunOnDot
      cases sb.comma <;> cases sb.hyphen <;> cases sb.dot <;> simp [reSub]
    simp [isComment, startsWith, h1]
  · simp [h]

/-- normal engine, whitespace splitter, quote-free line: the items of its words -/
theorem lineTokens_words' (sb : Subs) (l : Str) (hq : QuoteFree l) :
    lineTokens sb .space l = if isSkip l then [] else (pySplit l).flatMap (lineToks sb) := by
  rw [lineTokens_space_words sb l hq, isSkip_words]
  cases h1 : firstHash (pySplit l) with
  | true => simp
  | false =>
    cases h2 : (pySplit l).isEmpty with
    | true =>
      have : pySplit l = [] := by simpa using h2
      simp [this]
    | false => simp

theorem normalTokens_words (sb : Subs) (body : List Str) (hq : ∀ l ∈ body, QuoteFree l) :
    normalTokens sb .space body = (bodyWords body).flatMap (lineToks sb) := by
  induction body with
  | nil => rfl
  | cons l ls ih =>
    have ih' := ih (fun x hx => hq x (List.mem_cons_of_mem _ hx))
    simp only [normalTokens, List.flatMap_cons] at ih' ⊢
    rw [ih', lineTokens_words' sb l (hq l (by simp))]
    unfold bodyWords
    cases h : isSkip l <;> simp [h]

/-! ### cutting and chunking keep the sequence -/

theorem cut_flatten {α} (widths : List Nat) (l : List α) : (cut widths l).flatten = l := by
  induction widths generalizing l with
  | nil => cases l <;> simp [cut]
  | cons w ws ih =>
    cases l with
    | nil => simp [cut]
    | cons a l => simp only [cut, List.flatten_cons, ih, List.take_append_drop]

theorem cut_ne {α} (widths : List Nat) (l : List α) : ∀ p ∈ cut widths l, p ≠ [] := by
  induction widths generalizing l with
  | nil => cases l <;> simp [cut]
  | cons w ws ih =>
    cases l with
    | nil => simp [cut]
    | cons a l =>
      intro p hp
      simp only [cut, List.mem_cons] at hp
      rcases hp with rfl | hp
      · have : max w 1 = (max w 1 - 1) + 1 := by omega
        rw [this]; simp
      · exact ih _ p hp

theorem chunk_flatten' {α} (c : Nat) (hc : 0 < c) (fuel : Nat) (l : List α) (hf : l.length ≤ fuel) :
    (chunk c fuel l).flatten = l := by
  induction fuel generalizing l with
  | zero =>
    have : l = [] := by cases l with
      | nil => rfl
      | cons _ _ => simp at hf
    subst this; rfl
  | succ fuel ih =>
    simp only [chunk]
    split
    · rename_i h; have : l = [] := by simpa using h
      subst this; rfl
    · simp only [List.flatten_cons]
      rw [ih (l.drop c) (by simp; omega), List.take_append_drop]

theorem reshape_flatten' {α} (c : Nat) (hc : 0 < c) (l : List α) : (reshape c l).flatten = l :=
  chunk_flatten' c hc _ l (Nat.le_refl _)

/-! ### the lines of a re-wrapped body -/

theorem joinWith_joinSeps (ws : List Str) : joinWith [' '] ws = joinSeps (fun _ => [' ']) ws [] := by
  induction ws with
  | nil => rfl
  | cons w rest ih =>
    cases rest with
    | nil => rfl
    | cons w' rest' => simp only [joinWith, joinSeps, List.tail_nil, ih, List.append_assoc]

theorem wrapLine_words (ws : List Str) (hw : ∀ w ∈ ws, IsWord w) : pySplit (joinWith [' '] ws ++ nl) = ws := by
  rw [joinWith_joinSeps]
  exact pySplit_joinSeps _ (fun _ => ⟨by simp, by intro c hc; simp at hc; subst hc; decide⟩) ws hw [] nl allWs_nl

theorem wrapLine_quoteFree (ws : List Str) (hw : ∀ w ∈ ws, QuoteFree w) : QuoteFree (joinWith [' '] ws ++ nl) := by
  rw [joinWith_joinSeps]
  exact quoteFree_append (quoteFree_joinSeps _ (fun _ => by intro c hc; simp at hc; subst hc; decide) ws hw [])
    (quoteFree_allWs allWs_nl)

/-- what the body must satisfy for a re-wrapping to be a presentation change -/
structure WrapOK (body : List Str) : Prop where
  qf : ∀ l ∈ body, QuoteFree l
  /-- a token at the start of a physical line must not turn the line into a comment or a title -/
  heads : ∀ w ∈ bodyWords body, w.head? ≠ some '#' ∧ w.head? ≠ some '~'
  /-- the run-on(-) substitution changes no token: whether the hyphen rule fires depends on the line layout -/
  hyphen : ∀ w ∈ bodyWords body, lineToks Subs.default w = lineToks Subs.default.dropHyphen w

/-- the data lines of the re-wrapped body -/
def wrappedLines (d : Nat) (widths : List Nat) (body : List Str) : List Str :=
  (reshape (max d 1) (bodyWords body)).flatMap (wrapStep widths)

theorem rewrapBody_eq (d : Nat) (widths : List Nat) (body : List Str) :
    rewrapBody d widths body = (body.filter isSkip).map termLine ++ wrappedLines d widths body := rfl

/-- every re-wrapped line is `joinWith " " ws ++ "\n"` for a non-empty piece `ws` of the word sequence -/
theorem wrappedLines_spec (d : Nat) (widths : List Nat) (body : List Str) :
    ∃ pieces : List (List Str), wrappedLines d widths body = pieces.map (fun ws => joinWith [' '] ws ++ nl) ∧
      pieces.flatten = bodyWords body ∧ ∀ p ∈ pieces, p ≠ [] := by
  refine ⟨(reshape (max d 1) (bodyWords body)).flatMap (cut widths), ?_, ?_, ?_⟩
  · unfold wrappedLines wrapStep
    rw [List.map_flatMap]
  · have : ∀ steps : List (List Str), (List.flatMap (cut widths) steps).flatten = steps.flatten := by
      intro steps
      induction steps with
      | nil => rfl
      | cons s ss ih => simp only [List.flatMap_cons, List.flatten_append, cut_flatten, ih, List.flatten_cons]
    rw [this, reshape_flatten' _ (by omega)]
  · intro p hp
    obtain ⟨s, _, hps⟩ := List.mem_flatMap.mp hp
    exact cut_ne widths s p hps

theorem firstHash_false_of_head {ws : List Str} (h : ∀ w ∈ ws, w.head? ≠ some '#') : firstHash ws = false := by
  cases ws with
  | nil => rfl
  | cons w rest =>
    cases w with
    | nil => rfl
    | cons c cs =>
      have := h (c :: cs) (by simp)
      simp only [List.head?_cons, ne_eq, Option.some.injEq] at this
      simp [firstHash, this]

/-- the flat item sequence of the re-wrapped body is that of the body -/
theorem normalTokens_rewrap (sb : Subs) (d : Nat) (widths : List Nat) (body : List Str) (h : WrapOK body) :
    normalTokens sb .space (rewrapBody d widths body) = (bodyWords body).flatMap (lineToks sb) := by
  obtain ⟨pieces, hl, hfl, hne⟩ := wrappedLines_spec d widths body
  rw [rewrapBody_eq, hl]
  have hmem : ∀ p ∈ pieces, ∀ w ∈ p, w ∈ bodyWords body := by
    intro p hp w hw
    rw [← hfl]; exact List.mem_flatten.mpr ⟨p, hp, hw⟩
  have hword : ∀ w ∈ bodyWords body, IsWord w ∧ QuoteFree w := by
    intro w hw
    unfold bodyWords at hw
    obtain ⟨l, hl', hwl⟩ := List.mem_flatMap.mp hw
    have hlb : l ∈ body := (List.mem_filter.mp hl').1
    exact ⟨mem_pySplit_isWord l w hwl, quoteFree_words (h.qf l hlb) w hwl⟩
  simp only [normalTokens, List.flatMap_append]
  have h1 : List.flatMap (lineTokens sb .space) ((body.filter isSkip).map termLine) = [] := by
    rw [List.flatMap_eq_nil_iff]
    intro l hl'
    obtain ⟨x, hx, rfl⟩ := List.mem_map.mp hl'
    apply isSkip_lineTokens
    have hs := (List.mem_filter.mp hx).2
    unfold isSkip at hs ⊢
    rw [cleanLine_eq_strip] at hs ⊢
    rw [termLine_strip]; exact hs
  rw [h1, List.nil_append, ← hfl]
  clear hl hfl
  induction pieces with
  | nil => rfl
  | cons p ps ih =>
    have ih' := ih (fun q hq => hne q (List.mem_cons_of_mem _ hq)) (fun q hq => hmem q (List.mem_cons_of_mem _ hq))
    simp only [List.map_cons, List.flatMap_cons, List.flatten_cons, List.flatMap_append]
    rw [ih']
    congr 1
    have hp : ∀ w ∈ p, w ∈ bodyWords body := hmem p (by simp)
    have hq : QuoteFree (joinWith [' '] p ++ nl) := wrapLine_quoteFree p (fun w hw => (hword w (hp w hw)).2)
    have hws : pySplit (joinWith [' '] p ++ nl) = p := wrapLine_words p (fun w hw => (hword w (hp w hw)).1)
    rw [lineTokens_space_words sb _ hq, hws, firstHash_false_of_head (fun w hw => (h.heads w (hp w hw)).1)]
    rfl

/-- no line of the re-wrapped body is a title line -/
theorem rewrapBody_no_title (d : Nat) (widths : List Nat) (body : List Str) (h : WrapOK body) :
    ∀ l ∈ rewrapBody d widths body, Rd.isTitle l = false := by
  obtain ⟨pieces, hl, hfl, hne⟩ := wrappedLines_spec d widths body
  intro l hl'
  rw [rewrapBody_eq, hl] at hl'
  rcases List.mem_append.mp hl' with hm | hm
  · obtain ⟨x, hx, rfl⟩ := List.mem_map.mp hm
    have hs := (List.mem_filter.mp hx).2
    rw [isTitle_strip_congr (termLine_strip x)]
    rw [isTitle_words]
    rw [isSkip_words] at hs
    cases hp : pySplit x with
    | nil => rfl
    | cons w rest =>
      cases w with
      | nil => rfl
      | cons c cs =>
        simp only [hp, List.isEmpty_cons, Bool.false_or, firstHash, beq_iff_eq] at hs
        subst hs; rfl
  · obtain ⟨p, hp, rfl⟩ := List.mem_map.mp hm
    have hmem : ∀ w ∈ p, w ∈ bodyWords body := fun w hw => by
      rw [← hfl]; exact List.mem_flatten.mpr ⟨p, hp, hw⟩
    have hword : ∀ w ∈ p, IsWord w := by
      intro w hw
      have := hmem w hw
      unfold bodyWords at this
      obtain ⟨l, _, hwl⟩ := List.mem_flatMap.mp this
      exact mem_pySplit_isWord l w hwl
    rw [isTitle_words, wrapLine_words p hword]
    cases p with
    | nil => exact absurd rfl (hne [] hp)
    | cons w rest =>
      cases w with
      | nil => rfl
      | cons c cs =>
        have := (h.heads (c :: cs) (hmem _ (by simp))).2
        simp only [List.head?_cons, ne_eq, Option.some.injEq] at this
        simp [this]

end Lasio.Tf

namespace Lasio.Tf
open Lasio Lasio.Dt

/-- the steering values of a file declared as wrapped, with `d ≥ 1` declared curves and the default delimiter -/
structure WrapSteer (st : Steer) (d : Nat) : Prop where
  dlm : st.delimiter = .space
  declared : st.wrapDeclared = true
  wrapped : st.wrapped = yesTxt
  pos : 0 < d

theorem sniffTwiceB_subs (sb : Subs) (dlm : Dlm) (body : List Str) :
    (sniffTwiceB sb dlm body).1 = sb ∨ (sniffTwiceB sb dlm body).1 = sb.dropHyphen := by
  unfold sniffTwiceB
  simp only
  split
  · right; rfl
  · left; rfl

theorem readerColumns_wrapped {st : Steer} {d : Nat} (h : WrapSteer st d) (s : Option Nat) : readerColumns st d s = d := by
  unfold readerColumns
  simp [h.declared, h.wrapped, h.pos]

theorem normalEngineLines_tokens' (ft : FloatTable) (sb sb' : Subs) (dlm : Dlm) (n : Nat) (b b' : List Str)
    (h : normalTokens sb dlm b = normalTokens sb' dlm b') : normalEngineLines ft sb dlm n b = normalEngineLines ft sb' dlm n b' := by
  unfold normalEngineLines; rw [h]

/-- the normal engine reads the re-wrapped body as it reads the body -/
theorem normalRead_rewrap (o : DataOpts) (st : Steer) (d : Nat) (ft : FloatTable) (dcl : Nat) (widths : List Nat) (body : List Str)
    (hs : WrapSteer st d) (h : WrapOK body) :
    normalRead o st d ft (rewrapBody dcl widths body) = normalRead o st d ft body := by
  unfold normalRead
  rw [readerColumns_wrapped hs, readerColumns_wrapped hs, hs.dlm]
  have hneutral : (bodyWords body).flatMap (lineToks Subs.default.dropHyphen) = (bodyWords body).flatMap (lineToks Subs.default) := by
    have gen : ∀ ws : List Str, (∀ w ∈ ws, lineToks Subs.default w = lineToks Subs.default.dropHyphen w) →
        ws.flatMap (lineToks Subs.default.dropHyphen) = ws.flatMap (lineToks Subs.default) := by
      intro ws hws
      induction ws with
      | nil => rfl
      | cons w rest ih =>
        simp only [List.flatMap_cons]
        rw [hws w (by simp), ih (fun x hx => hws x (List.mem_cons_of_mem _ hx))]
    exact gen _ h.hyphen
  have key : ∀ sb, (sb = Subs.default ∨ sb = Subs.default.dropHyphen) → ∀ sb', (sb' = Subs.default ∨ sb' = Subs.default.dropHyphen) →
      normalTokens sb .space (rewrapBody dcl widths body) = normalTokens sb' .space body := by
    intro sb hsb sb' hsb'
    rw [normalTokens_rewrap sb dcl widths body h, normalTokens_words sb' body h.qf]
    rcases hsb with rfl | rfl <;> rcases hsb' with rfl | rfl <;> simp [hneutral]
  have e1 := sniffTwiceB_subs (readSubs .space) .space (rewrapBody dcl widths body)
  have e2 := sniffTwiceB_subs (readSubs .space) .space body
  rw [normalEngineLines_tokens' ft _ _ .space d _ _ (key _ e1 _ e2)]

theorem effective_wrapped (o : DataOpts) {st : Steer} (h : st.wrapped = yesTxt) : effectiveEngine o st = .normal := by
  simp [effectiveEngine, h]

/-- REWRAP, one window: same curves (and the normal engine on both sides: a wrapped file is never read by numpy) -/
theorem readBody_rewrap (o : DataOpts) (st : Steer) (d : Nat) (ft : FloatTable) (dcl : Nat) (widths : List Nat)
    (body after after' : List Str) (hs : WrapSteer st d) (h : WrapOK body) :
    readBody o st d ft (rewrapBody dcl widths body) after' = readBody o st d ft body after := by
  unfold readBody
  simp only [effective_wrapped o hs.wrapped]
  exact normalRead_rewrap o st d ft dcl widths body hs h

end Lasio.Tf
