import LasioProofs.Lemmas.FileEngines
import LasioProofs.Lemmas.PlantLemmas
import LasioProofs.Props.C06
/-
C06 at whole-file level: helper lemmas for Props/C06File.

§1  the curves of a data record in terms of the engine's raw columns; cells of curves
§2  where `steer.null` comes from: one section (`docSection_null_W`, `docSection_null_nonW`), a list of sections, the file
-/
namespace Lasio.Tf
open Lasio Lasio.Dt

/-! ## §1 curves and raw columns -/

/-- cell `i` of curve `j` when that curve is a float curve -/
def curveCell (curves : List (Slot × Column)) (j i : Nat) : Option Str := floatCell (curves.map Prod.snd) j i

/-- the data of curve `j` is column `j` of the assigned columns, for every column there is -/
theorem assignCurves_snd_getElem? (d : Nat) (cols : List Column) (j : Nat) (hj : j < cols.length) :
    ((assignCurves d cols).map Prod.snd)[j]? = cols[j]? := by
  rw [List.getElem?_map, C07_assign_column d cols j cols[j] (by simp [hj])]
  simp [hj]

theorem curveCell_assign (d : Nat) (cols : List Column) (j i : Nat) (hj : j < cols.length) :
    curveCell (assignCurves d cols) j i = floatCell cols j i := by
  unfold curveCell floatCell
  rw [assignCurves_snd_getElem? d cols j hj]

/-! ## §2 the source of `steer.null` -/

/-- the value of the single item that answers to NULL among `items` (`"NULL" in section` / `section.NULL`): `none` when there is
no such item or more than one (their session mnemonics are `NULL:1`, `NULL:2`, …) -/
def nullOfItems (o : Rd.ReadOpts) (items : List Rd.RItem) : Option Str :=
  (Rd.lookupItem (trOf o) items "NULL".toList).map (·.value)

theorem nullOfItems_eq (o : Rd.ReadOpts) (items : List Rd.RItem) :
    nullOfItems o items = (Rd.uniq (items.filter fun it => Rd.mcmp (trOf o) (Rd.U it) "NULL".toList)).map (·.value) := by
  unfold nullOfItems
  rw [Rd.lookupItem_eq _ _ (Rd.steerKey_nocolon _ _ (by simp [Rd.steerKeys]))]

/-- a section that is not a ~W header section leaves `steer.null` alone (whatever items it has: ~V, ~P, ~C, custom, ~O, data) -/
theorem docSection_null_nonW (o : Rd.ReadOpts) (n : Nat) (tb : Str × List Str) (st r : Rd.RState) (hw : Rd.isW tb = false)
    (h : Rd.docSection o n tb st = .ok r) : r.steer.null = st.steer.null := by
  unfold Rd.docSection at h
  cases hk : Rd.sectionType (Rd.sline tb.1) with
  | items =>
    have hW : (Rd.titleLetter (Rd.sline tb.1) == ['W']) = false := by simpa [Rd.isW, hk] using hw
    simp only [hk] at h
    cases hp : Rd.mkParser (Rd.lineStrip tb.1) (Rd.classifyVer st.steer.vers) with
    | error e => simp [hp] at h
    | ok p =>
      simp only [hp] at h
      cases hb : Rd.bodyRun o p tb.2 n with
      | error e => simp [hb] at h
      | ok items =>
        simp only [hb] at h
        obtain ⟨k, _, _, rfl⟩ := Rd.finishItems_ok o _ items st r h
        simp only
        unfold Rd.steer
        split
        · rfl
        · simp only [hW, Bool.false_eq_true, if_false]
  | other => simp only [hk] at h; cases h; rfl
  | data => simp only [hk] at h; cases h; rfl
  | las3data => simp only [hk] at h; cases h; rfl

/-- a ~W header section: `steer.null` becomes the value of its single NULL item, and is kept when it has none or several -/
theorem docSection_null_W (o : Rd.ReadOpts) (n : Nat) (tb : Str × List Str) (st r : Rd.RState) (hw : Rd.isW tb = true)
    (h : Rd.docSection o n tb st = .ok r) :
    ∃ p, Rd.mkParser (Rd.lineStrip tb.1) (Rd.classifyVer st.steer.vers) = .ok p ∧
      r.steer.null = Rd.orKeep (nullOfItems o (Rd.bodyItems o p tb.2)) st.steer.null := by
  have hk : Rd.sectionType (Rd.sline tb.1) = .items := by
    cases hk : Rd.sectionType (Rd.sline tb.1) <;> simp [Rd.isW, hk] at hw ⊢
  have hW : Rd.titleLetter (Rd.sline tb.1) = ['W'] := by simpa [Rd.isW, hk] using hw
  unfold Rd.docSection at h
  simp only [hk] at h
  cases hp : Rd.mkParser (Rd.lineStrip tb.1) (Rd.classifyVer st.steer.vers) with
  | error e => simp [hp] at h
  | ok p =>
    simp only [hp] at h
    cases hb : Rd.bodyRun o p tb.2 n with
    | error e => simp [hb] at h
    | ok items =>
      simp only [hb] at h
      obtain ⟨_, hie⟩ := (bodyRun_ok_iff o p _ _ _).mp hb
      obtain ⟨k, _, _, rfl⟩ := Rd.finishItems_ok o _ items st r h
      refine ⟨p, rfl, ?_⟩
      simp only
      unfold Rd.steer nullOfItems
      have hV : (['W'] == ['V']) = false := by decide
      simp only [hW, hV, Bool.false_eq_true, if_false, beq_self_eq_true, if_true, hie, trOf]

/-- sections none of which is a ~W header section leave `steer.null` alone -/
theorem docSections_null_nonW (o : Rd.ReadOpts) (secs : List (Str × List Str)) (n : Nat) (st r : Rd.RState)
    (hw : ∀ tb ∈ secs, Rd.isW tb = false) (h : Rd.docSections o secs n st = .ok r) : r.steer.null = st.steer.null := by
  induction secs generalizing n st with
  | nil => simp only [Rd.docSections] at h; cases h; rfl
  | cons tb rest ih =>
    simp only [Rd.docSections] at h
    cases hd : Rd.docSection o n tb st with
    | error e => rw [hd] at h; cases h
    | ok s1 =>
      rw [hd] at h
      simp only at h
      rw [ih _ s1 (fun x hx => hw x (List.mem_cons_of_mem _ hx)) h,
        docSection_null_nonW o n tb st s1 (hw tb List.mem_cons_self) hd]

/-- the steering values of a header are those of the final state of the section loop -/
theorem readLines_steer (o : Rd.ReadOpts) (pre : List Str) (secs : List (Str × List Str))
    (hpre : ∀ x ∈ pre, Rd.isTitle x = false) (hw : Rd.WellFormed secs) (h : Rd.RHeader)
    (hr : Rd.readLines o (pre ++ Rd.flat secs) = .ok h) :
    ∃ st, Rd.docSections o secs pre.length Rd.RState.init = .ok st ∧ h.steer = st.steer := by
  have hne : secs ≠ [] := by
    intro e; subst e
    have : pre ++ Rd.flat [] = pre := by simp [Rd.flat]
    rw [this, readLines_no_sections o pre hpre] at hr
    cases hr
  rw [readLines_struct o pre secs hpre hw hne] at hr
  cases hd : Rd.docSections o secs pre.length Rd.RState.init with
  | error e => rw [hd] at hr; cases hr
  | ok st =>
    rw [hd] at hr
    obtain ⟨f1, _⟩ := finishRead_same st st h rfl rfl hr
    exact ⟨st, rfl, by rw [f1]⟩

/-- THE SOURCE OF NULL, file level: `(tW, bW)` is the LAST ~W header section of the document; the NULL of the header is the value
of its single NULL item, or — when it has none or several — what the sections before it left -/
theorem readLines_null_last (o : Rd.ReadOpts) (pre : List Str) (A B : List (Str × List Str)) (tW : Str) (bW : List Str)
    (hpre : ∀ x ∈ pre, Rd.isTitle x = false) (hw : Rd.WellFormed (A ++ (tW, bW) :: B))
    (hW : Rd.isW (tW, bW) = true) (hB : ∀ tb ∈ B, Rd.isW tb = false) (h : Rd.RHeader)
    (hr : Rd.readLines o (pre ++ Rd.flat (A ++ (tW, bW) :: B)) = .ok h) :
    ∃ sA ver p, Rd.docSections o A pre.length Rd.RState.init = .ok sA ∧ Rd.mkParser (Rd.lineStrip tW) ver = .ok p ∧
      h.steer.null = Rd.orKeep (nullOfItems o (Rd.bodyItems o p bW)) sA.steer.null := by
  obtain ⟨st, hd, hs⟩ := readLines_steer o pre _ hpre hw h hr
  rw [docSections_append] at hd
  cases hA : Rd.docSections o A pre.length Rd.RState.init with
  | error e => rw [hA] at hd; cases hd
  | ok sA =>
    rw [hA] at hd
    simp only [Rd.docSections] at hd
    cases hT : Rd.docSection o (pre.length + Rd.size A) (tW, bW) sA with
    | error e => rw [hT] at hd; cases hd
    | ok s2 =>
      rw [hT] at hd
      simp only at hd
      obtain ⟨p, hp, hn⟩ := docSection_null_W o _ (tW, bW) sA s2 hW hT
      exact ⟨sA, _, p, rfl, hp, by rw [hs, docSections_null_nonW o B _ s2 st hB hd, hn]⟩

end Lasio.Tf
