import LasioProofs.Lemmas.FileConfig
/-
Helper lemmas for C01FileDlm: the whole-file theorems with a DLM item in the written ~Version section
(every object made by `lasio.LASFile()` carries `DLM . SPACE : Column Data Section Delimiter`).
-/
namespace Lasio.Fd
open Lasio Lasio.Wr Lasio.Cy

/-! ## the hypothesis -/

/-- **the delimiter the reader derives from the written ~Version section is SPACE**: when exactly one item of that section is DLM
for the reader (`Fr.steerVal`: several DLM items make `"DLM" in section` False and are ignored, like none), its value text is
`SPACE` — the writer separates the data with blanks -/
def DlmOK (o : Rd.ReadOpts) (version : String) (wrap : Option Bool) (las : WLas) : Prop :=
  ∀ d, Fr.steerVal o "DLM" (RH.versionCopy version wrap las) = some d → d = "SPACE".toList

/-- the form "at most one DLM item, and its value text is SPACE" -/
theorem dlmOK_of_single (o : Rd.ReadOpts) (version : String) (wrap : Option Bool) (las : WLas)
    (h : ∀ x, (RH.versionCopy version wrap las).filter (Cy.inGroup o "DLM".toList) = [x] → x.value.text = "SPACE".toList) :
    DlmOK o version wrap las := by
  intro d hd
  unfold Fr.steerVal at hd
  split at hd
  · rename_i x hx
    simp only [Option.some.injEq] at hd
    rw [← hd]; exact h x hx
  · cases hd

/-- no DLM item at all (the hypothesis `hdlm` of `C03_file` / `Cy.FileConf`) is a special case -/
theorem dlmOK_of_none (o : Rd.ReadOpts) (version : String) (wrap : Option Bool) (las : WLas)
    (h : ∀ it ∈ RH.versionCopy version wrap las, upper it.orig ≠ "DLM".toList) : DlmOK o version wrap las := by
  intro d hd
  rw [Fr.steerVal_dlm_none o _ h] at hd
  cases hd

/-- the hypotheses of `C03_file`, with `DlmOK` in place of "no DLM item" -/
structure FileConfD (o : Rd.ReadOpts) (version : String) (wrap : Option Bool) (las : WLas) : Prop where
  hcv : ∀ it ∈ RH.versionCopy version wrap las, TextConf .version it
  hcw : ∀ it ∈ standardizeItems las.well, TextConf .well it
  hcc : ∀ it ∈ las.curves, TextConf .curves it
  hcp : ∀ it ∈ standardizeItems las.params, TextConf .parameter it
  hmv : ∀ it ∈ RH.versionCopy version wrap las, it.orig.head? ≠ some '#' ∧ it.orig.head? ≠ some '~'
  hmw : ∀ it ∈ las.well, it.orig.head? ≠ some '#' ∧ it.orig.head? ≠ some '~'
  hmc : ∀ it ∈ las.curves, it.orig.head? ≠ some '#' ∧ it.orig.head? ≠ some '~'
  hmp : ∀ it ∈ las.params, it.orig.head? ≠ some '#' ∧ it.orig.head? ≠ some '~'
  hvers : VersOK o version (RH.versionCopy version wrap las)
  ho : OtherOK las.other
  hdlm : DlmOK o version wrap las

theorem FileConf.toD {o : Rd.ReadOpts} {version : String} {wrap : Option Bool} {las : WLas}
    (h : FileConf o version wrap las) : FileConfD o version wrap las :=
  ⟨h.hcv, h.hcw, h.hcc, h.hcp, h.hmv, h.hmw, h.hmc, h.hmp, h.hvers, h.ho, dlmOK_of_none o version wrap las h.hdlm⟩

/-- the steering values of the written header, DLM included -/
def fileSteerD (o : Rd.ReadOpts) (version : String) (wrap : Option Bool) (las : WLas) : Rd.Steer :=
  ⟨some version.toList, Fr.steerVal o "WRAP" (RH.versionCopy version wrap las),
   Fr.steerVal o "NULL" (standardizeItems las.well), Fr.steerVal o "DLM" (RH.versionCopy version wrap las)⟩

theorem dlm_accept {o : Rd.ReadOpts} {version : String} {wrap : Option Bool} {las : WLas} (h : DlmOK o version wrap las) :
    ∀ d, Fr.steerVal o "DLM" (RH.versionCopy version wrap las) = some d → Rd.delimiters.contains d = true := by
  intro d hs
  rw [h d hs]; decide

theorem dlmOf_ok {o : Rd.ReadOpts} {version : String} {wrap : Option Bool} {las : WLas} (h : DlmOK o version wrap las) :
    Tf.dlmOf (Fr.steerVal o "DLM" (RH.versionCopy version wrap las)) = .space := by
  cases hs : Fr.steerVal o "DLM" (RH.versionCopy version wrap las) with
  | none => rfl
  | some d => rw [h d hs]; decide

theorem finishRead_ok (st : Rd.RState)
    (hacc : ∀ d, st.steer.dlm = some d → Rd.delimiters.contains d = true)
    (hpl : st.curvesPlain = false) :
    Rd.finishRead st = .ok ⟨st.sections.filterMap (fun kv => kv.2.map fun v => (kv.1, v)), st.steer,
      if st.data.isEmpty then st.las3 else st.data⟩ := by
  unfold Rd.finishRead
  cases h : st.steer.dlm with
  | none => simp [hpl]
  | some d =>
    have := hacc d h
    simp only [this, hpl]
    simp

/-- the steering value depends on the read-back items only -/
theorem steerVal_eq (o : Rd.ReadOpts) (key : String) (l : List WItem) :
    Fr.steerVal o key l =
      (match (l.map (rdExpected o)).filter (fun r => Rd.mcmp (o.mnemonicCase != .preserve) (Rd.U r) key.toList) with
       | [r] => some r.value
       | _ => none) := by
  have hP : (fun r : Rd.RItem => Rd.mcmp (o.mnemonicCase != .preserve) (Rd.U r) key.toList) ∘ rdExpected o =
      Cy.inGroup o key.toList := rfl
  unfold Fr.steerVal
  rw [List.filter_map, hP]
  cases l.filter (Cy.inGroup o key.toList) with
  | nil => rfl
  | cons a t =>
    cases t with
    | nil => rfl
    | cons b t => rfl

theorem steerVal_of_map (o : Rd.ReadOpts) (key : String) (l1 l2 : List WItem)
    (h : l1.map (rdExpected o) = l2.map (rdExpected o)) : Fr.steerVal o key l1 = Fr.steerVal o key l2 := by
  rw [steerVal_eq, steerVal_eq, h]

/-! ## the five written sections: the state of the reader after them -/

theorem header_state (o : Rd.ReadOpts) (version : String) (wrap : Option Bool) (w : Nat) (las las' : WLas)
    (hlines : List Str) (hH : headerLines version wrap w las = .ok (hlines, las')) (hc : FileConfD o version wrap las) :
    ∃ secs5 st, hlines = Rd.flat secs5 ∧ Rd.WellFormed secs5 ∧ secs5 ≠ [] ∧
      Rd.docSections o secs5 0 Rd.RState.init = .ok st ∧
      st.sections.filterMap (fun kv => kv.2.map fun v => (kv.1, v)) = firstRead o version wrap las ∧
      st.curvesPlain = false ∧ st.data = [] ∧ st.las3 = [] ∧ st.steer = fileSteerD o version wrap las := by
  unfold headerLines at hH
  cases hs : headerSections version wrap las with
  | error e => rw [hs] at hH; cases hH
  | ok r =>
    obtain ⟨secs, l2⟩ := r
    rw [hs] at hH
    simp only [Except.ok.injEq, Prod.mk.injEq] at hH
    obtain ⟨h1, _⟩ := hH
    obtain ⟨hver, lv, lw, lc, lp, wv, ww, wc, wp, rfl, _⟩ := RH.headerSections_ok version wrap las l2 secs hs
    have hmw' := standardizeItems_orig las.well (fun o => o.head? ≠ some '#' ∧ o.head? ≠ some '~') hc.hmw
    have hmp' := standardizeItems_orig las.params (fun o => o.head? ≠ some '#' ∧ o.head? ≠ some '~') hc.hmp
    have rv := C03_section version .version (RH.cvtCase o.mnemonicCase) _ lv (by decide) wv hc.hcv hc.hmv
    rw [← RH.readSection_version_prov version hver] at rv
    have rw' := C03_section version .well (RH.cvtCase o.mnemonicCase) _ lw (by decide) ww hc.hcw hmw'
    have rc := C03_section version .curves (RH.cvtCase o.mnemonicCase) _ lc (by decide) wc hc.hcc hc.hmc
    have rp := C03_section version .parameter (RH.cvtCase o.mnemonicCase) _ lp (by decide) wp hc.hcp hmp'
    have nv := RH.writeSection_notitle _ _ _ _ wv (fun it hit => NoTitleMnem.of_conf (hc.hcv it hit) (hc.hmv it hit))
    have nw := RH.writeSection_notitle _ _ _ _ ww (fun it hit => NoTitleMnem.of_conf (hc.hcw it hit) (hmw' it hit))
    have nc := RH.writeSection_notitle _ _ _ _ wc (fun it hit => NoTitleMnem.of_conf (hc.hcc it hit) (hc.hmc it hit))
    have np := RH.writeSection_notitle _ _ _ _ wp (fun it hit => NoTitleMnem.of_conf (hc.hcp it hit) (hmp' it hit))
    have no : ∀ b ∈ splitlines las.other, Rd.isTitle b = false := by
      intro b hb
      rw [Rd.isTitle_eq, RH.startsTilde_false_iff]
      exact hc.ho b hb
    have hlv : Fr.lk o (((RH.versionCopy version wrap las).map (expected (RH.cvtCase o.mnemonicCase))).map RH.toRd) "VERS" =
        some version.toList := by
      rw [Fr.lk_written o "VERS" (by simp [Rd.steerKeys])]
      exact Fr.steerVal_of_versOK o version _ hc.hvers
    obtain ⟨st, hst, hsec, hpl, hdata, hlas3, hsteer⟩ := Fr.docSections_written_full o version w lv lw lc lp
      (splitlines las.other) _ _ _ _ version.toList (RH.sectionOrders_some version hver) nv nw nc np rv rw' rc rp hlv
      (RH.classifyVer_written version hver)
    rw [Fr.lk_written o "WRAP" (by simp [Rd.steerKeys]), Fr.lk_written o "NULL" (by simp [Rd.steerKeys]),
      Fr.lk_written o "DLM" (by simp [Rd.steerKeys])] at hsteer
    refine ⟨_, st, by rw [← h1, RH.flat_written], RH.wellFormed_written w lv lw lc lp (splitlines las.other) nv nw nc np no,
      by simp [RH.written], hst, ?_, hpl, hdata, hlas3, hsteer⟩
    have hmm : ∀ items : List WItem, (items.map (expected (RH.cvtCase o.mnemonicCase))).map RH.toRd =
        items.map (rdExpected o) := by
      intro items; rw [List.map_map]; rfl
    rw [hsec]
    simp [hmm, firstRead, otherRead]

/-- **`C03_file` with a DLM item**: the header lines alone -/
theorem readLines_header_dlm (o : Rd.ReadOpts) (version : String) (wrap : Option Bool) (w : Nat) (las las' : WLas)
    (hlines : List Str) (hH : headerLines version wrap w las = .ok (hlines, las')) (hc : FileConfD o version wrap las) :
    Rd.readLines o hlines = .ok ⟨firstRead o version wrap las, fileSteerD o version wrap las, []⟩ := by
  obtain ⟨secs5, st, hl, hw, hne, hst, hsec, hpl, hdata, hlas3, hsteer⟩ := header_state o version wrap w las las' hlines hH hc
  have := Rd.C05_read_rendered_lines o [] secs5 (by simp) hw hne
  simp only [List.nil_append, List.length_nil] at this
  rw [hl, this, hst]
  simp only []
  rw [finishRead_ok st (by rw [hsteer]; exact dlm_accept hc.hdlm) hpl, hsec, hsteer, hdata, hlas3]
  rfl

/-- **the header-level reader on the whole written file, DLM item allowed** -/
theorem readLines_file_dlm (o : Rd.ReadOpts) (version : String) (wrap : Option Bool) (w : Nat) (las las' : WLas)
    (hlines : List Str) (hH : headerLines version wrap w las = .ok (hlines, las')) (hc : FileConfD o version wrap las)
    (hdr : Str) (body : List Str) (hT : Rd.isTitle hdr = true) (hTd : Rd.sectionType (Rd.sline hdr) = .data)
    (hbt : ∀ b ∈ body, Rd.isTitle b = false) :
    Rd.readLines o (Fr.fileDoc hlines hdr body) = .ok
      ⟨firstRead o version wrap las, fileSteerD o version wrap las,
       [(hlines.length, hlines.length + body.length, Rd.sline hdr)]⟩ := by
  have hnl : ∀ c ∈ Tf.nl, isPySpace c = true := by decide
  obtain ⟨secs5, st, hl5, hw5, _, hst, hsec, hpl, hdata, hlas3, hsteer⟩ := header_state o version wrap w las las' hlines hH hc
  have hw6 : Rd.WellFormed (secs5 ++ [(hdr, body)]) := by
    intro tb htb
    rcases List.mem_append.mp htb with h | h
    · exact hw5 tb h
    · simp only [List.mem_singleton] at h
      subst h
      exact ⟨hT, hbt⟩
  have hdoc : Fr.fileDoc hlines hdr body = [] ++ Rd.flat (Fr.eolSecs Tf.nl (secs5 ++ [(hdr, body)])) := by
    unfold Fr.fileDoc
    rw [Fr.flat_eol, Fr.flat_append, hl5]
    simp [Rd.flat]
  rw [hdoc, Rd.C05_read_rendered_lines o [] _ (by simp) (Fr.wellFormed_eol Tf.nl hnl _ hw6) (by simp [Fr.eolSecs])]
  simp only [List.length_nil]
  rw [Fr.docSections_eol o _ Tf.nl hnl, Fr.docSections_append, hst]
  simp only [Rd.docSections, Fr.docSection_data o _ hdr body st hTd]
  have hsz : 0 + Rd.size secs5 = hlines.length := by rw [hl5, Rd.flat_length]; omega
  rw [hsz, finishRead_ok _ (by simp only []; rw [hsteer]; exact dlm_accept hc.hdlm) (by simp only []; exact hpl)]
  simp only [hsec, hsteer, hdata, hlas3, List.nil_append]
  rfl

/-! ## `Tf.readFull` -/

theorem readFull_file_dlm (opts : Tf.Opts) (nullOf : Option Str → Option Str) (ft : Dt.FloatTable)
    (version : String) (wrap : Option Bool) (w : Nat) (las las' : WLas)
    (hlines : List Str) (hH : headerLines version wrap w las = .ok (hlines, las'))
    (hc : FileConfD opts.hdr version wrap las)
    (hdr : Str) (body : List Str) (hT : Rd.isTitle hdr = true) (hTd : Rd.sectionType (Rd.sline hdr) = .data)
    (hbt : ∀ b ∈ body, Rd.isTitle b = false) :
    Tf.readFull opts nullOf ft (Fr.fileDoc hlines hdr body) = .ok
      ⟨firstRead opts.hdr version wrap las, fileSteerD opts.hdr version wrap las,
       [⟨hlines.length, hlines.length + body.length,
         Dt.readData opts.dat (Fr.fileDoc hlines hdr body) hlines.length (hlines.length + body.length)
           (Tf.dtSteer nullOf (fileSteerD opts.hdr version wrap las)) las.curves.length ft⟩]⟩ := by
  unfold Tf.readFull
  rw [readLines_file_dlm opts.hdr version wrap w las las' hlines hH hc hdr body hT hTd hbt]
  simp only [Fr.declaredCount_firstRead, List.map_cons, List.map_nil]

theorem dtSteer_file_dlm (nullOf : Option Str → Option Str) (o : Rd.ReadOpts) (version : String) (wrap : Option Bool)
    (las : WLas) (hd : DlmOK o version wrap las) :
    (Tf.dtSteer nullOf (fileSteerD o version wrap las)).delimiter = .space ∧
    (Tf.dtSteer nullOf (fileSteerD o version wrap las)).nullValue = nullOf (Fr.steerVal o "NULL" (standardizeItems las.well)) ∧
    (∀ t, Fr.steerVal o "WRAP" (RH.versionCopy version wrap las) = some t →
      (Tf.dtSteer nullOf (fileSteerD o version wrap las)).wrapDeclared = true ∧
      (Tf.dtSteer nullOf (fileSteerD o version wrap las)).wrapped = t) := by
  refine ⟨dlmOf_ok hd, rfl, ?_⟩
  intro t ht
  simp [Tf.dtSteer, fileSteerD, ht]

/-! ## the load/save cycle with a DLM item -/

theorem cycle_core_dlm (o : Rd.ReadOpts) {rv : Str → WVal} (hrv : Retype rv) (version : String) (wrap : Option Bool)
    (las : WLas) (hver : version = "1.2" ∨ version = "2.0")
    (hc : FileConfD o version wrap las) (hx : CycleConf o version wrap las) (hsp : SpeltConf rv version wrap las) :
    FileConfD o version wrap (lasOfRead rv o (firstRead o version wrap las)) ∧
    CycleConf o version wrap (lasOfRead rv o (firstRead o version wrap las)) ∧
    SpeltConf rv version wrap (lasOfRead rv o (firstRead o version wrap las)) ∧
    firstRead o version wrap (lasOfRead rv o (firstRead o version wrap las)) = firstRead o version wrap las ∧
    (∀ w, ∃ lines las', headerLines version wrap w (lasOfRead rv o (firstRead o version wrap las)) = .ok (lines, las')) := by
  rw [lasOfRead_firstRead]
  generalize hl1 : (⟨itemsOfRead rv (o.mnemonicCase != .preserve) ((RH.versionCopy version wrap las).map (rdExpected o)),
       o.mnemonicCase != .preserve,
       itemsOfRead rv (o.mnemonicCase != .preserve) ((standardizeItems las.well).map (rdExpected o)),
       itemsOfRead rv (o.mnemonicCase != .preserve) (las.curves.map (rdExpected o)),
       itemsOfRead rv (o.mnemonicCase != .preserve) ((standardizeItems las.params).map (rdExpected o)),
       otherRead las.other⟩ : WLas) = las1
  have e1 : las1.version = itemsOfRead rv (o.mnemonicCase != .preserve) ((RH.versionCopy version wrap las).map (rdExpected o)) := by
    rw [← hl1]
  have e2 : las1.versionTr = (o.mnemonicCase != .preserve) := by rw [← hl1]
  have e3 : las1.well = itemsOfRead rv (o.mnemonicCase != .preserve) ((standardizeItems las.well).map (rdExpected o)) := by
    rw [← hl1]
  have e4 : las1.curves = itemsOfRead rv (o.mnemonicCase != .preserve) (las.curves.map (rdExpected o)) := by rw [← hl1]
  have e5 : las1.params = itemsOfRead rv (o.mnemonicCase != .preserve) ((standardizeItems las.params).map (rdExpected o)) := by
    rw [← hl1]
  have e6 : las1.other = otherRead las.other := by rw [← hl1]
  have hsV : ∀ it ∈ RH.versionCopy version wrap las, Spelt rv it.value.text :=
    fun it h => hsp it (by simp [writtenItems, h])
  have hsW : ∀ it ∈ standardizeItems las.well, Spelt rv it.value.text :=
    fun it h => hsp it (by simp [writtenItems, h])
  have hsC : ∀ it ∈ las.curves, Spelt rv it.value.text :=
    fun it h => hsp it (by simp [writtenItems, h])
  have hsP : ∀ it ∈ standardizeItems las.params, Spelt rv it.value.text :=
    fun it h => hsp it (by simp [writtenItems, h])
  obtain ⟨vers, hvi⟩ := versItem_some version hver
  obtain ⟨xv, hgv, hxvv⟩ := (versOK_iff o version _).mp hc.hvers
  obtain ⟨xw, hgw⟩ := hx.hwrap
  -- the ~Version section
  obtain ⟨hS, hfind⟩ := versionCopy_reread o version wrap (RH.versionCopy version wrap las) las1 vers xv xw hsV hvi e1 e2
    hgv hgw (versionCopy_has_vers version wrap las vers hvi)
    (by intro w hw; subst hw; exact versionCopy_has_wrap version w las)
  -- ~Well / ~Parameter are not touched by the normalisation
  have sw : standardizeItems las1.well = las1.well := by
    rw [e3]; exact standardizeItems_itemsOfRead o hrv _ _ hx.hvw
  have sp : standardizeItems las1.params = las1.params := by
    rw [e5]; exact standardizeItems_itemsOfRead o hrv _ _ hx.hvp
  have hmw' := standardizeItems_orig las.well (fun o => o.head? ≠ some '#' ∧ o.head? ≠ some '~') hc.hmw
  have hmp' := standardizeItems_orig las.params (fun o => o.head? ≠ some '#' ∧ o.head? ≠ some '~') hc.hmp
  obtain ⟨hcv1, hmv1⟩ := C03_versionCopy_conf version wrap las1
    (by rw [e1]; exact conf_itemsOfRead o .version _ _ hsV hc.hcv)
    (by rw [e1]; exact mark_itemsOfRead o rv _ _ hc.hmv)
  obtain ⟨x1, hx1, hx1r⟩ := filter_inGroup_of_map o "VERS".toList _ _ xv hS hgv
  obtain ⟨xw1, hxw1, _⟩ := filter_inGroup_of_map o "WRAP".toList _ _ xw hS hgw
  refine ⟨⟨hcv1, ?_, ?_, ?_, hmv1, ?_, ?_, ?_, ?_, ?_, ?_⟩, ⟨⟨xw1, hxw1⟩, ?_, ?_, ?_⟩, ?_, ?_, ?_⟩
  · rw [sw, e3]; exact conf_itemsOfRead o .well _ _ hsW hc.hcw
  · rw [e4]; exact conf_itemsOfRead o .curves _ _ hsC hc.hcc
  · rw [sp, e5]; exact conf_itemsOfRead o .parameter _ _ hsP hc.hcp
  · rw [e3]; exact mark_itemsOfRead o rv _ _ hmw'
  · rw [e4]; exact mark_itemsOfRead o rv _ _ hc.hmc
  · rw [e5]; exact mark_itemsOfRead o rv _ _ hmp'
  · refine (versOK_iff o version _).mpr ⟨x1, hx1, ?_⟩
    have := congrArg (·.value) hx1r
    simp only [rdExpected] at this
    rw [this, hxvv]
  · rw [e6]; exact otherOK_otherRead _ hx.hol hc.ho
  · intro d hd
    rw [steerVal_of_map o "DLM" _ _ hS] at hd
    exact hc.hdlm d hd
  · rw [sw, e3]; exact valueShown_itemsOfRead o _ _ hsW hx.hvw
  · rw [sp, e5]; exact valueShown_itemsOfRead o _ _ hsP hx.hvp
  · rw [e6]; exact otherLast_otherRead _ hx.hol
  · intro it hit
    simp only [writtenItems, List.mem_append] at hit
    rcases hit with ((hit | hit) | hit) | hit
    · have : rdExpected o it ∈ (RH.versionCopy version wrap las).map (rdExpected o) := by
        rw [← hS]; exact List.mem_map_of_mem hit
      obtain ⟨x, hxm, hxe⟩ := List.mem_map.mp this
      have hv := congrArg (·.value) hxe
      simp only [rdExpected] at hv
      unfold Spelt
      rw [← hv]
      exact hsV x hxm
    · rw [sw, e3] at hit; exact spelt_itemsOfRead o _ _ hsW it hit
    · rw [e4] at hit; exact spelt_itemsOfRead o _ _ hsC it hit
    · rw [sp, e5] at hit; exact spelt_itemsOfRead o _ _ hsP it hit
  · unfold firstRead
    rw [hS, sw, sp, e3, e4, e5, e6, map_rdExpected_itemsOfRead o _ _ hsW, map_rdExpected_itemsOfRead o _ _ hsC,
      map_rdExpected_itemsOfRead o _ _ hsP, otherRead_idem _ hx.hol]
  · intro w
    exact headerLines_total version wrap w las1 hver (fun _ => hfind)


end Lasio.Fd
