import LasioModel.Copy
import LasioProofs.Lemmas.SectionInv
/-
Helper lemmas for C17: `renumber` over an append, prefixes of canonical sections, and a decidable
characterisation of `Canonical`.
-/
namespace Lasio

theorem copyItem_id (it : Item) : copyItem it = it := by
  cases it; rfl

theorem map_copyItem (l : List Item) : l.map copyItem = l := by
  induction l with
  | nil => rfl
  | cons a as ih => rw [List.map_cons, copyItem_id, ih]

theorem renumber_cons_in (tr : Bool) (t : Str) (a : Item) (as : List Item) (k : Nat)
    (hg : cmpStr tr (useful a.orig) t = true) :
    renumber tr t (a :: as) k =
      { a with session := useful a.orig ++ ':' :: natToStr (k + 1) } :: renumber tr t as (k + 1) := by
  simp [renumber, hg]

theorem renumber_cons_out (tr : Bool) (t : Str) (a : Item) (as : List Item) (k : Nat)
    (hg : ¬ cmpStr tr (useful a.orig) t = true) :
    renumber tr t (a :: as) k = a :: renumber tr t as k := by
  simp [renumber, hg]

theorem renumber_append (tr : Bool) (t : Str) (l1 l2 : List Item) (k : Nat) :
    renumber tr t (l1 ++ l2) k = renumber tr t l1 k ++ renumber tr t l2 (k + countGroup tr t l1) := by
  induction l1 generalizing k with
  | nil => simp [renumber, countGroup]
  | cons a as ih =>
    rw [List.cons_append, countGroup_cons]
    by_cases hg : cmpStr tr (useful a.orig) t = true
    · rw [renumber_cons_in _ _ _ _ _ hg, renumber_cons_in _ _ _ _ _ hg, ih (k + 1)]
      have : k + 1 + countGroup tr t as = k + ((if cmpStr tr (useful a.orig) t = true then 1 else 0) +
          countGroup tr t as) := by simp [hg]; omega
      rw [this]
      rfl
    · rw [renumber_cons_out _ _ _ _ _ hg, renumber_cons_out _ _ _ _ _ hg, ih k]
      simp [hg]

theorem countGroup_eq_origs' (tr : Bool) (t : Str) (l : List Item) :
    countGroup tr t l = ((l.map (·.orig)).filter (fun o => cmpStr tr (useful o) t)).length := by
  unfold countGroup
  rw [List.filter_map, List.length_map]
  rfl

theorem countGroup_append (tr : Bool) (t : Str) (l1 l2 : List Item) :
    countGroup tr t (l1 ++ l2) = countGroup tr t l1 + countGroup tr t l2 := by
  unfold countGroup
  simp

/-- a prefix of a canonical section is canonical -/
theorem canonical_prefix (tr : Bool) (l1 l2 : List Item) (h : Canonical ⟨l1 ++ l2, tr⟩) : Canonical ⟨l1, tr⟩ := by
  intro t
  have ht := h t
  unfold Section.assignSuffixes at ht ⊢
  simp only [] at ht ⊢
  by_cases hc : countGroup tr t l1 > 1
  · have hc' : countGroup tr t (l1 ++ l2) > 1 := by rw [countGroup_append]; omega
    simp only [hc, hc', if_true] at ht ⊢
    have hi : renumber tr t (l1 ++ l2) 0 = l1 ++ l2 := by
      have := congrArg Section.items ht
      simpa using this
    rw [renumber_append] at hi
    have := (List.append_inj hi (renumber_length _ _ _ _)).1
    rw [this]
  · simp [hc]

/-- rebuilding a canonical list with lasio's `append`, item by item, reproduces it -/
theorem foldl_append_canonical_from (tr : Bool) (l1 l2 : List Item) (h : Canonical ⟨l1 ++ l2, tr⟩) :
    l2.foldl Section.append ⟨l1, tr⟩ = ⟨l1 ++ l2, tr⟩ := by
  induction l2 generalizing l1 with
  | nil => simp
  | cons a l2 ih =>
    have e : l1 ++ a :: l2 = (l1 ++ [a]) ++ l2 := by simp
    rw [e] at h ⊢
    have hp : Canonical ⟨l1 ++ [a], tr⟩ := canonical_prefix tr _ _ h
    have ha : (⟨l1, tr⟩ : Section).append a = ⟨l1 ++ [a], tr⟩ := hp (useful a.orig)
    rw [List.foldl_cons, ha]
    exact ih _ h

theorem foldl_append_canonical (tr : Bool) (l : List Item) (h : Canonical ⟨l, tr⟩) :
    l.foldl Section.append ⟨[], tr⟩ = ⟨l, tr⟩ := by
  have := foldl_append_canonical_from tr [] l (by simpa using h)
  simpa using this

/-! ### `Canonical` in terms of the members of each group; preservation by `append` / `insert` -/

/-- the members of the group of `t`, numbered from `k`, carry the session names `useful:k+1`, `useful:k+2`, … -/
def GroupNumbered (tr : Bool) (t : Str) (l : List Item) (k : Nat) : Prop :=
  ∀ p ∈ (l.filter (inGroup tr t)).zipIdx k, p.1.session = useful p.1.orig ++ ':' :: natToStr (p.2 + 1)

theorem item_session_ext (a : Item) (x : Str) : ({ a with session := x } : Item) = a ↔ x = a.session := by
  cases a
  simp

theorem renumber_fix_iff (tr : Bool) (t : Str) (l : List Item) (k : Nat) :
    renumber tr t l k = l ↔ GroupNumbered tr t l k := by
  induction l generalizing k with
  | nil => simp [renumber, GroupNumbered]
  | cons a rest ih =>
    by_cases hg : cmpStr tr (useful a.orig) t = true
    · have hin : inGroup tr t a = true := hg
      rw [renumber_cons_in _ _ _ _ _ hg]
      unfold GroupNumbered
      rw [List.filter_cons, if_pos hin, List.zipIdx_cons]
      simp only [List.cons.injEq, List.mem_cons, forall_eq_or_imp]
      rw [ih (k + 1), item_session_ext]
      unfold GroupNumbered
      constructor
      · rintro ⟨h1, h2⟩; exact ⟨h1.symm, h2⟩
      · rintro ⟨h1, h2⟩; exact ⟨h1.symm, h2⟩
    · have hin : ¬ inGroup tr t a = true := hg
      rw [renumber_cons_out _ _ _ _ _ hg]
      unfold GroupNumbered
      rw [List.filter_cons, if_neg hin]
      simp only [List.cons.injEq, true_and]
      rw [ih k]
      rfl

theorem canonical_iff (s : Section) :
    Canonical s ↔ ∀ t, 1 < countGroup s.tr t s.items → GroupNumbered s.tr t s.items 0 := by
  unfold Canonical Section.assignSuffixes
  constructor
  · intro h t hc
    have := h t
    have hc' : countGroup s.tr t s.items > 1 := hc
    simp only [hc', if_true] at this
    rw [← renumber_fix_iff]
    have := congrArg Section.items this
    simpa using this
  · intro h t
    by_cases hc : countGroup s.tr t s.items > 1
    · simp only [hc, if_true]
      have := (renumber_fix_iff s.tr t s.items 0).mpr (h t hc)
      rw [this]
    · simp [hc]

theorem inGroup_congr (tr : Bool) (t u : Str) (h : ckey tr t = ckey tr u) : inGroup tr t = inGroup tr u := by
  funext it
  unfold inGroup
  rw [cmpStr_eq_ckey, cmpStr_eq_ckey, h]

theorem renumber_filter_other (tr : Bool) (t u : Str) (h : ckey tr t ≠ ckey tr u) (l : List Item) (k : Nat) :
    (renumber tr u l k).filter (inGroup tr t) = l.filter (inGroup tr t) := by
  induction l generalizing k with
  | nil => simp [renumber]
  | cons a rest ih =>
    by_cases hg : cmpStr tr (useful a.orig) u = true
    · rw [renumber_cons_in _ _ _ _ _ hg]
      have hnot : ∀ x : Str, ¬ inGroup tr t ({ a with session := x } : Item) = true := by
        intro x hx
        unfold inGroup at hx
        rw [cmpStr_true_iff] at hx hg
        exact h (hx.symm.trans hg)
      have hnot' : ¬ inGroup tr t a = true := by
        have := hnot a.session
        cases a
        simpa using this
      rw [List.filter_cons, if_neg (hnot _), List.filter_cons, if_neg hnot', ih]
    · rw [renumber_cons_out _ _ _ _ _ hg, List.filter_cons, List.filter_cons, ih]

theorem groupNumbered_of_zipIdx (F : List Item) (k : Nat) :
    ∀ p ∈ ((F.zipIdx k).map (fun p => withSuffix p.1 (p.2 + 1))).zipIdx k,
      p.1.session = useful p.1.orig ++ ':' :: natToStr (p.2 + 1) := by
  induction F generalizing k with
  | nil => simp
  | cons a rest ih =>
    rw [List.zipIdx_cons, List.map_cons, List.zipIdx_cons]
    intro p hp
    rcases List.mem_cons.mp hp with rfl | hp
    · rfl
    · exact ih (k + 1) p hp

theorem countGroup_insert (tr : Bool) (t : Str) (l1 l2 : List Item) (it : Item) :
    countGroup tr t (l1 ++ it :: l2) = countGroup tr t (l1 ++ l2) + (if inGroup tr t it then 1 else 0) := by
  rw [countGroup_append, countGroup_append, countGroup_cons]
  unfold inGroup
  omega

theorem filter_insert_other (tr : Bool) (t : Str) (l1 l2 : List Item) (it : Item) (h : ¬ inGroup tr t it = true) :
    (l1 ++ it :: l2).filter (inGroup tr t) = (l1 ++ l2).filter (inGroup tr t) := by
  rw [List.filter_append, List.filter_append, List.filter_cons, if_neg h]

/-- putting ANY item between two halves of a canonical section and re-suffixing its group gives a canonical
section (the common core of `append` and `insert`) -/
theorem canonical_insert_assign (tr : Bool) (l1 l2 : List Item) (it : Item) (h : Canonical ⟨l1 ++ l2, tr⟩) :
    Canonical ((⟨l1 ++ it :: l2, tr⟩ : Section).assignSuffixes (useful it.orig)) := by
  rw [canonical_iff] at h ⊢
  simp only [] at h
  rw [assign_tr]
  simp only []
  intro t hc
  have horigs := assign_origs ⟨l1 ++ it :: l2, tr⟩ (useful it.orig)
  have hcount : countGroup tr t ((⟨l1 ++ it :: l2, tr⟩ : Section).assignSuffixes (useful it.orig)).items =
      countGroup tr t (l1 ++ it :: l2) := by
    rw [countGroup_eq_origs', countGroup_eq_origs']
    have ho : ((⟨l1 ++ it :: l2, tr⟩ : Section).assignSuffixes (useful it.orig)).items.map (·.orig) =
        (l1 ++ it :: l2).map (·.orig) := horigs
    rw [ho]
  rw [hcount] at hc
  have hit : inGroup tr (useful it.orig) it = true := cmpStr_refl _ _
  by_cases hk : ckey tr t = ckey tr (useful it.orig)
  · -- the group that was re-suffixed
    have hgrp := inGroup_congr tr t _ hk
    have hcu : countGroup tr (useful it.orig) (l1 ++ it :: l2) > 1 := by
      have : countGroup tr (useful it.orig) (l1 ++ it :: l2) = countGroup tr t (l1 ++ it :: l2) := by
        unfold countGroup
        congr 1
        apply List.filter_congr
        intro x _
        rw [cmpStr_eq_ckey, cmpStr_eq_ckey, hk]
      omega
    unfold Section.assignSuffixes
    simp only [hcu, if_true]
    unfold GroupNumbered
    rw [hgrp, renumber_filter_in]
    exact groupNumbered_of_zipIdx _ 0
  · -- another group: untouched, and the new item does not belong to it
    have hnot : ¬ inGroup tr t it = true := by
      intro hx
      unfold inGroup at hx
      rw [cmpStr_true_iff] at hx
      exact hk hx.symm
    have hfilter : (((⟨l1 ++ it :: l2, tr⟩ : Section).assignSuffixes (useful it.orig)).items).filter (inGroup tr t) =
        (l1 ++ l2).filter (inGroup tr t) := by
      unfold Section.assignSuffixes
      split
      · simp only []
        rw [renumber_filter_other tr t _ hk, filter_insert_other tr t l1 l2 it hnot]
      · exact filter_insert_other tr t l1 l2 it hnot
    have hc2 : 1 < countGroup tr t (l1 ++ l2) := by
      rw [countGroup_insert] at hc
      simp only [hnot, Bool.false_eq_true, if_false] at hc
      simpa using hc
    unfold GroupNumbered
    rw [hfilter]
    exact h t hc2

end Lasio
