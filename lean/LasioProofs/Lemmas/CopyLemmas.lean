import LasioModel.Copy
import LasioProofs.Lemmas.SectionInv
/-
Helper lemmas for C17: `renumber` over an append, prefixes of canonical sections, and a decidable
characterisation of `Canonical`.
-/
namespace Lasio

theorem copyItem_id (it : Item) : copyItem it = it := by
  cases it; rfl

theorem map_copyItem (l : List Item) : l.map copyItem = l := by
  induction l with
  | nil => rfl
  | cons a as ih => rw [List.map_cons, copyItem_id, ih]

theorem renumber_cons_in (tr : Bool) (t : Str) (a : Item) (as : List Item) (k : Nat)
    (hg : cmpStr tr (useful a.orig) t = true) :
    renumber tr t (a :: as) k =
      { a with session := useful a.orig ++ ':' :: natToStr (k + 1) } :: renumber tr t as (k + 1) := by
  simp [renumber, hg]

theorem renumber_cons_out (tr : Bool) (t : Str) (a : Item) (as : List Item) (k : Nat)
    (hg : ¬ cmpStr tr (useful a.orig) t = true) :
    renumber tr t (a :: as) k = a :: renumber tr t as k := by
  simp [renumber, hg]

theorem renumber_append (tr : Bool) (t : Str) (l1 l2 : List Item) (k : Nat) :
    renumber tr t (l1 ++ l2) k = renumber tr t l1 k ++ renumber tr t l2 (k + countGroup tr t l1) := by
  induction l1 generalizing k with
  | nil => simp [renumber, countGroup]
  | cons a as ih =>
    rw [List.cons_append, countGroup_cons]
    by_cases hg : cmpStr tr (useful a.orig) t = true
    · rw [renumber_cons_in _ _ _ _ _ hg, renumber_cons_in _ _ _ _ _ hg, ih (k + 1)]
      have : k + 1 + countGroup tr t as = k + ((if cmpStr tr (useful a.orig) t = true then 1 else 0) +
          countGroup tr t as) := by simp [hg]; omega
      rw [this]
      rfl
    · rw [renumber_cons_out _ _ _ _ _ hg, renumber_cons_out _ _ _ _ _ hg, ih k]
      simp [hg]

theorem countGroup_append (tr : Bool) (t : Str) (l1 l2 : List Item) :
    countGroup tr t (l1 ++ l2) = countGroup tr t l1 + countGroup tr t l2 := by
  unfold countGroup
  simp

/-- a prefix of a canonical section is canonical -/
theorem canonical_prefix (tr : Bool) (l1 l2 : List Item) (h : Canonical ⟨l1 ++ l2, tr⟩) : Canonical ⟨l1, tr⟩ := by
  intro t
  have ht := h t
  unfold Section.assignSuffixes at ht ⊢
  simp only [] at ht ⊢
  by_cases hc : countGroup tr t l1 > 1
  · have hc' : countGroup tr t (l1 ++ l2) > 1 := by rw [countGroup_append]; omega
    simp only [hc, hc', if_true] at ht ⊢
    have hi : renumber tr t (l1 ++ l2) 0 = l1 ++ l2 := by
      have := congrArg Section.items ht
      simpa using this
    rw [renumber_append] at hi
    have := (List.append_inj hi (renumber_length _ _ _ _)).1
    rw [this]
  · simp [hc]

/-- rebuilding a canonical list with lasio's `append`, item by item, reproduces it -/
theorem foldl_append_canonical_from (tr : Bool) (l1 l2 : List Item) (h : Canonical ⟨l1 ++ l2, tr⟩) :
    l2.foldl Section.append ⟨l1, tr⟩ = ⟨l1 ++ l2, tr⟩ := by
  induction l2 generalizing l1 with
  | nil => simp
  | cons a l2 ih =>
    have e : l1 ++ a :: l2 = (l1 ++ [a]) ++ l2 := by simp
    rw [e] at h ⊢
    have hp : Canonical ⟨l1 ++ [a], tr⟩ := canonical_prefix tr _ _ h
    have ha : (⟨l1, tr⟩ : Section).append a = ⟨l1 ++ [a], tr⟩ := hp (useful a.orig)
    rw [List.foldl_cons, ha]
    exact ih _ h

theorem foldl_append_canonical (tr : Bool) (l : List Item) (h : Canonical ⟨l, tr⟩) :
    l.foldl Section.append ⟨[], tr⟩ = ⟨l, tr⟩ := by
  have := foldl_append_canonical_from tr [] l (by simpa using h)
  simpa using this

end Lasio
