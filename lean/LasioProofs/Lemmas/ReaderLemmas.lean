import LasioModel.Reader
/-
Lemmas about the header-level reader model (`LasioModel/Reader.lean`): the two line loops consume exactly the
body of their section, the title scan returns the windows of a rendered document, the `SectionItems` lookup used
by the steering code, and the insertion-ordered section map.
-/
namespace Lasio.Rd

/-! ## the header-items loop -/

/-- what a body contributes when every one of its lines is processed (declarative reading of the loop);
`lineNo` = zero-based number of the line before the body (the title line) -/
def bodyRun (o : ReadOpts) (p : Parser) : List Str → Nat → Except RErr (List RItem)
  | [], _ => .ok []
  | l :: ls, lineNo =>
    match lineRes o p l with
    | .item it =>
      match bodyRun o p ls (lineNo + 1) with
      | .ok r => .ok (it :: r)
      | .error e => .error e
    | .bad => if o.ignoreHeaderErrors then bodyRun o p ls (lineNo + 1) else .error (.headerError (lineNo + 2))
    | _ => bodyRun o p ls (lineNo + 1)

/-- the item a single line parses to (nothing for blank / comment / unparsable lines) -/
def lineItem (o : ReadOpts) (p : Parser) (l : Str) : Option RItem :=
  match lineRes o p l with
  | .item it => some it
  | _ => none

/-- the items of a body: every line on its own -/
def bodyItems (o : ReadOpts) (p : Parser) (body : List Str) : List RItem := body.filterMap (lineItem o p)

/-- the loop on a non-empty body that contains no title line processes exactly the body -/
theorem itemsLoop_body (o : ReadOpts) (p : Parser) (body rest : List Str) (first last : Nat)
    (hb : ∀ b ∈ body, lineRes o p b ≠ .title) (hne : body ≠ []) (hlast : last = first + body.length) :
    itemsLoop o p last (body ++ rest) first = bodyRun o p body first := by
  induction body generalizing first with
  | nil => exact absurd rfl hne
  | cons b bs ih =>
    have hb' : ∀ x ∈ bs, lineRes o p x ≠ .title := fun x hx => hb x (List.mem_cons_of_mem _ hx)
    have hbt : lineRes o p b ≠ .title := hb b (List.mem_cons_self)
    simp only [List.cons_append, itemsLoop, bodyRun]
    by_cases hbs : bs = []
    · subst hbs
      have hl : (first + 1 == last) = true := by simp [hlast]
      cases hr : lineRes o p b with
      | title => exact absurd hr hbt
      | skip => simp [hl, bodyRun]
      | bad => simp [hl, bodyRun]
      | item it => simp [hl, bodyRun]
    · have hl : (first + 1 == last) = false := by
        have : 0 < bs.length := List.length_pos_iff.mpr hbs
        simp [hlast]; omega
      have ih' := ih (first + 1) hb' hbs (by simp [hlast]; omega)
      cases hr : lineRes o p b with
      | title => exact absurd hr hbt
      | skip => simp [hl, ih']
      | bad => simp [hl, ih']
      | item it =>
        simp only [hl, ih', Bool.false_eq_true, if_false]
        cases bodyRun o p bs (first + 1) <;> rfl

/-- an empty section: the loop looks at the next line, which is the next title (or the end of the file) -/
theorem itemsLoop_empty (o : ReadOpts) (p : Parser) (rest : List Str) (first : Nat)
    (hrest : rest = [] ∨ ∃ t r, rest = t :: r ∧ lineRes o p t = .title) :
    itemsLoop o p first rest first = .ok [] := by
  rcases hrest with h | ⟨t, r, h, ht⟩
  · subst h; rfl
  · subst h; simp [itemsLoop, ht]

theorem bodyRun_ignore (o : ReadOpts) (p : Parser) (body : List Str) (n : Nat) (hi : o.ignoreHeaderErrors = true) :
    bodyRun o p body n = .ok (bodyItems o p body) := by
  induction body generalizing n with
  | nil => rfl
  | cons b bs ih =>
    simp only [bodyRun, bodyItems, List.filterMap_cons, lineItem]
    cases hr : lineRes o p b <;> simp [hi, ih, bodyItems]

/-- index of the first unparsable line -/
def firstBad (o : ReadOpts) (p : Parser) : List Str → Option Nat
  | [] => none
  | l :: ls => if lineRes o p l = .bad then some 0 else (firstBad o p ls).map (· + 1)

theorem bodyRun_strict (o : ReadOpts) (p : Parser) (body : List Str) (n : Nat) (hi : o.ignoreHeaderErrors = false) :
    bodyRun o p body n =
      match firstBad o p body with
      | none => .ok (bodyItems o p body)
      | some i => .error (.headerError (n + i + 2)) := by
  induction body generalizing n with
  | nil => rfl
  | cons b bs ih =>
    simp only [bodyRun, firstBad, bodyItems, List.filterMap_cons, lineItem]
    cases hr : lineRes o p b with
    | bad => simp [hi]
    | title =>
      simp [ih (n + 1)]
      cases firstBad o p bs <;> simp [bodyItems]; omega
    | skip =>
      simp [ih (n + 1)]
      cases firstBad o p bs <;> simp [bodyItems]; omega
    | item it =>
      simp [ih (n + 1)]
      cases firstBad o p bs <;> simp [bodyItems]; omega

theorem bodyItems_append (o : ReadOpts) (p : Parser) (a b : List Str) :
    bodyItems o p (a ++ b) = bodyItems o p a ++ bodyItems o p b := by
  simp [bodyItems, List.filterMap_append]

/-- a successful body does not depend on where in the file it stands -/
theorem bodyRun_ok_indep (o : ReadOpts) (p : Parser) (body : List Str) (n n' : Nat) (l : List RItem)
    (h : bodyRun o p body n = .ok l) : bodyRun o p body n' = .ok l := by
  cases hi : o.ignoreHeaderErrors with
  | true => rw [bodyRun_ignore o p body n hi] at h; rw [bodyRun_ignore o p body n' hi]; exact h
  | false =>
    rw [bodyRun_strict o p body n hi] at h; rw [bodyRun_strict o p body n' hi]
    cases hf : firstBad o p body with
    | none => simpa [hf] using h
    | some i => simp [hf] at h

/-- the loop never fails with the flag; without it every failure is the `LASHeaderError` of an unparsable line -/
theorem itemsLoop_error (o : ReadOpts) (p : Parser) (last : Nat) (rest : List Str) (lineNo : Nat) (e : RErr)
    (h : itemsLoop o p last rest lineNo = .error e) :
    o.ignoreHeaderErrors = false ∧ ∃ i l, rest[i]? = some l ∧ lineRes o p l = .bad ∧ e = .headerError (lineNo + i + 2) := by
  induction rest generalizing lineNo with
  | nil => simp [itemsLoop] at h
  | cons b bs ih =>
    simp only [itemsLoop] at h
    cases hr : lineRes o p b with
    | title => simp [hr] at h
    | skip =>
      simp only [hr] at h
      split at h
      · simp at h
      · obtain ⟨h1, i, l, hl, hb, he⟩ := ih (lineNo + 1) h
        exact ⟨h1, i + 1, l, by simpa using hl, hb, by rw [he]; congr 1; omega⟩
    | bad =>
      simp only [hr] at h
      cases hi : o.ignoreHeaderErrors with
      | true =>
        simp only [hi, if_true] at h
        split at h
        · simp at h
        · obtain ⟨h1, _⟩ := ih (lineNo + 1) h
          rw [hi] at h1; cases h1
      | false =>
        simp [hi] at h
        exact ⟨rfl, 0, b, by simp, hr, by rw [← h]⟩
    | item it =>
      simp only [hr] at h
      split at h
      · simp at h
      · cases hrec : itemsLoop o p last bs (lineNo + 1) with
        | ok l => simp [hrec] at h
        | error e' =>
          simp [hrec] at h
          subst h
          obtain ⟨h1, i, l, hl, hb, he⟩ := ih (lineNo + 1) hrec
          exact ⟨h1, i + 1, l, by simpa using hl, hb, by rw [he]; congr 1; omega⟩

/-! ## the two stripping orders, titles -/

theorem dw_app {α} (p : α → Bool) (a : List α) (x : α) (r : List α) (hx : p x = false) :
    (a ++ x :: r).dropWhile p = a.dropWhile p ++ x :: r := by
  induction a with
  | nil => simp [List.dropWhile, hx]
  | cons c cs ih =>
    by_cases hc : p c = true
    · simp [List.dropWhile, hc, ih]
    · simp [List.dropWhile, hc]

/-- drop from the right -/
def rdrop {α} (p : α → Bool) (l : List α) : List α := (l.reverse.dropWhile p).reverse

theorem rdrop_app {α} (p : α → Bool) (a : List α) (x : α) (r : List α) (hx : p x = false) :
    rdrop p (a ++ x :: r) = a ++ x :: rdrop p r := by
  unfold rdrop
  rw [List.reverse_append, List.reverse_cons, List.append_assoc, List.singleton_append, dw_app p _ _ _ hx]
  simp

theorem dw_all {α} (p : α → Bool) (l : List α) (h : ∀ c ∈ l, p c = true) : l.dropWhile p = [] := by
  induction l with
  | nil => rfl
  | cons c cs ih =>
    have hc := h c List.mem_cons_self
    simp [List.dropWhile, hc]
    exact ih (fun x hx => h x (List.mem_cons_of_mem _ hx))

theorem dw_mem {α} (p : α → Bool) (l : List α) (c : α) (h : c ∈ l.dropWhile p) : c ∈ l :=
  (List.dropWhile_sublist p).subset h

theorem rdrop_mem {α} (p : α → Bool) (l : List α) (c : α) (h : c ∈ rdrop p l) : c ∈ l := by
  unfold rdrop at h
  have := dw_mem p l.reverse c (by simpa using h)
  simpa using this

/-- `dropWhile q` absorbs a previous `dropWhile p` when `p ⊆ q` -/
theorem dw_dw {α} (p q : α → Bool) (hpq : ∀ c, p c = true → q c = true) (l : List α) :
    (l.dropWhile p).dropWhile q = l.dropWhile q := by
  induction l with
  | nil => rfl
  | cons c cs ih =>
    by_cases hc : p c = true
    · simp [List.dropWhile, hc, hpq c hc, ih]
    · simp [List.dropWhile, hc]

/-- `dropWhile p` does nothing after `dropWhile q` when `p ⊆ q` -/
theorem dw_dw' {α} (p q : α → Bool) (hpq : ∀ c, p c = true → q c = true) (l : List α) :
    (l.dropWhile q).dropWhile p = l.dropWhile q := by
  induction l with
  | nil => rfl
  | cons c cs ih =>
    by_cases hc : q c = true
    · simp [List.dropWhile, hc, ih]
    · have : p c = false := by
        cases hp : p c with
        | false => rfl
        | true => exact absurd (hpq c hp) hc
      simp [List.dropWhile, hc, this]

theorem nl_space (c : Char) (h : (c == '\n') = true) : isPySpace c = true := by
  have : c = '\n' := by simpa using h
  subst this; decide

theorem takeWhile_dropWhile_cases (p : Char → Bool) (l : Str) :
    (∀ c ∈ l, p c = true) ∨ ∃ a x r, l = a ++ x :: r ∧ (∀ c ∈ a, p c = true) ∧ p x = false := by
  induction l with
  | nil => left; simp
  | cons c cs ih =>
    by_cases hc : p c = true
    · rcases ih with h | ⟨a, x, r, h1, h2, h3⟩
      · left; intro d hd; rcases List.mem_cons.mp hd with rfl | hd
        · exact hc
        · exact h d hd
      · right; refine ⟨c :: a, x, r, by simp [h1], ?_, h3⟩
        intro d hd; rcases List.mem_cons.mp hd with rfl | hd
        · exact hc
        · exact h2 d hd
    · right; exact ⟨[], c, cs, rfl, by simp, by simpa using hc⟩

theorem strip_eq_rdrop (l : Str) : strip l = rdrop isPySpace (l.dropWhile isPySpace) := rfl
theorem stripChar_eq (c : Char) (l : Str) : stripChar c l = rdrop (· == c) (l.dropWhile (· == c)) := rfl

theorem strip_allspace (l : Str) (h : ∀ c ∈ l, isPySpace c = true) : strip l = [] := by
  rw [strip_eq_rdrop, dw_all _ _ h]; rfl

theorem strip_split (a : Str) (x : Char) (r : Str) (ha : ∀ c ∈ a, isPySpace c = true) (hx : isPySpace x = false) :
    strip (a ++ x :: r) = x :: rdrop isPySpace r := by
  rw [strip_eq_rdrop, dw_app _ _ _ _ hx, dw_all _ _ ha, List.nil_append]
  exact rdrop_app isPySpace [] x r hx

theorem rdrop_rdrop (p q : Char → Bool) (hpq : ∀ c, p c = true → q c = true) (l : Str) :
    rdrop q (rdrop p l) = rdrop q l := by
  unfold rdrop; rw [List.reverse_reverse, dw_dw p q hpq]

theorem rdrop_rdrop' (p q : Char → Bool) (hpq : ∀ c, p c = true → q c = true) (l : Str) :
    rdrop p (rdrop q l) = rdrop q l := by
  unfold rdrop; rw [List.reverse_reverse, dw_dw' p q hpq]

/-- `line.strip().strip("\n")` and `line.strip("\n").strip()` are both `line.strip()` -/
theorem sline_eq_strip (l : Str) : sline l = strip l := by
  unfold sline
  rcases takeWhile_dropWhile_cases isPySpace l with h | ⟨a, x, r, rfl, ha, hx⟩
  · rw [strip_allspace l h]; rfl
  · rw [strip_split a x r ha hx, stripChar_eq]
    have hxn : (x == '\n') = false := by
      cases h : (x == '\n') with
      | false => rfl
      | true => rw [nl_space x h] at hx; cases hx
    have : (x :: rdrop isPySpace r).dropWhile (· == '\n') = x :: rdrop isPySpace r := by
      simp [List.dropWhile, hxn]
    rw [this]
    have := rdrop_app (· == '\n') [] x (rdrop isPySpace r) hxn
    simp only [List.nil_append] at this
    rw [this, rdrop_rdrop' _ _ nl_space]

theorem lineStrip_eq_strip (l : Str) : lineStrip l = strip l := by
  unfold lineStrip
  rcases takeWhile_dropWhile_cases isPySpace l with h | ⟨a, x, r, rfl, ha, hx⟩
  · rw [strip_allspace l h]
    apply strip_allspace
    intro c hc
    rw [stripChar_eq] at hc
    exact h c (dw_mem _ _ _ (rdrop_mem _ _ _ hc))
  · have hxn : (x == '\n') = false := by
      cases h : (x == '\n') with
      | false => rfl
      | true => rw [nl_space x h] at hx; cases hx
    rw [strip_split a x r ha hx, stripChar_eq, dw_app (· == '\n') a x r hxn, rdrop_app (· == '\n') _ x r hxn]
    rw [strip_split _ x _ (fun c hc => ha c (dw_mem _ _ _ hc)) hx, rdrop_rdrop _ _ nl_space]


theorem startsTilde_iff (s : Str) : startsTilde s = true ↔ ∃ t, s = '~' :: t := by
  unfold startsTilde
  split
  · simp
  · rename_i h; simp; intro t ht; exact h t ht

theorem isTitle_eq (l : Str) : isTitle l = startsTilde (strip l) := by
  unfold isTitle; rw [sline_eq_strip]

/-- the items loop stops at a line exactly when the title scan takes that line for a title -/
theorem lineRes_title_iff (o : ReadOpts) (p : Parser) (l : Str) : lineRes o p l = .title ↔ isTitle l = true := by
  rw [isTitle_eq]
  unfold lineRes
  simp only [lineStrip_eq_strip]
  constructor
  · intro h
    split at h
    · cases h
    · split at h
      · cases h
      · split at h
        · assumption
        · split at h <;> cases h
  · intro h
    obtain ⟨t, ht⟩ := (startsTilde_iff _).mp h
    simp [ht, startsTilde]

theorem no_title (o : ReadOpts) (p : Parser) (body : List Str) (hb : ∀ b ∈ body, isTitle b = false) :
    ∀ b ∈ body, lineRes o p b ≠ .title := by
  intro b hb' h
  have := (lineRes_title_iff o p b).mp h
  rw [hb b hb'] at this; cases this

/-- a line that starts with '~' (no indentation) is a title line -/
theorem isTitle_of_startsTilde (l : Str) (h : startsTilde l = true) : isTitle l = true := by
  obtain ⟨t, rfl⟩ := (startsTilde_iff _).mp h
  rw [isTitle_eq]
  have := strip_split [] '~' t (by simp) (by decide)
  simp only [List.nil_append] at this
  rw [this]; rfl

/-! ## the ~Other loop -/

theorem otherLoop_body (body rest : List Str) (first last : Nat)
    (hb : ∀ b ∈ body, isTitle b = false) (hne : body ≠ []) (hlast : last = first + body.length) :
    otherLoop last (body ++ rest) first = body.map lineStrip := by
  induction body generalizing first with
  | nil => exact absurd rfl hne
  | cons b bs ih =>
    have hbt : startsTilde (strip b) = false := by rw [← isTitle_eq]; exact hb b List.mem_cons_self
    have hb' : ∀ x ∈ bs, isTitle x = false := fun x hx => hb x (List.mem_cons_of_mem _ hx)
    simp only [List.cons_append, otherLoop, hbt, Bool.false_eq_true, if_false, List.map_cons]
    by_cases hbs : bs = []
    · subst hbs; simp [hlast]
    · have : 0 < bs.length := List.length_pos_iff.mpr hbs
      have hl : (first + 1 == last) = false := by simp [hlast]; omega
      simp only [hl, Bool.false_eq_true, if_false]
      rw [ih (first + 1) hb' hbs (by simp [hlast]; omega)]

/-- the ~Other loop, started at the title line, returns exactly the stripped body lines -/
theorem otherLoop_section (t : Str) (body rest : List Str) (first : Nat)
    (ht : isTitle t = true) (hb : ∀ b ∈ body, isTitle b = false) :
    otherLoop (first + body.length) (t :: body ++ rest) first = body.map lineStrip := by
  have ht' : startsTilde (strip t) = true := by rw [← isTitle_eq]; exact ht
  simp only [List.cons_append, otherLoop, ht', if_true]
  by_cases hbs : body = []
  · subst hbs; simp
  · have : 0 < body.length := List.length_pos_iff.mpr hbs
    have hl : (first == first + body.length) = false := by simp; omega
    simp only [hl, Bool.false_eq_true, if_false]
    exact otherLoop_body body rest first _ hb hbs rfl

/-! ## the title scan on a rendered document -/

/-- a document: lines before the first title, then sections (title line, body lines) -/
def flat : List (Str × List Str) → List Str
  | [] => []
  | (t, b) :: rest => t :: b ++ flat rest

def size : List (Str × List Str) → Nat
  | [] => 0
  | (_, b) :: rest => 1 + b.length + size rest

/-- titles are title lines, body lines are not -/
def WellFormed (secs : List (Str × List Str)) : Prop :=
  ∀ tb ∈ secs, isTitle tb.1 = true ∧ ∀ b ∈ tb.2, isTitle b = false

def docStarts : List (Str × List Str) → Nat → List (Nat × Str)
  | [], _ => []
  | (t, b) :: rest, n => (n, sline t) :: docStarts rest (n + 1 + b.length)

/-- (first line, last line, title) of every section of a document whose first title is line `n` -/
def docWindows : List (Str × List Str) → Nat → List (Nat × Nat × Str)
  | [], _ => []
  | (t, b) :: rest, n => (n, n + b.length, sline t) :: docWindows rest (n + 1 + b.length)

theorem flat_length (secs : List (Str × List Str)) : (flat secs).length = size secs := by
  induction secs with
  | nil => rfl
  | cons tb rest ih => obtain ⟨t, b⟩ := tb; simp [flat, size, ih]; omega

theorem titleStarts_nontitles (ns l : List Str) (n : Nat) (h : ∀ x ∈ ns, isTitle x = false) :
    titleStarts (ns ++ l) n = titleStarts l (n + ns.length) := by
  induction ns generalizing n with
  | nil => rfl
  | cons x xs ih =>
    have hx := h x List.mem_cons_self
    simp only [List.cons_append, titleStarts, hx, Bool.false_eq_true, if_false]
    rw [ih (n + 1) (fun y hy => h y (List.mem_cons_of_mem _ hy))]
    simp; congr 1; omega

theorem titleStarts_flat (secs : List (Str × List Str)) (n : Nat) (h : WellFormed secs) :
    titleStarts (flat secs) n = docStarts secs n := by
  induction secs generalizing n with
  | nil => rfl
  | cons tb rest ih =>
    obtain ⟨t, b⟩ := tb
    have ht := (h (t, b) List.mem_cons_self).1
    have hb := (h (t, b) List.mem_cons_self).2
    have hrest : WellFormed rest := fun x hx => h x (List.mem_cons_of_mem _ hx)
    simp only [flat, List.cons_append, titleStarts, ht, if_true, docStarts]
    rw [titleStarts_nontitles b (flat rest) (n + 1) hb, ih _ hrest]

theorem windows_docStarts (secs : List (Str × List Str)) (n : Nat) (hne : secs ≠ []) :
    windows (docStarts secs n) (n + size secs - 1) = docWindows secs n := by
  induction secs generalizing n with
  | nil => exact absurd rfl hne
  | cons tb rest ih =>
    obtain ⟨t, b⟩ := tb
    cases rest with
    | nil => simp [docStarts, windows, docWindows, size]; omega
    | cons tb2 rest2 =>
      obtain ⟨t2, b2⟩ := tb2
      have ih' := ih (n + 1 + b.length) (by simp)
      simp only [docStarts, windows, docWindows] at ih' ⊢
      have e : n + size ((t, b) :: (t2, b2) :: rest2) - 1 = n + 1 + b.length + size ((t2, b2) :: rest2) - 1 := by
        simp [size]; omega
      rw [e, ih']
      simp

/-- the windows found in a rendered document are exactly its sections -/
theorem findSections_render (pre : List Str) (secs : List (Str × List Str))
    (hpre : ∀ x ∈ pre, isTitle x = false) (h : WellFormed secs) :
    findSections (pre ++ flat secs) = docWindows secs pre.length := by
  unfold findSections
  rw [titleStarts_nontitles pre (flat secs) 0 hpre, titleStarts_flat secs _ h]
  cases secs with
  | nil => rfl
  | cons tb rest =>
    have := windows_docStarts (tb :: rest) (0 + pre.length) (by simp)
    simp only [Nat.zero_add] at this ⊢
    rw [← this]
    congr 1
    simp [flat_length]

/-! ## the SectionItems lookup behind the steering code -/

/-- canonical form compared by `mnemonic_compare` -/
def ck (tr : Bool) (a : Str) : Str := if tr then upper a else a

theorem mcmp_eq_ck (tr : Bool) (a b : Str) : mcmp tr a b = (ck tr a == ck tr b) := by
  cases tr <;> rfl

theorem mcmp_true_iff (tr : Bool) (a b : Str) : mcmp tr a b = true ↔ ck tr a = ck tr b := by
  rw [mcmp_eq_ck]; simp

theorem ck_colon (tr : Bool) (u d : Str) : ':' ∈ ck tr (u ++ ':' :: d) := by
  cases tr
  · simp [ck]
  · simp only [ck, if_true, upper, List.map_append, List.map_cons]
    have : upperC ':' = ':' := by decide
    rw [this]; simp

/-- the only unique item whose useful mnemonic matches, if there is exactly one -/
def uniq : List RItem → Option RItem
  | [it] => some it
  | _ => none

abbrev U (it : RItem) : Str := usefulMn it.orig

theorem lookup_go (tr : Bool) (key : Str) (hk : ':' ∉ ck tr key) (l : List RItem) (before : List Str) :
    (((sessionGo tr before (l.map U)).zip l).find? (fun p => mcmp tr p.1 key)).map (·.2) =
      if (before.filter (fun v => mcmp tr v key)).length = 0 then uniq (l.filter (fun it => mcmp tr (U it) key)) else none := by
  induction l generalizing before with
  | nil => simp [sessionGo, uniq]
  | cons it rest ih =>
    simp only [List.map_cons, sessionGo, List.zip_cons_cons, List.find?_cons]
    by_cases hP : mcmp tr (U it) key = true
    · -- items comparing equal to this one are exactly those comparing equal to the key
      have hsame : ∀ v, mcmp tr v (U it) = mcmp tr v key := by
        intro v; rw [mcmp_eq_ck, mcmp_eq_ck, (mcmp_true_iff _ _ _).mp hP]
      have hf1 : before.filter (fun v => mcmp tr v (U it)) = before.filter (fun v => mcmp tr v key) := by
        congr 1; funext v; exact hsame v
      have hf2 : (rest.map U).filter (fun v => mcmp tr v (U it)) = (rest.map U).filter (fun v => mcmp tr v key) := by
        congr 1; funext v; exact hsame v
      have hf3 : ((rest.map U).filter (fun v => mcmp tr v key)).length = (rest.filter (fun it => mcmp tr (U it) key)).length := by
        rw [List.filter_map, List.length_map]; rfl
      rw [hf1, hf2, hf3]
      have ih' := ih (before ++ [U it])
      simp only [List.filter_append, List.filter_cons, hP, if_true, List.filter_nil, List.length_append, List.length_cons,
        List.length_nil] at ih'
      rw [show (List.filter (fun it => mcmp tr (U it) key) (it :: rest)) = it :: rest.filter (fun it => mcmp tr (U it) key) by
        simp [hP]]
      generalize hcb : (before.filter (fun v => mcmp tr v key)).length = cb at *
      generalize hca : (rest.filter (fun it => mcmp tr (U it) key)) = ra at *
      by_cases h1 : cb + 1 + ra.length > 1
      · -- suffixed name: contains ':' and cannot match; the search goes on and finds nothing
        have hne : mcmp tr (U it ++ ':' :: natToStr (cb + 1)) key = false := by
          cases h : mcmp tr (U it ++ ':' :: natToStr (cb + 1)) key with
          | false => rfl
          | true =>
            have := (mcmp_true_iff _ _ _).mp h
            exact absurd (this ▸ ck_colon tr (U it) (natToStr (cb + 1))) hk
        simp only [h1, if_true, hne]
        rw [ih']
        have : ¬ (cb + (0 + 1) = 0) := by omega
        simp only [this, if_false]
        by_cases hc0 : cb = 0
        · subst hc0
          cases ra with
          | nil => simp at h1
          | cons a as => simp [uniq]
        · simp [hc0]
      · have hcb0 : cb = 0 := by omega
        have hra : ra = [] := by
          cases ra with
          | nil => rfl
          | cons a as => simp at h1; omega
        subst hcb0; subst hra
        simp [hP, uniq]
    · have hPf : mcmp tr (U it) key = false := by simpa using hP
      -- this item's session name never matches the key
      have hne : ∀ (n : Nat) (c : Bool), mcmp tr (if c then U it ++ ':' :: natToStr n else U it) key = false := by
        intro n c
        cases c
        · simpa using hPf
        · simp only [if_true]
          cases h : mcmp tr (U it ++ ':' :: natToStr n) key with
          | false => rfl
          | true =>
            have := (mcmp_true_iff _ _ _).mp h
            exact absurd (this ▸ ck_colon tr (U it) (natToStr n)) hk
      have := hne ((before.filter (fun v => mcmp tr v (U it))).length + 1)
        (decide ((before.filter (fun v => mcmp tr v (U it))).length + 1 + ((rest.map U).filter (fun v => mcmp tr v (U it))).length > 1))
      simp only [decide_eq_true_eq] at this
      simp only [this]
      rw [ih (before ++ [U it])]
      simp [List.filter_append, hPf]

/-- `key in section` / `section.key` finds an item exactly when one single item has that useful mnemonic -/
theorem lookupItem_eq (tr : Bool) (key : Str) (hk : ':' ∉ ck tr key) (items : List RItem) :
    lookupItem tr items key = uniq (items.filter (fun it => mcmp tr (U it) key)) := by
  unfold lookupItem sessionNames
  have := lookup_go tr key hk items []
  exact this


/-! ## steering -/

def steerKeys : List Str := ["VERS".toList, "WRAP".toList, "DLM".toList, "NULL".toList]

theorem steerKey_nocolon (tr : Bool) (k : Str) (hk : k ∈ steerKeys) : ':' ∉ ck tr k := by
  simp only [steerKeys, List.mem_cons, List.not_mem_nil, or_false] at hk
  rcases hk with rfl | rfl | rfl | rfl <;> cases tr <;> decide

/-- an item that matches no steering mnemonic is invisible to the steering lookups -/
theorem lookupItem_insert (tr : Bool) (k : Str) (hk : k ∈ steerKeys) (a b : List RItem) (x : RItem)
    (hx : mcmp tr (U x) k = false) : lookupItem tr (a ++ x :: b) k = lookupItem tr (a ++ b) k := by
  rw [lookupItem_eq tr k (steerKey_nocolon tr k hk), lookupItem_eq tr k (steerKey_nocolon tr k hk)]
  simp [List.filter_append, hx]

theorem steer_congr (o : ReadOpts) (title : Str) (i1 i2 : List RItem) (s : Steer)
    (h : ∀ k ∈ steerKeys, lookupItem (o.mnemonicCase != .preserve) i1 k = lookupItem (o.mnemonicCase != .preserve) i2 k) :
    steer o title i1 s = steer o title i2 s := by
  have h1 := h "VERS".toList (by simp [steerKeys])
  have h2 := h "WRAP".toList (by simp [steerKeys])
  have h3 := h "DLM".toList (by simp [steerKeys])
  have h4 := h "NULL".toList (by simp [steerKeys])
  unfold steer
  simp only [h1, h2, h3, h4]

/-- the parsed (case-mapped) name, upper-cased, is not a steering mnemonic ⇒ no steering lookup matches it -/
theorem not_steering (tr : Bool) (x : RItem) (hx : upper x.orig ∉ steerKeys) (k : Str) (hk : k ∈ steerKeys) :
    mcmp tr (U x) k = false := by
  have hup : upper k = k := by
    simp only [steerKeys, List.mem_cons, List.not_mem_nil, or_false] at hk
    rcases hk with rfl | rfl | rfl | rfl <;> decide
  unfold U usefulMn
  split
  · simp only [steerKeys, List.mem_cons, List.not_mem_nil, or_false] at hk
    rcases hk with rfl | rfl | rfl | rfl <;> cases tr <;> decide
  · cases h : mcmp tr x.orig k with
    | false => rfl
    | true =>
      have := (mcmp_true_iff _ _ _).mp h
      cases tr
      · simp only [ck] at this
        simp at this
        rw [this, hup] at hx; exact absurd hk hx
      · simp only [ck, if_true] at this
        rw [this, hup] at hx; exact absurd hk hx

/-! ## the insertion-ordered section map -/

theorem lookupSec_assign_same (k : RKey) (v : SecVal) (m : List (RKey × Option SecVal)) :
    lookupSec k (assign k v m) = some v := by
  induction m with
  | nil => simp [assign, lookupSec]
  | cons kv rest ih =>
    obtain ⟨k', v'⟩ := kv
    unfold assign
    by_cases h : (k' == k) = true
    · have : k' = k := by simpa using h
      subst this
      simp [lookupSec]
    · have hne : k' ≠ k := by simpa using h
      have : (k == k') = false := by simp; exact fun e => hne e.symm
      simp only [h, if_false, Bool.false_eq_true]
      simp only [lookupSec, List.lookup, this] at ih ⊢
      exact ih

theorem lookupSec_assign_other (k k2 : RKey) (v : SecVal) (m : List (RKey × Option SecVal)) (hne : k2 ≠ k) :
    lookupSec k2 (assign k v m) = lookupSec k2 m := by
  induction m with
  | nil =>
    have : (k2 == k) = false := by simpa using hne
    simp [assign, lookupSec, List.lookup, this]
  | cons kv rest ih =>
    obtain ⟨k', v'⟩ := kv
    unfold assign
    by_cases h : (k' == k) = true
    · have : k' = k := by simpa using h
      subst this
      have : (k2 == k') = false := by simpa using hne
      simp [lookupSec, List.lookup, this]
    · simp only [h, if_false, Bool.false_eq_true]
      by_cases h2 : (k2 == k') = true
      · simp [lookupSec, List.lookup, h2]
      · have h2' : (k2 == k') = false := by simpa using h2
        simp only [lookupSec, List.lookup, h2'] at ih ⊢
        exact ih

/-- storing a list of (key, value) pairs one after the other -/
def assignAll (kvs : List (RKey × SecVal)) (m : List (RKey × Option SecVal)) : List (RKey × Option SecVal) :=
  kvs.foldl (fun m kv => assign kv.1 kv.2 m) m

theorem lookupSec_assignAll_notin (kvs : List (RKey × SecVal)) (m : List (RKey × Option SecVal)) (k : RKey)
    (h : k ∉ kvs.map (·.1)) : lookupSec k (assignAll kvs m) = lookupSec k m := by
  induction kvs generalizing m with
  | nil => rfl
  | cons kv rest ih =>
    simp only [List.map_cons, List.mem_cons, not_or] at h
    simp only [assignAll, List.foldl_cons]
    have := ih (assign kv.1 kv.2 m) h.2
    simp only [assignAll] at this
    rw [this, lookupSec_assign_other _ _ _ _ h.1]

theorem lookupSec_assignAll_mem (kvs : List (RKey × SecVal)) (m : List (RKey × Option SecVal)) (k : RKey) (v : SecVal)
    (hnd : (kvs.map (·.1)).Nodup) (h : (k, v) ∈ kvs) : lookupSec k (assignAll kvs m) = some v := by
  induction kvs generalizing m with
  | nil => cases h
  | cons kv rest ih =>
    simp only [List.map_cons, List.nodup_cons] at hnd
    simp only [assignAll, List.foldl_cons]
    rcases List.mem_cons.mp h with rfl | h
    · have := lookupSec_assignAll_notin rest (assign k v m) k hnd.1
      simp only [assignAll] at this
      rw [this, lookupSec_assign_same]
    · have := ih (assign kv.1 kv.2 m) hnd.2 h
      simpa [assignAll] using this

/-- with pairwise distinct keys the order of the assignments does not matter for any lookup -/
theorem lookupSec_assignAll_perm (kvs1 kvs2 : List (RKey × SecVal)) (m : List (RKey × Option SecVal))
    (hp : kvs1.Perm kvs2) (hnd : (kvs1.map (·.1)).Nodup) (k : RKey) :
    lookupSec k (assignAll kvs1 m) = lookupSec k (assignAll kvs2 m) := by
  have hnd2 : (kvs2.map (·.1)).Nodup := (hp.map (·.1)).nodup_iff.mp hnd
  by_cases hk : k ∈ kvs1.map (·.1)
  · obtain ⟨kv, hkv, rfl⟩ := List.mem_map.mp hk
    rw [lookupSec_assignAll_mem kvs1 m kv.1 kv.2 hnd hkv,
      lookupSec_assignAll_mem kvs2 m kv.1 kv.2 hnd2 (hp.mem_iff.mp hkv)]
  · have hk2 : k ∉ kvs2.map (·.1) := fun h => hk ((hp.map (·.1)).mem_iff.mpr h)
    rw [lookupSec_assignAll_notin kvs1 m k hk, lookupSec_assignAll_notin kvs2 m k hk2]


/-! ## what the reader derives from a title -/

theorem contains_mem (p s : Str) (h : contains p s = true) : ∀ c ∈ p, c ∈ s := by
  induction s with
  | nil =>
    simp only [contains] at h
    intro c hc
    have : p = [] := by simpa using h
    subst this; cases hc
  | cons x xs ih =>
    simp only [contains, Bool.or_eq_true] at h
    intro c hc
    rcases h with h | h
    · exact (List.isPrefixOf_iff_prefix.mp h).subset hc
    · exact List.mem_cons_of_mem _ (ih h c hc)

theorem not_contains_of_underscore (p s : Str) (hp : '_' ∈ p) (hs : '_' ∉ s) : contains p s = false := by
  cases h : contains p s with
  | false => rfl
  | true => exact absurd (contains_mem p s h '_' hp) hs

theorem pair_beq (x y : Char) : (['~', x] == ['~', y]) = (x == y) := by
  simp

theorem sectionType_letter (c : Char) (r : Str) (hs : sline ('~' :: c :: r) = '~' :: c :: r)
    (hu : '_' ∉ '~' :: c :: r) :
    sectionType ('~' :: c :: r) =
      if upperC c == 'A' then .data else if upperC c == 'O' then .other else .items := by
  have h1 : contains "~Log_Data".toList ('~' :: c :: r) = false := not_contains_of_underscore _ _ (by decide) hu
  have h2 : contains "_Data".toList ('~' :: c :: r) = false := not_contains_of_underscore _ _ (by decide) hu
  have ht : upperC '~' = '~' := by decide
  unfold sectionType
  simp only [hs, h1, h2, Bool.or_false, List.take, upper, List.map, ht]
  rw [show "~A".toList = ['~', 'A'] from rfl, show "~O".toList = ['~', 'O'] from rfl, pair_beq, pair_beq]
  simp
theorem single_beq (x y : Char) : ([x] == [y]) = (x == y) := by simp

theorem underscore_upper (t : Str) (h : '_' ∉ upper t) : '_' ∉ t := by
  intro hm
  apply h
  have : upperC '_' = '_' := by decide
  rw [← this]
  exact List.mem_map_of_mem hm

theorem isLas3Like_false (t : Str) (h : '_' ∉ upper t) : isLas3Like t = false := by
  unfold isLas3Like las3Indicators
  simp only [List.any_cons, List.any_nil, Bool.or_false]
  rw [not_contains_of_underscore _ _ (by decide) h, not_contains_of_underscore _ _ (by decide) h,
    not_contains_of_underscore _ _ (by decide) h]
  rfl

theorem routeKey_letter (c : Char) (r : Str) (ver : VerVal) (hu : '_' ∉ upper ('~' :: c :: r)) :
    routeKey ('~' :: c :: r) ver =
      if upperC c == 'C' then .ok kCurves else if upperC c == 'P' then .ok kParameter
      else if upperC c == 'V' then .ok kVersion else if upperC c == 'W' then .ok kWell else .ok (c :: r) := by
  have hut := underscore_upper _ hu
  have h3 : contains "~Log_Definition".toList ('~' :: c :: r) = false := not_contains_of_underscore _ _ (by decide) hut
  have h4 : contains "~Log_Parameter".toList ('~' :: c :: r) = false := not_contains_of_underscore _ _ (by decide) hut
  have hl3 : isLas3Like (c :: r) = false := by
    apply isLas3Like_false
    intro h; apply hu
    simp only [upper, List.map_cons, List.mem_cons] at h ⊢
    right; exact h
  have hnu : ('~' :: c :: r).contains '_' = false := by
    cases h : ('~' :: c :: r).contains '_' with
    | false => rfl
    | true => exact absurd (by simpa using h) hut
  unfold routeKey
  simp only [titleLetter, List.drop, List.take, upper, List.map, h3, h4, hl3, hnu, Bool.false_and, Bool.or_false,
    Bool.not_false, Bool.and_true, single_beq]
  simp

def letterParser (x : Char) : PKind × SecName :=
  if x == 'C' then (.curves, .curves) else if x == 'P' then (.params, .parameter)
  else if x == 'W' then (.metadata, .well) else if x == 'V' then (.metadata, .version) else (.metadata, .other)

theorem mkParser_letter (c : Char) (r : Str) (v : Str) (hu : '_' ∉ upper ('~' :: c :: r)) :
    ∃ d os, mkParser ('~' :: c :: r) (.known v) = .ok ⟨(letterParser (upperC c)).1, (letterParser (upperC c)).2, d, os⟩ := by
  have hl3 : isLas3Like ('~' :: c :: r) = false := isLas3Like_false _ hu
  have ht : upperC '~' = '~' := by decide
  have e : ∀ y : Char, startsWith ['~', y] (upper ('~' :: c :: r)) = (upperC c == y) := by
    intro y
    simp only [startsWith, upper, List.map_cons, List.isPrefixOf, ht]
    rw [show ('~' == '~') = true by decide, Bool.true_and, Bool.and_true]
    exact Bool.beq_comm
  unfold mkParser letterParser
  simp only [hl3, Bool.and_false, show "~C".toList = ['~', 'C'] from rfl, show "~P".toList = ['~', 'P'] from rfl,
    show "~W".toList = ['~', 'W'] from rfl, show "~V".toList = ['~', 'V'] from rfl, e]
  by_cases hC : upperC c = 'C'
  · simp only [hC]; split <;> exact ⟨_, _, rfl⟩
  · by_cases hP : upperC c = 'P'
    · simp only [hP]; split <;> exact ⟨_, _, rfl⟩
    · by_cases hW : upperC c = 'W'
      · simp only [hW]; split <;> exact ⟨_, _, rfl⟩
      · by_cases hV : upperC c = 'V'
        · simp only [hV]; split <;> exact ⟨_, _, rfl⟩
        · simp [hC, hP, hW, hV]

/-! ## reading a rendered document section by section -/

theorem strip_idem (l : Str) : strip (strip l) = strip l := by
  rcases takeWhile_dropWhile_cases isPySpace l with h | ⟨a, x, r, rfl, ha, hx⟩
  · rw [strip_allspace l h]; rfl
  · rw [strip_split a x r ha hx]
    have := strip_split [] x (rdrop isPySpace r) (by simp) hx
    simp only [List.nil_append] at this
    rw [this, rdrop_rdrop' isPySpace isPySpace (fun _ h => h)]

theorem sline_idem (l : Str) : sline (sline l) = sline l := by
  rw [sline_eq_strip, sline_eq_strip, strip_idem]

/-- one section of a document, read without reference to the file: (title line, body lines) at line `n` -/
def docSection (o : ReadOpts) (n : Nat) (tb : Str × List Str) (st : RState) : Except RErr RState :=
  match sectionType (sline tb.1) with
  | .items =>
    match mkParser (lineStrip tb.1) (classifyVer st.steer.vers) with
    | .error e => .error e
    | .ok p =>
      match bodyRun o p tb.2 n with
      | .error e => .error e
      | .ok items => finishItems o (sline tb.1) items st
  | .other => .ok (finishOther (sline tb.1) (joinWith ['\n'] (tb.2.map lineStrip)) st)
  | .data => .ok { st with data := st.data ++ [(n, n + tb.2.length, sline tb.1)] }
  | .las3data => .ok { st with las3 := st.las3 ++ [(n, n + tb.2.length, sline tb.1)] }

def docSections (o : ReadOpts) : List (Str × List Str) → Nat → RState → Except RErr RState
  | [], _, st => .ok st
  | tb :: rest, n, st =>
    match docSection o n tb st with
    | .error e => .error e
    | .ok st' => docSections o rest (n + 1 + tb.2.length) st'

theorem flat_head_title (o : ReadOpts) (p : Parser) (rest : List (Str × List Str)) (h : WellFormed rest) :
    flat rest = [] ∨ ∃ t r, flat rest = t :: r ∧ lineRes o p t = .title := by
  cases rest with
  | nil => left; rfl
  | cons tb rest' =>
    right
    obtain ⟨t, b⟩ := tb
    exact ⟨t, b ++ flat rest', rfl, (lineRes_title_iff o p t).mpr (h (t, b) List.mem_cons_self).1⟩

theorem processSection_doc (o : ReadOpts) (lines : List Str) (n : Nat) (tb : Str × List Str)
    (rest : List (Str × List Str)) (st : RState)
    (hl : lines.drop n = tb.1 :: tb.2 ++ flat rest) (hw : WellFormed (tb :: rest)) :
    processSection o lines (n, n + tb.2.length, sline tb.1) st = docSection o n tb st := by
  obtain ⟨t, b⟩ := tb
  have hb : ∀ x ∈ b, isTitle x = false := (hw (t, b) List.mem_cons_self).2
  have hrest : WellFormed rest := fun x hx => hw x (List.mem_cons_of_mem _ hx)
  unfold processSection docSection
  simp only [hl, List.cons_append]
  cases hk : sectionType (sline t) with
  | items =>
    simp only [parseItemsSection]
    cases hp : mkParser (lineStrip t) (classifyVer st.steer.vers) with
    | error e => rfl
    | ok p =>
      simp only
      by_cases hbe : b = []
      · subst hbe
        simp only [List.nil_append, List.length_nil, Nat.add_zero, bodyRun]
        rw [itemsLoop_empty o p (flat rest) n (flat_head_title o p rest hrest)]
      · rw [itemsLoop_body o p b (flat rest) n _ (no_title o p b hb) hbe rfl]
        cases bodyRun o p b n <;> rfl
  | other =>
    simp only [readOther]
    have := otherLoop_section t b (flat rest) n (hw (t, b) List.mem_cons_self).1 hb
    simp only [List.cons_append] at this
    rw [this]
  | data => rfl
  | las3data => rfl

theorem processSections_doc (o : ReadOpts) (lines : List Str) (secs : List (Str × List Str)) (n : Nat) (st : RState)
    (hl : lines.drop n = flat secs) (hw : WellFormed secs) :
    processSections o lines (docWindows secs n) st = docSections o secs n st := by
  induction secs generalizing n st with
  | nil => rfl
  | cons tb rest ih =>
    obtain ⟨t, b⟩ := tb
    simp only [docWindows, processSections, docSections]
    have hl' : lines.drop n = (t, b).1 :: (t, b).2 ++ flat rest := by simpa [flat] using hl
    rw [processSection_doc o lines n (t, b) rest st hl' hw]
    cases docSection o n (t, b) st with
    | error e => rfl
    | ok st' =>
      simp only
      apply ih
      · have : lines.drop (n + (1 + b.length)) = (lines.drop n).drop (1 + b.length) := by rw [List.drop_drop]
        rw [show n + 1 + b.length = n + (1 + b.length) by omega, this, hl]
        simp [flat, Nat.add_comm 1 b.length]
      · exact fun x hx => hw x (List.mem_cons_of_mem _ hx)


/-! ## the effect of a section that is not a ~V section -/

/-- what a section does to the state: an assignment in `las.sections`, possibly a new NULL (a ~W section),
possibly the `curvesPlain` flag (when it is stored under "Curves") -/
structure Eff where
  kv : Option (RKey × SecVal)
  null : Option Str
  plain : Option Bool

def applyEff (e : Eff) (st : RState) : RState :=
  { st with steer := { st.steer with null := orKeep e.null st.steer.null },
            sections := match e.kv with | some kv => assign kv.1 kv.2 st.sections | none => st.sections,
            curvesPlain := e.plain.getD st.curvesPlain }

/-- the part of the state the header dump is made of (everything but the data windows) -/
def core (st : RState) : Steer × List (RKey × Option SecVal) × Bool := (st.steer, st.sections, st.curvesPlain)

/-- the effect of a section, computed from the section alone and the provisional version `ver` -/
def secEffect (o : ReadOpts) (ver : VerVal) (tb : Str × List Str) : Except RErr Eff :=
  match sectionType (sline tb.1) with
  | .items =>
    match mkParser (lineStrip tb.1) ver with
    | .error e => .error e
    | .ok p =>
      match bodyRun o p tb.2 0 with
      | .error e => .error e
      | .ok items =>
        if (sline tb.1).length < 2 then .error .indexError
        else match routeKey (sline tb.1) ver with
          | .error e => .error e
          | .ok k => .ok ⟨some (k, .items items),
              if titleLetter (sline tb.1) == ['W'] then
                (lookupItem (o.mnemonicCase != .preserve) items "NULL".toList).map (·.value) else none,
              if k == kCurves then some (!isCurvesParser (sline tb.1) ver && !items.isEmpty) else none⟩
  | .other => .ok ⟨some (routeKeyOther (sline tb.1), .text (joinWith ['\n'] (tb.2.map lineStrip))), none, none⟩
  | _ => .ok ⟨none, none, none⟩

/-- is this a header-items section whose title letter is V (the only kind that can change the version)? -/
def isV (tb : Str × List Str) : Bool :=
  sectionType (sline tb.1) == .items && titleLetter (sline tb.1) == ['V']

def isW (tb : Str × List Str) : Bool :=
  sectionType (sline tb.1) == .items && titleLetter (sline tb.1) == ['W']

theorem steer_nonV (o : ReadOpts) (title : Str) (items : List RItem) (s : Steer) (h : (titleLetter title == ['V']) = false) :
    steer o title items s =
      { s with null := orKeep (if titleLetter title == ['W'] then
          (lookupItem (o.mnemonicCase != .preserve) items "NULL".toList).map (·.value) else none) s.null } := by
  unfold steer
  simp only [h, Bool.false_eq_true, if_false]
  split <;> simp [orKeep]

theorem docSection_of_effect (o : ReadOpts) (n : Nat) (tb : Str × List Str) (st : RState) (e : Eff)
    (hv : isV tb = false) (he : secEffect o (classifyVer st.steer.vers) tb = .ok e) :
    ∃ s', docSection o n tb st = .ok s' ∧ core s' = core (applyEff e st) := by
  unfold secEffect at he
  unfold docSection
  cases hk : sectionType (sline tb.1) with
  | items =>
    have hV : (titleLetter (sline tb.1) == ['V']) = false := by simpa [isV, hk] using hv
    simp only [hk] at he ⊢
    cases hp : mkParser (lineStrip tb.1) (classifyVer st.steer.vers) with
    | error e' => simp [hp] at he
    | ok p =>
      simp only [hp] at he ⊢
      cases hb : bodyRun o p tb.2 0 with
      | error e' => simp [hb] at he
      | ok items =>
        simp only [hb] at he
        rw [bodyRun_ok_indep o p tb.2 0 n items hb]
        simp only [finishItems, steer_nonV o _ items st.steer hV]
        split at he
        · cases he
        · rename_i hlen
          simp only [hlen, if_false]
          cases hr : routeKey (sline tb.1) (classifyVer st.steer.vers) with
          | error e' => simp [hr] at he
          | ok k =>
            simp only [hr] at he ⊢
            cases he
            exact ⟨_, rfl, by simp [core, applyEff]; split <;> rfl⟩
  | other =>
    simp only [hk] at he ⊢
    cases he
    exact ⟨_, rfl, by simp [core, applyEff, finishOther, orKeep]⟩
  | data =>
    simp only [hk] at he ⊢
    cases he
    exact ⟨_, rfl, by simp [core, applyEff, orKeep]⟩
  | las3data =>
    simp only [hk] at he ⊢
    cases he
    exact ⟨_, rfl, by simp [core, applyEff, orKeep]⟩

theorem effect_of_docSection (o : ReadOpts) (n : Nat) (tb : Str × List Str) (st s' : RState)
    (hv : isV tb = false) (h : docSection o n tb st = .ok s') :
    ∃ e, secEffect o (classifyVer st.steer.vers) tb = .ok e := by
  unfold docSection at h
  unfold secEffect
  cases hk : sectionType (sline tb.1) with
  | items =>
    have hV : (titleLetter (sline tb.1) == ['V']) = false := by simpa [isV, hk] using hv
    simp only [hk] at h ⊢
    cases hp : mkParser (lineStrip tb.1) (classifyVer st.steer.vers) with
    | error e' => simp [hp] at h
    | ok p =>
      simp only [hp] at h ⊢
      cases hb : bodyRun o p tb.2 n with
      | error e' => simp [hb] at h
      | ok items =>
        simp only [hb] at h
        rw [bodyRun_ok_indep o p tb.2 n 0 items hb]
        simp only [finishItems, steer_nonV o _ items st.steer hV] at h
        split at h
        · cases h
        · rename_i hlen
          simp only [hlen, if_false]
          cases hr : routeKey (sline tb.1) (classifyVer st.steer.vers) with
          | error e' => simp [hr] at h
          | ok k => exact ⟨_, rfl⟩
  | other => exact ⟨_, rfl⟩
  | data => exact ⟨_, rfl⟩
  | las3data => exact ⟨_, rfl⟩

def applyAll (effs : List Eff) (st : RState) : RState := effs.foldl (fun s e => applyEff e s) st

/-- total version of `secEffect` -/
def effOf (o : ReadOpts) (ver : VerVal) (tb : Str × List Str) : Eff :=
  match secEffect o ver tb with
  | .ok e => e
  | .error _ => ⟨none, none, none⟩

theorem applyEff_core_congr (e : Eff) (s s' : RState) (h : core s = core s') :
    core (applyEff e s) = core (applyEff e s') := by
  simp only [core, Prod.mk.injEq] at h
  obtain ⟨h1, h2, h3⟩ := h
  simp [core, applyEff, h1, h2, h3]

theorem applyAll_core_congr (effs : List Eff) (s s' : RState) (h : core s = core s') :
    core (applyAll effs s) = core (applyAll effs s') := by
  induction effs generalizing s s' with
  | nil => exact h
  | cons e es ih => exact ih _ _ (applyEff_core_congr e s s' h)

theorem applyEff_vers (e : Eff) (s : RState) : (applyEff e s).steer.vers = s.steer.vers := rfl

/-- sections that are not ~V sections: if every one of them has an effect, the whole list is read successfully and
the result is the effects applied in order -/
theorem docSections_of_effects (o : ReadOpts) (secs : List (Str × List Str)) (n : Nat) (st : RState) (ver : VerVal)
    (hver : classifyVer st.steer.vers = ver) (hV : ∀ tb ∈ secs, isV tb = false)
    (hE : ∀ tb ∈ secs, ∃ e, secEffect o ver tb = .ok e) :
    ∃ r, docSections o secs n st = .ok r ∧ core r = core (applyAll (secs.map (effOf o ver)) st) := by
  induction secs generalizing n st with
  | nil => exact ⟨st, rfl, rfl⟩
  | cons tb rest ih =>
    obtain ⟨e, he⟩ := hE tb List.mem_cons_self
    obtain ⟨s', hs', hc⟩ := docSection_of_effect o n tb st e (hV tb List.mem_cons_self) (hver ▸ he)
    have hver' : classifyVer s'.steer.vers = ver := by
      have : s'.steer = (applyEff e st).steer := by
        have := congrArg (·.1) hc; simpa [core] using this
      rw [this, applyEff_vers, hver]
    obtain ⟨r, hr, hcr⟩ := ih (n + 1 + tb.2.length) s' hver' (fun x hx => hV x (List.mem_cons_of_mem _ hx))
      (fun x hx => hE x (List.mem_cons_of_mem _ hx))
    refine ⟨r, by simp [docSections, hs', hr], ?_⟩
    rw [hcr]
    have : effOf o ver tb = e := by simp [effOf, he]
    simp only [List.map_cons, applyAll, List.foldl_cons, this]
    exact applyAll_core_congr _ _ _ hc

theorem effects_of_docSections (o : ReadOpts) (secs : List (Str × List Str)) (n : Nat) (st r : RState) (ver : VerVal)
    (hver : classifyVer st.steer.vers = ver) (hV : ∀ tb ∈ secs, isV tb = false)
    (h : docSections o secs n st = .ok r) : ∀ tb ∈ secs, ∃ e, secEffect o ver tb = .ok e := by
  induction secs generalizing n st with
  | nil => intro tb htb; cases htb
  | cons tb rest ih =>
    simp only [docSections] at h
    cases hd : docSection o n tb st with
    | error e => simp [hd] at h
    | ok s' =>
      simp only [hd] at h
      obtain ⟨e, he⟩ := effect_of_docSection o n tb st s' (hV tb List.mem_cons_self) hd
      rw [hver] at he
      obtain ⟨s'', hs'', hc⟩ := docSection_of_effect o n tb st e (hV tb List.mem_cons_self) (hver ▸ he)
      rw [hd] at hs''; cases hs''
      have hver' : classifyVer s'.steer.vers = ver := by
        have : s'.steer = (applyEff e st).steer := by
          have := congrArg (·.1) hc; simpa [core] using this
        rw [this, applyEff_vers, hver]
      intro x hx
      rcases List.mem_cons.mp hx with rfl | hx
      · exact ⟨e, he⟩
      · exact ih (n + 1 + tb.2.length) s' hver' (fun y hy => hV y (List.mem_cons_of_mem _ hy)) h x hx

/-! the three components of a state after a list of effects -/

theorem applyAll_steer (effs : List Eff) (st : RState) :
    (applyAll effs st).steer = { st.steer with null := effs.foldl (fun old e => orKeep e.null old) st.steer.null } := by
  induction effs generalizing st with
  | nil => rfl
  | cons e es ih => simp only [applyAll, List.foldl_cons] at ih ⊢; rw [ih]; rfl

theorem applyAll_sections (effs : List Eff) (st : RState) :
    (applyAll effs st).sections = assignAll (effs.filterMap (·.kv)) st.sections := by
  induction effs generalizing st with
  | nil => rfl
  | cons e es ih =>
    simp only [applyAll, List.foldl_cons] at ih ⊢
    rw [ih]
    cases hkv : e.kv with
    | none => simp [applyEff, hkv]
    | some kv => simp [applyEff, hkv, assignAll]

theorem applyAll_plain (effs : List Eff) (st : RState) :
    (applyAll effs st).curvesPlain = effs.foldl (fun b e => e.plain.getD b) st.curvesPlain := by
  induction effs generalizing st with
  | nil => rfl
  | cons e es ih => simp only [applyAll, List.foldl_cons] at ih ⊢; rw [ih]; rfl



/-- the key of `las.sections` a section is stored under (`none`: data sections, or routing fails) -/
def secKey (ver : VerVal) (tb : Str × List Str) : Option RKey :=
  match sectionType (sline tb.1) with
  | .items => if (sline tb.1).length < 2 then none else (routeKey (sline tb.1) ver).toOption
  | .other => some (routeKeyOther (sline tb.1))
  | _ => none

theorem effect_facts (o : ReadOpts) (ver : VerVal) (tb : Str × List Str) (e : Eff) (h : secEffect o ver tb = .ok e) :
    e.kv.map (·.1) = secKey ver tb ∧ (isW tb = false → e.null = none) ∧
      (e.plain ≠ none → secKey ver tb = some kCurves) := by
  unfold secEffect at h
  unfold secKey isW
  cases hk : sectionType (sline tb.1) with
  | items =>
    simp only [hk] at h ⊢
    cases hp : mkParser (lineStrip tb.1) ver with
    | error e' => simp [hp] at h
    | ok p =>
      simp only [hp] at h
      cases hb : bodyRun o p tb.2 0 with
      | error e' => simp [hb] at h
      | ok items =>
        simp only [hb] at h
        split at h
        · cases h
        · rename_i hlen
          simp only [hlen, if_false]
          cases hr : routeKey (sline tb.1) ver with
          | error e' => simp [hr] at h
          | ok k =>
            simp only [hr] at h
            cases h
            refine ⟨rfl, ?_, ?_⟩
            · intro hw; simp at hw; simp [hw]
            · intro hpl
              by_cases hkc : (k == kCurves) = true
              · have : k = kCurves := by simpa using hkc
                subst this; rfl
              · simp [hkc] at hpl
  | other => simp only [hk] at h ⊢; cases h; exact ⟨rfl, fun _ => rfl, fun h => absurd rfl h⟩
  | data => simp only [hk] at h ⊢; cases h; exact ⟨rfl, fun _ => rfl, fun h => absurd rfl h⟩
  | las3data => simp only [hk] at h ⊢; cases h; exact ⟨rfl, fun _ => rfl, fun h => absurd rfl h⟩

theorem filterMap_nodup_inj {α β} (g : α → Option β) (l : List α) (hnd : (l.filterMap g).Nodup)
    (x y : α) (hx : x ∈ l) (hy : y ∈ l) (k : β) (gx : g x = some k) (gy : g y = some k) : x = y := by
  induction l with
  | nil => cases hx
  | cons a l ih =>
    have tail_nd : (l.filterMap g).Nodup := by
      cases ha : g a with
      | none => simpa [List.filterMap_cons, ha] using hnd
      | some b => simp only [List.filterMap_cons, ha, List.nodup_cons] at hnd; exact hnd.2
    have clash : ∀ z ∈ l, g z = some k → g a = some k → False := by
      intro z hz gz ga
      simp only [List.filterMap_cons, ga, List.nodup_cons] at hnd
      exact hnd.1 (List.mem_filterMap.mpr ⟨z, hz, gz⟩)
    rcases List.mem_cons.mp hx with hxa | hx
    · rcases List.mem_cons.mp hy with hya | hy
      · rw [hxa, hya]
      · exact absurd (clash y hy gy (hxa ▸ gx)) id
    · rcases List.mem_cons.mp hy with hya | hy
      · exact absurd (clash x hx gx (hya ▸ gy)) id
      · exact ih tail_nd hx hy

theorem filterMap_congr' {α β} (f g : α → Option β) (l : List α) (h : ∀ x ∈ l, f x = g x) :
    l.filterMap f = l.filterMap g := by
  induction l with
  | nil => rfl
  | cons a l ih =>
    simp only [List.filterMap_cons, h a List.mem_cons_self]
    rw [ih (fun x hx => h x (List.mem_cons_of_mem _ hx))]

theorem null_comm (x y : Eff) (z : Option Str) (h : x.null = none ∨ y.null = none ∨ x = y) :
    orKeep y.null (orKeep x.null z) = orKeep x.null (orKeep y.null z) := by
  rcases h with h | h | h
  · rw [h]; rfl
  · rw [h]; rfl
  · rw [h]

theorem plain_comm (x y : Eff) (z : Bool) (h : x.plain = none ∨ y.plain = none ∨ x = y) :
    y.plain.getD (x.plain.getD z) = x.plain.getD (y.plain.getD z) := by
  rcases h with h | h | h
  · rw [h]; rfl
  · rw [h]; rfl
  · rw [h]

/-- PERMUTATION. Sections none of which is a ~V section, with pairwise distinct routing keys and at most one ~W section:
read in any order from the same state they succeed alike, and give the same steering values, the same `curvesPlain`
flag and the same content under every key of `las.sections`. -/
theorem docSections_perm (o : ReadOpts) (secs₁ secs₂ : List (Str × List Str)) (n₁ n₂ : Nat) (st r₁ : RState)
    (hp : secs₁.Perm secs₂) (hV : ∀ tb ∈ secs₁, isV tb = false)
    (hW : ∀ x ∈ secs₁, ∀ y ∈ secs₁, isW x = true → isW y = true → x = y)
    (hK : (secs₁.filterMap (secKey (classifyVer st.steer.vers))).Nodup)
    (h₁ : docSections o secs₁ n₁ st = .ok r₁) :
    ∃ r₂, docSections o secs₂ n₂ st = .ok r₂ ∧ r₂.steer = r₁.steer ∧ r₂.curvesPlain = r₁.curvesPlain ∧
      ∀ k, lookupSec k r₂.sections = lookupSec k r₁.sections := by
  generalize hver : classifyVer st.steer.vers = ver at hK
  have hE₁ := effects_of_docSections o secs₁ n₁ st r₁ ver hver hV h₁
  have hE₂ : ∀ tb ∈ secs₂, ∃ e, secEffect o ver tb = .ok e := fun tb h => hE₁ tb (hp.mem_iff.mpr h)
  have hV₂ : ∀ tb ∈ secs₂, isV tb = false := fun tb h => hV tb (hp.mem_iff.mpr h)
  obtain ⟨r₁', hr₁', hc₁⟩ := docSections_of_effects o secs₁ n₁ st ver hver hV hE₁
  rw [h₁] at hr₁'; cases hr₁'
  obtain ⟨r₂, hr₂, hc₂⟩ := docSections_of_effects o secs₂ n₂ st ver hver hV₂ hE₂
  refine ⟨r₂, hr₂, ?_⟩
  simp only [core, Prod.mk.injEq] at hc₁ hc₂
  obtain ⟨a₁, b₁, c₁⟩ := hc₁
  obtain ⟨a₂, b₂, c₂⟩ := hc₂
  have hpe : (secs₁.map (effOf o ver)).Perm (secs₂.map (effOf o ver)) := hp.map _
  -- facts about the effect of a member of secs₁
  have hfacts : ∀ tb ∈ secs₁, (effOf o ver tb).kv.map (·.1) = secKey ver tb ∧
      (isW tb = false → (effOf o ver tb).null = none) ∧ ((effOf o ver tb).plain ≠ none → secKey ver tb = some kCurves) := by
    intro tb htb
    obtain ⟨e, he⟩ := hE₁ tb htb
    have : effOf o ver tb = e := by simp [effOf, he]
    rw [this]; exact effect_facts o ver tb e he
  have hnull : ∀ z : Option Str, (secs₂.map (effOf o ver)).foldl (fun old e => orKeep e.null old) z =
      (secs₁.map (effOf o ver)).foldl (fun old e => orKeep e.null old) z := by
    intro z
    apply (List.Perm.foldl_eq' hpe ?_ z).symm
    intro x hx y hy z
    apply null_comm
    obtain ⟨sx, hsx, hex⟩ := List.mem_map.mp hx
    obtain ⟨sy, hsy, hey⟩ := List.mem_map.mp hy
    by_cases wx : isW sx = true
    · by_cases wy : isW sy = true
      · right; right; rw [← hex, ← hey, hW sx hsx sy hsy wx wy]
      · right; left; rw [← hey]; exact (hfacts sy hsy).2.1 (by simpa using wy)
    · left; rw [← hex]; exact (hfacts sx hsx).2.1 (by simpa using wx)
  have hplain : ∀ z : Bool, (secs₂.map (effOf o ver)).foldl (fun b e => e.plain.getD b) z =
      (secs₁.map (effOf o ver)).foldl (fun b e => e.plain.getD b) z := by
    intro z
    apply (List.Perm.foldl_eq' hpe ?_ z).symm
    intro x hx y hy z
    apply plain_comm
    obtain ⟨sx, hsx, hex⟩ := List.mem_map.mp hx
    obtain ⟨sy, hsy, hey⟩ := List.mem_map.mp hy
    by_cases px : x.plain = none
    · left; exact px
    · by_cases py : y.plain = none
      · right; left; exact py
      · right; right
        have := filterMap_nodup_inj (secKey ver) secs₁ hK sx sy hsx hsy kCurves
          ((hfacts sx hsx).2.2 (hex ▸ px)) ((hfacts sy hsy).2.2 (hey ▸ py))
        rw [← hex, ← hey, this]
  refine ⟨?_, ?_, ?_⟩
  · rw [a₂, a₁, applyAll_steer, applyAll_steer, hnull]
  · rw [c₂, c₁, applyAll_plain, applyAll_plain, hplain]
  · intro k
    rw [b₂, b₁, applyAll_sections, applyAll_sections]
    apply (lookupSec_assignAll_perm _ _ _ (hpe.filterMap _) ?_ k).symm
    have : ((secs₁.map (effOf o ver)).filterMap (·.kv)).map (·.1) = secs₁.filterMap (secKey ver) := by
      rw [List.filterMap_map, List.map_filterMap]
      apply filterMap_congr'
      intro tb htb
      exact (hfacts tb htb).1
    rw [this]; exact hK


/-! ## steering comes from ~V and ~W only -/

/-- what a section does to the steering values depends only on the steering values before it -/
theorem docSection_steer_congr (o : ReadOpts) (n n₂ : Nat) (tb : Str × List Str) (st st₂ s : RState)
    (hs : st.steer = st₂.steer) (h : docSection o n tb st = .ok s) :
    ∃ s₂, docSection o n₂ tb st₂ = .ok s₂ ∧ s₂.steer = s.steer := by
  unfold docSection at h ⊢
  cases hk : sectionType (sline tb.1) with
  | items =>
    simp only [hk] at h ⊢
    rw [← hs]
    cases hp : mkParser (lineStrip tb.1) (classifyVer st.steer.vers) with
    | error e' => simp [hp] at h
    | ok p =>
      simp only [hp] at h ⊢
      cases hb : bodyRun o p tb.2 n with
      | error e' => simp [hb] at h
      | ok items =>
        simp only [hb] at h
        rw [bodyRun_ok_indep o p tb.2 n n₂ items hb]
        simp only [finishItems] at h ⊢
        rw [← hs]
        split at h
        · cases h
        · rename_i hlen
          simp only [hlen, if_false]
          cases hr : routeKey (sline tb.1) (classifyVer (steer o (sline tb.1) items st.steer).vers) with
          | error e' => simp [hr] at h
          | ok k =>
            simp only [hr] at h ⊢
            cases h
            exact ⟨_, rfl, rfl⟩
  | other => simp only [hk] at h ⊢; cases h; exact ⟨_, rfl, by simp [finishOther, hs]⟩
  | data => simp only [hk] at h ⊢; cases h; exact ⟨_, rfl, by simp [hs]⟩
  | las3data => simp only [hk] at h ⊢; cases h; exact ⟨_, rfl, by simp [hs]⟩

theorem steer_other_letter (o : ReadOpts) (title : Str) (items : List RItem) (s : Steer)
    (hV : (titleLetter title == ['V']) = false) (hW : (titleLetter title == ['W']) = false) :
    steer o title items s = s := by
  unfold steer; simp [hV, hW]

/-- a section that is neither a ~V nor a ~W header section leaves the steering values alone -/
theorem docSection_steer_nonVW (o : ReadOpts) (n : Nat) (tb : Str × List Str) (st s : RState)
    (hv : isV tb = false) (hw : isW tb = false) (h : docSection o n tb st = .ok s) : s.steer = st.steer := by
  unfold docSection at h
  cases hk : sectionType (sline tb.1) with
  | items =>
    have hV : (titleLetter (sline tb.1) == ['V']) = false := by simpa [isV, hk] using hv
    have hW : (titleLetter (sline tb.1) == ['W']) = false := by simpa [isW, hk] using hw
    simp only [hk] at h
    cases hp : mkParser (lineStrip tb.1) (classifyVer st.steer.vers) with
    | error e' => simp [hp] at h
    | ok p =>
      simp only [hp] at h
      cases hb : bodyRun o p tb.2 n with
      | error e' => simp [hb] at h
      | ok items =>
        simp only [hb, finishItems, steer_other_letter o _ items st.steer hV hW] at h
        split at h
        · cases h
        · cases hr : routeKey (sline tb.1) (classifyVer st.steer.vers) with
          | error e' => simp [hr] at h
          | ok k => simp only [hr] at h; cases h; rfl
  | other => simp only [hk] at h; cases h; rfl
  | data => simp only [hk] at h; cases h; rfl
  | las3data => simp only [hk] at h; cases h; rfl

/-- STEERING COMES FROM ~V AND ~W ONLY: the steering values after reading a document are those after reading only its
~V and ~W sections (which then also read successfully) -/
theorem docSections_steer_filter (o : ReadOpts) (secs : List (Str × List Str)) (n n₂ : Nat) (st st₂ r : RState)
    (hs : st.steer = st₂.steer) (h : docSections o secs n st = .ok r) :
    ∃ r₂, docSections o (secs.filter fun tb => isV tb || isW tb) n₂ st₂ = .ok r₂ ∧ r₂.steer = r.steer := by
  induction secs generalizing n n₂ st st₂ with
  | nil => simp only [docSections] at h; cases h; exact ⟨st₂, rfl, hs.symm⟩
  | cons tb rest ih =>
    simp only [docSections] at h
    cases hd : docSection o n tb st with
    | error e => simp [hd] at h
    | ok s =>
      simp only [hd] at h
      by_cases hvw : (isV tb || isW tb) = true
      · obtain ⟨s₂, hs₂, hst⟩ := docSection_steer_congr o n n₂ tb st st₂ s hs hd
        obtain ⟨r₂, hr₂, hrs⟩ := ih _ (n₂ + 1 + tb.2.length) s s₂ hst.symm h
        refine ⟨r₂, ?_, hrs⟩
        simp only [List.filter_cons, hvw, if_true, docSections, hs₂]
        exact hr₂
      · have hv : isV tb = false := by
          cases h1 : isV tb with
          | false => rfl
          | true => simp [h1] at hvw
        have hw : isW tb = false := by
          cases h1 : isW tb with
          | false => rfl
          | true => simp [h1] at hvw
        have := docSection_steer_nonVW o n tb st s hv hw hd
        obtain ⟨r₂, hr₂, hrs⟩ := ih _ n₂ s st₂ (this.trans hs) h
        refine ⟨r₂, ?_, hrs⟩
        simp only [List.filter_cons, hvw, Bool.false_eq_true, if_false]
        exact hr₂


end Lasio.Rd
