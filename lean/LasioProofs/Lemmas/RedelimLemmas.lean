import LasioProofs.Lemmas.TransformSim
import LasioProofs.Lemmas.DataTabLemmas
/-
C09, re-delimiting / re-padding of TAB- and COMMA-delimited data: helper lemmas for Props/C09Redelim.

§1  the `re.sub` matchers of the run-on(-) and run-on(.) substitutions do not look beyond a STOP character (a blank or a comma)
§2  `Sepd dlm cells s`: the text `s` is the numeric cells `cells` joined by separators admissible for the delimiter `dlm`
    (`GoodSep`); the read substitutions, the ctrl-Z filter are the identity on it
§3  the three splitters on a `Sepd` text give the cells up to `strip`; `DRow dlm cells l`: the physical line `l` is such a text
    between blanks; what the data reader makes of a `DRow` line (items, sniffer sample, genfromtxt tokens)
§4  (A) lines with numeric cells (`numCells`) are `DRow`s; (B) re-laid lines (`relayLine1`, side condition `SepsOK`) are `DRow`s
§5  item lists that agree up to `strip` give the same columns (`FtStripOn`, `Converts`, `engineToks_congr`); the unrestricted
    hypothesis "float() strips" holds of the empty table only (`ftStrip_global_empty`)
§6  bodies related line by line (`LineRel`, `BodyRel`): flat item lists, sniffer, `normalRead`, `readBody`; `relayBody` and
    `mapAt k (relayLine1 dlm dlm seps)` produce related bodies; the documents `redelim` / `repadLine` produce; whole-file step for
    `repadLine` (`base_repad_delimited`); genfromtxt raises on COMMA windows (`numpy_raises_comma`); the header-level reader does
    not see the re-laid body (`readLines_relayBody`)
-/
namespace Lasio.Tf
open Lasio Lasio.Dt

/-! ## §1 stop characters -/

/-- a character none of the matchers `mHyphen`, `mDot` can use -/
def StopCh (w : Char) : Prop :=
  isUDigit w = false ∧ (w == '.') = false ∧ (w == '-') = false ∧ (w == 'N') = false ∧ (w == 'a') = false

theorem stopCh_ws (w : Char) (hw : isPySpace w = true) : StopCh w :=
  ⟨ws_not_digit w hw, ws_beq w '.' hw (by decide), ws_beq w '-' hw (by decide), ws_beq w 'N' hw (by decide),
    ws_beq w 'a' hw (by decide)⟩

theorem stopCh_comma : StopCh ',' := by unfold StopCh; decide

/-- empty, or starting with a stop character -/
def SHead (s : Str) : Prop := s = [] ∨ ∃ w r, s = w :: r ∧ StopCh w

def LocalS (m : Str → Option (Str × Nat)) : Prop := ∀ x tail, SHead tail → m (x ++ tail) = m x

theorem mHyphen_stop (w : Char) (r : Str) (hw : StopCh w) : mHyphen (w :: r) = none := by
  have := hw.1
  match r with
  | [] => rfl
  | [_] => rfl
  | _ :: _ :: _ => simp [mHyphen, this]

theorem mHyphen_localS : LocalS mHyphen := by
  intro x tail hw
  match x with
  | [] =>
    rcases hw with rfl | ⟨w, r, rfl, hw⟩
    · rfl
    · simpa [mHyphen] using mHyphen_stop w r hw
  | [a] =>
    rcases hw with rfl | ⟨w, r, rfl, hw⟩
    · rfl
    · have : (w == '-') = false := hw.2.2.1
      match r with
      | [] => rfl
      | _ :: _ => simp [mHyphen, this]
  | [a, p] =>
    rcases hw with rfl | ⟨w, r, rfl, hw⟩
    · rfl
    · simp [mHyphen, hw.1]
  | _ :: _ :: _ :: _ => rfl

theorem digitsThenDot_sHead (tail : Str) (hw : SHead tail) : digitsThenDot tail = none := by
  rcases hw with rfl | ⟨w, r, rfl, hw⟩
  · rfl
  · simp [digitsThenDot, hw.2.1, hw.1]

theorem digitsThenDot_localS (x tail : Str) (hw : SHead tail) :
    digitsThenDot (x ++ tail) = (digitsThenDot x).map (fun nr => (nr.1, nr.2 ++ tail)) := by
  induction x with
  | nil => simp [digitsThenDot_sHead tail hw, digitsThenDot]
  | cons c cs ih =>
    simp only [List.cons_append, digitsThenDot]
    split
    · rfl
    · split
      · rw [ih]; cases digitsThenDot cs <;> simp
      · rfl

theorem takeWhile_digit_localS (x tail : Str) (hw : SHead tail) :
    (x ++ tail).takeWhile isUDigit = x.takeWhile isUDigit := by
  induction x with
  | nil =>
    rcases hw with rfl | ⟨w, r, rfl, hw⟩
    · rfl
    · simp [hw.1]
  | cons c cs ih =>
    simp only [List.cons_append, List.takeWhile]
    cases isUDigit c <;> simp [ih]

theorem dotTail_localS (neg : Nat) (x tail : Str) (hw : SHead tail) : dotTail neg (x ++ tail) = dotTail neg x := by
  unfold dotTail
  rw [digitsThenDot_localS _ tail hw]
  cases h1 : digitsThenDot x with
  | none => rfl
  | some nr =>
    simp only [Option.map_some]
    rw [digitsThenDot_localS _ tail hw]
    cases h2 : digitsThenDot nr.2 with
    | none => rfl
    | some nr2 =>
      simp only [Option.map_some]
      rw [takeWhile_digit_localS _ tail hw]

theorem mDotAlt1_localS (x tail : Str) (hw : SHead tail) : mDotAlt1 (x ++ tail) = mDotAlt1 x := by
  cases x with
  | nil =>
    rcases hw with rfl | ⟨w, r, rfl, hw'⟩
    · rfl
    · simp only [List.nil_append, mDotAlt1, hw'.2.2.1, Bool.false_eq_true, ↓reduceIte]
      unfold dotTail
      rw [digitsThenDot_sHead (w :: r) (Or.inr ⟨w, r, rfl, hw'⟩)]
  | cons c cs =>
    simp only [List.cons_append, mDotAlt1]
    split
    · exact dotTail_localS 1 cs tail hw
    · exact dotTail_localS 0 (c :: cs) tail hw

theorem mDotAlt2_localS (x tail : Str) (hw : SHead tail) : mDotAlt2 (x ++ tail) = mDotAlt2 x := by
  match x with
  | c1 :: c2 :: c3 :: p :: d :: rest =>
    simp only [List.cons_append, mDotAlt2, takeWhile_digit_localS rest tail hw]
  | [] =>
    rcases hw with rfl | ⟨w, r, rfl, hw⟩
    · rfl
    · have : (w == 'N') = false := hw.2.2.2.1
      match r with
      | [] | [_] | [_, _] | [_, _, _] => rfl
      | _ :: _ :: _ :: _ :: _ => simp [mDotAlt2, this]
  | [c1] =>
    rcases hw with rfl | ⟨w, r, rfl, hw⟩
    · rfl
    · have : (w == 'a') = false := hw.2.2.2.2
      match r with
      | [] | [_] | [_, _] => rfl
      | _ :: _ :: _ :: _ => simp [mDotAlt2, this]
  | [c1, c2] =>
    rcases hw with rfl | ⟨w, r, rfl, hw⟩
    · rfl
    · have : (w == 'N') = false := hw.2.2.2.1
      match r with
      | [] | [_] => rfl
      | _ :: _ :: _ => simp [mDotAlt2, this]
  | [c1, c2, c3] =>
    rcases hw with rfl | ⟨w, r, rfl, hw⟩
    · rfl
    · have h1 : (w == '.') = false := hw.2.1
      have h2 : (w == '-') = false := hw.2.2.1
      match r with
      | [] => rfl
      | _ :: _ => simp [mDotAlt2, h1, h2]
  | [c1, c2, c3, p] =>
    rcases hw with rfl | ⟨w, r, rfl, hw⟩
    · rfl
    · simp [mDotAlt2, hw.1]

theorem mDot_localS : LocalS mDot := by
  intro x tail hw
  unfold mDot
  rw [mDotAlt1_localS x tail hw, mDotAlt2_localS x tail hw]

theorem mDot_stop (w : Char) (r : Str) (hw : StopCh w) : mDot (w :: r) = none := by
  have h := mDot_localS [] (w :: r) (Or.inr ⟨w, r, rfl, hw⟩)
  simp only [List.nil_append] at h
  rw [h]; rfl

theorem noMatch_appendS (m : Str → Option (Str × Nat)) (hl : LocalS m) (t tail : Str) (ht : NoMatch m t)
    (htail : NoMatch m tail) (hw : SHead tail) : NoMatch m (t ++ tail) := by
  induction t with
  | nil => simpa using htail
  | cons c cs ih =>
    intro s hs
    rw [List.cons_append, List.suffix_cons_iff] at hs
    rcases hs with rfl | hs
    · rw [← List.cons_append, hl (c :: cs) tail hw]
      exact ht _ List.suffix_rfl
    · exact ih (fun s' hs' => ht s' (hs'.trans (List.suffix_cons c cs))) s hs

theorem noMatch_stop_append (m : Str → Option (Str × Nat)) (hst : ∀ w r, StopCh w → m (w :: r) = none)
    (a r : Str) (ha : ∀ c ∈ a, StopCh c) (hr : NoMatch m r) : NoMatch m (a ++ r) := by
  induction a with
  | nil => simpa using hr
  | cons w a ih =>
    intro s hs
    rw [List.cons_append, List.suffix_cons_iff] at hs
    rcases hs with rfl | hs
    · exact hst w (a ++ r) (ha w (by simp))
    · exact ih (fun c hc => ha c (by simp [hc])) s hs


/-! ## §2 numeric cells joined by separators -/

/-- a numeric token: the character-level abstraction of a plain decimal (`simplePlain_of_grammar`) -/
abbrev PTok (t : Str) : Prop := simplePlain t = true

theorem ptok_quiet {t : Str} (h : PTok t) : QuietTok t := quietTok_of_simple t h

theorem ptok_chars {t : Str} (h : PTok t) : ∀ c ∈ t, plainChar c = true := by
  unfold PTok simplePlain at h
  simp only [Bool.and_eq_true, List.all_eq_true] at h
  exact h.1.1.2

theorem ptok_ne {t : Str} (h : PTok t) : t ≠ [] := (ptok_quiet h).ne

theorem ptok_solid {t : Str} (h : PTok t) : Solid t := quietTok_solid t (ptok_quiet h)

theorem ptok_of_decimal {t : Str} (h : isPlainDecimal t = true) : PTok t := simplePlain_of_grammar t h

theorem strip_solid (t : Str) (h : Solid t) : strip t = t := by
  have := strip_sandwich [] t [] allWs_nil allWs_nil h
  simpa using this

theorem plainChar_not_ws (c : Char) (h : plainChar c = true) : isPySpace c = false :=
  (tokChar_parts c (plainChar_tokChar c h)).1

theorem plainChar_ne_comma (c : Char) (h : plainChar c = true) : (c == ',') = false := plainChar_ne c ',' h (by decide)

theorem plainChar_ne_tab (c : Char) (h : plainChar c = true) : (c == '\t') = false :=
  tokChar_ne_tab c (plainChar_tokChar c h)

def NoTab (s : Str) : Prop := ∀ c ∈ s, c ≠ '\t'

/-- the separators between two cells that the splitter of the delimiter takes as ONE separator:
SPACE: a non-empty run of blanks; TAB: blanks (no TAB), a non-empty run of TABs, blanks (no TAB); COMMA: blanks, a comma, blanks -/
def GoodSep : Dlm → Str → Prop
  | .space, s => s ≠ [] ∧ AllWs s
  | .tab, s => ∃ a tabs b, s = a ++ (tabs ++ b) ∧ AllWs a ∧ AllWs b ∧ NoTab a ∧ NoTab b ∧ tabs ≠ [] ∧ AllTab tabs
  | .comma, s => ∃ a b, s = a ++ ',' :: b ∧ AllWs a ∧ AllWs b

/-- a separator character: white space or a comma -/
def SepC (c : Char) : Prop := isPySpace c = true ∨ c = ','

theorem sepC_stop (c : Char) (h : SepC c) : StopCh c := by
  rcases h with h | rfl
  · exact stopCh_ws c h
  · exact stopCh_comma

theorem goodSep_ne {dlm : Dlm} {s : Str} (h : GoodSep dlm s) : s ≠ [] := by
  cases dlm with
  | space => exact h.1
  | tab =>
    obtain ⟨a, tabs, b, rfl, _, _, _, _, hne, _⟩ := h
    intro e
    simp at e
    exact hne e.2.1
  | comma =>
    obtain ⟨a, b, rfl, _, _⟩ := h
    simp

theorem goodSep_ws {dlm : Dlm} {s : Str} (hd : dlm ≠ .comma) (h : GoodSep dlm s) : AllWs s := by
  cases dlm with
  | space => exact h.2
  | tab =>
    obtain ⟨a, tabs, b, rfl, ha, hb, _, _, _, ht⟩ := h
    exact allWs_append ha (allWs_append (allTab_allWs ht) hb)
  | comma => exact absurd rfl hd

theorem goodSep_chars {dlm : Dlm} {s : Str} (h : GoodSep dlm s) : ∀ c ∈ s, SepC c := by
  cases dlm with
  | space => exact fun c hc => Or.inl (h.2 c hc)
  | tab => exact fun c hc => Or.inl (goodSep_ws (by decide) h c hc)
  | comma =>
    obtain ⟨a, b, rfl, ha, hb⟩ := h
    intro c hc
    simp only [List.mem_append, List.mem_cons] at hc
    rcases hc with hc | rfl | hc
    · exact Or.inl (ha c hc)
    · exact Or.inr rfl
    · exact Or.inl (hb c hc)

/-- `Sepd dlm cells s`: the text `s` is the numeric cells `cells` (at least one) joined by separators good for `dlm` -/
inductive Sepd (dlm : Dlm) : List Str → Str → Prop
  | one {t : Str} : PTok t → Sepd dlm [t] t
  | cons {t sep rest : Str} {ts : List Str} :
      PTok t → GoodSep dlm sep → Sepd dlm ts rest → Sepd dlm (t :: ts) (t ++ (sep ++ rest))

theorem sepd_cells_ptok {dlm : Dlm} {cells : List Str} {s : Str} (h : Sepd dlm cells s) : ∀ c ∈ cells, PTok c := by
  induction h with
  | one ht => intro c hc; simp at hc; subst hc; exact ht
  | cons ht _ _ ih =>
    intro c hc
    rcases List.mem_cons.mp hc with rfl | hc
    · exact ht
    · exact ih c hc

theorem sepd_cells_ne {dlm : Dlm} {cells : List Str} {s : Str} (h : Sepd dlm cells s) : cells ≠ [] := by
  cases h <;> simp

theorem sepd_head {dlm : Dlm} {cells : List Str} {s : Str} (h : Sepd dlm cells s) :
    ∃ c cs, s = c :: cs ∧ plainChar c = true := by
  cases h with
  | one ht =>
    cases s with
    | nil => exact absurd rfl (ptok_ne ht)
    | cons c cs => exact ⟨c, cs, rfl, ptok_chars ht c (by simp)⟩
  | @cons t sep rest ts ht _ _ =>
    cases t with
    | nil => exact absurd rfl (ptok_ne ht)
    | cons c cs => exact ⟨c, cs ++ _, rfl, ptok_chars ht c (by simp)⟩

theorem sepd_solid {dlm : Dlm} {cells : List Str} {s : Str} (h : Sepd dlm cells s) : Solid s := by
  induction h with
  | one ht => exact ptok_solid ht
  | cons ht _ _ ih => exact solid_append (ptok_solid ht) ih _

theorem sepd_chars {dlm : Dlm} {cells : List Str} {s : Str} (h : Sepd dlm cells s) :
    ∀ c ∈ s, plainChar c = true ∨ SepC c := by
  induction h with
  | one ht => exact fun c hc => Or.inl (ptok_chars ht c hc)
  | cons ht hs _ ih =>
    intro c hc
    simp only [List.mem_append] at hc
    rcases hc with hc | hc | hc
    · exact Or.inl (ptok_chars ht c hc)
    · exact Or.inr (goodSep_chars hs c hc)
    · exact ih c hc

/-- for the SPACE and TAB delimiters the text is a row of blank-separated quiet tokens (C02's `Core`) -/
theorem sepd_core {dlm : Dlm} {cells : List Str} {s : Str} (hd : dlm ≠ .comma) (h : Sepd dlm cells s) : Core cells s := by
  induction h with
  | one ht => exact Core.one (ptok_quiet ht)
  | cons ht hs _ ih => exact Core.cons (ptok_quiet ht) (goodSep_ne hs) (goodSep_ws hd hs) ih

theorem sepd_noComma {dlm : Dlm} {cells : List Str} {s : Str} (hd : dlm ≠ .comma) (h : Sepd dlm cells s) :
    ∀ c ∈ s, (c == ',') = false := by
  intro c hc
  rcases sepd_chars h c hc with h1 | h1
  · exact plainChar_ne_comma c h1
  · induction h with
    | one ht => exact plainChar_ne_comma c (ptok_chars ht c hc)
    | cons ht hs _ ih =>
      simp only [List.mem_append] at hc
      rcases hc with hc | hc | hc
      · exact plainChar_ne_comma c (ptok_chars ht c hc)
      · exact ws_beq c ',' (goodSep_ws hd hs c hc) (by decide)
      · exact ih hc

/-! ### the read substitutions find nothing -/

theorem sepd_noMatch (m : Str → Option (Str × Nat)) (hl : LocalS m) (hst : ∀ w r, StopCh w → m (w :: r) = none)
    (hq : ∀ t, PTok t → NoMatch m t) {dlm : Dlm} {cells : List Str} {s : Str} (h : Sepd dlm cells s) : NoMatch m s := by
  induction h with
  | one ht => exact hq _ ht
  | @cons t sep rest ts ht hs _ ih =>
    have hch := goodSep_chars hs
    apply noMatch_appendS m hl _ _ (hq _ ht)
    · exact noMatch_stop_append m hst sep rest (fun c hc => sepC_stop c (hch c hc)) ih
    · cases sep with
      | nil => exact absurd rfl (goodSep_ne hs)
      | cons w r => exact Or.inr ⟨w, r ++ rest, rfl, sepC_stop w (hch w (by simp))⟩

theorem noMatch_comma_free (s : Str) (h : ∀ c ∈ s, (c == ',') = false) : NoMatch mComma s := by
  intro u hu
  match u, hu with
  | [], _ => rfl
  | [_], _ => rfl
  | [_, _], _ => rfl
  | a :: p :: b :: r, hu =>
    have hp : (p == ',') = false := h p (mem_of_suffix hu (by simp))
    simp [mComma, hp]

/-- which substitution sets the theorems speak about: with the COMMA delimiter the comma-decimal substitution must be off
(it is: `readSubs .comma = Subs.commaDelimiter`) -/
def SubsOK (dlm : Dlm) (sb : Subs) : Prop := dlm = .comma → sb.comma = false

theorem subsOK_readSubs (dlm : Dlm) : SubsOK dlm (readSubs dlm) := by
  intro h; subst h; rfl

theorem subsOK_dropHyphen {dlm : Dlm} {sb : Subs} (h : SubsOK dlm sb) : SubsOK dlm sb.dropHyphen := fun e => h e

theorem sepd_applySubs {dlm : Dlm} {sb : Subs} (hsb : SubsOK dlm sb) {cells : List Str} {s : Str} (h : Sepd dlm cells s) :
    applySubs sb s = s := by
  have h1 : sb.comma = true → subCommaDecimal s = s := by
    intro hc
    have hd : dlm ≠ .comma := by
      intro e
      rw [hsb e] at hc
      cases hc
    exact reSub_id _ _ (noMatch_comma_free s (sepd_noComma hd h))
  have h2 : subRunOnHyphen s = s :=
    reSub_id _ _ (sepd_noMatch mHyphen mHyphen_localS mHyphen_stop (fun _ ht => (ptok_quiet ht).hyphen) h)
  have h3 : subRunOnDot s = s :=
    reSub_id _ _ (sepd_noMatch mDot mDot_localS mDot_stop (fun _ ht => (ptok_quiet ht).dot) h)
  unfold applySubs
  cases sb with
  | mk c hy d =>
    cases c
    · cases hy <;> cases d <;> simp [h2, h3]
    · have h1' := h1 rfl
      cases hy <;> cases d <;> simp [h1', h2, h3]

theorem sepd_filter {dlm : Dlm} {cells : List Str} {s : Str} (h : Sepd dlm cells s) : s.filter (· != ctrlZ) = s := by
  rw [List.filter_eq_self]
  intro c hc
  have : (c == ctrlZ) = false := by
    rcases sepd_chars h c hc with h1 | h1 | rfl
    · exact (tokChar_parts c (plainChar_tokChar c h1)).2.2.2.2
    · exact ws_ne_ctrlZ c h1
    · decide
  simp [bne, this]

theorem sepd_not_comment {dlm : Dlm} {cells : List Str} {s : Str} (h : Sepd dlm cells s) : isComment s = false := by
  obtain ⟨c, cs, rfl, hc⟩ := sepd_head h
  have h1 := (tokChar_parts c (plainChar_tokChar c hc)).2.2.2.1
  have hne : c ≠ '#' := by simpa using h1
  rw [isComment_cons, beq_eq_false_iff_ne]
  exact fun e => hne e.symm

theorem sepd_not_empty {dlm : Dlm} {cells : List Str} {s : Str} (h : Sepd dlm cells s) : s.isEmpty = false := by
  obtain ⟨c, cs, rfl, _⟩ := sepd_head h
  rfl


/-! ## §3 the splitters on a `Sepd` text -/

theorem map_strip_cells (cells : List Str) (h : ∀ c ∈ cells, PTok c) : cells.map strip = cells := by
  induction cells with
  | nil => rfl
  | cons c cs ih =>
    simp only [List.map_cons]
    rw [strip_solid c (ptok_solid (h c (by simp))), ih (fun x hx => h x (List.mem_cons_of_mem _ hx))]

/-- SPACE: `sow_regex.findall` gives the cells -/
theorem sepd_split_space {cells : List Str} {s : Str} (h : Sepd .space cells s) : (splitWs s).map strip = cells := by
  rw [splitWs_core (sepd_core (by decide) h)]
  exact map_strip_cells cells (sepd_cells_ptok h)

/-- not a TAB, not a quote: the characters `sot_regex` puts into an unquoted item -/
abbrev ntq (x : Char) : Bool := !(x == '\t' || x == '"' || x == '\'')

theorem ntq_ws (x : Char) (hw : isPySpace x = true) (ht : x ≠ '\t') : ntq x = true := by
  have h1 : (x == '\t') = false := by simpa using ht
  simp [ntq, h1, (ws_not_quote x hw).1, (ws_not_quote x hw).2]

theorem ntq_plain (x : Char) (h : plainChar x = true) : ntq x = true := by
  obtain ⟨_, a2, a3, _, _⟩ := tokChar_parts x (plainChar_tokChar x h)
  simp [ntq, plainChar_ne_tab x h, a2, a3]

theorem mSplitTab_piece (c : Char) (u tail : Str) (hc : ∀ x ∈ c :: u, ntq x = true) (hw : TabHead tail) :
    mSplit (· == '\t') (c :: u ++ tail) = some (c :: u, u.length) := by
  have h0 := hc c (by simp)
  simp only [ntq, Bool.not_eq_true', Bool.or_eq_false_iff] at h0
  obtain ⟨⟨h1, h2⟩, h3⟩ := h0
  simp only [List.cons_append, mSplit, h2, h3, Bool.or_self, Bool.false_eq_true, ↓reduceIte, h1]
  have : (u ++ tail).takeWhile (fun x => !(x == '\t' || x == '"' || x == '\'')) = u := by
    apply Lasio.Dt.takeWhile_append_stop
    · intro x hx
      exact hc x (by simp [hx])
    · rcases hw with rfl | ⟨r, rfl⟩
      · exact Or.inl rfl
      · exact Or.inr ⟨'\t', r, rfl, by simp⟩
  rw [this]

/-- a non-empty piece without TAB or quote, followed by a TAB (or the end), is one item -/
theorem splitTab_piece (u tail : Str) (hne : u ≠ []) (hu : ∀ x ∈ u, ntq x = true) (hw : TabHead tail) :
    splitTab (u ++ tail) = u :: splitTab tail := by
  cases u with
  | nil => exact absurd rfl hne
  | cons c cs =>
    have hm := mSplitTab_piece c cs tail hu hw
    unfold splitTab
    simp only [List.cons_append] at hm ⊢
    simp only [scanTok, hm]
    rw [scanTok_skip _ cs _]

theorem splitTab_tabs (tabs r : Str) (h : AllTab tabs) : splitTab (tabs ++ r) = splitTab r := by
  unfold splitTab
  exact scanTok_allTab tabs r h

theorem splitTab_nil : splitTab [] = [] := rfl

/-- TAB: `sot_regex.findall` gives the cells with the blanks around them -/
theorem sepd_split_tab {cells : List Str} {s : Str} (h : Sepd .tab cells s) :
    ∀ a0 : Str, AllWs a0 → NoTab a0 → (splitTab (a0 ++ s)).map strip = cells := by
  induction h with
  | @one t ht =>
    intro a0 h0 n0
    have hu : ∀ x ∈ a0 ++ t, ntq x = true := by
      intro x hx
      rcases List.mem_append.mp hx with hx | hx
      · exact ntq_ws x (h0 x hx) (n0 x hx)
      · exact ntq_plain x (ptok_chars ht x hx)
    have := splitTab_piece (a0 ++ t) [] (by simp [ptok_ne ht]) hu (Or.inl rfl)
    rw [List.append_nil] at this
    rw [this, splitTab_nil]
    simp only [List.map_cons, List.map_nil]
    have e := strip_sandwich a0 t [] h0 allWs_nil (ptok_solid ht)
    rw [List.append_nil] at e
    rw [e]
  | @cons t sep rest ts ht hs _ ih =>
    intro a0 h0 n0
    obtain ⟨a, tabs, b, rfl, ha, hb, na, nb, hne, htabs⟩ := hs
    have e : a0 ++ (t ++ ((a ++ (tabs ++ b)) ++ rest)) = (a0 ++ (t ++ a)) ++ (tabs ++ (b ++ rest)) := by
      simp only [List.append_assoc]
    rw [e]
    have hu : ∀ x ∈ a0 ++ (t ++ a), ntq x = true := by
      intro x hx
      simp only [List.mem_append] at hx
      rcases hx with hx | hx | hx
      · exact ntq_ws x (h0 x hx) (n0 x hx)
      · exact ntq_plain x (ptok_chars ht x hx)
      · exact ntq_ws x (ha x hx) (na x hx)
    rw [splitTab_piece (a0 ++ (t ++ a)) _ (by simp [ptok_ne ht]) hu (tabHead_of_allTab_append _ _ htabs hne),
      splitTab_tabs tabs _ htabs]
    simp only [List.map_cons]
    rw [strip_sandwich a0 t a h0 ha (ptok_solid ht), ih b hb nb]

/-! ### `str.split(ch)` -/

theorem splitOnChar_free (ch : Char) (x : Str) (hx : ∀ c ∈ x, (c == ch) = false) : splitOnChar ch x = [x] := by
  induction x with
  | nil => rfl
  | cons c x ih =>
    simp only [splitOnChar, hx c (by simp), Bool.false_eq_true, ↓reduceIte]
    rw [ih (fun y hy => hx y (by simp [hy]))]

theorem splitOnChar_append (ch : Char) (x r : Str) (hx : ∀ c ∈ x, (c == ch) = false) :
    splitOnChar ch (x ++ ch :: r) = x :: splitOnChar ch r := by
  induction x with
  | nil => simp [splitOnChar]
  | cons c x ih =>
    simp only [List.cons_append, splitOnChar, hx c (by simp), Bool.false_eq_true, ↓reduceIte]
    rw [ih (fun y hy => hx y (by simp [hy]))]

theorem splitOnChar_cases (ch : Char) (u : Str) :
    (∀ c ∈ u, (c == ch) = false) ∨ ∃ x r, u = x ++ ch :: r ∧ ∀ c ∈ x, (c == ch) = false := by
  induction u with
  | nil => left; intro c hc; cases hc
  | cons c u ih =>
    cases hc : c == ch with
    | true =>
      right
      have : c = ch := by simpa using hc
      subst this
      exact ⟨[], u, rfl, by intro c hc; cases hc⟩
    | false =>
      rcases ih with h | ⟨x, r, rfl, hx⟩
      · left
        intro y hy
        rcases List.mem_cons.mp hy with rfl | hy
        · exact hc
        · exact h y hy
      · right
        refine ⟨c :: x, r, rfl, ?_⟩
        intro y hy
        rcases List.mem_cons.mp hy with rfl | hy
        · exact hc
        · exact hx y hy

/-- COMMA: `str.split(",")` gives the cells with the blanks around them -/
theorem sepd_split_comma {cells : List Str} {s : Str} (h : Sepd .comma cells s) :
    ∀ a0 : Str, AllWs a0 → (splitComma (a0 ++ s)).map strip = cells := by
  unfold splitComma
  induction h with
  | @one t ht =>
    intro a0 h0
    have hu : ∀ x ∈ a0 ++ t, (x == ',') = false := by
      intro x hx
      rcases List.mem_append.mp hx with hx | hx
      · exact ws_beq x ',' (h0 x hx) (by decide)
      · exact plainChar_ne_comma x (ptok_chars ht x hx)
    rw [splitOnChar_free ',' _ hu]
    simp only [List.map_cons, List.map_nil]
    have e := strip_sandwich a0 t [] h0 allWs_nil (ptok_solid ht)
    rw [List.append_nil] at e
    rw [e]
  | @cons t sep rest ts ht hs _ ih =>
    intro a0 h0
    obtain ⟨a, b, rfl, ha, hb⟩ := hs
    have e : a0 ++ (t ++ ((a ++ ',' :: b) ++ rest)) = (a0 ++ (t ++ a)) ++ ',' :: (b ++ rest) := by
      simp only [List.append_assoc, List.cons_append]
    rw [e]
    have hu : ∀ x ∈ a0 ++ (t ++ a), (x == ',') = false := by
      intro x hx
      simp only [List.mem_append] at hx
      rcases hx with hx | hx | hx
      · exact ws_beq x ',' (h0 x hx) (by decide)
      · exact plainChar_ne_comma x (ptok_chars ht x hx)
      · exact ws_beq x ',' (ha x hx) (by decide)
    rw [splitOnChar_append ',' _ _ hu]
    simp only [List.map_cons]
    rw [strip_sandwich a0 t a h0 ha (ptok_solid ht), ih b hb]

/-- every splitter, on the text for its delimiter: the cells, up to `strip` -/
theorem sepd_split {dlm : Dlm} {cells : List Str} {s : Str} (h : Sepd dlm cells s) : (splitLine dlm s).map strip = cells := by
  cases dlm with
  | space => exact sepd_split_space h
  | tab =>
    have := sepd_split_tab h [] allWs_nil (by intro c hc; cases hc)
    rw [List.nil_append] at this
    exact this
  | comma =>
    have := sepd_split_comma h [] allWs_nil
    rw [List.nil_append] at this
    exact this

/-! ### physical lines -/

/-- the physical line `l` is, for the delimiter `dlm`, the numeric cells `cells`: blanks, a `Sepd` text, blanks (line end) -/
def DRow (dlm : Dlm) (cells : List Str) (l : Str) : Prop :=
  ∃ pre core post, AllWs pre ∧ AllWs post ∧ Sepd dlm cells core ∧ l = pre ++ (core ++ post)

theorem drow_clean {dlm : Dlm} {cells : List Str} {l : Str} (h : DRow dlm cells l) :
    ∃ core, Sepd dlm cells core ∧ cleanLine l = core := by
  obtain ⟨pre, core, post, hpre, hpost, hcore, rfl⟩ := h
  exact ⟨core, hcore, cleanLine_sandwich pre core post hpre hpost (sepd_solid hcore)⟩

theorem sampleLine_eq (l : Str) : sampleLine l = if isSkip l then none else some (cleanLine l) := rfl

theorem drow_not_skip {dlm : Dlm} {cells : List Str} {l : Str} (h : DRow dlm cells l) : isSkip l = false := by
  obtain ⟨core, hcore, hcl⟩ := drow_clean h
  unfold isSkip
  simp only [hcl, sepd_not_empty hcore, sepd_not_comment hcore, Bool.or_self]

/-- NORMAL ENGINE: the items of the line are what the splitter makes of the clean text … -/
theorem drow_lineTokens_raw {dlm : Dlm} {sb : Subs} (hsb : SubsOK dlm sb) {cells : List Str} {l : Str} (h : DRow dlm cells l) :
    lineTokens sb dlm l = splitLine dlm (cleanLine l) := by
  obtain ⟨core, hcore, hcl⟩ := drow_clean h
  unfold lineTokens
  simp only [hcl, sepd_not_comment hcore, sepd_applySubs hsb hcore, sepd_filter hcore, sepd_not_empty hcore,
    Bool.false_eq_true, ↓reduceIte]

/-- … i.e. the cells, up to `strip` -/
theorem drow_lineTokens {dlm : Dlm} {sb : Subs} (hsb : SubsOK dlm sb) {cells : List Str} {l : Str} (h : DRow dlm cells l) :
    (lineTokens sb dlm l).map strip = cells := by
  rw [drow_lineTokens_raw hsb h]
  obtain ⟨core, hcore, hcl⟩ := drow_clean h
  rw [hcl]
  exact sepd_split hcore

/-- SNIFFER: the line is sampled and counts as many items as it has cells -/
theorem drow_sample {dlm : Dlm} {cells : List Str} {l : Str} (h : DRow dlm cells l) :
    ∃ s, sampleLine l = some s ∧ ∀ sb, SubsOK dlm sb → (splitLine dlm (applySubs sb s)).length = cells.length := by
  obtain ⟨core, hcore, hcl⟩ := drow_clean h
  refine ⟨core, ?_, ?_⟩
  · rw [sampleLine_eq, drow_not_skip h, hcl]; rfl
  · intro sb hsb
    rw [sepd_applySubs hsb hcore]
    have := congrArg List.length (sepd_split hcore)
    simpa using this

/-- GENFROMTXT (SPACE and TAB only: a TAB is white space for `str.split()`): the tokens are the cells -/
theorem drow_npTokens {dlm : Dlm} (hd : dlm ≠ .comma) {cells : List Str} {l : Str} (h : DRow dlm cells l) : npTokens l = cells := by
  obtain ⟨pre, core, post, hpre, hpost, hcore, e⟩ := h
  exact npTokens_row ⟨pre, core, post, hpre, hpost, sepd_core hd hcore, e⟩


/-! ## §4 lines with numeric cells, re-laid lines -/

/-- the decidable side condition of the theorems: a data line (not blank, not a comment) every cell of which — cut with the
delimiter `frm` — is a plain decimal `[+-]?(\d+\.?\d*|\.\d+)([eE][+-]?\d+)?` (hence not empty) -/
def numCells (frm : Dlm) (l : Str) : Bool := !isSkip l && (cellsOf frm (splitEol l).1).all isPlainDecimal

theorem drow_absorb {dlm : Dlm} {cells : List Str} {u : Str} (h : DRow dlm cells u) (p q : Str) (hp : AllWs p) (hq : AllWs q) :
    DRow dlm cells (p ++ (u ++ q)) := by
  obtain ⟨pre, core, post, hpre, hpost, hcore, rfl⟩ := h
  exact ⟨p ++ pre, core, post ++ q, allWs_append hp hpre, allWs_append hpost hq, hcore, by simp only [List.append_assoc]⟩

/-! ### SPACE: from the words -/

theorem pySplit_eq_nil (s : Str) (h : pySplit s = []) : AllWs s := by
  induction s with
  | nil => exact allWs_nil
  | cons c cs ih =>
    cases hc : isPySpace c with
    | true =>
      rw [pySplit_ws c cs hc] at h
      exact allWs_cons hc (ih h)
    | false =>
      rw [pySplit_word c cs hc] at h
      cases h

theorem drow_of_words (s : Str) : pySplit s ≠ [] → (∀ w ∈ pySplit s, PTok w) → DRow .space (pySplit s) s := by
  induction s using words_induction with
  | nil => intro h; exact absurd rfl h
  | ws c cs hc ih =>
    intro hne hw
    rw [pySplit_ws c cs hc] at hne hw ⊢
    have := drow_absorb (ih hne hw) [c] [] (allWs_cons hc allWs_nil) allWs_nil
    simpa using this
  | word w tail hwd ht hsp ih =>
    intro _ hw
    rw [hsp] at hw ⊢
    have hpw : PTok w := hw w (by simp)
    by_cases hn : pySplit tail = []
    · rw [hn]
      exact ⟨[], w, tail, allWs_nil, pySplit_eq_nil tail hn, Sepd.one hpw, rfl⟩
    · obtain ⟨pre, core, post, hpre, hpost, hcore, e⟩ := ih hn (fun x hx => hw x (List.mem_cons_of_mem _ hx))
      have hpre_ne : pre ≠ [] := by
        intro e0
        subst e0
        obtain ⟨c, cs, rfl, hc⟩ := sepd_head hcore
        rcases ht with h0 | ⟨b, r, h0, hb⟩
        · rw [h0] at e; cases e
        · rw [h0] at e
          simp only [List.nil_append, List.cons_append] at e
          have : b = c := (List.cons.inj e).1
          subst this
          rw [plainChar_not_ws b hc] at hb
          cases hb
      refine ⟨[], w ++ (pre ++ core), post, allWs_nil, hpost, Sepd.cons hpw ⟨hpre_ne, hpre⟩ hcore, ?_⟩
      rw [e]
      simp only [List.nil_append, List.append_assoc]

/-! ### TAB, COMMA: from the pieces of `str.split(ch)` -/

/-- the separating character -/
def dch : Dlm → Char
  | .space => ' '
  | .tab => '\t'
  | .comma => ','

theorem cellsOf_ch (dlm : Dlm) (hd : dlm ≠ .space) (t : Str) :
    cellsOf dlm t = (splitOnChar (dch dlm) (strip t)).map strip := by
  cases dlm with
  | space => exact absurd rfl hd
  | tab => rfl
  | comma => rfl

theorem goodSep_ch (dlm : Dlm) (hd : dlm ≠ .space) (b a : Str) (hb : AllWs b) (ha : AllWs a)
    (nb : ∀ c ∈ b, (c == dch dlm) = false) (na : ∀ c ∈ a, (c == dch dlm) = false) : GoodSep dlm (b ++ dch dlm :: a) := by
  cases dlm with
  | space => exact absurd rfl hd
  | tab =>
    refine ⟨b, ['\t'], a, rfl, hb, ha, ?_, ?_, by simp, ?_⟩
    · intro c hc; have := nb c hc; simpa [dch] using this
    · intro c hc; have := na c hc; simpa [dch] using this
    · intro c hc; simpa using hc
  | comma => exact ⟨b, a, rfl, hb, ha⟩

/-- a piece: blanks, its `strip`, blanks -/
theorem piece_decomp (x : Str) :
    ∃ pre post, AllWs pre ∧ AllWs post ∧ x = pre ++ (strip x ++ post) ∧ (∀ c ∈ pre, c ∈ x) ∧ (∀ c ∈ post, c ∈ x) := by
  obtain ⟨pre, post, hpre, hpost, e⟩ := strip_decomp x
  refine ⟨pre, post, hpre, hpost, e, ?_, ?_⟩
  · intro c hc; rw [e]; simp [hc]
  · intro c hc; rw [e]; simp [hc]

theorem drow_of_pieces (dlm : Dlm) (hd : dlm ≠ .space) (u : Str) :
    (∀ p ∈ splitOnChar (dch dlm) u, PTok (strip p)) →
    ∃ pre core post, AllWs pre ∧ AllWs post ∧ (∀ c ∈ pre, (c == dch dlm) = false) ∧
      Sepd dlm ((splitOnChar (dch dlm) u).map strip) core ∧ u = pre ++ (core ++ post) := by
  induction hn : u.length using Nat.strongRecOn generalizing u with
  | _ n ih =>
    intro hp
    rcases splitOnChar_cases (dch dlm) u with hfree | ⟨x, r, rfl, hx⟩
    · rw [splitOnChar_free _ u hfree] at hp ⊢
      have hpu : PTok (strip u) := hp u (by simp)
      obtain ⟨pre, post, hpre, hpost, e, m1, _⟩ := piece_decomp u
      exact ⟨pre, strip u, post, hpre, hpost, fun c hc => hfree c (m1 c hc), Sepd.one hpu, e⟩
    · rw [splitOnChar_append _ x r hx] at hp ⊢
      have hpx : PTok (strip x) := hp x (by simp)
      obtain ⟨pre, post, hpre, hpost, e, m1, m2⟩ := piece_decomp x
      obtain ⟨pre', core', post', hpre', hpost', n', hcore', e'⟩ :=
        ih r.length (by subst hn; simp; omega) r rfl (fun p hp' => hp p (List.mem_cons_of_mem _ hp'))
      refine ⟨pre, strip x ++ ((post ++ dch dlm :: pre') ++ core'), post', hpre, hpost', fun c hc => hx c (m1 c hc), ?_, ?_⟩
      · simp only [List.map_cons]
        exact Sepd.cons hpx (goodSep_ch dlm hd post pre' hpost hpre' (fun c hc => hx c (m2 c hc)) n') hcore'
      · conv => lhs; rw [e, e']
        simp only [List.append_assoc, List.cons_append]

/-- (A) a line with numeric cells is a `DRow` of its cells -/
theorem drow_of_numCells (frm : Dlm) (l : Str) (h : numCells frm l = true) : DRow frm (cellsOf frm (splitEol l).1) l := by
  unfold numCells at h
  simp only [Bool.and_eq_true, Bool.not_eq_true', List.all_eq_true] at h
  obtain ⟨hskip, hcells⟩ := h
  by_cases hd : frm = .space
  · subst hd
    simp only [cellsOf] at hcells ⊢
    rw [pySplit_splitEol] at hcells ⊢
    apply drow_of_words l
    · intro e
      rw [isSkip_words, e] at hskip
      simp at hskip
    · exact fun w hw => ptok_of_decimal (hcells w hw)
  · rw [cellsOf_ch frm hd] at hcells ⊢
    rw [strip_splitEol] at hcells ⊢
    obtain ⟨pre, core, post, hpre, hpost, _, hcore, e⟩ := drow_of_pieces frm hd (strip l) (by
      intro p hp
      exact ptok_of_decimal (hcells (strip p) (List.mem_map_of_mem hp)))
    obtain ⟨p, q, hp, hq, el⟩ := strip_decomp l
    have := drow_absorb ⟨pre, core, post, hpre, hpost, hcore, e⟩ p q hp hq
    rw [← el] at this
    exact this

/-! ### (B) re-laid lines -/

/-- the side condition on a separator argument for the TAB delimiter: among its blanks/TABs, no blank between two TABs
(`sot_regex` would take it for a cell) -/
def tabSepOK (s : Str) : Bool :=
  !(((blanksOf s).dropWhile (· != '\t')).dropWhile (· == '\t')).contains '\t'

/-- side condition on the separator arguments: for the TAB delimiter every one is `tabSepOK` -/
def SepsOK : Dlm → List Str → Prop
  | .tab, seps => ∀ s ∈ seps, tabSepOK s = true
  | _, _ => True

instance (dlm : Dlm) (seps : List Str) : Decidable (SepsOK dlm seps) := by
  cases dlm <;> unfold SepsOK <;> infer_instance

theorem sepsOK_head {to : Dlm} {seps : List Str} (h : SepsOK to seps) : to = .tab → tabSepOK (seps.headD []) = true := by
  intro e
  subst e
  cases seps with
  | nil => decide
  | cons s ss => exact h s (by simp)

theorem sepsOK_tail {to : Dlm} {seps : List Str} (h : SepsOK to seps) : SepsOK to seps.tail := by
  cases to with
  | tab =>
    cases seps with
    | nil => exact h
    | cons s ss => exact fun x hx => h x (List.mem_cons_of_mem _ hx)
  | space => trivial
  | comma => trivial

theorem dropWhile_ne_head (ch : Char) (b : Str) (h : b.contains ch = true) : ∃ r, b.dropWhile (· != ch) = ch :: r := by
  induction b with
  | nil => simp at h
  | cons c b ih =>
    simp only [List.dropWhile_cons]
    by_cases hc : c = ch
    · subst hc
      exact ⟨b, by simp⟩
    · have h1 : (c != ch) = true := by simpa using hc
      simp only [h1, ↓reduceIte]
      apply ih
      simp only [List.contains_cons] at h
      have h2 : (ch == c) = false := by
        rw [beq_eq_false_iff_ne]; exact fun e => hc e.symm
      simpa [h2] using h

theorem goodSep_mkSep (to : Dlm) (s : Str) (h : to = .tab → tabSepOK s = true) : GoodSep to (mkSep to s) := by
  cases to with
  | space => exact mkSep_space s
  | comma => exact ⟨_, _, rfl, allWs_blanksOf _, allWs_blanksOf _⟩
  | tab =>
    have hok := h rfl
    simp only [mkSep]
    split
    · rename_i hc
      obtain ⟨r, hr⟩ := dropWhile_ne_head '\t' (blanksOf s) (by simpa using hc)
      have hb := allWs_blanksOf s
      have e1 : blanksOf s = (blanksOf s).takeWhile (· != '\t') ++ (blanksOf s).dropWhile (· != '\t') :=
        (List.takeWhile_append_dropWhile).symm
      have e2 : (blanksOf s).dropWhile (· != '\t') =
          ((blanksOf s).dropWhile (· != '\t')).takeWhile (· == '\t') ++ ((blanksOf s).dropWhile (· != '\t')).dropWhile (· == '\t') :=
        (List.takeWhile_append_dropWhile).symm
      have sub1 : ∀ c ∈ (blanksOf s).dropWhile (· != '\t'), c ∈ blanksOf s :=
        fun c hc => (List.dropWhile_sublist _).subset hc
      refine ⟨(blanksOf s).takeWhile (· != '\t'), ((blanksOf s).dropWhile (· != '\t')).takeWhile (· == '\t'),
        ((blanksOf s).dropWhile (· != '\t')).dropWhile (· == '\t'), ?_, ?_, ?_, ?_, ?_, ?_, ?_⟩
      · rw [← e2]; exact e1
      · exact fun c hc => hb c ((List.takeWhile_sublist _).subset hc)
      · exact fun c hc => hb c (sub1 c ((List.dropWhile_sublist _).subset hc))
      · intro c hc
        have := mem_takeWhile_p _ _ c hc
        simpa using this
      · intro c hc e
        subst e
        unfold tabSepOK at hok
        simp only [Bool.not_eq_true', List.contains_eq_mem, decide_eq_false_iff_not] at hok
        exact hok hc
      · rw [hr]; simp
      · intro c hc
        have := mem_takeWhile_p _ _ c hc
        simpa using this
    · refine ⟨[], ['\t'], [], rfl, allWs_nil, allWs_nil, ?_, ?_, by simp, ?_⟩
      · intro c hc; cases hc
      · intro c hc; cases hc
      · intro c hc; simpa using hc

/-- numeric cells joined by the separators made for the delimiter `to` -/
theorem sepd_joinSeps (to : Dlm) (cells : List Str) (hne : cells ≠ []) (hp : ∀ c ∈ cells, PTok c) (seps : List Str)
    (hs : SepsOK to seps) : Sepd to cells (joinSeps (mkSep to) cells seps) := by
  induction cells generalizing seps with
  | nil => exact absurd rfl hne
  | cons w rest ih =>
    cases rest with
    | nil => simp only [joinSeps]; exact Sepd.one (hp w (by simp))
    | cons w' rest' =>
      simp only [joinSeps]
      exact Sepd.cons (hp w (by simp)) (goodSep_mkSep to _ (sepsOK_head hs))
        (ih (by simp) (fun x hx => hp x (List.mem_cons_of_mem _ hx)) seps.tail (sepsOK_tail hs))

/-- (B) a line with numeric cells, re-laid for the delimiter `to`, is a `DRow` of the same cells -/
theorem drow_relay (frm to : Dlm) (seps : List Str) (l : Str) (h : numCells frm l = true) (hs : SepsOK to seps) :
    DRow to (cellsOf frm (splitEol l).1) (relayLine1 frm to seps l) := by
  obtain ⟨_, core, _, _, _, hcore, _⟩ := drow_of_numCells frm l h
  refine ⟨[], _, (splitEol l).2, allWs_nil, splitEol_allWs l,
    sepd_joinSeps to _ (sepd_cells_ne hcore) (sepd_cells_ptok hcore) seps hs, ?_⟩
  simp only [relayLine1, List.nil_append]


/-! ## §5 token lists that agree up to `strip` -/

/-- `float()` ignores the blanks around the tokens of the list `toks` (Python's `float()` ignores them around every string; a
`FloatTable` is a finite list, so the statement is relative to the tokens that are met) -/
def FtStripOn (ft : FloatTable) (toks : List Str) : Prop := ∀ t ∈ toks, toFloat ft t = toFloat ft (strip t)

/-- every token of the list is a number for `float()` -/
def Converts (ft : FloatTable) (toks : List Str) : Prop := ∀ t ∈ toks, (toFloat ft t).isSome

/-- the normal engine as a function of its flat item list -/
def engineToks (ft : FloatTable) (nColumns : Nat) (toks : List Str) : Except DErr (List Column) :=
  let n := if toks.isEmpty then 0 else nColumns
  if n > 0 then
    if toks.length % n != 0 then .error .reshapeError
    else .ok ((columnsOf n (reshape n toks)).map (typedColumn ft))
  else if toks.isEmpty then .ok []
  else .error .indexError

theorem normalEngineLines_eq (ft : FloatTable) (sb : Subs) (dlm : Dlm) (n : Nat) (body : List Str) :
    normalEngineLines ft sb dlm n body = engineToks ft n (normalTokens sb dlm body) := rfl

theorem floatCells_congr (ft : FloatTable) (col : List Str) (f : Str → Str) (h : ∀ t ∈ col, toFloat ft t = toFloat ft (f t)) :
    floatCells ft (col.map f) = floatCells ft col := by
  induction col with
  | nil => rfl
  | cons t ts ih =>
    simp only [List.map_cons, floatCells]
    rw [← h t (by simp), ih (fun x hx => h x (List.mem_cons_of_mem _ hx))]

/-- a column all of whose tokens convert, before and after `strip`, is the same float column -/
theorem typedColumn_strip (ft : FloatTable) (col : List Str) (h : FtStripOn ft col) (hc : Converts ft col) :
    typedColumn ft (col.map strip) = typedColumn ft col := by
  unfold typedColumn
  rw [floatCells_congr ft col strip h]
  obtain ⟨vs, hvs⟩ := floatCells_of_all ft col hc
  rw [hvs]

theorem chunk_map {α β} (f : α → β) (c fuel : Nat) (l : List α) : chunk c fuel (l.map f) = (chunk c fuel l).map (List.map f) := by
  induction fuel generalizing l with
  | zero => rfl
  | succ k ih =>
    simp only [chunk, List.isEmpty_map]
    split
    · rfl
    · simp only [List.map_cons, ← List.map_take, ← List.map_drop, ih]

theorem reshape_map {α β} (f : α → β) (c : Nat) (l : List α) : reshape c (l.map f) = (reshape c l).map (List.map f) := by
  unfold reshape
  rw [List.length_map, chunk_map]

theorem chunk_mem {α} (c fuel : Nat) (l : List α) : ∀ r ∈ chunk c fuel l, ∀ x ∈ r, x ∈ l := by
  induction fuel generalizing l with
  | zero => intro r hr; simp [chunk] at hr
  | succ k ih =>
    intro r hr x hx
    simp only [chunk] at hr
    split at hr
    · cases hr
    · rcases List.mem_cons.mp hr with rfl | hr
      · exact List.mem_of_mem_take hx
      · exact List.mem_of_mem_drop (ih _ r hr x hx)

theorem columnOf_map_strip (rows : List (List Str)) (j : Nat) :
    columnOf (rows.map (List.map strip)) j = (columnOf rows j).map strip := by
  unfold columnOf
  simp only [List.map_map]
  apply List.map_congr_left
  intro r _
  simp only [Function.comp, List.getD_eq_getElem?_getD, List.getElem?_map]
  cases r[j]? <;> rfl

/-- the entries of the columns of a full matrix are items of the flat list -/
theorem columnOf_mem (n : Nat) (toks : List Str) (hd : toks.length % n = 0) (j : Nat) (hj : j < n) :
    ∀ t ∈ columnOf (reshape n toks) j, t ∈ toks := by
  intro t ht
  simp only [columnOf, List.mem_map] at ht
  obtain ⟨r, hr, rfl⟩ := ht
  have hl : r.length = n := chunk_rows_length n _ toks hd r hr
  have : r.getD j [] ∈ r := by
    rw [List.getD_eq_getElem?_getD, List.getElem?_eq_getElem (by omega)]
    simp
  exact chunk_mem n _ toks r hr _ this

/-- the normal engine on a list of tokens that all convert, with or without the blanks around them -/
theorem engineToks_strip (ft : FloatTable) (n : Nat) (toks : List Str) (h : FtStripOn ft toks) (hc : Converts ft toks) :
    engineToks ft n (toks.map strip) = engineToks ft n toks := by
  unfold engineToks
  simp only [List.isEmpty_map, List.length_map]
  by_cases he : toks.isEmpty = true
  · simp only [he, if_true]
    have h0 : ¬ (0 > 0) := by omega
    simp only [h0, if_false]
  · simp only [he, Bool.false_eq_true, if_false]
    by_cases hn : n > 0
    · simp only [hn, if_true]
      by_cases hdiv : (toks.length % n != 0) = true
      · simp only [hdiv, if_true]
      · simp only [hdiv, Bool.false_eq_true, if_false]
        have hd : toks.length % n = 0 := by simpa using hdiv
        congr 1
        rw [reshape_map]
        simp only [columnsOf, List.map_map]
        apply List.map_congr_left
        intro j hj
        have hj' : j < n := List.mem_range.mp hj
        simp only [Function.comp]
        rw [columnOf_map_strip]
        have hm := columnOf_mem n toks hd j hj'
        exact typedColumn_strip ft _ (fun t ht => h t (hm t ht)) (fun t ht => hc t (hm t ht))
    · simp only [hn, if_false]

/-- two item lists that agree up to `strip`: same result of the normal engine, whatever `nColumns` is -/
theorem engineToks_congr (ft : FloatTable) (n : Nat) (toks toks' : List Str) (he : toks'.map strip = toks.map strip)
    (h : FtStripOn ft toks) (h' : FtStripOn ft toks') (hc : Converts ft toks) :
    engineToks ft n toks' = engineToks ft n toks := by
  have hc' : Converts ft toks' := by
    intro t ht
    have : strip t ∈ toks.map strip := by rw [← he]; exact List.mem_map_of_mem ht
    obtain ⟨u, hu, e⟩ := List.mem_map.mp this
    rw [h' t ht, ← e, ← h u hu]
    exact hc u hu
  rw [← engineToks_strip ft n toks h hc, ← engineToks_strip ft n toks' h' hc', he]

/-- … in terms of typed columns (one column) -/
theorem typedColumn_congr (ft : FloatTable) (col col' : List Str) (he : col'.map strip = col.map strip)
    (h : FtStripOn ft col) (h' : FtStripOn ft col') (hc : Converts ft col) : typedColumn ft col' = typedColumn ft col := by
  have hc' : Converts ft col' := by
    intro t ht
    have : strip t ∈ col.map strip := by rw [← he]; exact List.mem_map_of_mem ht
    obtain ⟨u, hu, e⟩ := List.mem_map.mp this
    rw [h' t ht, ← e, ← h u hu]
    exact hc u hu
  rw [← typedColumn_strip ft col h hc, ← typedColumn_strip ft col' h' hc', he]

/-- the hypothesis `∀ t, toFloat ft (strip t) = toFloat ft t` about ALL strings can only be met by the empty table (a table is
a finite list): this is why `FtStripOn` speaks about the tokens that are met -/
theorem ftStrip_global_empty (ft : FloatTable) (h : ∀ t, toFloat ft (strip t) = toFloat ft t) : ∀ t, toFloat ft t = none := by
  have hlen : ∀ (ft : FloatTable) (t v : Str), ft.lookup t = some v → t.length ≤ (ft.map (fun kv => kv.1.length)).sum := by
    intro ft
    induction ft with
    | nil => intro t v hl; simp at hl
    | cons kv rest ih =>
      intro t v hl
      simp only [List.lookup] at hl
      split at hl
      · rename_i heq
        have : t = kv.1 := by simpa using heq
        subst this
        simp
      · have := ih t v hl
        simp only [List.map_cons, List.sum_cons]
        omega
  intro t
  cases ht : toFloat ft t with
  | none => rfl
  | some v =>
    exfalso
    let N := (ft.map (fun kv => kv.1.length)).sum
    let t' := List.replicate (N + 1) ' ' ++ strip t
    have hws : AllWs (List.replicate (N + 1) ' ') := by
      intro c hc
      rw [List.eq_of_mem_replicate hc]; decide
    have e1 : strip t' = strip (strip t) := strip_ws_left _ _ hws
    have e2 : toFloat ft t' = some v := by
      rw [← h t', e1, h (strip t), h t, ht]
    have := hlen ft t' v e2
    simp only [t', List.length_append, List.length_replicate] at this
    omega


/-! ## §6 bodies related line by line -/

/-- the physical lines `l`, `l'`: the same blank/comment line, or lines the readers for the delimiters `frm` / `to` read as the
same `c` numeric cells -/
def LineRel (frm to : Dlm) (c : Nat) (l l' : Str) : Prop :=
  (isSkip l = true ∧ l' = l) ∨ ∃ cells, cells.length = c ∧ DRow frm cells l ∧ DRow to cells l'

abbrev BodyRel (frm to : Dlm) (c : Nat) : List Str → List Str → Prop := Forall2 (LineRel frm to c)

theorem forall2_length {α β} {R : α → β → Prop} {l : List α} {l' : List β} (h : Forall2 R l l') : l'.length = l.length := by
  induction h with
  | nil => rfl
  | cons _ _ ih => simp [ih]

/-- every line is a blank/comment line or a line of `c` numeric cells for the delimiter `dlm` -/
def NumBodyD (dlm : Dlm) (c : Nat) (b : List Str) : Prop :=
  ∀ l ∈ b, isSkip l = true ∨ ∃ cells, cells.length = c ∧ DRow dlm cells l

theorem bodyRel_left {frm to : Dlm} {c : Nat} {b b' : List Str} (h : BodyRel frm to c b b') : NumBodyD frm c b := by
  induction h with
  | nil => intro l hl; cases hl
  | cons hl _ ih =>
    intro l hm
    rcases List.mem_cons.mp hm with rfl | hm
    · rcases hl with ⟨hs, _⟩ | ⟨cells, hc, h1, _⟩
      · exact Or.inl hs
      · exact Or.inr ⟨cells, hc, h1⟩
    · exact ih l hm

theorem bodyRel_right {frm to : Dlm} {c : Nat} {b b' : List Str} (h : BodyRel frm to c b b') : NumBodyD to c b' := by
  induction h with
  | nil => intro l hl; cases hl
  | cons hl _ ih =>
    intro l hm
    rcases List.mem_cons.mp hm with rfl | hm
    · rcases hl with ⟨hs, e⟩ | ⟨cells, hc, _, h2⟩
      · subst e; exact Or.inl hs
      · exact Or.inr ⟨cells, hc, h2⟩
    · exact ih l hm

/-- the flat item lists agree up to `strip` -/
theorem bodyRel_tokens {frm to : Dlm} {c : Nat} {sb sb' : Subs} (hsb : SubsOK frm sb) (hsb' : SubsOK to sb') {b b' : List Str}
    (h : BodyRel frm to c b b') : (normalTokens sb' to b').map strip = (normalTokens sb frm b).map strip := by
  induction h with
  | nil => rfl
  | @cons l l' ls ls' hl _ ih =>
    simp only [normalTokens, List.flatMap_cons, List.map_append] at ih ⊢
    rw [ih]
    congr 1
    rcases hl with ⟨hs, e⟩ | ⟨cells, _, h1, h2⟩
    · subst e
      rw [isSkip_lineTokens sb' to l' hs, isSkip_lineTokens sb frm l' hs]
    · rw [drow_lineTokens hsb h1, drow_lineTokens hsb' h2]

/-- the flat item list does not depend on the substitution set -/
theorem numBodyD_tokens_indep {dlm : Dlm} {c : Nat} {sb sb2 : Subs} (hsb : SubsOK dlm sb) (hsb2 : SubsOK dlm sb2) {b : List Str}
    (h : NumBodyD dlm c b) : normalTokens sb dlm b = normalTokens sb2 dlm b := by
  induction b with
  | nil => rfl
  | cons l ls ih =>
    simp only [normalTokens, List.flatMap_cons] at ih ⊢
    rw [ih (fun x hx => h x (List.mem_cons_of_mem _ hx))]
    congr 1
    rcases h l (by simp) with hs | ⟨cells, _, h1⟩
    · rw [isSkip_lineTokens sb dlm l hs, isSkip_lineTokens sb2 dlm l hs]
    · rw [drow_lineTokens_raw hsb h1, drow_lineTokens_raw hsb2 h1]

/-! ### the sniffer -/

/-- the item counts the sniffer records, one per sampled line -/
def countsOf (sb : Subs) (dlm : Dlm) (body : List Str) : List Nat :=
  (body.filterMap sampleLine).map (fun l => (splitLine dlm (applySubs sb l)).length)

/-- the number of data lines (lines the sniffer samples) -/
def dataCount (body : List Str) : Nat := (body.filterMap sampleLine).length

theorem sniffB_count (sb : Subs) (dlm : Dlm) (body : List Str) :
    (sniffB sb dlm body).count = consistent ((countsOf sb dlm body).take 21) := by
  unfold sniffB countsOf
  simp only [List.map_take]

theorem numBodyD_counts {dlm : Dlm} {c : Nat} {sb : Subs} (hsb : SubsOK dlm sb) {b : List Str} (h : NumBodyD dlm c b) :
    countsOf sb dlm b = List.replicate (dataCount b) c := by
  induction b with
  | nil => rfl
  | cons l ls ih =>
    have ih' := ih (fun x hx => h x (List.mem_cons_of_mem _ hx))
    unfold countsOf dataCount at ih' ⊢
    rcases h l (by simp) with hs | ⟨cells, hc, h1⟩
    · simp only [List.filterMap_cons, sampleLine_eq l, hs, if_true]
      exact ih'
    · obtain ⟨s, h2, h3⟩ := drow_sample h1
      simp only [List.filterMap_cons, h2, List.map_cons, List.length_cons, List.replicate_succ, ih', h3 sb hsb, hc]

theorem bodyRel_dataCount {frm to : Dlm} {c : Nat} {b b' : List Str} (h : BodyRel frm to c b b') : dataCount b' = dataCount b := by
  induction h with
  | nil => rfl
  | @cons l l' ls ls' hl _ ih =>
    unfold dataCount at ih ⊢
    rcases hl with ⟨hs, e⟩ | ⟨cells, _, h1, h2⟩
    · subst e
      simp only [List.filterMap_cons, sampleLine_eq l', hs, if_true]
      exact ih
    · obtain ⟨s, e1, _⟩ := drow_sample h1
      obtain ⟨s', e2, _⟩ := drow_sample h2
      simp only [List.filterMap_cons, e1, e2, List.length_cons, ih]

/-- the sniffed column count (after the at most one accepted recommendation): `c` when there is a data line, none otherwise -/
theorem numBodyD_sniffTwiceB {dlm : Dlm} {c : Nat} {sb : Subs} (hsb : SubsOK dlm sb) {b : List Str} (h : NumBodyD dlm c b) :
    (sniffTwiceB sb dlm b).2 = consistent ((List.replicate (dataCount b) c).take 21) := by
  unfold sniffTwiceB
  simp only
  split
  · simp only [sniffB_count, numBodyD_counts (subsOK_dropHyphen hsb) h]
  · simp only [sniffB_count, numBodyD_counts hsb h]

theorem consistent_replicate (k c : Nat) (hk : 0 < k) : consistent ((List.replicate k c).take 21) = some c := by
  apply consistent_const
  · intro e
    have := congrArg List.length e
    simp at this
    omega
  · intro x hx
    exact List.eq_of_mem_replicate (List.mem_of_mem_take hx)

theorem sniffTwiceB_subsOK {dlm : Dlm} {sb : Subs} (hsb : SubsOK dlm sb) (b : List Str) : SubsOK dlm (sniffTwiceB sb dlm b).1 := by
  rcases sniffTwiceB_subs sb dlm b with e | e <;> rw [e]
  · exact hsb
  · exact subsOK_dropHyphen hsb

/-! ### the normal engine, `readBody` -/

/-- the steering values with another delimiter -/
def withDlm (st : Steer) (to : Dlm) : Steer := { st with delimiter := to }

/-- NORMAL ENGINE, one window: bodies related line by line are read alike, the second with the steering delimiter `to` — sniffer
(sample of 21 data lines, hyphen rule) included -/
theorem normalRead_rel (o : DataOpts) (st : Steer) (to : Dlm) (d : Nat) (ft : FloatTable) {c : Nat} {b b' : List Str}
    (h : BodyRel st.delimiter to c b b')
    (hS : FtStripOn ft (normalTokens (readSubs st.delimiter) st.delimiter b))
    (hS' : FtStripOn ft (normalTokens (readSubs to) to b'))
    (hC : Converts ft (normalTokens (readSubs st.delimiter) st.delimiter b)) :
    normalRead o (withDlm st to) d ft b' = normalRead o st d ft b := by
  have hl := bodyRel_left h
  have hr := bodyRel_right h
  have k1 := sniffTwiceB_subsOK (subsOK_readSubs st.delimiter) b
  have k2 := sniffTwiceB_subsOK (subsOK_readSubs to) b'
  have s1 := numBodyD_sniffTwiceB (subsOK_readSubs st.delimiter) hl
  have s2 := numBodyD_sniffTwiceB (subsOK_readSubs to) hr
  rw [bodyRel_dataCount h] at s2
  unfold normalRead
  show (normalEngineLines ft (sniffTwiceB (readSubs to) to b').1 to
      (readerColumns (withDlm st to) d (sniffTwiceB (readSubs to) to b').2) b').map (finishCols o (withDlm st to) d .normal) = _
  rw [s1, s2, normalEngineLines_eq, normalEngineLines_eq]
  have e1 : normalTokens (sniffTwiceB (readSubs st.delimiter) st.delimiter b).1 st.delimiter b =
      normalTokens (readSubs st.delimiter) st.delimiter b := numBodyD_tokens_indep k1 (subsOK_readSubs _) hl
  have e2 : normalTokens (sniffTwiceB (readSubs to) to b').1 to b' = normalTokens (readSubs to) to b' :=
    numBodyD_tokens_indep k2 (subsOK_readSubs _) hr
  rw [e1, e2]
  rw [engineToks_congr ft _ _ _ (bodyRel_tokens (subsOK_readSubs st.delimiter) (subsOK_readSubs to) h) hS hS' hC]
  rfl

theorem effectiveEngine_withDlm (o : DataOpts) (st : Steer) (to : Dlm) : effectiveEngine o (withDlm st to) = effectiveEngine o st := rfl

/-- `readData` on the window, normal engine in effect (engine='normal', a wrapped file, or a non-strict null policy) -/
theorem readBody_rel_normal (o : DataOpts) (st : Steer) (to : Dlm) (d : Nat) (ft : FloatTable) {c : Nat} {b b' : List Str}
    (after after' : List Str) (he : effectiveEngine o st = .normal)
    (h : BodyRel st.delimiter to c b b')
    (hS : FtStripOn ft (normalTokens (readSubs st.delimiter) st.delimiter b))
    (hS' : FtStripOn ft (normalTokens (readSubs to) to b'))
    (hC : Converts ft (normalTokens (readSubs st.delimiter) st.delimiter b)) :
    readBody o (withDlm st to) d ft b' after' = readBody o st d ft b after := by
  unfold readBody
  simp only [effectiveEngine_withDlm, he]
  exact normalRead_rel o st to d ft h hS hS' hC

theorem bodyRel_npRows {frm to : Dlm} (hf : frm ≠ .comma) (ht : to ≠ .comma) {c : Nat} {b b' : List Str}
    (h : BodyRel frm to c b b') : npRows b' = npRows b := by
  induction h with
  | nil => rfl
  | @cons l l' ls ls' hl _ ih =>
    rw [npRows_cons, npRows_cons, ih]
    rcases hl with ⟨_, e⟩ | ⟨cells, _, h1, h2⟩
    · rw [e]
    · rw [drow_npTokens hf h1, drow_npTokens ht h2]

/-- `readData` on the window, any engine, SPACE / TAB delimiters on both sides (a TAB is white space for genfromtxt): the same
answer from the same engine -/
theorem readBody_rel_ws (o : DataOpts) (st : Steer) (to : Dlm) (d : Nat) (ft : FloatTable) {c : Nat} {b b' : List Str}
    (after : List Str) (hf : st.delimiter ≠ .comma) (ht : to ≠ .comma)
    (h : BodyRel st.delimiter to c b b')
    (hS : FtStripOn ft (normalTokens (readSubs st.delimiter) st.delimiter b))
    (hS' : FtStripOn ft (normalTokens (readSubs to) to b'))
    (hC : Converts ft (normalTokens (readSubs st.delimiter) st.delimiter b)) :
    readBody o (withDlm st to) d ft b' after = readBody o st d ft b after := by
  have hn := normalRead_rel o st to d ft h hS hS' hC
  have hlen : b'.length = b.length := forall2_length h
  have hnp : numpyEngineLines ft b'.length (b' ++ after) = numpyEngineLines ft b.length (b ++ after) := by
    rw [numpyEngineLines_rows, numpyEngineLines_rows, npRows_append, npRows_append, bodyRel_npRows hf ht h, hlen]
  unfold readBody
  rw [effectiveEngine_withDlm, hnp, hn]
  rfl


/-! ### the transformations produce related bodies -/

/-- every line of the body is a blank/comment line or a data line of `c` plain decimal cells (cut with `frm`) -/
def numBody (frm : Dlm) (c : Nat) (body : List Str) : Bool :=
  body.all fun l => isSkip l || (numCells frm l && (cellsOf frm (splitEol l).1).length == c)

theorem numBody_line {frm : Dlm} {c : Nat} {body : List Str} (h : numBody frm c body = true) :
    ∀ l ∈ body, isSkip l = true ∨ (numCells frm l = true ∧ (cellsOf frm (splitEol l).1).length = c) := by
  intro l hl
  unfold numBody at h
  have := List.all_eq_true.mp h l hl
  simpa using this

theorem numBody_cons {frm : Dlm} {c : Nat} {l : Str} {ls : List Str} (h : numBody frm c (l :: ls) = true) :
    numBody frm c ls = true := by
  unfold numBody at h ⊢
  simp only [List.all_cons, Bool.and_eq_true] at h
  exact h.2

theorem numBody_numBodyD {frm : Dlm} {c : Nat} {body : List Str} (h : numBody frm c body = true) : NumBodyD frm c body := by
  intro l hl
  rcases numBody_line h l hl with hs | ⟨hn, hc⟩
  · exact Or.inl hs
  · exact Or.inr ⟨_, hc, drow_of_numCells frm l hn⟩

theorem lineRel_refl {dlm : Dlm} {c : Nat} {l : Str} (h : isSkip l = true ∨ ∃ cells, cells.length = c ∧ DRow dlm cells l) :
    LineRel dlm dlm c l l := by
  rcases h with hs | ⟨cells, hc, h1⟩
  · exact Or.inl ⟨hs, rfl⟩
  · exact Or.inr ⟨cells, hc, h1, h1⟩

theorem bodyRel_refl {dlm : Dlm} {c : Nat} {b : List Str} (h : NumBodyD dlm c b) : BodyRel dlm dlm c b b := by
  induction b with
  | nil => exact .nil
  | cons l ls ih => exact .cons (lineRel_refl (h l (by simp))) (ih (fun x hx => h x (List.mem_cons_of_mem _ hx)))

theorem lineRel_relay {frm to : Dlm} {c : Nat} (seps : List Str) (hs : SepsOK to seps) {l : Str} (hn : numCells frm l = true)
    (hc : (cellsOf frm (splitEol l).1).length = c) : LineRel frm to c l (relayLine1 frm to seps l) :=
  Or.inr ⟨_, hc, drow_of_numCells frm l hn, drow_relay frm to seps l hn hs⟩

/-- RE-DELIMITING: the body and the re-laid body are related -/
theorem bodyRel_relayBody (frm to : Dlm) (c : Nat) (seps : List Str) (body : List Str) (hb : numBody frm c body = true)
    (hs : SepsOK to seps) : BodyRel frm to c body (relayBody frm to seps body) := by
  induction body with
  | nil => exact .nil
  | cons l ls ih =>
    simp only [relayBody, List.map_cons]
    refine .cons ?_ (ih (numBody_cons hb))
    rcases numBody_line hb l (by simp) with hsk | ⟨hn, hc⟩
    · simp only [hsk, if_true]
      exact Or.inl ⟨hsk, rfl⟩
    · have : isSkip l = false := drow_not_skip (drow_of_numCells frm l hn)
      simp only [this, Bool.false_eq_true, if_false]
      exact lineRel_relay seps hs hn hc

/-- RE-PADDING one line (`repadLine`): the body and the body with line `k` re-laid are related -/
theorem bodyRel_mapAt (dlm : Dlm) (c : Nat) (seps : List Str) (body : List Str) (k : Nat) (hb : numBody dlm c body = true)
    (hs : SepsOK dlm seps) (hk : ∀ l, body[k]? = some l → isSkip l = false) :
    BodyRel dlm dlm c body (mapAt k (relayLine1 dlm dlm seps) body) := by
  induction body generalizing k with
  | nil => simp only [mapAt]; exact .nil
  | cons l ls ih =>
    cases k with
    | zero =>
      simp only [mapAt]
      refine .cons ?_ (bodyRel_refl (numBody_numBodyD (numBody_cons hb)))
      rcases numBody_line hb l (by simp) with hsk | ⟨hn, hc⟩
      · have := hk l (by simp)
        rw [hsk] at this
        cases this
      · exact lineRel_relay seps hs hn hc
    | succ k =>
      simp only [mapAt]
      refine .cons (lineRel_refl ?_) (ih k (numBody_cons hb) (fun x hx => hk x (by simpa using hx)))
      exact numBody_numBodyD hb l (by simp)


theorem dataCount_pos (body : List Str) (h : ∃ l ∈ body, isSkip l = false) : 0 < dataCount body := by
  obtain ⟨l, hl, hs⟩ := h
  unfold dataCount
  induction body with
  | nil => cases hl
  | cons a rest ih =>
    simp only [List.filterMap_cons]
    rcases List.mem_cons.mp hl with rfl | hl
    · simp [sampleLine_eq, hs]
    · have := ih hl
      cases sampleLine a
      · simpa using this
      · simp

/-- with the numpy engine in effect and the engines agreeing on the window alone: the curves are those of the normal engine,
whatever follows the window (the end of the file or a title line) -/
theorem readBody_alone (o : DataOpts) (st : Steer) (d : Nat) (ft : FloatTable) (b after : List Str) (ha : AfterOK ft after)
    (hag : AgreeAlone o st d ft b) : (readBody o st d ft b after).map Prod.snd = (normalRead o st d ft b).map Prod.snd := by
  rw [readBody_sim o st d ft (bodySim_refl st.delimiter b) ha (afterOK_nil ft) hag]
  exact hag

/-! ### the documents the transformations produce -/

theorem mapAt_append_left (k : Nat) (f : Str → Str) (A r : Doc) (hk : k < A.length) : mapAt k f (A ++ r) = mapAt k f A ++ r := by
  induction A generalizing k with
  | nil => simp at hk
  | cons a A ih =>
    cases k with
    | zero => rfl
    | succ k => simp only [List.cons_append, mapAt]; rw [ih k (by simpa using hk)]

theorem mapAt_append_right (k : Nat) (f : Str → Str) (A r : Doc) : mapAt (A.length + k) f (A ++ r) = A ++ mapAt k f r := by
  induction A with
  | nil => simp
  | cons a A ih =>
    have : (a :: A).length + k = (A.length + k) + 1 := by simp; omega
    rw [this]
    simp only [List.cons_append, mapAt, ih]

theorem mapAt_length (k : Nat) (f : Str → Str) (d : Doc) : (mapAt k f d).length = d.length := by
  induction d generalizing k with
  | nil => simp [mapAt]
  | cons a d ih => cases k <;> simp [mapAt, ih]

theorem insLine_append (k : Nat) (l : Str) (A r : Doc) (hk : k ≤ A.length) : insLine k l (A ++ r) = insLine k l A ++ r := by
  unfold insLine
  rw [List.take_append_of_le_length hk, List.drop_append_of_le_length hk]
  simp

theorem relayBody_length (frm to : Dlm) (seps : List Str) (body : List Str) : (relayBody frm to seps body).length = body.length := by
  simp [relayBody]

/-- the lines before the data section after the DLM item was replaced (`replace`) or inserted -/
def redelimHead (vk : Nat) (replace : Bool) (to : Dlm) (A : Doc) : Doc :=
  if replace then mapAt vk (fun l => dlmItemLine to ++ (splitEol l).2) A else insLine vk (dlmItemLine to) A

/-- `redelim` on a document given by its parts: lines `A` before the title `t` of the data section, its `body`, the lines
`after` it; the DLM item is line `vk` of `A` (`replace`) or is inserted before line `vk ≤ |A|` -/
theorem redelim_window (A : Doc) (t : Str) (body after : Doc) (vk : Nat) (replace : Bool) (frm to : Dlm) (seps : List Str)
    (hvk : vk ≤ A.length) (hrep : replace = true → vk < A.length) :
    redelim A.length (A.length + body.length) vk replace frm to seps (A ++ t :: (body ++ after)) =
      redelimHead vk replace to A ++ t :: (relayBody frm to seps body ++ after) := by
  unfold redelim redelimHead
  have e1 : (A ++ t :: (body ++ after)).take (A.length + 1) = A ++ [t] := by
    rw [List.take_append, List.take_of_length_le (by omega)]
    simp
  have e2 : (A ++ t :: (body ++ after)).drop (A.length + body.length + 1) = after := by
    have : A ++ t :: (body ++ after) = (A ++ t :: body) ++ after := by simp
    rw [this]
    have hl : (A ++ t :: body).length = A.length + body.length + 1 := by simp; omega
    rw [← hl, List.drop_left]
  simp only [e1, e2, bodyLines_at]
  have e3 : A ++ [t] ++ relayBody frm to seps body ++ after = A ++ (t :: (relayBody frm to seps body ++ after)) := by simp
  rw [e3]
  cases replace with
  | true =>
    simp only [if_true]
    exact mapAt_append_left vk _ A _ (hrep rfl)
  | false =>
    simp only [Bool.false_eq_true, if_false]
    exact insLine_append vk _ A _ hvk

/-- `repadLine` on line `j` of the body of a data section -/
theorem repadLine_window (A : Doc) (t : Str) (body after : Doc) (j : Nat) (dlm : Dlm) (seps : List Str) (hj : j < body.length) :
    repadLine (A.length + 1 + j) dlm seps (A ++ t :: (body ++ after)) =
      A ++ t :: (mapAt j (relayLine1 dlm dlm seps) body ++ after) := by
  unfold repadLine
  have e : A ++ t :: (body ++ after) = (A ++ [t]) ++ (body ++ after) := by simp
  have hl : A.length + 1 + j = (A ++ [t]).length + j := by simp
  rw [e, hl, mapAt_append_right, mapAt_append_left j _ body after hj]
  simp


/-! ### whole file: `repadLine` for any delimiter, numeric cells -/

theorem drow_not_title {dlm : Dlm} {cells : List Str} {l : Str} (h : DRow dlm cells l) : Rd.isTitle l = false := by
  obtain ⟨core, hcore, hcl⟩ := drow_clean h
  rw [Rd.isTitle_eq, ← cleanLine_eq_strip, hcl]
  obtain ⟨c, cs, rfl, hc⟩ := sepd_head hcore
  have hne : c ≠ '~' := by
    have := plainChar_ne c '~' hc (by decide)
    simpa using this
  cases hst : Rd.startsTilde (c :: cs) with
  | false => rfl
  | true =>
    obtain ⟨t, e⟩ := (Rd.startsTilde_iff _).mp hst
    cases e
    exact absurd rfl hne

theorem mapAt_mem (k : Nat) (f : Str → Str) (d : Doc) : ∀ x ∈ mapAt k f d, x ∈ d ∨ ∃ y ∈ d, x = f y := by
  induction d generalizing k with
  | nil => intro x hx; simp [mapAt] at hx
  | cons a d ih =>
    intro x hx
    cases k with
    | zero =>
      simp only [mapAt] at hx
      rcases List.mem_cons.mp hx with rfl | hx
      · exact Or.inr ⟨a, by simp, rfl⟩
      · exact Or.inl (List.mem_cons_of_mem _ hx)
    | succ k =>
      simp only [mapAt] at hx
      rcases List.mem_cons.mp hx with rfl | hx
      · exact Or.inl (by simp)
      · rcases ih k x hx with h | ⟨y, hy, e⟩
        · exact Or.inl (List.mem_cons_of_mem _ h)
        · exact Or.inr ⟨y, List.mem_cons_of_mem _ hy, e⟩

/-- `repadLine` on the document structure: line `j` of the body of the addressed data section is re-laid -/
theorem repadLine_struct (pre : List Str) (s₁ s₂ : List (Str × List Str)) (t : Str) (body : List Str) (j : Nat) (dlm : Dlm)
    (seps : List Str) (hj : j < body.length) :
    repadLine (pre.length + Rd.size s₁ + 1 + j) dlm seps (pre ++ Rd.flat (s₁ ++ (t, body) :: s₂)) =
      pre ++ Rd.flat (s₁ ++ (t, mapAt j (relayLine1 dlm dlm seps) body) :: s₂) := by
  have hA : (pre ++ Rd.flat s₁).length = pre.length + Rd.size s₁ := by simp [size_eq_flat_length]
  have e : ∀ b, pre ++ Rd.flat (s₁ ++ (t, b) :: s₂) = (pre ++ Rd.flat s₁) ++ t :: (b ++ Rd.flat s₂) := by
    intro b; simp [flat_append, Rd.flat]
  rw [e, e, ← hA]
  exact repadLine_window (pre ++ Rd.flat s₁) t body (Rd.flat s₂) j dlm seps hj

/-- STEP for `repadLine` with any delimiter: numeric cells, `float()` ignoring the blanks around the items met; the normal
engine in effect, or a delimiter other than COMMA -/
theorem base_repad_delimited (o : Opts) (nullOf : Option Str → Option Str) (ft : FloatTable) (htf : TildeNotFloat ft)
    (pre : List Str) (s₁ s₂ : List (Str × List Str)) (t : Str) (body : List Str) (j : Nat) (dlm : Dlm) (seps : List Str) (c : Nat)
    (r : FullRead) (hpre : ∀ x ∈ pre, Rd.isTitle x = false) (hw : Rd.WellFormed (s₁ ++ (t, body) :: s₂))
    (hk : isDataKind (kindOf t)) (hj : j < body.length) (hdata : ∀ l, body[j]? = some l → isSkip l = false)
    (hb : Base o nullOf ft (pre ++ Rd.flat (s₁ ++ (t, body) :: s₂)) r)
    (hdlm : (dtSteer nullOf r.steer).delimiter = dlm)
    (heng : effectiveEngine o.dat (dtSteer nullOf r.steer) = .normal ∨ dlm ≠ .comma)
    (hnb : numBody dlm c body = true) (hs : SepsOK dlm seps)
    (hS : FtStripOn ft (normalTokens (readSubs dlm) dlm body))
    (hS' : FtStripOn ft (normalTokens (readSubs dlm) dlm (mapAt j (relayLine1 dlm dlm seps) body)))
    (hC : Converts ft (normalTokens (readSubs dlm) dlm body)) :
    ∃ r', Base o nullOf ft (repadLine (pre.length + Rd.size s₁ + 1 + j) dlm seps
        (pre ++ Rd.flat (s₁ ++ (t, body) :: s₂))) r' ∧ r'.steer = r.steer ∧ r'.parsed = r.parsed := by
  rw [repadLine_struct pre s₁ s₂ t body j dlm seps hj]
  have hrelB := bodyRel_mapAt dlm c seps body j hnb hs hdata
  have hw' : Rd.WellFormed (s₁ ++ (t, mapAt j (relayLine1 dlm dlm seps) body) :: s₂) := by
    intro tb htb
    rcases List.mem_append.mp htb with h | h
    · exact hw tb (List.mem_append_left _ h)
    · rcases List.mem_cons.mp h with rfl | h
      · refine ⟨(hw (t, body) (by simp)).1, ?_⟩
        intro x hx
        rcases bodyRel_right hrelB x hx with hsk | ⟨cells, _, hd⟩
        · cases hti : Rd.isTitle x with
          | false => rfl
          | true =>
            -- a skip line is not a title line: its clean text is empty or starts with '#'
            exfalso
            rw [Rd.isTitle_eq, ← cleanLine_eq_strip] at hti
            obtain ⟨u, hu⟩ := (Rd.startsTilde_iff _).mp hti
            unfold isSkip at hsk
            rw [hu] at hsk
            simp [isComment, startsWith] at hsk
        · exact drow_not_title hd
      · exact hw tb (List.mem_append_right _ (List.mem_cons_of_mem _ h))
  let G : Steer → Nat → List Str → Prop := fun st d x =>
    AgreeAlone o.dat st d ft x ∧ st.delimiter = dlm ∧ (effectiveEngine o.dat st = .normal ∨ dlm ≠ .comma)
  have hGA : ∀ st d x, G st d x → AgreeAlone o.dat st d ft x := fun st d x hg => hg.1
  have hsec : SecRel (t, body) (t, mapAt j (relayLine1 dlm dlm seps) body) := by
    refine ⟨rfl, ?_, ?_⟩
    · intro hi; rcases hk with h | h <;> rw [hi] at h <;> cases h
    · intro hi; rcases hk with h | h <;> rw [hi] at h <;> cases h
  -- the window, read with the steering values `st` (delimiter `dlm`)
  have hwin : ∀ (st : Steer) (d : Nat) (after : List Str), st.delimiter = dlm →
      (effectiveEngine o.dat st = .normal ∨ dlm ≠ .comma) →
      readBody o.dat st d ft (mapAt j (relayLine1 dlm dlm seps) body) after = readBody o.dat st d ft body after := by
    intro st d after hd he
    subst hd
    rcases he with he | he
    · exact readBody_rel_normal o.dat st st.delimiter d ft after after he hrelB hS hS' hC
    · exact readBody_rel_ws o.dat st st.delimiter d ft after he he hrelB hS hS' hC
  have hrel := docRel_replace o.dat ft htf G hGA s₁ s₂ t body (mapAt j (relayLine1 dlm dlm seps) body) hw hw' hsec
    (fun _ st d hg => by rw [hwin st d (Rd.flat s₂) hg.2.1 hg.2.2])
  have hG : AllData (G (dtSteer nullOf r.steer) (declaredCount r.sections)) (s₁ ++ (t, body) :: s₂) := by
    intro tb htb hkk
    refine ⟨?_, hdlm, heng⟩
    have := hb.agree
    rw [parse_struct pre _ hpre hw] at this
    exact this tb htb hkk
  obtain ⟨r', h1, h2, h3⟩ := readFull_rel o nullOf ft G pre pre _ _ hpre hpre hw hw' hrel r hb.read hG
  refine ⟨r', ⟨h1, ?_⟩, h2, h3⟩
  have hsecs : r'.sections = r.sections := congrArg Parsed.sections h3
  rw [h2, hsecs, parse_struct pre _ hpre hw']
  have hag := hb.agree
  rw [parse_struct pre _ hpre hw] at hag
  intro tb htb hkk
  rcases List.mem_append.mp htb with h | h
  · exact hag tb (List.mem_append_left _ h) hkk
  · rcases List.mem_cons.mp h with rfl | h
    · have h0 : AgreeAlone o.dat (dtSteer nullOf r.steer) (declaredCount r.sections) ft body := hag (t, body) (by simp) hk
      unfold AgreeAlone at h0 ⊢
      have e2 : normalRead o.dat (dtSteer nullOf r.steer) (declaredCount r.sections) ft (mapAt j (relayLine1 dlm dlm seps) body) =
          normalRead o.dat (dtSteer nullOf r.steer) (declaredCount r.sections) ft body := by
        subst hdlm
        exact normalRead_rel o.dat _ _ _ ft hrelB hS hS' hC
      rw [hwin _ _ [] hdlm heng, e2]
      exact h0
    · exact hag tb (List.mem_append_right _ (List.mem_cons_of_mem _ h)) hkk


/-! ### genfromtxt on COMMA-delimited windows -/

/-- `float()` rejects a token that contains a comma -/
def CommaNotFloat (ft : FloatTable) : Prop := ∀ t : Str, ',' ∈ t → toFloat ft t = none

theorem mem_word_of_mem (s : Str) (c : Char) (hc : c ∈ s) (hns : isPySpace c = false) : ∃ w ∈ pySplit s, c ∈ w := by
  induction s using words_induction with
  | nil => cases hc
  | ws b cs hb ih =>
    rw [pySplit_ws b cs hb]
    rcases List.mem_cons.mp hc with rfl | hc
    · rw [hb] at hns; cases hns
    · exact ih hc
  | word w tail _ _ hsp ih =>
    rw [hsp]
    rcases List.mem_append.mp hc with hc | hc
    · exact ⟨w, by simp, hc⟩
    · obtain ⟨w', hw', hcw⟩ := ih hc
      exact ⟨w', List.mem_cons_of_mem _ hw', hcw⟩

theorem sepd_comma_mem {cells : List Str} {s : Str} (h : Sepd .comma cells s) (hc : 2 ≤ cells.length) : ',' ∈ s := by
  cases h with
  | one _ => simp at hc
  | cons _ hs _ =>
    obtain ⟨a, b, rfl, _, _⟩ := hs
    simp

/-- a COMMA-delimited line of two or more numeric cells has a genfromtxt token with a comma in it -/
theorem drow_comma_token {cells : List Str} {l : Str} (h : DRow .comma cells l) (hc : 2 ≤ cells.length) :
    ∃ tk ∈ npTokens l, ',' ∈ tk := by
  obtain ⟨pre, core, post, hpre, hpost, hcore, rfl⟩ := h
  have hnh : ∀ c ∈ pre ++ (core ++ post), (c != '#') = true := by
    intro c hcm
    simp only [List.mem_append] at hcm
    rcases hcm with hcm | hcm | hcm
    · exact allWs_no_hash pre hpre c hcm
    · rcases sepd_chars hcore c hcm with h1 | h1 | rfl
      · simp [bne, (tokChar_parts c (plainChar_tokChar c h1)).2.2.2.1]
      · simp [bne, ws_ne_hash c h1]
      · decide
    · exact allWs_no_hash post hpost c hcm
  unfold npTokens
  rw [Lasio.Dt.takeWhile_all _ _ hnh]
  apply mem_word_of_mem _ ',' _ (by decide)
  simp only [List.mem_append]
  exact Or.inr (Or.inl (sepd_comma_mem hcore hc))

theorem collectRows_len (c b : Nat) (rows rs : List (List Str)) (h : collectRows c b rows = some rs) : ∀ r ∈ rs, r.length = c := by
  induction rows generalizing b rs with
  | nil => cases b <;> simp [collectRows] at h <;> subst h <;> simp
  | cons t rest ih =>
    cases b with
    | zero => simp [collectRows] at h; subst h; simp
    | succ b =>
      simp only [collectRows] at h
      split at h
      · cases h
      · rename_i hlen
        cases hc : collectRows c b rest with
        | none => simp [hc] at h
        | some r2 =>
          simp [hc] at h
          subst h
          intro r hr
          rcases List.mem_cons.mp hr with rfl | hr
          · simpa using hlen
          · exact ih b r2 hc r hr

/-- a row with a token `float()` rejects, among the first `m` rows: genfromtxt raises -/
theorem numpyRows_bad_token (ft : FloatTable) (m : Nat) (rows : List (List Str)) (row : List Str) (tk : Str)
    (hrow : row ∈ rows.take m) (htk : tk ∈ row) (hnf : toFloat ft tk = none) : numpyRows ft m rows = none := by
  unfold numpyRows
  split
  · rfl
  · cases hh : rows.head? with
    | none =>
      have : rows = [] := by cases rows <;> simp at hh ⊢
      subst this
      simp at hrow
    | some r =>
      simp only
      cases hcol : collectRows r.length m rows with
      | none => rfl
      | some rs =>
        simp only
        have hrs := collectRows_some _ _ _ _ hcol
        have hlen := collectRows_len _ _ _ _ hcol row (by rw [hrs]; exact hrow)
        obtain ⟨i, hi, hget⟩ := List.getElem_of_mem htk
        have hcolmem : columnOf rs i ∈ columnsOf r.length rs := by
          simp only [columnsOf, List.mem_map, List.mem_range]
          exact ⟨i, by omega, rfl⟩
        apply allFloatCols_none_of_mem ft _ _ tk hcolmem _ hnf
        simp only [columnOf, List.mem_map]
        refine ⟨row, by rw [hrs]; exact hrow, ?_⟩
        rw [List.getD_eq_getElem?_getD, List.getElem?_eq_getElem hi, hget]
        rfl

theorem mem_npRows (b : List Str) (l : Str) (hl : l ∈ b) (hne : npTokens l ≠ []) : npTokens l ∈ npRows b := by
  unfold npRows
  rw [List.mem_filter]
  refine ⟨List.mem_map_of_mem hl, ?_⟩
  cases h : npTokens l with
  | nil => exact absurd h hne
  | cons _ _ => rfl

/-- GENFROMTXT RAISES on a COMMA-delimited window with a data line of two or more numeric cells, whatever follows it -/
theorem numpy_raises_comma (ft : FloatTable) (hcf : CommaNotFloat ft) {c : Nat} {b : List Str} (h : NumBodyD .comma c b)
    (hc : 2 ≤ c) (hd : ∃ l ∈ b, isSkip l = false) (after : List Str) :
    numpyEngineLines ft b.length (b ++ after) = none := by
  obtain ⟨l, hl, hns⟩ := hd
  rcases h l hl with hs | ⟨cells, hlen, hrow⟩
  · rw [hs] at hns; cases hns
  · obtain ⟨tk, htk, hcomma⟩ := drow_comma_token hrow (by omega)
    have hne : npTokens l ≠ [] := by intro e; rw [e] at htk; cases htk
    rw [numpyEngineLines_rows, npRows_append]
    apply numpyRows_bad_token ft _ _ (npTokens l) tk _ htk (hcf tk hcomma)
    rw [List.take_append, List.take_of_length_le (npRows_length_le b)]
    exact List.mem_append_left _ (mem_npRows b l hl hne)

/-- a COMMA-delimited window (a data line of two or more numeric cells) is read by the normal engine, whatever engine is asked for -/
theorem readBody_comma (o : DataOpts) (st : Steer) (d : Nat) (ft : FloatTable) (hcf : CommaNotFloat ft) {c : Nat} {b : List Str}
    (h : NumBodyD .comma c b) (hc : 2 ≤ c) (hd : ∃ l ∈ b, isSkip l = false) (after : List Str) :
    readBody o st d ft b after = normalRead o st d ft b := by
  unfold readBody
  cases effectiveEngine o st with
  | normal => rfl
  | numpy => simp only [numpy_raises_comma ft hcf h hc hd after]

theorem bodyRel_data {frm to : Dlm} {c : Nat} {b b' : List Str} (h : BodyRel frm to c b b') (hd : ∃ l ∈ b, isSkip l = false) :
    ∃ l ∈ b', isSkip l = false := by
  induction h with
  | nil => obtain ⟨l, hl, _⟩ := hd; cases hl
  | @cons l l' ls ls' hl _ ih =>
    obtain ⟨x, hx, hxs⟩ := hd
    rcases List.mem_cons.mp hx with rfl | hx
    · rcases hl with ⟨hs, _⟩ | ⟨cells, _, _, h2⟩
      · rw [hs] at hxs; cases hxs
      · exact ⟨l', by simp, drow_not_skip h2⟩
    · obtain ⟨y, hy, hys⟩ := ih ⟨x, hx, hxs⟩
      exact ⟨y, List.mem_cons_of_mem _ hy, hys⟩

/-! ### the header-level reader does not see the re-laid body -/

theorem dataWins_body_congr (k : Rd.SecKind) (s₁ s₂ : List (Str × List Str)) (t : Str) (b b' : List Str) (hl : b'.length = b.length)
    (n : Nat) : dataWins k (s₁ ++ (t, b') :: s₂) n = dataWins k (s₁ ++ (t, b) :: s₂) n := by
  induction s₁ generalizing n with
  | nil => simp only [List.nil_append, dataWins, secWin, hl]
  | cons x rest ih => simp only [List.cons_append, dataWins, ih]

theorem forall2_secRel_replace (s₁ s₂ : List (Str × List Str)) (t : Str) (b b' : List Str) (h : SecRel (t, b) (t, b')) :
    Forall2 SecRel (s₁ ++ (t, b) :: s₂) (s₁ ++ (t, b') :: s₂) := by
  induction s₁ with
  | nil =>
    refine .cons h ?_
    induction s₂ with
    | nil => exact .nil
    | cons x rest ih => exact .cons (secRel_refl x) ih
  | cons x rest ih => exact .cons (secRel_refl x) ih

theorem relayBody_no_title (frm to : Dlm) (c : Nat) (seps : List Str) (body : List Str) (hb : numBody frm c body = true)
    (hs : SepsOK to seps) (hnt : ∀ x ∈ body, Rd.isTitle x = false) : ∀ x ∈ relayBody frm to seps body, Rd.isTitle x = false := by
  intro x hx
  simp only [relayBody, List.mem_map] at hx
  obtain ⟨l, hl, rfl⟩ := hx
  split
  · exact hnt l hl
  · rename_i hsk
    rcases numBody_line hb l hl with h | ⟨hn, _⟩
    · exact absurd h hsk
    · exact drow_not_title (drow_relay frm to seps l hn hs)

/-- HEADER LEVEL: the document with the body of one data section re-laid reads to the same sections, the same steering values
and the same data windows -/
theorem readLines_relayBody (o : Rd.ReadOpts) (pre : List Str) (s₁ s₂ : List (Str × List Str)) (t : Str) (body : List Str)
    (frm to : Dlm) (c : Nat) (seps : List Str) (hpre : ∀ x ∈ pre, Rd.isTitle x = false)
    (hw : Rd.WellFormed (s₁ ++ (t, body) :: s₂)) (hk : isDataKind (kindOf t)) (hb : numBody frm c body = true) (hs : SepsOK to seps)
    (h : Rd.RHeader) (hr : Rd.readLines o (pre ++ Rd.flat (s₁ ++ (t, body) :: s₂)) = .ok h) :
    Rd.readLines o (pre ++ Rd.flat (s₁ ++ (t, relayBody frm to seps body) :: s₂)) = .ok h := by
  have hw' : Rd.WellFormed (s₁ ++ (t, relayBody frm to seps body) :: s₂) := by
    intro tb htb
    rcases List.mem_append.mp htb with h1 | h1
    · exact hw tb (List.mem_append_left _ h1)
    · rcases List.mem_cons.mp h1 with rfl | h1
      · exact ⟨(hw (t, body) (by simp)).1, relayBody_no_title frm to c seps body hb hs (hw (t, body) (by simp)).2⟩
      · exact hw tb (List.mem_append_right _ (List.mem_cons_of_mem _ h1))
  have hsec : SecRel (t, body) (t, relayBody frm to seps body) := by
    refine ⟨rfl, ?_, ?_⟩
    · intro hi; rcases hk with h1 | h1 <;> rw [hi] at h1 <;> cases h1
    · intro hi; rcases hk with h1 | h1 <;> rw [hi] at h1 <;> cases h1
  obtain ⟨hd, hr'⟩ := readLines_rel o pre pre _ _ hpre hpre hw hw' (forall2_secRel_replace s₁ s₂ t body _ hsec) h hr
  rw [hr']
  have : docData (s₁ ++ (t, relayBody frm to seps body) :: s₂) pre.length = docData (s₁ ++ (t, body) :: s₂) pre.length := by
    unfold docData
    rw [dataWins_body_congr .data s₁ s₂ t body _ (relayBody_length frm to seps body),
      dataWins_body_congr .las3data s₁ s₂ t body _ (relayBody_length frm to seps body)]
  rw [this, ← hd]

end Lasio.Tf

#print axioms Lasio.Tf.drow_lineTokens
#print axioms Lasio.Tf.drow_of_numCells
#print axioms Lasio.Tf.drow_relay
#print axioms Lasio.Tf.engineToks_congr
#print axioms Lasio.Tf.normalRead_rel
#print axioms Lasio.Tf.readBody_rel_ws
#print axioms Lasio.Tf.bodyRel_relayBody
#print axioms Lasio.Tf.bodyRel_mapAt
#print axioms Lasio.Tf.ftStrip_global_empty
#print axioms Lasio.Tf.base_repad_delimited
#print axioms Lasio.Tf.numpy_raises_comma
#print axioms Lasio.Tf.readLines_relayBody
