import LasioModel.DataWrite
import LasioProofs.Lemmas.SectionInv
/-
Helper lemmas for C01 (data-section writer): decimal digits and the decimal reader, the round-half-even quotient
(bound, exactness, uniqueness), whitespace tokenisation (`tokGo` splitting lemmas), plain tokens, the shape of a formatted
cell, row tokenisation under the separation condition, TextWrapper (munging keeps tokens, chunk invariants `ChunksOK`,
the line-filling loop: tokens, line length, no blank line), body lines of a data section.
-/
namespace Lasio.Dw
open Lasio

theorem digit_facts : ∀ d, d < 10 →
    isDigit (Char.ofNat (48 + d)) = true ∧ (Char.ofNat (48 + d)).toNat - 48 = d := by decide

theorem digitChar_isDigit (n : Nat) : isDigit (digitChar n) = true :=
  (digit_facts (n % 10) (Nat.mod_lt _ (by decide))).1

theorem digitChar_val (n : Nat) : (digitChar n).toNat - 48 = n % 10 :=
  (digit_facts (n % 10) (Nat.mod_lt _ (by decide))).2

theorem natToStr_all_digit (n : Nat) : ∀ c ∈ natToStr n, isDigit c = true := by
  induction n using Nat.strongRecOn with
  | _ n ih =>
    intro c hc
    by_cases h : n < 10
    · rw [natToStr_lt n h] at hc
      simp at hc; subst hc; exact digitChar_isDigit n
    · rw [natToStr_ge n (by omega)] at hc
      simp at hc
      rcases hc with hc | hc
      · exact ih (n / 10) (by omega) c hc
      · subst hc; exact digitChar_isDigit n

def dvFold (a : Nat) (s : Str) : Nat := s.foldl (fun a c => 10 * a + (c.toNat - 48)) a

theorem dwDigitsVal_eq (s : Str) : dwDigitsVal s = dvFold 0 s := rfl

theorem dvFold_append (a : Nat) (s t : Str) : dvFold a (s ++ t) = dvFold (dvFold a s) t := by
  simp [dvFold, List.foldl_append]

theorem dwDigitsVal_snoc (s : Str) (c : Char) : dwDigitsVal (s ++ [c]) = 10 * dwDigitsVal s + (c.toNat - 48) := by
  simp [dwDigitsVal, List.foldl_append]

theorem dwDigitsVal_natToStr (n : Nat) : dwDigitsVal (natToStr n) = n := by
  induction n using Nat.strongRecOn with
  | _ n ih =>
    by_cases h : n < 10
    · rw [natToStr_lt n h]
      simp [dwDigitsVal, digitChar_val]; omega
    · rw [natToStr_ge n (by omega), dwDigitsVal_snoc, ih (n / 10) (by omega), digitChar_val]; omega

theorem lastDigits_length (N q : Nat) : (lastDigits N q).length = N := by
  induction N generalizing q with
  | zero => rfl
  | succ N ih => simp [lastDigits, ih]

theorem lastDigits_all_digit (N q : Nat) : ∀ c ∈ lastDigits N q, isDigit c = true := by
  induction N generalizing q with
  | zero => simp [lastDigits]
  | succ N ih =>
    intro c hc
    simp [lastDigits] at hc
    rcases hc with hc | hc
    · exact ih _ c hc
    · subst hc; exact digitChar_isDigit q

theorem dvFold_lastDigits (N q a : Nat) : dvFold a (lastDigits N q) = a * 10 ^ N + q % 10 ^ N := by
  induction N generalizing q with
  | zero => simp [lastDigits, dvFold, Nat.mod_one]
  | succ N ih =>
    rw [lastDigits, dvFold_append, ih]
    simp only [dvFold, List.foldl_cons, List.foldl_nil, digitChar_val]
    have h1 : q % 10 ^ (N + 1) = q % 10 + 10 * (q / 10 % 10 ^ N) := by
      rw [Nat.pow_succ, Nat.mul_comm, Nat.mod_mul]
    rw [h1, Nat.pow_succ]
    have : a * (10 ^ N * 10) = 10 * (a * 10 ^ N) := by
      rw [Nat.mul_comm (10 ^ N) 10, ← Nat.mul_assoc, Nat.mul_comm a 10, Nat.mul_assoc]
    omega

theorem dwDigitsVal_lastDigits (N q : Nat) : dwDigitsVal (lastDigits N q) = q % 10 ^ N := by
  have := dvFold_lastDigits N q 0
  simpa [dwDigitsVal_eq] using this


theorem span_digits_stop (ds r : Str) (x : Char) (h : ∀ c ∈ ds, isDigit c = true) (hx : isDigit x = false) :
    (ds ++ x :: r).takeWhile isDigit = ds ∧ (ds ++ x :: r).dropWhile isDigit = x :: r := by
  induction ds with
  | nil => simp [hx]
  | cons d ds ih =>
    have hd : isDigit d = true := h d (by simp)
    have := ih (fun c hc => h c (by simp [hc]))
    simp [hd, this]

theorem span_digits_all (ds : Str) (h : ∀ c ∈ ds, isDigit c = true) :
    ds.takeWhile isDigit = ds ∧ ds.dropWhile isDigit = [] := by
  induction ds with
  | nil => simp
  | cons d ds ih =>
    have hd : isDigit d = true := h d (by simp)
    have := ih (fun c hc => h c (by simp [hc]))
    simp [hd, this]

theorem dot_not_digit : isDigit '.' = false := by decide

theorem decOfUnsigned_fixedDigits (N q : Nat) : decOfUnsigned (fixedDigits N q) = some (q, N) := by
  unfold fixedDigits
  by_cases hN : N = 0
  · subst hN
    simp only [if_true, List.append_nil, Nat.pow_zero, Nat.div_one]
    obtain ⟨h1, h2⟩ := span_digits_all (natToStr q) (natToStr_all_digit q)
    unfold decOfUnsigned
    simp only [h1, h2]
    have : (natToStr q).isEmpty = false := by
      cases h : natToStr q with
      | nil => exact absurd h (natToStr_ne_nil q)
      | cons _ _ => rfl
    simp [this, dwDigitsVal_natToStr]
  · simp only [hN, if_false]
    obtain ⟨h1, h2⟩ := span_digits_stop (natToStr (q / 10 ^ N)) (lastDigits N q) '.' (natToStr_all_digit _) dot_not_digit
    unfold decOfUnsigned
    simp only [h1, h2]
    have hall : (lastDigits N q).all isDigit = true := by
      simp only [List.all_eq_true]; exact lastDigits_all_digit N q
    have hne : (natToStr (q / 10 ^ N)).isEmpty = false := by
      cases h : natToStr (q / 10 ^ N) with
      | nil => exact absurd h (natToStr_ne_nil _)
      | cons _ _ => rfl
    simp only [hall, hne, Bool.false_and, Bool.not_false, Bool.and_self, if_true, lastDigits_length,
      dwDigitsVal_natToStr, dwDigitsVal_lastDigits]
    rw [Nat.div_add_mod']

theorem divRoundHalfEven_bound (num den : Nat) (hd : 0 < den) :
    2 * ((divRoundHalfEven num den : Int) * den - num).natAbs ≤ den := by
  have h := Nat.div_add_mod num den
  have hr := Nat.mod_lt num hd
  unfold divRoundHalfEven
  simp only
  generalize hQ : num / den = Q at *
  generalize hR : num % den = r at *
  split
  · rename_i hc
    have h2 : den ≤ 2 * r := by
      simp at hc
      rcases hc with hc | hc
      · omega
      · omega
    have : ((Q + 1 : Nat) : Int) * den = (den * Q : Nat) + den := by
      push_cast; rw [Int.add_mul, Int.mul_comm]; simp
    rw [this]
    omega
  · rename_i hc
    have h2 : 2 * r ≤ den := by
      simp at hc
      omega
    have : ((Q : Nat) : Int) * den = (den * Q : Nat) := by
      push_cast; rw [Int.mul_comm]
    rw [this]
    omega


theorem fixedDigits_head (N q : Nat) : ∃ d rest, fixedDigits N q = d :: rest ∧ isDigit d = true := by
  unfold fixedDigits
  cases h : natToStr (q / 10 ^ N) with
  | nil => exact absurd h (natToStr_ne_nil _)
  | cons d ds =>
    refine ⟨d, _, by simp; rfl, ?_⟩
    exact natToStr_all_digit (q / 10 ^ N) d (by simp [h])

theorem decOfTokS_digit (d : Char) (s : Str) (hd : isDigit d = true) :
    decOfTokS (d :: s) = (decOfUnsigned (d :: s)).map fun (a, k) => (false, a, k) := by
  unfold decOfTokS
  split
  · rename_i h; simp at h; obtain ⟨h, _⟩ := h; subst h; exact absurd hd (by decide)
  · rename_i h; simp at h; obtain ⟨h, _⟩ := h; subst h; exact absurd hd (by decide)
  · rfl

theorem decOfTokS_fmtFixed (N : Nat) (neg : Bool) (m : Nat) (e : Int) :
    decOfTokS (fmtFixed N (.finite neg m e)) = some (neg, fixedUnits N m e, N) := by
  unfold fmtFixed
  cases neg with
  | true => simp [decOfTokS, decOfUnsigned_fixedDigits]
  | false =>
    obtain ⟨d, rest, h, hd⟩ := fixedDigits_head N (fixedUnits N m e)
    simp only [Bool.false_eq_true, if_false, List.nil_append]
    rw [h, decOfTokS_digit d rest hd, ← h, decOfUnsigned_fixedDigits]
    rfl

def sgn (neg : Bool) : Int := if neg then -1 else 1

theorem value_bound (N : Nat) (neg : Bool) (m : Nat) (e : Int) :
    ∃ a : Int, decOfTok (fmtFixed N (.finite neg m e)) = some (a, N) ∧
      2 * (a * 2 ^ (-e).toNat - sgn neg * m * 2 ^ e.toNat * 10 ^ N).natAbs ≤ 2 ^ (-e).toNat := by
  refine ⟨sgn neg * fixedUnits N m e, ?_, ?_⟩
  · unfold decOfTok
    rw [decOfTokS_fmtFixed]
    cases neg <;> simp [sgn]
  · have hb := divRoundHalfEven_bound (m * 2 ^ e.toNat * 10 ^ N) (2 ^ (-e).toNat) (Nat.pow_pos (by decide))
    unfold fixedUnits
    generalize divRoundHalfEven (m * 2 ^ e.toNat * 10 ^ N) (2 ^ (-e).toNat) = q at *
    push_cast at hb
    cases neg with
    | false =>
      simp only [sgn, Bool.false_eq_true, if_false, Int.one_mul]
      exact hb
    | true =>
      simp only [sgn, if_true]
      have : (-1 * (q : Int) * 2 ^ (-e).toNat - -1 * (m : Int) * 2 ^ e.toNat * 10 ^ N)
          = -((q : Int) * 2 ^ (-e).toNat - (m : Int) * 2 ^ e.toNat * 10 ^ N) := by
        simp only [Int.neg_mul, Int.one_mul]; omega
      rw [this, Int.natAbs_neg]
      exact hb


/-! ### whitespace tokenisation -/

theorem tokGo_split (cur a : Str) (c : Char) (r : Str) (hc : isPySpace c = true) :
    tokGo cur (a ++ c :: r) = tokGo cur a ++ tokGo [] r := by
  induction a generalizing cur with
  | nil =>
    simp only [List.nil_append, tokGo, hc, if_true]
    cases cur <;> simp
  | cons x a ih =>
    simp only [List.cons_append, tokGo]
    by_cases hx : isPySpace x = true
    · simp only [hx, if_true]
      cases cur with
      | nil => simpa using ih []
      | cons y ys => simpa using ih []
    · simp only [hx]
      exact ih (x :: cur)

theorem tokGo_space_prefix (ws r : Str) (h : ∀ c ∈ ws, isPySpace c = true) : tokGo [] (ws ++ r) = tokGo [] r := by
  induction ws with
  | nil => rfl
  | cons x ws ih =>
    have hx := h x (by simp)
    simp only [List.cons_append, tokGo, hx, if_true, List.isEmpty_nil]
    exact ih (fun c hc => h c (by simp [hc]))

theorem tokGo_word (cur t r : Str) (h : ∀ c ∈ t, isPySpace c = false) :
    tokGo cur (t ++ r) = tokGo (t.reverse ++ cur) r := by
  induction t generalizing cur with
  | nil => rfl
  | cons x t ih =>
    have hx := h x (by simp)
    simp only [List.cons_append, tokGo, hx, Bool.false_eq_true, if_false]
    rw [ih (x :: cur) (fun c hc => h c (by simp [hc]))]
    simp

/-- a token: non-empty, no whitespace -/
def IsTok (t : Str) : Prop := t ≠ [] ∧ ∀ c ∈ t, isPySpace c = false

theorem tokensWs_tok (t : Str) (h : IsTok t) : tokensWs t = [t] := by
  have := tokGo_word [] t [] h.2
  simp only [List.append_nil] at this
  unfold tokensWs
  rw [this, tokGo]
  have : t.reverse.isEmpty = false := by
    cases t with
    | nil => exact absurd rfl h.1
    | cons a b => simp
  simp [this]

theorem tokensWs_blank (ws : Str) (h : ∀ c ∈ ws, isPySpace c = true) : tokensWs ws = [] := by
  have := tokGo_space_prefix ws [] h
  simpa [tokensWs, tokGo] using this

/-- leading whitespace, a token, then either the end or a whitespace character -/
theorem tokensWs_cell_then_space (ws t : Str) (c : Char) (r : Str) (hws : ∀ c ∈ ws, isPySpace c = true) (ht : IsTok t)
    (hc : isPySpace c = true) : tokensWs (ws ++ t ++ c :: r) = t :: tokensWs (c :: r) := by
  have h2 : tokensWs (c :: r) = tokensWs r := tokGo_space_prefix [c] r (by simpa using hc)
  rw [h2]
  unfold tokensWs
  rw [tokGo_split [] (ws ++ t) c r hc, tokGo_space_prefix ws t hws]
  have := tokensWs_tok t ht
  unfold tokensWs at this
  rw [this]; rfl

theorem tokensWs_cell_end (ws t : Str) (hws : ∀ c ∈ ws, isPySpace c = true) (ht : IsTok t) :
    tokensWs (ws ++ t) = [t] := by
  unfold tokensWs
  rw [tokGo_space_prefix ws t hws]
  exact tokensWs_tok t ht


theorem isDigit_iff (c : Char) : isDigit c = true ↔ 48 ≤ c.toNat ∧ c.toNat ≤ 57 := by
  simp [isDigit, Char.le_def, UInt32.le_iff_toNat_le]

theorem pySpace_not_digit (c : Char) (h : isPySpace c = true) : isDigit c = false ∧ c ≠ '-' ∧ c ≠ '.' := by
  have hd := isDigit_iff c
  refine ⟨?_, ?_, ?_⟩
  · cases hdc : isDigit c with
    | false => rfl
    | true =>
      have := hd.mp hdc
      simp [isPySpace] at h
      omega
  · intro hc; subst hc; revert h; decide
  · intro hc; subst hc; revert h; decide


/-! ### printed tokens are plain -/

/-- the characters `%.Nf` prints for a finite value -/
def isPlainChar (c : Char) : Bool := c == '-' || isDigit c || c == '.'

theorem plainChar_facts (c : Char) (h : isPlainChar c = true) :
    isPySpace c = false ∧ c ≠ '"' ∧ c ≠ '\'' ∧ c ≠ '#' ∧ c ≠ ',' := by
  simp only [isPlainChar, Bool.or_eq_true, beq_iff_eq] at h
  rcases h with (h | h) | h
  · subst h; decide
  · refine ⟨?_, ?_, ?_, ?_, ?_⟩
    · cases hs : isPySpace c with
      | false => rfl
      | true => have := (pySpace_not_digit c hs).1; rw [h] at this; cases this
    all_goals (intro hc; subst hc; exact absurd h (by decide))
  · subst h; decide

theorem fixedDigits_plain (N q : Nat) : ∀ c ∈ fixedDigits N q, isPlainChar c = true := by
  intro c hc
  unfold fixedDigits at hc
  simp only [List.mem_append] at hc
  rcases hc with hc | hc
  · simp [isPlainChar, natToStr_all_digit _ c hc]
  · by_cases hN : N = 0
    · simp [hN] at hc
    · simp only [hN, if_false, List.mem_cons] at hc
      rcases hc with hc | hc
      · subst hc; decide
      · simp [isPlainChar, lastDigits_all_digit _ _ c hc]

theorem fmtFixed_plain (N : Nat) (neg : Bool) (m : Nat) (e : Int) :
    ∀ c ∈ fmtFixed N (.finite neg m e), isPlainChar c = true := by
  intro c hc
  unfold fmtFixed at hc
  simp only [List.mem_append] at hc
  rcases hc with hc | hc
  · cases neg <;> simp at hc
    subst hc; decide
  · exact fixedDigits_plain _ _ c hc

theorem fixedDigits_ne_nil (N q : Nat) : fixedDigits N q ≠ [] := by
  obtain ⟨d, r, h, _⟩ := fixedDigits_head N q
  rw [h]; simp

theorem fmtFixed_isTok (N : Nat) (x : F64) : IsTok (fmtFixed N x) := by
  cases x with
  | nan => exact ⟨by simp [fmtFixed], by show ∀ c ∈ ['n', 'a', 'n'], isPySpace c = false; decide⟩
  | inf neg =>
    cases neg
    · exact ⟨by simp [fmtFixed], by show ∀ c ∈ ['i', 'n', 'f'], isPySpace c = false; decide⟩
    · exact ⟨by simp [fmtFixed], by show ∀ c ∈ ['-', 'i', 'n', 'f'], isPySpace c = false; decide⟩
  | finite neg m e =>
    refine ⟨?_, fun c hc => (plainChar_facts c (fmtFixed_plain N neg m e c hc)).1⟩
    unfold fmtFixed
    have := fixedDigits_ne_nil N (fixedUnits N m e)
    cases neg <;> simp [this]

/-! ### cells and rows -/

/-- the token a cell contributes: the NULL text for NaN, else the bare `%.Nf` rendering -/
def cellToken (null : Str) (f : Fmt) (x : F64) : Str := if x.isNaN then null else fmtFixed f.prec x

def Blank (s : Str) : Prop := ∀ c ∈ s, c = ' '

theorem Blank.ws {s : Str} (h : Blank s) : ∀ c ∈ s, isPySpace c = true := by
  intro c hc; rw [h c hc]; decide

theorem blank_replicate (k : Nat) : Blank (List.replicate k ' ') := by
  intro c hc; exact (List.mem_replicate.mp hc).2

theorem blank_append {a b : Str} (ha : Blank a) (hb : Blank b) : Blank (a ++ b) := by
  intro c hc; rcases List.mem_append.mp hc with h | h
  · exact ha c h
  · exact hb c h

theorem cellValue_shape (null : Str) (f : Fmt) (x : F64) :
    ∃ pad, Blank pad ∧ cellValue null f x = pad ++ cellToken null f x := by
  unfold cellValue cellToken
  cases hx : x.isNaN with
  | true => exact ⟨[], (by intro c hc; cases hc), (by simp)⟩
  | false =>
    simp only [Bool.false_eq_true, if_false]
    unfold fmtApply
    cases f.width with
    | none => exact ⟨[], (by intro c hc; cases hc), (by simp)⟩
    | some w => exact ⟨_, ⟨blank_replicate _, rfl⟩⟩

/-- `format_data_section_line` = spacing characters, blank padding, the token -/
theorem formatCell_shape (null : Str) (f : Fmt) (l : Int) (sp : Str) (x : F64) :
    ∃ pad, Blank pad ∧ formatCell null f l sp x = sp ++ pad ++ cellToken null f x := by
  obtain ⟨p, hp, hv⟩ := cellValue_shape null f x
  unfold formatCell
  by_cases hl : (l == -1) = true
  · simp only [hl, if_true]
    exact ⟨p, ⟨hp, by rw [hv]; simp⟩⟩
  · simp only [hl]
    refine ⟨List.replicate (l.toNat - (cellValue null f x).length) ' ' ++ p, ⟨blank_append (blank_replicate _) hp, ?_⟩⟩
    unfold rjust
    rw [hv]; simp


/-- the tokens of a row, cell by cell -/
def rowTokensFrom (c : RowCfg) (null : Str) : Nat → List F64 → List Str
  | _, [] => []
  | j, x :: xs => cellToken null (c.colFmt j) x :: rowTokensFrom c null (j + 1) xs

def rowTokens (c : RowCfg) (null : Str) (cells : List F64) : List Str := rowTokensFrom c null 0 cells

/-- the supported row configurations: a non-empty whitespace spacer between columns, whitespace (possibly empty)
on the left-hand side, and a NULL text that is one whitespace-free token -/
structure CfgOK (c : RowCfg) (null : Str) : Prop where
  spacer_ne : c.spacer ≠ []
  spacer_ws : ∀ ch ∈ c.spacer, isPySpace ch = true
  lhs_ws : ∀ ch ∈ c.lhsSpacer, isPySpace ch = true
  null_tok : IsTok null

theorem cellToken_isTok (null : Str) (hn : IsTok null) (f : Fmt) (x : F64) : IsTok (cellToken null f x) := by
  unfold cellToken
  cases x.isNaN
  · exact fmtFixed_isTok _ _
  · exact hn

theorem leftSpacing_ws {c : RowCfg} {null : Str} (h : CfgOK c null) (j : Nat) :
    ∀ ch ∈ c.leftSpacing j, isPySpace ch = true := by
  unfold RowCfg.leftSpacing
  by_cases hj : j = 0
  · simp only [hj, if_true]; exact h.lhs_ws
  · simp only [hj, if_false]; exact h.spacer_ws

theorem dataRowFrom_head_space {c : RowCfg} {null : Str} (h : CfgOK c null) (j : Nat) (y : F64) (ys : List F64) :
    ∃ ch r, dataRowFrom c null (j + 1) (y :: ys) = ch :: r ∧ isPySpace ch = true := by
  have hshape : ∃ X, dataRowFrom c null (j + 1) (y :: ys) = c.spacer ++ X := by
    refine ⟨(if c.lenNumericField == -1 then cellValue null (c.colFmt (j + 1)) y
        else rjust c.lenNumericField.toNat (cellValue null (c.colFmt (j + 1)) y)) ++ dataRowFrom c null (j + 1 + 1) ys, ?_⟩
    simp only [dataRowFrom, formatCell, RowCfg.leftSpacing, Nat.add_eq_zero_iff, Nat.one_ne_zero, and_false, if_false,
      List.append_assoc]
  obtain ⟨X, hX⟩ := hshape
  cases hs : c.spacer with
  | nil => exact absurd hs h.spacer_ne
  | cons ch sp =>
    exact ⟨ch, sp ++ X, by rw [hX, hs]; rfl, h.spacer_ws ch (by simp [hs])⟩

theorem tokensWs_dataRowFrom {c : RowCfg} {null : Str} (h : CfgOK c null) (j : Nat) (cells : List F64) :
    tokensWs (dataRowFrom c null j cells) = rowTokensFrom c null j cells := by
  induction cells generalizing j with
  | nil => rfl
  | cons x xs ih =>
    obtain ⟨pad, hpad, hshape⟩ := formatCell_shape null (c.colFmt j) c.lenNumericField (c.leftSpacing j) x
    have hws : ∀ ch ∈ c.leftSpacing j ++ pad, isPySpace ch = true := by
      intro ch hch
      rcases List.mem_append.mp hch with h1 | h1
      · exact leftSpacing_ws h j ch h1
      · exact hpad.ws ch h1
    have htok := cellToken_isTok null h.null_tok (c.colFmt j) x
    simp only [dataRowFrom, rowTokensFrom, hshape]
    cases xs with
    | nil =>
      simp only [dataRowFrom, List.append_nil, rowTokensFrom]
      exact tokensWs_cell_end _ _ hws htok
    | cons y ys =>
      obtain ⟨ch, r, hr, hch⟩ := dataRowFrom_head_space h j y ys
      rw [hr, tokensWs_cell_then_space _ _ ch r hws htok hch, ← hr, ih (j + 1)]


/-! ### TextWrapper: whitespace munging does not change the tokens -/

def flushTok (cur : Str) : List Str := if cur.isEmpty then [] else [cur.reverse]

theorem tokGo_space (cur : Str) (c : Char) (r : Str) (hc : isPySpace c = true) :
    tokGo cur (c :: r) = flushTok cur ++ tokGo [] r := by
  simp only [tokGo, hc, if_true, flushTok]
  cases cur <;> simp

theorem tokGo_nonspace (cur : Str) (c : Char) (r : Str) (hc : isPySpace c = false) :
    tokGo cur (c :: r) = tokGo (c :: cur) r := by
  simp [tokGo, hc]

theorem blank_isPySpace : isPySpace ' ' = true := by decide

theorem tokGo_blanks (cur : Str) (k : Nat) (r : Str) :
    tokGo cur (List.replicate (k + 1) ' ' ++ r) = flushTok cur ++ tokGo [] r := by
  rw [List.replicate_succ, List.cons_append, tokGo_space cur ' ' _ blank_isPySpace,
    tokGo_space_prefix (List.replicate k ' ') r (blank_replicate k).ws]

theorem tab_isPySpace : isPySpace '\t' = true := by decide

theorem tokGo_expandTabs (cur : Str) (col : Nat) (s : Str) : tokGo cur (expandTabs col s) = tokGo cur s := by
  induction s generalizing cur col with
  | nil => rfl
  | cons c cs ih =>
    unfold expandTabs
    by_cases hc : (c == '\t') = true
    · simp only [hc, if_true]
      have hc' : c = '\t' := by simpa using hc
      subst hc'
      have hk : 8 - col % 8 = (8 - col % 8 - 1) + 1 := by
        have := Nat.mod_lt col (by decide : 0 < 8); omega
      rw [hk, tokGo_blanks, ih, tokGo_space cur '\t' cs tab_isPySpace]
    · simp only [hc, Bool.false_eq_true, if_false]
      by_cases hn : (c == '\n' || c == '\r') = true
      · simp only [hn, if_true]
        cases hs : isPySpace c with
        | true => rw [tokGo_space _ _ _ hs, tokGo_space _ _ _ hs, ih]
        | false => rw [tokGo_nonspace _ _ _ hs, tokGo_nonspace _ _ _ hs, ih]
      · simp only [hn, Bool.false_eq_true, if_false]
        cases hs : isPySpace c with
        | true => rw [tokGo_space _ _ _ hs, tokGo_space _ _ _ hs, ih]
        | false => rw [tokGo_nonspace _ _ _ hs, tokGo_nonspace _ _ _ hs, ih]

theorem wrapSpace_isPySpace (c : Char) (h : isWrapSpace c = true) : isPySpace c = true := by
  simp only [isWrapSpace, Bool.or_eq_true, beq_iff_eq] at h
  rcases h with ((((h | h) | h) | h) | h) | h <;> (subst h; decide)

theorem tokGo_map_munge (cur : Str) (s : Str) :
    tokGo cur (s.map (fun c => if isWrapSpace c then ' ' else c)) = tokGo cur s := by
  induction s generalizing cur with
  | nil => rfl
  | cons c cs ih =>
    simp only [List.map_cons]
    by_cases hw : isWrapSpace c = true
    · simp only [hw, if_true]
      rw [tokGo_space _ _ _ blank_isPySpace, tokGo_space _ _ _ (wrapSpace_isPySpace c hw), ih]
    · simp only [hw, Bool.false_eq_true, if_false]
      cases hs : isPySpace c with
      | true => rw [tokGo_space _ _ _ hs, tokGo_space _ _ _ hs, ih]
      | false => rw [tokGo_nonspace _ _ _ hs, tokGo_nonspace _ _ _ hs, ih]

theorem tokensWs_wrapMunge (s : Str) : tokensWs (wrapMunge s) = tokensWs s := by
  unfold tokensWs wrapMunge
  rw [tokGo_map_munge, tokGo_expandTabs]


/-! ### chunks -/

/-- the kind of a chunk: `true` = a run of blanks -/
def kindOf : Str → Bool
  | c :: _ => c == ' '
  | [] => false

/-- non-empty and homogeneous: all blanks or no blank -/
def Homog (a : Str) : Prop := a ≠ [] ∧ ∀ c ∈ a, (c == ' ') = kindOf a

/-- chunks are homogeneous non-empty runs and neighbours are of different kinds -/
def ChunksOK : List Str → Prop
  | [] => True
  | a :: r => Homog a ∧ (∀ b, r.head? = some b → kindOf a ≠ kindOf b) ∧ ChunksOK r


theorem homog_single (c : Char) : Homog [c] := by
  refine ⟨by simp, ?_⟩
  intro x hx; simp at hx; subst hx; rfl

theorem wrapChunks_ok (s : Str) : ChunksOK (wrapChunks s) := by
  induction s with
  | nil => trivial
  | cons c cs ih =>
    rw [wrapChunks]
    cases h : wrapChunks cs with
    | nil => exact ⟨homog_single c, by simp, trivial⟩
    | cons a rest =>
      rw [h] at ih
      obtain ⟨ha, hnext, hrest⟩ := ih
      cases a with
      | nil => exact absurd rfl ha.1
      | cons d ds =>
        simp only
        by_cases hk : ((c == ' ') == (d == ' ')) = true
        · simp only [hk, if_true]
          have hk' : (c == ' ') = (d == ' ') := by simpa using hk
          refine ⟨⟨by simp, ?_⟩, ?_, hrest⟩
          · intro x hx
            simp only [List.mem_cons] at hx
            rcases hx with hx | hx
            · subst hx; rfl
            · have := ha.2 x (by simpa using hx)
              simp only [kindOf] at this ⊢
              rw [this, hk']
          · intro b hb
            have := hnext b hb
            simp only [kindOf] at this ⊢
            rw [hk']; exact this
        · simp only [hk]
          refine ⟨homog_single c, ?_, ha, hnext, hrest⟩
          intro b hb
          simp at hb; subst hb
          simp only [kindOf]
          intro heq; apply hk; simp [heq]

theorem ChunksOK.ne_nil {cs : List Str} (h : ChunksOK cs) : ∀ a ∈ cs, a ≠ [] := by
  induction cs with
  | nil => intro a ha; cases ha
  | cons x r ih =>
    intro a ha
    simp only [List.mem_cons] at ha
    rcases ha with ha | ha
    · subst ha; exact h.1.1
    · exact ih h.2.2 a ha

theorem wrapChunks_flatten (s : Str) : (wrapChunks s).flatten = s := by
  induction s with
  | nil => rfl
  | cons c cs ih =>
    have hok := wrapChunks_ok cs
    rw [wrapChunks]
    cases h : wrapChunks cs with
    | nil => rw [h] at ih; simp at ih; simp [← ih]
    | cons a rest =>
      rw [h] at ih hok
      cases a with
      | nil => exact absurd rfl hok.1.1
      | cons d ds =>
        simp only
        split <;> simp [← ih]

theorem ChunksOK.append_left {a b : List Str} (h : ChunksOK (a ++ b)) : ChunksOK a := by
  induction a with
  | nil => trivial
  | cons x a ih =>
    obtain ⟨hx, hn, hr⟩ := h
    refine ⟨hx, ?_, ih hr⟩
    intro y hy
    apply hn y
    cases a with
    | nil => simp at hy
    | cons z a => simpa using hy

theorem ChunksOK.append_right {a b : List Str} (h : ChunksOK (a ++ b)) : ChunksOK b := by
  induction a with
  | nil => exact h
  | cons x a ih => exact ih h.2.2

theorem Homog.blank_of_kind {a : Str} (h : Homog a) (hk : kindOf a = true) : ∀ c ∈ a, isPySpace c = true := by
  intro c hc
  have := h.2 c hc
  rw [hk] at this
  have : c = ' ' := by simpa using this
  subst this; decide

theorem tokensWs_append_left_blank (a X : Str) (ha : ∀ c ∈ a, isPySpace c = true) :
    tokensWs (a ++ X) = tokensWs a ++ tokensWs X := by
  rw [tokensWs_blank a ha]
  exact tokGo_space_prefix a X ha

theorem tokensWs_append_right_space (a : Str) (c : Char) (Y : Str) (hc : isPySpace c = true) :
    tokensWs (a ++ c :: Y) = tokensWs a ++ tokensWs (c :: Y) := by
  have h2 : tokensWs (c :: Y) = tokensWs Y := tokGo_space_prefix [c] Y (by simpa using hc)
  rw [h2]
  exact tokGo_split [] a c Y hc

/-- tokenising the concatenation of well-formed chunks = tokenising chunk by chunk -/
theorem tokensWs_flatten_chunks (cs : List Str) (h : ChunksOK cs) :
    tokensWs cs.flatten = cs.flatMap tokensWs := by
  induction cs with
  | nil => rfl
  | cons a r ih =>
    obtain ⟨ha, hn, hr⟩ := h
    simp only [List.flatten_cons, List.flatMap_cons]
    rw [← ih hr]
    cases hk : kindOf a with
    | true => exact tokensWs_append_left_blank a _ (ha.blank_of_kind hk)
    | false =>
      cases r with
      | nil => simp [tokensWs, tokGo]
      | cons b r' =>
        have hkb : kindOf b = true := by
          have := hn b rfl
          rw [hk] at this
          cases hb : kindOf b with
          | true => rfl
          | false => exact absurd hb.symm this
        have hb := hr.1
        cases b with
        | nil => exact absurd rfl hb.1
        | cons x b' =>
          have hx : isPySpace x = true := hb.blank_of_kind hkb x (by simp)
          simp only [List.flatten_cons, List.cons_append]
          exact tokensWs_append_right_space a x _ hx


/-! ### the line-filling loop -/

theorem isBlankChunk_tokens (l : Str) (h : isBlankChunk l = true) : tokensWs l = [] := by
  apply tokensWs_blank
  simpa [isBlankChunk, List.all_eq_true] using h

theorem closeLine_blank (l : Str) (rest : List Str) (hb : isBlankChunk l = true) :
    closeLine (l :: rest) = if rest.isEmpty then none else some rest.reverse.flatten := by
  unfold closeLine; simp only [hb, if_true]

theorem closeLine_nonblank (l : Str) (rest : List Str) (hb : ¬ isBlankChunk l = true) :
    closeLine (l :: rest) = some (l :: rest).reverse.flatten := by
  unfold closeLine; simp only [hb]; rfl

theorem toList_some_flatMap (X : Str) : (some X : Option Str).toList.flatMap tokensWs = tokensWs X := by
  simp [Option.toList]

theorem closeLine_tokens (cur : List Str) (h : ChunksOK cur.reverse) :
    (closeLine cur).toList.flatMap tokensWs = cur.reverse.flatMap tokensWs := by
  cases cur with
  | nil => simp [closeLine]
  | cons l rest =>
    by_cases hb : isBlankChunk l = true
    · rw [closeLine_blank l rest hb, List.reverse_cons, List.flatMap_append]
      simp only [List.flatMap_cons, List.flatMap_nil, isBlankChunk_tokens l hb, List.append_nil]
      cases rest with
      | nil => simp
      | cons x xs =>
        have hok : ChunksOK (x :: xs).reverse := by
          rw [List.reverse_cons] at h; exact h.append_left
        rw [← tokensWs_flatten_chunks _ hok]
        simp only [List.isEmpty_cons, Bool.false_eq_true, if_false]
        exact toList_some_flatMap _
    · rw [closeLine_nonblank l rest hb, toList_some_flatMap]
      exact tokensWs_flatten_chunks _ h

theorem wrapLines_tokens (w : Nat) (cs : List Str) (has : Bool) (cur : List Str) (n : Nat)
    (h : ChunksOK (cur.reverse ++ cs)) :
    (wrapLines w cs has cur n).flatMap tokensWs = (cur.reverse ++ cs).flatMap tokensWs := by
  induction cs generalizing has cur n with
  | nil =>
    simp only [wrapLines, List.append_nil] at h ⊢
    exact closeLine_tokens cur h
  | cons c cs ih =>
    rw [wrapLines]
    by_cases hfit : n + c.length ≤ w
    · simp only [hfit, if_true]
      have h' : ChunksOK ((c :: cur).reverse ++ cs) := by simpa using h
      rw [ih _ _ _ h']; simp
    · simp only [hfit, if_false]
      have hcur : ChunksOK cur.reverse := h.append_left
      have hccs : ChunksOK (c :: cs) := h.append_right
      rw [List.flatMap_append, closeLine_tokens cur hcur, List.flatMap_append]
      congr 1
      split
      · rename_i hd
        have hb : isBlankChunk c = true := by simp at hd; exact hd.2
        have := ih (has || (closeLine cur).isSome) [] 0 (by simpa using hccs.2.2)
        rw [this]
        simp [isBlankChunk_tokens c hb]
      · have := ih (has || (closeLine cur).isSome) [c] c.length (by simpa using hccs)
        rw [this]; simp

/-- total length of the chunks on the current line -/
theorem closeLine_length (cur : List Str) : ∀ l ∈ (closeLine cur).toList, l.length ≤ cur.flatten.length := by
  intro l hl
  have hrev : ∀ k : List Str, k.reverse.flatten.length = k.flatten.length := by
    intro k
    induction k with
    | nil => rfl
    | cons x k ih => simp [List.flatten_append, ih]; omega
  cases cur with
  | nil => simp [closeLine] at hl
  | cons x rest =>
    by_cases hb : isBlankChunk x = true
    · rw [closeLine_blank x rest hb] at hl
      split at hl
      · simp at hl
      · simp only [Option.toList, List.mem_singleton] at hl
        subst hl; rw [hrev]; simp
    · rw [closeLine_nonblank x rest hb] at hl
      simp only [Option.toList, List.mem_singleton] at hl
      subst hl; rw [hrev]; exact Nat.le_refl _

theorem wrapLines_length (w : Nat) (cs : List Str) (has : Bool) (cur : List Str) (n : Nat)
    (hn : n = cur.flatten.length) (hle : n ≤ w) (hcs : ∀ c ∈ cs, c.length ≤ w) :
    ∀ l ∈ wrapLines w cs has cur n, l.length ≤ w := by
  induction cs generalizing has cur n with
  | nil =>
    intro l hl
    simp only [wrapLines] at hl
    have := closeLine_length cur l hl
    omega
  | cons c cs ih =>
    intro l hl
    rw [wrapLines] at hl
    have hc : c.length ≤ w := hcs c (by simp)
    have hcs' : ∀ c ∈ cs, c.length ≤ w := fun x hx => hcs x (by simp [hx])
    by_cases hfit : n + c.length ≤ w
    · simp only [hfit, if_true] at hl
      exact ih has (c :: cur) (n + c.length) (by simp [hn]; omega) hfit hcs' l hl
    · simp only [hfit, if_false, List.mem_append] at hl
      rcases hl with hl | hl
      · have := closeLine_length cur l hl; omega
      · split at hl
        · exact ih _ [] 0 rfl (Nat.zero_le _) hcs' l hl
        · exact ih _ [c] c.length (by simp) hc hcs' l hl

theorem closeLine_ne_nil (cur : List Str) (hne : ∀ a ∈ cur, a ≠ []) : ∀ l ∈ (closeLine cur).toList, l ≠ [] := by
  intro l hl
  have key : ∀ k : List Str, k ≠ [] → (∀ a ∈ k, a ≠ []) → k.reverse.flatten ≠ [] := by
    intro k hk hall
    cases k with
    | nil => exact absurd rfl hk
    | cons x k =>
      simp only [List.reverse_cons, List.flatten_append, List.flatten_cons, List.flatten_nil, List.append_nil]
      intro h
      have := List.append_eq_nil_iff.mp h
      exact hall x (by simp) this.2
  cases cur with
  | nil => simp [closeLine] at hl
  | cons x rest =>
    by_cases hb : isBlankChunk x = true
    · rw [closeLine_blank x rest hb] at hl
      split at hl
      · simp at hl
      · rename_i hr
        simp only [Option.toList, List.mem_singleton] at hl
        subst hl
        exact key rest (by intro h; subst h; simp at hr) (fun a ha => hne a (by simp [ha]))
    · rw [closeLine_nonblank x rest hb] at hl
      simp only [Option.toList, List.mem_singleton] at hl
      subst hl
      exact key (x :: rest) (by simp) hne

theorem wrapLines_ne_nil (w : Nat) (cs : List Str) (has : Bool) (cur : List Str) (n : Nat)
    (hcur : ∀ a ∈ cur, a ≠ []) (hcs : ∀ a ∈ cs, a ≠ []) :
    ∀ l ∈ wrapLines w cs has cur n, l ≠ [] := by
  induction cs generalizing has cur n with
  | nil =>
    intro l hl
    simp only [wrapLines] at hl
    exact closeLine_ne_nil cur hcur l hl
  | cons c cs ih =>
    intro l hl
    rw [wrapLines] at hl
    have hc : c ≠ [] := hcs c (by simp)
    have hcs' : ∀ a ∈ cs, a ≠ [] := fun x hx => hcs x (by simp [hx])
    by_cases hfit : n + c.length ≤ w
    · simp only [hfit, if_true] at hl
      refine ih has (c :: cur) _ ?_ hcs' l hl
      intro a ha
      simp only [List.mem_cons] at ha
      rcases ha with ha | ha
      · subst ha; exact hc
      · exact hcur a ha
    · simp only [hfit, if_false, List.mem_append] at hl
      rcases hl with hl | hl
      · exact closeLine_ne_nil cur hcur l hl
      · split at hl
        · exact ih _ [] 0 (by simp) hcs' l hl
        · exact ih _ [c] c.length (by simpa using hc) hcs' l hl


theorem textWrap_eq {w : Nat} {s : Str} {ls : List Str} (h : textWrap w s = some ls) :
    w ≠ 0 ∧ ls = wrapLines w (wrapChunks (wrapMunge s)) false [] 0 := by
  unfold textWrap at h
  split at h
  · cases h
  · rename_i hc
    exact ⟨hc, by injection h with h; exact h.symm⟩

/-- a line is longer than the width only when it consists of one chunk (generic in what is known about the chunks) -/
theorem wrapLines_length_or (w : Nat) (P : Str → Prop) (cs : List Str) (has : Bool) (cur : List Str) (n : Nat)
    (hn : n = cur.flatten.length) (hinv : n ≤ w ∨ ∃ c, cur = [c] ∧ P c) (hcs : ∀ c ∈ cs, P c) :
    ∀ l ∈ wrapLines w cs has cur n, l.length ≤ w ∨ (P l ∧ ¬ isBlankChunk l = true) := by
  have hclose : ∀ l ∈ (closeLine cur).toList, l.length ≤ w ∨ (P l ∧ ¬ isBlankChunk l = true) := by
    intro l hl
    rcases hinv with hle | ⟨c, rfl, hP⟩
    · have := closeLine_length cur l hl; left; omega
    · by_cases hb : isBlankChunk c = true
      · rw [closeLine_blank c [] hb] at hl; simp at hl
      · rw [closeLine_nonblank c [] hb] at hl
        simp only [Option.toList, List.mem_singleton, List.reverse_cons, List.reverse_nil, List.nil_append,
          List.flatten_cons, List.flatten_nil, List.append_nil] at hl
        subst hl
        exact Or.inr ⟨hP, hb⟩
  induction cs generalizing has cur n with
  | nil =>
    intro l hl
    simp only [wrapLines] at hl
    exact hclose l hl
  | cons c cs ih =>
    intro l hl
    rw [wrapLines] at hl
    have hPc : P c := hcs c (by simp)
    have hcs' : ∀ c ∈ cs, P c := fun x hx => hcs x (by simp [hx])
    by_cases hfit : n + c.length ≤ w
    · simp only [hfit, if_true] at hl
      refine ih has (c :: cur) (n + c.length) (by simp [hn]; omega) (Or.inl hfit) hcs' ?_ l hl
      intro l hl
      left
      have := closeLine_length (c :: cur) l hl
      simp only [List.flatten_cons, List.length_append] at this
      omega
    · simp only [hfit, if_false, List.mem_append] at hl
      rcases hl with hl | hl
      · exact hclose l hl
      · split at hl
        · refine ih _ [] 0 rfl (Or.inl (Nat.zero_le _)) hcs' ?_ l hl
          intro l hl; simp [closeLine] at hl
        · by_cases hcw : c.length ≤ w
          · refine ih _ [c] c.length (by simp) (Or.inl hcw) hcs' ?_ l hl
            intro l hl
            left
            have := closeLine_length [c] l hl
            simp only [List.flatten_cons, List.flatten_nil, List.append_nil] at this
            omega
          · refine ih _ [c] c.length (by simp) (Or.inr ⟨c, rfl, hPc⟩) hcs' ?_ l hl
            intro l hl
            by_cases hb : isBlankChunk c = true
            · rw [closeLine_blank c [] hb] at hl; simp at hl
            · rw [closeLine_nonblank c [] hb] at hl
              simp only [Option.toList, List.mem_singleton, List.reverse_cons, List.reverse_nil, List.nil_append,
                List.flatten_cons, List.flatten_nil, List.append_nil] at hl
              subst hl
              exact Or.inr ⟨hPc, hb⟩

theorem textWrap_tokens {w : Nat} {s : Str} {ls : List Str} (h : textWrap w s = some ls) :
    ls.flatMap tokensWs = tokensWs s := by
  obtain ⟨_, rfl⟩ := textWrap_eq h
  have hok := wrapChunks_ok (wrapMunge s)
  rw [wrapLines_tokens w _ false [] 0 (by simpa using hok)]
  simp only [List.reverse_nil, List.nil_append]
  rw [← tokensWs_flatten_chunks _ hok, wrapChunks_flatten, tokensWs_wrapMunge]

/-- when every chunk fits, every line fits -/
theorem textWrap_length {w : Nat} {s : Str} {ls : List Str} (h : textWrap w s = some ls)
    (hc : ∀ c ∈ wrapChunks (wrapMunge s), c.length ≤ w) : ∀ l ∈ ls, l.length ≤ w := by
  obtain ⟨_, rfl⟩ := textWrap_eq h
  exact wrapLines_length w _ false [] 0 rfl (Nat.zero_le _) hc

theorem textWrap_ne_nil {w : Nat} {s : Str} {ls : List Str} (h : textWrap w s = some ls) :
    ∀ l ∈ ls, l ≠ [] := by
  obtain ⟨_, rfl⟩ := textWrap_eq h
  exact wrapLines_ne_nil w _ false [] 0 (by simp) (wrapChunks_ok (wrapMunge s)).ne_nil


/-! ### no blank line (when the only whitespace is TextWrapper's whitespace) -/

/-- every whitespace character of the text is a plain blank -/
def NoExotic (a : Str) : Prop := ∀ c ∈ a, isPySpace c = true → c = ' '

theorem mem_expandTabs (col : Nat) (s : Str) (c : Char) (h : c ∈ expandTabs col s) : c = ' ' ∨ c ∈ s := by
  induction s generalizing col with
  | nil => simp [expandTabs] at h
  | cons x xs ih =>
    unfold expandTabs at h
    split at h
    · rcases List.mem_append.mp h with h | h
      · exact Or.inl (List.mem_replicate.mp h).2
      · rcases ih _ h with h | h
        · exact Or.inl h
        · exact Or.inr (by simp [h])
    · split at h
      · rcases List.mem_cons.mp h with h | h
        · exact Or.inr (by simp [h])
        · rcases ih _ h with h | h
          · exact Or.inl h
          · exact Or.inr (by simp [h])
      · rcases List.mem_cons.mp h with h | h
        · exact Or.inr (by simp [h])
        · rcases ih _ h with h | h
          · exact Or.inl h
          · exact Or.inr (by simp [h])

theorem wrapMunge_noExotic (s : Str) (hs : ∀ c ∈ s, isPySpace c = true → isWrapSpace c = true) :
    NoExotic (wrapMunge s) := by
  intro c hc hsp
  unfold wrapMunge at hc
  obtain ⟨c', hc', rfl⟩ := List.mem_map.mp hc
  by_cases hw : isWrapSpace c' = true
  · simp [hw]
  · simp only [hw, Bool.false_eq_true, if_false] at hsp ⊢
    rcases mem_expandTabs 0 s c' hc' with h | h
    · exact h
    · exact absurd (hs c' h hsp) hw

theorem chunk_noExotic {m : Str} (h : NoExotic m) : ∀ a ∈ wrapChunks m, NoExotic a := by
  intro a ha c hc
  apply h c
  rw [← wrapChunks_flatten m]
  exact List.mem_flatten.mpr ⟨a, ha, hc⟩

theorem Homog.isTok_of_kind_false {a : Str} (h : Homog a) (hx : NoExotic a) (hk : kindOf a = false) : IsTok a := by
  refine ⟨h.1, ?_⟩
  intro c hc
  cases hs : isPySpace c with
  | false => rfl
  | true =>
    have h1 := hx c hc hs
    have h2 := h.2 c hc
    rw [hk, h1] at h2
    exact absurd h2 (by decide)

theorem Homog.kind_of_blank {a : Str} (h : Homog a) (hx : NoExotic a) (hb : isBlankChunk a = true) : kindOf a = true := by
  cases a with
  | nil => exact absurd rfl h.1
  | cons c r =>
    have hs : isPySpace c = true := by
      simp only [isBlankChunk, List.all_cons, Bool.and_eq_true] at hb; exact hb.1
    have := hx c (by simp) hs
    simp [kindOf, this]

theorem Homog.blank_of_kind_true {a : Str} (h : Homog a) (hk : kindOf a = true) : isBlankChunk a = true := by
  simp only [isBlankChunk, List.all_eq_true]
  exact h.blank_of_kind hk

theorem ChunksOK.homog {cs : List Str} (h : ChunksOK cs) : ∀ a ∈ cs, Homog a := by
  induction cs with
  | nil => intro a ha; cases ha
  | cons x r ih =>
    intro a ha
    rcases List.mem_cons.mp ha with ha | ha
    · subst ha; exact h.1
    · exact ih h.2.2 a ha

/-- in general: a line longer than the width is one non-blank chunk of the row, i.e. a single value, unbroken -/
theorem textWrap_length_or {w : Nat} {s : Str} {ls : List Str} (h : textWrap w s = some ls) :
    ∀ l ∈ ls, l.length ≤ w ∨ (l ∈ wrapChunks (wrapMunge s) ∧ ' ' ∉ l) := by
  obtain ⟨_, rfl⟩ := textWrap_eq h
  intro l hl
  rcases wrapLines_length_or w (fun c => c ∈ wrapChunks (wrapMunge s)) _ false [] 0 rfl (Or.inl (Nat.zero_le _))
      (fun c hc => hc) l hl with hle | ⟨hm, hb⟩
  · exact Or.inl hle
  · refine Or.inr ⟨hm, ?_⟩
    have hh : Homog l := (wrapChunks_ok (wrapMunge s)).homog l hm
    intro hmem
    have hk : kindOf l = true := by
      have := hh.2 ' ' hmem
      simpa using this.symm
    exact hb (hh.blank_of_kind_true hk)

theorem closeLine_nonblank_line (cur : List Str) (h : ChunksOK cur.reverse) (hx : ∀ a ∈ cur, NoExotic a) :
    ∀ l ∈ (closeLine cur).toList, tokensWs l ≠ [] := by
  intro l hl
  cases cur with
  | nil => simp [closeLine] at hl
  | cons l0 rest =>
    have hhom : Homog l0 := h.homog l0 (by simp)
    by_cases hb : isBlankChunk l0 = true
    · rw [closeLine_blank l0 rest hb] at hl
      cases rest with
      | nil => simp at hl
      | cons x xs =>
        simp only [List.isEmpty_cons, Bool.false_eq_true, if_false, Option.toList, List.mem_singleton] at hl
        subst hl
        have h' : ChunksOK (xs.reverse ++ ([x] ++ [l0])) := by
          simpa [List.reverse_cons, List.append_assoc] using h
        have hpair := h'.append_right
        have hxk : kindOf x = false := by
          have hne := hpair.2.1 l0 rfl
          rw [hhom.kind_of_blank (hx l0 (by simp)) hb] at hne
          cases hk : kindOf x with
          | false => rfl
          | true => exact absurd hk hne
        have hok : ChunksOK (x :: xs).reverse := by
          rw [List.reverse_cons] at h; exact h.append_left
        rw [tokensWs_flatten_chunks _ hok, List.reverse_cons, List.flatMap_append]
        have htok := tokensWs_tok x (hpair.1.isTok_of_kind_false (hx x (by simp)) hxk)
        simp [htok]
    · rw [closeLine_nonblank l0 rest hb] at hl
      simp only [Option.toList, List.mem_singleton] at hl
      subst hl
      have hk : kindOf l0 = false := by
        cases hk : kindOf l0 with
        | false => rfl
        | true => exact absurd (hhom.blank_of_kind_true hk) hb
      rw [tokensWs_flatten_chunks _ h, List.reverse_cons, List.flatMap_append]
      have htok := tokensWs_tok l0 (hhom.isTok_of_kind_false (hx l0 (by simp)) hk)
      simp [htok]

theorem wrapLines_nonblank (w : Nat) (cs : List Str) (has : Bool) (cur : List Str) (n : Nat)
    (h : ChunksOK (cur.reverse ++ cs)) (hcur : ∀ a ∈ cur, NoExotic a) (hcs : ∀ a ∈ cs, NoExotic a) :
    ∀ l ∈ wrapLines w cs has cur n, tokensWs l ≠ [] := by
  induction cs generalizing has cur n with
  | nil =>
    intro l hl
    simp only [wrapLines, List.append_nil] at h hl
    exact closeLine_nonblank_line cur h hcur l hl
  | cons c cs ih =>
    intro l hl
    rw [wrapLines] at hl
    have hc : NoExotic c := hcs c (by simp)
    have hcs' : ∀ a ∈ cs, NoExotic a := fun x hx => hcs x (by simp [hx])
    by_cases hfit : n + c.length ≤ w
    · simp only [hfit, if_true] at hl
      refine ih has (c :: cur) _ (by simpa using h) ?_ hcs' l hl
      intro a ha
      rcases List.mem_cons.mp ha with ha | ha
      · subst ha; exact hc
      · exact hcur a ha
    · simp only [hfit, if_false, List.mem_append] at hl
      have hccs : ChunksOK (c :: cs) := h.append_right
      rcases hl with hl | hl
      · exact closeLine_nonblank_line cur h.append_left hcur l hl
      · split at hl
        · exact ih _ [] 0 (by simpa using hccs.2.2) (by simp) hcs' l hl
        · exact ih _ [c] c.length (by simpa using hccs) (by simpa using hc) hcs' l hl

theorem textWrap_nonblank {w : Nat} {s : Str} {ls : List Str} (h : textWrap w s = some ls)
    (hs : ∀ c ∈ s, isPySpace c = true → isWrapSpace c = true) : ∀ l ∈ ls, tokensWs l ≠ [] := by
  obtain ⟨_, _, rfl⟩ := textWrap_eq h
  have hok := wrapChunks_ok (wrapMunge s)
  exact wrapLines_nonblank w _ false [] 0 (by simpa using hok) (by simp)
    (chunk_noExotic (wrapMunge_noExotic s hs))


theorem divRoundHalfEven_exact (q d : Nat) (hd : 0 < d) : divRoundHalfEven (q * d) d = q := by
  unfold divRoundHalfEven
  have h1 : q * d / d = q := Nat.mul_div_cancel q hd
  have h2 : q * d % d = 0 := Nat.mul_mod_left q d
  simp only [h1, h2]
  have : ¬ (2 * 0 > d) := by omega
  have h3 : (2 * 0 == d) = false := by simp; omega
  simp [h3]

/-- the nearest integer is unique away from ties: anything strictly within half a unit of `q` rounds to `q` -/
theorem divRoundHalfEven_unique (num den q : Nat) (hd : 0 < den)
    (h : 2 * ((q : Int) * den - num).natAbs < den) : divRoundHalfEven num den = q := by
  have hdm := Nat.div_add_mod num den
  have hr := Nat.mod_lt num hd
  unfold divRoundHalfEven
  simp only
  generalize hQ : num / den = Q at *
  generalize hR : num % den = r at *
  have hcast : ((den * Q : Nat) : Int) = (den : Int) * Q := by push_cast; rfl
  have hmul : (q : Int) * den = ((q * den : Nat) : Int) := by push_cast; rfl
  rw [hmul] at h
  have hcomm : den * Q = Q * den := Nat.mul_comm _ _
  -- q is Q or Q + 1
  have hlo : Q ≤ q := by
    apply Nat.le_of_not_lt
    intro hlt
    have : (q + 1) * den ≤ Q * den := Nat.mul_le_mul_right den hlt
    rw [Nat.add_mul] at this
    omega
  have hhi : q ≤ Q + 1 := by
    apply Nat.le_of_not_lt
    intro hlt
    have : (Q + 2) * den ≤ q * den := Nat.mul_le_mul_right den hlt
    rw [Nat.add_mul] at this
    omega
  rcases Nat.lt_or_ge Q q with hq | hq
  · have hq1 : q = Q + 1 := by omega
    subst hq1
    rw [Nat.add_mul] at h
    have : 2 * r > den := by omega
    simp [this]
  · have hq0 : q = Q := by omega
    subst hq0
    have h1 : ¬ (2 * r > den) := by omega
    have h2 : (2 * r == den) = false := by simp; omega
    simp [h1, h2]


/-! ### the exact separation condition -/

/-- the formatted cell `j` begins with a whitespace character -/
def SepAt (c : RowCfg) (null : Str) (j : Nat) (y : F64) : Prop :=
  ∃ ch r, formatCell null (c.colFmt j) c.lenNumericField (c.leftSpacing j) y = ch :: r ∧ isPySpace ch = true

/-- every cell of the list (columns `j`, `j+1`, …) begins with a whitespace character -/
def RowSep (c : RowCfg) (null : Str) : Nat → List F64 → Prop
  | _, [] => True
  | j, y :: ys => SepAt c null j y ∧ RowSep c null (j + 1) ys

/-- weaker than `CfgOK`: spacers are whitespace (possibly empty), NULL is a token -/
structure SpacersWs (c : RowCfg) (null : Str) : Prop where
  spacer_ws : ∀ ch ∈ c.spacer, isPySpace ch = true
  lhs_ws : ∀ ch ∈ c.lhsSpacer, isPySpace ch = true
  null_tok : IsTok null

theorem SpacersWs.left {c : RowCfg} {null : Str} (h : SpacersWs c null) (j : Nat) :
    ∀ ch ∈ c.leftSpacing j, isPySpace ch = true := by
  unfold RowCfg.leftSpacing
  by_cases hj : j = 0
  · simp only [hj, if_true]; exact h.lhs_ws
  · simp only [hj, if_false]; exact h.spacer_ws

theorem tokensWs_dataRowFrom_sep {c : RowCfg} {null : Str} (h : SpacersWs c null) (j : Nat) (x : F64) (xs : List F64)
    (hsep : RowSep c null (j + 1) xs) :
    tokensWs (dataRowFrom c null j (x :: xs)) = rowTokensFrom c null j (x :: xs) := by
  induction xs generalizing j x with
  | nil =>
    obtain ⟨pad, hpad, hshape⟩ := formatCell_shape null (c.colFmt j) c.lenNumericField (c.leftSpacing j) x
    have hws : ∀ ch ∈ c.leftSpacing j ++ pad, isPySpace ch = true := by
      intro ch hch
      rcases List.mem_append.mp hch with h1 | h1
      · exact h.left j ch h1
      · exact hpad.ws ch h1
    simp only [dataRowFrom, rowTokensFrom, hshape, List.append_nil]
    exact tokensWs_cell_end _ _ hws (cellToken_isTok null h.null_tok (c.colFmt j) x)
  | cons y ys ih =>
    obtain ⟨pad, hpad, hshape⟩ := formatCell_shape null (c.colFmt j) c.lenNumericField (c.leftSpacing j) x
    have hws : ∀ ch ∈ c.leftSpacing j ++ pad, isPySpace ch = true := by
      intro ch hch
      rcases List.mem_append.mp hch with h1 | h1
      · exact h.left j ch h1
      · exact hpad.ws ch h1
    obtain ⟨⟨ch, r, hr, hch⟩, hrest⟩ := hsep
    have hrow : dataRowFrom c null (j + 1) (y :: ys) = ch :: (r ++ dataRowFrom c null (j + 1 + 1) ys) := by
      simp only [dataRowFrom, hr, List.cons_append]
    rw [dataRowFrom, rowTokensFrom, hshape, hrow,
      tokensWs_cell_then_space _ _ ch _ hws (cellToken_isTok null h.null_tok (c.colFmt j) x) hch, ← hrow, ih (j + 1) y hrest]

theorem CfgOK.spacersWs {c : RowCfg} {null : Str} (h : CfgOK c null) : SpacersWs c null :=
  ⟨h.spacer_ws, h.lhs_ws, h.null_tok⟩

theorem CfgOK.rowSep {c : RowCfg} {null : Str} (h : CfgOK c null) (j : Nat) (xs : List F64) :
    RowSep c null (j + 1) xs := by
  induction xs generalizing j with
  | nil => trivial
  | cons y ys ih =>
    refine ⟨?_, ih (j + 1)⟩
    cases hs : c.spacer with
    | nil => exact absurd hs h.spacer_ne
    | cons ch sp =>
      refine ⟨ch, sp ++ (if c.lenNumericField == -1 then cellValue null (c.colFmt (j + 1)) y
          else rjust c.lenNumericField.toNat (cellValue null (c.colFmt (j + 1)) y)), ?_, h.spacer_ws ch (by simp [hs])⟩
      simp only [formatCell, RowCfg.leftSpacing, Nat.add_eq_zero_iff, Nat.one_ne_zero, and_false, if_false, hs,
        List.cons_append]

/-- right-justified fields wider than every value also keep cells apart (even with an empty spacer) -/
theorem justified_sepAt (c : RowCfg) (null : Str) (j : Nat) (y : F64)
    (hl : c.lenNumericField ≠ -1) (hlen : (cellValue null (c.colFmt j) y).length < c.lenNumericField.toNat)
    (hws : ∀ ch ∈ c.leftSpacing j, isPySpace ch = true) : SepAt c null j y := by
  unfold SepAt formatCell
  have hl' : (c.lenNumericField == -1) = false := by simpa using hl
  simp only [hl', Bool.false_eq_true, if_false, rjust]
  obtain ⟨k, hk⟩ : ∃ k, c.lenNumericField.toNat - (cellValue null (c.colFmt j) y).length = k + 1 :=
    ⟨c.lenNumericField.toNat - (cellValue null (c.colFmt j) y).length - 1, by omega⟩
  rw [hk, List.replicate_succ]
  cases hsp : c.leftSpacing j with
  | nil => exact ⟨' ', _, rfl, by decide⟩
  | cons ch sp => exact ⟨ch, _, rfl, hws ch (by simp [hsp])⟩


theorem rowTokensFrom_length (c : RowCfg) (null : Str) (j : Nat) (cells : List F64) :
    (rowTokensFrom c null j cells).length = cells.length := by
  induction cells generalizing j with
  | nil => rfl
  | cons x xs ih => simp [rowTokensFrom, ih]

theorem rowLines_tokens {wrap : Bool} {dw : Nat} {row : Str} {ls : List Str} (h : rowLines wrap dw row = some ls) :
    ls.flatMap tokensWs = tokensWs row := by
  unfold rowLines at h
  cases wrap with
  | true => simp only [if_true] at h; exact textWrap_tokens h
  | false =>
    simp only [Bool.false_eq_true, if_false] at h
    injection h with h; subst h; simp

theorem dwBodyLines_tokens {c : RowCfg} {null : Str} (hok : CfgOK c null) (wrap : Bool) (dw : Nat)
    (rows : List (List F64)) (body : List Str) (h : dwBodyLines c null wrap dw rows = some body) :
    body.flatMap tokensWs = rows.flatMap (rowTokens c null) := by
  induction rows generalizing body with
  | nil => simp only [dwBodyLines] at h; injection h with h; subst h; rfl
  | cons r rs ih =>
    rw [dwBodyLines] at h
    split at h
    · rename_i a b ha hb
      injection h with h; subst h
      rw [List.flatMap_append, rowLines_tokens ha, ih b hb, List.flatMap_cons]
      congr 1
      exact tokensWs_dataRowFrom hok 0 r
    · cases h

theorem dwBodyLines_length {c : RowCfg} {null : Str} (dw : Nat)
    (rows : List (List F64)) (body : List Str) (h : dwBodyLines c null true dw rows = some body) :
    ∀ l ∈ body, (l.length ≤ dw ∨ ' ' ∉ l) ∧ l ≠ [] := by
  induction rows generalizing body with
  | nil => simp only [dwBodyLines] at h; injection h with h; subst h; intro l hl; cases hl
  | cons r rs ih =>
    rw [dwBodyLines] at h
    split at h
    · rename_i a b ha hb
      injection h with h; subst h
      intro l hl
      rcases List.mem_append.mp hl with hl | hl
      · simp only [rowLines, if_true] at ha
        refine ⟨?_, textWrap_ne_nil ha l hl⟩
        rcases textWrap_length_or ha l hl with h1 | h2
        · exact Or.inl h1
        · exact Or.inr h2.2
      · exact ih b hb l hl
    · cases h

end Lasio.Dw
