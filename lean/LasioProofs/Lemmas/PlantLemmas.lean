import LasioProofs.Lemmas.JunkLemmas
import LasioProofs.Lemmas.RedelimHeaderLemmas
/-
C05, last clause, whole file: an item line planted in a header section whose title does not consult that item's mnemonic.
Helper lemmas for Props/C05File (the argument of `C19_file` — Lemmas/JunkLemmas.lean — with the hypothesis "not a steering
mnemonic" weakened to "not a mnemonic THIS section consults", and without `ignore_header_errors`).

§1  `consulted`: the steering mnemonics a section title consults; `steer_insert`
§2  the decidable side condition `plantSafe` on the title and the line
§3  the section that received the line (`docSection_plant`), the header-level reader (`readLines_plant`), the whole file
    (`readFull_plant`)
-/
namespace Lasio.Tf
open Lasio Lasio.Dt

/-! ## §1 what a title consults -/

/-- the steering mnemonics `read` looks up in the items of a section with this title: VERS, WRAP, DLM in ~V…, NULL in ~W… -/
def consulted (T : Str) : List Str :=
  if Rd.titleLetter T == ['V'] then ["VERS".toList, "WRAP".toList, "DLM".toList]
  else if Rd.titleLetter T == ['W'] then ["NULL".toList] else []

theorem consulted_steerKeys (T : Str) : ∀ k ∈ consulted T, k ∈ Rd.steerKeys := by
  intro k hk
  unfold consulted at hk
  split at hk
  · simp only [List.mem_cons, List.not_mem_nil, or_false] at hk
    rcases hk with rfl | rfl | rfl <;> simp [Rd.steerKeys]
  · split at hk
    · simp only [List.mem_cons, List.not_mem_nil, or_false] at hk
      subst hk; simp [Rd.steerKeys]
    · cases hk

/-- an item whose mnemonic the title does not consult is invisible to the steering code of that section -/
theorem steer_insert (o : Rd.ReadOpts) (T : Str) (a b : List Rd.RItem) (it : Rd.RItem) (s : Rd.Steer)
    (h : ∀ k ∈ consulted T, Rd.mcmp (trOf o) (Rd.U it) k = false) :
    Rd.steer o T (a ++ it :: b) s = Rd.steer o T (a ++ b) s := by
  have hl : ∀ k ∈ consulted T, Rd.lookupItem (trOf o) (a ++ it :: b) k = Rd.lookupItem (trOf o) (a ++ b) k :=
    fun k hk => Rd.lookupItem_insert _ k (consulted_steerKeys T k hk) a b it (h k hk)
  unfold Rd.steer
  unfold consulted at hl
  by_cases hV : (Rd.titleLetter T == ['V']) = true
  · simp only [hV, if_true] at hl ⊢
    have h1 := hl "VERS".toList (by simp)
    have h2 := hl "WRAP".toList (by simp)
    have h3 := hl "DLM".toList (by simp)
    simp only [trOf] at h1 h2 h3
    rw [h1, h2, h3]
  · simp only [hV, Bool.false_eq_true, if_false] at hl ⊢
    by_cases hW : (Rd.titleLetter T == ['W']) = true
    · simp only [hW, if_true] at hl ⊢
      have h1 := hl "NULL".toList (by simp)
      simp only [trOf] at h1
      rw [h1]
    · simp only [hW, Bool.false_eq_true, if_false]

/-! ## §2 a decidable side condition -/

/-- whatever section name `read_header_line` is called with, the line parses, and the mnemonic it gets (in the requested case)
is none of those the title `t` consults -/
def plantSafe (mc : Rd.MCase) (t j : Str) : Bool :=
  Rd.allSecNames.all fun sec =>
    match parseHeaderLine sec (Rd.lineStrip j) with
    | none => false
    | some f => (consulted (Rd.sline t)).all fun k =>
        !Rd.mcmp (mc != .preserve) (Rd.usefulMn (Rd.applyCase mc f.name)) k

theorem plantSafe_not_bad (o : Rd.ReadOpts) (p : Rd.Parser) (t j : Str) (h : plantSafe o.mnemonicCase t j = true) :
    Rd.lineRes o p j ≠ .bad := by
  have := List.all_eq_true.mp h p.sec (Rd.mem_allSecNames p.sec)
  intro hb
  unfold Rd.lineRes at hb
  simp only at hb
  split at hb
  · cases hb
  · split at hb
    · cases hb
    · split at hb
      · cases hb
      · split at hb
        · rename_i hn
          rw [hn] at this
          cases this
        · cases hb

theorem plantSafe_item (o : Rd.ReadOpts) (p : Rd.Parser) (t j : Str) (it : Rd.RItem) (h : plantSafe o.mnemonicCase t j = true)
    (hit : Rd.lineItem o p j = some it) : ∀ k ∈ consulted (Rd.sline t), Rd.mcmp (trOf o) (Rd.U it) k = false := by
  obtain ⟨f, hf, hn⟩ := Rd.lineItem_orig o p j it hit
  have := List.all_eq_true.mp h p.sec (Rd.mem_allSecNames p.sec)
  simp only [hf] at this
  intro k hk
  have hk' := List.all_eq_true.mp this k hk
  unfold Rd.U
  rw [hn]
  simpa using hk'

theorem mcmp_false_of_upper_ne (tr : Bool) (a b : Str) (h : upper a ≠ upper b) : Rd.mcmp tr a b = false := by
  cases tr
  · simp only [Rd.mcmp, Bool.false_eq_true, if_false, beq_eq_false_iff_ne]
    intro e; exact h (by rw [e])
  · simp only [Rd.mcmp, if_true, beq_eq_false_iff_ne]
    exact h

/-- the named form: every section parser reads the line as an item whose mnemonic, upper-cased, is `K`, and `K` is none of the
mnemonics the title consults -/
theorem plantSafe_of_name (mc : Rd.MCase) (t j : Str) (K : Str)
    (hparse : ∀ sec ∈ Rd.allSecNames, ∃ f, parseHeaderLine sec (Rd.lineStrip j) = some f ∧ upper (Rd.applyCase mc f.name) = K ∧
      (strip (Rd.applyCase mc f.name)).isEmpty = false)
    (hK : ∀ k ∈ consulted (Rd.sline t), K ≠ upper k) : plantSafe mc t j = true := by
  unfold plantSafe
  rw [List.all_eq_true]
  intro sec hsec
  obtain ⟨f, hf, hu, hne⟩ := hparse sec hsec
  simp only [hf]
  rw [List.all_eq_true]
  intro k hk
  have : Rd.usefulMn (Rd.applyCase mc f.name) = Rd.applyCase mc f.name := by
    unfold Rd.usefulMn; rw [hne]; rfl
  rw [this, mcmp_false_of_upper_ne _ _ _ (by rw [hu]; exact hK k hk)]
  rfl

/-! ## §3 the section that received the line, the header, the file -/

/-- THE SECTION THAT RECEIVED THE LINE: `(t, b₁ ++ b₂)` and `(t, b₁ ++ j :: b₂)` read from the same state end in states that
differ in the value stored for the section only — the item of `j` inserted at its place — provided `j` is not an unparsable
line (or header errors are ignored), the section is not stored under "Curves", and the title does not consult the mnemonic -/
theorem docSection_plant (o : Rd.ReadOpts) (n n' : Nat) (t : Str) (b₁ b₂ : List Str) (j : Str) (st r : Rd.RState)
    (ht : Rd.isTitle t = true) (hk : kindOf t = .items) (hcur : Rd.curvesTitle t = false)
    (hbad : o.ignoreHeaderErrors = true ∨ ∀ ver p, Rd.mkParser (Rd.lineStrip t) ver = .ok p → Rd.lineRes o p j ≠ .bad)
    (hsafe : ∀ ver p it, Rd.mkParser (Rd.lineStrip t) ver = .ok p → Rd.lineItem o p j = some it →
      ∀ k ∈ consulted (Rd.sline t), Rd.mcmp (trOf o) (Rd.U it) k = false)
    (h : Rd.docSection o n (t, b₁ ++ b₂) st = .ok r) :
    ∃ p k, Rd.mkParser (Rd.lineStrip t) (Rd.classifyVer st.steer.vers) = .ok p ∧ k ≠ Rd.kCurves ∧
      (∃ ver', Rd.secKey ver' (t, ([] : List Str)) = some k) ∧
      r.sections = Rd.assign k (.items (Rd.bodyItems o p b₁ ++ Rd.bodyItems o p b₂)) st.sections ∧
      Rd.docSection o n' (t, b₁ ++ j :: b₂) st =
        .ok { r with sections := Rd.assign k
                                  (.items (Rd.bodyItems o p b₁ ++ (Rd.lineItem o p j).toList ++ Rd.bodyItems o p b₂))
                                  st.sections } := by
  have hk' : Rd.sectionType (Rd.sline t) = .items := hk
  unfold Rd.docSection at h ⊢
  simp only [hk'] at h ⊢
  cases hp : Rd.mkParser (Rd.lineStrip t) (Rd.classifyVer st.steer.vers) with
  | error e => simp [hp] at h
  | ok p =>
    simp only [hp] at h ⊢
    cases hb : Rd.bodyRun o p (b₁ ++ b₂) n with
    | error e => simp only [hb] at h; cases h
    | ok items =>
      simp only [hb] at h
      obtain ⟨hcond, hie⟩ := (bodyRun_ok_iff o p _ _ _).mp hb
      have hcond' : o.ignoreHeaderErrors = true ∨ ∀ x ∈ b₁ ++ j :: b₂, Rd.lineRes o p x ≠ .bad := by
        rcases hcond with hc | hc
        · exact Or.inl hc
        · rcases hbad with hi | hnb
          · exact Or.inl hi
          · right
            intro x hx
            rcases List.mem_append.mp hx with h1 | h1
            · exact hc x (List.mem_append_left _ h1)
            · rcases List.mem_cons.mp h1 with rfl | h1
              · exact hnb _ p hp
              · exact hc x (List.mem_append_right _ h1)
      have hb' : Rd.bodyRun o p (b₁ ++ j :: b₂) n' = .ok (Rd.bodyItems o p (b₁ ++ j :: b₂)) :=
        (bodyRun_ok_iff o p _ _ _).mpr ⟨hcond', rfl⟩
      rw [hb']
      simp only
      rw [hie, Rd.bodyItems_append] at h
      rw [bodyItems_insert]
      obtain ⟨k, hlen, hr, rfl⟩ := Rd.finishItems_ok o _ _ st r h
      have hsteer : Rd.steer o (Rd.sline t) (Rd.bodyItems o p b₁ ++ (Rd.lineItem o p j).toList ++ Rd.bodyItems o p b₂) st.steer =
          Rd.steer o (Rd.sline t) (Rd.bodyItems o p b₁ ++ Rd.bodyItems o p b₂) st.steer := by
        cases hl : Rd.lineItem o p j with
        | none => simp
        | some x =>
          simp only [Option.toList_some, List.append_assoc, List.singleton_append]
          exact steer_insert o _ _ _ x _ (hsafe _ p x hp hl)
      have hr' := hr
      rw [← hsteer] at hr'
      rw [Rd.finishItems_of o _ _ st k hlen hr']
      have hkey : k ≠ Rd.kCurves := Rd.routeKey_not_curves _ _ k ht hcur hr
      have hsk : ∃ ver', Rd.secKey ver' (t, ([] : List Str)) = some k := by
        refine ⟨Rd.classifyVer (Rd.steer o (Rd.sline t) (Rd.bodyItems o p b₁ ++ Rd.bodyItems o p b₂) st.steer).vers, ?_⟩
        unfold Rd.secKey
        simp only [hk', hlen, if_false, hr]
        rfl
      refine ⟨p, k, rfl, hkey, hsk, rfl, ?_⟩
      rw [hsteer]
      have : (k == Rd.kCurves) = false := by simpa using hkey
      simp only [this, Bool.false_eq_true, if_false]

/-- HEADER PART, whole file -/
theorem readLines_plant (o : Rd.ReadOpts) (pre : List Str) (A B : List (Str × List Str)) (t : Str) (b₁ b₂ : List Str) (j : Str)
    (hpre : ∀ x ∈ pre, Rd.isTitle x = false) (hw : Rd.WellFormed (A ++ (t, b₁ ++ b₂) :: B)) (hj : Rd.isTitle j = false)
    (hk : kindOf t = .items) (hcur : Rd.curvesTitle t = false)
    (hbad : o.ignoreHeaderErrors = true ∨ ∀ ver p, Rd.mkParser (Rd.lineStrip t) ver = .ok p → Rd.lineRes o p j ≠ .bad)
    (hsafe : ∀ ver p it, Rd.mkParser (Rd.lineStrip t) ver = .ok p → Rd.lineItem o p j = some it →
      ∀ k ∈ consulted (Rd.sline t), Rd.mcmp (trOf o) (Rd.U it) k = false)
    (h : Rd.RHeader) (hr : Rd.readLines o (pre ++ Rd.flat (A ++ (t, b₁ ++ b₂) :: B)) = .ok h) :
    ∃ ver p k secs', Rd.mkParser (Rd.lineStrip t) ver = .ok p ∧ k ≠ Rd.kCurves ∧
      JRel k (.items (Rd.bodyItems o p b₁ ++ Rd.bodyItems o p b₂))
             (.items (Rd.bodyItems o p b₁ ++ (Rd.lineItem o p j).toList ++ Rd.bodyItems o p b₂)) h.sections secs' ∧
      ((∀ tb ∈ B, ∀ ver ver' k', Rd.secKey ver (t, ([] : List Str)) = some k' → Rd.secKey ver' tb ≠ some k') →
        h.sections.lookup k = some (.items (Rd.bodyItems o p b₁ ++ Rd.bodyItems o p b₂)) ∧
        secs'.lookup k = some (.items (Rd.bodyItems o p b₁ ++ (Rd.lineItem o p j).toList ++ Rd.bodyItems o p b₂))) ∧
      h.data = docData (A ++ (t, b₁ ++ b₂) :: B) pre.length ∧
      Rd.readLines o (pre ++ Rd.flat (A ++ (t, b₁ ++ j :: b₂) :: B)) =
        .ok ⟨secs', h.steer, docData (A ++ (t, b₁ ++ j :: b₂) :: B) pre.length⟩ := by
  have hw' := wellFormed_insert hw hj
  have ht : Rd.isTitle t = true := (hw (t, b₁ ++ b₂) (List.mem_append_right _ List.mem_cons_self)).1
  rw [readLines_struct o pre _ hpre hw (by simp)] at hr
  rw [readLines_struct o pre _ hpre hw' (by simp)]
  cases hd : Rd.docSections o (A ++ (t, b₁ ++ b₂) :: B) pre.length Rd.RState.init with
  | error e => rw [hd] at hr; cases hr
  | ok st =>
    rw [hd] at hr
    simp only at hr
    have hwin := docSections_wins o _ _ _ st hd
    rw [docSections_append] at hd
    cases hA : Rd.docSections o A pre.length Rd.RState.init with
    | error e => rw [hA] at hd; cases hd
    | ok s1 =>
      rw [hA] at hd
      simp only [Rd.docSections] at hd
      cases hT : Rd.docSection o (pre.length + Rd.size A) (t, b₁ ++ b₂) s1 with
      | error e => rw [hT] at hd; cases hd
      | ok s2 =>
        rw [hT] at hd
        simp only at hd
        obtain ⟨p, k, hp, hkey, ⟨ver0, hsk⟩, hsec, hT'⟩ :=
          docSection_plant o _ (pre.length + Rd.size A) t b₁ b₂ j s1 s2 ht hk hcur hbad hsafe hT
        obtain ⟨st', hB', hs', hc', hrel⟩ := docSections_P (fun _ => True)
          (JRelO k (.items (Rd.bodyItems o p b₁ ++ Rd.bodyItems o p b₂))
            (.items (Rd.bodyItems o p b₁ ++ (Rd.lineItem o p j).toList ++ Rd.bodyItems o p b₂)))
          (fun k2 v m m' _ hm => jrelO_assign k _ _ k2 v m m' hm) o B _
          (pre.length + Rd.size A + 1 + (b₁ ++ j :: b₂).length) s2
          { s2 with sections := Rd.assign k
                                  (.items (Rd.bodyItems o p b₁ ++ (Rd.lineItem o p j).toList ++ Rd.bodyItems o p b₂))
                                  s1.sections }
          st (fun _ _ _ _ _ => trivial) rfl rfl
          (by rw [hsec]; exact jrelO_assign_diff k _ _ s1.sections) hd
        have hd' : Rd.docSections o (A ++ (t, b₁ ++ j :: b₂) :: B) pre.length Rd.RState.init = .ok st' := by
          rw [docSections_append, hA]
          simp only [Rd.docSections, hT']
          exact hB'
        have hwin' := docSections_wins o _ _ _ st' hd'
        rw [hd']
        simp only
        obtain ⟨f1, f2⟩ := finishRead_same st st' h hs' hc' hr
        refine ⟨_, p, k, assigned st'.sections, hp, hkey, ?_, ?_, ?_, ?_⟩
        · rw [f1]; exact jrel_assigned k _ _ _ _ hrel
        · intro hlast
          obtain ⟨st'', hB'', _, _, hl1, hl2⟩ := docSections_P (fun k' => k' ≠ k)
            (fun m m' => (assigned m).lookup k = some (.items (Rd.bodyItems o p b₁ ++ Rd.bodyItems o p b₂)) ∧
              (assigned m').lookup k =
                some (.items (Rd.bodyItems o p b₁ ++ (Rd.lineItem o p j).toList ++ Rd.bodyItems o p b₂)))
            (fun k2 v m m' hne hm =>
              ⟨by rw [assigned_lookup_other k k2 v m (Ne.symm hne)]; exact hm.1,
               by rw [assigned_lookup_other k k2 v m' (Ne.symm hne)]; exact hm.2⟩) o B _
            (pre.length + Rd.size A + 1 + (b₁ ++ j :: b₂).length) s2
            { s2 with sections := Rd.assign k
                                    (.items (Rd.bodyItems o p b₁ ++ (Rd.lineItem o p j).toList ++ Rd.bodyItems o p b₂))
                                    s1.sections }
            st (fun tb htb ver' k' hk' e => hlast tb htb ver0 ver' k hsk (by rw [hk', e])) rfl rfl
            (by rw [hsec]; exact ⟨assigned_lookup_same k _ _, assigned_lookup_same k _ _⟩) hd
          rw [hB'] at hB''
          cases hB''
          rw [f1]
          exact ⟨hl1, hl2⟩
        · rw [f1]
          simp only [hwin.1, hwin.2, Rd.RState.init, List.nil_append]
          rfl
        · rw [f2, f1]
          simp only [hwin'.1, hwin'.2, Rd.RState.init, List.nil_append]
          rfl

/-- WHOLE FILE on the document structure -/
theorem readFull_plant (o : Opts) (nullOf : Option Str → Option Str) (ft : FloatTable) (htf : TildeNotFloat ft)
    (pre : List Str) (A B : List (Str × List Str)) (t : Str) (b₁ b₂ : List Str) (j : Str)
    (hpre : ∀ x ∈ pre, Rd.isTitle x = false) (hw : Rd.WellFormed (A ++ (t, b₁ ++ b₂) :: B)) (hj : Rd.isTitle j = false)
    (hk : kindOf t = .items) (hcur : Rd.curvesTitle t = false)
    (hbad : o.hdr.ignoreHeaderErrors = true ∨ ∀ ver p, Rd.mkParser (Rd.lineStrip t) ver = .ok p → Rd.lineRes o.hdr p j ≠ .bad)
    (hsafe : ∀ ver p it, Rd.mkParser (Rd.lineStrip t) ver = .ok p → Rd.lineItem o.hdr p j = some it →
      ∀ k ∈ consulted (Rd.sline t), Rd.mcmp (trOf o.hdr) (Rd.U it) k = false)
    (r : FullRead) (hr : readFull o nullOf ft (pre ++ Rd.flat (A ++ (t, b₁ ++ b₂) :: B)) = .ok r) :
    ∃ r' ver p k, readFull o nullOf ft (pre ++ Rd.flat (A ++ (t, b₁ ++ j :: b₂) :: B)) = .ok r' ∧
      r'.steer = r.steer ∧
      r'.data = r.data.map (shiftData (pre.length + Rd.size A + 1 + b₁.length)) ∧
      Rd.mkParser (Rd.lineStrip t) ver = .ok p ∧ k ≠ Rd.kCurves ∧
      JRel k (.items (Rd.bodyItems o.hdr p b₁ ++ Rd.bodyItems o.hdr p b₂))
             (.items (Rd.bodyItems o.hdr p b₁ ++ (Rd.lineItem o.hdr p j).toList ++ Rd.bodyItems o.hdr p b₂))
             r.sections r'.sections ∧
      ((∀ tb ∈ B, ∀ ver ver' k', Rd.secKey ver (t, ([] : List Str)) = some k' → Rd.secKey ver' tb ≠ some k') →
        r.sections.lookup k = some (.items (Rd.bodyItems o.hdr p b₁ ++ Rd.bodyItems o.hdr p b₂)) ∧
        r'.sections.lookup k =
          some (.items (Rd.bodyItems o.hdr p b₁ ++ (Rd.lineItem o.hdr p j).toList ++ Rd.bodyItems o.hdr p b₂))) := by
  unfold readFull at hr ⊢
  cases hh : Rd.readLines o.hdr (pre ++ Rd.flat (A ++ (t, b₁ ++ b₂) :: B)) with
  | error e => rw [hh] at hr; cases hr
  | ok h =>
    rw [hh] at hr
    obtain ⟨ver, p, k, secs', hp, hkey, hrel, hlast, hdata, hr'⟩ :=
      readLines_plant o.hdr pre A B t b₁ b₂ j hpre hw hj hk hcur hbad hsafe h hh
    rw [hr']
    simp only [Except.ok.injEq] at hr
    subst hr
    refine ⟨_, ver, p, k, rfl, rfl, ?_, hp, hkey, hrel, hlast⟩
    simp only
    have hdc : declaredCount secs' = declaredCount h.sections :=
      jrel_declaredCount k _ _ _ _ hrel (Or.inl hkey)
    rw [hdc, hdata]
    exact dataReads_shift o.dat _ _ ft _ _ _ _ _ (docData_insert A B t b₁ b₂ j hk pre.length)
      (docData_res o.dat ft htf _ _ (dRel_insert A B t _ _ hk) hw pre pre).symm

end Lasio.Tf
