import LasioModel.WriteObj
import LasioProofs.Lemmas.SectionInv
/-
Lemmas about the object-level writer model `Lasio.Wo` (used by Props/C16.lean).
-/
namespace Lasio.Wo
open Lasio

/-! ## `findFirst`, `keyIdx`, `lookup` -/

theorem findFirst_map {α β} (p : β → Bool) (f : α → β) (l : List α) :
    findFirst p (l.map f) = findFirst (fun x => p (f x)) l := by
  induction l with
  | nil => rfl
  | cons a l ih => simp [findFirst, ih]

theorem findFirst_some {α} {p : α → Bool} {l : List α} {i : Nat} (h : findFirst p l = some i) :
    ∃ x, l[i]? = some x ∧ p x = true ∧ ∀ j, j < i → ∀ y, l[j]? = some y → p y = false := by
  induction l generalizing i with
  | nil => simp [findFirst] at h
  | cons a l ih =>
    unfold findFirst at h
    by_cases hp : p a = true
    · simp [hp] at h
      subst h
      exact ⟨a, by simp, hp, by intro j hj; omega⟩
    · simp [hp] at h
      obtain ⟨k, hk, rfl⟩ := h
      obtain ⟨x, hx, hpx, hlt⟩ := ih hk
      refine ⟨x, by simpa using hx, hpx, ?_⟩
      intro j hj y hy
      cases j with
      | zero => simp at hy; subst hy; simpa using hp
      | succ j => exact hlt j (by omega) y (by simpa using hy)

theorem findFirst_none {α} {p : α → Bool} {l : List α} (h : findFirst p l = none) : ∀ x ∈ l, p x = false := by
  induction l with
  | nil => simp
  | cons a l ih =>
    unfold findFirst at h
    by_cases hp : p a = true
    · simp [hp] at h
    · simp [hp] at h
      intro x hx
      rcases List.mem_cons.mp hx with rfl | hx
      · simpa using hp
      · exact ih h x hx

theorem findFirst_congr {α} {p q : α → Bool} {l : List α} (h : ∀ x ∈ l, p x = q x) : findFirst p l = findFirst q l := by
  induction l with
  | nil => rfl
  | cons a l ih =>
    have h1 := h a (by simp)
    have h2 := ih (fun x hx => h x (by simp [hx]))
    simp [findFirst, h1, h2]

/-- `keyIdx` sees the list only through its session mnemonics -/
theorem keyIdx_eq (tr : Bool) (k : Str) (l : List OItem) :
    keyIdx tr k l = findFirst (fun s => cmpStr tr s k) (l.map (·.session)) := by
  unfold keyIdx
  rw [findFirst_map]

theorem keyIdx_of_sessions {tr : Bool} {k : Str} {l l' : List OItem}
    (h : l'.map (·.session) = l.map (·.session)) : keyIdx tr k l' = keyIdx tr k l := by
  rw [keyIdx_eq, keyIdx_eq, h]

theorem sessions_modify (l : List OItem) (i : Nat) (f : OItem → OItem) (hf : ∀ x, (f x).session = x.session) :
    (l.modify i f).map (·.session) = l.map (·.session) := by
  apply List.ext_getElem?
  intro j
  simp only [List.getElem?_map, List.getElem?_modify]
  cases l[j]? with
  | none => rfl
  | some x => by_cases h : i = j <;> simp [h, hf]

theorem sessions_map (l : List OItem) (f : OItem → OItem) (hf : ∀ x, (f x).session = x.session) :
    (l.map f).map (·.session) = l.map (·.session) := by
  simp [List.map_map, Function.comp_def, hf]

theorem lookup_eq (tr : Bool) (k : Str) (l : List OItem) :
    lookup tr k l = (keyIdx tr k l).bind (fun i => l[i]?) := by
  unfold lookup keyIdx
  induction l with
  | nil => rfl
  | cons a l ih =>
    by_cases hp : cmpStr tr a.session k = true
    · simp [findFirst, hp]
    · simp only [Bool.not_eq_true] at hp
      simp only [List.find?_cons, hp, findFirst, Bool.false_eq_true, ↓reduceIte, ih]
      cases findFirst (fun x => cmpStr tr x.session k) l <;> simp

theorem keyIdx_lt {tr : Bool} {k : Str} {l : List OItem} {i : Nat} (h : keyIdx tr k l = some i) : i < l.length := by
  obtain ⟨x, hx, _⟩ := findFirst_some h
  exact (List.getElem?_eq_some_iff.mp hx).1

/-! ## comparisons of the fixed keys -/

theorem cmpStr_trans_left {tr : Bool} {s k1 k2 : Str} (h1 : cmpStr tr s k1 = true) (h2 : cmpStr tr s k2 = true) :
    cmpStr tr k1 k2 = true := by
  unfold cmpStr at *
  cases tr <;> simp_all

theorem keys_distinct (tr : Bool) :
    cmpStr tr sSTRT sSTOP = false ∧ cmpStr tr sSTRT sSTEP = false ∧ cmpStr tr sSTOP sSTEP = false := by
  cases tr <;> decide

/-- two different fixed keys are found at different positions -/
theorem keyIdx_ne {tr : Bool} {k1 k2 : Str} {l : List OItem} {i j : Nat} (hk : cmpStr tr k1 k2 = false)
    (h1 : keyIdx tr k1 l = some i) (h2 : keyIdx tr k2 l = some j) : i ≠ j := by
  intro hij
  subst hij
  obtain ⟨x, hx, hpx, _⟩ := findFirst_some h1
  obtain ⟨y, hy, hpy, _⟩ := findFirst_some h2
  rw [hx] at hy
  cases hy
  have := cmpStr_trans_left hpx hpy
  rw [hk] at this
  exact absurd this (by simp)

/-! ## values -/

theorem fmtFixed_ne_nil (N : Nat) (x : F64) : Dw.fmtFixed N x ≠ [] := by
  cases x with
  | nan => simp [Dw.fmtFixed]
  | inf neg => cases neg <;> simp [Dw.fmtFixed]
  | finite neg m e =>
    unfold Dw.fmtFixed Dw.fixedDigits
    have : natToStr (Dw.fixedUnits N m e / 10 ^ N) ≠ [] := natToStr_ne_nil _
    cases neg <;> simp [this]

theorem stdP_idem (v : PVal) (u : Str) : stdP (stdP v u) u = stdP v u := by
  cases v with
  | str s => cases hs : s.isEmpty <;> cases hu : u.isEmpty <;> simp [stdP, PVal.falsy, PVal.isZero, PVal.intZero, hs, hu, fIsZero]
  | num x t => cases hx : fIsZero x <;> cases hu : u.isEmpty <;> simp [stdP, PVal.falsy, PVal.isZero, hx, hu]
  | none => cases hu : u.isEmpty <;> simp [stdP, PVal.falsy, PVal.isZero, PVal.intZero, hu, fIsZero]

theorem stdP_num (x : F64) (t u : Str) : stdP (.num x t) u = .num x t := by
  cases hx : fIsZero x <;> cases hu : u.isEmpty <;> simp [stdP, PVal.falsy, PVal.isZero, hx, hu]

theorem stdP_str_ne (s u : Str) (h : s ≠ []) : stdP (.str s) u = .str s := by
  have : s.isEmpty = false := by cases s <;> simp_all
  simp [stdP, PVal.falsy, this]

/-- the typed normalisation is the header writer's `standardize_value` -/
theorem stdP_toW (v : PVal) (u : Str) : (stdP v u).toW = Wr.standardizeValue v.toW u := by
  cases v with
  | str s =>
    cases hs : s.isEmpty <;> cases hu : u.isEmpty <;>
      simp [stdP, PVal.falsy, PVal.isZero, PVal.intZero, PVal.toW, Wr.standardizeValue, Wr.WVal.str, Wr.WVal.num,
        Wr.WVal.intZero, hs, hu, fIsZero]
  | num x t =>
    cases hx : fIsZero x <;> cases hu : u.isEmpty <;>
      simp [stdP, PVal.falsy, PVal.isZero, PVal.toW, Wr.standardizeValue, Wr.WVal.num, hx, hu]
  | none =>
    cases hu : u.isEmpty <;>
      simp [stdP, PVal.falsy, PVal.isZero, PVal.intZero, PVal.toW, Wr.standardizeValue, Wr.WVal.none, Wr.WVal.str,
        Wr.WVal.num, Wr.WVal.intZero, hu, fIsZero]

theorem PVal.toW_WF (v : PVal) : v.toW.WF := by
  cases v <;> simp [PVal.toW, Wr.WVal.WF, Wr.WVal.str, Wr.WVal.num, Wr.WVal.none]

theorem stdItem_idem (x : OItem) : stdItem (stdItem x) = stdItem x := by
  simp [stdItem, stdP_idem]

theorem stdItems_toW (l : List OItem) : (l.map stdItem).map OItem.toW = Wr.standardizeItems (l.map OItem.toW) := by
  simp [Wr.standardizeItems, List.map_map, Function.comp_def, stdItem, OItem.toW, stdP_toW]

theorem wrapOItem_toW (w : Bool) : (wrapOItem w).toW = Wr.wrapItem w := by
  cases w <;> rfl

/-! ## `set_item` on typed items is `Wr.wSetItem` -/

theorem oRenumber_toW (tr : Bool) (test : Str) (l : List OItem) (k : Nat) :
    (oRenumber tr test l k).map OItem.toW = Wr.wRenumber tr test (l.map OItem.toW) k := by
  induction l generalizing k with
  | nil => rfl
  | cons a l ih =>
    by_cases h : cmpStr tr (useful a.orig) test = true
    · simp [oRenumber, Wr.wRenumber, OItem.toW, h, ih]
    · simp [oRenumber, Wr.wRenumber, OItem.toW, h, ih]

theorem oAssign_toW (tr : Bool) (test : Str) (l : List OItem) :
    (oAssignSuffixes tr test l).map OItem.toW = Wr.wAssignSuffixes tr test (l.map OItem.toW) := by
  unfold oAssignSuffixes Wr.wAssignSuffixes
  have : ((l.map OItem.toW).filter fun it => cmpStr tr (useful it.orig) test).length =
      (l.filter fun it => cmpStr tr (useful it.orig) test).length := by
    rw [List.filter_map, List.length_map]
    rfl
  rw [this]
  split
  · exact oRenumber_toW tr test l 0
  · rfl

theorem oSetItem_toW (tr : Bool) (key : Str) (it : OItem) (l : List OItem) :
    (oSetItem tr key it l).map OItem.toW = Wr.wSetItem tr key it.toW (l.map OItem.toW) := by
  unfold oSetItem Wr.wSetItem
  rw [findFirst_map]
  have e : (fun x : OItem => cmpStr tr key (OItem.toW x).session) = fun x => cmpStr tr key x.session := rfl
  rw [e]
  cases findFirst (fun x : OItem => cmpStr tr key x.session) l with
  | none =>
    simp only []
    rw [oAssign_toW]
    simp [OItem.toW]
  | some i =>
    simp only []
    rw [oAssign_toW, List.map_set]
    rfl

/-! ## `set_item` when WRAP is unique -/

/-- at most one position of `l` satisfies `g` -/
def AtMostOne (g : OItem → Bool) (l : List OItem) : Prop :=
  ∀ (i j : Nat) (x y : OItem), l[i]? = some x → l[j]? = some y → g x = true → g y = true → i = j

theorem filter_le_one {g : OItem → Bool} {l : List OItem} (h : AtMostOne g l) : (l.filter g).length ≤ 1 := by
  induction l with
  | nil => simp
  | cons a l ih =>
    have hl : AtMostOne g l := by
      intro i j x y hx hy gx gy
      have := h (i + 1) (j + 1) x y (by simpa using hx) (by simpa using hy) gx gy
      omega
    by_cases ga : g a = true
    · have : l.filter g = [] := by
        rw [List.filter_eq_nil_iff]
        intro y hy gy
        obtain ⟨j, hj⟩ := List.getElem?_of_mem hy
        have := h 0 (j + 1) a y (by simp) (by simpa using hj) ga gy
        omega
      simp [ga, this]
    · simp [ga]
      exact ih hl

/-- the WRAP item of ~Version is unique and carries its plain session name -/
structure WrapOK (tr : Bool) (l : List OItem) : Prop where
  unique : AtMostOne (fun x => cmpStr tr (useful x.orig) sWRAP) l
  consistent : ∀ x ∈ l, cmpStr tr sWRAP x.session = cmpStr tr (useful x.orig) sWRAP

theorem cmpStr_refl (tr : Bool) (s : Str) : cmpStr tr s s = true := by
  unfold cmpStr
  cases tr <;> simp

theorem wrapOItem_fields (w : Bool) :
    (wrapOItem w).orig = sWRAP ∧ (wrapOItem w).session = sWRAP ∧ useful (wrapOItem w).orig = sWRAP := by
  cases w <;> exact ⟨rfl, rfl, by decide⟩

theorem oAssign_noop {tr : Bool} {test : Str} {l : List OItem}
    (h : AtMostOne (fun x => cmpStr tr (useful x.orig) test) l) : oAssignSuffixes tr test l = l := by
  unfold oAssignSuffixes
  have := filter_le_one h
  split
  · omega
  · rfl

/-- with a unique, plainly named WRAP, `section["WRAP"] = item` replaces that item in place (or appends) and renames nothing -/
theorem oSetItem_wrap {tr : Bool} {l : List OItem} (w : Bool) (h : WrapOK tr l) :
    oSetItem tr sWRAP (wrapOItem w) l =
      (match findFirst (fun x => cmpStr tr sWRAP x.session) l with
       | some i => l.set i (wrapOItem w)
       | none => l ++ [wrapOItem w]) := by
  obtain ⟨ho, hs, hu⟩ := wrapOItem_fields w
  unfold oSetItem
  rw [hu]
  cases hf : findFirst (fun x => cmpStr tr sWRAP x.session) l with
  | none =>
    simp only []
    apply oAssign_noop
    have hnone := findFirst_none hf
    intro i j x y hx hy gx gy
    have key : ∀ k z, (l ++ [wrapOItem w])[k]? = some z → cmpStr tr (useful z.orig) sWRAP = true → k = l.length := by
      intro k z hz gz
      by_cases hk : k < l.length
      · rw [List.getElem?_append_left hk] at hz
        have hm := List.mem_of_getElem? hz
        have := hnone z hm
        simp only [h.consistent z hm] at this
        rw [this] at gz
        exact absurd gz (by simp)
      · have hlen := (List.getElem?_eq_some_iff.mp hz).1
        simp at hlen
        omega
    rw [key i x hx gx, key j y hy gy]
  | some i =>
    simp only []
    apply oAssign_noop
    obtain ⟨xi, hxi, hpi, _⟩ := findFirst_some hf
    have hgi : cmpStr tr (useful xi.orig) sWRAP = true := by
      rw [← h.consistent xi (List.mem_of_getElem? hxi)]; exact hpi
    have key : ∀ k z, (l.set i (wrapOItem w))[k]? = some z → cmpStr tr (useful z.orig) sWRAP = true → k = i := by
      intro k z hz gz
      by_cases hk : i = k
      · exact hk.symm
      · rw [List.getElem?_set] at hz
        simp only [hk, ↓reduceIte] at hz
        exact (h.unique i k xi z hxi hz hgi gz).symm
    intro a b x y hx hy gx gy
    rw [key a x hx gx, key b y hy gy]

theorem findFirst_append_new {α} {p : α → Bool} {l : List α} {a : α} (h : findFirst p l = none) (ha : p a = true) :
    findFirst p (l ++ [a]) = some l.length := by
  induction l with
  | nil => simp [findFirst, ha]
  | cons b l ih =>
    unfold findFirst at h
    by_cases hb : p b = true
    · simp [hb] at h
    · simp [hb] at h
      simp [findFirst, hb, ih h]

theorem findFirst_set_same {α} {p : α → Bool} {l : List α} {i : Nat} {a : α} (h : findFirst p l = some i) (ha : p a = true) :
    findFirst p (l.set i a) = some i := by
  induction l generalizing i with
  | nil => simp [findFirst] at h
  | cons b l ih =>
    unfold findFirst at h
    by_cases hb : p b = true
    · simp [hb] at h
      subst h
      simp [findFirst, ha]
    · simp [hb] at h
      obtain ⟨k, hk, rfl⟩ := h
      simp [findFirst, hb, ih hk]

theorem wrapOK_after {tr : Bool} {l : List OItem} (w : Bool) (h : WrapOK tr l) :
    WrapOK tr (oSetItem tr sWRAP (wrapOItem w) l) := by
  obtain ⟨ho, hs, hu⟩ := wrapOItem_fields w
  rw [oSetItem_wrap w h]
  cases hf : findFirst (fun x => cmpStr tr sWRAP x.session) l with
  | none =>
    simp only []
    have hnone := findFirst_none hf
    constructor
    · intro i j x y hx hy gx gy
      have key : ∀ k z, (l ++ [wrapOItem w])[k]? = some z → cmpStr tr (useful z.orig) sWRAP = true → k = l.length := by
        intro k z hz gz
        by_cases hk : k < l.length
        · rw [List.getElem?_append_left hk] at hz
          have hm := List.mem_of_getElem? hz
          have := hnone z hm
          simp only [h.consistent z hm] at this
          rw [this] at gz
          exact absurd gz (by simp)
        · have hlen := (List.getElem?_eq_some_iff.mp hz).1
          simp at hlen
          omega
      rw [key i x hx gx, key j y hy gy]
    · intro x hx
      rcases List.mem_append.mp hx with hx | hx
      · exact h.consistent x hx
      · simp at hx
        subst hx
        rw [hs, hu]
  | some i =>
    simp only []
    obtain ⟨xi, hxi, hpi, _⟩ := findFirst_some hf
    have hgi : cmpStr tr (useful xi.orig) sWRAP = true := by
      rw [← h.consistent xi (List.mem_of_getElem? hxi)]; exact hpi
    constructor
    · have key : ∀ k z, (l.set i (wrapOItem w))[k]? = some z → cmpStr tr (useful z.orig) sWRAP = true → k = i := by
        intro k z hz gz
        by_cases hk : i = k
        · exact hk.symm
        · rw [List.getElem?_set] at hz
          simp only [hk, ↓reduceIte] at hz
          exact (h.unique i k xi z hxi hz hgi gz).symm
      intro a b x y hx hy gx gy
      rw [key a x hx gx, key b y hy gy]
    · intro x hx
      rcases List.mem_or_eq_of_mem_set hx with hx | hx
      · exact h.consistent x hx
      · subst hx
        rw [hs, hu]

/-- placing the WRAP item a second time changes nothing -/
theorem oSetItem_wrap_idem {tr : Bool} {l : List OItem} (w : Bool) (h : WrapOK tr l) :
    oSetItem tr sWRAP (wrapOItem w) (oSetItem tr sWRAP (wrapOItem w) l) = oSetItem tr sWRAP (wrapOItem w) l := by
  obtain ⟨ho, hs, hu⟩ := wrapOItem_fields w
  rw [oSetItem_wrap w (wrapOK_after w h), oSetItem_wrap w h]
  have hp : cmpStr tr sWRAP (wrapOItem w).session = true := by rw [hs]; exact cmpStr_refl tr _
  cases hf : findFirst (fun x => cmpStr tr sWRAP x.session) l with
  | none =>
    simp only []
    rw [findFirst_append_new hf hp]
    simp
  | some i =>
    simp only []
    rw [findFirst_set_same hf hp]
    simp

/-! ## the header text depends on the object only through the object afterwards -/

/-- what `Wr.headerSections` leaves behind -/
def afterW (w : Option Bool) (las : Wr.WLas) : Wr.WLas :=
  { las with version := (match w with
                         | none => las.version
                         | some x => Wr.wSetItem las.versionTr sWRAP (Wr.wrapItem x) las.version),
             well := Wr.standardizeItems las.well, params := Wr.standardizeItems las.params }

theorem headerSections_congr (v : String) (w : Option Bool) (a b : Wr.WLas) (h : afterW w a = afterW w b) :
    Wr.headerSections v w a = Wr.headerSections v w b := by
  obtain ⟨av, atr, aw, ac, ap, ao⟩ := a
  obtain ⟨bv, btr, bw, bc, bp, bo⟩ := b
  simp only [afterW, Wr.WLas.mk.injEq] at h
  obtain ⟨h1, h2, h3, h4, h5, h6⟩ := h
  subst h2 h4 h6
  unfold Wr.headerSections
  cases w with
  | none =>
    simp only at h1
    subst h1
    simp only [h3, h5]
  | some x =>
    simp only at h1
    simp only [h1, h3, h5]

theorem toWLas_afterHeader (cfg : WriteCfg) (o : WObj) : toWLas (afterHeader cfg o) = afterW cfg.wrap (toWLas o) := by
  unfold toWLas afterHeader afterW
  cases cfg.wrap with
  | none => simp only [stdItems_toW]
  | some x => simp only [stdItems_toW, oSetItem_toW, wrapOItem_toW]

theorem headerLines_congr (v : String) (w : Option Bool) (hw : Nat) (a b : Wr.WLas) (h : afterW w a = afterW w b) :
    Wr.headerLines v w hw a = Wr.headerLines v w hw b := by
  unfold Wr.headerLines
  rw [headerSections_congr v w a b h]

/-! ## the ~Well pipeline, position by position -/

/-- the three assignments of `update_start_stop_step` (when the refresh is decided) -/
def wellVals (d : Bool) (s e p : PVal) (a b c : Nat) (l : List OItem) : List OItem :=
  if d then ((l.modify a (setValue s)).modify b (setValue e)).modify c (setValue p) else l

/-- the three assignments of `update_units_from_index_curve` -/
def wellUnits (u : Str) (a b c : Nat) (l : List OItem) : List OItem :=
  ((l.modify a (setUnit u)).modify b (setUnit u)).modify c (setUnit u)

/-- what one `write` does to the item at position `j` of ~Well -/
def wellItem (d : Bool) (s e p : PVal) (u : Str) (a b c j : Nat) (x : OItem) : OItem :=
  let x1 := if d && a == j then setValue s x else x
  let x2 := if d && b == j then setValue e x1 else x1
  let x3 := if d && c == j then setValue p x2 else x2
  let y1 := if a == j then setUnit u x3 else x3
  let y2 := if b == j then setUnit u y1 else y1
  let y3 := if c == j then setUnit u y2 else y2
  stdItem y3

theorem wellT_getElem? (d : Bool) (s e p : PVal) (u : Str) (a b c : Nat) (l : List OItem) (j : Nat) :
    ((wellUnits u a b c (wellVals d s e p a b c l)).map stdItem)[j]? = (l[j]?).map (wellItem d s e p u a b c j) := by
  unfold wellUnits wellVals wellItem
  cases d
  · simp only [Bool.false_eq_true, ↓reduceIte, List.getElem?_map, List.getElem?_modify, Bool.false_and]
    cases l[j]? with
    | none => rfl
    | some x => by_cases h1 : a = j <;> by_cases h2 : b = j <;> by_cases h3 : c = j <;> simp [h1, h2, h3]
  · simp only [↓reduceIte, List.getElem?_map, List.getElem?_modify, Bool.true_and]
    cases l[j]? with
    | none => rfl
    | some x => by_cases h1 : a = j <;> by_cases h2 : b = j <;> by_cases h3 : c = j <;> simp [h1, h2, h3]

theorem wellItem_idem (d : Bool) (s e p : PVal) (u : Str) (a b c j : Nat) (x : OItem) :
    wellItem d s e p u a b c j (wellItem d s e p u a b c j x) = wellItem d s e p u a b c j x := by
  unfold wellItem
  cases d <;> by_cases h1 : a = j <;> by_cases h2 : b = j <;> by_cases h3 : c = j <;>
    simp [h1, h2, h3, stdItem, setUnit, setValue, stdP_idem]

theorem wellItem_session (d : Bool) (s e p : PVal) (u : Str) (a b c j : Nat) (x : OItem) :
    (wellItem d s e p u a b c j x).session = x.session ∧ (wellItem d s e p u a b c j x).orig = x.orig ∧
      (wellItem d s e p u a b c j x).descr = x.descr := by
  unfold wellItem
  cases d <;> by_cases h1 : a = j <;> by_cases h2 : b = j <;> by_cases h3 : c = j <;>
    simp [h1, h2, h3, stdItem, setUnit, setValue]

/-- the whole ~Well transformation of one `write` -/
def wellT (d : Bool) (s e p : PVal) (u : Str) (a b c : Nat) (l : List OItem) : List OItem :=
  (wellUnits u a b c (wellVals d s e p a b c l)).map stdItem

theorem wellT_idem (d : Bool) (s e p : PVal) (u : Str) (a b c : Nat) (l : List OItem) :
    wellT d s e p u a b c (wellT d s e p u a b c l) = wellT d s e p u a b c l := by
  apply List.ext_getElem?
  intro j
  unfold wellT
  rw [wellT_getElem?, wellT_getElem?]
  cases l[j]? with
  | none => rfl
  | some x => simp [wellItem_idem]

theorem wellVals_sessions (d : Bool) (s e p : PVal) (a b c : Nat) (l : List OItem) :
    (wellVals d s e p a b c l).map (·.session) = l.map (·.session) := by
  unfold wellVals
  cases d
  · rfl
  · simp only [↓reduceIte]
    rw [sessions_modify _ c (setValue p) (fun _ => rfl), sessions_modify _ b (setValue e) (fun _ => rfl),
      sessions_modify _ a (setValue s) (fun _ => rfl)]

theorem wellUnits_sessions (u : Str) (a b c : Nat) (l : List OItem) :
    (wellUnits u a b c l).map (·.session) = l.map (·.session) := by
  unfold wellUnits
  rw [sessions_modify _ c (setUnit u) (fun _ => rfl), sessions_modify _ b (setUnit u) (fun _ => rfl),
    sessions_modify _ a (setUnit u) (fun _ => rfl)]

theorem wellT_sessions (d : Bool) (s e p : PVal) (u : Str) (a b c : Nat) (l : List OItem) :
    (wellT d s e p u a b c l).map (·.session) = l.map (·.session) := by
  unfold wellT
  rw [sessions_map _ stdItem (fun _ => rfl), wellUnits_sessions, wellVals_sessions]

theorem lookup_unit_wellVals (tr : Bool) (k : Str) (d : Bool) (s e p : PVal) (a b c : Nat) (l : List OItem) :
    (lookup tr k (wellVals d s e p a b c l)).map (·.unit) = (lookup tr k l).map (·.unit) := by
  rw [lookup_eq, lookup_eq, keyIdx_of_sessions (wellVals_sessions d s e p a b c l)]
  cases keyIdx tr k l with
  | none => rfl
  | some i =>
    simp only [Option.bind_some, wellVals]
    cases d
    · rfl
    · simp only [↓reduceIte, List.getElem?_modify]
      cases l[i]? with
      | none => rfl
      | some x => by_cases h1 : a = i <;> by_cases h2 : b = i <;> by_cases h3 : c = i <;> simp [h1, h2, h3, setValue]

theorem chosenUnit_wellVals (o : WObj) (d : Bool) (s e p : PVal) (a b c : Nat) :
    chosenUnit { o with well := wellVals d s e p a b c o.well } = chosenUnit o := by
  unfold chosenUnit
  simp only [lookup_unit_wellVals]

/-- **what `prepare` does**, in closed form -/
theorem prepare_shape {sd : Option F64} {o o2 : WObj} (h : prepare sd o = .ok o2) :
    ∃ d a b c s e p u, refreshDecision o = .ok d ∧
      keyIdx o.wellTr sSTRT o.well = some a ∧ keyIdx o.wellTr sSTOP o.well = some b ∧ keyIdx o.wellTr sSTEP o.well = some c ∧
      (d = true → sssValues sd o.index = some (s, e, p)) ∧ chosenUnit o = some u ∧
      o2 = { o with well := wellUnits u a b c (wellVals d s e p a b c o.well), curves := setFirstUnit u o.curves } := by
  unfold prepare at h
  cases hd : refreshDecision o with
  | error err => simp [hd, bind, Except.bind] at h
  | ok d =>
    simp only [hd, bind, Except.bind] at h
    cases d with
    | false =>
      simp only [Bool.false_eq_true, ↓reduceIte, pure, Except.pure] at h
      unfold updateUnits at h
      split at h
      · rename_i a b c u ha hb hc hu
        simp only [Except.ok.injEq] at h
        exact ⟨false, a, b, c, .none, .none, .none, u, rfl, ha, hb, hc, by simp, hu, by rw [← h]; simp [wellVals, wellUnits]⟩
      · simp at h
    | true =>
      simp only [↓reduceIte] at h
      cases h1 : updateStartStopStep sd o with
      | error err => simp [h1] at h
      | ok o1 =>
        simp only [h1] at h
        unfold updateStartStopStep at h1
        split at h1
        · rename_i a b c ha hb hc
          cases hv : sssValues sd o.index with
          | none => simp [hv] at h1
          | some v =>
            obtain ⟨s, e, p⟩ := v
            simp only [hv, Except.ok.injEq] at h1
            have hw : ((o.well.modify a (setValue s)).modify b (setValue e)).modify c (setValue p) =
                wellVals true s e p a b c o.well := by simp [wellVals]
            rw [hw] at h1
            subst h1
            unfold updateUnits at h
            simp only [keyIdx_of_sessions (wellVals_sessions true s e p a b c o.well), ha, hb, hc,
              chosenUnit_wellVals] at h
            cases hu : chosenUnit o with
            | none => simp [hu] at h
            | some u =>
              simp only [hu, Except.ok.injEq] at h
              exact ⟨true, a, b, c, s, e, p, u, rfl, ha, hb, hc, fun _ => rfl, rfl, h.symm⟩
        · simp at h1

theorem prepare_of_shape {sd : Option F64} {o : WObj} {d : Bool} {a b c : Nat} {s e p : PVal} {u : Str}
    (hd : refreshDecision o = .ok d)
    (ha : keyIdx o.wellTr sSTRT o.well = some a) (hb : keyIdx o.wellTr sSTOP o.well = some b)
    (hc : keyIdx o.wellTr sSTEP o.well = some c)
    (hv : d = true → sssValues sd o.index = some (s, e, p)) (hu : chosenUnit o = some u) :
    prepare sd o =
      .ok { o with well := wellUnits u a b c (wellVals d s e p a b c o.well), curves := setFirstUnit u o.curves } := by
  unfold prepare
  simp only [hd, bind, Except.bind]
  cases d with
  | false =>
    simp only [Bool.false_eq_true, ↓reduceIte, pure, Except.pure]
    unfold updateUnits
    simp [ha, hb, hc, hu, wellVals, wellUnits]
  | true =>
    simp only [↓reduceIte]
    unfold updateStartStopStep
    simp only [ha, hb, hc, hv rfl]
    have hw : ((o.well.modify a (setValue s)).modify b (setValue e)).modify c (setValue p) =
        wellVals true s e p a b c o.well := by simp [wellVals]
    rw [hw]
    unfold updateUnits
    simp only [keyIdx_of_sessions (wellVals_sessions true s e p a b c o.well), ha, hb, hc, chosenUnit_wellVals, hu]
    rfl

/-- the steps of a successful `writeObj` -/
theorem writeObj_steps {cfg : WriteCfg} {sd : Option F64} {o : WObj} {t : List Str} {o3 : WObj}
    (h : writeObj cfg sd o = .ok (t, o3)) :
      (o.data.length != o.curves.length || !sameLengths o.data) = false ∧
      ∃ vsec v o2 hl null dl, setWrap cfg o = .ok vsec ∧ resolveVersion cfg o.versionTr vsec = .ok v ∧
        prepare sd o = .ok o2 ∧ Wr.headerLines v cfg.wrap cfg.headerWidth (toWLas o2) = .ok hl ∧
        o3 = afterHeader cfg o2 ∧ nullText o3 = .ok null ∧
        Dw.dataLines (dataCfg cfg) null (o3.curves.map (·.session)) (rowsOf o3.data) = some dl ∧ t = hl.1 ++ dl := by
  unfold writeObj at h
  cases hs : (o.data.length != o.curves.length || !sameLengths o.data)
  case true => simp [hs, bind, Except.bind, throw, throwThe, MonadExceptOf.throw] at h
  case false =>
  simp only [hs, Bool.false_eq_true, ↓reduceIte, bind, Except.bind, pure, Except.pure] at h
  refine ⟨rfl, ?_⟩
  cases h1 : setWrap cfg o with
  | error e => simp [h1] at h
  | ok vsec =>
    simp only [h1] at h
    cases h2 : resolveVersion cfg o.versionTr vsec with
    | error e => simp [h2] at h
    | ok v =>
      simp only [h2] at h
      cases h3 : prepare sd o with
      | error e => simp [h3] at h
      | ok o2 =>
        simp only [h3] at h
        cases h4 : Wr.headerLines v cfg.wrap cfg.headerWidth (toWLas o2) with
        | error e => simp [h4, liftErr] at h
        | ok hl =>
          simp only [h4, liftErr] at h
          cases h5 : nullText (afterHeader cfg o2) with
          | error e => simp [h5] at h
          | ok null =>
            simp only [h5] at h
            cases h6 : Dw.dataLines (dataCfg cfg) null ((afterHeader cfg o2).curves.map (·.session))
                (rowsOf (afterHeader cfg o2).data) with
            | none => simp [h6, throw, throwThe, MonadExceptOf.throw] at h
            | some dl =>
              simp only [h6, Except.ok.injEq, Prod.mk.injEq] at h
              obtain ⟨rfl, rfl⟩ := h
              refine ⟨vsec, v, o2, hl, null, dl, ?_, ?_, ?_, ?_, rfl, h5, h6, rfl⟩ <;> first | rfl | assumption

theorem writeObj_of_steps {cfg : WriteCfg} {sd : Option F64} {o : WObj} {vsec : List OItem} {v : String} {o2 : WObj}
    {hl : List Str × Wr.WLas} {null : Str} {dl : List Str}
    (hs : (o.data.length != o.curves.length || !sameLengths o.data) = false)
    (h1 : setWrap cfg o = .ok vsec) (h2 : resolveVersion cfg o.versionTr vsec = .ok v) (h3 : prepare sd o = .ok o2)
    (h4 : Wr.headerLines v cfg.wrap cfg.headerWidth (toWLas o2) = .ok hl)
    (h5 : nullText (afterHeader cfg o2) = .ok null)
    (h6 : Dw.dataLines (dataCfg cfg) null ((afterHeader cfg o2).curves.map (·.session)) (rowsOf (afterHeader cfg o2).data)
      = some dl) :
    writeObj cfg sd o = .ok (hl.1 ++ dl, afterHeader cfg o2) := by
  unfold writeObj
  simp only [hs, Bool.false_eq_true, ↓reduceIte, bind, Except.bind, pure, Except.pure, h1, h2, h3, h4, liftErr, h5, h6]

/-! ## the STRT / STOP / STEP keyword arguments -/



theorem sssValuesK_default (sd : Option F64) (idx : Option (List F64)) : sssValuesK {} sd idx = sssValues sd idx := by
  rcases idx with _ | ⟨_ | ⟨x, xs⟩⟩ <;> simp [sssValuesK, sssValues, ov]

theorem updateStartStopStepK_default (sd : Option F64) (o : WObj) : updateStartStopStepK {} sd o = updateStartStopStep sd o := by
  simp only [updateStartStopStepK, updateStartStopStep, sssValuesK_default]

theorem prepareK_default (sd : Option F64) (o : WObj) : prepareK {} sd o = prepare sd o := by
  simp only [prepareK, prepare, updateStartStopStepK_default]

theorem prepareK_no_refresh (k : SssArgs) (sd : Option F64) (o : WObj) (h : refreshDecision o = .ok false) :
    prepareK k sd o = prepare sd o := by
  simp [prepareK, prepare, h, bind, Except.bind]

/-- `ov`: a given value wins, `None` falls back -/
theorem ov_given (g c : PVal) (h : g ≠ .none) : ov g c = g := by cases g <;> simp_all [ov]

theorem ov_none (c : PVal) : ov .none c = c := rfl

end Lasio.Wo
