import LasioModel.Section
/-
Helper lemmas for C13 (duplicate-mnemonic disambiguation in `SectionItems`):
decimal rendering (`natToStr`) facts, the comparison key `ckey`, the suffix invariant `Inv`
and its preservation by `renumber` / `assignSuffixes` / list surgery.
-/
namespace Lasio

/-! ### `natToStr` : digits only, injective -/

theorem natToStrAux_acc (fuel n : Nat) (acc : Str) :
    natToStrAux fuel n acc = natToStrAux fuel n [] ++ acc := by
  induction fuel generalizing n acc with
  | zero => simp [natToStrAux]
  | succ f ih =>
    unfold natToStrAux
    split
    · simp
    · rw [ih (n / 10) (digitChar n :: acc), ih (n / 10) [digitChar n]]; simp

theorem natToStrAux_fuel (f f' n : Nat) (h : n < f) (h' : n < f') :
    natToStrAux f n [] = natToStrAux f' n [] := by
  induction f generalizing f' n with
  | zero => omega
  | succ f ih =>
    cases f' with
    | zero => omega
    | succ f' =>
      unfold natToStrAux
      split
      · rfl
      · rw [natToStrAux_acc f, natToStrAux_acc f', ih f' (n / 10) (by omega) (by omega)]

theorem natToStr_lt (n : Nat) (h : n < 10) : natToStr n = [digitChar n] := by
  simp [natToStr, natToStrAux, h]

theorem natToStr_ge (n : Nat) (h : 10 ≤ n) : natToStr n = natToStr (n / 10) ++ [digitChar n] := by
  have hn : ¬ n < 10 := by omega
  unfold natToStr
  rw [natToStrAux]
  simp only [hn, if_false]
  rw [natToStrAux_acc, natToStrAux_fuel n (n / 10 + 1) (n / 10) (by omega) (by omega)]

theorem digit_props : ∀ d, d < 10 →
    Char.ofNat (48 + d) ≠ ':' ∧ upperC (Char.ofNat (48 + d)) = Char.ofNat (48 + d) := by decide

theorem digit_inj : ∀ d, d < 10 → ∀ e, e < 10 → Char.ofNat (48 + d) = Char.ofNat (48 + e) → d = e := by
  decide

theorem digitChar_props (n : Nat) : digitChar n ≠ ':' ∧ upperC (digitChar n) = digitChar n :=
  digit_props (n % 10) (Nat.mod_lt _ (by decide))

theorem digitChar_inj (n m : Nat) (h : digitChar n = digitChar m) : n % 10 = m % 10 :=
  digit_inj (n % 10) (Nat.mod_lt _ (by decide)) (m % 10) (Nat.mod_lt _ (by decide)) h

theorem natToStr_chars (n : Nat) : ∀ c ∈ natToStr n, c ≠ ':' ∧ upperC c = c := by
  induction n using Nat.strongRecOn with
  | _ n ih =>
    intro c hc
    by_cases h : n < 10
    · rw [natToStr_lt n h] at hc
      simp at hc; subst hc; exact digitChar_props n
    · rw [natToStr_ge n (by omega)] at hc
      simp at hc
      rcases hc with hc | hc
      · exact ih (n / 10) (by omega) c hc
      · subst hc; exact digitChar_props n

theorem natToStr_ne_nil (n : Nat) : natToStr n ≠ [] := by
  by_cases h : n < 10
  · rw [natToStr_lt n h]; simp
  · rw [natToStr_ge n (by omega)]; simp

theorem natToStr_inj : ∀ n m, natToStr n = natToStr m → n = m := by
  intro n
  induction n using Nat.strongRecOn with
  | _ n ih =>
    intro m h
    by_cases hn : n < 10 <;> by_cases hm : m < 10
    · rw [natToStr_lt n hn, natToStr_lt m hm] at h
      have := digitChar_inj n m (by simpa using h)
      omega
    · rw [natToStr_lt n hn, natToStr_ge m (by omega)] at h
      have hl := congrArg List.length h
      simp at hl
      exact absurd hl (natToStr_ne_nil _)
    · rw [natToStr_ge n (by omega), natToStr_lt m hm] at h
      have hl := congrArg List.length h
      simp at hl
      exact absurd hl (natToStr_ne_nil _)
    · rw [natToStr_ge n (by omega), natToStr_ge m (by omega)] at h
      obtain ⟨h1, h2⟩ := List.append_inj' h rfl
      have e1 := ih (n / 10) (by omega) (m / 10) h1
      have e2 := digitChar_inj n m (by simpa using h2)
      omega

theorem colon_not_mem_natToStr (n : Nat) : ':' ∉ natToStr n :=
  fun h => (natToStr_chars n ':' h).1 rfl

theorem map_fix {α} {f : α → α} (l : List α) (h : ∀ c ∈ l, f c = c) : l.map f = l := by
  induction l with
  | nil => rfl
  | cons a as ih =>
    simp [h a (by simp), ih (fun c hc => h c (by simp [hc]))]

theorem upper_natToStr (n : Nat) : upper (natToStr n) = natToStr n :=
  map_fix _ (fun c hc => (natToStr_chars n c hc).2)

/-! ### comparison key -/

/-- comparison key: `cmpStr tr a b = (ckey tr a == ckey tr b)` -/
def ckey (tr : Bool) (s : Str) : Str := if tr then upper s else s

theorem cmpStr_eq_ckey (tr : Bool) (a b : Str) : cmpStr tr a b = (ckey tr a == ckey tr b) := by
  cases tr <;> simp [cmpStr, ckey]

theorem cmpStr_true_iff (tr : Bool) (a b : Str) : cmpStr tr a b = true ↔ ckey tr a = ckey tr b := by
  rw [cmpStr_eq_ckey]; simp

theorem cmpStr_false_iff (tr : Bool) (a b : Str) : cmpStr tr a b = false ↔ ckey tr a ≠ ckey tr b := by
  rw [cmpStr_eq_ckey]; simp

theorem cmpStr_refl (tr : Bool) (a : Str) : cmpStr tr a a = true :=
  (cmpStr_true_iff tr a a).mpr rfl

theorem upperC_colon : upperC ':' = ':' := by decide

theorem ckey_suffix (tr : Bool) (u : Str) (k : Nat) :
    ckey tr (u ++ ':' :: natToStr k) = ckey tr u ++ ':' :: natToStr k := by
  cases tr
  · rfl
  · have := upper_natToStr k
    unfold upper at this
    simp [ckey, upper, upperC_colon, this]

/-- splitting at the last colon: digit strings contain no colon -/
theorem colon_split (x y d1 d2 : Str) (h1 : ':' ∉ d1) (h2 : ':' ∉ d2)
    (h : x ++ ':' :: d1 = y ++ ':' :: d2) : x = y ∧ d1 = d2 := by
  rcases List.append_eq_append_iff.mp h with ⟨a', hy, hd⟩ | ⟨c', hx, hd⟩
  · cases a' with
    | nil => simp at hy hd; exact ⟨hy.symm, hd⟩
    | cons c a'' =>
      simp at hd
      exact absurd (by rw [hd.2]; simp) h1
  · cases c' with
    | nil => simp at hx hd; exact ⟨hx, hd.symm⟩
    | cons c c'' =>
      simp at hd
      exact absurd (by rw [hd.2]; simp) h2

theorem suffix_inj (x y : Str) (k m : Nat)
    (h : x ++ ':' :: natToStr k = y ++ ':' :: natToStr m) : x = y ∧ k = m := by
  obtain ⟨h1, h2⟩ := colon_split x y _ _ (colon_not_mem_natToStr k) (colon_not_mem_natToStr m) h
  exact ⟨h1, natToStr_inj k m h2⟩

/-! ### the invariant -/

/-- the session name is the useful name, bare or with a `:k` suffix (k ≥ 1) -/
def SuffixForm (it : Item) : Prop :=
  it.session = useful it.orig ∨ ∃ k, 1 ≤ k ∧ it.session = useful it.orig ++ ':' :: natToStr k

/-- two items of the same group are both suffixed, with strictly increasing numbers -/
def Rel (tr : Bool) (a b : Item) : Prop :=
  ckey tr (useful a.orig) = ckey tr (useful b.orig) →
    ∃ ka kb, 1 ≤ ka ∧ ka < kb ∧ a.session = useful a.orig ++ ':' :: natToStr ka ∧
      b.session = useful b.orig ++ ':' :: natToStr kb

/-- the invariant: (a) every item has SuffixForm; (b) two items of the same group (same ckey of useful orig),
at positions i < j, are BOTH suffixed, with strictly increasing numbers -/
def Inv (s : Section) : Prop :=
  (∀ it ∈ s.items, SuffixForm it) ∧
  s.items.Pairwise (fun a b => ckey s.tr (useful a.orig) = ckey s.tr (useful b.orig) →
     ∃ ka kb, 1 ≤ ka ∧ ka < kb ∧ a.session = useful a.orig ++ ':' :: natToStr ka ∧
       b.session = useful b.orig ++ ':' :: natToStr kb)

theorem inv_iff (s : Section) :
    Inv s ↔ (∀ it ∈ s.items, SuffixForm it) ∧ s.items.Pairwise (Rel s.tr) := Iff.rfl

/-- the invariant except that nothing is claimed about pairs whose first component is in the group of `t` -/
def InvExcept (tr : Bool) (t : Str) (l : List Item) : Prop :=
  (∀ it ∈ l, SuffixForm it) ∧
  l.Pairwise (fun a b => ckey tr (useful a.orig) ≠ ckey tr t → Rel tr a b)

theorem invExcept_of_inv (s : Section) (t : Str) (h : Inv s) : InvExcept s.tr t s.items :=
  ⟨h.1, List.Pairwise.imp (S := fun a b => ckey s.tr (useful a.orig) ≠ ckey s.tr t → Rel s.tr a b) (fun hr _ => hr) h.2⟩

theorem InvExcept.sublist {tr t} {l l' : List Item} (hs : List.Sublist l' l) (h : InvExcept tr t l) :
    InvExcept tr t l' :=
  ⟨fun it hit => h.1 it (hs.subset hit), h.2.sublist hs⟩

theorem pairwise_insert_mid {α} {P : α → α → Prop} (l1 l2 : List α) (a : α)
    (h : (l1 ++ l2).Pairwise P) (hl : ∀ x, P x a) (hr : ∀ y, P a y) :
    (l1 ++ a :: l2).Pairwise P := by
  rw [List.pairwise_append] at h ⊢
  refine ⟨h.1, List.pairwise_cons.mpr ⟨fun y _ => hr y, h.2.1⟩, ?_⟩
  intro x hx y hy
  rcases List.mem_cons.mp hy with rfl | hy
  · exact hl x
  · exact h.2.2 x hx y hy

theorem invExcept_insert (tr : Bool) (t : Str) (l1 l2 : List Item) (it : Item)
    (h : InvExcept tr t (l1 ++ l2)) (hs : SuffixForm it)
    (hg : ckey tr (useful it.orig) = ckey tr t) : InvExcept tr t (l1 ++ it :: l2) := by
  refine ⟨?_, pairwise_insert_mid l1 l2 it h.2 ?_ ?_⟩
  · intro x hx
    simp only [List.mem_append, List.mem_cons] at hx
    rcases hx with hx | rfl | hx
    · exact h.1 x (by simp [hx])
    · exact hs
    · exact h.1 x (by simp [hx])
  · intro x hx hsame
    exact absurd (hsame.trans hg) hx
  · intro y hy
    exact absurd hg hy

/-! ### `renumber` -/

theorem mem_renumber (tr : Bool) (t : Str) (l : List Item) (k : Nat) (x : Item)
    (hx : x ∈ renumber tr t l k) :
    (x ∈ l ∧ cmpStr tr (useful x.orig) t = false) ∨
    (∃ y ∈ l, ∃ m, k + 1 ≤ m ∧ cmpStr tr (useful y.orig) t = true ∧
      x = { y with session := useful y.orig ++ ':' :: natToStr m }) := by
  induction l generalizing k with
  | nil => simp [renumber] at hx
  | cons a rest ih =>
    unfold renumber at hx
    by_cases hg : cmpStr tr (useful a.orig) t = true
    · simp only [hg, if_true, List.mem_cons] at hx
      rcases hx with rfl | hx
      · exact Or.inr ⟨a, by simp, k + 1, Nat.le_refl _, hg, rfl⟩
      · rcases ih (k + 1) hx with ⟨h1, h2⟩ | ⟨y, hy, m, hm, hyg, hxe⟩
        · exact Or.inl ⟨by simp [h1], h2⟩
        · exact Or.inr ⟨y, by simp [hy], m, by omega, hyg, hxe⟩
    · simp only [hg, Bool.false_eq_true, if_false, List.mem_cons] at hx
      rcases hx with rfl | hx
      · exact Or.inl ⟨by simp, by simpa using hg⟩
      · rcases ih k hx with ⟨h1, h2⟩ | ⟨y, hy, m, hm, hyg, hxe⟩
        · exact Or.inl ⟨by simp [h1], h2⟩
        · exact Or.inr ⟨y, by simp [hy], m, hm, hyg, hxe⟩

theorem renumber_pairwise (tr : Bool) (t : Str) (l : List Item) (k : Nat)
    (h : l.Pairwise (fun a b => ckey tr (useful a.orig) ≠ ckey tr t → Rel tr a b)) :
    (renumber tr t l k).Pairwise (Rel tr) := by
  induction l generalizing k with
  | nil => simp [renumber]
  | cons a rest ih =>
    rw [List.pairwise_cons] at h
    unfold renumber
    by_cases hg : cmpStr tr (useful a.orig) t = true
    · simp only [hg, if_true]
      refine List.pairwise_cons.mpr ⟨?_, ih (k + 1) h.2⟩
      intro x hx hsame
      rcases mem_renumber _ _ _ _ _ hx with ⟨_, hxg⟩ | ⟨y, _, m, hm, _, rfl⟩
      · exfalso
        rw [cmpStr_true_iff] at hg
        rw [cmpStr_false_iff] at hxg
        exact hxg (hsame.symm.trans hg)
      · exact ⟨k + 1, m, by omega, by omega, rfl, rfl⟩
    · simp only [hg, Bool.false_eq_true, if_false]
      refine List.pairwise_cons.mpr ⟨?_, ih k h.2⟩
      intro x hx hsame
      rw [cmpStr_true_iff] at hg
      rcases mem_renumber _ _ _ _ _ hx with ⟨hxl, _⟩ | ⟨y, _, m, _, hyg, rfl⟩
      · exact h.1 x hxl hg hsame
      · exfalso
        rw [cmpStr_true_iff] at hyg
        exact hg (hsame.trans hyg)

theorem renumber_suffixForm (tr : Bool) (t : Str) (l : List Item) (k : Nat)
    (h : ∀ it ∈ l, SuffixForm it) : ∀ it ∈ renumber tr t l k, SuffixForm it := by
  intro x hx
  rcases mem_renumber _ _ _ _ _ hx with ⟨hxl, _⟩ | ⟨y, _, m, hm, _, rfl⟩
  · exact h x hxl
  · exact Or.inr ⟨m, by omega, rfl⟩

theorem countGroup_cons (tr : Bool) (t : Str) (a : Item) (l : List Item) :
    countGroup tr t (a :: l) = (if cmpStr tr (useful a.orig) t then 1 else 0) + countGroup tr t l := by
  unfold countGroup
  rw [List.filter_cons]
  split <;> simp <;> omega

theorem countGroup_pos_of_mem (tr : Bool) (t : Str) (l : List Item) (x : Item) (hx : x ∈ l)
    (hg : cmpStr tr (useful x.orig) t = true) : 1 ≤ countGroup tr t l := by
  unfold countGroup
  exact List.length_pos_of_mem (List.mem_filter.mpr ⟨hx, hg⟩)

theorem pairwise_of_count_le_one (tr : Bool) (t : Str) (l : List Item)
    (h : l.Pairwise (fun a b => ckey tr (useful a.orig) ≠ ckey tr t → Rel tr a b))
    (hc : countGroup tr t l ≤ 1) : l.Pairwise (Rel tr) := by
  induction l with
  | nil => exact List.Pairwise.nil
  | cons a rest ih =>
    rw [List.pairwise_cons] at h
    rw [countGroup_cons] at hc
    refine List.pairwise_cons.mpr ⟨?_, ih h.2 (by omega)⟩
    intro x hx hsame
    by_cases hg : ckey tr (useful a.orig) = ckey tr t
    · exfalso
      have h1 : cmpStr tr (useful a.orig) t = true := (cmpStr_true_iff _ _ _).mpr hg
      have h2 : cmpStr tr (useful x.orig) t = true := (cmpStr_true_iff _ _ _).mpr (hsame.symm.trans hg)
      have := countGroup_pos_of_mem tr t rest x hx h2
      simp [h1] at hc
      omega
    · exact h.1 x hx hg hsame

/-- re-suffixing the group of `t` restores the full invariant -/
theorem inv_assign (s : Section) (t : Str) (h : InvExcept s.tr t s.items) : Inv (s.assignSuffixes t) := by
  unfold Section.assignSuffixes
  split
  · exact ⟨renumber_suffixForm _ _ _ _ h.1, renumber_pairwise _ _ _ _ h.2⟩
  · exact ⟨h.1, pairwise_of_count_le_one _ _ _ h.2 (by omega)⟩

theorem suffixForm_mkItem (o u v d : Str) : SuffixForm (mkItem o u v d) := Or.inl rfl

/-- put a fresh (bare) item between two halves of a section satisfying the invariant, then re-suffix its group -/
theorem inv_insert_assign (tr : Bool) (l1 l2 : List Item) (it : Item)
    (h : Inv ⟨l1 ++ l2, tr⟩) (hs : SuffixForm it) :
    Inv ((⟨l1 ++ it :: l2, tr⟩ : Section).assignSuffixes (useful it.orig)) :=
  inv_assign _ _ (invExcept_insert tr _ l1 l2 it (invExcept_of_inv ⟨l1 ++ l2, tr⟩ _ h) hs rfl)

theorem inv_sublist (tr : Bool) (l l' : List Item) (hs : List.Sublist l' l) (h : Inv ⟨l, tr⟩) : Inv ⟨l', tr⟩ :=
  ⟨fun it hit => h.1 it (hs.subset hit), h.2.sublist hs⟩

theorem inv_set_assign (tr : Bool) (l : List Item) (i : Nat) (it : Item)
    (h : Inv ⟨l, tr⟩) (hs : SuffixForm it) :
    Inv ((⟨l.set i it, tr⟩ : Section).assignSuffixes (useful it.orig)) := by
  rw [List.set_eq_take_append_cons_drop]
  split
  · apply inv_insert_assign tr _ _ it _ hs
    apply inv_sublist tr l _ _ h
    rw [← List.eraseIdx_eq_take_drop_succ]
    exact List.eraseIdx_sublist l i
  · exact inv_assign _ _ (invExcept_of_inv ⟨l, tr⟩ _ h)

theorem modify_value_keys (l : List Item) (i : Nat) (v : Str) :
    (l.modify i (fun it => { it with value := v })).map (fun it => (it.orig, it.session)) =
      l.map (fun it => (it.orig, it.session)) := by
  induction l generalizing i with
  | nil => simp
  | cons a as ih =>
    cases i with
    | zero => simp
    | succ i => simp [ih i]

/-- `Inv` only depends on the (orig, session) pairs -/
theorem inv_congr (tr : Bool) (l l' : List Item)
    (he : l'.map (fun it => (it.orig, it.session)) = l.map (fun it => (it.orig, it.session)))
    (h : Inv ⟨l, tr⟩) : Inv ⟨l', tr⟩ := by
  let P : Str × Str → Prop := fun p =>
    p.2 = useful p.1 ∨ ∃ k, 1 ≤ k ∧ p.2 = useful p.1 ++ ':' :: natToStr k
  let R : Str × Str → Str × Str → Prop := fun a b =>
    ckey tr (useful a.1) = ckey tr (useful b.1) →
      ∃ ka kb, 1 ≤ ka ∧ ka < kb ∧ a.2 = useful a.1 ++ ':' :: natToStr ka ∧
        b.2 = useful b.1 ++ ':' :: natToStr kb
  have h1 : ∀ p ∈ l.map (fun it => (it.orig, it.session)), P p := by
    intro p hp
    obtain ⟨it, hit, rfl⟩ := List.mem_map.mp hp
    exact h.1 it hit
  have h2 : (l.map (fun it => (it.orig, it.session))).Pairwise R :=
    List.pairwise_map.mpr h.2
  rw [← he] at h1 h2
  exact ⟨fun it hit => h1 _ (List.mem_map.mpr ⟨it, hit, rfl⟩), List.pairwise_map.mp h2⟩

/-! ### originals are never touched -/

theorem renumber_origs (tr : Bool) (t : Str) (l : List Item) (n : Nat) :
    (renumber tr t l n).map (·.orig) = l.map (·.orig) := by
  induction l generalizing n with
  | nil => rfl
  | cons a as ih =>
    unfold renumber
    split <;> simp [ih]

theorem renumber_length (tr : Bool) (t : Str) (l : List Item) (n : Nat) :
    (renumber tr t l n).length = l.length := by
  have := congrArg List.length (renumber_origs tr t l n)
  simpa using this

theorem assign_origs (s : Section) (t : Str) : (s.assignSuffixes t).origs = s.origs := by
  unfold Section.assignSuffixes Section.origs
  split
  · exact renumber_origs _ _ _ _
  · rfl

theorem assign_tr (s : Section) (t : Str) : (s.assignSuffixes t).tr = s.tr := by
  unfold Section.assignSuffixes
  split <;> rfl

/-! ### exact numbering produced by `renumber` -/

/-- membership of an item in the group of `t` -/
def inGroup (tr : Bool) (t : Str) (it : Item) : Bool := cmpStr tr (useful it.orig) t

/-- an item with its session name replaced by `useful orig ++ ":" ++ k` -/
def withSuffix (it : Item) (k : Nat) : Item :=
  { it with session := useful it.orig ++ ':' :: natToStr k }

theorem renumber_filter_in (tr : Bool) (t : Str) (l : List Item) (k : Nat) :
    (renumber tr t l k).filter (inGroup tr t) =
      ((l.filter (inGroup tr t)).zipIdx k).map (fun p => withSuffix p.1 (p.2 + 1)) := by
  induction l generalizing k with
  | nil => simp [renumber]
  | cons a rest ih =>
    unfold renumber
    by_cases hg : cmpStr tr (useful a.orig) t = true
    · simp only [hg, if_true]
      have h1 : inGroup tr t { a with session := useful a.orig ++ ':' :: natToStr (k + 1) } = true := hg
      have h2 : inGroup tr t a = true := hg
      rw [List.filter_cons, if_pos h1, List.filter_cons, if_pos h2, List.zipIdx_cons, List.map_cons,
        ih (k + 1)]
      rfl
    · have hg' : cmpStr tr (useful a.orig) t = false := by simpa using hg
      simp only [hg', Bool.false_eq_true, if_false]
      have h2 : ¬ inGroup tr t a = true := by simpa [inGroup] using hg'
      rw [List.filter_cons, if_neg h2, List.filter_cons, if_neg h2, ih k]

theorem renumber_filter_out (tr : Bool) (t : Str) (l : List Item) (k : Nat) :
    (renumber tr t l k).filter (fun it => !inGroup tr t it) = l.filter (fun it => !inGroup tr t it) := by
  induction l generalizing k with
  | nil => simp [renumber]
  | cons a rest ih =>
    unfold renumber
    by_cases hg : cmpStr tr (useful a.orig) t = true
    · simp only [hg, if_true]
      have h1 : ¬ (!inGroup tr t { a with session := useful a.orig ++ ':' :: natToStr (k + 1) }) = true := by
        simpa [inGroup] using hg
      have h2 : ¬ (!inGroup tr t a) = true := by simpa [inGroup] using hg
      rw [List.filter_cons, if_neg h1, List.filter_cons, if_neg h2, ih (k + 1)]
    · have hg' : cmpStr tr (useful a.orig) t = false := by simpa using hg
      simp only [hg', Bool.false_eq_true, if_false]
      have h2 : (!inGroup tr t a) = true := by simpa [inGroup] using hg'
      rw [List.filter_cons, if_pos h2, List.filter_cons, if_pos h2, ih k]

theorem renumber_getElem? (tr : Bool) (t : Str) (l : List Item) (k i : Nat) :
    (renumber tr t l k)[i]? = (l[i]?).map (fun it =>
      if inGroup tr t it then withSuffix it (k + countGroup tr t (l.take i) + 1) else it) := by
  induction l generalizing k i with
  | nil => simp [renumber]
  | cons a rest ih =>
    unfold renumber
    by_cases hg : cmpStr tr (useful a.orig) t = true
    · cases i with
      | zero => simp [hg, inGroup, withSuffix, countGroup]
      | succ i =>
        have e : k + 1 + countGroup tr t (List.take i rest) + 1 =
            k + (1 + countGroup tr t (List.take i rest)) + 1 := by omega
        simp [hg, ih (k + 1) i, countGroup_cons, e]
    · have hg' : cmpStr tr (useful a.orig) t = false := by simpa using hg
      cases i with
      | zero => simp [hg', inGroup]
      | succ i => simp [hg', ih k i, countGroup_cons]

end Lasio
