import LasioModel.HeaderLine
/-
Helper lemmas for C04 (header-line round trip): `firstSome` search, `takeWhile/dropWhile` splits,
`shrinks` backtracking, `colonSplits`, `findDotDot`, `strip` under padding, and the pattern
configuration on lines that have a period before the first colon.
-/
namespace Lasio

/-! ### `firstSome` -/

theorem firstSome_head {α β} (a : α) (as : List α) (f : α → Option β) (b : β)
    (h : f a = some b) : firstSome (a :: as) f = some b := by
  simp [firstSome, h]

theorem firstSome_cons_none {α β} (a : α) (as : List α) (f : α → Option β)
    (h : f a = none) : firstSome (a :: as) f = firstSome as f := by
  simp [firstSome, h]

theorem firstSome_nil {α β} (f : α → Option β) : firstSome [] f = none := rfl

theorem firstSome_singleton {α β} (a : α) (f : α → Option β) : firstSome [a] f = f a := by
  cases h : f a <;> simp [firstSome, h]

theorem firstSome_map {α β γ} (l : List α) (φ : α → γ) (g : γ → Option β) :
    firstSome (l.map φ) g = firstSome l (fun a => g (φ a)) := by
  induction l with
  | nil => rfl
  | cons a l ih => simp only [List.map_cons, firstSome, ih]

theorem firstSome_all_none {α β} (l : List α) (f : α → Option β)
    (h : ∀ a ∈ l, f a = none) : firstSome l f = none := by
  induction l with
  | nil => rfl
  | cons a l ih =>
    rw [firstSome_cons_none _ _ _ (h a (by simp))]
    exact ih (fun x hx => h x (by simp [hx]))

theorem firstSome_append_none {α β} (l₁ l₂ : List α) (f : α → Option β)
    (h : firstSome l₁ f = none) : firstSome (l₁ ++ l₂) f = firstSome l₂ f := by
  induction l₁ with
  | nil => rfl
  | cons a l ih =>
    cases ha : f a with
    | none =>
      rw [firstSome_cons_none _ _ _ ha] at h
      rw [List.cons_append, firstSome_cons_none _ _ _ ha]; exact ih h
    | some b => simp [firstSome, ha] at h

theorem firstSome_append_some {α β} (l₁ l₂ : List α) (f : α → Option β) (b : β)
    (h : firstSome l₁ f = some b) : firstSome (l₁ ++ l₂) f = some b := by
  induction l₁ with
  | nil => simp [firstSome] at h
  | cons a l ih =>
    cases ha : f a with
    | none =>
      rw [firstSome_cons_none _ _ _ ha] at h
      rw [List.cons_append, firstSome_cons_none _ _ _ ha]; exact ih h
    | some b' =>
      rw [firstSome_head _ _ _ _ ha] at h
      rw [List.cons_append, firstSome_head _ _ _ _ ha]; exact h

/-! ### `takeWhile` / `dropWhile` splits -/

theorem takeWhile_append_stop {p : Char → Bool} (a : Str) (c : Char) (b : Str)
    (ha : ∀ x ∈ a, p x = true) (hc : p c = false) :
    (a ++ c :: b).takeWhile p = a ∧ (a ++ c :: b).dropWhile p = c :: b := by
  induction a with
  | nil => simp [hc]
  | cons x a ih =>
    have hx : p x = true := ha x (by simp)
    have := ih (fun y hy => ha y (by simp [hy]))
    simp [hx, this]

theorem takeWhile_all {p : Char → Bool} (a : Str) (ha : ∀ x ∈ a, p x = true) :
    a.takeWhile p = a ∧ a.dropWhile p = [] := by
  induction a with
  | nil => simp
  | cons x a ih =>
    have hx : p x = true := ha x (by simp)
    have := ih (fun y hy => ha y (by simp [hy]))
    simp [hx, this]

theorem takeWhile_append_all {p : Char → Bool} (a b : Str) (ha : ∀ x ∈ a, p x = true) :
    (a ++ b).takeWhile p = a ++ b.takeWhile p ∧ (a ++ b).dropWhile p = b.dropWhile p := by
  induction a with
  | nil => simp
  | cons x a ih =>
    have hx : p x = true := ha x (by simp)
    have := ih (fun y hy => ha y (by simp [hy]))
    simp [hx, this]

theorem dropWhile_eq_nil {p : Char → Bool} (a : Str) (h : a.dropWhile p = []) :
    ∀ x ∈ a, p x = true := by
  induction a with
  | nil => simp
  | cons x a ih =>
    by_cases hx : p x = true
    · simp only [List.dropWhile_cons, hx, ↓reduceIte] at h
      intro y hy
      rcases List.mem_cons.mp hy with rfl | hy
      · exact hx
      · exact ih h y hy
    · simp [hx] at h

/-! ### `shrinks` -/

theorem shrinks_head (run rest : Str) : ∃ tl, shrinks run rest = (run, rest) :: tl := by
  unfold shrinks
  rw [List.range_succ]
  simp

theorem shrinks_nil (rest : Str) : shrinks [] rest = [([], rest)] := by
  simp [shrinks]

theorem shrinks_concat (run : Str) (c : Char) (rest : Str) :
    shrinks (run ++ [c]) rest = (run ++ [c], rest) :: shrinks run (c :: rest) := by
  unfold shrinks
  have hlen : (run ++ [c]).length + 1 = (run.length + 1) + 1 := by simp
  rw [hlen, List.range_succ (n := run.length + 1), List.reverse_append, List.reverse_singleton,
    List.singleton_append, List.map_cons]
  congr 1
  · have : run.length + 1 = (run ++ [c]).length := by simp
    rw [this, List.take_length, List.drop_length]; simp
  · apply List.map_congr_left
    intro k hk
    have hk' : k ≤ run.length := by
      have := List.mem_range.mp (List.mem_reverse.mp hk); omega
    rw [List.take_append_of_le_length hk', List.drop_append_of_le_length hk']
    simp

/-- captures longer than `u` on which the continuation fails are skipped by the backtracking search -/
theorem firstSome_shrinks_skip {β} (u x y : Str) (g : Str × Str → Option β)
    (h : ∀ x1 x2, x = x1 ++ x2 → x1 ≠ [] → g (u ++ x1, x2 ++ y) = none) :
    firstSome (shrinks (u ++ x) y) g = firstSome (shrinks u (x ++ y)) g := by
  suffices H : ∀ (xr : Str) (y : Str),
      (∀ x1 x2, xr.reverse = x1 ++ x2 → x1 ≠ [] → g (u ++ x1, x2 ++ y) = none) →
      firstSome (shrinks (u ++ xr.reverse) y) g = firstSome (shrinks u (xr.reverse ++ y)) g by
    have := H x.reverse y (by simpa using h)
    simpa using this
  intro xr
  induction xr with
  | nil => intro y _; simp
  | cons c xr ih =>
    intro y h
    rw [List.reverse_cons, ← List.append_assoc, shrinks_concat]
    have h0 : g (u ++ xr.reverse ++ [c], y) = none := by
      have := h (xr.reverse ++ [c]) [] (by simp) (by simp)
      simpa using this
    rw [firstSome_cons_none _ _ _ h0, ih (c :: y)]
    · simp
    · intro x1 x2 hx hne
      have := h x1 (x2 ++ [c]) (by simp [hx]) hne
      simpa using this

/-! ### `colonSplits` -/

theorem colonSplits_nocolon (s : Str) (h : ∀ c ∈ s, c ≠ ':') : colonSplits s = [] := by
  induction s with
  | nil => rfl
  | cons c s ih =>
    have hc : c ≠ ':' := h c (by simp)
    simp [colonSplits, hc, ih (fun y hy => h y (by simp [hy]))]

theorem colonSplits_append (a b : Str) :
    colonSplits (a ++ b) =
      (colonSplits a).map (fun vr => (vr.1, vr.2 ++ b)) ++
      (colonSplits b).map (fun vr => (a ++ vr.1, vr.2)) := by
  induction a with
  | nil => simp [colonSplits]
  | cons c a ih =>
    simp only [List.cons_append, colonSplits, ih]
    by_cases hc : c = ':' <;> simp [hc, Function.comp_def]

/-- the last colon split of `A : D` when `D` has no colon -/
theorem colonSplits_last (A D : Str) (hD : ∀ c ∈ D, c ≠ ':') :
    colonSplits (A ++ ':' :: D) =
      (colonSplits A).map (fun vr => (vr.1, vr.2 ++ ':' :: D)) ++ [(A, D)] := by
  rw [colonSplits_append]
  simp [colonSplits, colonSplits_nocolon D hD]

theorem valueGreedyColon_last (A D : Str) (hD : ∀ c ∈ D, c ≠ ':') :
    ∃ tl, valueGreedyColon (A ++ ':' :: D) = (some A, D) :: tl := by
  unfold valueGreedyColon
  rw [colonSplits_last A D hD]
  simp

theorem valueGreedyColon_nocolon (s : Str) (h : ∀ c ∈ s, c ≠ ':') : valueGreedyColon s = [] := by
  simp [valueGreedyColon, colonSplits_nocolon s h]

theorem rfindColon_last (A D : Str) (hD : ∀ c ∈ D, c ≠ ':') :
    rfindColon (A ++ ':' :: D) = some A.length := by
  unfold rfindColon
  rw [colonSplits_last A D hD]
  simp

/-! ### `findDotDot` -/

theorem findDotDot_cons (c : Char) (s : Str) :
    findDotDot (c :: s) =
      if c = '.' ∧ s.head? = some '.' then some 0 else (findDotDot s).map (· + 1) := by
  cases s with
  | nil =>
    by_cases hc : c = '.'
    · subst hc; simp [findDotDot]
    · simp [findDotDot]
  | cons d s =>
    by_cases hc : c = '.'
    · by_cases hd : d = '.'
      · subst hc; subst hd; simp [findDotDot]
      · subst hc
        have : findDotDot ('.' :: d :: s) = (findDotDot (d :: s)).map (· + 1) := by
          rw [findDotDot]; intro t _ h; exact hd (by simp at h; exact h.1)
        simp [this, hd]
    · have : findDotDot (c :: d :: s) = (findDotDot (d :: s)).map (· + 1) := by
        rw [findDotDot]; intro t h _; exact hc h
      simp [this, hc]

theorem findDotDot_nodot (s : Str) (h : ∀ c ∈ s, c ≠ '.') : findDotDot s = none := by
  induction s with
  | nil => rfl
  | cons c s ih =>
    have hc : c ≠ '.' := h c (by simp)
    rw [findDotDot_cons]
    simp [hc, ih (fun y hy => h y (by simp [hy]))]

/-- no ".." in `a`, none across the seam: the first ".." of `a ++ b` is the first one of `b` -/
theorem findDotDot_append_shift (a b : Str) (ha : findDotDot a = none)
    (hseam : ¬ (a.getLast? = some '.' ∧ b.head? = some '.')) :
    findDotDot (a ++ b) = (findDotDot b).map (· + a.length) := by
  induction a with
  | nil => simp
  | cons c a ih =>
    rw [findDotDot_cons] at ha
    split at ha
    · simp at ha
    · rename_i hc
      have ha' : findDotDot a = none := by simpa using ha
      cases a with
      | nil =>
        have : ¬ (c = '.' ∧ b.head? = some '.') := by simpa using hseam
        simp [findDotDot_cons, this]
      | cons d a =>
        have hseam' : ¬ ((d :: a).getLast? = some '.' ∧ b.head? = some '.') := by
          simpa [List.getLast?_cons_cons] using hseam
        have hc' : ¬ (c = '.' ∧ d = '.') := by simpa using hc
        rw [List.cons_append, findDotDot_cons, ih ha' hseam']
        simp only [List.cons_append, List.head?_cons, Option.some.injEq, hc', ↓reduceIte,
          Option.map_map, List.length_cons]
        congr 1

theorem findDotDot_append_none (a b : Str) (ha : findDotDot a = none) (hb : findDotDot b = none)
    (hseam : ¬ (a.getLast? = some '.' ∧ b.head? = some '.')) :
    findDotDot (a ++ b) = none := by
  rw [findDotDot_append_shift a b ha hseam, hb]; rfl

/-! ### `strip` under padding -/

theorem lstrip_allspace (a : Str) (ha : ∀ c ∈ a, isPySpace c = true) : lstrip a = [] :=
  (takeWhile_all a ha).2

theorem rstrip_append_allspace (s b : Str) (hb : ∀ c ∈ b, isPySpace c = true) :
    rstrip (s ++ b) = rstrip s := by
  unfold rstrip
  rw [List.reverse_append, (takeWhile_append_all b.reverse s.reverse (by simpa using hb)).2]

/-- padding on both sides disappears under `strip` -/
theorem strip_pad (a s b : Str) (ha : ∀ c ∈ a, isPySpace c = true)
    (hb : ∀ c ∈ b, isPySpace c = true) : strip (a ++ s ++ b) = strip s := by
  unfold strip
  have h1 : lstrip (a ++ s ++ b) = lstrip (s ++ b) := by
    unfold lstrip; rw [List.append_assoc]; exact (takeWhile_append_all a (s ++ b) ha).2
  rw [h1]
  have h2 : lstrip (s ++ b) = if (lstrip s).isEmpty then lstrip b else lstrip s ++ b := by
    unfold lstrip; exact List.dropWhile_append
  rw [h2]
  split
  · rename_i he
    have : lstrip s = [] := by simpa using he
    rw [this, lstrip_allspace b hb]
  · exact rstrip_append_allspace _ _ hb

theorem strip_nospace (s : Str) (h : ∀ c ∈ s, isPySpace c = false) : strip s = s := by
  have hl : lstrip s = s := by
    unfold lstrip
    cases s with
    | nil => rfl
    | cons c s => simp [h c (by simp)]
  unfold strip
  rw [hl]
  unfold rstrip
  cases hr : s.reverse with
  | nil => have : s = [] := by simpa using hr
           simp [this]
  | cons c r =>
    have hc : isPySpace c = false := h c (by
      have : c ∈ s.reverse := by rw [hr]; simp
      simpa using this)
    simp only [List.dropWhile_cons, hc]
    rw [← hr]; simp

theorem strip_nil : strip [] = [] := rfl

/-! ### character facts -/

theorem isAsciiDigit_not_space (c : Char) (h : isAsciiDigit c = true) : isPySpace c = false := by
  have h' : 48 ≤ c.toNat ∧ c.toNat ≤ 57 := by
    simpa [isAsciiDigit, Char.le_def, UInt32.le_iff_toNat_le, Char.toNat] using h
  simp [isPySpace]
  omega

end Lasio
